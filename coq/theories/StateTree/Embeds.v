(* StateTree/Embeds.v — the "survivors" clause: layouts related by deleting subtrees *)
From Coq Require Import List NArith Bool Lia Arith Sorted Permutation.
From Mimium Require Import Tables.StateTreeConsts StateTree.Model StateTree.Lemmas StateTree.Lcs.
Import ListNotations.
Local Open Scope N_scope.

(* `embeds new old`: new is obtained from old by deleting subtrees at any depth *)
Inductive embeds : skel -> skel -> Prop :=
| emb_eq : forall s, embeds s s
| emb_call : forall ns os, embeds_list ns os -> embeds (FnCall ns) (FnCall os)
with embeds_list : list skel -> list skel -> Prop :=
| el_nil : embeds_list [] []
| el_skip : forall ns o os, embeds_list ns os -> embeds_list ns (o :: os)
| el_keep : forall n o ns os, embeds n o -> embeds_list ns os -> embeds_list (n :: ns) (o :: os).

Definition is_leaf (s : skel) : Prop := match s with FnCall _ => False | _ => True end.

(* ---- the clause is false of the code as it stands (finding F1) ---- *)

Lemma survivors_refuted :
  exists o n : skel, embeds n o /\
    exists total ps, plan o n = Some (total, ps) /\ sumN (map p_sz ps) < size n.
Proof.
  exists (FnCall [FnCall [Mem 1; Feed 1; Mem 1]; FnCall [Mem 1; Delay 1]]),
         (FnCall [FnCall [Mem 1; Feed 1; Mem 1]]).
  split.
  - apply emb_call. apply el_keep; [apply emb_eq|]. apply el_skip. apply el_nil.
  - eexists _, _. split; [vm_compute; reflexivity|]. vm_compute. reflexivity.
Qed.

(* ---- plain subsequences (what embeds_list means between lists of leaves) ---- *)

Inductive subseq : list skel -> list skel -> Prop :=
| ss_nil : subseq [] []
| ss_skip : forall a y b, subseq a b -> subseq a (y :: b)
| ss_keep : forall x a b, subseq a b -> subseq (x :: a) (x :: b).

Lemma subseq_refl : forall a, subseq a a.
Proof. induction a; [apply ss_nil|apply ss_keep; auto]. Qed.

Lemma subseq_nil_l : forall b, subseq [] b.
Proof. induction b; constructor; auto. Qed.

Lemma subseq_cons_l : forall x a b, subseq (x :: a) b -> subseq a b.
Proof.
  intros x a b H. remember (x :: a) as xa eqn:E. revert x a E.
  induction H as [|a' y b H IH|x' a' b H IH]; intros x a E; try discriminate.
  - apply ss_skip. eapply IH; eauto.
  - injection E as -> ->. apply ss_skip. exact H.
Qed.

Lemma subseq_app : forall a b c d, subseq a b -> subseq c d -> subseq (a ++ c) (b ++ d).
Proof.
  intros a b c d H1 H2. induction H1; cbn [app]; auto; [apply ss_skip|apply ss_keep]; auto.
Qed.

Lemma subseq_rev : forall a b, subseq a b -> subseq (rev a) (rev b).
Proof.
  intros a b H. induction H as [|a y b H IH|x a b H IH]; cbn [rev].
  - constructor.
  - rewrite <- (app_nil_r (rev a)). apply subseq_app; auto. apply subseq_nil_l.
  - apply subseq_app; auto. apply subseq_refl.
Qed.

Lemma embeds_leaf_r : forall n o, is_leaf o -> embeds n o -> n = o.
Proof. intros n o L H. inversion H; subst; auto. contradiction. Qed.

Lemma embeds_list_subseq : forall ns os,
  Forall is_leaf os -> embeds_list ns os -> subseq ns os.
Proof.
  intros ns os L H. induction H as [|ns o os H IH|n o ns os Hn H IH].
  - apply ss_nil.
  - inversion L; subst. apply ss_skip; auto.
  - inversion L; subst. apply embeds_leaf_r in Hn; auto. subst. apply ss_keep; auto.
Qed.

Lemma embeds_call_subseq : forall ns os,
  Forall is_leaf os -> embeds (FnCall ns) (FnCall os) -> subseq ns os.
Proof.
  intros ns os L H. inversion H; subst.
  - apply subseq_refl.
  - apply embeds_list_subseq; auto.
Qed.

(* ---- sums ---- *)

Lemma sumN_cons : forall x l, sumN (x :: l) = x + sumN l.
Proof. reflexivity. Qed.

Lemma sumN_app : forall a b, sumN (a ++ b) = sumN a + sumN b.
Proof.
  unfold sumN. induction a as [|x a IH]; intros b; cbn [app fold_right].
  - rewrite N.add_0_l. reflexivity.
  - rewrite IH. rewrite N.add_assoc. reflexivity.
Qed.

Lemma sum_size_rev : forall l, sumN (map size (rev l)) = sumN (map size l).
Proof.
  induction l as [|x l IH]; [reflexivity|].
  cbn [rev]. rewrite map_app, sumN_app, IH.
  change (sumN (map size [x])) with (size x + 0).
  change (sumN (map size (x :: l))) with (size x + sumN (map size l)). lia.
Qed.

Lemma sum_nodup_sorted : forall l, StronglySorted before l ->
  sumN (map p_sz (nodup patch_eq_dec l)) = sumN (map p_sz l).
Proof.
  intros l H. induction H as [|a l H IH HF]; [reflexivity|].
  cbn [nodup]. destruct (in_dec patch_eq_dec a l) as [Hin|Hn].
  - rewrite Forall_forall in HF. destruct (HF a Hin) as [B1 _].
    rewrite IH. cbn [map]. rewrite sumN_cons. lia.
  - cbn [map]. rewrite !sumN_cons, IH. reflexivity.
Qed.

(* ---- tables of leaves ---- *)

Lemma leaf_bp : forall o n so dn, is_leaf o ->
  bp o n so dn = if nodes_match o n then [mkPatch so dn (size o)] else [].
Proof.
  intros o n so dn L. rewrite bp_unfold. destruct (nodes_match o n); auto.
  destruct o; auto. contradiction.
Qed.

Lemma score_at_table : forall T i j,
  score_at (map (map score_of) T) i j = score_of (table_at T i j).
Proof.
  intros T i j. unfold score_at, table_at.
  change (@nil N) with (map score_of []). rewrite map_nth.
  change 0 with (score_of []). rewrite map_nth. reflexivity.
Qed.

Lemma rows_of_row_length : forall f ncs dn os so,
  Forall (fun r => length r = length ncs) (rows_of f ncs dn os so).
Proof.
  intros f ncs dn os. induction os as [|x os IH]; intros so.
  - constructor.
  - cbn [rows_of]. fold (rows_of f ncs dn). constructor; auto. apply cols_of_length.
Qed.

Lemma scores_row_length : forall os ns so dn,
  Forall (fun r => length r = length ns) (map (map score_of) (mk_table os ns so dn)).
Proof.
  intros. apply Forall_map. eapply Forall_impl; [|apply rows_of_row_length].
  cbn beta. intros r Hr. now rewrite map_length.
Qed.

Lemma scores_length : forall os ns so dn,
  length (map (map score_of) (mk_table os ns so dn)) = length os.
Proof. intros. rewrite map_length. apply rows_of_length. Qed.

Lemma nth_mid : forall (ro : list skel) x oss d, nth (length ro) (rev ro ++ x :: oss) d = x.
Proof.
  intros. rewrite app_nth2 by (rewrite rev_length; lia).
  rewrite rev_length, Nat.sub_diag. reflexivity.
Qed.

Lemma nth_split : forall (l ro : list skel) x oss d,
  l = rev ro ++ x :: oss -> nth (length ro) l d = x.
Proof. intros l ro x oss d ->. apply nth_mid. Qed.

Section Flat.
  Variables (os ns : list skel) (so dn : N).
  Hypothesis Hos : Forall is_leaf os.

  Local Notation T := (mk_table os ns so dn).
  Local Notation scores := (map (map score_of) T).
  Local Notation dp := (dp_table (length ns) scores).

  Lemma T_at : forall i j d, (i < length os)%nat -> (j < length ns)%nat ->
    table_at T i j =
    if nodes_match (nth i os d) (nth j ns d)
    then [mkPatch (so + offs os i) (dn + offs ns j) (size (nth i os d))] else [].
  Proof.
    intros i j d Hi Hj. rewrite (table_at_in _ _ _ _ _ _ d Hi Hj).
    apply leaf_bp. rewrite Forall_forall in Hos. apply Hos. now apply nth_In.
  Qed.

  Lemma score_in : forall i j d, (i < length os)%nat -> (j < length ns)%nat ->
    score_at scores i j = if nodes_match (nth i os d) (nth j ns d) then 1 else 0.
  Proof.
    intros i j d Hi Hj. rewrite score_at_table, (T_at i j d Hi Hj).
    destruct (nodes_match _ _); reflexivity.
  Qed.

  Lemma dp_rec :
    (forall j, dp_at dp 0 j = 0) /\
    (forall i, (i <= length os)%nat -> dp_at dp i 0 = 0) /\
    (forall i j, (i < length os)%nat -> (j < length ns)%nat ->
       dp_at dp (S i) (S j) =
       dpF (dp_at dp i j) (score_at scores i j) (dp_at dp i (S j)) (dp_at dp (S i) j)).
  Proof.
    pose proof (dp_table_rec (length ns) scores (scores_row_length os ns so dn)) as H.
    cbv zeta in H. rewrite scores_length in H. exact H.
  Qed.

  Lemma dp_upper : forall i j, (i <= length os)%nat -> (j <= length ns)%nat ->
    dp_at dp i j <= N.of_nat i /\ dp_at dp i j <= N.of_nat j.
  Proof.
    destruct dp_rec as (Z0 & Z1 & R).
    induction i as [|i IHi]; intros j Hi Hj.
    - rewrite Z0. lia.
    - induction j as [|j IHj].
      + rewrite Z1 by lia. lia.
      + rewrite R by lia.
        pose proof (IHi j ltac:(lia) ltac:(lia)).
        pose proof (IHi (S j) ltac:(lia) ltac:(lia)).
        pose proof (IHj ltac:(lia)).
        rewrite (score_in i j (Mem 0)) by lia. unfold dpF.
        destruct (nodes_match _ _); cbn [N.ltb N.compare]; lia.
  Qed.

  Lemma dp_mono_i : forall i j, (i < length os)%nat -> (j <= length ns)%nat ->
    dp_at dp i j <= dp_at dp (S i) j.
  Proof.
    destruct dp_rec as (Z0 & Z1 & R). intros i [|j] Hi Hj.
    - rewrite !Z1 by lia. lia.
    - rewrite R by lia. unfold dpF. destruct (0 <? _); lia.
  Qed.

  Lemma dp_mono_j : forall i j, (i <= length os)%nat -> (j < length ns)%nat ->
    dp_at dp i j <= dp_at dp i (S j).
  Proof.
    destruct dp_rec as (Z0 & Z1 & R). intros [|i] j Hi Hj.
    - rewrite !Z0. lia.
    - rewrite R by lia. unfold dpF. destruct (0 <? _); lia.
  Qed.

  Lemma dp_diag : forall i j d, (i < length os)%nat -> (j < length ns)%nat ->
    nodes_match (nth i os d) (nth j ns d) = true ->
    dp_at dp i j + 1 <= dp_at dp (S i) (S j).
  Proof.
    destruct dp_rec as (Z0 & Z1 & R). intros i j d Hi Hj M.
    rewrite R by lia. rewrite (score_in i j d) by lia. rewrite M.
    unfold dpF. cbn [N.ltb N.compare]. lia.
  Qed.

  Lemma split_len : forall (l ro oss : list skel), l = rev ro ++ oss ->
    length l = (length ro + length oss)%nat.
  Proof. intros l ro oss ->. now rewrite app_length, rev_length. Qed.

  Lemma split_cons : forall (l : list skel) x ro oss, l = rev (x :: ro) ++ oss ->
    l = rev ro ++ x :: oss.
  Proof. intros l x ro oss ->. cbn [rev]. now rewrite <- app_assoc. Qed.

  (* lower bounds: the table sees every subsequence embedding *)
  Lemma dp_lower_new : forall rn ro, subseq rn ro ->
    forall oss nss, os = rev ro ++ oss -> ns = rev rn ++ nss ->
    N.of_nat (length rn) <= dp_at dp (length ro) (length rn).
  Proof.
    intros rn ro H. induction H as [|a y b H IH|x a b H IH]; intros oss nss Eo En.
    - cbn [length]. lia.
    - apply split_cons in Eo. specialize (IH _ _ Eo En).
      pose proof (split_len _ _ _ Eo) as Lo. pose proof (split_len _ _ _ En) as Ln.
      cbn [length] in *.
      pose proof (dp_mono_i (length b) (length a) ltac:(lia) ltac:(lia)). lia.
    - apply split_cons in Eo. apply split_cons in En. specialize (IH _ _ Eo En).
      pose proof (split_len _ _ _ Eo) as Lo. pose proof (split_len _ _ _ En) as Ln.
      cbn [length] in *.
      pose proof (dp_diag (length b) (length a) (Mem 0) ltac:(lia) ltac:(lia)) as D.
      rewrite (nth_split _ _ _ _ _ Eo), (nth_split _ _ _ _ _ En) in D.
      specialize (D (nodes_match_refl x)). lia.
  Qed.

  Lemma dp_lower_old : forall ro rn, subseq ro rn ->
    forall oss nss, os = rev ro ++ oss -> ns = rev rn ++ nss ->
    N.of_nat (length ro) <= dp_at dp (length ro) (length rn).
  Proof.
    intros ro rn H. induction H as [|a y b H IH|x a b H IH]; intros oss nss Eo En.
    - cbn [length]. lia.
    - apply split_cons in En. specialize (IH _ _ Eo En).
      pose proof (split_len _ _ _ Eo) as Lo. pose proof (split_len _ _ _ En) as Ln.
      cbn [length] in *.
      pose proof (dp_mono_j (length a) (length b) ltac:(lia) ltac:(lia)). lia.
    - apply split_cons in Eo. apply split_cons in En. specialize (IH _ _ Eo En).
      pose proof (split_len _ _ _ Eo) as Lo. pose proof (split_len _ _ _ En) as Ln.
      cbn [length] in *.
      pose proof (dp_diag (length a) (length b) (Mem 0) ltac:(lia) ltac:(lia)) as D.
      rewrite (nth_split _ _ _ _ _ Eo), (nth_split _ _ _ _ _ En) in D.
      specialize (D (nodes_match_refl x)). lia.
  Qed.

  Definition W (rs : list diff_result) : N := sumN (map p_sz (collect T rs)).

  Lemma W_common : forall i j acc,
    W (Common i j :: acc) = sumN (map p_sz (table_at T i j)) + W acc.
  Proof. intros. unfold W. cbn [collect]. now rewrite map_app, sumN_app. Qed.

  Lemma W_match : forall ro rn o n oss nss acc,
    os = rev ro ++ o :: oss -> ns = rev rn ++ n :: nss -> nodes_match o n = true ->
    W (Common (length ro) (length rn) :: acc) = size o + W acc.
  Proof.
    intros ro rn o n oss nss acc Eo En M. rewrite W_common.
    pose proof (split_len _ _ _ Eo) as Lo. pose proof (split_len _ _ _ En) as Ln.
    cbn [length] in *.
    rewrite (T_at (length ro) (length rn) (Mem 0)) by lia.
    rewrite (nth_split _ _ _ _ _ Eo), (nth_split _ _ _ _ _ En), M.
    cbn [map p_sz]. rewrite sumN_cons. cbn [sumN fold_right]. lia.
  Qed.

  Lemma score_mid : forall ro rn o n oss nss,
    os = rev ro ++ o :: oss -> ns = rev rn ++ n :: nss ->
    score_at scores (length ro) (length rn) = if nodes_match o n then 1 else 0.
  Proof.
    intros ro rn o n oss nss Eo En.
    pose proof (split_len _ _ _ Eo) as Lo. pose proof (split_len _ _ _ En) as Ln.
    cbn [length] in *.
    rewrite (score_in (length ro) (length rn) (Mem 0)) by lia.
    now rewrite (nth_split _ _ _ _ _ Eo), (nth_split _ _ _ _ _ En).
  Qed.

  (* new ⊑ old: every child of new is carried *)
  Lemma bt_new : forall fuel ro rn oss nss acc,
    os = rev ro ++ oss -> ns = rev rn ++ nss ->
    (length ro + length rn <= fuel)%nat -> subseq rn ro ->
    W (backtrack fuel scores dp (length ro) (length rn) acc) = sumN (map size rn) + W acc.
  Proof.
    induction fuel as [|fuel IH]; intros ro rn oss nss acc Eo En Hf Hs.
    - destruct ro, rn; cbn [length] in Hf; try lia.
      cbn [length backtrack map sumN fold_right]. lia.
    - destruct ro as [|o ro], rn as [|n rn]; cbn [length backtrack].
      + cbn [map sumN fold_right]. lia.
      + inversion Hs.
      + apply split_cons in Eo.
        rewrite (IH ro [] _ nss _ Eo En) by (cbn [length] in *; try lia; apply subseq_nil_l).
        reflexivity.
      + apply split_cons in Eo. apply split_cons in En.
        rewrite (score_mid _ _ _ _ _ _ Eo En).
        cbn [length] in Hf.
        destruct (nodes_match o n) eqn:M.
        * change (0 <? 1) with true. cbv iota.
          assert (Hs' : subseq rn ro).
          { inversion Hs; subst; auto. eapply subseq_cons_l; eauto. }
          rewrite (IH ro rn _ _ _ Eo En) by (auto; lia).
          rewrite (W_match _ _ _ _ _ _ _ Eo En M).
          apply nodes_match_eq in M. subst n.
          cbn [map]. rewrite sumN_cons. lia.
        * change (0 <? 0) with false. cbv iota.
          assert (Hs' : subseq (n :: rn) ro).
          { inversion Hs; subst; auto. rewrite nodes_match_refl in M. discriminate. }
          pose proof (split_len _ _ _ Eo) as Lo. pose proof (split_len _ _ _ En) as Ln.
          cbn [length] in *.
          pose proof (dp_lower_new _ _ Hs' (o :: oss) nss Eo
                        ltac:(rewrite En; cbn [rev]; now rewrite <- app_assoc)) as LB.
          pose proof (dp_upper (S (length ro)) (length rn) ltac:(lia) ltac:(lia)) as [_ UB].
          cbn [length] in LB.
          destruct (N.ltb_spec (dp_at dp (S (length ro)) (length rn))
                               (dp_at dp (length ro) (S (length rn)))) as [_|C]; [|lia].
          change (S (length rn)) with (length (n :: rn)).
          rewrite (IH ro (n :: rn) (o :: oss) nss _ Eo) ; auto.
          -- rewrite En. cbn [rev]. now rewrite <- app_assoc.
          -- cbn [length]. lia.
  Qed.

  (* old ⊑ new: every child of old is carried *)
  Lemma bt_old : forall fuel ro rn oss nss acc,
    os = rev ro ++ oss -> ns = rev rn ++ nss ->
    (length ro + length rn <= fuel)%nat -> subseq ro rn ->
    W (backtrack fuel scores dp (length ro) (length rn) acc) = sumN (map size ro) + W acc.
  Proof.
    induction fuel as [|fuel IH]; intros ro rn oss nss acc Eo En Hf Hs.
    - destruct ro, rn; cbn [length] in Hf; try lia.
      cbn [length backtrack map sumN fold_right]. lia.
    - destruct ro as [|o ro], rn as [|n rn]; cbn [length backtrack].
      + cbn [map sumN fold_right]. lia.
      + apply split_cons in En.
        rewrite (IH [] rn oss _ _ Eo En) by (cbn [length] in *; try lia; apply subseq_nil_l).
        reflexivity.
      + inversion Hs.
      + apply split_cons in Eo. apply split_cons in En.
        rewrite (score_mid _ _ _ _ _ _ Eo En).
        cbn [length] in Hf.
        destruct (nodes_match o n) eqn:M.
        * change (0 <? 1) with true. cbv iota.
          assert (Hs' : subseq ro rn).
          { inversion Hs; subst; auto. eapply subseq_cons_l; eauto. }
          rewrite (IH ro rn _ _ _ Eo En) by (auto; lia).
          rewrite (W_match _ _ _ _ _ _ _ Eo En M).
          cbn [map]. rewrite sumN_cons. lia.
        * change (0 <? 0) with false. cbv iota.
          assert (Hs' : subseq (o :: ro) rn).
          { inversion Hs; subst; auto. rewrite nodes_match_refl in M. discriminate. }
          pose proof (split_len _ _ _ Eo) as Lo. pose proof (split_len _ _ _ En) as Ln.
          cbn [length] in *.
          pose proof (dp_lower_old _ _ Hs' oss (n :: nss)
                        ltac:(rewrite Eo; cbn [rev]; now rewrite <- app_assoc) En) as LB.
          pose proof (dp_upper (length ro) (S (length rn)) ltac:(lia) ltac:(lia)) as [UB _].
          cbn [length] in LB.
          destruct (N.ltb_spec (dp_at dp (S (length ro)) (length rn))
                               (dp_at dp (length ro) (S (length rn)))) as [C|_]; [lia|].
          change (S (length ro)) with (length (o :: ro)).
          rewrite (IH (o :: ro) rn oss (n :: nss) _) ; auto.
          -- rewrite Eo. cbn [rev]. now rewrite <- app_assoc.
          -- cbn [length]. lia.
  Qed.

  Lemma flat_new : subseq ns os ->
    W (lcs_by_score (length os) (length ns) scores) = sumN (map size ns).
  Proof.
    intros H. unfold lcs_by_score.
    pose proof (bt_new (length os + length ns) (rev os) (rev ns) [] [] []) as B.
    rewrite !rev_involutive, !app_nil_r, !rev_length in B.
    rewrite B; auto using subseq_rev. rewrite sum_size_rev. unfold W. cbn. lia.
  Qed.

  Lemma flat_old : subseq os ns ->
    W (lcs_by_score (length os) (length ns) scores) = sumN (map size os).
  Proof.
    intros H. unfold lcs_by_score.
    pose proof (bt_old (length os + length ns) (rev os) (rev ns) [] [] []) as B.
    rewrite !rev_involutive, !app_nil_r, !rev_length in B.
    rewrite B; auto using subseq_rev. rewrite sum_size_rev. unfold W. cbn. lia.
  Qed.
End Flat.

Lemma bp_flat_sum : forall os ns,
  nodes_match (FnCall os) (FnCall ns) = false ->
  sumN (map p_sz (bp (FnCall os) (FnCall ns) 0 0)) =
  W os ns 0 0 (lcs_by_score (length os) (length ns) (map (map score_of) (mk_table os ns 0 0))).
Proof.
  intros os ns M. rewrite bp_unfold, M. cbv zeta. unfold W.
  apply sum_nodup_sorted. apply collect_sorted.
Qed.

Theorem survivors_flat : forall os ns : list skel,
  Forall is_leaf os -> Forall is_leaf ns ->
  forall total ps, plan (FnCall os) (FnCall ns) = Some (total, ps) ->
    (embeds (FnCall ns) (FnCall os) -> sumN (map p_sz ps) = size (FnCall ns)) /\
    (embeds (FnCall os) (FnCall ns) -> sumN (map p_sz ps) = size (FnCall os)).
Proof.
  intros os ns Lo Ln total ps HP.
  unfold plan in HP. destruct (skel_eqb _ _); [discriminate|].
  injection HP as <- <-. unfold take_diff.
  destruct (nodes_match (FnCall os) (FnCall ns)) eqn:M.
  - rewrite bp_unfold, M. apply nodes_match_eq in M. rewrite <- M.
    cbn [map sumN fold_right p_sz]. split; intros _; lia.
  - rewrite (bp_flat_sum os ns M). rewrite !size_FnCall. split; intros H.
    + apply flat_new; auto. apply embeds_call_subseq; auto.
    + apply flat_old; auto. apply embeds_call_subseq; auto.
Qed.
