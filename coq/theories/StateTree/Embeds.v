(* StateTree/Embeds.v — the "survivors" clause: layouts related by deleting subtrees *)
From Coq Require Import List NArith Bool Lia Arith Sorted Permutation.
From Mimium Require Import Tables.StateTreeConsts StateTree.Model StateTree.Lemmas StateTree.Lcs
  StateTree.Apply.
Import ListNotations.
Local Open Scope N_scope.

(* `embeds new old`: new is obtained from old by deleting subtrees at any depth *)
Inductive embeds : skel -> skel -> Prop :=
| emb_eq : forall s, embeds s s
| emb_call : forall ns os, embeds_list ns os -> embeds (FnCall ns) (FnCall os)
with embeds_list : list skel -> list skel -> Prop :=
| el_nil : embeds_list [] []
| el_skip : forall ns o os, embeds_list ns os -> embeds_list ns (o :: os)
| el_keep : forall n o ns os, embeds n o -> embeds_list ns os -> embeds_list (n :: ns) (o :: os).

Scheme embeds_mind := Minimality for embeds Sort Prop
  with embeds_list_mind := Minimality for embeds_list Sort Prop.

(* ------------------------------------------------------------------ *)
(* sums and prefix sums                                                *)

Lemma sumN_cons : forall x l, sumN (x :: l) = x + sumN l.
Proof. reflexivity. Qed.

Lemma sumN_app : forall a b, sumN (a ++ b) = sumN a + sumN b.
Proof.
  unfold sumN. induction a as [|x a IH]; intros b; cbn [app fold_right].
  - rewrite N.add_0_l. reflexivity.
  - rewrite IH. rewrite N.add_assoc. reflexivity.
Qed.

Lemma sumN_zero : forall l, sumN l = 0 -> forall x, In x l -> x = 0.
Proof.
  induction l as [|y l IH]; intros H x []; rewrite sumN_cons in H.
  - subst. lia.
  - apply IH; auto. lia.
Qed.

Definition pre (l : list N) (i : nat) : N := sumN (firstn i l).

Lemma pre_0 : forall l, pre l 0 = 0.
Proof. reflexivity. Qed.

Lemma pre_cons_S : forall x l i, pre (x :: l) (S i) = x + pre l i.
Proof. reflexivity. Qed.

Lemma pre_step : forall l i, pre l (S i) = pre l i + nth i l 0.
Proof.
  induction l as [|x l IH]; intros i.
  - destruct i; reflexivity.
  - destruct i as [|i].
    + rewrite pre_cons_S, !pre_0. cbn [nth]. lia.
    + rewrite !pre_cons_S, IH. cbn [nth]. lia.
Qed.

Lemma pre_mono : forall l i i', (i <= i')%nat -> pre l i <= pre l i'.
Proof.
  intros l i i' H. induction H as [|k _ IH]; [lia|]. rewrite pre_step. lia.
Qed.

Lemma pre_total : forall l i, pre l i <= sumN l.
Proof.
  induction l as [|x l IH]; intros [|i]; try (rewrite pre_0; lia).
  - cbn. lia.
  - rewrite pre_cons_S, sumN_cons. specialize (IH i). lia.
Qed.

Lemma offs_pre : forall l i, offs l i = pre (map size l) i.
Proof. intros. unfold offs, pre. now rewrite firstn_map. Qed.

Lemma pre_locate : forall l x, x < sumN l ->
  exists j, (j < length l)%nat /\ pre l j <= x < pre l (S j).
Proof.
  induction l as [|y l IH]; intros x H.
  - cbn in H. lia.
  - rewrite sumN_cons in H. destruct (N.lt_ge_cases x y) as [L|L].
    + exists O. rewrite pre_cons_S, !pre_0. cbn [length]. split; lia.
    + destruct (IH (x - y)) as (j & Hj & B); [lia|].
      exists (S j). rewrite !pre_cons_S. cbn [length]. split; lia.
Qed.

Lemma nth_map_in : forall (A B : Type) (f : A -> B) l j d d', (j < length l)%nat ->
  nth j (map f l) d' = f (nth j l d).
Proof.
  intros A B f l j d d' H. rewrite (nth_indep _ d' (f d)) by (now rewrite map_length).
  apply map_nth.
Qed.

(* ------------------------------------------------------------------ *)
(* a strictly increasing family of weighted picks that reaches the     *)
(* total must pick every non-zero entry at full weight                 *)

Section Tight.
  Variables (pr : nat * nat -> nat) (w : nat * nat -> N) (vs : list N).

  Definition wsum (cs : list (nat * nat)) : N := sumN (map w cs).

  Lemma tight : forall cs k,
    StronglySorted (fun a b => (pr a < pr b)%nat) cs ->
    (forall c, In c cs -> (k <= pr c)%nat /\ w c <= nth (pr c) vs 0) ->
    wsum cs + pre vs k <= sumN vs /\
    (wsum cs + pre vs k = sumN vs ->
       (forall c, In c cs -> w c = nth (pr c) vs 0) /\
       (forall j, (k <= j)%nat -> (forall c, In c cs -> pr c <> j) -> nth j vs 0 = 0)).
  Proof.
    intros cs k HS. revert k.
    induction HS as [|c cs HS IH HF]; intros k HC.
    - unfold wsum. cbn [map]. change (sumN []) with 0.
      pose proof (pre_total vs k). split; [lia|].
      intros E. split; [intros c []|].
      intros j Hj _.
      pose proof (pre_mono vs k j Hj). pose proof (pre_total vs (S j)).
      rewrite pre_step in *. lia.
    - rewrite Forall_forall in HF.
      destruct (HC c (or_introl eq_refl)) as [Kc Wc].
      destruct (IH (S (pr c))) as [IH1 IH2].
      { intros c' Hc'. destruct (HC c' (or_intror Hc')) as [_ W']. split; auto.
        apply HF in Hc'. lia. }
      unfold wsum in *. cbn [map]. rewrite sumN_cons.
      pose proof (pre_mono vs k (pr c) Kc) as M. rewrite pre_step in IH1, IH2.
      split; [lia|].
      intros E. destruct IH2 as [I1 I2]; [lia|].
      split.
      + intros c' [<-|Hc']; [lia|auto].
      + intros j Hj Hn.
        destruct (Nat.lt_trichotomy j (pr c)) as [L|[L|L]].
        * pose proof (pre_mono vs k j Hj). pose proof (pre_mono vs (S j) (pr c) L).
          rewrite pre_step in *. lia.
        * exfalso. apply (Hn c); auto. now left.
        * apply I2; [lia|]. intros c' Hc'. apply Hn. now right.
  Qed.

  Lemma pr_dec : forall cs j,
    (exists c, In c cs /\ pr c = j) \/ (forall c, In c cs -> pr c <> j).
  Proof.
    induction cs as [|c cs IH]; intros j.
    - right. intros c [].
    - destruct (Nat.eq_dec (pr c) j) as [E|E].
      + left. exists c. split; [now left|assumption].
      + destruct (IH j) as [(c' & Hc' & E')|Hn].
        * left. exists c'. split; [now right|assumption].
        * right. intros c' [<-|Hc']; auto.
  Qed.

  (* szs: the word sizes of the same entries; entries without cells have no words *)
  Lemma tight_locate : forall cs (szs : list N),
    StronglySorted (fun a b => (pr a < pr b)%nat) cs ->
    (forall c, In c cs -> w c <= nth (pr c) vs 0) ->
    wsum cs = sumN vs ->
    (forall j, nth j vs 0 = 0 -> nth j szs 0 = 0) ->
    forall x, x < sumN szs ->
    exists c, In c cs /\ w c = nth (pr c) vs 0 /\ nth (pr c) vs 0 <> 0 /\
              pre szs (pr c) <= x < pre szs (S (pr c)).
  Proof.
    intros cs szs HS HW E HZ x Hx.
    destruct (tight cs O HS) as [_ T].
    { intros c Hc. split; [lia|auto]. }
    destruct T as [T1 T2]; [rewrite pre_0; lia|].
    destruct (pre_locate szs x Hx) as (j & Hj & B).
    assert (NZ : nth j vs 0 <> 0).
    { intros Z. apply HZ in Z. rewrite pre_step in B. lia. }
    destruct (pr_dec cs j) as [(c & Hc & <-)|Hn].
    - exists c. repeat split; auto; lia.
    - exfalso. apply NZ. apply T2; [lia|assumption].
  Qed.
End Tight.

Lemma SSorted_impl : forall (A : Type) (R R' : A -> A -> Prop) l,
  (forall a b, R a b -> R' a b) -> StronglySorted R l -> StronglySorted R' l.
Proof.
  intros A R R' l H HS. induction HS as [|a l HS IH HF]; constructor; auto.
  eapply Forall_impl; [|exact HF]. auto.
Qed.

(* ------------------------------------------------------------------ *)
(* sorted patches: covering an interval  <->  carrying its length      *)

Section Intervals.
  Variable st : patch -> N.
  Hypothesis Hb : forall p q, before p q -> st p + p_sz p <= st q.

  Definition cov (ps : list patch) (i : N) : Prop :=
    exists p, In p ps /\ st p <= i < st p + p_sz p.

  Lemma sum_le_range : forall l lo hi, StronglySorted before l -> lo <= hi ->
    (forall p, In p l -> lo <= st p /\ st p + p_sz p <= hi) ->
    sumN (map p_sz l) + lo <= hi.
  Proof.
    intros l lo hi HS. revert lo. induction HS as [|a l HS IH HF]; intros lo Hlo HI.
    - cbn. lia.
    - cbn [map]. rewrite sumN_cons. rewrite Forall_forall in HF.
      destruct (HI a (or_introl eq_refl)) as [A1 A2].
      specialize (IH (st a + p_sz a) A2).
      assert (sumN (map p_sz l) + (st a + p_sz a) <= hi); [|lia].
      apply IH. intros p Hp. destruct (HI p (or_intror Hp)) as [_ P2].
      split; auto.
  Qed.

  Lemma sum_ge_cover : forall l lo hi, StronglySorted before l ->
    (forall i, lo <= i < hi -> cov l i) ->
    hi <= sumN (map p_sz l) + lo.
  Proof.
    intros l lo hi HS. revert lo. induction HS as [|a l HS IH HF]; intros lo HC.
    - destruct (N.le_gt_cases hi lo) as [|L]; [cbn; lia|].
      destruct (HC lo ltac:(lia)) as (p & [] & _).
    - cbn [map]. rewrite sumN_cons. rewrite Forall_forall in HF.
      destruct (N.le_gt_cases hi lo) as [|L]; [lia|].
      destruct (HC lo ltac:(lia)) as (p & [<-|Hp] & Cp).
      + assert (hi <= sumN (map p_sz l) + (st a + p_sz a)); [|lia].
        apply IH. intros i Hi. destruct (HC i ltac:(lia)) as (q & [<-|Hq] & Cq); [lia|].
        exists q. auto.
      + pose proof (Hb a p (HF p Hp)).
        assert (hi <= sumN (map p_sz l) + lo); [|lia].
        apply IH. intros i Hi. destruct (HC i Hi) as (q & [<-|Hq] & Cq); [lia|].
        exists q. auto.
  Qed.
End Intervals.

(* ------------------------------------------------------------------ *)
(* cells and words                                                     *)

Lemma count_cells_FnCall : forall cs, count_cells (FnCall cs) = sumN (map count_cells cs).
Proof. reflexivity. Qed.

Lemma cells_zero_size : forall s, count_cells s = 0 -> size s = 0.
Proof.
  induction s as [l|x|x|cs IH] using skel_ind'; intros H; try discriminate.
  rewrite count_cells_FnCall in H. rewrite size_FnCall.
  induction IH as [|c cs Hc _ IHcs]; [reflexivity|].
  cbn [map] in *. rewrite sumN_cons in *.
  rewrite Hc by lia. rewrite IHcs by lia. reflexivity.
Qed.

Lemma score_at_table : forall sc T i j,
  score_at (map (map (pair_score sc)) T) i j = pair_score sc (tentry_at T i j).
Proof.
  intros sc T i j. unfold score_at, tentry_at.
  change (@nil N) with (map (pair_score sc) []). rewrite map_nth.
  change 0 with (pair_score sc (([], 0), false)). rewrite map_nth. reflexivity.
Qed.

Lemma csum_commons : forall scores rs,
  csum scores rs = wsum (fun c => score_at scores (fst c) (snd c)) (commons rs).
Proof.
  intros scores rs. unfold wsum.
  induction rs as [|[i j|i|j] rs IH]; cbn [csum commons map fst snd]; auto.
  now rewrite sumN_cons, IH.
Qed.

Lemma collect_cells_commons : forall T rs,
  collect_cells T rs = wsum (fun c => snd (table_at T (fst c) (snd c))) (commons rs).
Proof.
  intros T rs. unfold wsum.
  induction rs as [|[i j|i|j] rs IH]; cbn [collect_cells commons map fst snd]; auto.
  now rewrite sumN_cons, IH.
Qed.

Lemma rows_of_row_length : forall f ncs dn os so,
  Forall (fun r => length r = length ncs) (rows_of f ncs dn os so).
Proof.
  intros f ncs dn os. induction os as [|x os IH]; intros so.
  - constructor.
  - cbn [rows_of]. fold (rows_of f ncs dn). constructor; auto. apply cols_of_length.
Qed.

Lemma scores_row_length : forall sc os ns so dn,
  Forall (fun r => length r = length ns) (map (map (pair_score sc)) (mk_table os ns so dn)).
Proof.
  intros. apply Forall_map. eapply Forall_impl; [|apply rows_of_row_length].
  cbn beta. intros r Hr. now rewrite map_length.
Qed.

Lemma scores_length : forall sc os ns so dn,
  length (map (map (pair_score sc)) (mk_table os ns so dn)) = length os.
Proof. intros. rewrite map_length. apply rows_of_length. Qed.

Lemma In_collect : forall T rs c p,
  In c (commons rs) -> In p (fst (table_at T (fst c) (snd c))) -> In p (collect T rs).
Proof.
  intros T rs c p Hc Hp. rewrite collect_commons. apply in_flat_map. eauto.
Qed.

(* ------------------------------------------------------------------ *)
(* the carried-cell count of bp: upper bounds, and what equality means *)

Definition cells_ok (o : skel) : Prop :=
  forall n so dn,
    snd (bp o n so dn) <= count_cells o /\
    snd (bp o n so dn) <= count_cells n /\
    (snd (bp o n so dn) = count_cells n ->
       forall i, dn <= i < dn + size n -> cov p_dst (fst (bp o n so dn)) i) /\
    (snd (bp o n so dn) = count_cells o ->
       forall i, so <= i < so + size o -> cov p_src (fst (bp o n so dn)) i).

Lemma cells_ok_nil : forall o n so dn,
  count_cells o = 1 \/ count_cells n = 1 ->
  (count_cells o = 0 -> size o = 0) -> (count_cells n = 0 -> size n = 0) ->
  let e : entry := ([], 0) in
  snd e <= count_cells o /\ snd e <= count_cells n /\
  (snd e = count_cells n -> forall i, dn <= i < dn + size n -> cov p_dst (fst e) i) /\
  (snd e = count_cells o -> forall i, so <= i < so + size o -> cov p_src (fst e) i).
Proof.
  intros o n so dn H Zo Zn e. subst e. cbn [fst snd].
  split; [lia|]. split; [lia|]. split.
  - intros E i Hi. rewrite Zn in Hi by auto. lia.
  - intros E i Hi. rewrite Zo in Hi by auto. lia.
Qed.

Lemma bp_cells : forall o, cells_ok o.
Proof.
  unfold cells_ok.
  induction o as [l|x|x|ocs IH] using skel_ind'; intros n so dn; rewrite bp_unfold;
    (destruct (nodes_match _ n) eqn:E;
     [apply nodes_match_eq in E; subst n; cbn [fst snd];
      repeat split; try lia; intros _ i Hi; eexists; (split; [left; reflexivity|]);
      cbn [p_src p_dst p_sz]; lia|]);
    try (apply cells_ok_nil; [left; reflexivity|discriminate|apply cells_zero_size]).
  destruct n as [l|x|x|ncs];
    try (apply cells_ok_nil; [right; reflexivity|apply cells_zero_size|discriminate]).
  cbv zeta. cbn [fst snd].
  set (T := mk_table ocs ncs so dn).
  set (rs := lcs_by_score _ _ _).
  assert (Hcs : StronglySorted lt2 (commons rs)) by apply lcs_sorted.
  rewrite collect_cells_commons.
  set (w := fun c : nat * nat => snd (table_at T (fst c) (snd c))).
  rewrite Forall_forall in IH.
  (* per-entry facts *)
  assert (HW : forall c,
             w c <= nth (fst c) (map count_cells ocs) 0 /\
             w c <= nth (snd c) (map count_cells ncs) 0).
  { intros [i j]. unfold w. cbn [fst snd]. subst T.
    destruct (Nat.lt_ge_cases i (length ocs)) as [Hi|Hi];
      [destruct (Nat.lt_ge_cases j (length ncs)) as [Hj|Hj]|];
      try (rewrite table_at_out by lia; cbn [snd]; lia).
    rewrite (table_at_in _ _ _ _ _ _ (Mem 0) Hi Hj).
    rewrite (nth_map_in _ _ count_cells ocs i (Mem 0) 0 Hi).
    rewrite (nth_map_in _ _ count_cells ncs j (Mem 0) 0 Hj).
    destruct (IH _ (nth_In ocs (Mem 0) Hi) (nth j ncs (Mem 0)) (so + offs ocs i) (dn + offs ncs j))
      as (U1 & U2 & _). auto. }
  assert (Ssnd : StronglySorted (fun a b => (snd a < snd b)%nat) (commons rs)).
  { eapply SSorted_impl; [|exact Hcs]. intros a b [_ H]. exact H. }
  assert (Sfst : StronglySorted (fun a b => (fst a < fst b)%nat) (commons rs)).
  { eapply SSorted_impl; [|exact Hcs]. intros a b [H _]. exact H. }
  rewrite !count_cells_FnCall, !size_FnCall.
  split; [|split; [|split]].
  - destruct (tight fst w (map count_cells ocs) (commons rs) O Sfst) as [B _].
    { intros c _. split; [lia|apply HW]. }
    rewrite pre_0 in B. lia.
  - destruct (tight snd w (map count_cells ncs) (commons rs) O Ssnd) as [B _].
    { intros c _. split; [lia|apply HW]. }
    rewrite pre_0 in B. lia.
  - intros Eq i Hi.
    destruct (tight_locate snd w (map count_cells ncs) (commons rs) (map size ncs) Ssnd)
      with (x := i - dn) as (c & Hc & Wc & NZ & Bc); auto.
    { intros c _. apply HW. }
    { intros j Z. destruct (Nat.lt_ge_cases j (length ncs)) as [Hj|Hj].
      - rewrite (nth_map_in _ _ count_cells ncs j (Mem 0) 0 Hj) in Z.
        rewrite (nth_map_in _ _ size ncs j (Mem 0) 0 Hj). now apply cells_zero_size.
      - apply nth_overflow. now rewrite map_length. }
    { lia. }
    destruct c as [i0 j]. cbn [fst snd] in *. unfold w in Wc. cbn [fst snd] in Wc.
    assert (Hj : (j < length ncs)%nat).
    { destruct (Nat.lt_ge_cases j (length ncs)); auto.
      exfalso. apply NZ. apply nth_overflow. now rewrite map_length. }
    assert (Hi0 : (i0 < length ocs)%nat).
    { destruct (Nat.lt_ge_cases i0 (length ocs)); auto.
      exfalso. apply NZ. rewrite <- Wc. subst T. rewrite table_at_out by lia. reflexivity. }
    rewrite (nth_map_in _ _ count_cells ncs j (Mem 0) 0 Hj) in Wc.
    rewrite pre_step, (nth_map_in _ _ size ncs j (Mem 0) 0 Hj), <- offs_pre in Bc.
    pose proof (In_collect T rs (i0, j)) as IC. cbn [fst snd] in IC.
    subst T. rewrite (table_at_in _ _ _ _ _ _ (Mem 0) Hi0 Hj) in Wc, IC.
    destruct (IH _ (nth_In ocs (Mem 0) Hi0) (nth j ncs (Mem 0)) (so + offs ocs i0) (dn + offs ncs j))
      as (_ & _ & CD & _).
    destruct (CD Wc i ltac:(lia)) as (p & Hp & Cp).
    exists p. split; auto. apply nodup_In. apply IC; auto.
  - intros Eq i Hi.
    destruct (tight_locate fst w (map count_cells ocs) (commons rs) (map size ocs) Sfst)
      with (x := i - so) as (c & Hc & Wc & NZ & Bc); auto.
    { intros c _. apply HW. }
    { intros j Z. destruct (Nat.lt_ge_cases j (length ocs)) as [Hj|Hj].
      - rewrite (nth_map_in _ _ count_cells ocs j (Mem 0) 0 Hj) in Z.
        rewrite (nth_map_in _ _ size ocs j (Mem 0) 0 Hj). now apply cells_zero_size.
      - apply nth_overflow. now rewrite map_length. }
    { lia. }
    destruct c as [i0 j]. cbn [fst snd] in *. unfold w in Wc. cbn [fst snd] in Wc.
    assert (Hi0 : (i0 < length ocs)%nat).
    { destruct (Nat.lt_ge_cases i0 (length ocs)); auto.
      exfalso. apply NZ. apply nth_overflow. now rewrite map_length. }
    assert (Hj : (j < length ncs)%nat).
    { destruct (Nat.lt_ge_cases j (length ncs)); auto.
      exfalso. apply NZ. rewrite <- Wc. subst T. rewrite table_at_out by lia. reflexivity. }
    rewrite (nth_map_in _ _ count_cells ocs i0 (Mem 0) 0 Hi0) in Wc.
    rewrite pre_step, (nth_map_in _ _ size ocs i0 (Mem 0) 0 Hi0), <- offs_pre in Bc.
    pose proof (In_collect T rs (i0, j)) as IC. cbn [fst snd] in IC.
    subst T. rewrite (table_at_in _ _ _ _ _ _ (Mem 0) Hi0 Hj) in Wc, IC.
    destruct (IH _ (nth_In ocs (Mem 0) Hi0) (nth j ncs (Mem 0)) (so + offs ocs i0) (dn + offs ncs j))
      as (_ & _ & _ & CS).
    destruct (CS Wc i ltac:(lia)) as (p & Hp & Cp).
    exists p. split; auto. apply nodup_In. apply IC; auto.
Qed.

(* ------------------------------------------------------------------ *)
(* pair scores                                                         *)

Lemma pair_score_ge : forall sc te, snd (fst te) * sc <= pair_score sc te.
Proof.
  intros sc [[ps cells] ex]. cbn [fst snd pair_score].
  destruct (N.ltb_spec 0 cells) as [H|H]; [lia|].
  replace cells with 0 by lia. lia.
Qed.

Lemma pair_score_le : forall sc te,
  pair_score sc te <= snd (fst te) * sc + (if snd te then 1 else 0).
Proof.
  intros sc [[ps cells] ex]. cbn [fst snd pair_score].
  destruct (0 <? cells); lia.
Qed.

(* value of a pair of identical children *)
Definition vfull (sc : N) (c : skel) : N :=
  if 0 <? count_cells c then count_cells c * sc + 1 else 0.

Lemma pair_score_le_vfull : forall sc te c, snd (fst te) <= count_cells c ->
  pair_score sc te <= vfull sc c.
Proof.
  intros sc [[ps cells] ex] c H. cbn [fst snd] in H. unfold vfull. cbn [pair_score].
  destruct (N.ltb_spec 0 cells) as [L|L]; [|lia].
  destruct (N.ltb_spec 0 (count_cells c)) as [L'|L']; [|lia].
  pose proof (N.mul_le_mono_r _ _ sc H). destruct ex; lia.
Qed.

Lemma pair_score_full : forall sc te C, snd (fst te) <= C ->
  pair_score sc te = C * sc + 1 -> snd te = true.
Proof.
  intros sc [[ps cells] ex] C H E. cbn [fst snd] in *. cbn [pair_score] in E.
  destruct ex; auto. exfalso.
  pose proof (N.mul_le_mono_r _ _ sc H). destruct (0 <? cells); lia.
Qed.

Lemma pair_score_exact : forall sc x so dn,
  pair_score sc (bp x x so dn, nodes_match x x) = vfull sc x.
Proof.
  intros. rewrite bp_unfold, nodes_match_refl. reflexivity.
Qed.

Lemma wsum_le_lin : forall (f g h : nat * nat -> N) sc cs,
  (forall c, f c <= g c * sc + h c) ->
  wsum f cs <= wsum g cs * sc + wsum h cs.
Proof.
  intros f g h sc cs H. unfold wsum. induction cs as [|c cs IH]; [cbn; lia|].
  cbn [map]. rewrite !sumN_cons, N.mul_add_distr_r. specialize (H c). lia.
Qed.

Lemma sum_ones : forall (A : Type) (l : list A), sumN (map (fun _ => 1) l) = N.of_nat (length l).
Proof.
  induction l as [|x l IH]; [reflexivity|]. cbn [map length]. rewrite sumN_cons, IH. lia.
Qed.

(* ------------------------------------------------------------------ *)
(* lower bounds: the DP sees the matching given by an embedding        *)

Local Notation Tsc sc os ns so dn := (map (map (pair_score sc)) (mk_table os ns so dn)).

Lemma rb_end' : forall m scores i j, i = length scores -> j = m -> reachb m scores i j 0.
Proof. intros m scores i j -> ->. constructor. Qed.

Lemma score_mid : forall sc os1 o os2 ns1 n ns2 so dn,
  score_at (Tsc sc (os1 ++ o :: os2) (ns1 ++ n :: ns2) so dn) (length os1) (length ns1) =
  pair_score sc
    (bp o n (so + offs (os1 ++ o :: os2) (length os1))
            (dn + offs (ns1 ++ n :: ns2) (length ns1)), nodes_match o n).
Proof.
  intros. rewrite score_at_table.
  rewrite (tentry_at_in _ _ _ _ _ _ (Mem 0)) by (rewrite app_length; cbn [length]; lia).
  now rewrite !nth_middle.
Qed.

Lemma reachb_bound : forall sc os ns so dn v,
  reachb (length ns) (Tsc sc os ns so dn) 0 0 v ->
  v <= dp_at (dp_table (length ns) (Tsc sc os ns so dn)) (length os) (length ns).
Proof.
  intros sc os ns so dn v R.
  pose proof (dp_ge_reachb _ _ (scores_row_length sc os ns so dn) _ _ _ R) as D.
  rewrite scores_length in D. lia.
Qed.

Lemma lcs_value : forall sc os ns so dn,
  wsum (fun c => pair_score sc (tentry_at (mk_table os ns so dn) (fst c) (snd c)))
       (commons (lcs_by_score (length os) (length ns) (Tsc sc os ns so dn))) =
  dp_at (dp_table (length ns) (Tsc sc os ns so dn)) (length os) (length ns).
Proof.
  intros sc os ns so dn.
  pose proof (lcs_csum (length ns) _ (scores_row_length sc os ns so dn)) as L.
  rewrite scores_length, csum_commons in L. rewrite <- L.
  unfold wsum. f_equal. apply map_ext. intros c. now rewrite score_at_table.
Qed.

(* the optimum carries the maximal number of cells: the bonus never outweighs a cell *)
Lemma call_lower : forall os ns so dn C,
  nodes_match (FnCall os) (FnCall ns) = false ->
  bp_scale os ns * C <=
    dp_at (dp_table (length ns) (Tsc (bp_scale os ns) os ns so dn)) (length os) (length ns) ->
  C <= snd (bp (FnCall os) (FnCall ns) so dn).
Proof.
  intros os ns so dn C E H. rewrite bp_unfold, E. cbv zeta. cbn [snd].
  rewrite <- lcs_value in H. rewrite collect_cells_commons.
  set (sc := bp_scale os ns) in *. set (T := mk_table os ns so dn) in *.
  set (cs := commons _) in *.
  assert (Hcs : StronglySorted lt2 cs) by apply lcs_sorted. clearbody cs.
  set (g := fun c : nat * nat => snd (table_at T (fst c) (snd c))).
  set (h := fun c : nat * nat => if snd (tentry_at T (fst c) (snd c)) then 1 else 0).
  pose proof (wsum_le_lin _ g h sc cs
                (fun c => pair_score_le sc (tentry_at T (fst c) (snd c)))) as L.
  assert (Hh : wsum h cs <= N.of_nat (length ns)).
  { assert (Ssnd : StronglySorted (fun a b => (snd a < snd b)%nat) cs).
    { eapply SSorted_impl; [|exact Hcs]. intros a b [_ Hab]. exact Hab. }
    destruct (tight snd h (map (fun _ => 1) ns) cs O Ssnd) as [B _].
    - intros [i j] _. split; [lia|]. unfold h. cbn [fst snd]. subst T.
      destruct (Nat.lt_ge_cases j (length ns)) as [Hj|Hj].
      + rewrite (nth_map_in _ _ (fun _ => 1) ns j (Mem 0) 0 Hj). destruct (snd _); lia.
      + rewrite tentry_at_out by lia. cbn [snd]. lia.
    - rewrite pre_0, sum_ones in B. lia. }
  assert (Hsc : N.of_nat (length ns) < sc) by (subst sc; unfold bp_scale; lia).
  assert (sc * C < sc * (wsum g cs + 1)).
  { rewrite N.mul_add_distr_l, (N.mul_comm sc (wsum g cs)). lia. }
  assert (C < wsum g cs + 1); [|lia].
  eapply N.mul_lt_mono_pos_l; [|eassumption]. lia.
Qed.

Lemma lower_new : forall n o, embeds n o ->
  forall so dn, count_cells n <= snd (bp o n so dn).
Proof.
  apply (embeds_mind
    (fun n o => forall so dn, count_cells n <= snd (bp o n so dn))
    (fun ns' os' => forall sc os1 ns1 so dn,
       exists v, reachb (length (ns1 ++ ns')) (Tsc sc (os1 ++ os') (ns1 ++ ns') so dn)
                        (length os1) (length ns1) v /\
                 sc * sumN (map count_cells ns') <= v)).
  - intros s so dn. rewrite bp_unfold, nodes_match_refl. cbn [snd]. lia.
  - intros ns os _ IH so dn. destruct (nodes_match (FnCall os) (FnCall ns)) eqn:E.
    + rewrite bp_unfold, E. apply nodes_match_eq in E. rewrite E. cbn [snd]. lia.
    + apply call_lower; auto.
      destruct (IH (bp_scale os ns) [] [] so dn) as (v & R & B). cbn [app length] in R.
      apply reachb_bound in R. rewrite count_cells_FnCall. lia.
  - intros sc os1 ns1 so dn. exists 0. split; [|cbn; lia].
    apply rb_end'; rewrite ?scores_length, !app_nil_r; reflexivity.
  - intros ns' o os'' _ IH sc os1 ns1 so dn.
    destruct (IH sc (os1 ++ [o]) ns1 so dn) as (v & R & B).
    rewrite <- app_assoc in R. cbn [app] in R.
    rewrite (app_length os1 [o]) in R. cbn [length] in R. rewrite Nat.add_1_r in R.
    exists v. split; auto. apply rb_del; auto.
    + rewrite scores_length, app_length. cbn [length]. lia.
    + rewrite app_length. lia.
  - intros n o ns'' os'' _ IHe _ IH sc os1 ns1 so dn.
    destruct (IH sc (os1 ++ [o]) (ns1 ++ [n]) so dn) as (v & R & B).
    rewrite <- !app_assoc in R. cbn [app] in R.
    rewrite (app_length os1 [o]), (app_length ns1 [n]) in R. cbn [length] in R.
    rewrite !Nat.add_1_r in R.
    eexists. split.
    + apply rb_com; [| |exact R].
      * rewrite scores_length, app_length. cbn [length]. lia.
      * rewrite app_length. cbn [length]. lia.
    + rewrite score_mid. cbn [map]. rewrite sumN_cons, N.mul_add_distr_l.
      match goal with |- context [pair_score sc ?te] =>
        pose proof (pair_score_ge sc te) as G end.
      cbn [fst] in G.
      specialize (IHe (so + offs (os1 ++ o :: os'') (length os1))
                      (dn + offs (ns1 ++ n :: ns'') (length ns1))).
      pose proof (N.mul_le_mono_r _ _ sc IHe). rewrite (N.mul_comm sc (count_cells n)). lia.
Qed.

Lemma lower_old : forall o n, embeds o n ->
  forall so dn, count_cells o <= snd (bp o n so dn).
Proof.
  apply (embeds_mind
    (fun o n => forall so dn, count_cells o <= snd (bp o n so dn))
    (fun os' ns' => forall sc os1 ns1 so dn,
       exists v, reachb (length (ns1 ++ ns')) (Tsc sc (os1 ++ os') (ns1 ++ ns') so dn)
                        (length os1) (length ns1) v /\
                 sc * sumN (map count_cells os') <= v)).
  - intros s so dn. rewrite bp_unfold, nodes_match_refl. cbn [snd]. lia.
  - intros os ns _ IH so dn. destruct (nodes_match (FnCall os) (FnCall ns)) eqn:E.
    + rewrite bp_unfold, E. cbn [snd]. lia.
    + apply call_lower; auto.
      destruct (IH (bp_scale os ns) [] [] so dn) as (v & R & B). cbn [app length] in R.
      apply reachb_bound in R. rewrite count_cells_FnCall. lia.
  - intros sc os1 ns1 so dn. exists 0. split; [|cbn; lia].
    apply rb_end'; rewrite ?scores_length, !app_nil_r; reflexivity.
  - intros os' n ns'' _ IH sc os1 ns1 so dn.
    destruct (IH sc os1 (ns1 ++ [n]) so dn) as (v & R & B).
    rewrite <- app_assoc in R. cbn [app] in R.
    rewrite (app_length ns1 [n]) in R. cbn [length] in R. rewrite Nat.add_1_r in R.
    exists v. split; auto. apply rb_ins; auto.
    + rewrite scores_length, app_length. lia.
    + rewrite app_length. cbn [length]. lia.
  - intros o n os'' ns'' _ IHe _ IH sc os1 ns1 so dn.
    destruct (IH sc (os1 ++ [o]) (ns1 ++ [n]) so dn) as (v & R & B).
    rewrite <- !app_assoc in R. cbn [app] in R.
    rewrite (app_length os1 [o]), (app_length ns1 [n]) in R. cbn [length] in R.
    rewrite !Nat.add_1_r in R.
    eexists. split.
    + apply rb_com; [| |exact R].
      * rewrite scores_length, app_length. cbn [length]. lia.
      * rewrite app_length. cbn [length]. lia.
    + rewrite score_mid. cbn [map]. rewrite sumN_cons, N.mul_add_distr_l.
      match goal with |- context [pair_score sc ?te] =>
        pose proof (pair_score_ge sc te) as G end.
      cbn [fst] in G.
      specialize (IHe (so + offs (os1 ++ o :: os'') (length os1))
                      (dn + offs (ns1 ++ n :: ns'') (length ns1))).
      pose proof (N.mul_le_mono_r _ _ sc IHe). rewrite (N.mul_comm sc (count_cells o)). lia.
Qed.

(* ------------------------------------------------------------------ *)
(* the survivors clause                                                *)

Lemma survivors : forall (o n : skel) (total : N) (ps : list patch),
  plan o n = Some (total, ps) ->
  (embeds n o -> forall i, i < size n -> exists p, In p ps /\ p_dst p <= i < p_dst p + p_sz p) /\
  (embeds o n -> forall i, i < size o -> exists p, In p ps /\ p_src p <= i < p_src p + p_sz p).
Proof.
  intros o n total ps HP. apply plan_inv in HP as [-> ->]. unfold take_diff.
  destruct (bp_cells o n 0 0) as (U1 & U2 & CD & CS).
  split; intros HE i Hi.
  - pose proof (lower_new n o HE 0 0). exact (CD ltac:(lia) i ltac:(lia)).
  - pose proof (lower_old o n HE 0 0). exact (CS ltac:(lia) i ltac:(lia)).
Qed.

Lemma survivors_count : forall (o n : skel) (total : N) (ps : list patch),
  plan o n = Some (total, ps) ->
  (embeds n o -> sumN (map p_sz ps) = size n) /\
  (embeds o n -> sumN (map p_sz ps) = size o).
Proof.
  intros o n total ps HP. destruct (survivors o n total ps HP) as [S1 S2].
  apply plan_inv in HP as [-> ->].
  pose proof (take_diff_sorted o n) as HS.
  assert (Bd : forall p q, before p q -> p_dst p + p_sz p <= p_dst q) by (intros p q [_ H]; exact H).
  assert (Bs : forall p q, before p q -> p_src p + p_sz p <= p_src q) by (intros p q [H _]; exact H).
  split; intros HE.
  - pose proof (sum_le_range p_dst Bd (take_diff o n) 0 (size n) HS ltac:(lia)) as U.
    pose proof (sum_ge_cover p_dst Bd (take_diff o n) 0 (size n) HS) as L.
    assert (sumN (map p_sz (take_diff o n)) + 0 <= size n).
    { apply U. intros p Hp. apply take_diff_in_bounds in Hp. lia. }
    assert (size n <= sumN (map p_sz (take_diff o n)) + 0).
    { apply L. intros i Hi. apply (S1 HE). lia. }
    lia.
  - pose proof (sum_le_range p_src Bs (take_diff o n) 0 (size o) HS ltac:(lia)) as U.
    pose proof (sum_ge_cover p_src Bs (take_diff o n) 0 (size o) HS) as L.
    assert (sumN (map p_sz (take_diff o n)) + 0 <= size o).
    { apply U. intros p Hp. apply take_diff_in_bounds in Hp. lia. }
    assert (size o <= sumN (map p_sz (take_diff o n)) + 0).
    { apply L. intros i Hi. apply (S2 HE). lia. }
    lia.
Qed.

(* ------------------------------------------------------------------ *)
(* removal / insertion of whole children of the root                   *)

Inductive subseq : list skel -> list skel -> Prop :=
| sub_nil : subseq [] []
| sub_skip : forall l1 x l2, subseq l1 l2 -> subseq l1 (x :: l2)
| sub_keep : forall x l1 l2, subseq l1 l2 -> subseq (x :: l1) (x :: l2).

Definition child_off (cs : list skel) (i : nat) : N := sumN (map size (firstn i cs)).

Lemma whole_reach_new : forall ns' os', subseq ns' os' ->
  forall sc os1 ns1 so dn,
    exists v, reachb (length (ns1 ++ ns')) (Tsc sc (os1 ++ os') (ns1 ++ ns') so dn)
                     (length os1) (length ns1) v /\
              sumN (map (vfull sc) ns') <= v.
Proof.
  intros ns' os' H. induction H as [|ns' o os'' H IH|x ns'' os'' H IH]; intros sc os1 ns1 so dn.
  - exists 0. split; [|cbn; lia].
    apply rb_end'; rewrite ?scores_length, !app_nil_r; reflexivity.
  - destruct (IH sc (os1 ++ [o]) ns1 so dn) as (v & R & B).
    rewrite <- app_assoc in R. cbn [app] in R.
    rewrite (app_length os1 [o]) in R. cbn [length] in R. rewrite Nat.add_1_r in R.
    exists v. split; auto. apply rb_del; auto.
    + rewrite scores_length, app_length. cbn [length]. lia.
    + rewrite app_length. lia.
  - destruct (IH sc (os1 ++ [x]) (ns1 ++ [x]) so dn) as (v & R & B).
    rewrite <- !app_assoc in R. cbn [app] in R.
    rewrite !(app_length _ [x]) in R. cbn [length] in R. rewrite !Nat.add_1_r in R.
    eexists. split.
    + apply rb_com; [| |exact R].
      * rewrite scores_length, app_length. cbn [length]. lia.
      * rewrite app_length. cbn [length]. lia.
    + rewrite score_mid, pair_score_exact. cbn [map]. rewrite sumN_cons. lia.
Qed.

Lemma whole_reach_old : forall os' ns', subseq os' ns' ->
  forall sc os1 ns1 so dn,
    exists v, reachb (length (ns1 ++ ns')) (Tsc sc (os1 ++ os') (ns1 ++ ns') so dn)
                     (length os1) (length ns1) v /\
              sumN (map (vfull sc) os') <= v.
Proof.
  intros os' ns' H. induction H as [|os' n ns'' H IH|x os'' ns'' H IH]; intros sc os1 ns1 so dn.
  - exists 0. split; [|cbn; lia].
    apply rb_end'; rewrite ?scores_length, !app_nil_r; reflexivity.
  - destruct (IH sc os1 (ns1 ++ [n]) so dn) as (v & R & B).
    rewrite <- app_assoc in R. cbn [app] in R.
    rewrite (app_length ns1 [n]) in R. cbn [length] in R. rewrite Nat.add_1_r in R.
    exists v. split; auto. apply rb_ins; auto.
    + rewrite scores_length, app_length. lia.
    + rewrite app_length. cbn [length]. lia.
  - destruct (IH sc (os1 ++ [x]) (ns1 ++ [x]) so dn) as (v & R & B).
    rewrite <- !app_assoc in R. cbn [app] in R.
    rewrite !(app_length _ [x]) in R. cbn [length] in R. rewrite !Nat.add_1_r in R.
    eexists. split.
    + apply rb_com; [| |exact R].
      * rewrite scores_length, app_length. cbn [length]. lia.
      * rewrite app_length. cbn [length]. lia.
    + rewrite score_mid, pair_score_exact. cbn [map]. rewrite sumN_cons. lia.
Qed.

(* the score of every pair is bounded by the value of a whole copy of either child *)
Lemma score_le_vfull : forall sc os ns so dn c,
  let te := tentry_at (mk_table os ns so dn) (fst c) (snd c) in
  pair_score sc te <= nth (fst c) (map (vfull sc) os) 0 /\
  pair_score sc te <= nth (snd c) (map (vfull sc) ns) 0.
Proof.
  intros sc os ns so dn [i j]. cbn [fst snd].
  destruct (Nat.lt_ge_cases i (length os)) as [Hi|Hi];
    [destruct (Nat.lt_ge_cases j (length ns)) as [Hj|Hj]|];
    try (rewrite tentry_at_out by lia; cbn; lia).
  rewrite (tentry_at_in _ _ _ _ _ _ (Mem 0) Hi Hj).
  rewrite (nth_map_in _ _ (vfull sc) os i (Mem 0) 0 Hi).
  rewrite (nth_map_in _ _ (vfull sc) ns j (Mem 0) 0 Hj).
  destruct (bp_cells (nth i os (Mem 0)) (nth j ns (Mem 0)) (so + offs os i) (dn + offs ns j))
    as (U1 & U2 & _).
  split; apply pair_score_le_vfull; assumption.
Qed.

Lemma vfull_pos : forall sc c, 0 < count_cells c -> vfull sc c = count_cells c * sc + 1.
Proof. intros sc c H. unfold vfull. destruct (N.ltb_spec 0 (count_cells c)); [reflexivity|lia]. Qed.

Lemma whole_new : forall os ns so dn,
  nodes_match (FnCall os) (FnCall ns) = false -> subseq ns os ->
  forall j c, nth_error ns j = Some c -> 0 < count_cells c ->
  exists i, nth_error os i = Some c /\
    In (mkPatch (so + offs os i) (dn + offs ns j) (size c)) (fst (bp (FnCall os) (FnCall ns) so dn)).
Proof.
  intros os ns so dn E HS j c Hj Hc. rewrite bp_unfold, E. cbv zeta. cbn [fst].
  set (sc := bp_scale os ns). set (T := mk_table os ns so dn).
  set (rs := lcs_by_score _ _ _).
  assert (Hcs : StronglySorted lt2 (commons rs)) by apply lcs_sorted.
  assert (Ssnd : StronglySorted (fun a b => (snd a < snd b)%nat) (commons rs)).
  { eapply SSorted_impl; [|exact Hcs]. intros a b [_ H]. exact H. }
  set (w := fun c : nat * nat => pair_score sc (tentry_at T (fst c) (snd c))).
  assert (HW : forall c, In c (commons rs) ->
                 (0 <= snd c)%nat /\ w c <= nth (snd c) (map (vfull sc) ns) 0).
  { intros c' _. split; [lia|]. apply score_le_vfull. }
  destruct (tight snd w (map (vfull sc) ns) (commons rs) O Ssnd HW) as [TU TE].
  rewrite pre_0 in TU, TE.
  assert (V : wsum w (commons rs) = sumN (map (vfull sc) ns)).
  { apply N.le_antisymm; [lia|].
    unfold w, T, rs. rewrite lcs_value.
    destruct (whole_reach_new ns os HS sc [] [] so dn) as (v & R & B). cbn [app length] in R.
    apply reachb_bound in R. fold sc. lia. }
  destruct TE as [T1 T2]; [lia|].
  assert (Lj : (j < length ns)%nat) by (apply nth_error_Some; congruence).
  assert (Nj : nth j ns (Mem 0) = c) by (now apply nth_error_nth).
  assert (Vj : nth j (map (vfull sc) ns) 0 = count_cells c * sc + 1).
  { rewrite (nth_map_in _ _ (vfull sc) ns j (Mem 0) 0 Lj), Nj. now apply vfull_pos. }
  destruct (pr_dec snd (commons rs) j) as [([i0 j'] & Hin & Ej)|Hn];
    [|specialize (T2 j ltac:(lia) Hn); lia].
  cbn [snd] in Ej. subst j'.
  specialize (T1 _ Hin). cbn [snd] in T1. rewrite Vj in T1. unfold w in T1. cbn [fst snd] in T1.
  assert (Li : (i0 < length os)%nat).
  { destruct (Nat.lt_ge_cases i0 (length os)); auto. exfalso.
    unfold T in T1. rewrite tentry_at_out in T1 by lia. cbn in T1. lia. }
  pose proof (In_collect T rs (i0, j)) as IC. cbn [fst snd] in IC.
  unfold T in T1, IC. rewrite (table_at_in _ _ _ _ _ _ (Mem 0) Li Lj) in IC.
  rewrite (tentry_at_in _ _ _ _ _ _ (Mem 0) Li Lj), Nj in T1. rewrite Nj in IC.
  destruct (bp_cells (nth i0 os (Mem 0)) c (so + offs os i0) (dn + offs ns j)) as (_ & U2 & _).
  apply pair_score_full in T1; [|exact U2]. cbn [snd] in T1.
  apply nodes_match_eq in T1.
  exists i0. split.
  - rewrite (nth_error_nth' os (Mem 0) Li). now rewrite T1.
  - apply nodup_In. apply IC; auto. rewrite T1, bp_unfold, nodes_match_refl. now left.
Qed.

Lemma whole_old : forall os ns so dn,
  nodes_match (FnCall os) (FnCall ns) = false -> subseq os ns ->
  forall i c, nth_error os i = Some c -> 0 < count_cells c ->
  exists j, nth_error ns j = Some c /\
    In (mkPatch (so + offs os i) (dn + offs ns j) (size c)) (fst (bp (FnCall os) (FnCall ns) so dn)).
Proof.
  intros os ns so dn E HS i c Hi Hc. rewrite bp_unfold, E. cbv zeta. cbn [fst].
  set (sc := bp_scale os ns). set (T := mk_table os ns so dn).
  set (rs := lcs_by_score _ _ _).
  assert (Hcs : StronglySorted lt2 (commons rs)) by apply lcs_sorted.
  assert (Sfst : StronglySorted (fun a b => (fst a < fst b)%nat) (commons rs)).
  { eapply SSorted_impl; [|exact Hcs]. intros a b [H _]. exact H. }
  set (w := fun c : nat * nat => pair_score sc (tentry_at T (fst c) (snd c))).
  assert (HW : forall c, In c (commons rs) ->
                 (0 <= fst c)%nat /\ w c <= nth (fst c) (map (vfull sc) os) 0).
  { intros c' _. split; [lia|]. apply score_le_vfull. }
  destruct (tight fst w (map (vfull sc) os) (commons rs) O Sfst HW) as [TU TE].
  rewrite pre_0 in TU, TE.
  assert (V : wsum w (commons rs) = sumN (map (vfull sc) os)).
  { apply N.le_antisymm; [lia|].
    unfold w, T, rs. rewrite lcs_value.
    destruct (whole_reach_old os ns HS sc [] [] so dn) as (v & R & B). cbn [app length] in R.
    apply reachb_bound in R. fold sc. lia. }
  destruct TE as [T1 T2]; [lia|].
  assert (Li : (i < length os)%nat) by (apply nth_error_Some; congruence).
  assert (Ni : nth i os (Mem 0) = c) by (now apply nth_error_nth).
  assert (Vi : nth i (map (vfull sc) os) 0 = count_cells c * sc + 1).
  { rewrite (nth_map_in _ _ (vfull sc) os i (Mem 0) 0 Li), Ni. now apply vfull_pos. }
  destruct (pr_dec fst (commons rs) i) as [([i' j0] & Hin & Ei)|Hn];
    [|specialize (T2 i ltac:(lia) Hn); lia].
  cbn [fst] in Ei. subst i'.
  specialize (T1 _ Hin). cbn [fst] in T1. rewrite Vi in T1. unfold w in T1. cbn [fst snd] in T1.
  assert (Lj : (j0 < length ns)%nat).
  { destruct (Nat.lt_ge_cases j0 (length ns)); auto. exfalso.
    unfold T in T1. rewrite tentry_at_out in T1 by lia. cbn in T1. lia. }
  pose proof (In_collect T rs (i, j0)) as IC. cbn [fst snd] in IC.
  unfold T in T1, IC. rewrite (table_at_in _ _ _ _ _ _ (Mem 0) Li Lj) in IC.
  rewrite (tentry_at_in _ _ _ _ _ _ (Mem 0) Li Lj), Ni in T1. rewrite Ni in IC.
  destruct (bp_cells c (nth j0 ns (Mem 0)) (so + offs os i) (dn + offs ns j0)) as (U1 & _ & _).
  apply pair_score_full in T1; [|exact U1]. cbn [snd] in T1.
  apply nodes_match_eq in T1.
  exists j0. split.
  - rewrite (nth_error_nth' ns (Mem 0) Lj). now rewrite <- T1.
  - apply nodup_In. apply IC; auto. rewrite <- T1, bp_unfold, nodes_match_refl. now left.
Qed.

Lemma survivors_whole : forall (os ns : list skel) (total : N) (ps : list patch),
  plan (FnCall os) (FnCall ns) = Some (total, ps) ->
  (subseq ns os -> forall j c, nth_error ns j = Some c -> 0 < count_cells c ->
      exists i, nth_error os i = Some c /\ In (mkPatch (child_off os i) (child_off ns j) (size c)) ps) /\
  (subseq os ns -> forall i c, nth_error os i = Some c -> 0 < count_cells c ->
      exists j, nth_error ns j = Some c /\ In (mkPatch (child_off os i) (child_off ns j) (size c)) ps).
Proof.
  intros os ns total ps HP.
  assert (E : nodes_match (FnCall os) (FnCall ns) = false).
  { destruct (nodes_match (FnCall os) (FnCall ns)) eqn:M; auto.
    apply nodes_match_eq in M. rewrite M, plan_identical_none in HP. discriminate. }
  apply plan_inv in HP as [-> ->]. unfold take_diff.
  split; intros HS k c Hk Hc.
  - destruct (whole_new os ns 0 0 E HS k c Hk Hc) as (i & Hi & Hp).
    exists i. split; [exact Hi|exact Hp].
  - destruct (whole_old os ns 0 0 E HS k c Hk Hc) as (j & Hj & Hp).
    exists j. split; [exact Hj|exact Hp].
Qed.
