(* StateTree/Model.v — executable Gallina transcription of
   /repo/crates/lib/mimium-lang/state-tree/src/{tree,tree_diff,patch,lib}.rs

   No proofs in this file (the model must keep running when a proof breaks).

   Transcription notes
   * StateTreeSkeleton<u64>: Mem(t)/Feed(t) carry word_size t directly.
   * usize/u64 are modelled as unbounded N (overflow is outside the model).
   * HashSet<CopyFromPatch> is a duplicate-free list (`nodup`).
   * The f64 scores of lcs_by_score are cell counts (< 2^53) so N is exact.
   * build_patches_recursive passes root skeletons + paths and recomputes
     addresses with path_to_address; here the base addresses of the current
     nodes are threaded instead (Lemmas.v relates them to path_to_address).
   * DELAY_ADDITIONAL_OFFSET comes from Tables/StateTreeConsts.v, regenerated
     from tree.rs on every run. *)
From Coq Require Import List NArith Bool.
From Mimium Require Import Tables.StateTreeConsts.
Import ListNotations.
Local Open Scope N_scope.

Inductive skel : Type :=
| Delay (len : N)
| Mem (sz : N)
| Feed (sz : N)
| FnCall (cs : list skel).

Definition sumN (l : list N) : N := fold_right N.add 0 l.

(* StateTreeSkeleton::total_size *)
Fixpoint size (s : skel) : N :=
  match s with
  | Delay len => DELAY_ADDITIONAL_OFFSET + len
  | Mem n | Feed n => n
  | FnCall cs => sumN (map size cs)
  end.

(* impl PartialEq for StateTreeSkeleton *)
Fixpoint skel_eqb (a b : skel) : bool :=
  match a, b with
  | Delay l1, Delay l2 => N.eqb l1 l2
  | Mem x, Mem y => N.eqb x y
  | Feed x, Feed y => N.eqb x y
  | FnCall c1, FnCall c2 =>
      (fix go (l1 l2 : list skel) : bool :=
         match l1, l2 with
         | [], [] => true
         | x :: xs, y :: ys => skel_eqb x y && go xs ys
         | _, _ => false
         end) c1 c2
  | _, _ => false
  end.

(* tree_diff::nodes_match : len equal && zip all *)
Fixpoint nodes_match (a b : skel) : bool :=
  match a, b with
  | Delay l1, Delay l2 => N.eqb l1 l2
  | Mem x, Mem y => N.eqb x y
  | Feed x, Feed y => N.eqb x y
  | FnCall c1, FnCall c2 =>
      Nat.eqb (length c1) (length c2) &&
      (fix go (l1 l2 : list skel) : bool :=
         match l1, l2 with
         | x :: xs, y :: ys => nodes_match x y && go xs ys
         | _, _ => true
         end) c1 c2
  | _, _ => false
  end.

(* get_node_at_path *)
Fixpoint subtree (s : skel) (path : list nat) : option skel :=
  match path with
  | [] => Some s
  | i :: rest =>
      match s with
      | FnCall cs =>
          match nth_error cs i with
          | Some c => subtree c rest
          | None => None
          end
      | _ => None
      end
  end.

(* StateTreeSkeleton::path_to_address : (offset, size) *)
Fixpoint path_to_address (s : skel) (path : list nat) : option (N * N) :=
  match path with
  | [] => Some (0, size s)
  | i :: rest =>
      match s with
      | FnCall cs =>
          match nth_error cs i with
          | Some c =>
              match path_to_address c rest with
              | Some (off, sz) => Some (sumN (map size (firstn i cs)) + off, sz)
              | None => None
              end
          | None => None
          end
      | _ => None
      end
  end.

Record patch : Type := mkPatch { p_src : N; p_dst : N; p_sz : N }.

Definition patch_eqb (p q : patch) : bool :=
  N.eqb (p_src p) (p_src q) && N.eqb (p_dst p) (p_dst q) && N.eqb (p_sz p) (p_sz q).

Definition patch_eq_dec (p q : patch) : {p = q} + {p <> q}.
Proof. decide equality; apply N.eq_dec. Defined.

(* ---- lcs_by_score ---- *)

Inductive diff_result : Type :=
| Common (old_index new_index : nat)
| Delete (old_index : nat)
| Insert (new_index : nat).

(* score table: scores[i][j], i over old, j over new *)
Definition score_at (scores : list (list N)) (i j : nat) : N :=
  nth j (nth i scores []) 0.

(* one DP row: prev = dp[i-1][0..m], srow = scores[i-1][0..m-1];
   returns dp[i][0..m] *)
Fixpoint dp_row_aux (prev : list N) (srow : list N) (left : N) : list N :=
  (* prev = dp[i-1][j-1 ..], left = dp[i][j-1]; produces dp[i][j ..] *)
  match prev, srow with
  | diag :: ((up :: _) as prev'), s :: srow' =>
      let v := if 0 <? s
               then N.max (diag + s) (N.max up left)
               else N.max up left in
      v :: dp_row_aux prev' srow' v
  | _, _ => []
  end.

Definition dp_row (prev srow : list N) : list N := 0 :: dp_row_aux prev srow 0.

(* all rows dp[0..n] ; m = new_len *)
Fixpoint dp_rows (prev : list N) (scores : list (list N)) : list (list N) :=
  match scores with
  | [] => []
  | srow :: rest => let r := dp_row prev srow in r :: dp_rows r rest
  end.

Definition dp_table (m : nat) (scores : list (list N)) : list (list N) :=
  let row0 := repeat 0 (S m) in row0 :: dp_rows row0 scores.

Definition dp_at (dp : list (list N)) (i j : nat) : N := nth j (nth i dp []) 0.

(* the `while i > 0 || j > 0` backtrack loop; results are consed while walking
   backwards, which is the Rust push-then-reverse *)
Fixpoint backtrack (fuel : nat) (scores dp : list (list N)) (i j : nat)
         (acc : list diff_result) : list diff_result :=
  match fuel with
  | O => acc
  | S fuel' =>
      match i, j with
      | O, O => acc
      | S i', S j' =>
          if (0 <? score_at scores i' j') &&
             (dp_at dp (S i') (S j') =? dp_at dp i' j' + score_at scores i' j')
          then backtrack fuel' scores dp i' j' (Common i' j' :: acc)
          else if dp_at dp (S i') j' <? dp_at dp i' (S j')
               then backtrack fuel' scores dp i' (S j') (Delete i' :: acc)
               else backtrack fuel' scores dp (S i') j' (Insert j' :: acc)
      | O, S j' => backtrack fuel' scores dp O j' (Insert j' :: acc)
      | S i', O => backtrack fuel' scores dp i' O (Delete i' :: acc)
      end
  end.

Definition lcs_by_score (n m : nat) (scores : list (list N)) : list diff_result :=
  backtrack (n + m) scores (dp_table m scores) n m [].

(* ---- build_patches_recursive ---- *)

(* count_cells : number of delay/mem/feed cells of a layout *)
Fixpoint count_cells (s : skel) : N :=
  match s with
  | FnCall cs => sumN (map count_cells cs)
  | _ => 1
  end.

(* result of build_patches_recursive: (patches, carried cells) *)
Definition entry : Type := (list patch * N)%type.

(* one entry of child_patches_map: (result for the pair of children, nodes_match of the pair) *)
Definition tentry : Type := (entry * bool)%type.

Definition table_at (table : list (list tentry)) (i j : nat) : entry :=
  fst (nth j (nth i table []) (([], 0), false)).

(* score of a pair: carried cells scaled, plus one for a pair of identical children, so that an unchanged sibling
   outweighs a partial match carrying the same number of cells; 0 when nothing is carried *)
Definition pair_score (scale : N) (te : tentry) : N :=
  let '((_, cells), exact) := te in
  if 0 <? cells then cells * scale + (if exact then 1 else 0) else 0.

Fixpoint collect (table : list (list tentry)) (rs : list diff_result) : list patch :=
  match rs with
  | [] => []
  | Common i j :: rest => fst (table_at table i j) ++ collect table rest
  | _ :: rest => collect table rest
  end.

Fixpoint collect_cells (table : list (list tentry)) (rs : list diff_result) : N :=
  match rs with
  | [] => 0
  | Common i j :: rest => snd (table_at table i j) + collect_cells table rest
  | _ :: rest => collect_cells table rest
  end.

(* build_patches_recursive: (patch set, number of carried cells) *)
Fixpoint bp (o n : skel) (so dn : N) {struct o} : entry :=
  if nodes_match o n then ([mkPatch so dn (size o)], count_cells o)
  else
    match o, n with
    | FnCall ocs, FnCall ncs =>
        let table :=
          (fix rows (os : list skel) (so' : N) : list (list tentry) :=
             match os with
             | [] => []
             | oc :: os' =>
                 ((fix cols (ns : list skel) (dn' : N) : list tentry :=
                     match ns with
                     | [] => []
                     | nc :: ns' => (bp oc nc so' dn', nodes_match oc nc) :: cols ns' (dn' + size nc)
                     end) ncs dn)
                 :: rows os' (so' + size oc)
             end) ocs so in
        let scale := 2 * N.of_nat (length ocs + length ncs + 1) in
        let scores := map (map (pair_score scale)) table in
        let rs := lcs_by_score (length ocs) (length ncs) scores in
        (nodup patch_eq_dec (collect table rs), collect_cells table rs)
    | _, _ => ([], 0)
    end.

(* take_diff *)
Definition take_diff (o n : skel) : list patch := fst (bp o n 0 0).

(* build_state_storage_patch_plan: None | Some (total_size, patches) *)
Definition plan (o n : skel) : option (N * list patch) :=
  if skel_eqb o n then None else Some (size n, take_diff o n).

(* ---- patch::apply_patches on list N storage ---- *)

Definition slice (l : list N) (start len : nat) : option (list N) :=
  if Nat.leb (start + len) (length l) then Some (firstn len (skipn start l)) else None.

Definition write_at (l : list N) (start : nat) (data : list N) : option (list N) :=
  if Nat.leb (start + length data) (length l)
  then Some (firstn start l ++ data ++ skipn (start + length data) l)
  else None.

(* None = the Rust code panics (slice index out of range) *)
Definition apply_patch (old : list N) (new : option (list N)) (p : patch) : option (list N) :=
  match new with
  | None => None
  | Some st =>
      match slice old (N.to_nat (p_src p)) (N.to_nat (p_sz p)) with
      | None => None
      | Some data => write_at st (N.to_nat (p_dst p)) data
      end
  end.

Definition apply_patches (new old : list N) (ps : list patch) : option (list N) :=
  fold_left (apply_patch old) ps (Some new).

(* apply_state_storage_patch_plan *)
Definition apply_plan (old : list N) (total : N) (ps : list patch) : option (list N) :=
  apply_patches (repeat 0 (N.to_nat total)) old ps.

(* update_state_storage *)
Definition update_state_storage (old : list N) (o n : skel) : option (option (list N)) :=
  match plan o n with
  | None => Some None
  | Some (total, ps) =>
      match apply_plan old total ps with
      | Some st => Some (Some st)
      | None => None
      end
  end.
