(* StateTree/Lemmas.v — proofs about StateTree/Model.v *)
From Coq Require Import List NArith Bool Lia Arith Sorted Permutation.
From Mimium Require Import Tables.StateTreeConsts StateTree.Model.
Import ListNotations.
Local Open Scope N_scope.

(* nested induction principle for skel *)
Section SkelInd.
  Variable P : skel -> Prop.
  Hypothesis HD : forall l, P (Delay l).
  Hypothesis HM : forall n, P (Mem n).
  Hypothesis HF : forall n, P (Feed n).
  Hypothesis HC : forall cs, Forall P cs -> P (FnCall cs).
  Fixpoint skel_ind' (s : skel) : P s :=
    match s with
    | Delay l => HD l
    | Mem n => HM n
    | Feed n => HF n
    | FnCall cs =>
        HC cs ((fix go (l : list skel) : Forall P l :=
                  match l with
                  | [] => Forall_nil P
                  | x :: xs => Forall_cons x (skel_ind' x) (go xs)
                  end) cs)
    end.
End SkelInd.

Lemma skel_eqb_refl : forall s, skel_eqb s s = true.
Proof.
  induction s as [l|n|n|cs IH] using skel_ind'; cbn; try apply N.eqb_refl.
  induction IH as [|x xs Hx _ IHxs]; [reflexivity|].
  rewrite Hx. exact IHxs.
Qed.

Lemma plan_identical_none : forall s, plan s s = None.
Proof. intros s. unfold plan. now rewrite skel_eqb_refl. Qed.

(* ------------------------------------------------------------------ *)
(* equality tests                                                      *)

Lemma skel_eqb_eq : forall o n, skel_eqb o n = true -> o = n.
Proof.
  induction o as [l|x|x|cs IH] using skel_ind'; intros [l2|y|y|cs2] H; cbn in H;
    try discriminate.
  - apply N.eqb_eq in H. now subst.
  - apply N.eqb_eq in H. now subst.
  - apply N.eqb_eq in H. now subst.
  - f_equal. revert cs2 H.
    induction IH as [|x xs Hx _ IHxs]; intros [|y ys] H; try discriminate; auto.
    apply andb_true_iff in H as [H1 H2]. f_equal; auto.
Qed.

Lemma plan_none_eq : forall o n, plan o n = None -> o = n.
Proof.
  intros o n H. unfold plan in H.
  destruct (skel_eqb o n) eqn:E; [now apply skel_eqb_eq | discriminate].
Qed.

Lemma nodes_match_eq : forall o n, nodes_match o n = true -> o = n.
Proof.
  induction o as [l|x|x|cs IH] using skel_ind'; intros [l2|y|y|cs2] H; cbn in H;
    try discriminate.
  - apply N.eqb_eq in H. now subst.
  - apply N.eqb_eq in H. now subst.
  - apply N.eqb_eq in H. now subst.
  - apply andb_true_iff in H as [HL H]. apply Nat.eqb_eq in HL.
    f_equal. revert cs2 HL H.
    induction IH as [|x xs Hx _ IHxs]; intros [|y ys] HL H; try discriminate; auto.
    apply andb_true_iff in H as [H1 H2]. cbn in HL. f_equal; auto.
Qed.

Lemma nodes_match_refl : forall s, nodes_match s s = true.
Proof.
  induction s as [l|n|n|cs IH] using skel_ind'; cbn; try apply N.eqb_refl.
  rewrite Nat.eqb_refl. cbn.
  induction IH as [|x xs Hx _ IHxs]; [reflexivity|].
  rewrite Hx. exact IHxs.
Qed.

(* ------------------------------------------------------------------ *)
(* unfolding of bp through top-level names for its local fixpoints     *)

Definition cols_of (g : skel -> N -> tentry) : list skel -> N -> list tentry :=
  fix cols (ns : list skel) (dn' : N) : list tentry :=
    match ns with
    | [] => []
    | nc :: ns' => g nc dn' :: cols ns' (dn' + size nc)
    end.

Definition rows_of (f : skel -> skel -> N -> N -> tentry) (ncs : list skel) (dn : N)
  : list skel -> N -> list (list tentry) :=
  fix rows (os : list skel) (so' : N) : list (list tentry) :=
    match os with
    | [] => []
    | oc :: os' =>
        cols_of (fun nc dn' => f oc nc so' dn') ncs dn :: rows os' (so' + size oc)
    end.

Definition bp_pair (oc nc : skel) (so dn : N) : tentry := (bp oc nc so dn, nodes_match oc nc).

Definition mk_table (ocs ncs : list skel) (so dn : N) : list (list tentry) :=
  rows_of bp_pair ncs dn ocs so.

Definition tentry_at (table : list (list tentry)) (i j : nat) : tentry :=
  nth j (nth i table []) (([], 0), false).

Definition bp_scale (ocs ncs : list skel) : N := 2 * N.of_nat (length ocs + length ncs + 1).

Lemma bp_unfold : forall o n so dn,
  bp o n so dn =
  if nodes_match o n then ([mkPatch so dn (size o)], count_cells o)
  else match o, n with
       | FnCall ocs, FnCall ncs =>
           let table := mk_table ocs ncs so dn in
           let rs := lcs_by_score (length ocs) (length ncs)
                       (map (map (pair_score (bp_scale ocs ncs))) table) in
           (nodup patch_eq_dec (collect table rs), collect_cells table rs)
       | _, _ => ([], 0)
       end.
Proof. intros o n so dn. destruct o; reflexivity. Qed.

(* ------------------------------------------------------------------ *)
(* offsets of children                                                 *)

Definition offs (l : list skel) (i : nat) : N := sumN (map size (firstn i l)).

Lemma offs_0 : forall l, offs l 0 = 0.
Proof. reflexivity. Qed.

Lemma offs_cons_S : forall x l i, offs (x :: l) (S i) = size x + offs l i.
Proof. reflexivity. Qed.

Lemma offs_step : forall l i,
  offs l (S i) = offs l i + match nth_error l i with Some c => size c | None => 0 end.
Proof.
  induction l as [|x l IH]; intros i.
  - destruct i; reflexivity.
  - destruct i as [|i].
    + rewrite offs_cons_S, !offs_0. cbn [nth_error]. lia.
    + rewrite !offs_cons_S, IH. cbn [nth_error]. lia.
Qed.

Lemma offs_S_nth : forall l i d, (i < length l)%nat ->
  offs l (S i) = offs l i + size (nth i l d).
Proof.
  intros l i d H. rewrite offs_step. now rewrite (nth_error_nth' l d H).
Qed.

Lemma offs_mono : forall l i i', (i <= i')%nat -> offs l i <= offs l i'.
Proof.
  intros l i i' H. induction H as [|k _ IH]; [lia|].
  rewrite offs_step. lia.
Qed.

Lemma offs_total : forall l i, offs l i <= sumN (map size l).
Proof.
  induction l as [|x l IH]; intros [|i]; try (rewrite offs_0; lia).
  - cbn. lia.
  - rewrite offs_cons_S. cbn [map sumN fold_right]. specialize (IH i). unfold sumN in IH. lia.
Qed.

(* ------------------------------------------------------------------ *)
(* the table built by bp                                               *)

Lemma cols_of_length : forall g ns dn, length (cols_of g ns dn) = length ns.
Proof.
  intros g ns. induction ns as [|x ns IH]; intros dn; cbn; [reflexivity|].
  now rewrite IH.
Qed.

Lemma cols_of_nth : forall g ns dn j d, (j < length ns)%nat ->
  nth j (cols_of g ns dn) (([], 0), false) = g (nth j ns d) (dn + offs ns j).
Proof.
  intros g ns. induction ns as [|x ns IH]; intros dn j d H; cbn [length] in H; [lia|].
  destruct j as [|j].
  - cbn [cols_of nth]. rewrite offs_0. f_equal. lia.
  - cbn [cols_of nth]. fold (cols_of g). rewrite (IH _ _ d) by lia.
    rewrite offs_cons_S. f_equal. lia.
Qed.

Lemma rows_of_length : forall f ncs dn os so, length (rows_of f ncs dn os so) = length os.
Proof.
  intros f ncs dn os. induction os as [|x os IH]; intros so; cbn; [reflexivity|].
  now rewrite IH.
Qed.

Lemma rows_of_nth : forall f ncs dn os so i d, (i < length os)%nat ->
  nth i (rows_of f ncs dn os so) [] =
  cols_of (fun nc dn' => f (nth i os d) nc (so + offs os i) dn') ncs dn.
Proof.
  intros f ncs dn os. induction os as [|x os IH]; intros so i d H; cbn [length] in H; [lia|].
  destruct i as [|i].
  - cbn [rows_of nth]. rewrite offs_0, N.add_0_r. reflexivity.
  - cbn [rows_of nth]. fold (rows_of f ncs dn). rewrite (IH _ _ d) by lia.
    rewrite offs_cons_S, N.add_assoc. reflexivity.
Qed.

Lemma tentry_at_in : forall ocs ncs so dn i j d, (i < length ocs)%nat -> (j < length ncs)%nat ->
  tentry_at (mk_table ocs ncs so dn) i j =
  (bp (nth i ocs d) (nth j ncs d) (so + offs ocs i) (dn + offs ncs j),
   nodes_match (nth i ocs d) (nth j ncs d)).
Proof.
  intros ocs ncs so dn i j d Hi Hj. unfold tentry_at, mk_table.
  rewrite (rows_of_nth _ _ _ _ _ _ d Hi). now rewrite (cols_of_nth _ _ _ _ d Hj).
Qed.

Lemma tentry_at_out : forall ocs ncs so dn i j,
  ~ ((i < length ocs)%nat /\ (j < length ncs)%nat) ->
  tentry_at (mk_table ocs ncs so dn) i j = (([], 0), false).
Proof.
  intros ocs ncs so dn i j H. unfold tentry_at, mk_table.
  destruct (Nat.lt_ge_cases i (length ocs)) as [Hi|Hi].
  - rewrite (rows_of_nth _ _ _ _ _ _ (Mem 0) Hi).
    apply nth_overflow. rewrite cols_of_length. lia.
  - rewrite (nth_overflow (rows_of bp_pair ncs dn ocs so)) by (rewrite rows_of_length; lia).
    destruct j; reflexivity.
Qed.

Lemma table_at_tentry : forall T i j, table_at T i j = fst (tentry_at T i j).
Proof. reflexivity. Qed.

Lemma table_at_in : forall ocs ncs so dn i j d, (i < length ocs)%nat -> (j < length ncs)%nat ->
  table_at (mk_table ocs ncs so dn) i j =
  bp (nth i ocs d) (nth j ncs d) (so + offs ocs i) (dn + offs ncs j).
Proof.
  intros ocs ncs so dn i j d Hi Hj.
  now rewrite table_at_tentry, (tentry_at_in _ _ _ _ _ _ d Hi Hj).
Qed.

Lemma table_at_out : forall ocs ncs so dn i j,
  ~ ((i < length ocs)%nat /\ (j < length ncs)%nat) ->
  table_at (mk_table ocs ncs so dn) i j = ([], 0).
Proof.
  intros ocs ncs so dn i j H. now rewrite table_at_tentry, tentry_at_out.
Qed.

(* ------------------------------------------------------------------ *)
(* the LCS backtrack returns strictly increasing Common pairs,          *)
(* whatever the score and dp tables are                                *)

Fixpoint commons (rs : list diff_result) : list (nat * nat) :=
  match rs with
  | [] => []
  | Common i j :: r => (i, j) :: commons r
  | _ :: r => commons r
  end.

Definition lt2 (a b : nat * nat) : Prop := (fst a < fst b)%nat /\ (snd a < snd b)%nat.

Lemma collect_commons : forall T rs,
  collect T rs = flat_map (fun c => fst (table_at T (fst c) (snd c))) (commons rs).
Proof.
  intros T rs. induction rs as [|[i j|i|j] rs IH]; cbn [collect commons flat_map fst snd]; auto.
  now rewrite IH.
Qed.

Lemma backtrack_sorted : forall fuel scores dp i j acc,
  StronglySorted lt2 (commons acc) ->
  Forall (fun c => (i <= fst c)%nat /\ (j <= snd c)%nat) (commons acc) ->
  StronglySorted lt2 (commons (backtrack fuel scores dp i j acc)).
Proof.
  induction fuel as [|fuel IH]; intros scores dp i j acc HS HF; cbn [backtrack]; auto.
  destruct i as [|i], j as [|j]; auto.
  - apply IH; cbn [commons]; auto.
    eapply Forall_impl; [|exact HF]. cbn. intros; lia.
  - apply IH; cbn [commons]; auto.
    eapply Forall_impl; [|exact HF]. cbn. intros; lia.
  - destruct ((0 <? score_at scores i j) &&
              (dp_at dp (S i) (S j) =? dp_at dp i j + score_at scores i j)).
    + apply IH; cbn [commons].
      * constructor; [exact HS|]. eapply Forall_impl; [|exact HF].
        intros [a b]. unfold lt2. cbn. lia.
      * constructor; [cbn; lia|]. eapply Forall_impl; [|exact HF]. cbn. intros; lia.
    + destruct (dp_at dp (S i) j <? dp_at dp i (S j)).
      * apply IH; cbn [commons]; auto.
        eapply Forall_impl; [|exact HF]. cbn. intros; lia.
      * apply IH; cbn [commons]; auto.
        eapply Forall_impl; [|exact HF]. cbn. intros; lia.
Qed.

Lemma lcs_sorted : forall n m scores, StronglySorted lt2 (commons (lcs_by_score n m scores)).
Proof.
  intros. unfold lcs_by_score. apply backtrack_sorted; cbn; constructor.
Qed.

(* ------------------------------------------------------------------ *)
(* sorted lists                                                        *)

Lemma SSorted_app : forall (A : Type) (R : A -> A -> Prop) l1 l2,
  StronglySorted R l1 -> StronglySorted R l2 ->
  (forall x y, In x l1 -> In y l2 -> R x y) ->
  StronglySorted R (l1 ++ l2).
Proof.
  intros A R l1 l2 H1 H2 H. induction H1 as [|a l1 H1 IH HF]; cbn; auto.
  constructor.
  - apply IH. intros x y Hx Hy. apply H; [now right|assumption].
  - apply Forall_app. split; auto.
    apply Forall_forall. intros y Hy. apply H; [now left|assumption].
Qed.

Lemma SSorted_nodup : forall (A : Type) (dec : forall x y : A, {x = y} + {x <> y})
  (R : A -> A -> Prop) l, StronglySorted R l -> StronglySorted R (nodup dec l).
Proof.
  intros A dec R l H. induction H as [|a l H IH HF]; cbn; [constructor|].
  destruct (in_dec dec a l); auto.
  constructor; auto.
  apply Forall_forall. intros y Hy. apply nodup_In in Hy.
  rewrite Forall_forall in HF. auto.
Qed.

Lemma SSorted_pair : forall (A : Type) (R : A -> A -> Prop) l p q,
  StronglySorted R l -> In p l -> In q l -> p <> q -> R p q \/ R q p.
Proof.
  intros A R l p q H. induction H as [|a l H IH HF]; intros Hp Hq Hne; [destruct Hp|].
  rewrite Forall_forall in HF.
  destruct Hp as [Hp|Hp], Hq as [Hq|Hq]; subst; auto.
  congruence.
Qed.

(* ------------------------------------------------------------------ *)
(* the structural invariant of bp                                      *)

Definition before (p q : patch) : Prop :=
  p_src p + p_sz p <= p_src q /\ p_dst p + p_sz p <= p_dst q.

Definition within (so szo dn szn : N) (p : patch) : Prop :=
  so <= p_src p /\ p_src p + p_sz p <= so + szo /\
  dn <= p_dst p /\ p_dst p + p_sz p <= dn + szn.

Lemma blocks_sorted : forall (T : list (list tentry)) (A B : nat -> N),
  (forall i i', (i <= i')%nat -> A i <= A i') ->
  (forall j j', (j <= j')%nat -> B j <= B j') ->
  (forall i j, StronglySorted before (fst (table_at T i j))) ->
  (forall i j p, In p (fst (table_at T i j)) ->
     A i <= p_src p /\ p_src p + p_sz p <= A (S i) /\
     B j <= p_dst p /\ p_dst p + p_sz p <= B (S j)) ->
  forall cs, StronglySorted lt2 cs ->
  StronglySorted before (flat_map (fun c => fst (table_at T (fst c) (snd c))) cs).
Proof.
  intros T A B HA HB HS HIn cs Hcs.
  induction Hcs as [|c cs Hcs IH HF]; cbn [flat_map]; [constructor|].
  apply SSorted_app; auto.
  intros x y Hx Hy. apply in_flat_map in Hy as [c' [Hc' Hy]].
  rewrite Forall_forall in HF. destruct (HF _ Hc') as [L1 L2].
  apply HIn in Hx. apply HIn in Hy.
  specialize (HA (S (fst c)) (fst c') L1). specialize (HB (S (snd c)) (snd c') L2).
  unfold before. lia.
Qed.

Lemma size_FnCall : forall cs, size (FnCall cs) = sumN (map size cs).
Proof. reflexivity. Qed.

Definition bp_ok (o : skel) : Prop :=
  forall n so dn,
    StronglySorted before (fst (bp o n so dn)) /\
    Forall (within so (size o) dn (size n)) (fst (bp o n so dn)).

Lemma table_blocks : forall ocs ncs so dn, Forall bp_ok ocs ->
  forall i j,
    StronglySorted before (fst (table_at (mk_table ocs ncs so dn) i j)) /\
    forall p, In p (fst (table_at (mk_table ocs ncs so dn) i j)) ->
      so + offs ocs i <= p_src p /\ p_src p + p_sz p <= so + offs ocs (S i) /\
      dn + offs ncs j <= p_dst p /\ p_dst p + p_sz p <= dn + offs ncs (S j).
Proof.
  intros ocs ncs so dn IH i j. rewrite Forall_forall in IH.
  destruct (Nat.lt_ge_cases i (length ocs)) as [Hi|Hi];
    [destruct (Nat.lt_ge_cases j (length ncs)) as [Hj|Hj]|].
  - rewrite (table_at_in _ _ _ _ _ _ (Mem 0) Hi Hj).
    destruct (IH (nth i ocs (Mem 0)) (nth_In _ _ Hi) (nth j ncs (Mem 0))
                 (so + offs ocs i) (dn + offs ncs j)) as [S1 S2].
    split; auto. intros p Hp. rewrite Forall_forall in S2. specialize (S2 p Hp).
    unfold within in S2.
    rewrite (offs_S_nth _ _ (Mem 0) Hi), (offs_S_nth _ _ (Mem 0) Hj). lia.
  - rewrite table_at_out by lia. split; [constructor|intros p []].
  - rewrite table_at_out by lia. split; [constructor|intros p []].
Qed.

Lemma table_sorted : forall ocs ncs so dn, Forall bp_ok ocs ->
  forall cs, StronglySorted lt2 cs ->
  StronglySorted before
    (flat_map (fun c => fst (table_at (mk_table ocs ncs so dn) (fst c) (snd c))) cs).
Proof.
  intros ocs ncs so dn IH cs Hcs.
  apply (blocks_sorted _ (fun i => so + offs ocs i) (fun j => dn + offs ncs j)); auto.
  - intros i i' H. pose proof (offs_mono ocs i i' H). lia.
  - intros j j' H. pose proof (offs_mono ncs j j' H). lia.
  - intros i j. apply table_blocks; auto.
  - intros i j. apply table_blocks; auto.
Qed.

Theorem bp_inv : forall o, bp_ok o.
Proof.
  unfold bp_ok.
  induction o as [l|x|x|ocs IH] using skel_ind'; intros n so dn; rewrite bp_unfold;
    (destruct (nodes_match _ n) eqn:E;
     [apply nodes_match_eq in E; subst n; cbn [fst]; split;
      [repeat constructor | repeat constructor; cbn [p_src p_dst p_sz]; lia]|]);
    try (split; constructor).
  destruct n as [l|x|x|ncs]; try (split; constructor).
  cbv zeta. cbn [fst]. rewrite collect_commons.
  set (cs := commons _).
  assert (Hcs : StronglySorted lt2 cs) by apply lcs_sorted.
  clearbody cs.
  split.
  - apply SSorted_nodup. apply table_sorted; auto.
  - apply Forall_forall. intros p Hp. apply nodup_In in Hp.
    apply in_flat_map in Hp as [c [_ Hp]].
    apply (table_blocks ocs ncs so dn IH) in Hp. unfold within. rewrite !size_FnCall.
    pose proof (offs_total ocs (S (fst c))). pose proof (offs_total ncs (S (snd c))).
    pose proof (offs_mono ocs 0 (fst c) (Nat.le_0_l _)).
    pose proof (offs_mono ncs 0 (snd c) (Nat.le_0_l _)).
    rewrite offs_0 in *. lia.
Qed.

Lemma all_bp_ok : forall l, Forall bp_ok l.
Proof. intros l. apply Forall_forall. intros o _. apply bp_inv. Qed.

Lemma collect_sorted : forall ocs ncs so dn n m scores,
  StronglySorted before (collect (mk_table ocs ncs so dn) (lcs_by_score n m scores)).
Proof.
  intros. rewrite collect_commons. apply table_sorted; [apply all_bp_ok|apply lcs_sorted].
Qed.

(* ------------------------------------------------------------------ *)
(* consequences for take_diff                                          *)

Lemma take_diff_sorted : forall o n, StronglySorted before (take_diff o n).
Proof. intros o n. apply bp_inv. Qed.

Lemma take_diff_in_bounds : forall (o n : skel) (p : patch),
  In p (take_diff o n) ->
  p_src p + p_sz p <= size o /\ p_dst p + p_sz p <= size n.
Proof.
  intros o n p H. destruct (bp_inv o n 0 0) as [_ HF].
  rewrite Forall_forall in HF. specialize (HF p H). unfold within in HF. lia.
Qed.

Lemma take_diff_before : forall (o n : skel) (p q : patch),
  In p (take_diff o n) -> In q (take_diff o n) -> p <> q -> before p q \/ before q p.
Proof.
  intros o n p q Hp Hq Hne. exact (SSorted_pair _ _ _ _ _ (take_diff_sorted o n) Hp Hq Hne).
Qed.

Lemma take_diff_disjoint : forall (o n : skel) (p q : patch),
  In p (take_diff o n) -> In q (take_diff o n) -> p <> q ->
  (p_dst p + p_sz p <= p_dst q \/ p_dst q + p_sz q <= p_dst p) /\
  (p_src p + p_sz p <= p_src q \/ p_src q + p_sz q <= p_src p).
Proof.
  intros o n p q Hp Hq Hne.
  destruct (take_diff_before o n p q Hp Hq Hne) as [[H1 H2]|[H1 H2]]; lia.
Qed.

Lemma take_diff_order : forall (o n : skel) (p q : patch),
  In p (take_diff o n) -> In q (take_diff o n) ->
  0 < p_sz p -> 0 < p_sz q ->
  p_dst p < p_dst q -> p_src p < p_src q.
Proof.
  intros o n p q Hp Hq Zp Zq Hlt.
  assert (Hne : p <> q) by (intros ->; lia).
  destruct (take_diff_before o n p q Hp Hq Hne) as [[H1 H2]|[H1 H2]]; lia.
Qed.

Lemma collect_In : forall T rs p, In p (collect T rs) -> exists i j, In p (fst (table_at T i j)).
Proof.
  intros T rs p H. rewrite collect_commons in H.
  apply in_flat_map in H as [c [_ H]]. eauto.
Qed.

Lemma shape_root : forall o so dn,
  let p := mkPatch so dn (size o) in
  exists (po pn : list nat) (t : skel) (a b : N),
    subtree o po = Some t /\ subtree o pn = Some t /\
    path_to_address o po = Some (a, p_sz p) /\
    path_to_address o pn = Some (b, p_sz p) /\
    p_src p = so + a /\ p_dst p = dn + b.
Proof.
  intros o so dn p. exists [], [], o, 0, 0. subst p.
  cbn [subtree path_to_address p_src p_dst p_sz]. repeat split; try reflexivity; lia.
Qed.

Lemma bp_shape : forall o n so dn p, In p (fst (bp o n so dn)) ->
  exists (po pn : list nat) (t : skel) (a b : N),
    subtree o po = Some t /\ subtree n pn = Some t /\
    path_to_address o po = Some (a, p_sz p) /\
    path_to_address n pn = Some (b, p_sz p) /\
    p_src p = so + a /\ p_dst p = dn + b.
Proof.
  induction o as [l|x|x|ocs IH] using skel_ind'; intros n so dn p; rewrite bp_unfold;
    (destruct (nodes_match _ n) eqn:E;
     [apply nodes_match_eq in E; subst n; intros [<-|[]]; apply shape_root|]);
    try (intros []).
  destruct n as [l|x|x|ncs]; try (intros []).
  cbv zeta. cbn [fst]. intros Hp. apply nodup_In in Hp. apply collect_In in Hp as [i [j Hp]].
  destruct (Nat.lt_ge_cases i (length ocs)) as [Hi|Hi];
    [destruct (Nat.lt_ge_cases j (length ncs)) as [Hj|Hj]|];
    try (rewrite table_at_out in Hp by lia; destruct Hp).
  rewrite (table_at_in _ _ _ _ _ _ (Mem 0) Hi Hj) in Hp.
  rewrite Forall_forall in IH.
  destruct (IH _ (nth_In _ _ Hi) _ _ _ _ Hp) as (po & pn & t & a & b & S1 & S2 & A1 & A2 & E1 & E2).
  exists (i :: po), (j :: pn), t, (offs ocs i + a), (offs ncs j + b).
  cbn [subtree path_to_address].
  rewrite (nth_error_nth' ocs (Mem 0) Hi), (nth_error_nth' ncs (Mem 0) Hj).
  rewrite A1, A2. unfold offs in *. repeat split; auto; lia.
Qed.

Lemma take_diff_same_shape : forall (o n : skel) (p : patch),
  In p (take_diff o n) ->
  exists (po pn : list nat) (t : skel),
    subtree o po = Some t /\ subtree n pn = Some t /\
    path_to_address o po = Some (p_src p, p_sz p) /\
    path_to_address n pn = Some (p_dst p, p_sz p).
Proof.
  intros o n p H.
  destruct (bp_shape o n 0 0 p H) as (po & pn & t & a & b & S1 & S2 & A1 & A2 & E1 & E2).
  exists po, pn, t. rewrite E1, E2, !N.add_0_l. auto.
Qed.
