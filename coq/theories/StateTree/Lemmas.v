(* StateTree/Lemmas.v — proofs about StateTree/Model.v *)
From Coq Require Import List NArith Bool Lia Arith Sorted Permutation.
From Mimium Require Import Tables.StateTreeConsts StateTree.Model.
Import ListNotations.
Local Open Scope N_scope.

(* nested induction principle for skel *)
Section SkelInd.
  Variable P : skel -> Prop.
  Hypothesis HD : forall l, P (Delay l).
  Hypothesis HM : forall n, P (Mem n).
  Hypothesis HF : forall n, P (Feed n).
  Hypothesis HC : forall cs, Forall P cs -> P (FnCall cs).
  Fixpoint skel_ind' (s : skel) : P s :=
    match s with
    | Delay l => HD l
    | Mem n => HM n
    | Feed n => HF n
    | FnCall cs =>
        HC cs ((fix go (l : list skel) : Forall P l :=
                  match l with
                  | [] => Forall_nil P
                  | x :: xs => Forall_cons x (skel_ind' x) (go xs)
                  end) cs)
    end.
End SkelInd.

Lemma skel_eqb_refl : forall s, skel_eqb s s = true.
Proof.
  induction s as [l|n|n|cs IH] using skel_ind'; cbn; try apply N.eqb_refl.
  induction IH as [|x xs Hx _ IHxs]; [reflexivity|].
  rewrite Hx. exact IHxs.
Qed.

Lemma plan_identical_none : forall s, plan s s = None.
Proof. intros s. unfold plan. now rewrite skel_eqb_refl. Qed.
