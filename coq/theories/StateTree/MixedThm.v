(* StateTree/MixedThm.v — the survivors clause for mixed edits, stated on `plan` (what Props/C08.v exports), and witnesses *)
From Coq Require Import List NArith Bool Lia Arith Sorted.
From Mimium Require Import Tables.StateTreeConsts StateTree.Model StateTree.Lemmas StateTree.Lcs
  StateTree.Apply StateTree.Embeds StateTree.Indep StateTree.Script StateTree.Unamb StateTree.Carried.
Import ListNotations.
Local Open Scope N_scope.

Lemma plan_call_differs : forall os ns total ps, plan (FnCall os) (FnCall ns) = Some (total, ps) ->
  nodes_match (FnCall os) (FnCall ns) = false.
Proof.
  intros os ns total ps HP. destruct (nodes_match (FnCall os) (FnCall ns)) eqn:M; auto.
  apply nodes_match_eq in M. rewrite M, plan_identical_none in HP. discriminate.
Qed.

(* the identity form at ONE pair of call nodes laid out from the addresses so / dn, for EVERY script between their children *)
Definition untouched_whole (os ns : list skel) (so dn : N) (ps : list patch) : Prop :=
  forall sc, olds sc = os -> news sc = ns ->
    (new_fresh os sc ->
       forall j c, nth_error ns j = Some c -> 0 < count_cells c -> In c os ->
       exists i, nth_error os i = Some c /\ In (mkPatch (so + child_off os i) (dn + child_off ns j) (size c)) ps) /\
    (old_fresh ns sc ->
       forall i c, nth_error os i = Some c -> 0 < count_cells c -> In c ns ->
       exists j, nth_error ns j = Some c /\ In (mkPatch (so + child_off os i) (dn + child_off ns j) (size c)) ps).

Lemma untouched_whole_ext : forall os ns so dn l l', (forall p, In p l <-> In p l') ->
  untouched_whole os ns so dn l -> untouched_whole os ns so dn l'.
Proof.
  intros os ns so dn l l' I H sc Eo En. destruct (H sc Eo En) as [A B]. split.
  - intros HF j c Hj Hc Hn. destruct (A HF j c Hj Hc Hn) as (i & Hi & Hp). exists i. split; [exact Hi|now apply I].
  - intros HF i c Hi Hc Hn. destruct (B HF i c Hi Hc Hn) as (j & Hj & Hp). exists j. split; [exact Hj|now apply I].
Qed.

Lemma untouched_whole_bp : forall os ns so dn, nodes_match (FnCall os) (FnCall ns) = false ->
  untouched_whole os ns so dn (fst (bp (FnCall os) (FnCall ns) so dn)).
Proof.
  intros os ns so dn E sc <- <-. split.
  - intros HF. exact (unamb_new sc so dn E HF).
  - intros HF. exact (unamb_old sc so dn E HF).
Qed.

(* identity form for the children of the root *)
Lemma survivors_mixed_unambiguous : forall (sc : script) (total : N) (ps : list patch),
  plan (FnCall (olds sc)) (FnCall (news sc)) = Some (total, ps) ->
  (new_fresh (olds sc) sc ->
     forall j c, nth_error (news sc) j = Some c -> 0 < count_cells c -> In c (olds sc) ->
     exists i, nth_error (olds sc) i = Some c /\
               In (mkPatch (child_off (olds sc) i) (child_off (news sc) j) (size c)) ps) /\
  (old_fresh (news sc) sc ->
     forall i c, nth_error (olds sc) i = Some c -> 0 < count_cells c -> In c (news sc) ->
     exists j, nth_error (news sc) j = Some c /\
               In (mkPatch (child_off (olds sc) i) (child_off (news sc) j) (size c)) ps).
Proof.
  intros sc total ps HP. pose proof (plan_call_differs _ _ _ _ HP) as E.
  apply plan_inv in HP as [-> ->]. unfold take_diff.
  destruct (untouched_whole_bp (olds sc) (news sc) 0 0 E sc eq_refl eq_refl) as [A B]. split.
  - intros HF j c Hj Hc Hn. destruct (A HF j c Hj Hc Hn) as (i & Hi & Hp). exists i. split; [exact Hi|exact Hp].
  - intros HF i c Hi Hc Hn. destruct (B HF i c Hi Hc Hn) as (j & Hj & Hp). exists j. split; [exact Hj|exact Hp].
Qed.

(* every plan is the set of whole-subtree copies of an order-preserving matching of identical subtrees, and at every pair of
   (different) call nodes the matching pairs, the identity form holds for every script between their children *)
Lemma plan_carried : forall (o n : skel) (total : N) (ps : list patch),
  plan o n = Some (total, ps) ->
  exists ps' c, carried untouched_whole o n 0 0 ps' c /\ (forall p, In p ps' <-> In p ps).
Proof.
  intros o n total ps HP. apply plan_inv in HP as [-> ->]. unfold take_diff.
  destruct (bp_carried untouched_whole untouched_whole_ext untouched_whole_bp o n 0 0) as (ps' & C & I). eauto.
Qed.

(* count form at any depth: that matching carries at least as many cells as survive the mixed edit *)
Lemma survivors_mixed_count : forall (o n : skel) (k total : N) (ps : list patch),
  plan o n = Some (total, ps) -> medit o n k ->
  exists ps' c, carried untouched_whole o n 0 0 ps' c /\ (forall p, In p ps' <-> In p ps) /\ k <= c.
Proof.
  intros o n k total ps HP ME. apply plan_inv in HP as [-> ->]. unfold take_diff.
  destruct (bp_carried untouched_whole untouched_whole_ext untouched_whole_bp o n 0 0) as (ps' & C & I).
  exists ps', (snd (bp o n 0 0)). repeat split; auto; try apply I. now apply mixed_cells.
Qed.

(* ------------------------------------------------------------------ *)
(* witnesses                                                           *)

(* voices A = {self, mem, delay 1}, B = {self, mem}, C = {mem, delay 1}; old = (A, B), new = (B, C):
   ONE edit removes A and adds C behind the untouched B.  The added C shares a cell (mem) with the old B: ambiguous. *)
Definition wA : skel := FnCall [Feed 1; Mem 1; Delay 1].
Definition wB : skel := FnCall [Feed 1; Mem 1].
Definition wC : skel := FnCall [Mem 1; Delay 1].
Definition w_script : script := [Del wA; Same wB; Ins wC].

(* the chain A->B (2 cells) + B->C (1 cell) beats the identical pair B->B (2 cells + bonus): the untouched B is filled from A *)
Lemma mixed_refuted :
  exists sc total ps j c,
    plan (FnCall (olds sc)) (FnCall (news sc)) = Some (total, ps) /\
    In (Same c) sc /\ nth_error (news sc) j = Some c /\ 0 < count_cells c /\
    forall i, nth_error (olds sc) i = Some c ->
      ~ In (mkPatch (child_off (olds sc) i) (child_off (news sc) j) (size c)) ps.
Proof.
  exists w_script, 6, [mkPatch 0 0 1; mkPatch 1 1 1; mkPatch 6 2 1], O, wB.
  split; [vm_compute; reflexivity|]. split; [right; left; reflexivity|]. split; [reflexivity|].
  split; [vm_compute; reflexivity|].
  intros i Hi Hin. destruct i as [|[|i]].
  - discriminate.
  - vm_compute in Hin. destruct Hin as [H|[H|[H|[]]]]; discriminate.
  - destruct i; discriminate.
Qed.

(* ... and it is ambiguous in the sense of new_fresh: the added C shares the cell Mem 1 with the old B *)
Lemma mixed_refuted_ambiguous : share wB wC = true /\ ~ new_fresh (olds w_script) w_script.
Proof.
  split; [vm_compute; reflexivity|]. intros [H _]. specialize (H wB (or_intror (or_introl eq_refl))).
  vm_compute in H. discriminate.
Qed.

(* the witness found through C07's "delins" histories: dsp children [f115, f131, f105, f127] -> [f115, f105, f128, f127]
   (f131 = {self, mem x3, delay 3} removed, f128 = {mem x2, delay 3} added behind the untouched f105 = {self, mem x2}):
   old f131 is paired with new f105 (3 cells) and old f105 with new f128 (2 cells) *)
Definition f115 : skel := FnCall [Feed 1; Mem 1; Mem 1; Mem 1; Delay 1].
Definition f131 : skel := FnCall [Feed 1; Mem 1; Mem 1; Mem 1; Delay 3].
Definition f105 : skel := FnCall [Feed 1; Mem 1; Mem 1].
Definition f127 : skel := FnCall [Feed 1; Mem 1; Delay 3].
Definition f128 : skel := FnCall [Mem 1; Mem 1; Delay 3].

Lemma delins_witness :
  plan (FnCall [f115; f131; f105; f127]) (FnCall [f115; f105; f128; f127]) =
  Some (24, [mkPatch 0 0 7; mkPatch 7 7 1; mkPatch 9 8 1; mkPatch 10 9 1; mkPatch 17 10 1; mkPatch 18 11 1; mkPatch 19 17 7]).
Proof. vm_compute. reflexivity. Qed.

(* an unambiguous instance of the same edit: the added site shares nothing with the old sites *)
Definition wD : skel := FnCall [Delay 7; Feed 2].
Definition u_script : script := [Del wA; Same wB; Ins wD].

Lemma u_fresh : new_fresh (olds u_script) u_script.
Proof.
  cbn [new_fresh u_script olds]. split; [|exact I].
  intros a [<-|[<-|[]]]; vm_compute; reflexivity.
Qed.

Lemma u_plan : plan (FnCall (olds u_script)) (FnCall (news u_script)) = Some (13, [mkPatch 5 0 2]).
Proof. vm_compute. reflexivity. Qed.

(* exact-first scoring would repair mixed_refuted but lose a word here: new = old minus M1 in child 0 and minus D1 in child 1
   (a pure deletion; the same pair is also "child 1 removed, [E1] added in front of the untouched child 0").
   The current scoring carries all three words. *)
Definition aO : skel := FnCall [FnCall [Mem 1; Feed 1]; FnCall [Mem 1; Feed 1; Delay 1]].
Definition aN : skel := FnCall [FnCall [Feed 1]; FnCall [Mem 1; Feed 1]].

Lemma ambiguous_deletion_carried :
  plan aO aN = Some (3, [mkPatch 1 0 1; mkPatch 2 1 1; mkPatch 3 2 1]).
Proof. vm_compute. reflexivity. Qed.

Lemma ambiguous_deletion_embeds : embeds aN aO.
Proof.
  apply emb_call. apply el_keep.
  - apply emb_call. apply el_skip. apply el_keep; [apply emb_eq|apply el_nil].
  - apply el_keep; [|apply el_nil].
    apply emb_call. apply el_keep; [apply emb_eq|]. apply el_keep; [apply emb_eq|]. apply el_skip. apply el_nil.
Qed.

(* a mixed edit at depth with its count: child 0 edited inside (M2 removed, D0 added, M1 survives), child 1 added *)
Lemma nested_medit :
  medit (FnCall [FnCall [Mem 2; Mem 1]; Mem 3]) (FnCall [FnCall [Mem 1; Delay 0]; FnCall [Mem 2; Feed 1]; Mem 3]) 2.
Proof.
  apply (me_call [Edit (FnCall [Mem 2; Mem 1]) (FnCall [Mem 1; Delay 0]); Ins (FnCall [Mem 2; Feed 1]); Same (Mem 3)] 2).
  apply (ml_edit _ _ 1 _ 1).
  - apply (me_call [Del (Mem 2); Same (Mem 1); Ins (Delay 0)] 1).
    apply ml_del. apply (ml_same (Mem 1) _ 0). apply ml_ins. apply ml_nil.
  - apply ml_ins. apply (ml_same (Mem 3) _ 0). apply ml_nil.
Qed.

Lemma u_example :
  new_fresh (olds u_script) u_script /\
  u_script = [Del (FnCall [Feed 1; Mem 1; Delay 1]); Same (FnCall [Feed 1; Mem 1]); Ins (FnCall [Delay 7; Feed 2])] /\
  plan (FnCall (olds u_script)) (FnCall (news u_script)) = Some (13, [mkPatch 5 0 2]).
Proof. split; [exact u_fresh|]. split; [reflexivity|exact u_plan]. Qed.

Lemma ambiguous_deletion_example :
  embeds (FnCall [FnCall [Feed 1]; FnCall [Mem 1; Feed 1]]) (FnCall [FnCall [Mem 1; Feed 1]; FnCall [Mem 1; Feed 1; Delay 1]]) /\
  plan (FnCall [FnCall [Mem 1; Feed 1]; FnCall [Mem 1; Feed 1; Delay 1]]) (FnCall [FnCall [Feed 1]; FnCall [Mem 1; Feed 1]])
  = Some (3, [mkPatch 1 0 1; mkPatch 2 1 1; mkPatch 3 2 1]).
Proof. split; [exact ambiguous_deletion_embeds|exact ambiguous_deletion_carried]. Qed.
