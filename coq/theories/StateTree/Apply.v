(* StateTree/Apply.v — applying a list of copy patches (patch.rs) *)
From Coq Require Import List NArith Bool Lia Arith Sorted Permutation.
From Mimium Require Import Tables.StateTreeConsts StateTree.Model StateTree.Lemmas.
Import ListNotations.
Local Open Scope N_scope.

Lemma nth_firstn_lt : forall (A : Type) (l : list A) n i d, (i < n)%nat ->
  nth i (firstn n l) d = nth i l d.
Proof.
  intros A l. induction l as [|x l IH]; intros n i d H.
  - rewrite firstn_nil. reflexivity.
  - destruct n as [|n]; [lia|]. destruct i as [|i]; cbn [firstn nth]; [reflexivity|].
    apply IH. lia.
Qed.

Lemma nth_skipn_add : forall (A : Type) (l : list A) n i d,
  nth i (skipn n l) d = nth (n + i) l d.
Proof.
  intros A l. induction l as [|x l IH]; intros n i d.
  - rewrite skipn_nil. destruct i, n; reflexivity.
  - destruct n as [|n]; [reflexivity|]. cbn [skipn Nat.add nth]. apply IH.
Qed.

Lemma nth_write : forall (st data : list N) dst i,
  (dst + length data <= length st)%nat ->
  nth i (firstn dst st ++ data ++ skipn (dst + length data) st) 0 =
  if (dst <=? i)%nat && (i <? dst + length data)%nat
  then nth (i - dst) data 0 else nth i st 0.
Proof.
  intros st data dst i H.
  assert (HL : length (firstn dst st) = dst) by (apply firstn_length_le; lia).
  destruct (Nat.leb_spec dst i) as [H1|H1]; cbn [andb].
  - rewrite app_nth2 by lia. rewrite HL.
    destruct (Nat.ltb_spec i (dst + length data)) as [H2|H2].
    + rewrite app_nth1 by lia. reflexivity.
    + rewrite app_nth2 by lia. rewrite nth_skipn_add. f_equal. lia.
  - rewrite app_nth1 by lia. apply nth_firstn_lt. exact H1.
Qed.

Definition covers (p : patch) (i : nat) : Prop :=
  p_dst p <= N.of_nat i < p_dst p + p_sz p.

Definition dst_disjoint (p q : patch) : Prop :=
  p_dst p + p_sz p <= p_dst q \/ p_dst q + p_sz q <= p_dst p.

Lemma apply_patches_spec : forall (old : list N) (ps : list patch) (st0 : list N),
  (forall p, In p ps ->
     (N.to_nat (p_src p) + N.to_nat (p_sz p) <= length old)%nat /\
     (N.to_nat (p_dst p) + N.to_nat (p_sz p) <= length st0)%nat) ->
  (forall p q, In p ps -> In q ps -> p <> q -> dst_disjoint p q) ->
  exists st, apply_patches st0 old ps = Some st /\ length st = length st0 /\
    forall i, (i < length st)%nat ->
      (forall p, In p ps -> covers p i ->
         nth i st 0 = nth (N.to_nat (p_src p) + (i - N.to_nat (p_dst p))) old 0) /\
      ((forall p, In p ps -> ~ covers p i) -> nth i st 0 = nth i st0 0).
Proof.
  intros old ps. induction ps as [|p ps IH] using rev_ind; intros st0 HB HD.
  - exists st0. repeat split; auto. intros p [].
  - destruct (IH st0) as (st1 & E1 & L1 & S1).
    { intros q Hq. apply HB. apply in_or_app. now left. }
    { intros q r Hq Hr. apply HD; apply in_or_app; now left. }
    destruct (HB p) as [Bs Bd]; [apply in_or_app; right; now left|].
    unfold apply_patches in *. rewrite fold_left_app, E1. cbn [fold_left apply_patch].
    unfold slice. destruct (Nat.leb_spec (N.to_nat (p_src p) + N.to_nat (p_sz p)) (length old));
      [|lia].
    set (data := firstn (N.to_nat (p_sz p)) (skipn (N.to_nat (p_src p)) old)).
    assert (LD : length data = N.to_nat (p_sz p)).
    { subst data. rewrite firstn_length, skipn_length. lia. }
    unfold write_at. rewrite LD, L1.
    destruct (Nat.leb_spec (N.to_nat (p_dst p) + N.to_nat (p_sz p)) (length st0)); [|lia].
    eexists. split; [reflexivity|]. split.
    { rewrite !app_length, firstn_length, skipn_length, LD. lia. }
    intros i Hi.
    rewrite !app_length, firstn_length, skipn_length, LD, L1 in Hi.
    assert (Hi1 : (i < length st1)%nat) by lia.
    pose proof (nth_write st1 data (N.to_nat (p_dst p)) i) as W.
    rewrite LD in W. rewrite W by lia. clear W.
    destruct (S1 i Hi1) as [S1a S1b].
    destruct (Nat.leb_spec (N.to_nat (p_dst p)) i) as [C1|C1]; cbn [andb];
      [destruct (Nat.ltb_spec i (N.to_nat (p_dst p) + N.to_nat (p_sz p))) as [C2|C2]|].
    + (* p covers i *)
      assert (Cp : covers p i) by (unfold covers; lia).
      split.
      * intros q Hq Cq.
        assert (q = p) as ->.
        { destruct (patch_eq_dec q p) as [|Hne]; auto. exfalso.
          assert (Hd : dst_disjoint q p).
          { apply HD; auto. apply in_or_app. right. now left. }
          unfold dst_disjoint, covers in *. lia. }
        subst data. rewrite nth_firstn_lt by lia. rewrite nth_skipn_add. reflexivity.
      * intros Hn. exfalso. apply (Hn p); auto. apply in_or_app. right. now left.
    + assert (Cp : ~ covers p i) by (unfold covers; lia).
      split.
      * intros q Hq Cq. apply in_app_or in Hq as [Hq|[<-|[]]]; [|contradiction].
        apply S1a; auto.
      * intros Hn. apply S1b. intros q Hq. apply Hn. apply in_or_app. now left.
    + assert (Cp : ~ covers p i) by (unfold covers; lia).
      split.
      * intros q Hq Cq. apply in_app_or in Hq as [Hq|[<-|[]]]; [|contradiction].
        apply S1a; auto.
      * intros Hn. apply S1b. intros q Hq. apply Hn. apply in_or_app. now left.
Qed.

Lemma covers_dec : forall ps i,
  (exists p, In p ps /\ covers p i) \/ (forall p, In p ps -> ~ covers p i).
Proof.
  induction ps as [|p ps IH]; intros i.
  - right. intros p [].
  - destruct (IH i) as [(q & Hq & Cq)|Hn].
    + left. exists q. split; [now right|assumption].
    + destruct (N.le_gt_cases (p_dst p) (N.of_nat i)) as [H1|H1];
        [destruct (N.le_gt_cases (p_dst p + p_sz p) (N.of_nat i)) as [H2|H2]|].
      * right. intros q [<-|Hq]; [unfold covers; lia|auto].
      * left. exists p. split; [now left|unfold covers; lia].
      * right. intros q [<-|Hq]; [unfold covers; lia|auto].
Qed.

Lemma apply_patches_perm : forall (old : list N) (ps ps' : list patch) (st0 : list N),
  (forall p, In p ps ->
     (N.to_nat (p_src p) + N.to_nat (p_sz p) <= length old)%nat /\
     (N.to_nat (p_dst p) + N.to_nat (p_sz p) <= length st0)%nat) ->
  (forall p q, In p ps -> In q ps -> p <> q -> dst_disjoint p q) ->
  Permutation ps ps' ->
  apply_patches st0 old ps' = apply_patches st0 old ps.
Proof.
  intros old ps ps' st0 HB HD HP.
  assert (HP' : Permutation ps' ps) by now apply Permutation_sym.
  destruct (apply_patches_spec old ps st0 HB HD) as (st & E & L & S).
  destruct (apply_patches_spec old ps' st0) as (st' & E' & L' & S').
  { intros p Hp. apply HB. eapply Permutation_in; eauto. }
  { intros p q Hp Hq. apply HD; eapply Permutation_in; eauto. }
  rewrite E, E'. f_equal.
  apply (nth_ext _ _ 0 0); [lia|].
  intros i Hi.
  destruct (S i ltac:(lia)) as [Sa Sb]. destruct (S' i Hi) as [Sa' Sb'].
  destruct (covers_dec ps i) as [(p & Hp & Cp)|Hn].
  - rewrite (Sa p Hp Cp). apply Sa'; auto. eapply Permutation_in; eauto.
  - rewrite Sb by assumption. apply Sb'. intros p Hp. apply Hn.
    eapply Permutation_in; eauto.
Qed.

(* ---- instantiated to the plan computed from two layouts ---- *)

Lemma plan_inv : forall o n total ps, plan o n = Some (total, ps) ->
  total = size n /\ ps = take_diff o n.
Proof.
  intros o n total ps H. unfold plan in H. destruct (skel_eqb o n); [discriminate|].
  injection H as <- <-. auto.
Qed.

Lemma plan_apply_spec : forall (o n : skel) (total : N) (ps : list patch) (old : list N),
  plan o n = Some (total, ps) -> length old = N.to_nat (size o) ->
  exists st, apply_plan old total ps = Some st /\ length st = N.to_nat (size n) /\
    forall i, (i < length st)%nat ->
      (forall p, In p ps -> p_dst p <= N.of_nat i < p_dst p + p_sz p ->
         nth i st 0 = nth (N.to_nat (p_src p) + (i - N.to_nat (p_dst p))) old 0) /\
      ((forall p, In p ps -> ~ (p_dst p <= N.of_nat i < p_dst p + p_sz p)) -> nth i st 0 = 0).
Proof.
  intros o n total ps old HP HL. apply plan_inv in HP as [-> ->].
  unfold apply_plan.
  destruct (apply_patches_spec old (take_diff o n) (repeat 0 (N.to_nat (size n))))
    as (st & E & L & S).
  { intros p Hp. apply take_diff_in_bounds in Hp. rewrite repeat_length. lia. }
  { intros p q Hp Hq Hne. apply (take_diff_disjoint o n p q Hp Hq Hne). }
  exists st. rewrite repeat_length in L. repeat split; auto.
  - intros p Hp Cp. apply (S i H); auto.
  - intros Hn. destruct (S i H) as [_ Sb]. rewrite Sb by exact Hn. apply nth_repeat.
Qed.

Lemma plan_apply_perm : forall (o n : skel) (total : N) (ps ps' : list patch) (old : list N),
  plan o n = Some (total, ps) -> Permutation ps ps' -> length old = N.to_nat (size o) ->
  apply_plan old total ps' = apply_plan old total ps.
Proof.
  intros o n total ps ps' old HP Hperm HL. apply plan_inv in HP as [-> ->].
  unfold apply_plan. apply apply_patches_perm; auto.
  - intros p Hp. apply take_diff_in_bounds in Hp. rewrite repeat_length. lia.
  - intros p q Hp Hq Hne. apply (take_diff_disjoint o n p q Hp Hq Hne).
Qed.
