(* StateTree/Script.v — MIXED edits (subtrees removed AND added in one edit, at any depth) and the count form of the
   survivors clause: the migration carries at least as many cells as the surviving subtrees contain *)
From Coq Require Import List NArith Bool Lia Arith Sorted.
From Mimium Require Import Tables.StateTreeConsts StateTree.Model StateTree.Lemmas StateTree.Lcs
  StateTree.Apply StateTree.Embeds StateTree.Indep.
Import ListNotations.
Local Open Scope N_scope.

(* one step of an edit script over the children of a call node *)
Inductive step : Type :=
| Same (s : skel)          (* an untouched child: same shape, same relative order *)
| Del (o : skel)           (* an old child removed *)
| Ins (n : skel)           (* a new child added *)
| Edit (o n : skel).       (* an old child changed in place into a new child (edited inside, or replaced) *)

Definition script : Type := list step.

(* the old / new row of children a script describes *)
Fixpoint olds (sc : script) : list skel :=
  match sc with
  | [] => []
  | Same s :: r => s :: olds r
  | Del o :: r => o :: olds r
  | Ins _ :: r => olds r
  | Edit o _ :: r => o :: olds r
  end.

Fixpoint news (sc : script) : list skel :=
  match sc with
  | [] => []
  | Same s :: r => s :: news r
  | Del _ :: r => news r
  | Ins n :: r => n :: news r
  | Edit _ n :: r => n :: news r
  end.

(* `medit old new k`: new is obtained from old by removing some subtrees and adding others, at any depth;
   k = number of cells in the surviving subtrees.
     me_same : the whole subtree survives
     me_none : nothing is known to survive (the subtree was replaced)
     me_call : the children of a call node are edited by a script
   `medit_list sc k`: k = cells of the untouched children (Same) + cells surviving inside changed children (Edit) *)
Inductive medit : skel -> skel -> N -> Prop :=
| me_same : forall s, medit s s (count_cells s)
| me_none : forall o n, medit o n 0
| me_call : forall sc k, medit_list sc k -> medit (FnCall (olds sc)) (FnCall (news sc)) k
with medit_list : script -> N -> Prop :=
| ml_nil : medit_list [] 0
| ml_same : forall s sc k, medit_list sc k -> medit_list (Same s :: sc) (count_cells s + k)
| ml_del : forall o sc k, medit_list sc k -> medit_list (Del o :: sc) k
| ml_ins : forall n sc k, medit_list sc k -> medit_list (Ins n :: sc) k
| ml_edit : forall o n k1 sc k, medit o n k1 -> medit_list sc k -> medit_list (Edit o n :: sc) (k1 + k).

Scheme medit_mind := Minimality for medit Sort Prop
  with medit_list_mind := Minimality for medit_list Sort Prop.

(* ------------------------------------------------------------------ *)

Local Notation Tsc sc os ns so dn := (map (map (pair_score sc)) (mk_table os ns so dn)).

(* old scoring, exactly: carried cells scaled plus the bonus of an identical pair *)
Definition te_cells (te : tentry) : N := snd (fst te).
Definition te_bonus (te : tentry) : N := if snd te then (if 0 <? te_cells te then 1 else 0) else 0.

Lemma pair_score_split : forall sc te, pair_score sc te = sc * te_cells te + te_bonus te.
Proof.
  intros sc [[ps cells] ex]. unfold te_bonus, te_cells. cbn [fst snd pair_score].
  destruct (N.ltb_spec 0 cells) as [H|H]; destruct ex; try lia; replace cells with 0 by lia; lia.
Qed.

Lemma te_bonus_le : forall te, te_bonus te <= 1.
Proof. intros te. unfold te_bonus. destruct (snd te); [destruct (0 <? _)|]; lia. Qed.

(* stepping through the table along a script *)
Lemma reach_del : forall sc os1 o os' ns1 ns' so dn v,
  reachb (length (ns1 ++ ns')) (Tsc sc ((os1 ++ [o]) ++ os') (ns1 ++ ns') so dn)
         (length (os1 ++ [o])) (length ns1) v ->
  reachb (length (ns1 ++ ns')) (Tsc sc (os1 ++ o :: os') (ns1 ++ ns') so dn)
         (length os1) (length ns1) v.
Proof.
  intros sc os1 o os' ns1 ns' so dn v R.
  rewrite <- app_assoc in R. cbn [app] in R.
  rewrite (app_length os1 [o]) in R. cbn [length] in R. rewrite Nat.add_1_r in R.
  apply rb_del; auto.
  - rewrite scores_length, app_length. cbn [length]. lia.
  - rewrite app_length. lia.
Qed.

Lemma reach_ins : forall sc os1 os' ns1 n ns' so dn v,
  reachb (length ((ns1 ++ [n]) ++ ns')) (Tsc sc (os1 ++ os') ((ns1 ++ [n]) ++ ns') so dn)
         (length os1) (length (ns1 ++ [n])) v ->
  reachb (length (ns1 ++ n :: ns')) (Tsc sc (os1 ++ os') (ns1 ++ n :: ns') so dn)
         (length os1) (length ns1) v.
Proof.
  intros sc os1 os' ns1 n ns' so dn v R.
  rewrite <- app_assoc in R. cbn [app] in R.
  rewrite (app_length ns1 [n]) in R. cbn [length] in R. rewrite Nat.add_1_r in R.
  apply rb_ins; auto.
  - rewrite scores_length, app_length. lia.
  - rewrite app_length. cbn [length]. lia.
Qed.

Lemma reach_com : forall sc os1 o os' ns1 n ns' so dn v,
  reachb (length ((ns1 ++ [n]) ++ ns')) (Tsc sc ((os1 ++ [o]) ++ os') ((ns1 ++ [n]) ++ ns') so dn)
         (length (os1 ++ [o])) (length (ns1 ++ [n])) v ->
  reachb (length (ns1 ++ n :: ns')) (Tsc sc (os1 ++ o :: os') (ns1 ++ n :: ns') so dn)
         (length os1) (length ns1)
         (v + pair_score sc
                (bp o n (so + offs (os1 ++ o :: os') (length os1))
                        (dn + offs (ns1 ++ n :: ns') (length ns1)), nodes_match o n)).
Proof.
  intros sc os1 o os' ns1 n ns' so dn v R.
  rewrite <- !app_assoc in R. cbn [app] in R.
  rewrite (app_length os1 [o]), (app_length ns1 [n]) in R. cbn [length] in R.
  rewrite !Nat.add_1_r in R.
  rewrite <- score_mid. apply rb_com; [| |exact R].
  - rewrite scores_length, app_length. cbn [length]. lia.
  - rewrite app_length. cbn [length]. lia.
Qed.

(* the DP sees the matching a script describes; `val` = what the script promises *)
Definition reach_ok (scr : script) (val : N -> N) : Prop :=
  forall sc os1 ns1 so dn,
    exists v, reachb (length (ns1 ++ news scr)) (Tsc sc (os1 ++ olds scr) (ns1 ++ news scr) so dn)
                     (length os1) (length ns1) v /\ val sc <= v.

Lemma reach_nil : reach_ok [] (fun _ => 0).
Proof.
  intros sc os1 ns1 so dn. exists 0. split; [|lia]. cbn [olds news].
  apply rb_end'; rewrite ?scores_length, !app_nil_r; reflexivity.
Qed.

Lemma reach_step_del : forall o scr val, reach_ok scr val -> reach_ok (Del o :: scr) val.
Proof.
  intros o scr val IH sc os1 ns1 so dn. cbn [olds news].
  destruct (IH sc (os1 ++ [o]) ns1 so dn) as (v & R & B).
  exists v. split; [apply reach_del; exact R|exact B].
Qed.

Lemma reach_step_ins : forall n scr val, reach_ok scr val -> reach_ok (Ins n :: scr) val.
Proof.
  intros n scr val IH sc os1 ns1 so dn. cbn [olds news].
  destruct (IH sc os1 (ns1 ++ [n]) so dn) as (v & R & B).
  exists v. split; [apply reach_ins; exact R|exact B].
Qed.

Lemma reach_step_pair : forall (st : step) o n scr val (w : N -> N),
  olds (st :: scr) = o :: olds scr -> news (st :: scr) = n :: news scr ->
  (forall sc so dn, w sc <= pair_score sc (bp o n so dn, nodes_match o n)) ->
  reach_ok scr val -> reach_ok (st :: scr) (fun sc => w sc + val sc).
Proof.
  intros st o n scr val w Eo En Hw IH sc os1 ns1 so dn. rewrite Eo, En.
  destruct (IH sc (os1 ++ [o]) (ns1 ++ [n]) so dn) as (v & R & B).
  eexists. split; [apply reach_com; exact R|].
  specialize (Hw sc (so + offs (os1 ++ o :: olds scr) (length os1)) (dn + offs (ns1 ++ n :: news scr) (length ns1))).
  lia.
Qed.

(* ------------------------------------------------------------------ *)
(* count form                                                          *)

Lemma medit_le : forall o n k, medit o n k -> k <= count_cells o.
Proof.
  apply (medit_mind (fun o n k => k <= count_cells o)
           (fun sc k => k <= sumN (map count_cells (olds sc)))).
  - intros s. lia.
  - intros o n. lia.
  - intros sc k _ IH. now rewrite count_cells_FnCall.
  - cbn. lia.
  - intros s sc k _ IH. cbn [olds map]. rewrite sumN_cons. lia.
  - intros o sc k _ IH. cbn [olds map]. rewrite sumN_cons. lia.
  - intros n sc k _ IH. cbn [olds]. lia.
  - intros o n k1 sc k _ IH1 _ IH. cbn [olds map]. rewrite sumN_cons. lia.
Qed.

Theorem mixed_cells : forall o n k, medit o n k -> forall so dn, k <= snd (bp o n so dn).
Proof.
  apply (medit_mind (fun o n k => forall so dn, k <= snd (bp o n so dn))
           (fun scr k => reach_ok scr (fun sc => sc * k))).
  - intros s so dn. rewrite bp_unfold, nodes_match_refl. cbn [snd]. lia.
  - intros o n so dn. lia.
  - intros scr k ML IH so dn.
    destruct (nodes_match (FnCall (olds scr)) (FnCall (news scr))) eqn:E.
    + rewrite bp_unfold, E. cbn [snd]. exact (medit_le _ _ _ (me_call _ _ ML)).
    + apply call_lower; auto.
      destruct (IH (bp_scale (olds scr) (news scr)) [] [] so dn) as (v & R & B).
      cbn [app length] in R. apply reachb_bound in R. lia.
  - intros sc os1 ns1 so dn. destruct (reach_nil sc os1 ns1 so dn) as (v & R & B). exists v. split; [exact R|lia].
  - intros s scr k _ IH.
    assert (Q : reach_ok (Same s :: scr) (fun sc => sc * count_cells s + sc * k)).
    { apply (reach_step_pair (Same s) s s scr (fun sc => sc * k) (fun sc => sc * count_cells s)); auto.
      intros sc so dn. pose proof (pair_score_ge sc (bp s s so dn, nodes_match s s)) as G.
      cbn [fst] in G. rewrite bp_unfold, nodes_match_refl in G at 1. cbn [snd] in G. lia. }
    intros sc os1 ns1 so dn. destruct (Q sc os1 ns1 so dn) as (v & R & B). exists v. split; [exact R|lia].
  - intros o scr k _ IH. now apply reach_step_del.
  - intros n scr k _ IH. now apply reach_step_ins.
  - intros o n k1 scr k _ IH1 _ IH.
    assert (Q : reach_ok (Edit o n :: scr) (fun sc => sc * k1 + sc * k)).
    { apply (reach_step_pair (Edit o n) o n scr (fun sc => sc * k) (fun sc => sc * k1)); auto.
      intros sc so dn. pose proof (pair_score_ge sc (bp o n so dn, nodes_match o n)) as G.
      cbn [fst] in G. specialize (IH1 so dn). pose proof (N.mul_le_mono_r _ _ sc IH1). lia. }
    intros sc os1 ns1 so dn. destruct (Q sc os1 ns1 so dn) as (v & R & B). exists v. split; [exact R|lia].
Qed.
