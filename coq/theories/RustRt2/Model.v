(* RustRt2/Model.v — executable transcription of the RUNTIME OF GENERATED RUST (definitions only):
     compiler/mimium_placeholder.rs.template
        handle encodings   FUNCTION / CLOSURE / MEMORY_HANDLE_TAG, encode_*, decode_*
        MemoryStore        alloc ptr get_element load store              (Pointer { slot, offset })
        ArrayStorage       alloc_array alloc_array_with_data get get_mut (ArrayObject { elem_size_words, data })
        MimiumProgram      call_ext: len, split_head, split_tail, prepend, append (with their $arityN forms);
                           load_upvalue, store_upvalue, get_current_statestorage
        ClosureStorage     alloc get get_mut   (ClosureObject { function, upvalues, indirect, state_storage })
     compiler/rustgen.rs   the text emitted for Instruction::Array / GetArrayElem / SetArrayElem (array literal,
                           element read / write: these are not functions of the template)
   The text of every function transcribed here is pinned by checks/rtpl_part.py (a hash per function body: an edit
   makes the pin fail and names the function) and the real code is run against the extracted definitions.

   usize = u64 = N below 2^64 (a 64-bit target).  `Err(String)` is [TErr class]; a panic (slice index out of range,
   arithmetic overflow in a build with overflow checks, `unreachable!`) is [TPanic].
   The per-closure StateStorage is RustRt/Model.v's [sstorage] (the transcription C18 already pins). *)
From Coq Require Import List ZArith NArith Bool.
From Mimium Require Import Lmmm.Machine Prims.Float Prims.Spec RustRt.Model.
Import ListNotations.
Local Open Scope N_scope.

Definition TWO64 : N := 18446744073709551616.

Inductive terr :=
| EInvalidMem       (* "invalid memory handle {}" *)
| EInvalidSlot      (* "invalid memory slot {}" *)
| ELoadOOB          (* "load out of bounds: .." *)
| EStoreOOB         (* "store out of bounds: .." *)
| EInvalidArr       (* "invalid array handle {}" *)
| EInvalidClo       (* "invalid closure handle {}" *)
| EUpIndex          (* "invalid upvalue index {}" *)
| EUpMeta           (* "missing upvalue metadata {}" *)
| EUpWide           (* "direct upvalue {} does not support {} words in the initial Rust backend" *)
| EMismatch         (* "closure upvalue metadata mismatch" / "..: elem size mismatch, expected {} got {}" *)
| EShort            (* "{}: array shorter than one element" *)
| ENotDiv           (* "{}: array length {} is not divisible by elem_words {}" *)
| EArgs             (* "{} expects .. arg(s)" *)
| EBadName.         (* "invalid .. specialization: {}" *)

Inductive tres (A : Type) :=
| TOk (a : A)
| TErr (e : terr)
| TPanic.
Arguments TOk {A} a.
Arguments TErr {A} e.
Arguments TPanic {A}.

(* ---------------------------------------------------------------------------------------------------------- *)
(* handle encodings                                                                                            *)
Definition FUNCTION_HANDLE_TAG : N := 9223372036854775808.      (* 1 << 63 *)
Definition CLOSURE_HANDLE_TAG : N := 4611686018427387904.       (* 1 << 62 *)
Definition MEMORY_HANDLE_TAG : N := 2305843009213693952.        (* 1 << 61 *)

(* fn encode_function(index: usize) -> Word { FUNCTION_HANDLE_TAG | index as Word }  etc. *)
Definition encode_function (index : N) : word := N.lor FUNCTION_HANDLE_TAG index.
Definition encode_closure (index : N) : word := N.lor CLOSURE_HANDLE_TAG index.
Definition encode_memory (index : N) : word := N.lor MEMORY_HANDLE_TAG index.

(* `handle & TAG != 0` *)
Definition has_tag (handle tag : N) : bool := negb (N.land handle tag =? 0).
(* `handle & !TAG` on 64-bit words *)
Definition clear_tag (handle tag : N) : N := N.ldiff handle tag.

(* fn decode_memory(handle) -> Option<usize> { if handle & MEMORY_HANDLE_TAG != 0 { Some(handle & !TAG) } else { None } } *)
Definition decode_memory (handle : word) : option N :=
  if has_tag handle MEMORY_HANDLE_TAG then Some (clear_tag handle MEMORY_HANDLE_TAG) else None.

(* fn decode_function(handle) -> Option<usize>: a tagged handle gives its index, an UNTAGGED word is its own index *)
Definition decode_function (handle : word) : option N :=
  if has_tag handle FUNCTION_HANDLE_TAG then Some (clear_tag handle FUNCTION_HANDLE_TAG) else Some handle.

(* fn decode_closure(handle): None when the function tag is set; else the closure tag decides *)
Definition decode_closure (handle : word) : option N :=
  if has_tag handle FUNCTION_HANDLE_TAG then None
  else if has_tag handle CLOSURE_HANDLE_TAG then Some (clear_tag handle CLOSURE_HANDLE_TAG)
  else None.

(* ---------------------------------------------------------------------------------------------------------- *)
(* MemoryStore { slots: Vec<Vec<Word>>, ptrs: Vec<Pointer> }, Pointer { slot, offset }                          *)
Record pointer := mkPtr { p_slot : N; p_off : N }.
Record mstore := mkMS { ms_slots : list (list word); ms_ptrs : list pointer }.
Definition ms_new : mstore := mkMS [] [].

Definition nlen {A} (l : list A) : N := N.of_nat (length l).
(* Vec::get(i) (the bound is tested first so that the extracted code never counts up to a 64-bit index) *)
Definition nget {A} (l : list A) (i : N) : option A := if i <? nlen l then nth_error l (N.to_nat i) else None.

(* fn alloc(&mut self, size) -> Word: a new zeroed slot, a new pointer to its start; the handle is the NUMBER of
   pointers after the push (so pointer handles start at 1) *)
Definition ms_alloc (m : mstore) (size : N) : mstore * word :=
  let slot := nlen (ms_slots m) in
  let m' := mkMS (ms_slots m ++ [repeat 0 (N.to_nat size)]) (ms_ptrs m ++ [mkPtr slot 0]) in
  (m', encode_memory (nlen (ms_ptrs m'))).

(* fn ptr(&self, handle) -> Result<&Pointer, String>: decode_memory(handle).and_then(checked_sub(1)), ptrs.get(index) *)
Definition ms_ptr (m : mstore) (handle : word) : tres pointer :=
  match decode_memory handle with
  | None => TErr EInvalidMem
  | Some v =>
      if v =? 0 then TErr EInvalidMem
      else match nget (ms_ptrs m) (v - 1) with
           | Some p => TOk p
           | None => TErr EInvalidMem
           end
  end.

(* fn get_element(&mut self, base, tuple_offset) -> Result<Word, String>: a NEW pointer into the same slot;
   `pointer.offset + tuple_offset` panics on overflow *)
Definition ms_get_element (m : mstore) (base : word) (tuple_offset : N) : mstore * tres word :=
  match ms_ptr m base with
  | TOk p =>
      if TWO64 <=? p_off p + tuple_offset then (m, TPanic)
      else
        let m' := mkMS (ms_slots m) (ms_ptrs m ++ [mkPtr (p_slot p) (p_off p + tuple_offset)]) in
        (m', TOk (encode_memory (nlen (ms_ptrs m'))))
  | TErr e => (m, TErr e)
  | TPanic => (m, TPanic)
  end.

(* fn load(&self, ptr, size) -> Result<Vec<Word>, String>: a word that is no live pointer handle is returned AS
   ITSELF when one word is asked (the "immediate" fallback), else Err; bounds checked against the slot *)
Definition ms_load (m : mstore) (ptr : word) (size : N) : tres (list word) :=
  let fallback := if size =? 1 then TOk [ptr] else TErr EInvalidMem in
  match decode_memory ptr with
  | None => fallback
  | Some v =>
      if v =? 0 then fallback
      else match nget (ms_ptrs m) (v - 1) with
           | None => fallback
           | Some p =>
               match nget (ms_slots m) (p_slot p) with
               | None => TErr EInvalidSlot
               | Some slot =>
                   if TWO64 <=? p_off p + size then TPanic
                   else if nlen slot <? p_off p + size then TErr ELoadOOB
                   else TOk (firstn (N.to_nat size) (skipn (N.to_nat (p_off p)) slot))
               end
           end
  end.

Fixpoint put_nth {A} (l : list A) (i : nat) (x : A) : list A :=
  match l, i with
  | [], _ => []
  | _ :: r, O => x :: r
  | y :: r, S i' => y :: put_nth r i' x
  end.

(* slot[offset..offset + size].copy_from_slice(&src[..size]) *)
Definition write_words (slot : list word) (off : nat) (src : list word) : list word :=
  firstn off slot ++ src ++ skipn (off + length src) slot.

(* fn store(&mut self, ptr, src, size) -> Result<(), String>; `&src[..size]` panics when src is shorter *)
Definition ms_store (m : mstore) (ptr : word) (src : list word) (size : N) : mstore * tres unit :=
  match ms_ptr m ptr with
  | TOk p =>
      match nget (ms_slots m) (p_slot p) with
      | None => (m, TErr EInvalidSlot)
      | Some slot =>
          if TWO64 <=? p_off p + size then (m, TPanic)
          else if nlen slot <? p_off p + size then (m, TErr EStoreOOB)
          else if nlen src <? size then (m, TPanic)
          else
            (mkMS (put_nth (ms_slots m) (N.to_nat (p_slot p))
                     (write_words slot (N.to_nat (p_off p)) (firstn (N.to_nat size) src)))
                  (ms_ptrs m), TOk tt)
      end
  | TErr e => (m, TErr e)
  | TPanic => (m, TPanic)
  end.

(* ---------------------------------------------------------------------------------------------------------- *)
(* ArrayStorage { arrays: Vec<ArrayObject> }, ArrayObject { elem_size_words, data }                             *)
Record tarr := mkTArr { ta_esz : N; ta_data : list word }.
Definition tarrs := list tarr.

Definition sat_mul (a b : N) : N := N.min (a * b) USIZE_MAX.

(* fn alloc_array(&mut self, len, elem_size_words) -> Word: zeroed, handle = arrays.len() after the push *)
Definition ta_alloc_array (a : tarrs) (len esz : N) : tarrs * word :=
  let a' := a ++ [mkTArr esz (repeat 0 (N.to_nat (sat_mul len esz)))] in (a', nlen a').

(* fn alloc_array_with_data(&mut self, data, elem_size_words) -> Word *)
Definition ta_alloc_with_data (a : tarrs) (data : list word) (esz : N) : tarrs * word :=
  let a' := a ++ [mkTArr esz data] in (a', nlen a').

(* fn get / get_mut(&self, handle): handle.checked_sub(1) ("invalid array handle 0"), arrays.get(index) *)
Definition ta_get (a : tarrs) (handle : word) : tres tarr :=
  if handle =? 0 then TErr EInvalidArr
  else match nget a (handle - 1) with
       | Some ar => TOk ar
       | None => TErr EInvalidArr
       end.

(* ---- rustgen.rs Instruction::Array(values, elem_ty): alloc_array(values.len(), elem_words) then for every element
   `let array = self.arrays.get_mut(array_handle)?; array.data[start..end].copy_from_slice(value)` ---- *)
Definition tchunk (esz : N) (data : list word) (i : nat) : list word :=
  firstn (N.to_nat esz) (skipn (i * N.to_nat esz) data).

Fixpoint ta_fill (a : tarrs) (handle : word) (esz : N) (data : list word) (i n : nat) : tarrs :=
  match n with
  | O => a
  | S n' =>
      let a' := match ta_get a handle with
                | TOk ar => put_nth a (N.to_nat (handle - 1))
                              (mkTArr (ta_esz ar) (write_words (ta_data ar) (i * N.to_nat esz) (tchunk esz data i)))
                | _ => a
                end in
      ta_fill a' handle esz data (S i) n'
  end.

(* the literal [v0, .., v(n-1)] of elements of esz words each, given as its flat words.  A flat list that is not a
   whole number of elements (or esz = 0 with words) is not a literal rustgen can emit: [None] *)
Definition ta_array_new (a : tarrs) (esz : N) (data : list word) : option (tarrs * word) :=
  if (esz =? 0) || negb (nlen data mod esz =? 0) then None
  else
    let n := nlen data / esz in
    let (a1, h) := ta_alloc_array a n esz in
    Some (ta_fill a1 h esz data 0 (N.to_nat n), h).

(* ---- rustgen.rs GetArrayElem / SetArrayElem:
     let len = if array.elem_size_words == 0 { 0 } else { array.data.len() / array.elem_size_words };
     let index = if len == 0 { 0 } else { (index_value as i64).clamp(0, (len - 1) as i64) as usize };
   (`as i64` saturates: +inf -> i64::MAX, -inf -> i64::MIN, NaN -> 0; the VM's conversion, since the repair of C18/R1) ---- *)
Definition ta_len_elems (ar : tarr) : N := if ta_esz ar =? 0 then 0 else nlen (ta_data ar) / ta_esz ar.

Definition ta_index (idx : word) (len : N) : N :=
  if len =? 0 then 0
  else Z.to_N (clampZ (f64_to_i64 idx) 0 (Z.of_N (len - 1))).

(* GetArrayElem(arr, idx, elem_ty): elem_words is the STATIC element size of the instruction, the length uses the
   array's own; `&array.data[start..end]` panics when the slice leaves the data (or start/end overflow) *)
Definition ta_array_get (a : tarrs) (handle idx : word) (elem_words : N) : tres (list word) :=
  match ta_get a handle with
  | TOk ar =>
      let len := ta_len_elems ar in
      if len =? 0 then TOk (repeat 0 (N.to_nat elem_words))          (* dest.fill(0) *)
      else
        let start := ta_index idx len * elem_words in
        if nlen (ta_data ar) <? start + elem_words then TPanic
        else TOk (firstn (N.to_nat elem_words) (skipn (N.to_nat start) (ta_data ar)))
  | TErr e => TErr e
  | TPanic => TPanic
  end.

(* SetArrayElem(arr, idx, value, elem_ty): value has elem_words words (copy_from_slice panics on another length) *)
Definition ta_array_set (a : tarrs) (handle idx : word) (src : list word) (elem_words : N) : tarrs * tres unit :=
  match ta_get a handle with
  | TOk ar =>
      let len := ta_len_elems ar in
      if len =? 0 then (a, TOk tt)
      else
        let start := ta_index idx len * elem_words in
        if nlen (ta_data ar) <? start + elem_words then (a, TPanic)
        else if negb (nlen src =? elem_words) then (a, TPanic)
        else (put_nth a (N.to_nat (handle - 1)) (mkTArr (ta_esz ar) (write_words (ta_data ar) (N.to_nat start) src)), TOk tt)
  | TErr e => (a, TErr e)
  | TPanic => (a, TPanic)
  end.

(* ---- call_ext: the array builtins.  [ew] is parse_specialized_arity(name, "<builtin>$arity", 1): None when the suffix
   does not parse ("invalid .. specialization") ---- *)

(* "len": the zero handle has length 0; otherwise the number of ELEMENTS (since the repair of C18/R2):
   if array.elem_size_words == 0 { 0 } else { array.data.len() / array.elem_size_words } as f64 *)
Definition bi_len (a : tarrs) (args : list word) : tres (list word) :=
  match args with
  | [] => TErr EArgs
  | handle :: _ =>
      if handle =? 0 then TOk [0]
      else match ta_get a handle with
           | TOk ar => TOk [f64_of_N (ta_len_elems ar)]
           | TErr e => TErr e
           | TPanic => TPanic
           end
  end.

Definition bi_split_head (a : tarrs) (ew : option N) (args : list word) : tarrs * tres (list word) :=
  match ew with
  | None => (a, TErr EBadName)
  | Some ew =>
      match args with
      | [] => (a, TErr EArgs)
      | handle :: _ =>
          if handle =? 0 then (a, TOk (repeat 0 (N.to_nat ew) ++ [0]))
          else match ta_get a handle with
               | TOk ar =>
                   if nlen (ta_data ar) <? ew then (a, TErr EShort)
                   else if ew =? 0 then (a, TPanic)                       (* len % 0 *)
                   else if negb (nlen (ta_data ar) mod ew =? 0) then (a, TErr ENotDiv)
                   else
                     let head := firstn (N.to_nat ew) (ta_data ar) in
                     let rest := skipn (N.to_nat ew) (ta_data ar) in
                     let (a', h) := ta_alloc_with_data a rest (ta_esz ar) in
                     (a', TOk (head ++ [h]))
               | TErr e => (a, TErr e)
               | TPanic => (a, TPanic)
               end
      end
  end.

Definition bi_split_tail (a : tarrs) (ew : option N) (args : list word) : tarrs * tres (list word) :=
  match ew with
  | None => (a, TErr EBadName)
  | Some ew =>
      match args with
      | [] => (a, TErr EArgs)
      | handle :: _ =>
          if handle =? 0 then (a, TOk (0 :: repeat 0 (N.to_nat ew)))     (* vec![0] resized to ew + 1 *)
          else match ta_get a handle with
               | TOk ar =>
                   if nlen (ta_data ar) <? ew then (a, TErr EShort)
                   else if ew =? 0 then (a, TPanic)
                   else if negb (nlen (ta_data ar) mod ew =? 0) then (a, TErr ENotDiv)
                   else
                     let tail_start := N.to_nat (nlen (ta_data ar) - ew) in
                     let tail := skipn tail_start (ta_data ar) in
                     let rest := firstn tail_start (ta_data ar) in
                     let (a', h) := ta_alloc_with_data a rest (ta_esz ar) in
                     (a', TOk (h :: tail))
               | TErr e => (a, TErr e)
               | TPanic => (a, TPanic)
               end
      end
  end.

(* "prepend": args = the element's words, then the array handle; the zero handle is the empty array *)
Definition bi_prepend (a : tarrs) (ew : option N) (args : list word) : tarrs * tres (list word) :=
  match ew with
  | None => (a, TErr EBadName)
  | Some ew =>
      match nget args ew with
      | None => (a, TErr EArgs)
      | Some handle =>
          let data := firstn (N.to_nat ew) args in
          if handle =? 0 then let (a', h) := ta_alloc_with_data a data ew in (a', TOk [h])
          else match ta_get a handle with
               | TOk ar =>
                   if negb (ta_esz ar =? ew) then (a, TErr EMismatch)
                   else let (a', h) := ta_alloc_with_data a (data ++ ta_data ar) ew in (a', TOk [h])
               | TErr e => (a, TErr e)
               | TPanic => (a, TPanic)
               end
      end
  end.

(* "append": args = the array handle, then the element's words; `&args[1..1 + ew]` panics when args is shorter *)
Definition bi_append (a : tarrs) (ew : option N) (args : list word) : tarrs * tres (list word) :=
  match ew with
  | None => (a, TErr EBadName)
  | Some ew =>
      match args with
      | [] => (a, TErr EArgs)
      | handle :: rest =>
          let old := if handle =? 0 then TOk []
                     else match ta_get a handle with
                          | TOk ar => if negb (ta_esz ar =? ew) then TErr EMismatch else TOk (ta_data ar)
                          | TErr e => TErr e
                          | TPanic => TPanic
                          end in
          match old with
          | TOk data =>
              if nlen rest <? ew then (a, TPanic)
              else let (a', h) := ta_alloc_with_data a (data ++ firstn (N.to_nat ew) rest) ew in (a', TOk [h])
          | TErr e => (a, TErr e)
          | TPanic => (a, TPanic)
          end
      end
  end.

(* ---------------------------------------------------------------------------------------------------------- *)
(* ClosureStorage { closures: Vec<ClosureObject> }                                                             *)
Record closure := mkClo { c_fn : word; c_up : list word; c_ind : list bool; c_st : sstorage }.
Definition cstore := list closure.

(* fn alloc(&mut self, function, upvalues, indirect, state_size) -> Result<Word, String>: handle = encode_closure(index) *)
Definition cs_alloc (c : cstore) (function : word) (ups : list word) (ind : list bool) (state_size : N) : cstore * tres word :=
  if negb (Nat.eqb (length ups) (length ind)) then (c, TErr EMismatch)
  else (c ++ [mkClo function ups ind (ss_new state_size)], TOk (encode_closure (nlen c))).

(* fn get / get_mut(&self, handle) *)
Definition cs_get (c : cstore) (handle : word) : tres closure :=
  match decode_closure handle with
  | None => TErr EInvalidClo
  | Some i => match nget c i with Some cl => TOk cl | None => TErr EInvalidClo end
  end.

Definition cs_index (handle : word) : nat :=
  match decode_closure handle with Some i => N.to_nat i | None => O end.

(* fn load_upvalue(&self, closure_handle, index, size) -> Result<Vec<Word>, String> *)
Definition load_upvalue (m : mstore) (c : cstore) (handle : word) (index size : N) : tres (list word) :=
  match cs_get c handle with
  | TOk cl =>
      match nget (c_up cl) index with
      | None => TErr EUpIndex
      | Some value =>
          match nget (c_ind cl) index with
          | None => TErr EUpMeta
          | Some true => ms_load m value size
          | Some false => if size =? 1 then TOk [value] else TErr EUpWide
          end
      end
  | TErr e => TErr e
  | TPanic => TPanic
  end.

(* fn store_upvalue(&mut self, closure_handle, index, src, size) -> Result<(), String>: the metadata is looked up
   first; an indirect upvalue stores through the pointer, a direct one-word upvalue overwrites the closure's own copy
   (`src[0]` panics on an empty src) *)
Definition store_upvalue (m : mstore) (c : cstore) (handle : word) (index : N) (src : list word) (size : N)
  : mstore * cstore * tres unit :=
  match cs_get c handle with
  | TOk cl =>
      match nget (c_ind cl) index with
      | None => (m, c, TErr EUpMeta)
      | Some true =>
          match nget (c_up cl) index with
          | None => (m, c, TErr EUpIndex)
          | Some ptr => let (m', r) := ms_store m ptr src size in (m', c, r)
          end
      | Some false =>
          if size =? 1 then
            match nget (c_up cl) index with
            | None => (m, c, TErr EUpIndex)
            | Some _ =>
                match src with
                | [] => (m, c, TPanic)
                | v :: _ =>
                    (m, put_nth c (cs_index handle)
                          (mkClo (c_fn cl) (put_nth (c_up cl) (N.to_nat index) v) (c_ind cl) (c_st cl)), TOk tt)
                end
            end
          else (m, c, TErr EUpWide)
      end
  | TErr e => (m, c, TErr e)
  | TPanic => (m, c, TPanic)
  end.

(* ---- which StateStorage the state primitives of the running function use:
   fn get_current_statestorage(&mut self): the closure on top of state_storage_stack, else
   function_states[current_function_state]; `unreachable!` (a panic) when neither exists ---- *)
Record sctx := mkCtx { x_fstates : list sstorage; x_cur : option N; x_stack : list word }.

Inductive sloc := LClo (i : nat) | LFn (i : nat).

Definition current_storage (c : cstore) (x : sctx) : tres sloc :=
  match rev (x_stack x) with
  | handle :: _ =>
      match cs_get c handle with
      | TOk _ => TOk (LClo (cs_index handle))
      | _ => TPanic
      end
  | [] =>
      match x_cur x with
      | None => TPanic
      | Some i => if i <? nlen (x_fstates x) then TOk (LFn (N.to_nat i)) else TPanic
      end
  end.

(* `self.get_current_statestorage().mem(src)` *)
Definition state_mem (c : cstore) (x : sctx) (src : word) : cstore * sctx * tres word :=
  match current_storage c x with
  | TOk (LClo i) =>
      match nth_error c i with
      | Some cl =>
          let (prev, st) := ss_mem (Z.of_N src) (c_st cl) in
          (put_nth c i (mkClo (c_fn cl) (c_up cl) (c_ind cl) st), x, TOk (Z.to_N prev))
      | None => (c, x, TPanic)
      end
  | TOk (LFn i) =>
      match nth_error (x_fstates x) i with
      | Some s =>
          let (prev, st) := ss_mem (Z.of_N src) s in
          (c, mkCtx (put_nth (x_fstates x) i st) (x_cur x) (x_stack x), TOk (Z.to_N prev))
      | None => (c, x, TPanic)
      end
  | TErr e => (c, x, TErr e)
  | TPanic => (c, x, TPanic)
  end.
