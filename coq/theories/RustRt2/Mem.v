(* RustRt2/Mem.v — MemoryStore: load after store, the frame of a store, fresh handles, the exact bounds behaviour. *)
From Coq Require Import List ZArith NArith Bool Lia Arith.
From Mimium Require Import Prims.Spec RustRt2.Model RustRt2.Handles.
Import ListNotations.
Local Open Scope N_scope.

(* ---------- lists ---------- *)
Lemma nget_Some : forall {A} (l : list A) i x, nget l i = Some x -> i < nlen l /\ nth_error l (N.to_nat i) = Some x.
Proof. intros A l i x H. unfold nget in H. destruct (N.ltb_spec i (nlen l)); [auto|discriminate]. Qed.

Lemma nget_intro : forall {A} (l : list A) i x, nth_error l (N.to_nat i) = Some x -> nget l i = Some x.
Proof.
  intros A l i x H. unfold nget, nlen. destruct (N.ltb_spec i (N.of_nat (length l))) as [_|Hge]; [exact H|].
  assert (Hn : nth_error l (N.to_nat i) <> None) by congruence. apply nth_error_Some in Hn. lia.
Qed.

Lemma nth_error_put_nth_same : forall {A} (l : list A) i x, (i < length l)%nat -> nth_error (put_nth l i x) i = Some x.
Proof. intros A l. induction l as [|y l IH]; intros [|i] x H; cbn in *; try lia; auto; apply IH; lia. Qed.

Lemma nth_error_put_nth_other : forall {A} (l : list A) i j x, i <> j -> nth_error (put_nth l i x) j = nth_error l j.
Proof. intros A l. induction l as [|y l IH]; intros [|i] [|j] x H; cbn; auto; try congruence; apply IH; congruence. Qed.

Lemma put_nth_length : forall {A} (l : list A) i x, length (put_nth l i x) = length l.
Proof. intros A l. induction l as [|y l IH]; intros [|i] x; cbn; auto. Qed.

Lemma write_words_length : forall slot off src, (off + length src <= length slot)%nat ->
  length (write_words slot off src) = length slot.
Proof. intros slot off src H. unfold write_words. rewrite !app_length, firstn_length, skipn_length. lia. Qed.

Lemma write_words_read : forall slot off src, (off + length src <= length slot)%nat ->
  firstn (length src) (skipn off (write_words slot off src)) = src.
Proof.
  intros slot off src H. unfold write_words.
  assert (Hl : length (firstn off slot) = off) by (rewrite firstn_length; lia).
  rewrite skipn_app, Hl, Nat.sub_diag. rewrite (skipn_all2 (firstn off slot)) by lia. cbn [app skipn].
  rewrite firstn_app, Nat.sub_diag, firstn_all. cbn. apply app_nil_r.
Qed.

Lemma write_words_outside : forall slot off src i d, (off + length src <= length slot)%nat ->
  (i < off \/ off + length src <= i)%nat -> nth i (write_words slot off src) d = nth i slot d.
Proof.
  intros slot off src i d H Hi. unfold write_words.
  assert (Hl : length (firstn off slot) = off) by (rewrite firstn_length; lia).
  destruct Hi as [Hi|Hi].
  - rewrite app_nth1 by lia. rewrite <- (firstn_skipn off slot) at 2. rewrite app_nth1 by lia. reflexivity.
  - rewrite app_nth2 by lia. rewrite app_nth2 by lia. rewrite Hl.
    rewrite <- (firstn_skipn (off + length src) slot) at 2.
    assert (Hl2 : length (firstn (off + length src) slot) = (off + length src)%nat) by (rewrite firstn_length; lia).
    rewrite app_nth2 by lia. rewrite Hl2. f_equal. lia.
Qed.

Lemma nth_firstn' : forall {A} (l : list A) n i d, (i < n)%nat -> nth i (firstn n l) d = nth i l d.
Proof. intros A l. induction l as [|x l IH]; intros [|n] [|i] d H; cbn; auto; try lia. apply IH. lia. Qed.

Lemma nth_skipn' : forall {A} (l : list A) n i d, nth i (skipn n l) d = nth (n + i) l d.
Proof. intros A l. induction l as [|x l IH]; intros [|n] i d; cbn; auto. destruct i; reflexivity. Qed.

(* ---------- pointers ---------- *)
(* load resolves the handle like ptr does (its own decoding falls back to the immediate reading instead of Err) *)
Lemma ms_load_live : forall m p size ptr, ms_ptr m p = TOk ptr ->
  ms_load m p size =
    match nget (ms_slots m) (p_slot ptr) with
    | None => TErr EInvalidSlot
    | Some slot =>
        if TWO64 <=? p_off ptr + size then TPanic
        else if nlen slot <? p_off ptr + size then TErr ELoadOOB
        else TOk (firstn (N.to_nat size) (skipn (N.to_nat (p_off ptr)) slot))
    end.
Proof.
  intros m p size ptr H. unfold ms_ptr in H. unfold ms_load.
  destruct (decode_memory p) as [v|]; [|discriminate]. destruct (v =? 0); [discriminate|].
  destruct (nget (ms_ptrs m) (v - 1)) as [q|]; [|discriminate]. inversion H; subst q. reflexivity.
Qed.

(* the exact outcome of a successful store *)
Lemma ms_store_ok : forall m p src size m', ms_store m p src size = (m', TOk tt) ->
  exists ptr slot, ms_ptr m p = TOk ptr /\ nget (ms_slots m) (p_slot ptr) = Some slot /\
    p_off ptr + size <= nlen slot /\ size <= nlen src /\ p_off ptr + size < TWO64 /\
    m' = mkMS (put_nth (ms_slots m) (N.to_nat (p_slot ptr)) (write_words slot (N.to_nat (p_off ptr)) (firstn (N.to_nat size) src)))
              (ms_ptrs m).
Proof.
  intros m p src size m' H. unfold ms_store in H.
  destruct (ms_ptr m p) as [ptr|e|] eqn:Ep; try (inversion H; fail).
  destruct (nget (ms_slots m) (p_slot ptr)) as [slot|] eqn:Es; [|inversion H].
  destruct (N.leb_spec TWO64 (p_off ptr + size)); [inversion H|].
  destruct (N.ltb_spec (nlen slot) (p_off ptr + size)); [inversion H|].
  destruct (N.ltb_spec (nlen src) size); [inversion H|].
  inversion H. exists ptr, slot. repeat split; auto.
Qed.

Lemma ms_ptr_ptrs : forall m m' p, ms_ptrs m' = ms_ptrs m -> ms_ptr m' p = ms_ptr m p.
Proof. intros m m' p H. unfold ms_ptr. rewrite H. reflexivity. Qed.

(* ---------- load after store ---------- *)
Theorem load_after_store : forall m p src size m',
  ms_store m p src size = (m', TOk tt) -> ms_load m' p size = TOk (firstn (N.to_nat size) src).
Proof.
  intros m p src size m' H. destruct (ms_store_ok _ _ _ _ _ H) as (ptr & slot & Hp & Hs & Hb & Hsrc & H64 & ->).
  destruct (nget_Some _ _ _ Hs) as [Hlt Hn]. unfold nlen in *.
  set (src' := firstn (N.to_nat size) src).
  assert (Hl' : length src' = N.to_nat size) by (unfold src'; rewrite firstn_length; lia).
  assert (Hfit : (N.to_nat (p_off ptr) + length src' <= length slot)%nat) by lia.
  rewrite (ms_load_live _ p size ptr) by (rewrite <- Hp; apply ms_ptr_ptrs; reflexivity).
  cbn [ms_slots]. erewrite nget_intro; [|apply nth_error_put_nth_same; lia].
  unfold nlen. rewrite write_words_length by exact Hfit.
  destruct (N.leb_spec TWO64 (p_off ptr + size)); [lia|].
  destruct (N.ltb_spec (N.of_nat (length slot)) (p_off ptr + size)); [lia|].
  rewrite <- Hl'. rewrite write_words_read by exact Hfit. reflexivity.
Qed.

(* ---------- the frame of a store: pointers untouched, other slots untouched, the slot keeps its length and every word
   outside [offset, offset + size) ---------- *)
Theorem store_frame : forall m p src size m',
  ms_store m p src size = (m', TOk tt) ->
  exists ptr slot, ms_ptr m p = TOk ptr /\ nget (ms_slots m) (p_slot ptr) = Some slot /\
    ms_ptrs m' = ms_ptrs m /\
    length (ms_slots m') = length (ms_slots m) /\
    (forall j, j <> N.to_nat (p_slot ptr) -> nth_error (ms_slots m') j = nth_error (ms_slots m) j) /\
    exists slot', nth_error (ms_slots m') (N.to_nat (p_slot ptr)) = Some slot' /\ length slot' = length slot /\
      forall i, (i < N.to_nat (p_off ptr) \/ N.to_nat (p_off ptr + size) <= i)%nat -> nth i slot' 0 = nth i slot 0.
Proof.
  intros m p src size m' H. destruct (ms_store_ok _ _ _ _ _ H) as (ptr & slot & Hp & Hs & Hb & Hsrc & H64 & ->).
  destruct (nget_Some _ _ _ Hs) as [Hlt Hn]. unfold nlen in *.
  set (src' := firstn (N.to_nat size) src).
  assert (Hl' : length src' = N.to_nat size) by (unfold src'; rewrite firstn_length; lia).
  assert (Hfit : (N.to_nat (p_off ptr) + length src' <= length slot)%nat) by lia.
  exists ptr, slot. cbn [ms_slots ms_ptrs]. repeat split; auto.
  - apply put_nth_length.
  - intros j Hj. apply nth_error_put_nth_other. congruence.
  - eexists. split; [apply nth_error_put_nth_same; lia|]. split; [apply write_words_length; exact Hfit|].
    intros i Hi. apply write_words_outside; [exact Hfit|]. lia.
Qed.

(* a load through ANY handle whose range does not meet the stored range returns what it returned before *)
Theorem store_other_range : forall m p src size m' q qsize ptr qptr,
  ms_store m p src size = (m', TOk tt) -> ms_ptr m p = TOk ptr -> ms_ptr m q = TOk qptr ->
  (p_slot qptr <> p_slot ptr \/ p_off qptr + qsize <= p_off ptr \/ p_off ptr + size <= p_off qptr) ->
  ms_load m' q qsize = ms_load m q qsize.
Proof.
  intros m p src size m' q qsize ptr qptr H Hp Hq Hdis.
  destruct (ms_store_ok _ _ _ _ _ H) as (ptr' & slot & Hp' & Hs & Hb & Hsrc & H64 & ->).
  rewrite Hp in Hp'. inversion Hp'; subst ptr'. clear Hp'.
  destruct (nget_Some _ _ _ Hs) as [Hlt Hn]. unfold nlen in *.
  set (src' := firstn (N.to_nat size) src).
  assert (Hl' : length src' = N.to_nat size) by (unfold src'; rewrite firstn_length; lia).
  assert (Hfit : (N.to_nat (p_off ptr) + length src' <= length slot)%nat) by lia.
  rewrite (ms_load_live _ q qsize qptr) by (rewrite <- Hq; apply ms_ptr_ptrs; reflexivity).
  rewrite (ms_load_live _ q qsize qptr Hq). cbn [ms_slots].
  destruct (N.eq_dec (p_slot qptr) (p_slot ptr)) as [Eq|Hne].
  - rewrite Eq. rewrite Hs. erewrite nget_intro; [|apply nth_error_put_nth_same; lia].
    unfold nlen. rewrite write_words_length by exact Hfit.
    destruct (TWO64 <=? p_off qptr + qsize); [reflexivity|].
    destruct (N.ltb_spec (N.of_nat (length slot)) (p_off qptr + qsize)); [reflexivity|].
    f_equal. apply nth_ext with (d := 0) (d' := 0).
    + rewrite !firstn_length, !skipn_length, write_words_length by exact Hfit. reflexivity.
    + intros i Hi. rewrite firstn_length, skipn_length, write_words_length in Hi by exact Hfit.
      rewrite !nth_firstn' by lia. rewrite !nth_skipn'. apply write_words_outside; [exact Hfit|]. destruct Hdis as [Hd|[Hd|Hd]]; [congruence| |]; lia.
  - assert (Hn2 : nth_error (put_nth (ms_slots m) (N.to_nat (p_slot ptr)) (write_words slot (N.to_nat (p_off ptr)) src'))
                    (N.to_nat (p_slot qptr)) = nth_error (ms_slots m) (N.to_nat (p_slot qptr))).
    { apply nth_error_put_nth_other. lia. }
    unfold nget, nlen. rewrite put_nth_length, Hn2. reflexivity.
Qed.

(* ---------- alloc ---------- *)
(* every pointer names an existing slot (kept by alloc, get_element and store) *)
Definition ms_wf (m : mstore) : Prop := Forall (fun q => p_slot q < nlen (ms_slots m)) (ms_ptrs m).

Lemma nget_app_old : forall {A} (l r : list A) i, i < nlen l -> nget (l ++ r) i = nget l i.
Proof.
  intros A l r i H. unfold nget, nlen in *. rewrite app_length.
  destruct (N.ltb_spec i (N.of_nat (length l))); [|lia]. destruct (N.ltb_spec i (N.of_nat (length l + length r))); [|lia].
  apply nth_error_app1. lia.
Qed.

Lemma nget_snoc_new : forall {A} (l : list A) x, nget (l ++ [x]) (nlen l) = Some x.
Proof.
  intros A l x. apply nget_intro. unfold nlen. rewrite Nat2N.id, nth_error_app2, Nat.sub_diag by lia. reflexivity.
Qed.

Lemma ms_ptr_inv : forall m p ptr, ms_ptr m p = TOk ptr ->
  exists v, decode_memory p = Some v /\ v <> 0 /\ nget (ms_ptrs m) (v - 1) = Some ptr.
Proof.
  intros m p ptr H. unfold ms_ptr in H. destruct (decode_memory p) as [v|]; [|discriminate].
  destruct (N.eqb_spec v 0); [discriminate|]. destruct (nget (ms_ptrs m) (v - 1)) as [q|] eqn:E; [|discriminate].
  inversion H; subst. eauto.
Qed.

(* alloc returns a handle that named nothing before, names a pointer to the start of a NEW zeroed slot afterwards, and
   leaves every live handle's pointer and every load through it as they were *)
Theorem alloc_fresh : forall m size m' h,
  ms_wf m -> nlen (ms_ptrs m) + 1 < 2 ^ 61 -> size < TWO64 -> ms_alloc m size = (m', h) ->
  ms_ptr m h = TErr EInvalidMem /\
  ms_ptr m' h = TOk (mkPtr (nlen (ms_slots m)) 0) /\
  ms_load m' h size = TOk (repeat 0 (N.to_nat size)) /\
  ms_wf m' /\
  (forall q qptr, ms_ptr m q = TOk qptr -> q <> h /\ ms_ptr m' q = TOk qptr /\ p_slot qptr <> nlen (ms_slots m) /\
     forall qsize, ms_load m' q qsize = ms_load m q qsize).
Proof.
  intros m size m' h Hwf Hb Hsz H. unfold ms_alloc in H. inversion H; subst m' h; clear H.
  set (n := nlen (ms_ptrs m)) in *.
  assert (Hlen : nlen (ms_ptrs m ++ [mkPtr (nlen (ms_slots m)) 0]) = n + 1).
  { unfold nlen, n. rewrite app_length. cbn. unfold nlen. lia. }
  cbn [ms_ptrs ms_slots]. rewrite Hlen.
  assert (Hdec : decode_memory (encode_memory (n + 1)) = Some (n + 1)) by (apply decode_encode_memory; exact Hb).
  assert (Hnew : ms_ptr (mkMS (ms_slots m ++ [repeat 0 (N.to_nat size)]) (ms_ptrs m ++ [mkPtr (nlen (ms_slots m)) 0]))
                   (encode_memory (n + 1)) = TOk (mkPtr (nlen (ms_slots m)) 0)).
  { unfold ms_ptr. rewrite Hdec. destruct (N.eqb_spec (n + 1) 0); [lia|]. cbn [ms_ptrs].
    replace (n + 1 - 1) with n by lia. unfold n. rewrite nget_snoc_new. reflexivity. }
  assert (Hold : ms_ptr m (encode_memory (n + 1)) = TErr EInvalidMem).
  { unfold ms_ptr. rewrite Hdec. destruct (N.eqb_spec (n + 1) 0); [lia|].
    replace (n + 1 - 1) with n by lia. unfold nget. destruct (N.ltb_spec n (nlen (ms_ptrs m))); [unfold n in *; lia|reflexivity]. }
  split; [exact Hold|]. split; [exact Hnew|]. split; [|split].
  - rewrite (ms_load_live _ _ size _ Hnew). cbn [ms_slots p_slot p_off]. rewrite nget_snoc_new.
    unfold nlen at 1. rewrite repeat_length, N2Nat.id, N.add_0_l.
    destruct (N.leb_spec TWO64 size); [lia|]. destruct (N.ltb_spec size size); [lia|].
    cbn [N.to_nat skipn]. rewrite firstn_all2 by (rewrite repeat_length; lia). reflexivity.
  - unfold ms_wf in *. cbn [ms_ptrs ms_slots]. apply Forall_app. split.
    + eapply Forall_impl; [|exact Hwf]. intros q Hq. cbn beta in *. unfold nlen in *. rewrite app_length. lia.
    + constructor; [|constructor]. cbn [p_slot]. unfold nlen. rewrite app_length. cbn. lia.
  - intros q qptr Hq. destruct (ms_ptr_inv _ _ _ Hq) as (v & Hd & Hv & Hg).
    destruct (nget_Some _ _ _ Hg) as [Hvlt Hnth].
    assert (Hq' : ms_ptr (mkMS (ms_slots m ++ [repeat 0 (N.to_nat size)]) (ms_ptrs m ++ [mkPtr (nlen (ms_slots m)) 0])) q = TOk qptr).
    { unfold ms_ptr. rewrite Hd. destruct (N.eqb_spec v 0); [contradiction|]. cbn [ms_ptrs].
      rewrite nget_app_old by exact Hvlt. rewrite Hg. reflexivity. }
    assert (Hslot : p_slot qptr < nlen (ms_slots m)).
    { unfold ms_wf in Hwf. rewrite Forall_forall in Hwf. apply Hwf. eapply nth_error_In. exact Hnth. }
    split; [intros ->; rewrite Hold in Hq; discriminate|]. split; [exact Hq'|]. split; [lia|].
    intros qsize. rewrite (ms_load_live _ q qsize qptr Hq'), (ms_load_live _ q qsize qptr Hq). cbn [ms_slots].
    rewrite nget_app_old by exact Hslot. reflexivity.
Qed.

(* ---------- the exact bounds behaviour ---------- *)
(* a range that leaves the slot is an Err (no panic, nothing changes); only offset + size >= 2^64 panics (arithmetic
   overflow in a build with overflow checks).  get_element checks NOTHING: a pointer past the end of its slot can be made,
   the Err comes at the load / store through it. *)
Theorem load_out_of_range : forall m p size ptr slot,
  ms_ptr m p = TOk ptr -> nget (ms_slots m) (p_slot ptr) = Some slot ->
  nlen slot < p_off ptr + size -> p_off ptr + size < TWO64 -> ms_load m p size = TErr ELoadOOB.
Proof.
  intros m p size ptr slot Hp Hs Hb H64. rewrite (ms_load_live _ _ _ _ Hp), Hs.
  destruct (N.leb_spec TWO64 (p_off ptr + size)); [lia|]. destruct (N.ltb_spec (nlen slot) (p_off ptr + size)); [reflexivity|lia].
Qed.

Theorem store_out_of_range : forall m p src size ptr slot,
  ms_ptr m p = TOk ptr -> nget (ms_slots m) (p_slot ptr) = Some slot ->
  nlen slot < p_off ptr + size -> p_off ptr + size < TWO64 -> ms_store m p src size = (m, TErr EStoreOOB).
Proof.
  intros m p src size ptr slot Hp Hs Hb H64. unfold ms_store. rewrite Hp, Hs.
  destruct (N.leb_spec TWO64 (p_off ptr + size)); [lia|]. destruct (N.ltb_spec (nlen slot) (p_off ptr + size)); [reflexivity|lia].
Qed.

Theorem get_element_unchecked : forall m p off ptr,
  ms_ptr m p = TOk ptr -> p_off ptr + off < TWO64 ->
  ms_get_element m p off =
    (mkMS (ms_slots m) (ms_ptrs m ++ [mkPtr (p_slot ptr) (p_off ptr + off)]), TOk (encode_memory (nlen (ms_ptrs m) + 1))).
Proof.
  intros m p off ptr Hp H64. unfold ms_get_element. rewrite Hp. destruct (N.leb_spec TWO64 (p_off ptr + off)); [lia|].
  cbn [ms_ptrs]. unfold nlen. rewrite app_length. do 3 f_equal. cbn [length]. lia.
Qed.

(* a word that is no live pointer handle: `load(w, 1)` answers the word itself (finding C18/F22 lives here: a float whose
   bits carry the memory tag and a live index is NOT such a word) *)
Theorem load_immediate_fallback : forall m w, ms_ptr m w = TErr EInvalidMem -> ms_load m w 1 = TOk [w].
Proof.
  intros m w H. unfold ms_ptr in H. unfold ms_load. cbn [N.eqb Pos.eqb].
  destruct (decode_memory w) as [v|]; [|reflexivity]. destruct (v =? 0); [reflexivity|].
  destruct (nget (ms_ptrs m) (v - 1)); [discriminate|reflexivity].
Qed.
