(* RustRt2/ArrStep.v — every step of the template's array runtime (RustRt2/Ops.v tpl_step) simulates the contract's
   step under [rt_rel] whenever the hypothesis rt_pre holds. *)
From Coq Require Import List ZArith NArith Bool Lia Arith.
From Mimium Require Import Lmmm.Machine Prims.Float Prims.Spec Prims.Impl Prims.Pre Prims.HeapSim Prims.ArrSimVm Prims.Sim
  RustRt.Model RustRt2.Model RustRt2.Ops RustRt2.ArrSim.
Import ListNotations.
Local Open Scope N_scope.

Record rt_rel (t : tabs) (s : spec) (a : tarrs) : Prop := mkRR {
  rr_arr : tarr_rel t (sp_arrs s) a;
  rr_heap : length (t_heap t) = length (sp_heap s)
}.

Definition xstep_sim_at (t : tabs) (s : spec) (a : tarrs) (o : xop) : Prop :=
  let sr := xspec_step s o in
  let xr := tpl_step t a o in
  let t' := xtabs_after t o (snd xr) in
  ext t t' /\ (forall t'', ext t' t'' -> res_rel t'' (snd sr) (snd xr)) /\
  sres_fault (snd sr) = ires_fault (snd xr) /\
  (sres_fault (snd sr) = false -> rt_rel t' (fst sr) (fst xr)).

(* ---------- the index ---------- *)
Lemma ta_index_clamp : forall idx len, len <> 0 -> ta_index idx len = clamp_index idx len.
Proof.
  intros idx len Hl. unfold ta_index, clamp_index. destruct (N.eqb_spec len 0); [contradiction|].
  assert (Hhi : Z.of_N (len - 1) = (Z.of_N len - 1)%Z) by lia. rewrite Hhi. reflexivity.
Qed.

Lemma clamp_index_lt : forall idx len, len <> 0 -> clamp_index idx len < len.
Proof. intros idx len Hl. unfold clamp_index, clampZ. lia. Qed.

Lemma elem_in_range : forall i len n esz, esz <> 0 -> len = n / esz -> i < len -> i * esz + esz <= n.
Proof.
  intros i len n esz He Hlen Hi. pose proof (N.mul_div_le n esz He) as H. subst len. nia.
Qed.

Lemma map_resolve_repeat0 : forall t n, map (resolve t) (repeat (VNum 0) n) = repeat 0 n.
Proof. intros t n. induction n; cbn; [reflexivity|]. now f_equal. Qed.

Lemma nget_app_last : forall {A} (l : list A) x, nget (l ++ [x]) (N.of_nat (length l)) = Some x.
Proof.
  intros A l x. rewrite (nget_some _ (length l) x) by (rewrite app_length; cbn; lia).
  rewrite app_nth2, Nat.sub_diag by lia. reflexivity.
Qed.

Lemma firstn_app_exact : forall {A} (l r : list A), firstn (length l) (l ++ r) = l.
Proof. intros A l r. rewrite firstn_app, Nat.sub_diag, firstn_all. cbn. now rewrite app_nil_r. Qed.

Lemma resolve_new_arr : forall t w t'', ext (add_arr t w) t'' -> resolve t'' (VArr (length (t_arr t))) = w.
Proof.
  intros t w t'' He. cbn [resolve]. pose proof (ext_nth_arr t t'' w He) as H.
  apply nth_error_nth with (d := 0) in H. exact H.
Qed.

Lemma new_arr_rel : forall t w t'' n, length (t_arr t) = n -> ext (add_arr t w) t'' -> nth_error (t_arr t'') n = Some w.
Proof. intros t w t'' n <- He. exact (ext_nth_arr t t'' w He). Qed.

Lemma resolve_new_arr' : forall t w t'' n, length (t_arr t) = n -> ext (add_arr t w) t'' -> resolve t'' (VArr n) = w.
Proof. intros t w t'' n <- He. exact (resolve_new_arr t w t'' He). Qed.

Ltac unpack_pre H :=
  repeat match type of H with
  | (_ && _) = true => let H1 := fresh "Hp" in apply andb_true_iff in H; destruct H as [H H1]
  end.

Lemma rt_step_sim : forall t s a o, rt_rel t s a -> rt_pre s o = true -> xstep_sim_at t s a o.
Proof.
  intros t s a o [HR Hh] Hpre. pose proof HR as [Hl Ht Hi Hs Hz].
  assert (Hla : length a = length (sp_arrs s)) by (rewrite Hi, map_length; reflexivity).
  destruct o as [o|ew elem av|ew av elem|ew av|ew av]; unfold rt_pre in Hpre.
  - (* the contract's own operations *)
    apply andb_true_iff in Hpre. destruct Hpre as [Hwf Hx].
    destruct o as [size|src|h|h|h size|h src|k|k|size|src|input time max_len|input|esz data|av idx esz|av idx src esz|av| |];
      try discriminate; cbn [op_wf] in Hwf.
    + (* OArrayNew *)
      apply N.ltb_lt in Hx.
      unfold xstep_sim_at; cbn zeta; cbn [xspec_step spec_step tpl_step].
      destruct ((esz =? 0) || negb (N.of_nat (length data) mod esz =? 0)) eqn:Ebad.
      * unfold ta_array_new, nlen. rewrite map_length, Ebad. cbn [fst snd xtabs_after tabs_after].
        split; [apply ext_refl|]. split; [intros; reflexivity|]. split; [reflexivity|discriminate].
      * apply orb_false_iff in Ebad. destruct Ebad as [E0 Em]. apply N.eqb_neq in E0. apply negb_false_iff, N.eqb_eq in Em.
        rewrite ta_array_new_spec by (rewrite ?map_length; auto). rewrite Hla. fold (tid (length (sp_arrs s))).
        cbn [fst snd xtabs_after tabs_after is_heap_alloc is_arr_alloc sres_fault ires_fault].
        change (mkTabs (t_heap t) (t_arr t ++ [tid (length (sp_arrs s))])) with (add_arr t (tid (length (sp_arrs s)))).
        split; [apply ext_add_arr|]. split; [|split; [reflexivity|]].
        -- intros t'' He. cbn [res_rel]. exact (new_arr_rel t _ t'' _ Hl He).
        -- intros _. constructor; cbn [sp_arrs sp_heap with_arrs add_arr t_heap]; [|exact Hh].
           apply tarr_rel_alloc; auto. rewrite Hh, Hl. exact Hwf.
    + (* OArrayGet *)
      unpack_pre Hx. apply negb_true_iff, N.eqb_neq in Hp. pose proof Hp as Hp0.
      destruct (resolve_arr_arg t _ _ Hwf) as (k & -> & Hk & Hres).
      unfold arr_esz_ok in Hx. rewrite arr_get_spec in Hx by exact Hk. apply N.eqb_eq in Hx. subst esz.
      unfold xstep_sim_at; cbn zeta; cbn [xspec_step spec_step tpl_step]. rewrite arr_get_spec by exact Hk.
      rewrite Hres, (Ht k Hk). unfold ta_array_get. rewrite (ta_get_rel t _ a k HR Hk).
      set (ar := nth k (sp_arrs s) dummy_arr) in *. rewrite N.eqb_refl. cbn [negb]. rewrite orb_false_r.
      destruct (N.eqb_spec (sa_esz ar) 0) as [E0|_]; [contradiction|].
      unfold ta_len_elems, nlen. cbn [timg ta_esz ta_data]. rewrite map_length.
      destruct (N.eqb_spec (sa_esz ar) 0) as [E0|_]; [contradiction|].
      cbn [fst snd xtabs_after]. rewrite tabs_after_nonalloc by reflexivity.
      destruct (N.of_nat (length (sa_data ar)) / sa_esz ar =? 0) eqn:El.
      * cbn [fst snd ires_words sres_fault ires_fault res_rel]. split; [apply ext_refl|]. split; [|split; [reflexivity|]].
        -- intros t'' _. rewrite map_resolve_repeat0. reflexivity.
        -- intros _. constructor; auto.
      * apply N.eqb_neq in El. rewrite ta_index_clamp by auto.
        pose proof (clamp_index_lt idx _ El) as Hlt.
        pose proof (elem_in_range _ _ _ _ Hp0 eq_refl Hlt) as Hin.
        destruct (N.ltb_spec (N.of_nat (length (sa_data ar)))
                    (clamp_index idx (N.of_nat (length (sa_data ar)) / sa_esz ar) * sa_esz ar + sa_esz ar)); [lia|].
        cbn [fst snd ires_words sres_fault ires_fault res_rel]. split; [apply ext_refl|]. split; [|split; [reflexivity|]].
        -- intros t'' He. rewrite skipn_map, firstn_map. symmetry. apply map_resolve_ext; auto.
           apply vals_scoped_firstn, vals_scoped_skipn. exact (nth_arr_scoped _ _ _ k Hs).
        -- intros _. constructor; auto.
    + (* OArraySet *)
      apply andb_true_iff in Hwf. destruct Hwf as [Hwf Hsrc].
      unpack_pre Hx. apply N.eqb_eq in Hp. apply negb_true_iff, N.eqb_neq in Hp0. pose proof Hp0 as Hp1.
      destruct (resolve_arr_arg t _ _ Hwf) as (k & -> & Hk & Hres).
      unfold arr_esz_ok in Hx. rewrite arr_get_spec in Hx by exact Hk. apply N.eqb_eq in Hx. subst esz.
      unfold xstep_sim_at; cbn zeta; cbn [xspec_step spec_step tpl_step]. rewrite arr_get_spec by exact Hk.
      rewrite Hres, (Ht k Hk). unfold ta_array_set. rewrite (ta_get_rel t _ a k HR Hk).
      set (ar := nth k (sp_arrs s) dummy_arr) in *. rewrite N.eqb_refl, Hp, N.eqb_refl. cbn [negb]. rewrite !orb_false_r.
      destruct (N.eqb_spec (sa_esz ar) 0) as [E0|_]; [contradiction|].
      unfold ta_len_elems, nlen. cbn [timg ta_esz ta_data]. rewrite !map_length.
      destruct (N.eqb_spec (sa_esz ar) 0) as [E0|_]; [contradiction|].
      destruct (N.of_nat (length (sa_data ar)) / sa_esz ar =? 0) eqn:El.
      * cbn [fst snd xtabs_after ires_unit]. rewrite tabs_after_nonalloc by reflexivity.
        cbn [sres_fault ires_fault res_rel]. split; [apply ext_refl|]. split; [intros; exact I|]. split; [reflexivity|].
        intros _. constructor; auto.
      * apply N.eqb_neq in El. rewrite ta_index_clamp by auto.
        pose proof (clamp_index_lt idx _ El) as Hlt.
        pose proof (elem_in_range _ _ _ _ Hp1 eq_refl Hlt) as Hin.
        destruct (N.ltb_spec (N.of_nat (length (sa_data ar)))
                    (clamp_index idx (N.of_nat (length (sa_data ar)) / sa_esz ar) * sa_esz ar + sa_esz ar)); [lia|].
        rewrite Hp, N.eqb_refl. cbn [negb fst snd xtabs_after ires_unit]. rewrite tabs_after_nonalloc by reflexivity.
        cbn [sres_fault ires_fault res_rel]. split; [apply ext_refl|]. split; [intros; exact I|]. split; [reflexivity|].
        intros _. constructor; cbn [sp_arrs sp_heap with_arrs]; [|exact Hh].
        replace (N.to_nat (tid k - 1)) with k by (unfold tid; lia).
        set (st := N.to_nat (clamp_index idx (N.of_nat (length (sa_data ar)) / sa_esz ar) * sa_esz ar)).
        pose proof (tarr_rel_set t (sp_arrs s) a k (firstn st (sa_data ar) ++ src ++ skipn (st + length src) (sa_data ar)) HR Hk) as H1.
        fold ar in H1. unfold write_words. rewrite map_length.
        rewrite !map_app, <- firstn_map, <- skipn_map in H1. apply H1.
        apply vals_scoped_app; [apply vals_scoped_firstn|apply vals_scoped_app; [rewrite Hh, Hl; exact Hsrc|apply vals_scoped_skipn]];
          exact (nth_arr_scoped _ _ _ k Hs).
    + (* OArrayLen *)
      destruct (resolve_arr_arg t _ _ Hwf) as (k & -> & Hk & Hres).
      unfold xstep_sim_at; cbn zeta; cbn [xspec_step spec_step tpl_step]. rewrite arr_get_spec by exact Hk.
      rewrite Hres, (Ht k Hk). unfold bi_len. rewrite tid_nz, (ta_get_rel t _ a k HR Hk).
      pose proof (nth_esz_nz _ k Hz Hk) as Hnz. set (ar := nth k (sp_arrs s) dummy_arr) in *.
      unfold ta_len_elems, nlen. cbn [timg ta_esz ta_data]. rewrite map_length.
      destruct (N.eqb_spec (sa_esz ar) 0) as [E0|_]; [contradiction|].
      cbn [fst snd xtabs_after ires_words]. rewrite tabs_after_nonalloc by reflexivity.
      cbn [sres_fault ires_fault res_rel map resolve]. split; [apply ext_refl|]. split; [intros; reflexivity|]. split; [reflexivity|].
      intros _. constructor; auto.
  - (* prepend *)
    unpack_pre Hpre. apply negb_true_iff, N.eqb_neq in Hp. apply N.eqb_eq in Hp0.
    destruct (resolve_arr_arg t _ _ Hpre) as (k & -> & Hk & Hres).
    unfold xstep_sim_at; cbn zeta; cbn [xspec_step tpl_step]. rewrite arr_get_spec by exact Hk.
    rewrite Hres, (Ht k Hk). unfold bi_prepend.
    assert (Hew : ew = N.of_nat (length (map (resolve t) elem))) by (rewrite map_length; lia).
    match goal with |- context [nget ?l ew] =>
      assert (Hg : nget l ew = Some (tid k)) by (rewrite Hew; apply nget_app_last);
      assert (Hf : firstn (N.to_nat ew) l = map (resolve t) elem) by (rewrite Hew, Nat2N.id; apply firstn_app_exact)
    end.
    rewrite Hg, Hf. rewrite tid_nz, (ta_get_rel t _ a k HR Hk).
    set (ar := nth k (sp_arrs s) dummy_arr) in *. cbn [timg ta_esz ta_data].
    rewrite Hp0, N.eqb_refl. cbn [negb]. rewrite orb_false_r.
    destruct (sa_esz ar =? ew) eqn:Ee; cbn [negb].
    + rewrite <- map_app.
      rewrite (ta_alloc_with_data_rel t (sp_arrs s) a ew (elem ++ sa_data ar) HR).
      cbn [fst snd ires_handle xtabs_after sres_fault ires_fault].
      split; [apply ext_add_arr|]. split; [|split; [reflexivity|]].
      * intros t'' He. cbn [res_rel]. exact (new_arr_rel t _ t'' _ Hl He).
      * intros _. constructor; cbn [sp_arrs sp_heap with_arrs add_arr t_heap]; [|exact Hh].
        apply tarr_rel_alloc; auto. apply vals_scoped_app; [rewrite Hh, Hl; exact Hp1|exact (nth_arr_scoped _ _ _ k Hs)].
    + cbn [fst snd ires_handle fault_of xtabs_after sres_fault ires_fault res_rel].
      split; [apply ext_refl|]. split; [intros; reflexivity|]. split; [reflexivity|discriminate].
  - (* append *)
    unpack_pre Hpre. apply negb_true_iff, N.eqb_neq in Hp. apply N.eqb_eq in Hp0.
    destruct (resolve_arr_arg t _ _ Hpre) as (k & -> & Hk & Hres).
    unfold xstep_sim_at; cbn zeta; cbn [xspec_step tpl_step]. rewrite arr_get_spec by exact Hk.
    rewrite Hres, (Ht k Hk). unfold bi_append. rewrite tid_nz, (ta_get_rel t _ a k HR Hk).
    set (ar := nth k (sp_arrs s) dummy_arr) in *. cbn [timg ta_esz ta_data].
    rewrite Hp0, N.eqb_refl. cbn [negb]. rewrite orb_false_r.
    destruct (sa_esz ar =? ew) eqn:Ee; cbn [negb].
    + unfold nlen. rewrite map_length, Hp0. destruct (N.ltb_spec ew ew); [lia|].
      match goal with |- context [firstn (N.to_nat ew) ?l] =>
        assert (Hf : firstn (N.to_nat ew) l = l) by (apply firstn_all2; rewrite map_length; lia)
      end.
      rewrite Hf. rewrite <- map_app.
      rewrite (ta_alloc_with_data_rel t (sp_arrs s) a ew (sa_data ar ++ elem) HR).
      cbn [fst snd ires_handle xtabs_after sres_fault ires_fault].
      split; [apply ext_add_arr|]. split; [|split; [reflexivity|]].
      * intros t'' He. cbn [res_rel]. exact (new_arr_rel t _ t'' _ Hl He).
      * intros _. constructor; cbn [sp_arrs sp_heap with_arrs add_arr t_heap]; [|exact Hh].
        apply tarr_rel_alloc; auto. apply vals_scoped_app; [exact (nth_arr_scoped _ _ _ k Hs)|rewrite Hh, Hl; exact Hp1].
    + cbn [fst snd ires_handle fault_of xtabs_after sres_fault ires_fault res_rel].
      split; [apply ext_refl|]. split; [intros; reflexivity|]. split; [reflexivity|discriminate].
  - (* split_head *)
    unpack_pre Hpre. apply negb_true_iff, N.eqb_neq in Hp.
    destruct (resolve_arr_arg t _ _ Hpre) as (k & -> & Hk & Hres).
    unfold arr_esz_ok in Hp0. rewrite arr_get_spec in Hp0 by exact Hk. apply N.eqb_eq in Hp0.
    unfold xstep_sim_at; cbn zeta; cbn [xspec_step tpl_step]. rewrite arr_get_spec by exact Hk.
    rewrite Hres, (Ht k Hk). unfold bi_split_head. rewrite tid_nz, (ta_get_rel t _ a k HR Hk).
    set (ar := nth k (sp_arrs s) dummy_arr) in *. cbn [timg ta_esz ta_data]. unfold nlen. rewrite map_length.
    rewrite <- Hp0, N.eqb_refl. cbn [negb orb]. destruct (N.eqb_spec ew 0) as [E0|_]; [contradiction|]. cbn [orb].
    destruct (N.of_nat (length (sa_data ar)) <? ew) eqn:Esh.
    + cbn [fst snd ires_words fault_of xtabs_after sres_fault ires_fault res_rel].
      split; [apply ext_refl|]. split; [intros; reflexivity|]. split; [reflexivity|discriminate].
    + destruct (N.of_nat (length (sa_data ar)) mod ew =? 0) eqn:Em; cbn [negb].
      * rewrite skipn_map. rewrite (ta_alloc_with_data_rel t (sp_arrs s) a ew (skipn (N.to_nat ew) (sa_data ar)) HR).
        cbn [fst snd ires_words xtabs_after sres_fault ires_fault]. rewrite last_last.
        split; [apply ext_add_arr|]. split; [|split; [reflexivity|]].
        -- intros t'' He. cbn [res_rel]. rewrite map_app. cbn [map]. rewrite (resolve_new_arr' t _ t'' _ Hl He).
           f_equal. rewrite firstn_map. symmetry. apply map_resolve_ext.
           ++ eapply ext_trans; [apply ext_add_arr|exact He].
           ++ apply vals_scoped_firstn. exact (nth_arr_scoped _ _ _ k Hs).
        -- intros _. constructor; cbn [sp_arrs sp_heap with_arrs add_arr t_heap]; [|exact Hh].
           apply tarr_rel_alloc; auto. apply vals_scoped_skipn. exact (nth_arr_scoped _ _ _ k Hs).
      * cbn [fst snd ires_words fault_of xtabs_after sres_fault ires_fault res_rel].
        split; [apply ext_refl|]. split; [intros; reflexivity|]. split; [reflexivity|discriminate].
  - (* split_tail *)
    unpack_pre Hpre. apply negb_true_iff, N.eqb_neq in Hp.
    destruct (resolve_arr_arg t _ _ Hpre) as (k & -> & Hk & Hres).
    unfold arr_esz_ok in Hp0. rewrite arr_get_spec in Hp0 by exact Hk. apply N.eqb_eq in Hp0.
    unfold xstep_sim_at; cbn zeta; cbn [xspec_step tpl_step]. rewrite arr_get_spec by exact Hk.
    rewrite Hres, (Ht k Hk). unfold bi_split_tail. rewrite tid_nz, (ta_get_rel t _ a k HR Hk).
    set (ar := nth k (sp_arrs s) dummy_arr) in *. cbn [timg ta_esz ta_data]. unfold nlen. rewrite map_length.
    rewrite <- Hp0, N.eqb_refl. cbn [negb orb]. destruct (N.eqb_spec ew 0) as [E0|_]; [contradiction|]. cbn [orb].
    destruct (N.of_nat (length (sa_data ar)) <? ew) eqn:Esh.
    + cbn [fst snd ires_words fault_of xtabs_after sres_fault ires_fault res_rel].
      split; [apply ext_refl|]. split; [intros; reflexivity|]. split; [reflexivity|discriminate].
    + destruct (N.of_nat (length (sa_data ar)) mod ew =? 0) eqn:Em; cbn [negb].
      * rewrite firstn_map. rewrite (ta_alloc_with_data_rel t (sp_arrs s) a ew (firstn (N.to_nat (N.of_nat (length (sa_data ar)) - ew)) (sa_data ar)) HR).
        cbn [fst snd ires_words xtabs_after sres_fault ires_fault].
        split; [apply ext_add_arr|]. split; [|split; [reflexivity|]].
        -- intros t'' He. cbn [res_rel map]. rewrite (resolve_new_arr' t _ t'' _ Hl He).
           f_equal. rewrite skipn_map. symmetry. apply map_resolve_ext.
           ++ eapply ext_trans; [apply ext_add_arr|exact He].
           ++ apply vals_scoped_skipn. exact (nth_arr_scoped _ _ _ k Hs).
        -- intros _. constructor; cbn [sp_arrs sp_heap with_arrs add_arr t_heap]; [|exact Hh].
           apply tarr_rel_alloc; auto. apply vals_scoped_firstn. exact (nth_arr_scoped _ _ _ k Hs).
      * cbn [fst snd ires_words fault_of xtabs_after sres_fault ires_fault res_rel].
        split; [apply ext_refl|]. split; [intros; reflexivity|]. split; [reflexivity|discriminate].
Qed.
