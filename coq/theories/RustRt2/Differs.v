(* RustRt2/Differs.v — witnesses.
   REPAIRED differences (regression: the statements now say AGREEMENT; checks/rtpl_part.py replays them on the real runtime
   and corpus/C18/cases.jsonl holds the two programs):
     R1  fn dsp(){ let a = [10.0,20.0,30.0]  let z = 0.0  a[1.0/z] }     VM and WASM 30.0, generated Rust gave 10.0
         (rustgen.rs mapped every non-finite index to element 0)
     R2  fn dsp(){ let a = [(1.0,2.0),(3.0,4.0)]  len(a) }                VM and WASM 2.0,  generated Rust gave 4.0
         (the template's `len` counted words)
   Remaining differences outside the hypotheses rt_pre: the zero array handle, float bits that are a memory handle (F22). *)
From Coq Require Import List ZArith NArith Bool.
From Mimium Require Import Lmmm.Machine Prims.Float Prims.Spec Prims.Impl Prims.Vm Prims.Pre
  RustRt.Model RustRt2.Model RustRt2.Ops.
Import ListNotations.
Local Open Scope N_scope.

Definition F10 : word := 4621819117588971520.   (* 10.0 *)
Definition F20 : word := 4626322717216342016.   (* 20.0 *)
Definition F30 : word := 4629137466983448576.   (* 30.0 *)

Definition w_inf : list op := [OArrayNew 1 [VNum F10; VNum F20; VNum F30]; OArrayGet (VArr 0) F64_PINF 1].

Lemma index_infinity_agrees :
  spec_run (spec_init 0 0 0) w_inf = [SArrH 0; SVals [VNum F30]] /\
  vm_run 0 w_inf = [IHandle 4294967297; IWords [F30]] /\
  tpl_run (map XBase w_inf) = [IHandle 1; IWords [F30]] /\
  xpre_run rt_pre (spec_init 0 0 0) (map XBase w_inf) = true /\
  pre_run vm_pre (spec_init 0 0 0) w_inf = true.
Proof. vm_compute. repeat split; reflexivity. Qed.

Definition w_len2 : list op := [OArrayNew 2 [VNum 1; VNum 2; VNum 3; VNum 4]; OArrayLen (VArr 0)].

Lemma len_counts_elements :
  spec_run (spec_init 0 0 0) w_len2 = [SArrH 0; SVals [VNum (f64_of_N 2)]] /\
  vm_run 0 w_len2 = [IHandle 4294967297; IWords [f64_of_N 2]] /\
  tpl_run (map XBase w_len2) = [IHandle 1; IWords [f64_of_N 2]] /\
  xpre_run rt_pre (spec_init 0 0 0) (map XBase w_len2) = true /\
  pre_run vm_pre (spec_init 0 0 0) w_len2 = true.
Proof. vm_compute. repeat split; reflexivity. Qed.

(* the zero handle ("an array-valued state before its first value") is the EMPTY array for prepend in the template; the
   contract (and the VM: get_array panics) has no array there *)
Definition w_zero : list xop := [XPrepend 1 [VNum 7] (VNum 0); XBase (OArrayGet (VArr 0) 0 1)].

Lemma zero_handle_differs :
  xspec_run (spec_init 0 0 0) w_zero = [SFault FInvalidHandle] /\
  tpl_run w_zero = [IHandle 1; IWords [7]] /\
  xpre_run rt_pre (spec_init 0 0 0) w_zero = false.
Proof. vm_compute. repeat split; reflexivity. Qed.

(* finding C18/F22 at the level of the runtime: the float 1.4916681462400413e-154 has the bits of memory handle 1; once one
   pointer exists, loading it as a one-word operand reads the slot instead *)
Definition F22_WORD : word := 2305843009213693953.     (* 0x2000000000000001 *)

Lemma float_bits_are_a_handle :
  ms_load ms_new F22_WORD 1 = TOk [F22_WORD] /\
  (let m := fst (ms_alloc ms_new 1) in
   let m := fst (ms_store m (encode_memory 1) [F30] 1) in
   ms_load m F22_WORD 1 = TOk [F30]).
Proof. vm_compute. split; reflexivity. Qed.

(* the hypotheses are satisfiable: a sequence through every array operation under rt_pre *)
Definition ex_ops : list xop :=
  [XBase (OArrayNew 2 [VNum 1; VNum 2; VNum 3; VNum 4]);
   XBase (OArraySet (VArr 0) (f64_of_N 1) [VNum 5; VNum 6] 2);
   XPrepend 2 [VNum 7; VNum 8] (VArr 0);
   XAppend 2 (VArr 1) [VNum 9; VArr 0];
   XSplitHead 2 (VArr 2);
   XSplitTail 2 (VArr 3);
   XBase (OArrayGet (VArr 4) F64_NAN 2);
   XBase (OArrayNew 1 [VNum 1; VNum 2; VNum 3]);
   XBase (OArrayLen (VArr 5))].

Lemma ex_pre : xpre_run rt_pre (spec_init 0 0 0) ex_ops = true.
Proof. vm_compute. reflexivity. Qed.

Lemma ex_run :
  tpl_run ex_ops = [IHandle 1; IUnit; IHandle 2; IHandle 3; IWords [7; 8; 4]; IWords [5; 9; 1]; IWords [1; 2]; IHandle 6;
                    IWords [f64_of_N 3]].
Proof. vm_compute. reflexivity. Qed.

Definition ex_base : list op := [OArrayNew 1 [VNum F10; VNum F20]; OArrayGet (VArr 0) (f64_of_N 1) 1; OArrayGet (VArr 0) F64_NINF 1].
Lemma ex_base_pre :
  pre_run vm_pre (spec_init 0 0 0) ex_base = true /\ xpre_run rt_pre (spec_init 0 0 0) (map XBase ex_base) = true /\
  tpl_run (map XBase ex_base) = [IHandle 1; IWords [F20]; IWords [F10]].
Proof. vm_compute. repeat split; reflexivity. Qed.
