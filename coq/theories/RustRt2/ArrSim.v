(* RustRt2/ArrSim.v — the template's ArrayStorage (a Vec of ArrayObject, handle = index + 1, nothing ever removed) holds
   exactly the contract's arrays: the k-th array of the specification is the template's array k + 1, with the same element
   size and the specification's values resolved through the client's table.  Lemmas per operation. *)
From Coq Require Import List ZArith NArith Bool Lia Arith.
From Mimium Require Import Lmmm.Machine Prims.Float Prims.Spec Prims.Impl Prims.Pre Prims.HeapSim Prims.ArrSimVm
  RustRt.Model RustRt2.Model RustRt2.Ops.
Import ListNotations.
Local Open Scope N_scope.

(* ---------- lists ---------- *)
Lemma nget_some : forall {A} (l : list A) k d, (k < length l)%nat -> nget l (N.of_nat k) = Some (nth k l d).
Proof.
  intros A l k d H. unfold nget, nlen. destruct (N.ltb_spec (N.of_nat k) (N.of_nat (length l))); [|lia].
  rewrite Nat2N.id. apply nth_error_nth_some. exact H.
Qed.

Lemma nget_none : forall {A} (l : list A) i, nlen l <= i -> nget l i = None.
Proof. intros A l i H. unfold nget. destruct (N.ltb_spec i (nlen l)); [lia|reflexivity]. Qed.

Lemma put_nth_map : forall {A B} (f : A -> B) l k y, put_nth (map f l) k (f y) = map f (set_at l k y).
Proof. intros A B f l. induction l as [|x l IH]; intros [|k] y; cbn; auto. now rewrite IH. Qed.

Lemma put_nth_last : forall {A} (l : list A) x y, put_nth (l ++ [x]) (length l) y = l ++ [y].
Proof. intros A l x y. induction l as [|z l IH]; cbn; [reflexivity|]. now rewrite IH. Qed.

Lemma write_words_put : forall cur st src, write_words cur st src = put_list cur st src.
Proof. reflexivity. Qed.

(* ---------- the abstraction relation ---------- *)
Definition tid (k : nat) : N := N.of_nat k + 1.
Definition timg (t : tabs) (ar : sarr) : tarr := mkTArr (sa_esz ar) (map (resolve t) (sa_data ar)).

Record tarr_rel (t : tabs) (sa : list sarr) (a : tarrs) : Prop := mkTR {
  tr_len : length (t_arr t) = length sa;
  tr_tab : forall k, (k < length sa)%nat -> nth k (t_arr t) 0 = tid k;
  tr_img : a = map (timg t) sa;
  tr_scoped : Forall (arr_scoped (length (t_heap t)) (length (t_arr t))) sa;
  tr_nz : Forall (fun ar => sa_esz ar <> 0) sa            (* the contract never makes an array of zero-word elements *)
}.

Lemma tarr_rel_init : tarr_rel tabs0 [] [].
Proof. constructor; cbn; auto; intros; lia. Qed.

Lemma nth_esz_nz : forall sa k, Forall (fun ar => sa_esz ar <> 0) sa -> (k < length sa)%nat -> sa_esz (nth k sa dummy_arr) <> 0.
Proof. intros sa k H Hk. rewrite Forall_forall in H. apply H. apply nth_In. exact Hk. Qed.

Lemma timg_ext : forall t t' ar, ext t t' -> arr_scoped (length (t_heap t)) (length (t_arr t)) ar -> timg t' ar = timg t ar.
Proof. intros t t' ar He Hs. unfold timg. rewrite (map_resolve_ext t t') by auto. reflexivity. Qed.

Lemma map_timg_ext : forall t t' sa, ext t t' -> Forall (arr_scoped (length (t_heap t)) (length (t_arr t))) sa ->
  map (timg t') sa = map (timg t) sa.
Proof.
  intros t t' sa He Hs. induction Hs as [|x l Hx Hl IH]; cbn; [reflexivity|]. rewrite IH, (timg_ext t t') by auto. reflexivity.
Qed.

Lemma tid_nz : forall k, tid k =? 0 = false.
Proof. intros k. apply N.eqb_neq. unfold tid. lia. Qed.

Lemma ta_get_rel : forall t sa a k, tarr_rel t sa a -> (k < length sa)%nat ->
  ta_get a (tid k) = TOk (timg t (nth k sa dummy_arr)).
Proof.
  intros t sa a k HR Hk. unfold ta_get. rewrite tid_nz. replace (tid k - 1) with (N.of_nat k) by (unfold tid; lia).
  rewrite (tr_img _ _ _ HR). rewrite (nget_some _ k (timg t dummy_arr)) by (rewrite map_length; exact Hk).
  rewrite (map_nth (timg t)). reflexivity.
Qed.

Lemma ext_add_arr : forall t w, ext t (add_arr t w).
Proof. intros. split; cbn; [exists []; now rewrite app_nil_r|eexists; reflexivity]. Qed.

(* a new array: alloc_array_with_data on the resolved words *)
Lemma tarr_rel_alloc : forall t sa a esz data,
  tarr_rel t sa a -> vals_scoped (length (t_heap t)) (length (t_arr t)) data -> esz <> 0 ->
  tarr_rel (add_arr t (tid (length sa))) (sa ++ [mkSArr esz data]) (a ++ [mkTArr esz (map (resolve t) data)]).
Proof.
  intros t sa a esz data [Hl Ht Hi Hs Hz] Hd Hesz.
  pose proof (ext_add_arr t (tid (length sa))) as He.
  constructor.
  - cbn [add_arr t_arr]. rewrite !app_length. cbn. lia.
  - intros k Hk. rewrite app_length in Hk; cbn in Hk. cbn [add_arr t_arr].
    destruct (Nat.eq_dec k (length sa)) as [->|Hne].
    + rewrite app_nth2, Hl, Nat.sub_diag by lia. reflexivity.
    + rewrite app_nth1 by lia. apply Ht. lia.
  - rewrite map_app. rewrite (map_timg_ext t (add_arr t (tid (length sa))) sa He Hs). rewrite <- Hi. f_equal.
    cbn [map]. unfold timg; cbn [sa_esz sa_data]. rewrite (map_resolve_ext t (add_arr t (tid (length sa))) data He Hd). reflexivity.
  - cbn [add_arr t_heap t_arr]. apply Forall_app. split.
    + eapply Forall_impl; [|exact Hs]. intros ar Ho. unfold arr_scoped in *.
      eapply vals_scoped_mono; [| |exact Ho]; [lia|rewrite app_length; lia].
    + constructor; [|constructor]. unfold arr_scoped; cbn [sa_data].
      eapply vals_scoped_mono; [| |exact Hd]; [lia|rewrite app_length; lia].
  - apply Forall_app. split; [exact Hz|]. constructor; [exact Hesz|constructor].
Qed.

Lemma nlen_snoc : forall {A} (l : list A) x, nlen (l ++ [x]) = N.of_nat (length l) + 1.
Proof. intros. unfold nlen. rewrite app_length. cbn. lia. Qed.

Lemma ta_alloc_with_data_rel : forall t sa a esz data,
  tarr_rel t sa a ->
  ta_alloc_with_data a (map (resolve t) data) esz = (a ++ [mkTArr esz (map (resolve t) data)], tid (length sa)).
Proof.
  intros t sa a esz data HR. unfold ta_alloc_with_data. rewrite nlen_snoc. rewrite (tr_img _ _ _ HR), map_length. reflexivity.
Qed.

(* an element overwritten *)
Lemma tarr_rel_set : forall t sa a k data',
  tarr_rel t sa a -> (k < length sa)%nat -> vals_scoped (length (t_heap t)) (length (t_arr t)) data' ->
  tarr_rel t (set_at sa k (mkSArr (sa_esz (nth k sa dummy_arr)) data'))
             (put_nth a k (mkTArr (sa_esz (nth k sa dummy_arr)) (map (resolve t) data'))).
Proof.
  intros t sa a k data' [Hl Ht Hi Hs Hz] Hk Hd. constructor; rewrite ?set_at_length; auto.
  - rewrite Hi. change (mkTArr (sa_esz (nth k sa dummy_arr)) (map (resolve t) data'))
      with (timg t (mkSArr (sa_esz (nth k sa dummy_arr)) data')). apply put_nth_map.
  - apply Forall_set_at; auto.
  - apply Forall_set_at; auto. cbn [sa_esz]. apply nth_esz_nz; auto.
Qed.

(* ---------- the literal: alloc_array + one slice copy per element ---------- *)
Lemma ta_get_last : forall a x, ta_get (a ++ [x]) (nlen (a ++ [x])) = TOk x.
Proof.
  intros a x. unfold ta_get. rewrite nlen_snoc.
  destruct (N.eqb_spec (N.of_nat (length a) + 1) 0); [lia|].
  replace (N.of_nat (length a) + 1 - 1) with (N.of_nat (length a)) by lia.
  rewrite (nget_some _ (length a) x) by (rewrite app_length; cbn; lia).
  rewrite app_nth2, Nat.sub_diag by lia. reflexivity.
Qed.

Lemma ta_fill_spec : forall n i a esz data cur,
  ta_fill (a ++ [mkTArr esz cur]) (nlen (a ++ [mkTArr esz cur])) esz data i n
  = a ++ [mkTArr esz (fill_list (N.to_nat esz) data cur i n)].
Proof.
  induction n as [|n IH]; intros i a esz data cur; cbn [ta_fill fill_list]; [reflexivity|].
  rewrite ta_get_last. cbn [ta_esz ta_data].
  assert (Hh : N.to_nat (nlen (a ++ [mkTArr esz cur]) - 1) = length a) by (rewrite nlen_snoc; lia).
  rewrite Hh, put_nth_last.
  assert (Hn : forall c, nlen (a ++ [mkTArr esz cur]) = nlen (a ++ [mkTArr esz c])) by (intros; now rewrite !nlen_snoc).
  rewrite (Hn (write_words cur (i * N.to_nat esz) (tchunk esz data i))).
  rewrite IH. reflexivity.
Qed.

Lemma repeat_length' : forall {A} (x : A) n, length (repeat x n) = n.
Proof. intros; apply repeat_length. Qed.

Lemma ta_array_new_spec : forall a esz data,
  esz <> 0 -> N.of_nat (length data) mod esz = 0 -> N.of_nat (length data) < TWO64 ->
  ta_array_new a esz data = Some (a ++ [mkTArr esz data], N.of_nat (length a) + 1).
Proof.
  intros a esz data He Hm Hb. unfold ta_array_new, nlen.
  destruct (N.eqb_spec esz 0) as [E0|_]; [contradiction|]. rewrite Hm. cbn [N.eqb negb orb].
  unfold ta_alloc_array.
  set (n := N.of_nat (length data) / esz).
  assert (Hd : N.of_nat (length data) = esz * n).
  { pose proof (N.div_mod (N.of_nat (length data)) esz He) as Hd. rewrite Hm, N.add_0_r in Hd. exact Hd. }
  assert (Hlen : length data = (N.to_nat n * N.to_nat esz)%nat) by (rewrite <- N2Nat.inj_mul; lia).
  assert (Hsat : sat_mul n esz = n * esz).
  { unfold sat_mul. apply N.min_l. unfold USIZE_MAX, TWO64 in *. lia. }
  rewrite Hsat.
  pose proof (ta_fill_spec (N.to_nat n) 0 a esz data (repeat 0 (N.to_nat (n * esz)))) as Hf.
  rewrite Hf. rewrite nlen_snoc. f_equal. f_equal. f_equal. f_equal. f_equal.
  apply (fill_list_all (N.to_nat esz) data (N.to_nat n) 0 _ (N.to_nat n)); try lia.
  - rewrite repeat_length, N2Nat.inj_mul. reflexivity.
  - reflexivity.
Qed.
