(* RustRt2/ArrRun.v — from one step to whole runs (the argument of Prims/Sim.v for the extended operation language), the
   refinement theorem of the template's array runtime and its corollary with the VM's refinement (Prims/SimVm.v). *)
From Coq Require Import List ZArith NArith Bool Lia Arith.
From Mimium Require Import Lmmm.Machine Prims.Float Prims.Spec Prims.Impl Prims.Vm Prims.Pre Prims.Bits Prims.HeapSim Prims.ArrSimVm
  Prims.Sim Prims.SimVm Prims.Agree RustRt.Model RustRt2.Model RustRt2.Ops RustRt2.ArrSim RustRt2.ArrStep.
Import ListNotations.
Local Open Scope N_scope.

Lemma xtabs_after_fault : forall t o f, xtabs_after t o (IFault f) = t.
Proof. intros t [o| | | |] f; reflexivity. Qed.

Lemma xrun_sim : forall ops t s a, rt_rel t s a -> xpre_run rt_pre s ops = true ->
  ext t (fst (xiexec t a ops)) /\
  Forall2 (res_rel (fst (xiexec t a ops))) (xspec_run s ops) (xirun t a ops).
Proof.
  induction ops as [|o rest IH]; intros t s a HR Hpre; cbn [xiexec xirun xspec_run xpre_run fst] in *.
  - split; [apply ext_refl|constructor].
  - apply andb_true_iff in Hpre. destruct Hpre as [Hp Hrest].
    pose proof (rt_step_sim t s a o HR Hp) as (He & Hres & Hf & Hnext). cbn zeta in *.
    destruct (xspec_step s o) as [s' r] eqn:Es. destruct (tpl_step t a o) as [a' i] eqn:Ex. cbn [fst snd] in *.
    rewrite <- Hf. destruct (sres_fault r) eqn:Efault.
    + cbn [fst]. split; [apply ext_refl|]. constructor; [|constructor].
      apply Hres.
      assert (Hi : exists f, i = IFault f).
      { destruct i; cbn in Hf; try discriminate. eexists; reflexivity. }
      destruct Hi as [f ->]. rewrite xtabs_after_fault. apply ext_refl.
    + specialize (Hnext eq_refl).
      destruct (IH (xtabs_after t o i) s' a' Hnext Hrest) as [He2 Hall].
      split; [eapply ext_trans; eauto|]. constructor; [|exact Hall]. apply Hres. exact He2.
Qed.

Lemma rt_rel_init : forall size now sr, rt_rel tabs0 (spec_init size now sr) [].
Proof. intros. constructor; [apply tarr_rel_init|reflexivity]. Qed.

Theorem tpl_refines_spec : forall size now sr ops,
  xpre_run rt_pre (spec_init size now sr) ops = true ->
  Forall2 (res_rel (tpl_tabs ops)) (xspec_run (spec_init size now sr) ops) (tpl_run ops).
Proof.
  intros size now sr ops Hp. unfold tpl_tabs, tpl_run.
  exact (proj2 (xrun_sim ops tabs0 (spec_init size now sr) [] (rt_rel_init size now sr) Hp)).
Qed.

(* ---- sequences of the contract's own operations: the same specification run as Prims/Spec.v's ---- *)
Lemma xspec_run_base : forall ops s, xspec_run s (map XBase ops) = spec_run s ops.
Proof.
  induction ops as [|o rest IH]; intros s; cbn [map xspec_run spec_run xspec_step]; [reflexivity|].
  destruct (spec_step s o) as [s' r]. rewrite IH. reflexivity.
Qed.

Theorem tpl_vm_agree : forall size now sr ops,
  N.of_nat (length ops) + 4 < TWO32 ->
  pre_run vm_pre (spec_init size now sr) ops = true ->
  xpre_run rt_pre (spec_init size now sr) (map XBase ops) = true ->
  exists tv tt,
    Forall2 (res_rel tv) (spec_run (spec_init size now sr) ops) (vm_run size ops) /\
    Forall2 (res_rel tt) (spec_run (spec_init size now sr) ops) (tpl_run (map XBase ops)).
Proof.
  intros size now sr ops Hs Hv Ht. do 2 eexists. split.
  - apply vm_refines_spec; auto.
  - rewrite <- xspec_run_base. apply tpl_refines_spec. exact Ht.
Qed.

(* every result that carries no handle is the same word list on the VM and in generated Rust *)
Theorem tpl_vm_agree_numbers : forall size now sr ops i r x y,
  N.of_nat (length ops) + 4 < TWO32 ->
  pre_run vm_pre (spec_init size now sr) ops = true ->
  xpre_run rt_pre (spec_init size now sr) (map XBase ops) = true ->
  nth_error (spec_run (spec_init size now sr) ops) i = Some r -> nums_only r = true ->
  nth_error (vm_run size ops) i = Some x -> nth_error (tpl_run (map XBase ops)) i = Some y ->
  x = y.
Proof.
  intros size now sr ops i r x y Hs Hv Ht Hr Hn Hx Hy.
  destruct (tpl_vm_agree size now sr ops Hs Hv Ht) as (tv & tt & Fv & Ft).
  eapply rel_nums_eq; [exact Hn| |].
  - eapply (Forall2_nth _ _ _ i r x Fv); eauto.
  - eapply (Forall2_nth _ _ _ i r y Ft); eauto.
Qed.
