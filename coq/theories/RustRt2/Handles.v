(* RustRt2/Handles.v — the handle encodings of the template: encode / decode round trips and the tags decode disjointly,
   for every index below the lowest tag bit (2^61). *)
From Coq Require Import List ZArith NArith Bool Lia.
From Mimium Require Import Prims.Spec RustRt2.Model.
Local Open Scope N_scope.

Lemma FTAG : FUNCTION_HANDLE_TAG = 2 ^ 63. Proof. reflexivity. Qed.
Lemma CTAG : CLOSURE_HANDLE_TAG = 2 ^ 62. Proof. reflexivity. Qed.
Lemma MTAG : MEMORY_HANDLE_TAG = 2 ^ 61. Proof. reflexivity. Qed.

Lemma high_bits_zero : forall i k n, i < 2 ^ k -> k <= n -> N.testbit i n = false.
Proof. intros i k n Hi Hn. rewrite <- (N.mod_small i (2 ^ k)) by exact Hi. apply N.mod_pow2_bits_high. exact Hn. Qed.

Lemma land_small_tag : forall i k j, i < 2 ^ k -> k <= j -> N.land i (2 ^ j) = 0.
Proof.
  intros i k j Hi Hj. apply N.bits_inj. intros n. rewrite N.land_spec, N.pow2_bits_eqb, N.bits_0.
  destruct (N.eqb_spec j n) as [<-|Hne]; [|apply andb_false_r].
  rewrite (high_bits_zero i k j Hi Hj). reflexivity.
Qed.

Lemma land_pow2_other : forall j k, j <> k -> N.land (2 ^ j) (2 ^ k) = 0.
Proof.
  intros j k Hne. apply N.bits_inj. intros n. rewrite N.land_spec, !N.pow2_bits_eqb, N.bits_0.
  destruct (N.eqb_spec j n), (N.eqb_spec k n); try reflexivity. congruence.
Qed.

(* the tag bit of an encoded handle is set, another tag's bit is not *)
Lemma land_enc_same : forall i k, i < 2 ^ k -> N.land (N.lor (2 ^ k) i) (2 ^ k) = 2 ^ k.
Proof.
  intros i k Hi. rewrite N.land_lor_distr_l, N.land_diag, (land_small_tag i k k Hi (N.le_refl k)). apply N.lor_0_r.
Qed.

Lemma land_enc_other : forall i k j m, i < 2 ^ m -> m <= j -> k <> j -> N.land (N.lor (2 ^ k) i) (2 ^ j) = 0.
Proof.
  intros i k j m Hi Hm Hne. rewrite N.land_lor_distr_l, (land_pow2_other k j Hne), (land_small_tag i m j Hi Hm). reflexivity.
Qed.

Lemma ldiff_enc : forall i k, i < 2 ^ k -> N.ldiff (N.lor (2 ^ k) i) (2 ^ k) = i.
Proof.
  intros i k Hi. apply N.bits_inj. intros n. rewrite N.ldiff_spec, N.lor_spec, N.pow2_bits_eqb.
  destruct (N.eqb_spec k n) as [<-|Hne]; cbn [orb negb].
  - rewrite andb_false_r. symmetry. apply (high_bits_zero i k k Hi). apply N.le_refl.
  - apply andb_true_r.
Qed.

Lemma pow2_nz : forall k, 2 ^ k <> 0.
Proof. intros k. apply N.pow_nonzero. discriminate. Qed.

Lemma has_tag_enc_same : forall i k, i < 2 ^ k -> has_tag (N.lor (2 ^ k) i) (2 ^ k) = true.
Proof.
  intros i k Hi. unfold has_tag. rewrite land_enc_same by exact Hi.
  destruct (N.eqb_spec (2 ^ k) 0) as [E|_]; [exfalso; exact (pow2_nz k E)|reflexivity].
Qed.

Lemma has_tag_enc_other : forall i k j m, i < 2 ^ m -> m <= j -> k <> j -> has_tag (N.lor (2 ^ k) i) (2 ^ j) = false.
Proof. intros i k j m Hi Hm Hne. unfold has_tag. rewrite (land_enc_other i k j m Hi Hm Hne). reflexivity. Qed.

Lemma lt61_62 : forall i, i < 2 ^ 61 -> i < 2 ^ 62. Proof. intros i H. eapply N.lt_trans; [exact H|reflexivity]. Qed.
Lemma lt61_63 : forall i, i < 2 ^ 61 -> i < 2 ^ 63. Proof. intros i H. eapply N.lt_trans; [exact H|reflexivity]. Qed.

(* ---- round trips ---- *)
Theorem decode_encode_memory : forall i, i < 2 ^ 61 -> decode_memory (encode_memory i) = Some i.
Proof.
  intros i Hi. unfold decode_memory, encode_memory, clear_tag. rewrite MTAG.
  rewrite has_tag_enc_same, ldiff_enc by exact Hi. reflexivity.
Qed.

Theorem decode_encode_closure : forall i, i < 2 ^ 62 -> decode_closure (encode_closure i) = Some i.
Proof.
  intros i Hi. unfold decode_closure, encode_closure, clear_tag. rewrite FTAG, CTAG.
  rewrite (has_tag_enc_other i 62 63 62 Hi) by (discriminate || (intros E; discriminate E)).
  rewrite has_tag_enc_same, ldiff_enc by exact Hi. reflexivity.
Qed.

Theorem decode_encode_function : forall i, i < 2 ^ 63 -> decode_function (encode_function i) = Some i.
Proof.
  intros i Hi. unfold decode_function, encode_function, clear_tag. rewrite FTAG.
  rewrite has_tag_enc_same, ldiff_enc by exact Hi. reflexivity.
Qed.

(* ---- the tags decode disjointly (index below 2^61, the lowest tag bit) ---- *)
Theorem handles_disjoint : forall i, i < 2 ^ 61 ->
  decode_memory (encode_closure i) = None /\ decode_memory (encode_function i) = None /\
  decode_closure (encode_memory i) = None /\ decode_closure (encode_function i) = None /\
  (* decode_function never fails: a word without the function tag is its own index (call_function_handle_with_memory asks
     decode_closure first) *)
  decode_function (encode_closure i) = Some (encode_closure i) /\ decode_function (encode_memory i) = Some (encode_memory i).
Proof.
  intros i Hi. pose proof (lt61_62 i Hi) as H62. pose proof (lt61_63 i Hi) as H63.
  unfold decode_memory, decode_closure, decode_function, encode_memory, encode_closure, encode_function.
  rewrite FTAG, CTAG, MTAG.
  rewrite (has_tag_enc_other i 62 61 61 Hi), (has_tag_enc_other i 63 61 61 Hi) by (try discriminate; intros E; discriminate E).
  rewrite (has_tag_enc_other i 61 63 61 Hi), (has_tag_enc_other i 61 62 61 Hi) by (try discriminate; intros E; discriminate E).
  rewrite (has_tag_enc_same i 63 H63).
  rewrite (has_tag_enc_other i 62 63 61 Hi) by (try discriminate; intros E; discriminate E).
  repeat split; reflexivity.
Qed.

(* a memory handle is never 0 and never an array handle below 2^61 *)
Lemma encode_memory_ge : forall i, 2 ^ 61 <= encode_memory i.
Proof.
  intros i. unfold encode_memory. rewrite MTAG. apply N.ldiff_le. apply N.bits_inj. intros n.
  rewrite N.ldiff_spec, N.lor_spec, N.bits_0. destruct (N.testbit (2 ^ 61) n); reflexivity.
Qed.
