(* RustRt2/Ops.v — the array operations as ONE operation language for the abstract contract and for the template
   (definitions only).

   [xop] = the operations of Prims/Spec.v (XBase) + the four list builtins of the array runtime: prepend, append,
   split_head, split_tail (with the element word size of their `$arityN` specialisation).  Prims/Spec.v has no rule
   for these four; [xspec_step] adds it, read from the VM's implementation (plugin/builtin_functins.rs
   try_make_specialized_extcls: make_prepend / make_append / make_split_head / make_split_tail): the argument must be
   an array of that element size, splitting an empty array panics, the result is a NEW array (arrays are immutable
   under these builtins) and, for the splits, the removed element's words.
   [tpl_step] is the template's side of every operation (RustRt2/Model.v), on raw handles resolved through the
   client's table; `Err(String)` and panics become the contract's fault classes ([fault_of]).
   [rt_pre] = the hypotheses of the refinement theorem, decidable, evaluated along the specification's run. *)
From Coq Require Import List ZArith NArith Bool.
From Mimium Require Import Lmmm.Machine Prims.Float Prims.Spec Prims.Impl Prims.Pre RustRt.Model RustRt2.Model.
Import ListNotations.
Local Open Scope N_scope.

Inductive xop :=
| XBase (o : op)
| XPrepend (ew : N) (elem : list val) (a : val)
| XAppend (ew : N) (a : val) (elem : list val)
| XSplitHead (ew : N) (a : val)
| XSplitTail (ew : N) (a : val).

(* ---- the contract ---- *)
Definition xspec_step (s : spec) (xo : xop) : spec * sres :=
  match xo with
  | XBase o => spec_step s o
  | XPrepend ew elem a =>
      match arr_get s a with
      | Some (_, ar) =>
          if negb (sa_esz ar =? ew) || negb (N.of_nat (length elem) =? ew) then (s, SFault FBadSize)
          else (with_arrs s (sp_arrs s ++ [mkSArr ew (elem ++ sa_data ar)]), SArrH (length (sp_arrs s)))
      | None => (s, SFault FInvalidHandle)
      end
  | XAppend ew a elem =>
      match arr_get s a with
      | Some (_, ar) =>
          if negb (sa_esz ar =? ew) || negb (N.of_nat (length elem) =? ew) then (s, SFault FBadSize)
          else (with_arrs s (sp_arrs s ++ [mkSArr ew (sa_data ar ++ elem)]), SArrH (length (sp_arrs s)))
      | None => (s, SFault FInvalidHandle)
      end
  | XSplitHead ew a =>
      match arr_get s a with
      | Some (_, ar) =>
          let n := N.of_nat (length (sa_data ar)) in
          (* the element size is the array's; data is a whole number of elements (an invariant of the contract,
             checked here so that the rule is total) *)
          if negb (sa_esz ar =? ew) || (ew =? 0) then (s, SFault FBadSize)
          else if n <? ew then (s, SFault FOutOfRange)                  (* "Cannot split_head on empty array" *)
          else if negb (n mod ew =? 0) then (s, SFault FBadSize)
          else (with_arrs s (sp_arrs s ++ [mkSArr ew (skipn (N.to_nat ew) (sa_data ar))]),
                SVals (firstn (N.to_nat ew) (sa_data ar) ++ [VArr (length (sp_arrs s))]))
      | None => (s, SFault FInvalidHandle)
      end
  | XSplitTail ew a =>
      match arr_get s a with
      | Some (_, ar) =>
          let n := N.of_nat (length (sa_data ar)) in
          if negb (sa_esz ar =? ew) || (ew =? 0) then (s, SFault FBadSize)
          else if n <? ew then (s, SFault FOutOfRange)
          else if negb (n mod ew =? 0) then (s, SFault FBadSize)
          else
            let cut := N.to_nat (n - ew) in
            (with_arrs s (sp_arrs s ++ [mkSArr ew (firstn cut (sa_data ar))]),
             SVals (VArr (length (sp_arrs s)) :: skipn cut (sa_data ar)))
      | None => (s, SFault FInvalidHandle)
      end
  end.

Fixpoint xspec_run (s : spec) (ops : list xop) : list sres :=
  match ops with
  | [] => []
  | o :: rest =>
      let (s', r) := xspec_step s o in
      r :: (if sres_fault r then [] else xspec_run s' rest)
  end.

(* ---- the template ---- *)
Definition fault_of (e : terr) : fault :=
  match e with
  | EInvalidArr | EInvalidMem | EInvalidSlot | EInvalidClo => FInvalidHandle
  | EShort | ELoadOOB | EStoreOOB | EUpIndex | EUpMeta => FOutOfRange
  | _ => FBadSize
  end.

Definition ires_words (r : tres (list word)) : ires :=
  match r with TOk l => IWords l | TErr e => IFault (fault_of e) | TPanic => IFault FOutOfRange end.
Definition ires_unit (r : tres unit) : ires :=
  match r with TOk _ => IUnit | TErr e => IFault (fault_of e) | TPanic => IFault FOutOfRange end.
(* call_ext returns `vec![handle]` for prepend / append *)
Definition ires_handle (r : tres (list word)) : ires :=
  match r with TOk [h] => IHandle h | TOk _ => IFault FBadSize | TErr e => IFault (fault_of e) | TPanic => IFault FOutOfRange end.

Definition tpl_step (t : tabs) (a : tarrs) (xo : xop) : tarrs * ires :=
  match xo with
  | XBase (OArrayNew esz data) =>
      match ta_array_new a esz (map (resolve t) data) with
      | Some (a', h) => (a', IHandle h)
      | None => (a, IFault FBadSize)
      end
  | XBase (OArrayGet av idx esz) => (a, ires_words (ta_array_get a (resolve t av) idx esz))
  | XBase (OArraySet av idx src esz) =>
      let (a', r) := ta_array_set a (resolve t av) idx (map (resolve t) src) esz in (a', ires_unit r)
  | XBase (OArrayLen av) => (a, ires_words (bi_len a [resolve t av]))
  | XBase _ => (a, IFault FBadSize)          (* not an operation of the array runtime (excluded by rt_pre) *)
  | XPrepend ew elem av =>
      let (a', r) := bi_prepend a (Some ew) (map (resolve t) elem ++ [resolve t av]) in (a', ires_handle r)
  | XAppend ew av elem =>
      let (a', r) := bi_append a (Some ew) (resolve t av :: map (resolve t) elem) in (a', ires_handle r)
  | XSplitHead ew av => let (a', r) := bi_split_head a (Some ew) [resolve t av] in (a', ires_words r)
  | XSplitTail ew av => let (a', r) := bi_split_tail a (Some ew) [resolve t av] in (a', ires_words r)
  end.

Definition add_arr (t : tabs) (w : word) : tabs := mkTabs (t_heap t) (t_arr t ++ [w]).

(* the client's table after an operation: a split returns its new array handle among the result words *)
Definition xtabs_after (t : tabs) (xo : xop) (r : ires) : tabs :=
  match xo with
  | XBase o => tabs_after t o r
  | XPrepend _ _ _ | XAppend _ _ _ => match r with IHandle w => add_arr t w | _ => t end
  | XSplitHead _ _ => match r with IWords l => add_arr t (last l 0) | _ => t end
  | XSplitTail _ _ => match r with IWords (h :: _) => add_arr t h | _ => t end
  end.

Fixpoint xirun (t : tabs) (a : tarrs) (ops : list xop) : list ires :=
  match ops with
  | [] => []
  | o :: rest =>
      let (a', r) := tpl_step t a o in
      r :: (if ires_fault r then [] else xirun (xtabs_after t o r) a' rest)
  end.

Fixpoint xiexec (t : tabs) (a : tarrs) (ops : list xop) : tabs * tarrs :=
  match ops with
  | [] => (t, a)
  | o :: rest =>
      let (a', r) := tpl_step t a o in
      if ires_fault r then (t, a') else xiexec (xtabs_after t o r) a' rest
  end.

Definition tpl_run (ops : list xop) : list ires := xirun tabs0 [] ops.
Definition tpl_tabs (ops : list xop) : tabs := fst (xiexec tabs0 [] ops).

(* ---- hypotheses ---- *)
Definition rt_pre (s : spec) (xo : xop) : bool :=
  let nh := length (sp_heap s) in
  let na := length (sp_arrs s) in
  match xo with
  | XBase o =>
      op_wf s o &&
      match o with
      | OArrayNew _ d => N.of_nat (length d) <? TWO64              (* usize: len.saturating_mul(elem_size) is exact *)
      | OArrayGet a idx esz =>
          arr_esz_ok s a esz && negb (esz =? 0)
      | OArraySet a idx src esz =>
          arr_esz_ok s a esz && negb (esz =? 0) && (N.of_nat (length src) =? esz)
      | OArrayLen _ => true
      | _ => false
      end
  | XPrepend ew elem a | XAppend ew a elem =>
      arr_arg na a && forallb (val_ok nh na) elem && (N.of_nat (length elem) =? ew) && negb (ew =? 0)
  | XSplitHead ew a | XSplitTail ew a => arr_arg na a && arr_esz_ok s a ew && negb (ew =? 0)
  end.

Fixpoint xpre_run (pre : spec -> xop -> bool) (s : spec) (ops : list xop) : bool :=
  match ops with
  | [] => true
  | o :: rest =>
      pre s o &&
      (let (s', r) := xspec_step s o in if sres_fault r then true else xpre_run pre s' rest)
  end.
