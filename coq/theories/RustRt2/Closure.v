(* RustRt2/Closure.v — closures: captured cells are shared through MemoryStore pointers, direct upvalues and the state
   storage are the closure's own. *)
From Coq Require Import List ZArith NArith Bool Lia Arith.
From Mimium Require Import Prims.Spec RustRt.Model RustRt2.Model RustRt2.Mem.
Import ListNotations.
Local Open Scope N_scope.

(* a store through an INDIRECT upvalue of one closure is what every closure holding the same pointer loads *)
Theorem cells_shared : forall m c h1 i1 h2 i2 cl1 cl2 p src size m' c',
  cs_get c h1 = TOk cl1 -> cs_get c h2 = TOk cl2 ->
  nget (c_up cl1) i1 = Some p -> nget (c_ind cl1) i1 = Some true ->
  nget (c_up cl2) i2 = Some p -> nget (c_ind cl2) i2 = Some true ->
  store_upvalue m c h1 i1 src size = (m', c', TOk tt) ->
  c' = c /\ load_upvalue m' c' h2 i2 size = TOk (firstn (N.to_nat size) src).
Proof.
  intros m c h1 i1 h2 i2 cl1 cl2 p src size m' c' G1 G2 U1 I1 U2 I2 H.
  unfold store_upvalue in H. rewrite G1, I1, U1 in H.
  destruct (ms_store m p src size) as [m1 r] eqn:Es. inversion H; subst m1 c' r. split; [reflexivity|].
  unfold load_upvalue. rewrite G2, U2, I2. exact (load_after_store _ _ _ _ _ Es).
Qed.

(* a DIRECT upvalue is the closure's own copy: storing it changes no memory and no other closure *)
Theorem direct_upvalue_own : forall m c h i cl v src m' c',
  cs_get c h = TOk cl -> nget (c_ind cl) i = Some false -> nget (c_up cl) i = Some v ->
  store_upvalue m c h i src 1 = (m', c', TOk tt) ->
  m' = m /\ forall j, j <> cs_index h -> nth_error c' j = nth_error c j.
Proof.
  intros m c h i cl v src m' c' G I U H. unfold store_upvalue in H. rewrite G, I, U in H. cbn [N.eqb Pos.eqb] in H.
  destruct src as [|w src]; [inversion H|]. inversion H; subst. split; [reflexivity|].
  intros j Hj. apply nth_error_put_nth_other. congruence.
Qed.

(* the state primitives of a running closure work on THAT closure's storage: no other closure, no function state and no
   memory slot changes *)
Theorem closure_state_own : forall c x i v c' x' prev,
  current_storage c x = TOk (LClo i) -> state_mem c x v = (c', x', TOk prev) ->
  x' = x /\ (forall j, j <> i -> nth_error c' j = nth_error c j) /\
  exists cl, nth_error c i = Some cl /\
    nth_error c' i = Some (mkClo (c_fn cl) (c_up cl) (c_ind cl) (snd (ss_mem (Z.of_N v) (c_st cl)))) /\
    prev = Z.to_N (fst (ss_mem (Z.of_N v) (c_st cl))).
Proof.
  intros c x i v c' x' prev Hc H. unfold state_mem in H. rewrite Hc in H.
  destruct (nth_error c i) as [cl|] eqn:En; [|inversion H].
  destruct (ss_mem (Z.of_N v) (c_st cl)) as [pv st] eqn:Em. inversion H; subst. split; [reflexivity|]. split.
  - intros j Hj. apply nth_error_put_nth_other. congruence.
  - exists cl. rewrite Em. cbn [fst snd]. split; [reflexivity|]. split; [|reflexivity].
    apply nth_error_put_nth_same. apply nth_error_Some. congruence.
Qed.
