(* Modules/Basics.v — reflection lemmas for the model's boolean helpers, induction principles for the nested types. *)
From Coq Require Import List String Bool Arith Lia.
From Mimium Require Import Modules.Model Modules.Spec.
Import ListNotations.

Lemma sym_eqb_eq : forall a b, sym_eqb a b = true <-> a = b.
Proof.
  induction a as [|x a IH]; destruct b as [|y b]; cbn [sym_eqb]; split; intro H; try discriminate; auto.
  - apply andb_true_iff in H. destruct H as [H1 H2]. apply String.eqb_eq in H1. apply IH in H2. subst. reflexivity.
  - inversion H; subst. apply andb_true_iff. split. apply String.eqb_refl. apply IH. reflexivity.
Qed.

Lemma sym_eqb_refl : forall a, sym_eqb a a = true.
Proof. intro a. apply sym_eqb_eq. reflexivity. Qed.

Lemma sym_eqb_neq : forall a b, sym_eqb a b = false <-> a <> b.
Proof.
  intros a b. split; intro H.
  - intro E. apply sym_eqb_eq in E. congruence.
  - destruct (sym_eqb a b) eqn:E; auto. apply sym_eqb_eq in E. contradiction.
Qed.

Lemma mem_In : forall s l, mem s l = true <-> In s l.
Proof.
  intros s l. unfold mem. rewrite existsb_exists. split.
  - intros [x [Hin He]]. apply sym_eqb_eq in He. subst. exact Hin.
  - intro H. exists s. split; auto. apply sym_eqb_refl.
Qed.

Lemma assoc_In : forall A (k : sym) (m : list (sym * A)) v, assoc k m = Some v -> In (k, v) m.
Proof.
  intros A k m. induction m as [|[k' v'] m IH]; cbn [assoc]; intros v H. discriminate.
  destruct (sym_eqb k k') eqn:E.
  - apply sym_eqb_eq in E. subst k'. injection H as Hv. subst v'. left. reflexivity.
  - right. apply IH. exact H.
Qed.

Lemma has_key_In : forall A (k : sym) (m : list (sym * A)), has_key k m = true -> exists v, In (k, v) m.
Proof.
  intros A k m H. unfold has_key in H. destruct (assoc k m) eqn:E; try discriminate.
  exists a. apply assoc_In. exact E.
Qed.

Lemma has_key_cons : forall A (k k' : sym) (v : A) m,
    has_key k ((k', v) :: m) = sym_eqb k k' || has_key k m.
Proof. intros. unfold has_key. cbn [assoc]. destruct (sym_eqb k k'); reflexivity. Qed.

Lemma starts_with_inside : forall p l, starts_with l p = true <-> inside p l.
Proof.
  induction p as [|x p IH]; intros l; cbn [starts_with].
  - split; intros _; auto. exists l. reflexivity.
  - destruct l as [|y l].
    + split; intro H. discriminate. destruct H as [r Hr]. discriminate.
    + split; intro H.
      * apply andb_true_iff in H. destruct H as [H1 H2]. apply String.eqb_eq in H1. apply IH in H2.
        destruct H2 as [r Hr]. exists r. subst. reflexivity.
      * destruct H as [r Hr]. inversion Hr; subst. apply andb_true_iff. split. apply String.eqb_refl.
        apply IH. exists r. reflexivity.
Qed.

Lemma removelast_snoc : forall A (l : list A) x, removelast (l ++ [x]) = l.
Proof. intros. apply removelast_last. Qed.

Lemma length_snoc_ge2 : forall A (M : list A) n, M <> [] -> 2 <= List.length (M ++ [n]).
Proof. intros A M n H. rewrite app_length. cbn. destruct M; [contradiction|cbn; lia]. Qed.

Lemma within_inside : forall cmc M n,
    is_within_module_hierarchy cmc (M ++ [n]) = true -> inside M cmc.
Proof.
  intros cmc M n H. unfold is_within_module_hierarchy in H.
  destruct (negb (nonempty cmc) || (List.length (M ++ [n]) <? 2)); try discriminate.
  rewrite removelast_snoc in H. apply starts_with_inside. exact H.
Qed.

(* ---- induction principles ------------------------------------------------------------------------------- *)
Section ExprInd.
  Variable P : expr -> Prop.
  Hypothesis Hc : forall c, P (EConst c).
  Hypothesis He : P EErr.
  Hypothesis Hv : forall x, P (EVar x).
  Hypothesis Hq : forall p, P (EQVar p).
  Hypothesis Hlet : forall pat e1 e2, P e1 -> (forall t, e2 = Some t -> P t) -> P (ELet pat e1 e2).
  Hypothesis Hrec : forall f e1 e2, P e1 -> (forall t, e2 = Some t -> P t) -> P (ELetRec f e1 e2).
  Hypothesis Hlam : forall ps b, P b -> P (ELam ps b).
  Hypothesis Happ : forall f args, P f -> Forall P args -> P (EApp f args).
  Hypothesis Hthen : forall e1 e2, P e1 -> (forall t, e2 = Some t -> P t) -> P (EThen e1 e2).

  Fixpoint expr_ind' (e : expr) : P e :=
    match e with
    | EConst c => Hc c
    | EErr => He
    | EVar x => Hv x
    | EQVar p => Hq p
    | ELet pat e1 e2 =>
        Hlet pat e1 e2 (expr_ind' e1)
             (match e2 as o return forall t, o = Some t -> P t with
              | Some t0 => fun t E => match E in _ = y return match y with Some t' => P t' | None => True end with eq_refl => expr_ind' t0 end
              | None => fun t E => match E in _ = y return match y with Some t' => P t' | None => True end with eq_refl => I end
              end)
    | ELetRec f e1 e2 =>
        Hrec f e1 e2 (expr_ind' e1)
             (match e2 as o return forall t, o = Some t -> P t with
              | Some t0 => fun t E => match E in _ = y return match y with Some t' => P t' | None => True end with eq_refl => expr_ind' t0 end
              | None => fun t E => match E in _ = y return match y with Some t' => P t' | None => True end with eq_refl => I end
              end)
    | ELam ps b => Hlam ps b (expr_ind' b)
    | EApp f args =>
        Happ f args (expr_ind' f)
             ((fix go (l : list expr) : Forall P l :=
                 match l with [] => Forall_nil P | x :: r => Forall_cons x (expr_ind' x) (go r) end) args)
    | EThen e1 e2 =>
        Hthen e1 e2 (expr_ind' e1)
              (match e2 as o return forall t, o = Some t -> P t with
               | Some t0 => fun t E => match E in _ = y return match y with Some t' => P t' | None => True end with eq_refl => expr_ind' t0 end
               | None => fun t E => match E in _ = y return match y with Some t' => P t' | None => True end with eq_refl => I end
               end)
    end.
End ExprInd.

Section ItemInd.
  Variable P : item -> Prop.
  Hypothesis Hfn : forall pub n ps b, P (IFn pub n ps b).
  Hypothesis Hlet : forall n b, P (ILet n b).
  Hypothesis Hmod : forall pub n body, Forall P body -> P (IMod pub n body).
  Hypothesis Huse : forall pub p t, P (IUse pub p t).

  Fixpoint item_ind' (it : item) : P it :=
    match it with
    | IFn pub n ps b => Hfn pub n ps b
    | ILet n b => Hlet n b
    | IMod pub n body =>
        Hmod pub n body
             ((fix go (l : list item) : Forall P l :=
                 match l with [] => Forall_nil P | x :: r => Forall_cons x (item_ind' x) (go r) end) body)
    | IUse pub p t => Huse pub p t
    end.
End ItemInd.

(* the inner loop of flatten_item's IMod arm is flatten_items *)
Lemma flatten_item_mod : forall prefix pub name body mi,
    flatten_item prefix (IMod pub name body) mi
    = flatten_items (prefix ++ [name]) body (loaded_insert (prefix ++ [name]) mi).
Proof.
  intros. cbn [flatten_item].
  generalize (loaded_insert (prefix ++ [name]) mi) as m.
  induction body as [|x r IH]; intro m; cbn [flatten_items]. reflexivity.
  destruct (flatten_item (prefix ++ [name]) x m) as [s1 mi1]. rewrite IH. reflexivity.
Qed.
