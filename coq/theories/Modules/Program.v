(* Modules/Program.v — the program-level statements behind Props/C17.v *)
From Coq Require Import List String Bool Arith Lia.
From Mimium Require Import Modules.Model Modules.Spec Modules.Basics Modules.Resolve Modules.Flatten Modules.Convert.
Import ListNotations.

Definition is_ref (e : expr) : Prop := (exists x, e = EVar x) \/ (exists p, e = EQVar p).

Definition mi_of (prog : list item) : module_info := snd (flatten prog).
Definition known_of (builtins : list sym) (prog : list item) : list sym :=
  known_names builtins (expr_from_stmts (stmts_items [] prog)).

Lemma convert_program_unfold : forall builtins prog,
    convert_program builtins prog
    = convert_expr (mi_of prog) (known_of builtins prog) [] [] (expr_from_stmts (stmts_items [] prog)).
Proof.
  intros builtins prog. unfold convert_program, mi_of, known_of.
  pose proof (flatten_stmts_items prog [] mi_empty) as Hs. unfold flatten in *.
  destruct (flatten_items [] prog mi_empty) as [stmts mi]. cbn [fst snd] in *. subst stmts. reflexivity.
Qed.

(* Every statement of the program is converted starting from the empty module context, whatever precedes it (no
   restriction on the program): a function under its own entry of module_context_map, a `let` under the entry of
   its own pattern, none = the top level.  This is the repaired Let arm seen from the program. *)
Lemma statement_context : forall builtins prog e' errs k st,
    convert_program builtins prog = (e', errs) ->
    nth_error (stmts_items [] prog) k = Some st ->
    exists locals sub' errs',
      incl errs' errs /\
      match st with
      | SLetRec f x =>
          convert_expr (mi_of prog) (known_of builtins prog)
                       (match assoc f (module_context_map (mi_of prog)) with Some c => c | None => [] end)
                       ([f] :: locals) x = (sub', errs')
          /\ nth_error (chain_stmts e') k = Some (SLetRec f sub')
      | SLet pat x =>
          convert_expr (mi_of prog) (known_of builtins prog)
                       (match find_pattern_module_context (mi_of prog) pat with Some c => c | None => [] end)
                       locals x = (sub', errs')
          /\ nth_error (chain_stmts e') k = Some (SLet pat sub')
      end.
Proof.
  intros builtins prog e' errs k st Hc Hk. rewrite convert_program_unfold in Hc.
  exact (convert_chain_nth _ _ _ _ _ _ _ _ Hc Hk).
Qed.

(* ---- module_context_map under mod_lets_apart -------------------------------------------------------------------- *)
Lemma short_sym : forall x : sym, List.length x = 1 -> exists n, x = [n].
Proof. intros [|n [|m r]] H; try discriminate. exists n. reflexivity. Qed.

(* a one-segment key with a non-empty context is the name of a module `let` *)
Lemma mod_let_key : forall prog c n,
    In (c ++ [n]) (let_keys prog) -> c <> [] -> exists b, In (c, n, b) (mod_let_decls prog).
Proof.
  intros prog c n Hin Hc. unfold let_keys in Hin. apply in_map_iff in Hin. destruct Hin as [[[P n'] b] [Hk Hd]].
  unfold let_key in Hk. cbn [fst snd] in Hk. apply app_inj_tail in Hk. destruct Hk as [HP Hn]. subst P n'.
  exists b. unfold mod_let_decls. apply filter_In. split; auto. cbn [fst]. destruct c; [contradiction|reflexivity].
Qed.

Lemma ctx_short_key : forall prog n c,
    assoc [n] (module_context_map (mi_of prog)) = Some c -> c <> [] /\ exists b, In (c, n, b) (mod_let_decls prog).
Proof.
  intros prog n c Ha. destruct (flatten_ctx prog _ _ Ha) as [Hc [[n' Hk]|[n' [Hk Hin]]]].
  - exfalso. change [n] with ([] ++ [n]) in Hk. apply app_inj_tail in Hk. destruct Hk as [Hk _]. symmetry in Hk. contradiction.
  - inversion Hk; subst n'. split; auto. apply mod_let_key; auto.
Qed.

(* a name that is bound elsewhere has no entry *)
Lemma apart_no_ctx : forall prog x,
    mod_lets_apart prog = true -> List.length x = 1 -> In x (other_binders prog) ->
    assoc x (module_context_map (mi_of prog)) = None.
Proof.
  intros prog x Hap Hl Hin. destruct (short_sym x Hl) as [n Hn]. subst x.
  destruct (assoc [n] (module_context_map (mi_of prog))) as [c|] eqn:Ha; auto. exfalso.
  destruct (ctx_short_key _ _ _ Ha) as [_ [b Hb]].
  unfold mod_lets_apart in Hap. apply andb_true_iff in Hap. destruct Hap as [_ Hap]. rewrite forallb_forall in Hap.
  specialize (Hap _ Hin). apply negb_true_iff in Hap.
  assert (Hm : mem [n] (mod_let_names prog) = true).
  { apply mem_In. unfold mod_let_names. apply in_map_iff. exists (c, n, b). split; auto. }
  congruence.
Qed.

Lemma ctx_binders_defined : forall e x, In x (ctx_binders e) -> In x (collect_defined_names e).
Proof.
  induction e using expr_ind'; intros y Hy; cbn [ctx_binders collect_defined_names] in *; try contradiction.
  - apply in_app_or in Hy. apply in_or_app. destruct Hy as [Hy|Hy]; [left; exact Hy|right].
    apply in_app_or in Hy. apply in_or_app. destruct Hy as [Hy|Hy]; [left; apply IHe; exact Hy|right].
    destruct e2 as [t|]; cbn [opt_list]; [|contradiction]. eapply H; eauto.
  - destruct Hy as [Hy|Hy]; [left; exact Hy|right].
    apply in_app_or in Hy. apply in_or_app. destruct Hy as [Hy|Hy]; [left; apply IHe; exact Hy|right].
    destruct e2 as [t|]; cbn [opt_list]; [|contradiction]. eapply H; eauto.
  - apply in_or_app. right. apply IHe. exact Hy.
  - apply in_app_or in Hy. apply in_or_app. destruct Hy as [Hy|Hy]; [left; apply IHe; exact Hy|right].
    apply in_flat_map in Hy. destruct Hy as [a [Ha Hy]]. apply in_flat_map. exists a. split; auto.
    rewrite Forall_forall in H. apply H; auto.
  - apply in_app_or in Hy. apply in_or_app. destruct Hy as [Hy|Hy]; [left; apply IHe; exact Hy|right].
    destruct e2 as [t|]; cbn [opt_list]; [|contradiction]. eapply H; eauto.
Qed.

Lemma src_let_item : forall it prefix P n b, src_item it = true -> In (P, n, b) (let_decls_item prefix it) -> src_expr b = true.
Proof.
  induction it using item_ind'; intros prefix P n0 b0 Hs Hd; cbn [let_decls_item] in Hd; try contradiction.
  - destruct Hd as [Hd|[]]. inversion Hd; subst. exact Hs.
  - apply in_flat_map in Hd. destruct Hd as [x [Hx Hd]]. cbn [src_item] in Hs. rewrite forallb_forall in Hs.
    rewrite Forall_forall in H. eapply H; eauto.
Qed.

Lemma src_let : forall prog P n b, src_prog prog = true -> In (P, n, b) (let_decls prog) -> src_expr b = true.
Proof.
  intros prog P n b Hs Hd. unfold let_decls in Hd. apply in_flat_map in Hd. destruct Hd as [x [Hx Hd]].
  unfold src_prog in Hs. rewrite forallb_forall in Hs. eapply src_let_item; eauto.
Qed.

Lemma collect_src_short : forall e x, src_expr e = true -> In x (collect_defined_names e) -> List.length x = 1.
Proof.
  induction e using expr_ind'; intros y Hs Hy; cbn [collect_defined_names] in Hy; try contradiction; cbn [src_expr] in Hs.
  - apply andb_true_iff in Hs. destruct Hs as [Hs H2]. apply andb_true_iff in Hs. destruct Hs as [Hp H1].
    apply in_app_or in Hy. destruct Hy as [Hy|Hy].
    + rewrite forallb_forall in Hp. apply Nat.eqb_eq. apply Hp. exact Hy.
    + apply in_app_or in Hy. destruct Hy as [Hy|Hy]; [apply IHe; auto|].
      destruct e2 as [t|]; cbn [opt_list] in Hy; [|contradiction]. eapply H; eauto.
  - apply andb_true_iff in Hs. destruct Hs as [Hs H2]. apply andb_true_iff in Hs. destruct Hs as [Hp H1].
    destruct Hy as [Hy|Hy]; [subst; apply Nat.eqb_eq; exact Hp|].
    apply in_app_or in Hy. destruct Hy as [Hy|Hy]; [apply IHe; auto|].
    destruct e2 as [t|]; cbn [opt_list] in Hy; [|contradiction]. eapply H; eauto.
  - apply andb_true_iff in Hs. destruct Hs as [Hp H1].
    apply in_app_or in Hy. destruct Hy as [Hy|Hy].
    + rewrite forallb_forall in Hp. apply Nat.eqb_eq. apply Hp. exact Hy.
    + apply IHe; auto.
  - apply andb_true_iff in Hs. destruct Hs as [H1 H2].
    apply in_app_or in Hy. destruct Hy as [Hy|Hy]; [apply IHe; auto|].
    apply in_flat_map in Hy. destruct Hy as [a [Ha Hy]]. rewrite Forall_forall in H. rewrite forallb_forall in H2. eapply H; eauto.
  - apply andb_true_iff in Hs. destruct Hs as [H1 H2].
    apply in_app_or in Hy. destruct Hy as [Hy|Hy]; [apply IHe; auto|].
    destruct e2 as [t|]; cbn [opt_list] in Hy; [|contradiction]. eapply H; eauto.
Qed.


(* no binder inside the body of a declared function / the initialiser of a declared `let` has a context entry *)
Lemma fn_body_free : forall prog d,
    mod_lets_apart prog = true -> src_prog prog = true -> In d (fn_decls prog) -> ctx_free (mi_of prog) (d_body d).
Proof.
  intros prog d Hap Hsrc Hd x Hx. apply apart_no_ctx; auto.
  - eapply collect_src_short. eapply src_decl; eauto. apply ctx_binders_defined. exact Hx.
  - unfold other_binders. apply in_or_app. left. apply in_flat_map. exists d. split; auto. apply in_or_app. right. exact Hx.
Qed.

Lemma let_body_free : forall prog P n b,
    mod_lets_apart prog = true -> src_prog prog = true -> In (P, n, b) (let_decls prog) -> ctx_free (mi_of prog) b.
Proof.
  intros prog P n b Hap Hsrc Hd x Hx. apply apart_no_ctx; auto.
  - eapply collect_src_short. eapply src_let; eauto. apply ctx_binders_defined. exact Hx.
  - unfold other_binders. apply in_or_app. right. apply in_flat_map. exists (P, n, b). split; auto. apply in_or_app. right. exact Hx.
Qed.

(* every declared function is converted, as statement of the chain, under the module context of its module
   (or the empty one), and its errors are errors of the program *)
Lemma fn_body_converted : forall builtins prog e' errs d,
    mod_lets_apart prog = true ->
    convert_program builtins prog = (e', errs) ->
    In d (fn_decls prog) ->
    exists cmc locals body' errs',
      (cmc = d_mod d \/ cmc = [])
      /\ convert_expr (mi_of prog) (known_of builtins prog) cmc (map (fun p => [p]) (d_params d) :: locals) (d_body d) = (body', errs')
      /\ incl errs' errs
      /\ In (SLetRec (d_path d) (ELam (map (fun p => [p]) (d_params d)) body')) (chain_stmts e').
Proof.
  intros builtins prog e' errs d Hap Hc Hd.
  rewrite convert_program_unfold in Hc.
  pose proof Hd as Hst. apply decl_stmt in Hst. apply In_nth_error in Hst. destruct Hst as [k Hk].
  destruct (convert_chain_nth _ _ _ _ _ _ _ _ Hc Hk) as [lk [sub' [es [Hi [Hcv Hn]]]]].
  cbn [convert_expr] in Hcv.
  set (cmc := match assoc (d_path d) (module_context_map (mi_of prog)) with Some c => c | None => [] end) in *.
  match type of Hcv with (let (_, _) := ?t in _) = _ => destruct t as [body' eb] eqn:Eb end.
  inversion Hcv; subst sub' es. clear Hcv.
  exists cmc, ([d_path d] :: lk), body', eb. split; [|split; [exact Eb|split; [exact Hi|]]].
  - unfold cmc. destruct (assoc (d_path d) (module_context_map (mi_of prog))) as [c|] eqn:Ea; [|right; reflexivity].
    destruct (flatten_ctx prog _ _ Ea) as [Hne [[n Hp]|[n [Hp _]]]].
    + left. unfold d_path in Hp. apply app_inj_tail in Hp. destruct Hp as [Hp _]. symmetry. exact Hp.
    + exfalso. unfold d_path in Hp. change [n] with ([] ++ [n]) in Hp. apply app_inj_tail in Hp. destruct Hp as [Hm Hname].
      assert (Hnone : assoc (d_path d) (module_context_map (mi_of prog)) = None).
      { apply apart_no_ctx; auto. unfold d_path. rewrite Hm. reflexivity.
        unfold other_binders. apply in_or_app. left. apply in_flat_map. exists d. split; auto. apply in_or_app. left.
        rewrite Hm. cbn [nonempty]. left. unfold d_path. rewrite Hm. reflexivity. }
      congruence.
  - eapply nth_error_In. exact Hn.
Qed.

Lemma let_stmt_item : forall it prefix P n b,
    In (P, n, b) (let_decls_item prefix it) -> In (SLet [[n]] b) (stmts_item prefix it).
Proof.
  induction it using item_ind'; intros prefix P n0 b0 Hd; cbn [let_decls_item stmts_item] in *; try contradiction.
  - destruct Hd as [Hd|[]]. inversion Hd; subst. left. reflexivity.
  - apply in_flat_map in Hd. destruct Hd as [x [Hx Hd]]. apply in_flat_map. exists x. split; auto.
    rewrite Forall_forall in H. eapply H; eauto.
Qed.

(* every declared `let` is converted, as statement of the chain, under the module context of ITS module (or the
   empty one): a top-level `let` under the empty context, whatever module `let`s precede it *)
Lemma let_body_converted : forall builtins prog e' errs P n b,
    mod_lets_apart prog = true ->
    convert_program builtins prog = (e', errs) ->
    In (P, n, b) (let_decls prog) ->
    exists cmc locals body' errs',
      (cmc = P \/ cmc = [])
      /\ convert_expr (mi_of prog) (known_of builtins prog) cmc locals b = (body', errs')
      /\ incl errs' errs
      /\ In (SLet [[n]] body') (chain_stmts e').
Proof.
  intros builtins prog e' errs P n b Hap Hc Hd.
  rewrite convert_program_unfold in Hc.
  assert (Hs : In (SLet [[n]] b) (stmts_items [] prog)).
  { unfold let_decls in Hd. apply in_flat_map in Hd. destruct Hd as [x [Hx Hd]]. apply in_flat_map. exists x. split; auto.
    eapply let_stmt_item; eauto. }
  apply In_nth_error in Hs. destruct Hs as [k Hk].
  destruct (convert_chain_nth _ _ _ _ _ _ _ _ Hc Hk) as [lk [sub' [es [Hi [Hcv Hn]]]]].
  cbn [find_pattern_module_context] in Hcv.
  set (cmc := match match assoc [n] (module_context_map (mi_of prog)) with Some c => Some c | None => None end with
              | Some c => c | None => [] end) in *.
  exists cmc, lk, sub', es. split; [|split; [exact Hcv|split; [exact Hi|eapply nth_error_In; exact Hn]]].
  unfold cmc. destruct (assoc [n] (module_context_map (mi_of prog))) as [c|] eqn:Ea; [|right; reflexivity].
  left. destruct (ctx_short_key _ _ _ Ea) as [Hne [b' Hb']].
  destruct (nonempty P) eqn:HP.
  - assert (Hin : In (P, n, b) (mod_let_decls prog)) by (unfold mod_let_decls; apply filter_In; split; auto).
    unfold mod_lets_apart in Hap. apply andb_true_iff in Hap. destruct Hap as [Hnd _].
    apply nodup_syms_NoDup in Hnd. unfold mod_let_names in Hnd.
    assert (E : (c, n, b') = (P, n, b)) by (eapply NoDup_map_eq; eauto).
    inversion E. reflexivity.
  - exfalso.
    assert (Hnone : assoc [n] (module_context_map (mi_of prog)) = None).
    { apply apart_no_ctx; auto. unfold other_binders. apply in_or_app. right. apply in_flat_map. exists (P, n, b). split; auto.
      apply in_or_app. left. cbn [fst snd]. rewrite HP. left. reflexivity. }
    congruence.
Qed.

(* a reference at position q of a converted source expression *)
Lemma ref_converted : forall mi known cmc locals body body' errs q r,
    ctx_free mi body -> src_expr body = true ->
    convert_expr mi known cmc locals body = (body', errs) ->
    subexpr_at body q = Some r -> is_ref r ->
    exists s cmc' locals' er,
      (cmc' = cmc \/ cmc' = [])
      /\ (forall x, In x (binders_at body q) \/ In x (List.concat locals) -> In x (List.concat locals'))
      /\ subexpr_at body' q = Some (EVar s)
      /\ incl er errs
      /\ match r with
         | EVar x => List.length x = 1 /\ convert_var mi known cmc' locals' x = (s, er)
         | EQVar p => 2 <= List.length p /\ convert_qualified_var mi known cmc' p = (s, er)
         | _ => False
         end.
Proof.
  intros mi known cmc locals body body' errs q r HI Hsrc Hc Hs Hr.
  destruct (convert_at _ _ _ _ _ _ _ _ _ Hc Hs) as [sub' [er [Hcv [Hs' Hi]]]].
  pose proof (src_subexpr _ _ _ Hsrc Hs) as Hsr.
  set (cmc' := fst (ctx_at mi cmc locals body q)) in *. set (locals' := snd (ctx_at mi cmc locals body q)) in *.
  assert (Hcm : cmc' = cmc \/ cmc' = []) by (apply ctx_at_src; exact HI).
  assert (Hb : forall x, In x (binders_at body q) \/ In x (List.concat locals) -> In x (List.concat locals')).
  { intros x [Hx|Hx]. apply binders_at_locals. exact Hx. apply ctx_at_mono. exact Hx. }
  destruct Hr as [[x Hx]|[p Hp]]; subst r; cbn [convert_expr] in Hcv.
  - destruct (convert_var mi known cmc' locals' x) as [s e0] eqn:Ev. inversion Hcv; subst sub' er.
    exists s, cmc', locals', e0. repeat split; auto. cbn [src_expr] in Hsr. apply Nat.eqb_eq. exact Hsr.
  - destruct (convert_qualified_var mi known cmc' p) as [s e0] eqn:Ev. inversion Hcv; subst sub' er.
    exists s, cmc', locals', e0. repeat split; auto. cbn [src_expr] in Hsr. apply Nat.leb_le. exact Hsr.
Qed.

Lemma incl_nil_eq : forall A (l : list A), incl l [] -> l = [].
Proof. intros A l H. destruct l as [|x l]; auto. exfalso. apply (H x). left. reflexivity. Qed.

(* the two facts about ModuleInfo the privacy lemmas of Resolve.v need *)
Lemma privacy_facts : forall prog,
    unique_fns prog = true -> pub_use_safe prog = true ->
    (forall s, is_private_member prog s = true -> assoc s (visibility_map (mi_of prog)) = Some false)
    /\ (forall k, 2 <= List.length k -> is_private_member prog (resolve_alias_chain (mi_of prog) k) = true ->
                  resolve_alias_chain (mi_of prog) k = k).
Proof.
  intros prog Hu Hs. split.
  - intros s Hp. apply private_vis_false; auto.
  - intros k Hl Hp. apply private_chain_fixed; auto.
Qed.

(* a reference resolved without error to a private member sits inside that member's module *)
Lemma ref_private_inside : forall prog known cmc locals r s M n,
    unique_fns prog = true -> pub_use_safe prog = true ->
    match r with
    | EVar x => List.length x = 1 /\ convert_var (mi_of prog) known cmc locals x = (s, [])
    | EQVar p => 2 <= List.length p /\ convert_qualified_var (mi_of prog) known cmc p = (s, [])
    | _ => False
    end ->
    s = M ++ [n] -> private_fn prog M n -> inside M cmc.
Proof.
  intros prog known cmc locals r s M n Hu Hs Hr Hsm Hp.
  destruct (privacy_facts prog Hu Hs) as [Hvis Hchain].
  pose proof (private_fn_member _ _ _ Hp) as Hpm. destruct Hp as [HM _].
  destruct r; try contradiction; destruct Hr as [Hl Hc].
  - eapply (convert_var_private (mi_of prog) (fun s => is_private_member prog s = true) Hvis); eauto. rewrite Hsm. exact Hpm.
  - eapply (convert_qualified_var_private (mi_of prog) (fun s => is_private_member prog s = true) Hvis Hchain); eauto. rewrite Hsm. exact Hpm.
Qed.

Theorem no_private_route_fn : forall builtins prog e',
    unique_fns prog = true -> mod_lets_apart prog = true -> pub_use_safe prog = true -> src_prog prog = true ->
    convert_program builtins prog = (e', []) ->
    forall d, In d (fn_decls prog) ->
    exists body',
      In (SLetRec (d_path d) (ELam (map (fun p => [p]) (d_params d)) body')) (chain_stmts e')
      /\ forall q r, subexpr_at (d_body d) q = Some r -> is_ref r ->
           exists s, subexpr_at body' q = Some (EVar s)
                     /\ forall M n, s = M ++ [n] -> private_fn prog M n -> inside M (d_mod d).
Proof.
  intros builtins prog e' Hu Hno Hs Hsrc Hc d Hd.
  destruct (fn_body_converted _ _ _ _ _ Hno Hc Hd) as [cmc [locals [body' [eb [Hcm [Hcv [Hi Hin]]]]]]].
  apply incl_nil_eq in Hi. subst eb.
  exists body'. split; [exact Hin|]. intros q r Hq Hr.
  pose proof (fn_body_free prog d Hno Hsrc Hd) as HI.
  destruct (ref_converted _ _ _ _ _ _ _ _ _ HI (src_decl _ _ Hsrc Hd) Hcv Hq Hr)
    as [s [cmc' [locals' [er [Hcm' [_ [Hs' [Hie Hres]]]]]]]].
  apply incl_nil_eq in Hie. subst er.
  exists s. split; [exact Hs'|]. intros M n Hsm Hp.
  assert (Hin' : inside M cmc') by (eapply ref_private_inside; eauto).
  destruct Hp as [HM _].
  destruct Hcm' as [E|E]; rewrite E in Hin'; [|apply inside_nil in Hin'; contradiction].
  destruct Hcm as [E2|E2]; rewrite E2 in Hin'; [exact Hin'|apply inside_nil in Hin'; contradiction].
Qed.

Theorem no_private_route_let : forall builtins prog e',
    unique_fns prog = true -> mod_lets_apart prog = true -> pub_use_safe prog = true -> src_prog prog = true ->
    convert_program builtins prog = (e', []) ->
    forall P n b, In (P, n, b) (let_decls prog) ->
    exists body',
      In (SLet [[n]] body') (chain_stmts e')
      /\ forall q r, subexpr_at b q = Some r -> is_ref r ->
           exists s, subexpr_at body' q = Some (EVar s) /\ forall M m, s = M ++ [m] -> private_fn prog M m -> inside M P.
Proof.
  intros builtins prog e' Hu Hno Hs Hsrc Hc P n b Hd.
  destruct (let_body_converted _ _ _ _ _ _ _ Hno Hc Hd) as [cmc [locals [body' [eb [Hcm [Hcv [Hi Hin]]]]]]].
  apply incl_nil_eq in Hi. subst eb.
  exists body'. split; [exact Hin|]. intros q r Hq Hr.
  pose proof (let_body_free prog P n b Hno Hsrc Hd) as HI.
  destruct (ref_converted _ _ _ _ _ _ _ _ _ HI (src_let _ _ _ _ Hsrc Hd) Hcv Hq Hr)
    as [s [cmc' [locals' [er [Hcm' [_ [Hs' [Hie Hres]]]]]]]].
  apply incl_nil_eq in Hie. subst er.
  exists s. split; [exact Hs'|]. intros M m Hsm Hp.
  assert (Hin' : inside M cmc') by (eapply ref_private_inside; eauto).
  destruct Hp as [HM _].
  destruct Hcm' as [E|E]; rewrite E in Hin'; [|apply inside_nil in Hin'; contradiction].
  destruct Hcm as [E2|E2]; rewrite E2 in Hin'; [exact Hin'|apply inside_nil in Hin'; contradiction].
Qed.

(* in particular the initialiser of a TOP-LEVEL `let` never reaches a private member, whatever module `let`s the
   program has before it (the repaired half of finding F17b) *)
Corollary no_private_route_top_let : forall builtins prog e',
    unique_fns prog = true -> mod_lets_apart prog = true -> pub_use_safe prog = true -> src_prog prog = true ->
    convert_program builtins prog = (e', []) ->
    forall n b, In ([], n, b) (let_decls prog) ->
    exists body',
      In (SLet [[n]] body') (chain_stmts e')
      /\ forall q r, subexpr_at b q = Some r -> is_ref r ->
           exists s, subexpr_at body' q = Some (EVar s) /\ forall M m, s = M ++ [m] -> ~ private_fn prog M m.
Proof.
  intros builtins prog e' Hu Hno Hs Hsrc Hc n b Hd.
  destruct (no_private_route_let _ _ _ Hu Hno Hs Hsrc Hc _ _ _ Hd) as [body' [Hin H]].
  exists body'. split; [exact Hin|]. intros q r Hq Hr. destruct (H q r Hq Hr) as [s [Hs' Hp]].
  exists s. split; [exact Hs'|]. intros M m Hsm Hpriv. pose proof (Hp M m Hsm Hpriv) as Hi.
  apply inside_nil in Hi. destruct Hpriv as [HM _]. contradiction.
Qed.

(* no_mod_let is the crude form of mod_lets_apart *)
Lemma no_let_item_decls : forall it prefix, no_let_item it = true -> let_decls_item prefix it = [].
Proof.
  induction it using item_ind'; intros prefix Hn; cbn [no_let_item let_decls_item] in *; try reflexivity; try discriminate.
  rewrite forallb_forall in Hn. rewrite Forall_forall in H.
  induction body as [|x r IHr]; cbn [flat_map]. reflexivity.
  rewrite (H x (or_introl eq_refl) _ (Hn x (or_introl eq_refl))). cbn [app].
  apply IHr.
  - intros y Hy. apply H. right. exact Hy.
  - intros y Hy. apply Hn. right. exact Hy.
Qed.

Lemma no_mod_let_names : forall prog, no_mod_let prog = true -> mod_let_decls prog = [].
Proof.
  intros prog Hno. unfold mod_let_decls, let_decls, no_mod_let in *. rewrite forallb_forall in Hno.
  induction prog as [|it r IH]; cbn [flat_map]. reflexivity.
  rewrite filter_app. rewrite IH by (intros x Hx; apply Hno; right; exact Hx). rewrite app_nil_r.
  specialize (Hno it (or_introl eq_refl)).
  destruct it as [pub n ps b|n b|pub n body|pub p t]; cbn [let_decls_item]; try reflexivity.
  cbn [top_no_mod_let] in Hno. rewrite forallb_forall in Hno.
  induction body as [|x rb IHb]; cbn [flat_map]. reflexivity.
  rewrite (no_let_item_decls x _ (Hno x (or_introl eq_refl))). cbn [app]. apply IHb. intros y Hy. apply Hno. right. exact Hy.
Qed.

Lemma no_mod_let_apart : forall prog, no_mod_let prog = true -> mod_lets_apart prog = true.
Proof.
  intros prog Hno. unfold mod_lets_apart, mod_let_names. rewrite (no_mod_let_names prog Hno). cbn [map nodup_syms andb].
  apply forallb_forall. intros x _. reflexivity.
Qed.

(* ---- local bindings shadow ------------------------------------------------------------------------------------ *)
Theorem local_shadows_fn : forall builtins prog e' errs,
    mod_lets_apart prog = true -> src_prog prog = true ->
    convert_program builtins prog = (e', errs) ->
    forall d, In d (fn_decls prog) ->
    exists body',
      In (SLetRec (d_path d) (ELam (map (fun p => [p]) (d_params d)) body')) (chain_stmts e')
      /\ forall q x, subexpr_at (d_body d) q = Some (EVar x) ->
                     In x (binders_at (d_body d) q) \/ In x (map (fun p => [p]) (d_params d)) ->
                     subexpr_at body' q = Some (EVar x).
Proof.
  intros builtins prog e' errs Hno Hsrc Hc d Hd.
  destruct (fn_body_converted _ _ _ _ _ Hno Hc Hd) as [cmc [locals [body' [eb [Hcm [Hcv [Hi Hin]]]]]]].
  exists body'. split; [exact Hin|]. intros q x Hq Hb.
  pose proof (fn_body_free prog d Hno Hsrc Hd) as HI.
  destruct (ref_converted _ _ _ _ _ _ _ _ _ HI (src_decl _ _ Hsrc Hd) Hcv Hq (or_introl (ex_intro _ x eq_refl)))
    as [s [cmc' [locals' [er [_ [Hloc [Hs' [_ [_ Hres]]]]]]]]].
  assert (Hbound : is_locally_bound locals' x = true).
  { apply is_locally_bound_In. apply Hloc. destruct Hb as [Hb|Hb]; [left; exact Hb|right].
    cbn [List.concat]. apply in_or_app. left. exact Hb. }
  rewrite (convert_var_local _ _ _ _ _ Hbound) in Hres. inversion Hres; subst s. exact Hs'.
Qed.

(* ---- what a qualified path resolves to ----------------------------------------------------------------------- *)
Definition stmt_names (st : stmt) : list sym :=
  match st with SLet pat e => pat ++ collect_defined_names e | SLetRec f e => f :: collect_defined_names e end.

Lemma collect_chain : forall stmts, collect_defined_names (expr_from_stmts stmts) = flat_map stmt_names stmts.
Proof.
  induction stmts as [|st r IH]. reflexivity.
  rewrite expr_from_stmts_cons. destruct r as [|st2 r2].
  - destruct st; cbn [collect_defined_names into_then_expr opt_list flat_map stmt_names]; rewrite ?app_nil_r; reflexivity.
  - rewrite into_then_expr_some by discriminate.
    destruct st; cbn [collect_defined_names opt_list flat_map stmt_names]; rewrite IH; cbn [flat_map]; rewrite <- ?app_assoc; reflexivity.
Qed.

Lemma stmt_decl_item : forall it prefix f e, In (SLetRec f e) (stmts_item prefix it) -> exists d, In d (fn_decls_item prefix it) /\ d_path d = f.
Proof.
  induction it using item_ind'; intros prefix f e Hin; cbn [stmts_item fn_decls_item] in *; try contradiction.
  - destruct Hin as [Hin|[]]. inversion Hin; subst. eexists. split. left. reflexivity. reflexivity.
  - destruct Hin as [Hin|[]]. discriminate.
  - apply in_flat_map in Hin. destruct Hin as [x [Hx Hin]]. rewrite Forall_forall in H.
    destruct (H x Hx _ _ _ Hin) as [d [Hd Hp]]. exists d. split; auto. apply in_flat_map. exists x. auto.
Qed.

Lemma src_stmt_item : forall it prefix st, src_item it = true -> In st (stmts_item prefix it) ->
    match st with
    | SLet pat e => (forall x, In x pat -> List.length x = 1) /\ src_expr e = true
    | SLetRec f e => src_expr e = true
    end.
Proof.
  induction it using item_ind'; intros prefix st Hs Hin; cbn [stmts_item] in Hin; try contradiction.
  - destruct Hin as [Hin|[]]. subst st. cbn [src_expr]. cbn [src_item] in Hs. rewrite Hs. rewrite andb_true_r.
    apply forallb_forall. intros x Hx. apply in_map_iff in Hx. destruct Hx as [p [Hp _]]. subst x. reflexivity.
  - destruct Hin as [Hin|[]]. subst st. split. intros x [Hx|[]]. subst x. reflexivity. exact Hs.
  - apply in_flat_map in Hin. destruct Hin as [x [Hx Hin]]. cbn [src_item] in Hs. rewrite forallb_forall in Hs.
    rewrite Forall_forall in H. eapply H; eauto.
Qed.

(* multi-segment defined names are exactly the mangled names of declared functions *)
Lemma known_multi_iff : forall builtins prog x,
    src_prog prog = true -> (forall b, In b builtins -> List.length b = 1) -> 2 <= List.length x ->
    (In x (known_of builtins prog) <-> exists d, In d (fn_decls prog) /\ d_path d = x).
Proof.
  intros builtins prog x Hsrc Hb Hl. unfold known_of, known_names. rewrite collect_chain. split.
  - intro H. apply in_app_or in H. destruct H as [H|H]. apply Hb in H. lia.
    apply in_flat_map in H. destruct H as [st [Hst Hx]].
    unfold stmts_items in Hst. apply in_flat_map in Hst. destruct Hst as [it [Hit Hst]].
    unfold src_prog in Hsrc. rewrite forallb_forall in Hsrc.
    pose proof (src_stmt_item _ _ _ (Hsrc _ Hit) Hst) as Hss.
    destruct st as [pat e|f e]; cbn [stmt_names] in Hx.
    + destruct Hss as [Hp He]. apply in_app_or in Hx. destruct Hx as [Hx|Hx]. apply Hp in Hx. lia.
      apply (collect_src_short _ _ He) in Hx. lia.
    + destruct Hx as [Hx|Hx].
      * subst f. destruct (stmt_decl_item _ _ _ _ Hst) as [d [Hd Hp]]. exists d. split; auto.
        unfold fn_decls, fn_decls_items. apply in_flat_map. exists it. auto.
      * apply (collect_src_short _ _ Hss) in Hx. lia.
  - intros [d [Hd Hp]]. apply in_or_app. right. apply decl_stmt in Hd. apply in_flat_map.
    eexists. split. exact Hd. cbn [stmt_names]. left. exact Hp.
Qed.

Lemma denoted_ext : forall (P Q : sym -> Prop) cmc segs s,
    (P segs <-> Q segs) -> (P (cmc ++ segs) <-> Q (cmc ++ segs)) -> denoted P cmc segs s -> denoted Q cmc segs s.
Proof. intros P Q cmc segs s H1 H2 H. unfold denoted in *. tauto. Qed.

Theorem unique_fn : forall builtins prog e' errs,
    mod_lets_apart prog = true -> src_prog prog = true -> (forall b, In b builtins -> List.length b = 1) ->
    convert_program builtins prog = (e', errs) ->
    forall d, In d (fn_decls prog) ->
    exists body',
      In (SLetRec (d_path d) (ELam (map (fun p => [p]) (d_params d)) body')) (chain_stmts e')
      /\ forall q segs, subexpr_at (d_body d) q = Some (EQVar segs) ->
           exists cmc t,
             (cmc = d_mod d \/ cmc = [])
             /\ denoted (fun x => exists d', In d' (fn_decls prog) /\ d_path d' = x) cmc segs t
             /\ subexpr_at body' q = Some (EVar (resolve_alias_chain (mi_of prog) t)).
Proof.
  intros builtins prog e' errs Hno Hsrc Hb Hc d Hd.
  destruct (fn_body_converted _ _ _ _ _ Hno Hc Hd) as [cmc [locals [body' [eb [Hcm [Hcv [Hi Hin]]]]]]].
  exists body'. split; [exact Hin|]. intros q segs Hq.
  pose proof (fn_body_free prog d Hno Hsrc Hd) as HI.
  destruct (ref_converted _ _ _ _ _ _ _ _ _ HI (src_decl _ _ Hsrc Hd) Hcv Hq (or_intror (ex_intro _ segs eq_refl)))
    as [s [cmc' [locals' [er [Hcm' [_ [Hs' [_ [Hl Hres]]]]]]]]].
  destruct (convert_qualified_var_denoted _ _ _ _ _ _ Hres) as [t [Hden Hst]].
  exists cmc', t. split; [|split].
  - destruct Hcm' as [E|E]; [rewrite E; exact Hcm|right; exact E].
  - eapply denoted_ext; [| |exact Hden].
    + apply known_multi_iff; auto.
    + apply known_multi_iff; auto. rewrite app_length. lia.
  - rewrite Hst in Hs'. exact Hs'.
Qed.
