(* Modules/Witness.v — concrete programs: the refuted routes (findings F8, F9, F17a, F17b), the repaired route (first half of F17b) and programs
   satisfying the hypotheses of the positive theorems. *)
From Coq Require Import List String Bool Arith NArith.
From Mimium Require Import Modules.Model Modules.Spec Modules.Basics Modules.Program Modules.NoPubUse.
Import ListNotations.
Local Open Scope string_scope.

Definition call (e : expr) : expr := EApp e [].

(* F8:  mod m { let secret = 42.0 }  fn dsp(){ secret } *)
Definition prog_f8 : list item :=
  [IMod false "m" [ILet "secret" (EConst 42)];
   IFn false "dsp" [] (EVar ["secret"])].

(* F9:  mod m { fn hidden(){ 7.0 }  pub use m::hidden }  fn dsp(){ m::hidden() } *)
Definition prog_f9 : list item :=
  [IMod false "m" [IFn false "hidden" [] (EConst 7); IUse true ["m"; "hidden"] USingle];
   IFn false "dsp" [] (call (EQVar ["m"; "hidden"]))].

(* F9, other module:  mod o { fn p(){ 7.0 } }  mod api { pub use o::p }  fn dsp(){ api::p() } *)
Definition prog_f9b : list item :=
  [IMod false "o" [IFn false "p" [] (EConst 7)];
   IMod false "api" [IUse true ["o"; "p"] USingle];
   IFn false "dsp" [] (call (EQVar ["api"; "p"]))].

(* F17a:  mod outer { mod inner { pub fn secret(){ 5.0 } } }  fn dsp(){ outer::inner::secret() } *)
Definition prog_f17a : list item :=
  [IMod false "outer" [IMod false "inner" [IFn true "secret" [] (EConst 5)]];
   IFn false "dsp" [] (call (EQVar ["outer"; "inner"; "secret"]))].

(* F17b, repaired half:  mod m { fn hidden(){ 7.0 }  let a = 1.0 }  let b = hidden()  fn dsp(){ b } *)
Definition prog_f17b : list item :=
  [IMod false "m" [IFn false "hidden" [] (EConst 7); ILet "a" (EConst 1)];
   ILet "b" (call (EVar ["hidden"]));
   IFn false "dsp" [] (EVar ["b"])].

(* F17b, what remains:  mod m { fn hidden(){ 7.0 }  let a = 1.0 }  let a = hidden()  fn dsp(){ a } *)
Definition prog_f17b_let : list item :=
  [IMod false "m" [IFn false "hidden" [] (EConst 7); ILet "a" (EConst 1)];
   ILet "a" (call (EVar ["hidden"]));
   IFn false "dsp" [] (EVar ["a"])].

(* the same for a top-level function:  mod m { fn hidden(){ 7.0 }  let a = 1.0 }  fn a(){ hidden() }  fn dsp(){ a() } *)
Definition prog_f17b_fn : list item :=
  [IMod false "m" [IFn false "hidden" [] (EConst 7); ILet "a" (EConst 1)];
   IFn false "a" [] (call (EVar ["hidden"]));
   IFn false "dsp" [] (call (EVar ["a"]))].

Ltac vc := vm_compute; reflexivity.
Ltac in_list := vm_compute; repeat (first [left; reflexivity | right]).
Ltac priv := split; [discriminate | eexists; split; [in_list | split; [reflexivity | split; reflexivity]]].

Lemma not_inside_top : forall M, M <> [] -> ~ inside M [].
Proof. intros M HM [r Hr]. destruct M; [contradiction|discriminate]. Qed.

Lemma f8_refuted :
  exists prog e',
    unique_fns prog = true /\ pub_use_safe prog = true /\ src_prog prog = true
    /\ convert_program [] prog = (e', [])
    /\ In (["m"], "secret", EConst 42) (let_decls prog)
    /\ In (SLetRec ["dsp"] (ELam [] (EVar ["secret"]))) (chain_stmts e')
    /\ unbound [] e' = [] /\ run_dsp 10 e' = Some (VNum 42).
Proof.
  exists prog_f8. eexists.
  split; [vc|]. split; [vc|]. split; [vc|]. split; [vc|].
  split; [in_list|]. split; [in_list|]. split; vc.
Qed.

Lemma f9_refuted :
  exists prog e',
    unique_fns prog = true /\ no_mod_let prog = true /\ src_prog prog = true
    /\ convert_program [] prog = (e', [])
    /\ private_fn prog ["m"] "hidden"
    /\ In (SLetRec ["dsp"] (ELam [] (EApp (EVar ["m"; "hidden"]) []))) (chain_stmts e')
    /\ ~ inside ["m"] []
    /\ unbound [] e' = [] /\ run_dsp 10 e' = Some (VNum 7).
Proof.
  exists prog_f9. eexists.
  split; [vc|]. split; [vc|]. split; [vc|]. split; [vc|].
  split; [priv|]. split; [in_list|]. split; [apply not_inside_top; discriminate|]. split; vc.
Qed.

Lemma f9b_refuted :
  exists prog e',
    unique_fns prog = true /\ no_mod_let prog = true /\ src_prog prog = true
    /\ convert_program [] prog = (e', [])
    /\ private_fn prog ["o"] "p"
    /\ In (SLetRec ["dsp"] (ELam [] (EApp (EVar ["o"; "p"]) []))) (chain_stmts e')
    /\ ~ inside ["o"] []
    /\ unbound [] e' = [] /\ run_dsp 10 e' = Some (VNum 7).
Proof.
  exists prog_f9b. eexists.
  split; [vc|]. split; [vc|]. split; [vc|]. split; [vc|].
  split; [priv|]. split; [in_list|]. split; [apply not_inside_top; discriminate|]. split; vc.
Qed.

Lemma f17a_refuted :
  exists prog e',
    unique_fns prog = true /\ no_mod_let prog = true /\ pub_use_safe prog = true /\ src_prog prog = true
    /\ convert_program [] prog = (e', [])
    /\ In (["outer"; "inner"], false) (mod_decls prog)
    /\ In (SLetRec ["dsp"] (ELam [] (EApp (EVar ["outer"; "inner"; "secret"]) []))) (chain_stmts e')
    /\ ~ inside ["outer"] []
    /\ unbound [] e' = [] /\ run_dsp 10 e' = Some (VNum 5).
Proof.
  exists prog_f17a. eexists.
  split; [vc|]. split; [vc|]. split; [vc|]. split; [vc|]. split; [vc|].
  split; [in_list|]. split; [in_list|]. split; [apply not_inside_top; discriminate|]. split; vc.
Qed.

(* the former witness of F17b satisfies all four restrictions (it HAS a module `let`), the reference in the
   initialiser of the top-level `let` is left alone, and the program is rejected: `hidden` is unbound *)
Lemma f17b_repaired :
  unique_fns prog_f17b = true /\ mod_lets_apart prog_f17b = true /\ pub_use_safe prog_f17b = true /\ src_prog prog_f17b = true
  /\ no_mod_let prog_f17b = false
  /\ private_fn prog_f17b ["m"] "hidden"
  /\ In ([], "b", EApp (EVar ["hidden"]) []) (let_decls prog_f17b)
  /\ exists e', convert_program [] prog_f17b = (e', [])
                /\ In (SLet [["b"]] (EApp (EVar ["hidden"]) [])) (chain_stmts e')
                /\ unbound [] e' = [["hidden"]].
Proof.
  split; [vc|]. split; [vc|]. split; [vc|]. split; [vc|]. split; [vc|].
  split; [priv|]. split; [in_list|]. eexists. split; [vc|]. split; [in_list|vc].
Qed.

Lemma f17b_let_refuted :
  exists prog e',
    unique_fns prog = true /\ pub_use_safe prog = true /\ src_prog prog = true /\ mod_lets_apart prog = false
    /\ convert_program [] prog = (e', [])
    /\ private_fn prog ["m"] "hidden"
    /\ In ([], "a", EApp (EVar ["hidden"]) []) (let_decls prog)
    /\ In (SLet [["a"]] (EApp (EVar ["m"; "hidden"]) [])) (chain_stmts e')
    /\ unbound [] e' = [] /\ run_dsp 10 e' = Some (VNum 7).
Proof.
  exists prog_f17b_let. eexists.
  split; [vc|]. split; [vc|]. split; [vc|]. split; [vc|]. split; [vc|].
  split; [priv|]. split; [in_list|]. split; [in_list|]. split; vc.
Qed.

Lemma f17b_fn_refuted :
  exists prog e',
    unique_fns prog = true /\ pub_use_safe prog = true /\ src_prog prog = true /\ mod_lets_apart prog = false
    /\ convert_program [] prog = (e', [])
    /\ private_fn prog ["m"] "hidden"
    /\ In (mkDecl [] "a" false [] (EApp (EVar ["hidden"]) [])) (fn_decls prog)
    /\ In (SLetRec ["a"] (ELam [] (EApp (EVar ["m"; "hidden"]) []))) (chain_stmts e')
    /\ unbound [] e' = [] /\ run_dsp 10 e' = Some (VNum 7).
Proof.
  exists prog_f17b_fn. eexists.
  split; [vc|]. split; [vc|]. split; [vc|]. split; [vc|]. split; [vc|].
  split; [priv|]. split; [in_list|]. split; [in_list|]. split; vc.
Qed.

(* ---- the hypotheses of the positive theorems are satisfiable, with something to protect ---------------- *)
(* mod m { fn h(){ 7.0 }  pub fn f(){ h() }  mod k { pub fn g(){ m::h() } } }   use m::f   fn dsp(){ let z = | | 1.0;  f() } *)
Definition prog_ok : list item :=
  [IMod false "m" [IFn false "h" [] (EConst 7);
                   IFn true "f" [] (call (EVar ["h"]));
                   IMod true "k" [IFn true "g" [] (call (EQVar ["m"; "h"]))]];
   IUse false ["m"; "f"] USingle;
   IFn false "dsp" [] (ELet [["z"]] (ELam [] (EConst 1)) (Some (call (EVar ["f"]))))].

Lemma ok_satisfiable :
  unique_fns prog_ok = true /\ mod_lets_apart prog_ok = true /\ pub_use_safe prog_ok = true /\ src_prog prog_ok = true
  /\ no_pub_use prog_ok = true
  /\ private_fn prog_ok ["m"] "h"
  /\ (exists e', convert_program [] prog_ok = (e', []) /\ unbound [] e' = [] /\ run_dsp 20 e' = Some (VNum 7)).
Proof.
  split; [vc|]. split; [vc|]. split; [vc|]. split; [vc|]. split; [vc|].
  split; [priv|]. eexists. split; [vc|]. split; vc.
Qed.

(* the same tree with the private member referenced from outside is rejected (fixture module_visibility_fail) *)
Definition prog_rejected : list item :=
  [IMod false "m" [IFn false "h" [] (EConst 7)];
   IFn false "dsp" [] (call (EQVar ["m"; "h"]))].

Lemma rejected_example :
  unique_fns prog_rejected = true /\ mod_lets_apart prog_rejected = true /\ pub_use_safe prog_rejected = true
  /\ snd (convert_program [] prog_rejected) = [mkErr ["m"] "h"].
Proof.
  split; [vc|]. split; [vc|]. split; vc.
Qed.
