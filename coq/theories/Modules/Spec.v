(* Modules/Spec.v — the vocabulary of the C17 theorems: what the module tree declares, the restrictions under which
   privacy holds, positions inside expressions.  Definitions only (no model code, no lemmas). *)
From Coq Require Import List String Bool Arith NArith.
From Mimium Require Import Modules.Model.
Import ListNotations.

(* ---- what the tree declares ------------------------------------------------------------------------------- *)
Record fn_decl := mkDecl {
  d_mod : list ident;        (* path of the enclosing module, [] at top level *)
  d_name : ident;
  d_pub : bool;
  d_params : list ident;
  d_body : expr }.

Definition d_path (d : fn_decl) : sym := d_mod d ++ [d_name d].

Fixpoint fn_decls_item (prefix : list ident) (it : item) : list fn_decl :=
  match it with
  | IFn pub name params body => [mkDecl prefix name pub params body]
  | IMod _ name body => flat_map (fn_decls_item (prefix ++ [name])) body
  | ILet _ _ | IUse _ _ _ => []
  end.

Definition fn_decls_items (prefix : list ident) (l : list item) : list fn_decl := flat_map (fn_decls_item prefix) l.
Definition fn_decls (prog : list item) : list fn_decl := fn_decls_items [] prog.

(* `let` members: (module path, name, initialiser) *)
Fixpoint let_decls_item (prefix : list ident) (it : item) : list (list ident * ident * expr) :=
  match it with
  | ILet name body => [(prefix, name, body)]
  | IMod _ name body => flat_map (let_decls_item (prefix ++ [name])) body
  | IFn _ _ _ _ | IUse _ _ _ => []
  end.
Definition let_decls (prog : list item) : list (list ident * ident * expr) := flat_map (let_decls_item []) prog.

(* nested modules: (path of the module, declared pub) *)
Fixpoint mod_decls_item (prefix : list ident) (it : item) : list (list ident * bool) :=
  match it with
  | IMod pub name body => (prefix ++ [name], pub) :: flat_map (mod_decls_item (prefix ++ [name])) body
  | _ => []
  end.
Definition mod_decls (prog : list item) : list (list ident * bool) := flat_map (mod_decls_item []) prog.

(* n is a function member of module M (M <> []) that is not declared `pub` *)
Definition private_fn (prog : list item) (M : list ident) (n : ident) : Prop :=
  M <> [] /\ exists d, In d (fn_decls prog) /\ d_mod d = M /\ d_name d = n /\ d_pub d = false.

Definition is_private_member (prog : list item) (s : sym) : bool :=
  existsb (fun d => sym_eqb (d_path d) s && negb (d_pub d) && nonempty (d_mod d)) (fn_decls prog).

(* the reference sits inside module M (or one of its descendants) *)
Definition inside (M cmc : list ident) : Prop := exists r, cmc = M ++ r.

(* ---- restrictions (decidable predicates on the module tree) ------------------------------------------------ *)
Fixpoint nodup_syms (l : list sym) : bool :=
  match l with [] => true | x :: r => negb (mem x r) && nodup_syms r end.

(* no two function declarations get the same mangled name *)
Definition unique_fns (prog : list item) : bool := nodup_syms (map d_path (fn_decls prog)).

(* no `let` statement inside a module (the crude form of mod_lets_apart below) *)
Fixpoint no_let_item (it : item) : bool :=
  match it with
  | ILet _ _ => false
  | IMod _ _ body => forallb no_let_item body
  | IFn _ _ _ _ | IUse _ _ _ => true
  end.
Definition top_no_mod_let (it : item) : bool :=
  match it with IMod _ _ body => forallb no_let_item body | _ => true end.
Definition no_mod_let (prog : list item) : bool := forallb top_no_mod_let prog.

(* the names convert_expr looks up in module_context_map while it converts e: `let` patterns and `letrec` names *)
Fixpoint ctx_binders (e : expr) : list sym :=
  match e with
  | ELet pat e1 e2 => pat ++ ctx_binders e1 ++ match e2 with Some t => ctx_binders t | None => [] end
  | ELetRec f e1 e2 => f :: ctx_binders e1 ++ match e2 with Some t => ctx_binders t | None => [] end
  | ELam _ b => ctx_binders b
  | EApp f args => ctx_binders f ++ flat_map ctx_binders args
  | EThen e1 e2 => ctx_binders e1 ++ match e2 with Some t => ctx_binders t | None => [] end
  | EConst _ | EErr | EVar _ | EQVar _ => []
  end.

(* the `let`s written inside a module, and their names (module_context_map is keyed by these BARE names) *)
Definition mod_let_decls (prog : list item) : list (list ident * ident * expr) :=
  filter (fun d => nonempty (fst (fst d))) (let_decls prog).
Definition mod_let_names (prog : list item) : list sym := map (fun d => [snd (fst d)]) (mod_let_decls prog).

(* every other name the resolution pass looks up in module_context_map by a bare name: top-level functions and
   `let`s, and the `let` / `letrec` binders inside all function bodies and initialisers *)
Definition other_binders (prog : list item) : list sym :=
  flat_map (fun d => (if nonempty (d_mod d) then [] else [[d_name d]]) ++ ctx_binders (d_body d)) (fn_decls prog)
  ++ flat_map (fun d => (if nonempty (fst (fst d)) then [] else [[snd (fst d)]]) ++ ctx_binders (snd d)) (let_decls prog).

(* the name of a `let` written inside a module is bound nowhere else in the program: not by a second module `let`,
   not by a top-level `let` or function, not by a `let` / `letrec` inside a body or initialiser (what is left of
   finding F17b; no_mod_let implies it) *)
Definition mod_lets_apart (prog : list item) : bool :=
  nodup_syms (mod_let_names prog) && forallb (fun x => negb (mem x (mod_let_names prog))) (other_binders prog).

(* no `use` statement makes a private member public or re-exports one (finding F9): no key of the alias map is
   the name of a private module member, and no multi-segment key (these are the names exported by `pub use`
   inside a module) leads through the alias chain to one *)
Definition pub_use_safe (prog : list item) : bool :=
  let mi := snd (flatten prog) in
  forallb (fun kv =>
             negb (is_private_member prog (fst kv))
             && ((List.length (fst kv) <? 2) || negb (is_private_member prog (resolve_alias_chain mi (fst kv)))))
          (use_alias_map mi).

(* every binder written in a function body or initialiser is a plain identifier (true of parsed source) *)
Fixpoint src_expr (e : expr) : bool :=
  match e with
  | EConst _ | EErr => true
  | EVar x => List.length x =? 1
  | EQVar p => 2 <=? List.length p
  | ELet pat e1 e2 =>
      forallb (fun x => List.length x =? 1) pat && src_expr e1 && match e2 with Some t => src_expr t | None => true end
  | ELetRec f e1 e2 => (List.length f =? 1) && src_expr e1 && match e2 with Some t => src_expr t | None => true end
  | ELam ps b => forallb (fun x => List.length x =? 1) ps && src_expr b
  | EApp f args => src_expr f && forallb src_expr args
  | EThen e1 e2 => src_expr e1 && match e2 with Some t => src_expr t | None => true end
  end.

Fixpoint src_item (it : item) : bool :=
  match it with
  | IFn _ _ _ body => src_expr body
  | ILet _ body => src_expr body
  | IMod _ _ body => forallb src_item body
  | IUse _ _ _ => true
  end.
Definition src_prog (prog : list item) : bool := forallb src_item prog.

(* ---- positions ------------------------------------------------------------------------------------------------ *)
Definition children (e : expr) : list expr :=
  match e with
  | ELet _ e1 e2 | ELetRec _ e1 e2 | EThen e1 e2 => e1 :: match e2 with Some t => [t] | None => [] end
  | ELam _ b => [b]
  | EApp f args => f :: args
  | EConst _ | EErr | EVar _ | EQVar _ => []
  end.

Fixpoint subexpr_at (e : expr) (p : list nat) : option expr :=
  match p with
  | [] => Some e
  | i :: p' => match nth_error (children e) i with Some c => subexpr_at c p' | None => None end
  end.

(* the binders in whose scope position p of e lies (lexical scoping: a `let` binds in its continuation, a
   `letrec` in its body and continuation, a lambda in its body) *)
Definition binders_step (e : expr) (i : nat) : list sym :=
  match e with
  | ELetRec f _ _ => [f]
  | ELet pat _ _ => match i with O => [] | S _ => pat end
  | ELam ps _ => ps
  | _ => []
  end.

Fixpoint binders_at (e : expr) (p : list nat) : list sym :=
  match p with
  | [] => []
  | i :: p' => match nth_error (children e) i with
               | Some c => binders_step e i ++ binders_at c p'
               | None => []
               end
  end.

(* the statements of a converted let-chain *)
Fixpoint chain_stmts (e : expr) : list stmt :=
  match e with
  | ELet pat e1 e2 => SLet pat e1 :: match e2 with Some t => chain_stmts t | None => [] end
  | ELetRec f e1 e2 => SLetRec f e1 :: match e2 with Some t => chain_stmts t | None => [] end
  | _ => []
  end.

(* "absolute first, then relative to the current module": the symbol a qualified path denotes *)
Definition denoted (defined : sym -> Prop) (cmc segs : list ident) (s : sym) : Prop :=
  (defined segs /\ s = segs)
  \/ (~ defined segs /\ cmc <> [] /\ defined (cmc ++ segs) /\ s = cmc ++ segs)
  \/ (~ defined segs /\ ~ (cmc <> [] /\ defined (cmc ++ segs)) /\ s = segs).

(* the statements a tree flattens to (they do not depend on ModuleInfo) *)
Fixpoint stmts_item (prefix : list ident) (it : item) : list stmt :=
  match it with
  | IFn _ name params body => [SLetRec (prefix ++ [name]) (ELam (map (fun p => [p]) params) body)]
  | ILet name body => [SLet [[name]] body]
  | IMod _ name body => flat_map (stmts_item (prefix ++ [name])) body
  | IUse _ _ _ => []
  end.
Definition stmts_items (prefix : list ident) (l : list item) : list stmt := flat_map (stmts_item prefix) l.
