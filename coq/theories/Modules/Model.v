(* Modules/Model.v — executable model of mimium's module flattening and name resolution (property C17).

   Transcribed from
     crates/lib/mimium-lang/src/ast/program.rs                              (flattening, ModuleInfo, resolve_qualified_path)
     crates/lib/mimium-lang/src/ast/statement.rs                            (into_then_expr)
     crates/lib/mimium-lang/src/compiler/mirgen/convert_qualified_names.rs  (pass 1 + pass 2)
   Definitions only; lemmas live in Modules/*.v, theorems in Props/C17.v.

   Representation of `Symbol`s.  Source identifiers never contain '$' (tokenizer: chumsky `text::ident`), and every
   symbol the two passes build is a '$'-join of source identifiers.  A symbol is therefore modelled by the list of its
   '$'-free segments (`sym`); `a$b$c` is [a;b;c] and a plain identifier x is [x].  String concatenation with "$"
   becomes list append, `split('$')` becomes the identity.  Modules/Mangle.v proves that the join is injective on
   '$'-free segments, i.e. that this representation loses nothing.

   Not modelled (residue): external file modules (`mod foo;` / the file loaded by `use foo::..` for an undeclared
   `foo` — only the fact that a load is attempted is recorded), type aliases / type declarations, stages and macros,
   the operator-intrinsic marker namespace `__mimium_op_intrinsic::op` produced by convert_operators, match arms,
   tuple/record/array/field/if/binop nodes (all of them are converted homomorphically like `EApp`). *)
From Coq Require Import List String Bool Arith NArith.
Import ListNotations.

Definition ident := string.
Definition sym := list ident.

Fixpoint sym_eqb (a b : sym) : bool :=
  match a, b with
  | [], [] => true
  | x :: a', y :: b' => String.eqb x y && sym_eqb a' b'
  | _, _ => false
  end.

Definition mem (s : sym) (l : list sym) : bool := existsb (sym_eqb s) l.

(* HashMap<Symbol, A>: association list, `insert` = cons, `get` = first hit (the latest insert wins) *)
Fixpoint assoc {A : Type} (k : sym) (m : list (sym * A)) : option A :=
  match m with
  | [] => None
  | (k', v) :: r => if sym_eqb k k' then Some v else assoc k r
  end.

Definition has_key {A : Type} (k : sym) (m : list (sym * A)) : bool :=
  match assoc k m with Some _ => true | None => false end.

Definition nonempty {A : Type} (l : list A) : bool := match l with [] => false | _ => true end.

(* ------------------------------------------------------------------------------------------------------------ *)
(* AST (the part of `Expr` that the resolution pass treats non-homomorphically, plus application)              *)
(* ------------------------------------------------------------------------------------------------------------ *)
Inductive expr :=
| EConst (c : N)                                            (* Expr::Literal *)
| EErr                                                      (* Expr::Error *)
| EVar (x : sym)                                            (* Expr::Var *)
| EQVar (p : list ident)                                    (* Expr::QualifiedVar *)
| ELet (pat : list sym) (e1 : expr) (e2 : option expr)      (* Expr::Let(pattern, body, then); pat = names bound by the pattern, in order *)
| ELetRec (f : sym) (e1 : expr) (e2 : option expr)          (* Expr::LetRec(id, body, then) *)
| ELam (ps : list sym) (b : expr)                           (* Expr::Lambda *)
| EApp (f : expr) (args : list expr)                        (* Expr::Apply (and every other homomorphic node) *)
| EThen (e1 : expr) (e2 : option expr).                     (* Expr::Then *)

(* program.rs UseTarget *)
Inductive use_target := USingle | UMultiple (names : list ident) | UWildcard.

(* program.rs ProgramStatement (inline modules only) *)
Inductive item :=
| IFn (pub : bool) (name : ident) (params : list ident) (body : expr)   (* FnDefinition *)
| ILet (name : ident) (body : expr)                                    (* GlobalStatement(Statement::Let(Single name, body)); `pub` is dropped by lower_let_decl *)
| IMod (pub : bool) (name : ident) (body : list item)                  (* ModuleDefinition { body: Some(..) } *)
| IUse (pub : bool) (path : list ident) (tgt : use_target).            (* UseStatement *)

(* ast::statement::Statement after flattening (DeclareStage(Main) wrappers are identities in into_then_expr) *)
Inductive stmt :=
| SLet (pat : list sym) (e : expr)
| SLetRec (f : sym) (e : expr).

(* program.rs ModuleInfo.  `ext_loads` is not a Rust field: it records the base modules for which
   resolve_external_module (a file load) is attempted by a `use` of an undeclared module. *)
Record module_info := mkMI {
  visibility_map : list (sym * bool);
  use_alias_map : list (sym * sym);
  module_context_map : list (sym * list ident);
  wildcard_imports : list sym;
  loaded_external_modules : list sym;
  ext_loads : list sym }.

Definition mi_empty : module_info := mkMI [] [] [] [] [] [].

Definition vis_insert (k : sym) (b : bool) (mi : module_info) : module_info :=
  mkMI ((k, b) :: visibility_map mi) (use_alias_map mi) (module_context_map mi) (wildcard_imports mi)
       (loaded_external_modules mi) (ext_loads mi).
Definition alias_insert (k v : sym) (mi : module_info) : module_info :=
  mkMI (visibility_map mi) ((k, v) :: use_alias_map mi) (module_context_map mi) (wildcard_imports mi)
       (loaded_external_modules mi) (ext_loads mi).
Definition ctx_insert (k : sym) (c : list ident) (mi : module_info) : module_info :=
  mkMI (visibility_map mi) (use_alias_map mi) ((k, c) :: module_context_map mi) (wildcard_imports mi)
       (loaded_external_modules mi) (ext_loads mi).
Definition wild_push (b : sym) (mi : module_info) : module_info :=
  mkMI (visibility_map mi) (use_alias_map mi) (module_context_map mi) (wildcard_imports mi ++ [b])
       (loaded_external_modules mi) (ext_loads mi).
Definition loaded_insert (m : sym) (mi : module_info) : module_info :=
  mkMI (visibility_map mi) (use_alias_map mi) (module_context_map mi) (wildcard_imports mi)
       (m :: loaded_external_modules mi) (ext_loads mi).
Definition ext_push (m : sym) (mi : module_info) : module_info :=
  mkMI (visibility_map mi) (use_alias_map mi) (module_context_map mi) (wildcard_imports mi)
       (loaded_external_modules mi) (ext_loads mi ++ [m]).

(* ------------------------------------------------------------------------------------------------------------ *)
(* program.rs                                                                                                   *)
(* ------------------------------------------------------------------------------------------------------------ *)

(* resolve_qualified_path: absolute first, then relative to the current module context.  The mangled name and
   the resolved path segments coincide in the path representation, so one component is returned. *)
Definition resolve_qualified_path (segs : list ident) (cmc : list ident) (exists_ : sym -> bool) : sym :=
  if exists_ segs then segs
  else if nonempty cmc && exists_ (cmc ++ segs) then cmc ++ segs
  else segs.

(* the `exists` closure of process_use_statement::resolve_use_mangled (type maps are empty in the model) *)
Definition use_exists (mi : module_info) (n : sym) : bool :=
  has_key n (visibility_map mi) || has_key n (use_alias_map mi) || has_key n (module_context_map mi).

Definition resolve_use_mangled (prefix : list ident) (mi : module_info) (segs : list ident) : sym :=
  resolve_qualified_path segs prefix (use_exists mi).

(* process_use_statement::register_alias *)
Definition register_alias (pub : bool) (prefix : list ident) (alias_name : ident) (mangled : sym)
           (mi : module_info) : module_info :=
  let mi1 := alias_insert [alias_name] mangled mi in
  if pub then
    let exported := prefix ++ [alias_name] in
    alias_insert exported mangled (vis_insert exported true mi1)
  else mi1.

(* process_use_statement *)
Definition process_use_statement (pub : bool) (path : list ident) (tgt : use_target) (prefix : list ident)
           (mi : module_info) : module_info :=
  match tgt with
  | USingle =>
      match path with
      | [] => mi
      | _ => register_alias pub prefix (last path EmptyString) (resolve_use_mangled prefix mi path) mi
      end
  | UMultiple names =>
      fold_left (fun mi name => register_alias pub prefix name (resolve_use_mangled prefix mi (path ++ [name])) mi)
                names mi
  | UWildcard => wild_push (match path with [] => prefix | _ => path end) mi
  end.

(* the UseStatement arm of stmts_from_program_with_prefix: a `use` whose first segment is neither a module
   declared so far (relative to the prefix or absolute) triggers resolve_external_module *)
Definition use_external_load (path : list ident) (prefix : list ident) (mi : module_info) : module_info :=
  match path with
  | [] => mi
  | base :: _ =>
      if mem (prefix ++ [base]) (loaded_external_modules mi) || mem [base] (loaded_external_modules mi) then mi
      else ext_push [base] (loaded_insert [base] mi)
  end.

(* stmts_from_program_with_prefix, one statement *)
Fixpoint flatten_item (prefix : list ident) (it : item) (mi : module_info) {struct it} : list stmt * module_info :=
  match it with
  | IFn pub name params body =>
      let mangled := prefix ++ [name] in
      let mi1 := vis_insert mangled pub mi in
      let mi2 := if nonempty prefix then ctx_insert mangled prefix mi1 else mi1 in
      ([SLetRec mangled (ELam (map (fun p => [p]) params) body)], mi2)
  | ILet name body =>
      let mi1 := if nonempty prefix then ctx_insert [name] prefix mi else mi in
      ([SLet [[name]] body], mi1)
  | IMod _ name body =>
      let new_prefix := prefix ++ [name] in
      (fix go (l : list item) (mi : module_info) {struct l} : list stmt * module_info :=
         match l with
         | [] => ([], mi)
         | x :: r =>
             let (s1, mi1) := flatten_item new_prefix x mi in
             let (s2, mi2) := go r mi1 in
             (s1 ++ s2, mi2)
         end) body (loaded_insert new_prefix mi)
  | IUse pub path tgt =>
      ([], process_use_statement pub path tgt prefix (use_external_load path prefix mi))
  end.

(* stmts_from_program_with_prefix, the loop *)
Fixpoint flatten_items (prefix : list ident) (l : list item) (mi : module_info) : list stmt * module_info :=
  match l with
  | [] => ([], mi)
  | x :: r =>
      let (s1, mi1) := flatten_item prefix x mi in
      let (s2, mi2) := flatten_items prefix r mi1 in
      (s1 ++ s2, mi2)
  end.

(* statement.rs into_then_expr (None when there is no statement: expr_from_program substitutes Expr::Error) *)
Fixpoint into_then_expr (l : list stmt) : option expr :=
  match l with
  | [] => None
  | SLet pat e :: r => Some (ELet pat e (into_then_expr r))
  | SLetRec f e :: r => Some (ELetRec f e (into_then_expr r))
  end.

Definition expr_from_stmts (l : list stmt) : expr :=
  match into_then_expr l with Some e => e | None => EErr end.

(* ------------------------------------------------------------------------------------------------------------ *)
(* convert_qualified_names.rs, pass 1                                                                           *)
(* ------------------------------------------------------------------------------------------------------------ *)
Definition opt_list {A B : Type} (f : A -> list B) (o : option A) : list B :=
  match o with Some a => f a | None => [] end.

(* collect_defined_names (a HashSet; here a list, membership is what matters) *)
Fixpoint collect_defined_names (e : expr) : list sym :=
  match e with
  | ELet pat body then_ => pat ++ collect_defined_names body ++ opt_list collect_defined_names then_
  | ELetRec f body then_ => f :: collect_defined_names body ++ opt_list collect_defined_names then_
  | ELam ps body => ps ++ collect_defined_names body
  | EApp f args => collect_defined_names f ++ flat_map collect_defined_names args
  | EThen e1 then_ => collect_defined_names e1 ++ opt_list collect_defined_names then_
  | EVar _ | EQVar _ | EConst _ | EErr => []
  end.

(* ------------------------------------------------------------------------------------------------------------ *)
(* convert_qualified_names.rs, pass 2                                                                           *)
(* ------------------------------------------------------------------------------------------------------------ *)

(* Error::PrivateMemberAccess { module_path, member } *)
Record perr := mkErr { pe_module : list ident; pe_member : ident }.

(* ResolveContext::is_locally_bound *)
Definition is_locally_bound (locals : list (list sym)) (name : sym) : bool :=
  existsb (fun scope => mem name scope) locals.

(* ResolveContext::is_within_module_hierarchy *)
Fixpoint starts_with (l p : list ident) {struct p} : bool :=
  match p, l with
  | [], _ => true
  | x :: p', y :: l' => String.eqb x y && starts_with l' p'
  | _ :: _, [] => false
  end.

Definition is_within_module_hierarchy (cmc : list ident) (resolved_path : list ident) : bool :=
  if negb (nonempty cmc) || (List.length resolved_path <? 2) then false
  else starts_with cmc (removelast resolved_path).

(* ResolveContext::resolve_through_wildcards *)
Fixpoint resolve_through_wildcards_go (vis : list (sym * bool)) (known : list sym) (bases : list sym) (name : sym)
  : option sym :=
  match bases with
  | [] => None
  | base :: r =>
      let mangled := base ++ name in
      if mem mangled known then
        match assoc mangled vis with
        | Some true => Some mangled
        | Some false => resolve_through_wildcards_go vis known r name
        | None => Some mangled
        end
      else resolve_through_wildcards_go vis known r name
  end.

Definition resolve_through_wildcards (mi : module_info) (known : list sym) (name : sym) : option sym :=
  resolve_through_wildcards_go (visibility_map mi) known (wildcard_imports mi) name.

(* resolve_alias_chain: `while visited.insert(current) { match get(current) { Some(next) if next != current => current = next, _ => break } }`
   The loop runs at most once per distinct key of the map plus once; fuel = S (List.length map) is never exhausted
   (Modules/Resolve.v alias_chain_fuel). *)
Fixpoint alias_chain_go (fuel : nat) (m : list (sym * sym)) (visited : list sym) (current : sym) : sym :=
  match fuel with
  | O => current
  | S fuel' =>
      if mem current visited then current
      else match assoc current m with
           | Some next => if sym_eqb next current then current else alias_chain_go fuel' m (current :: visited) next
           | None => current
           end
  end.

Definition resolve_alias_chain (mi : module_info) (s : sym) : sym :=
  alias_chain_go (S (List.length (use_alias_map mi))) (use_alias_map mi) [] s.

(* the relative candidates of convert_var: prefixes of the current module context, longest first *)
Fixpoint relative_candidates (k : nat) (cmc : list ident) (name : sym) : list sym :=
  match k with
  | O => []
  | S k' => (firstn k cmc ++ name) :: relative_candidates k' cmc name
  end.

(* convert_var *)
Definition convert_var (mi : module_info) (known : list sym) (cmc : list ident) (locals : list (list sym))
           (name : sym) : sym * list perr :=
  if is_locally_bound locals name then (name, [])
  else
    match (if nonempty cmc then find (fun r => mem r known) (relative_candidates (List.length cmc) cmc name) else None) with
    | Some relative_mangled => (relative_mangled, [])
    | None =>
        if has_key name (use_alias_map mi) then
          let mangled_name := resolve_alias_chain mi name in
          let errs :=
            match assoc mangled_name (visibility_map mi) with
            | Some is_public =>
                if negb is_public && negb (is_within_module_hierarchy cmc mangled_name)
                then [mkErr (removelast mangled_name) (last mangled_name EmptyString)] else []
            | None => []
            end in
          (mangled_name, errs)
        else
          match resolve_through_wildcards mi known name with
          | Some mangled => (mangled, [])
          | None => (name, [])
          end
    end.

(* convert_qualified_var (without the operator-intrinsic marker case) *)
Definition convert_qualified_var (mi : module_info) (known : list sym) (cmc : list ident) (segs : list ident)
  : sym * list perr :=
  let resolved := resolve_qualified_path segs cmc (fun n => mem n known) in
  let lookup_name := resolve_alias_chain mi resolved in
  let errs :=
    if 1 <? List.length resolved then
      match assoc resolved (visibility_map mi) with
      | Some is_public =>
          if negb is_public && negb (is_within_module_hierarchy cmc resolved)
          then [mkErr (removelast resolved) (last resolved EmptyString)] else []
      | None => []
      end
    else [] in
  (lookup_name, errs).

(* find_pattern_module_context *)
Fixpoint find_pattern_module_context (mi : module_info) (pat : list sym) : option (list ident) :=
  match pat with
  | [] => None
  | n :: r => match assoc n (module_context_map mi) with Some c => Some c | None => find_pattern_module_context mi r end
  end.

(* convert_expr; `cmc` = ctx.current_module_context, `locals` = ctx.local_bindings (innermost scope first),
   the second component = the errors pushed while converting, in order *)
Fixpoint convert_expr (mi : module_info) (known : list sym) (cmc : list ident) (locals : list (list sym))
         (e : expr) {struct e} : expr * list perr :=
  match e with
  | EVar name => let (s, er) := convert_var mi known cmc locals name in (EVar s, er)
  | EQVar segs => let (s, er) := convert_qualified_var mi known cmc segs in (EVar s, er)
  | ELetRec name body then_ =>
      let locals1 := [name] :: locals in
      let cmc_body := match assoc name (module_context_map mi) with Some c => c | None => [] end in
      let (b', er1) := convert_expr mi known cmc_body locals1 body in
      match then_ with
      | Some t => let (t', er2) := convert_expr mi known cmc locals1 t in (ELetRec name b' (Some t'), er1 ++ er2)
      | None => (ELetRec name b' None, er1)
      end
  | ELet pat body then_ =>
      (* only the initialiser is converted in the module context of the pattern; the context is restored
         (`ctx.current_module_context = prev_context`) before the continuation is converted, as for LetRec *)
      let cmc1 := match find_pattern_module_context mi pat with Some c => c | None => cmc end in
      let (b', er1) := convert_expr mi known cmc1 locals body in
      match then_ with
      | Some t => let (t', er2) := convert_expr mi known cmc (pat :: locals) t in (ELet pat b' (Some t'), er1 ++ er2)
      | None => (ELet pat b' None, er1)
      end
  | ELam ps body =>
      let (b', er1) := convert_expr mi known cmc (ps :: locals) body in (ELam ps b', er1)
  | EApp f args =>
      let (f', er1) := convert_expr mi known cmc locals f in
      let rs := map (convert_expr mi known cmc locals) args in
      (EApp f' (map fst rs), er1 ++ List.concat (map snd rs))
  | EThen e1 then_ =>
      let (a', er1) := convert_expr mi known cmc locals e1 in
      match then_ with
      | Some t => let (t', er2) := convert_expr mi known cmc locals t in (EThen a' (Some t'), er1 ++ er2)
      | None => (EThen a' None, er1)
      end
  | EConst _ | EErr => (e, [])
  end.

(* the whole front half: expr_from_program, then convert_qualified_names with the given builtin names *)
Definition flatten (prog : list item) : list stmt * module_info := flatten_items [] prog mi_empty.

Definition known_names (builtins : list sym) (e : expr) : list sym := builtins ++ collect_defined_names e.

Definition convert_program (builtins : list sym) (prog : list item) : expr * list perr :=
  let (stmts, mi) := flatten prog in
  let e := expr_from_stmts stmts in
  convert_expr mi (known_names builtins e) [] [] e.

(* ------------------------------------------------------------------------------------------------------------ *)
(* What happens to the rewritten names afterwards (used by the correspondence only, no theorem depends on it):  *)
(* typing.rs `lookup` is plain lexical scoping over the let-chain — a name that is not bound at that point is   *)
(* VariableNotFound — and the VM evaluates the chain.                                                           *)
(* ------------------------------------------------------------------------------------------------------------ *)
Fixpoint unbound (bound : list sym) (e : expr) : list sym :=
  match e with
  | EVar x => if mem x bound then [] else [x]
  | EQVar p => [p]
  | ELet pat body then_ => unbound bound body ++ opt_list (unbound (pat ++ bound)) then_
  | ELetRec f body then_ => unbound (f :: bound) body ++ opt_list (unbound (f :: bound)) then_
  | ELam ps body => unbound (ps ++ bound) body
  | EApp f args => unbound bound f ++ flat_map (unbound bound) args
  | EThen e1 then_ => unbound bound e1 ++ opt_list (unbound bound) then_
  | EConst _ | EErr => []
  end.

Inductive value :=
| VNum (n : N)
| VClos (self : option sym) (ps : list sym) (body : expr) (env : list (sym * value)).

Fixpoint zip_env (ps : list sym) (vs : list value) (env : list (sym * value)) : list (sym * value) :=
  match ps, vs with
  | p :: ps', v :: vs' => (p, v) :: zip_env ps' vs' env
  | _, _ => env
  end.

Fixpoint eval (fuel : nat) (env : list (sym * value)) (e : expr) {struct fuel} : option value :=
  match fuel with
  | O => None
  | S fuel' =>
      match e with
      | EConst c => Some (VNum c)
      | EErr | EQVar _ => None
      | EVar x => assoc x env
      | ELam ps b => Some (VClos None ps b env)
      | ELet [x] e1 (Some e2) =>
          match eval fuel' env e1 with Some v => eval fuel' ((x, v) :: env) e2 | None => None end
      | ELet _ _ _ => None
      | ELetRec f (ELam ps b) (Some e2) => eval fuel' ((f, VClos (Some f) ps b env) :: env) e2
      | ELetRec _ _ _ => None
      | EThen e1 (Some e2) => match eval fuel' env e1 with Some _ => eval fuel' env e2 | None => None end
      | EThen e1 None => eval fuel' env e1
      | EApp f args =>
          match eval fuel' env f with
          | Some (VClos self ps b cenv) =>
              let vs := map (eval fuel' env) args in
              if forallb (fun o => match o with Some _ => true | None => false end) vs then
                let vals := flat_map (fun o => match o with Some v => [v] | None => [] end) vs in
                let cenv1 := match self with Some f => (f, VClos self ps b cenv) :: cenv | None => cenv end in
                eval fuel' (zip_env ps vals cenv1) b
              else None
          | _ => None
          end
      end
  end.

(* run the global chain, then call `dsp()` *)
Fixpoint with_tail (e : expr) (k : expr) : expr :=
  match e with
  | ELet pat e1 (Some t) => ELet pat e1 (Some (with_tail t k))
  | ELet pat e1 None => ELet pat e1 (Some k)
  | ELetRec f e1 (Some t) => ELetRec f e1 (Some (with_tail t k))
  | ELetRec f e1 None => ELetRec f e1 (Some k)
  | _ => e
  end.

Definition run_dsp (fuel : nat) (e : expr) : option value :=
  eval fuel [] (with_tail e (EApp (EVar ["dsp"%string]) [])).

(* the name the tail reference of the function `.. $prb` was rewritten to (what the harness prints) *)
Fixpoint tail_of (fuel : nat) (e : expr) : expr :=
  match fuel with
  | O => e
  | S fuel' =>
      match e with
      | ELam _ b => tail_of fuel' b
      | ELet _ _ (Some t) | ELetRec _ _ (Some t) | EThen _ (Some t) => tail_of fuel' t
      | _ => e
      end
  end.

Fixpoint ref_name (fuel : nat) (e : expr) : option sym :=
  match fuel with
  | O => None
  | S fuel' =>
      match tail_of fuel e with
      | EVar n => Some n
      | EApp f _ => ref_name fuel' f
      | _ => None
      end
  end.

Fixpoint find_probe (e : expr) : option expr :=
  match e with
  | ELetRec f body then_ =>
      if String.eqb (last f EmptyString) "prb" then Some body
      else match then_ with Some t => find_probe t | None => None end
  | ELet _ _ (Some t) | EThen _ (Some t) => find_probe t
  | _ => None
  end.

Definition probe_ref (e : expr) : option sym :=
  match find_probe e with Some b => ref_name 64 b | None => None end.
