(* Modules/Convert.v — convert_expr: what happens at a position of an expression, and along the let-chain. *)
From Coq Require Import List String Bool Arith Lia.
From Mimium Require Import Modules.Model Modules.Spec Modules.Basics Modules.Resolve Modules.Flatten.
Import ListNotations.

(* the module context and scope stack with which convert_expr converts child i of e *)
Definition ctx_step (mi : module_info) (cmc : list ident) (locals : list (list sym)) (e : expr) (i : nat)
  : list ident * list (list sym) :=
  match e with
  | ELetRec name _ _ =>
      match i with
      | O => (match assoc name (module_context_map mi) with Some c => c | None => [] end, [name] :: locals)
      | S _ => (cmc, [name] :: locals)
      end
  | ELet pat _ _ =>
      let cmc1 := match find_pattern_module_context mi pat with Some c => c | None => cmc end in
      match i with O => (cmc1, locals) | S _ => (cmc, pat :: locals) end
  | ELam ps _ => (cmc, ps :: locals)
  | _ => (cmc, locals)
  end.

Fixpoint ctx_at (mi : module_info) (cmc : list ident) (locals : list (list sym)) (e : expr) (p : list nat)
  : list ident * list (list sym) :=
  match p with
  | [] => (cmc, locals)
  | i :: p' =>
      match nth_error (children e) i with
      | Some c => ctx_at mi (fst (ctx_step mi cmc locals e i)) (snd (ctx_step mi cmc locals e i)) c p'
      | None => (cmc, locals)
      end
  end.

Lemma incl_app_l : forall A (a b : list A), incl a (a ++ b).
Proof. intros A a b x H. apply in_or_app. left. exact H. Qed.
Lemma incl_app_r : forall A (a b : list A), incl b (a ++ b).
Proof. intros A a b x H. apply in_or_app. right. exact H. Qed.

Lemma convert_child : forall mi known e cmc locals e' errs i c,
    convert_expr mi known cmc locals e = (e', errs) ->
    nth_error (children e) i = Some c ->
    exists c' errs',
      convert_expr mi known (fst (ctx_step mi cmc locals e i)) (snd (ctx_step mi cmc locals e i)) c = (c', errs')
      /\ nth_error (children e') i = Some c' /\ incl errs' errs.
Proof.
  intros mi known e cmc locals e' errs i c H Hc.
  destruct e as [n| |x|p|pat e1 e2|f e1 e2|ps b|f args|e1 e2]; cbn [children] in Hc;
    try (destruct i; discriminate).
  - (* ELet *)
    cbn [convert_expr] in H. cbn [ctx_step].
    set (cmc1 := match find_pattern_module_context mi pat with Some c0 => c0 | None => cmc end) in *.
    destruct (convert_expr mi known cmc1 locals e1) as [b' er1] eqn:E1.
    destruct e2 as [t|].
    + destruct (convert_expr mi known cmc (pat :: locals) t) as [t' er2] eqn:E2. inversion H; subst. clear H.
      destruct i as [|[|i]]; cbn in Hc; inversion Hc; subst; cbn [fst snd].
      * exists b', er1. repeat split; auto. apply incl_app_l.
      * exists t', er2. repeat split; auto. apply incl_app_r.
      * destruct i; discriminate.
    + inversion H; subst. clear H. destruct i as [|i]; cbn in Hc; [|destruct i; discriminate].
      inversion Hc; subst. exists b', errs. repeat split; auto. apply incl_refl.
  - (* ELetRec *)
    cbn [convert_expr] in H. cbn [ctx_step].
    set (cmcb := match assoc f (module_context_map mi) with Some c0 => c0 | None => [] end) in *.
    destruct (convert_expr mi known cmcb ([f] :: locals) e1) as [b' er1] eqn:E1.
    destruct e2 as [t|].
    + destruct (convert_expr mi known cmc ([f] :: locals) t) as [t' er2] eqn:E2. inversion H; subst. clear H.
      destruct i as [|[|i]]; cbn in Hc; inversion Hc; subst; cbn [fst snd].
      * exists b', er1. repeat split; auto. apply incl_app_l.
      * exists t', er2. repeat split; auto. apply incl_app_r.
      * destruct i; discriminate.
    + inversion H; subst. clear H. destruct i as [|i]; cbn in Hc; [|destruct i; discriminate].
      inversion Hc; subst. exists b', errs. repeat split; auto. apply incl_refl.
  - (* ELam *)
    cbn [convert_expr] in H. cbn [ctx_step fst snd].
    destruct (convert_expr mi known cmc (ps :: locals) b) as [b' er1] eqn:E1. inversion H; subst. clear H.
    destruct i as [|i]; cbn in Hc; [|destruct i; discriminate]. inversion Hc; subst.
    exists b', errs. repeat split; auto. apply incl_refl.
  - (* EApp *)
    cbn [convert_expr] in H. cbn [ctx_step fst snd].
    destruct (convert_expr mi known cmc locals f) as [f' er1] eqn:E1. inversion H; subst. clear H.
    destruct i as [|i]; cbn in Hc.
    + inversion Hc; subst. exists f', er1. repeat split; auto. apply incl_app_l.
    + destruct (convert_expr mi known cmc locals c) as [c' erc] eqn:Ec.
      exists c', erc. split; [reflexivity|]. split.
      * cbn [children nth_error]. rewrite map_map.
        erewrite map_nth_error; [|exact Hc]. rewrite Ec. reflexivity.
      * intros x Hx. apply in_or_app. right. apply in_concat. exists erc. split; auto.
        rewrite map_map. apply in_map_iff. exists c. rewrite Ec. split; auto. eapply nth_error_In. exact Hc.
  - (* EThen *)
    cbn [convert_expr] in H. cbn [ctx_step fst snd].
    destruct (convert_expr mi known cmc locals e1) as [a' er1] eqn:E1.
    destruct e2 as [t|].
    + destruct (convert_expr mi known cmc locals t) as [t' er2] eqn:E2. inversion H; subst. clear H.
      destruct i as [|[|i]]; cbn in Hc; inversion Hc; subst.
      * exists a', er1. repeat split; auto. apply incl_app_l.
      * exists t', er2. repeat split; auto. apply incl_app_r.
      * destruct i; discriminate.
    + inversion H; subst. clear H. destruct i as [|i]; cbn in Hc; [|destruct i; discriminate].
      inversion Hc; subst. exists a', errs. repeat split; auto. apply incl_refl.
Qed.

(* converting e converts the sub-expression at p with the context ctx_at computes; its errors are among e's *)
Lemma convert_at : forall mi known p e cmc locals e' errs sub,
    convert_expr mi known cmc locals e = (e', errs) ->
    subexpr_at e p = Some sub ->
    exists sub' errs',
      convert_expr mi known (fst (ctx_at mi cmc locals e p)) (snd (ctx_at mi cmc locals e p)) sub = (sub', errs')
      /\ subexpr_at e' p = Some sub' /\ incl errs' errs.
Proof.
  intros mi known p. induction p as [|i p IH]; intros e cmc locals e' errs sub H Hs.
  - cbn in Hs. inversion Hs; subst. exists e', errs. cbn. repeat split; auto. apply incl_refl.
  - cbn [subexpr_at] in Hs. destruct (nth_error (children e) i) as [c|] eqn:Hc; [|discriminate].
    destruct (convert_child _ _ _ _ _ _ _ _ _ H Hc) as [c' [ec [Hcc [Hn Hi]]]].
    destruct (IH _ _ _ _ _ _ Hcc Hs) as [sub' [es [H1 [H2 H3]]]].
    exists sub', es. cbn [ctx_at subexpr_at]. rewrite Hc, Hn. repeat split; auto.
    intros x Hx. apply Hi. apply H3. exact Hx.
Qed.

(* ---- source expressions ------------------------------------------------------------------------------------------ *)
Lemma src_child : forall e i c, src_expr e = true -> nth_error (children e) i = Some c -> src_expr c = true.
Proof.
  intros e i c Hs Hc.
  destruct e as [n| |x|p|pat e1 e2|f e1 e2|ps b|f args|e1 e2]; cbn [children] in Hc; cbn [src_expr] in Hs;
    try (destruct i; discriminate).
  - apply andb_true_iff in Hs. destruct Hs as [Hs H2]. apply andb_true_iff in Hs. destruct Hs as [_ H1].
    destruct i as [|i]; cbn in Hc. inversion Hc; subst; auto.
    destruct e2 as [t|]; [|destruct i; discriminate]. destruct i; cbn in Hc; [|destruct i; discriminate]. inversion Hc; subst; auto.
  - apply andb_true_iff in Hs. destruct Hs as [Hs H2]. apply andb_true_iff in Hs. destruct Hs as [_ H1].
    destruct i as [|i]; cbn in Hc. inversion Hc; subst; auto.
    destruct e2 as [t|]; [|destruct i; discriminate]. destruct i; cbn in Hc; [|destruct i; discriminate]. inversion Hc; subst; auto.
  - apply andb_true_iff in Hs. destruct Hs as [_ H1].
    destruct i as [|i]; cbn in Hc; [|destruct i; discriminate]. inversion Hc; subst; auto.
  - apply andb_true_iff in Hs. destruct Hs as [H1 H2].
    destruct i as [|i]; cbn in Hc. inversion Hc; subst; auto.
    rewrite forallb_forall in H2. apply H2. eapply nth_error_In. exact Hc.
  - apply andb_true_iff in Hs. destruct Hs as [H1 H2].
    destruct i as [|i]; cbn in Hc. inversion Hc; subst; auto.
    destruct e2 as [t|]; [|destruct i; discriminate]. destruct i; cbn in Hc; [|destruct i; discriminate]. inversion Hc; subst; auto.
Qed.

Lemma src_subexpr : forall p e sub, src_expr e = true -> subexpr_at e p = Some sub -> src_expr sub = true.
Proof.
  induction p as [|i p IH]; intros e sub Hs H; cbn [subexpr_at] in H.
  - inversion H; subst; auto.
  - destruct (nth_error (children e) i) as [c|] eqn:Hc; [|discriminate]. eapply IH; [|exact H]. eapply src_child; eauto.
Qed.

(* no binder of e (`let` pattern, `letrec` name) has an entry in module_context_map *)
Definition ctx_free (mi : module_info) (e : expr) : Prop :=
  forall x, In x (ctx_binders e) -> assoc x (module_context_map mi) = None.

Lemma ctx_binders_child : forall e i c x, nth_error (children e) i = Some c -> In x (ctx_binders c) -> In x (ctx_binders e).
Proof.
  intros e i c x Hc Hx.
  destruct e as [n| |y|p|pat e1 e2|f e1 e2|ps b|f args|e1 e2]; cbn [children] in Hc; cbn [ctx_binders];
    try (destruct i; discriminate).
  - apply in_or_app. right. apply in_or_app. destruct i as [|i]; cbn in Hc. inversion Hc; subst; auto.
    destruct e2 as [t|]; [|destruct i; discriminate]. destruct i; cbn in Hc; [|destruct i; discriminate]. inversion Hc; subst; auto.
  - right. apply in_or_app. destruct i as [|i]; cbn in Hc. inversion Hc; subst; auto.
    destruct e2 as [t|]; [|destruct i; discriminate]. destruct i; cbn in Hc; [|destruct i; discriminate]. inversion Hc; subst; auto.
  - destruct i as [|i]; cbn in Hc; [|destruct i; discriminate]. inversion Hc; subst; auto.
  - apply in_or_app. destruct i as [|i]; cbn in Hc. inversion Hc; subst; auto.
    right. apply in_flat_map. exists c. split; auto. eapply nth_error_In. exact Hc.
  - apply in_or_app. destruct i as [|i]; cbn in Hc. inversion Hc; subst; auto.
    destruct e2 as [t|]; [|destruct i; discriminate]. destruct i; cbn in Hc; [|destruct i; discriminate]. inversion Hc; subst; auto.
Qed.

Lemma ctx_free_child : forall mi e i c, ctx_free mi e -> nth_error (children e) i = Some c -> ctx_free mi c.
Proof. intros mi e i c H Hc x Hx. apply H. eapply ctx_binders_child; eauto. Qed.

Lemma find_pattern_free : forall mi pat,
    (forall x, In x pat -> assoc x (module_context_map mi) = None) -> find_pattern_module_context mi pat = None.
Proof.
  intros mi pat. induction pat as [|x r IH]; cbn [find_pattern_module_context]; intro H; auto.
  rewrite (H x (or_introl eq_refl)). apply IH. intros y Hy. apply H. right. exact Hy.
Qed.

(* inside an expression none of whose binders has a context entry, the module context is the one we entered
   with, or empty (after a local letrec) *)
Lemma ctx_at_src : forall mi p e cmc locals,
    ctx_free mi e ->
    fst (ctx_at mi cmc locals e p) = cmc \/ fst (ctx_at mi cmc locals e p) = [].
Proof.
  intros mi p. induction p as [|i p IH]; intros e cmc locals HF; cbn [ctx_at]. left; reflexivity.
  destruct (nth_error (children e) i) as [c|] eqn:Hc; [|left; reflexivity].
  assert (Hfc : ctx_free mi c) by (eapply ctx_free_child; eauto).
  assert (Hstep : fst (ctx_step mi cmc locals e i) = cmc \/ fst (ctx_step mi cmc locals e i) = []).
  { destruct e as [n| |x|q|pat e1 e2|f e1 e2|ps b|f args|e1 e2]; cbn [ctx_step fst]; auto.
    - rewrite (find_pattern_free mi pat). destruct i; auto.
      intros x Hx. apply HF. cbn [ctx_binders]. apply in_or_app. left. exact Hx.
    - rewrite (HF f). destruct i; auto. cbn [ctx_binders]. left. reflexivity. }
  destruct Hstep as [E|E]; rewrite E.
  - apply IH; auto.
  - destruct (IH c [] (snd (ctx_step mi cmc locals e i)) Hfc) as [E2|E2]; right; exact E2.
Qed.

(* the scope stack only grows on the way down *)
Lemma ctx_step_mono : forall mi cmc l e i x,
    In x (List.concat l) -> In x (List.concat (snd (ctx_step mi cmc l e i))).
Proof.
  intros mi cmc l e i x Hl.
  destruct e as [n| |y|q|pat e1 e2|f e1 e2|ps b|f args|e1 e2]; cbn [ctx_step snd]; auto.
  - destruct i; cbn [snd List.concat]; auto. apply in_or_app. right. exact Hl.
  - destruct i; cbn [snd List.concat]; apply in_or_app; right; exact Hl.
  - cbn [List.concat]. apply in_or_app. right. exact Hl.
Qed.

Lemma ctx_at_mono : forall mi p c cm l x,
    In x (List.concat l) -> In x (List.concat (snd (ctx_at mi cm l c p))).
Proof.
  intros mi p. induction p as [|j p IHp]; intros c cm l x Hl; cbn [ctx_at snd]; auto.
  destruct (nth_error (children c) j) as [c2|]; cbn [snd]; auto.
  apply IHp. apply ctx_step_mono. exact Hl.
Qed.

(* the binders in whose scope a position lies are on the scope stack *)
Lemma binders_at_locals : forall mi p e cmc locals x,
    In x (binders_at e p) -> In x (List.concat (snd (ctx_at mi cmc locals e p))).
Proof.
  intros mi p. induction p as [|i p IH]; intros e cmc locals x H; cbn [binders_at] in H. contradiction.
  cbn [ctx_at]. destruct (nth_error (children e) i) as [c|] eqn:Hc; [|contradiction].
  apply in_app_or in H. destruct H as [H|H].
  - apply ctx_at_mono.
    destruct e as [n| |y|q|pat e1 e2|f e1 e2|ps b|f args|e1 e2]; cbn [binders_step] in H; try contradiction.
    + destruct i; [contradiction|]. cbn [ctx_step snd List.concat]. apply in_or_app. left. exact H.
    + destruct i; cbn [ctx_step snd List.concat]; apply in_or_app; left; exact H.
    + cbn [ctx_step snd List.concat]. apply in_or_app. left. exact H.
  - apply IH. exact H.
Qed.

(* ---- along the let-chain ----------------------------------------------------------------------------------------- *)
Lemma expr_from_stmts_cons : forall st r,
    expr_from_stmts (st :: r) =
    match st with
    | SLet pat e => ELet pat e (into_then_expr r)
    | SLetRec f e => ELetRec f e (into_then_expr r)
    end.
Proof. intros st r. unfold expr_from_stmts. cbn [into_then_expr]. destruct st; reflexivity. Qed.

Lemma into_then_expr_some : forall r, r <> [] -> into_then_expr r = Some (expr_from_stmts r).
Proof. intros r H. unfold expr_from_stmts. destruct r as [|st r]; [contradiction|]. cbn [into_then_expr]. destruct st; reflexivity. Qed.

(* Statement k of the chain is converted starting from the EMPTY module context, whatever precedes it: a
   function with its entry of the context map (or none), a `let` with the entry of its pattern (or none); it lands
   at index k of the converted chain.  (Before the repair of the Let arm this held only for chains without a
   context entry for any `let` pattern: a `let` with an entry passed its context on to everything after it.) *)
Lemma convert_chain_nth : forall mi known stmts locals e' errs k st,
    convert_expr mi known [] locals (expr_from_stmts stmts) = (e', errs) ->
    nth_error stmts k = Some st ->
    exists locals_k sub' errs',
      incl errs' errs /\
      match st with
      | SLetRec f x =>
          convert_expr mi known (match assoc f (module_context_map mi) with Some c => c | None => [] end)
                       ([f] :: locals_k) x = (sub', errs')
          /\ nth_error (chain_stmts e') k = Some (SLetRec f sub')
      | SLet pat x =>
          convert_expr mi known (match find_pattern_module_context mi pat with Some c => c | None => [] end)
                       locals_k x = (sub', errs')
          /\ nth_error (chain_stmts e') k = Some (SLet pat sub')
      end.
Proof.
  intros mi known stmts. induction stmts as [|st0 r IH]; intros locals e' errs k st H Hn.
  - destruct k; discriminate.
  - rewrite expr_from_stmts_cons in H.
    destruct st0 as [pat x|f x].
    + (* SLet *)
      cbn [convert_expr] in H.
      set (cmcb := match find_pattern_module_context mi pat with Some c0 => c0 | None => [] end) in *.
      destruct (convert_expr mi known cmcb locals x) as [b' er1] eqn:E1.
      destruct k as [|k].
      * cbn in Hn. inversion Hn; subst st. exists locals, b', er1.
        destruct (into_then_expr r) as [t|].
        -- destruct (convert_expr mi known [] (pat :: locals) t) as [t' er2]. inversion H; subst.
           split. apply incl_app_l. split; auto.
        -- inversion H; subst. split. apply incl_refl. split; auto.
      * cbn [nth_error] in Hn. assert (Hr : r <> []) by (intro; subst; destruct k; discriminate).
        rewrite (into_then_expr_some r Hr) in H.
        destruct (convert_expr mi known [] (pat :: locals) (expr_from_stmts r)) as [t' er2] eqn:E2. inversion H; subst.
        destruct (IH (pat :: locals) t' er2 k st E2 Hn) as [lk [sub' [es [Hi Hm]]]].
        exists lk, sub', es. split. intros y Hy. apply in_or_app. right. apply Hi. exact Hy.
        destruct st; cbn [chain_stmts nth_error]; exact Hm.
    + (* SLetRec *)
      cbn [convert_expr] in H.
      set (cmcb := match assoc f (module_context_map mi) with Some c0 => c0 | None => [] end) in *.
      destruct (convert_expr mi known cmcb ([f] :: locals) x) as [b' er1] eqn:E1.
      destruct k as [|k].
      * cbn in Hn. inversion Hn; subst st. exists locals, b', er1.
        destruct (into_then_expr r) as [t|].
        -- destruct (convert_expr mi known [] ([f] :: locals) t) as [t' er2]. inversion H; subst.
           split. apply incl_app_l. split; auto.
        -- inversion H; subst. split. apply incl_refl. split; auto.
      * cbn [nth_error] in Hn. assert (Hr : r <> []) by (intro; subst; destruct k; discriminate).
        rewrite (into_then_expr_some r Hr) in H.
        destruct (convert_expr mi known [] ([f] :: locals) (expr_from_stmts r)) as [t' er2] eqn:E2. inversion H; subst.
        destruct (IH ([f] :: locals) t' er2 k st E2 Hn) as [lk [sub' [es [Hi Hm]]]].
        exists lk, sub', es. split. intros y Hy. apply in_or_app. right. apply Hi. exact Hy.
        destruct st; cbn [chain_stmts nth_error]; exact Hm.
Qed.

(* the `let` statements produced by the flattening bind one plain identifier *)
Lemma stmts_item_let_pat : forall it prefix pat e, In (SLet pat e) (stmts_item prefix it) -> exists n, pat = [[n]].
Proof.
  induction it using item_ind'; intros prefix pat e Hin; cbn [stmts_item] in Hin.
  - destruct Hin as [Hin|[]]. discriminate.
  - destruct Hin as [Hin|[]]. inversion Hin; subst. eauto.
  - apply in_flat_map in Hin. destruct Hin as [x [Hx Hin]]. rewrite Forall_forall in H. eapply H; eauto.
  - contradiction.
Qed.

Lemma stmts_items_let_pat : forall l prefix pat e, In (SLet pat e) (stmts_items prefix l) -> exists n, pat = [[n]].
Proof.
  intros l prefix pat e Hin. unfold stmts_items in Hin. apply in_flat_map in Hin. destruct Hin as [x [_ Hin]].
  eapply stmts_item_let_pat; eauto.
Qed.

Lemma src_decl_item : forall it prefix d, src_item it = true -> In d (fn_decls_item prefix it) -> src_expr (d_body d) = true.
Proof.
  induction it using item_ind'; intros prefix d Hs Hd; cbn [fn_decls_item] in Hd; try contradiction.
  - destruct Hd as [Hd|[]]. subst d. exact Hs.
  - apply in_flat_map in Hd. destruct Hd as [x [Hx Hd]]. cbn [src_item] in Hs. rewrite forallb_forall in Hs.
    rewrite Forall_forall in H. eapply H; eauto.
Qed.

Lemma src_decl : forall prog d, src_prog prog = true -> In d (fn_decls prog) -> src_expr (d_body d) = true.
Proof.
  intros prog d Hs Hd. unfold fn_decls, fn_decls_items in Hd. apply in_flat_map in Hd. destruct Hd as [x [Hx Hd]].
  unfold src_prog in Hs. rewrite forallb_forall in Hs. eapply src_decl_item; eauto.
Qed.

Lemma inside_nil : forall M, inside M [] -> M = [].
Proof. intros M [r Hr]. symmetry in Hr. apply app_eq_nil in Hr. tauto. Qed.
