(* Modules/NoPubUse.v — a syntactic sufficient condition for `pub_use_safe`: the program has no `pub use`. *)
From Coq Require Import List String Bool Arith Lia.
From Mimium Require Import Modules.Model Modules.Spec Modules.Basics Modules.Resolve Modules.Flatten.
Import ListNotations.

Fixpoint no_pub_use_item (it : item) : bool :=
  match it with
  | IUse pub _ _ => negb pub
  | IMod _ _ body => forallb no_pub_use_item body
  | IFn _ _ _ _ | ILet _ _ => true
  end.
Definition no_pub_use (prog : list item) : bool := forallb no_pub_use_item prog.

Definition short_keys (mi : module_info) : Prop := forall k v, In (k, v) (use_alias_map mi) -> List.length k = 1.

Lemma register_alias_short : forall prefix a m mi, short_keys mi -> short_keys (register_alias false prefix a m mi).
Proof.
  intros prefix a m mi H k v Hin. cbn [register_alias alias_insert use_alias_map] in Hin.
  destruct Hin as [Hin|Hin]; [inversion Hin; reflexivity|eapply H; eauto].
Qed.

Lemma flatten_short_keys : forall prog, no_pub_use prog = true -> short_keys (snd (flatten prog)).
Proof.
  intros prog Hno. unfold flatten.
  refine (through_items (fun mi _ => short_keys mi) (fun _ it => no_pub_use_item it) _ _ _ _ _ prog [] mi_empty [] _ _).
  - intros prefix pub n body H. exact H.
  - intros prefix pub n ps b mi D _ HI. cbn [flatten_item snd]. destruct (nonempty prefix); exact HI.
  - intros prefix n b mi D _ HI. cbn [flatten_item snd]. destruct (nonempty prefix); exact HI.
  - intros m mi D HI. exact HI.
  - intros prefix pub p t mi D Hok HI. cbn [flatten_item snd]. cbn [no_pub_use_item] in Hok.
    destruct pub; [discriminate|].
    assert (H0 : short_keys (use_external_load p prefix mi)).
    { destruct (use_external_load_fields p prefix mi) as [_ [Ha _]]. unfold short_keys. rewrite Ha. exact HI. }
    revert H0. generalize (use_external_load p prefix mi) as m. intros m H0.
    unfold process_use_statement. destruct t as [|names|].
    + destruct p; auto. apply register_alias_short. exact H0.
    + revert m H0. induction names as [|x r IH]; intros m H0; cbn [fold_left]; auto.
      apply IH. apply register_alias_short. exact H0.
    + exact H0.
  - exact Hno.
  - intros k v [].
Qed.

Theorem no_pub_use_safe : forall prog, no_pub_use prog = true -> pub_use_safe prog = true.
Proof.
  intros prog Hno. unfold pub_use_safe. apply forallb_forall. intros [k v] Hin. cbn [fst].
  pose proof (flatten_short_keys prog Hno k v Hin) as Hl.
  assert (Hnp : is_private_member prog k = false).
  { destruct (is_private_member prog k) eqn:E; auto. apply is_private_member_spec in E.
    destruct E as [d [_ [Hp [_ Hm]]]]. subst k. unfold d_path in Hl. rewrite app_length in Hl. cbn in Hl.
    destruct (d_mod d); [contradiction|cbn in Hl; lia]. }
  rewrite Hnp. cbn [negb andb]. rewrite Hl. reflexivity.
Qed.
