(* Modules/Resolve.v — properties of the two resolution functions convert_var / convert_qualified_var,
   relative to an arbitrary ModuleInfo satisfying two facts (established for flattened programs in Flatten.v). *)
From Coq Require Import List String Bool Arith Lia.
From Mimium Require Import Modules.Model Modules.Spec Modules.Basics.
Import ListNotations.

(* ---- alias chain ----------------------------------------------------------------------------------------- *)
Lemma alias_chain_no_key : forall mi k, assoc k (use_alias_map mi) = None -> resolve_alias_chain mi k = k.
Proof.
  intros mi k H. unfold resolve_alias_chain. cbn [alias_chain_go mem existsb]. rewrite H. reflexivity.
Qed.

(* the fuel of resolve_alias_chain is never exhausted: more fuel gives the same answer *)
Lemma assoc_key_in : forall A k (m : list (sym * A)) v, assoc k m = Some v -> In k (map fst m).
Proof. intros A k m v H. apply assoc_In in H. apply in_map_iff. exists (k, v). auto. Qed.

Lemma NoDup_incl_length_lt : forall (l k : list sym) x,
    NoDup l -> incl l k -> In x k -> ~ In x l -> List.length l < List.length k.
Proof.
  intros l k x Hnd Hincl Hx Hnx.
  assert (Hle : List.length (x :: l) <= List.length k).
  { apply NoDup_incl_length. constructor; auto. intros y [Hy|Hy]; subst; auto. }
  cbn in Hle. lia.
Qed.

Lemma alias_chain_go_stable : forall m fuel visited cur,
    NoDup visited -> incl visited (map fst m) ->
    List.length (map fst m) < fuel + List.length visited ->
    alias_chain_go (S fuel) m visited cur = alias_chain_go fuel m visited cur.
Proof.
  intros m fuel. induction fuel as [|fuel IH]; intros visited cur Hnd Hincl Hlen.
  - (* fuel 0: visited already holds more than all keys: impossible *)
    exfalso. cbn in Hlen. pose proof (NoDup_incl_length Hnd Hincl). lia.
  - remember (S fuel) as f1. cbn [alias_chain_go]. subst f1.
    cbn [alias_chain_go].
    destruct (mem cur visited) eqn:Hm; [reflexivity|].
    destruct (assoc cur m) as [next|] eqn:Ha; [|reflexivity].
    destruct (sym_eqb next cur); [reflexivity|].
    apply IH.
    + constructor; auto. intro Hin. apply mem_In in Hin. congruence.
    + intros y [Hy|Hy]; subst; auto. eapply assoc_key_in; eauto.
    + cbn [List.length]. lia.
Qed.

Lemma alias_chain_fuel : forall mi s extra,
    alias_chain_go (S (List.length (use_alias_map mi)) + extra) (use_alias_map mi) [] s = resolve_alias_chain mi s.
Proof.
  intros mi s extra. unfold resolve_alias_chain. induction extra as [|extra IH].
  - rewrite Nat.add_0_r. reflexivity.
  - rewrite <- IH. replace (S (List.length (use_alias_map mi)) + S extra) with (S (S (List.length (use_alias_map mi)) + extra)) by lia.
    apply alias_chain_go_stable.
    + constructor.
    + intros y [].
    + rewrite map_length. cbn [List.length]. lia.
Qed.

(* ---- relative candidates ----------------------------------------------------------------------------------- *)
Lemma relative_candidates_In : forall k cmc name r,
    In r (relative_candidates k cmc name) -> exists j, 1 <= j <= k /\ r = firstn j cmc ++ name.
Proof.
  induction k as [|k IH]; cbn [relative_candidates]; intros cmc name r H. contradiction.
  destruct H as [H|H].
  - exists (S k). split. lia. symmetry. exact H.
  - destruct (IH _ _ _ H) as [j [Hj Hr]]. exists j. split. lia. exact Hr.
Qed.

Lemma firstn_inside : forall j (cmc : list ident), inside (firstn j cmc) cmc.
Proof. intros j cmc. exists (skipn j cmc). symmetry. apply firstn_skipn. Qed.

Lemma wildcards_go_not_private : forall vis known bases name s,
    resolve_through_wildcards_go vis known bases name = Some s -> assoc s vis <> Some false.
Proof.
  intros vis known bases name s. induction bases as [|b r IH]; cbn [resolve_through_wildcards_go]; intro H. discriminate.
  destruct (mem (b ++ name) known).
  - destruct (assoc (b ++ name) vis) as [[|]|] eqn:E.
    + inversion H; subst. congruence.
    + apply IH. exact H.
    + inversion H; subst. congruence.
  - apply IH. exact H.
Qed.

Section Privacy.
  Variable mi : module_info.
  Variable priv : sym -> Prop.
  (* the visibility map says `false` for every private member *)
  Hypothesis Hvis : forall s, priv s -> assoc s (visibility_map mi) = Some false.
  (* a multi-segment symbol that the alias chain maps to a private member is that member itself *)
  Hypothesis Hchain : forall k, 2 <= List.length k -> priv (resolve_alias_chain mi k) -> resolve_alias_chain mi k = k.

  Lemma convert_var_private : forall known cmc locals name s M n,
      List.length name = 1 ->
      convert_var mi known cmc locals name = (s, []) ->
      s = M ++ [n] -> M <> [] -> priv s -> inside M cmc.
  Proof.
    intros known cmc locals name s M n Hlen Hc Hs HM Hp.
    assert (Hs2 : 2 <= List.length s) by (subst s; apply length_snoc_ge2; exact HM).
    unfold convert_var in Hc.
    destruct (is_locally_bound locals name).
    { inversion Hc; subst. lia. }
    destruct (if nonempty cmc then find (fun r => mem r known) (relative_candidates (List.length cmc) cmc name) else None)
      as [rel|] eqn:Hrel.
    { inversion Hc; subst rel. destruct (nonempty cmc); try discriminate.
      apply find_some in Hrel. destruct Hrel as [Hin _].
      apply relative_candidates_In in Hin. destruct Hin as [j [Hj Hr]].
      destruct name as [|x [|y name]]; cbn in Hlen; try lia.
      rewrite Hs in Hr. apply app_inj_tail in Hr. destruct Hr as [HMj _]. subst M. apply firstn_inside. }
    destruct (has_key name (use_alias_map mi)).
    { inversion Hc as [[Hs' Herr]]. rewrite Hs' in Herr. rewrite (Hvis _ Hp) in Herr. cbn [negb andb] in Herr.
      destruct (is_within_module_hierarchy cmc s) eqn:Hw; cbn [negb] in Herr; try discriminate.
      rewrite Hs in Hw. eapply within_inside. exact Hw. }
    destruct (resolve_through_wildcards mi known name) as [w|] eqn:Hw.
    { inversion Hc; subst w. unfold resolve_through_wildcards in Hw. apply wildcards_go_not_private in Hw.
      rewrite (Hvis _ Hp) in Hw. contradiction. }
    inversion Hc; subst. lia.
  Qed.

  Lemma resolve_qualified_path_cases : forall segs cmc ex,
      resolve_qualified_path segs cmc ex = segs \/ (cmc <> [] /\ resolve_qualified_path segs cmc ex = cmc ++ segs).
  Proof.
    intros. unfold resolve_qualified_path. destruct (ex segs); auto.
    destruct cmc as [|c cmc]; cbn [nonempty andb]; auto.
    destruct (ex ((c :: cmc) ++ segs)); auto. right. split; [discriminate|reflexivity].
  Qed.

  Lemma resolve_qualified_path_len : forall segs cmc ex,
      2 <= List.length segs -> 2 <= List.length (resolve_qualified_path segs cmc ex).
  Proof.
    intros segs cmc ex H. destruct (resolve_qualified_path_cases segs cmc ex) as [E|[_ E]]; rewrite E; auto.
    rewrite app_length. lia.
  Qed.

  Lemma convert_qualified_var_private : forall known cmc segs s M n,
      2 <= List.length segs ->
      convert_qualified_var mi known cmc segs = (s, []) ->
      s = M ++ [n] -> M <> [] -> priv s -> inside M cmc.
  Proof.
    intros known cmc segs s M n Hlen Hc Hs HM Hp.
    unfold convert_qualified_var in Hc.
    set (resolved := resolve_qualified_path segs cmc (fun n0 => mem n0 known)) in *.
    assert (Hr2 : 2 <= List.length resolved) by (apply resolve_qualified_path_len; exact Hlen).
    inversion Hc as [[Hs' Herr]]. clear Hc.
    assert (Hsame : resolve_alias_chain mi resolved = resolved).
    { apply Hchain; auto. rewrite Hs'. exact Hp. }
    rewrite Hsame in Hs'. rewrite Hs' in Herr.
    assert (Hlt : (1 <? List.length s) = true) by (apply Nat.ltb_lt; rewrite <- Hs'; lia).
    rewrite Hlt in Herr. rewrite (Hvis _ Hp) in Herr. cbn [negb andb] in Herr.
    destruct (is_within_module_hierarchy cmc s) eqn:Hw; cbn [negb] in Herr; try discriminate.
    rewrite Hs in Hw. eapply within_inside. exact Hw.
  Qed.
End Privacy.

(* ---- what a qualified path is rewritten to ------------------------------------------------------------------ *)
Lemma convert_qualified_var_denoted : forall mi known cmc segs s errs,
    convert_qualified_var mi known cmc segs = (s, errs) ->
    exists t, denoted (fun x => In x known) cmc segs t /\ s = resolve_alias_chain mi t.
Proof.
  intros mi known cmc segs s errs H. unfold convert_qualified_var in H. injection H as Hs _.
  exists (resolve_qualified_path segs cmc (fun n => mem n known)). split; [|symmetry; exact Hs].
  unfold resolve_qualified_path, denoted.
  destruct (mem segs known) eqn:E1.
  - left. split; auto. apply mem_In. exact E1.
  - assert (N1 : ~ In segs known) by (intro Hin; apply mem_In in Hin; congruence).
    destruct cmc as [|c cmc]; cbn [nonempty andb].
    + right. right. repeat split; auto. intros [Hne _]. contradiction.
    + destruct (mem ((c :: cmc) ++ segs) known) eqn:E2.
      * right. left. repeat split; auto. discriminate. apply mem_In. exact E2.
      * right. right. repeat split; auto. intros [_ Hin]. apply mem_In in Hin. congruence.
Qed.

(* ---- local bindings shadow -------------------------------------------------------------------------------- *)
Lemma convert_var_local : forall mi known cmc locals name,
    is_locally_bound locals name = true -> convert_var mi known cmc locals name = (name, []).
Proof. intros. unfold convert_var. rewrite H. reflexivity. Qed.

Lemma is_locally_bound_In : forall locals name, is_locally_bound locals name = true <-> In name (List.concat locals).
Proof.
  intros locals name. unfold is_locally_bound. rewrite existsb_exists. split.
  - intros [sc [Hin Hm]]. apply mem_In in Hm. apply in_concat. exists sc. auto.
  - intro H. apply in_concat in H. destruct H as [sc [Hin Hm]]. exists sc. split; auto. apply mem_In. exact Hm.
Qed.
