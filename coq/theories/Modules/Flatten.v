(* Modules/Flatten.v — invariants of the flattening (program.rs stmts_from_program_with_prefix) *)
From Coq Require Import List String Bool Arith Lia.
From Mimium Require Import Modules.Model Modules.Spec Modules.Basics Modules.Resolve.
Import ListNotations.

(* ---- the statements ------------------------------------------------------------------------------------------- *)
Lemma flatten_stmts_item : forall it prefix mi, fst (flatten_item prefix it mi) = stmts_item prefix it.
Proof.
  induction it using item_ind'; intros prefix mi; try reflexivity.
  rewrite flatten_item_mod. cbn [stmts_item].
  generalize (loaded_insert (prefix ++ [n]) mi) as m.
  induction H as [|x r Hx Hr IH]; intro m; cbn [flatten_items flat_map]. reflexivity.
  specialize (Hx (prefix ++ [n]) m).
  destruct (flatten_item (prefix ++ [n]) x m) as [s1 mi1]. cbn [fst] in Hx.
  specialize (IH mi1). destruct (flatten_items (prefix ++ [n]) r mi1) as [s2 mi2]. cbn [fst] in *. congruence.
Qed.

Lemma flatten_stmts_items : forall l prefix mi, fst (flatten_items prefix l mi) = stmts_items prefix l.
Proof.
  induction l as [|x r IH]; intros prefix mi; cbn [flatten_items stmts_items flat_map]. reflexivity.
  pose proof (flatten_stmts_item x prefix mi) as Hx.
  destruct (flatten_item prefix x mi) as [s1 mi1]. cbn [fst] in Hx.
  specialize (IH prefix mi1). destruct (flatten_items prefix r mi1) as [s2 mi2]. cbn [fst] in *.
  unfold stmts_items in IH. congruence.
Qed.

Lemma decl_stmt_item : forall it prefix d,
    In d (fn_decls_item prefix it) ->
    In (SLetRec (d_path d) (ELam (map (fun p => [p]) (d_params d)) (d_body d))) (stmts_item prefix it).
Proof.
  induction it using item_ind'; intros prefix d Hd; cbn [fn_decls_item stmts_item] in *; try contradiction.
  - destruct Hd as [Hd|[]]. subst d. left. reflexivity.
  - apply in_flat_map in Hd. destruct Hd as [x [Hx Hd]]. apply in_flat_map. exists x. split; auto.
    rewrite Forall_forall in H. apply H; auto.
Qed.

Lemma decl_stmt : forall prog d,
    In d (fn_decls prog) ->
    In (SLetRec (d_path d) (ELam (map (fun p => [p]) (d_params d)) (d_body d))) (stmts_items [] prog).
Proof.
  intros prog d Hd. unfold fn_decls, fn_decls_items in Hd. apply in_flat_map in Hd. destruct Hd as [x [Hx Hd]].
  apply in_flat_map. exists x. split; auto. apply decl_stmt_item. exact Hd.
Qed.

(* ---- a generic way to push an invariant through the flattening ------------------------------------------------ *)
Section Through.
  (* Inv mi D : invariant relating the ModuleInfo built so far and the declarations met so far;
     ok prefix it : side condition on the items *)
  Variable Inv : module_info -> list fn_decl -> Prop.
  Variable ok : list ident -> item -> bool.
  Hypothesis ok_mod : forall prefix pub n body, ok prefix (IMod pub n body) = true -> forallb (ok (prefix ++ [n])) body = true.
  Hypothesis step_fn : forall prefix pub n ps b mi D,
      ok prefix (IFn pub n ps b) = true -> Inv mi D ->
      Inv (snd (flatten_item prefix (IFn pub n ps b) mi)) (D ++ [mkDecl prefix n pub ps b]).
  Hypothesis step_let : forall prefix n b mi D,
      ok prefix (ILet n b) = true -> Inv mi D -> Inv (snd (flatten_item prefix (ILet n b) mi)) D.
  Hypothesis step_loaded : forall m mi D, Inv mi D -> Inv (loaded_insert m mi) D.
  Hypothesis step_use : forall prefix pub p t mi D,
      ok prefix (IUse pub p t) = true -> Inv mi D -> Inv (snd (flatten_item prefix (IUse pub p t) mi)) D.

  Lemma through_item : forall it prefix mi D,
      ok prefix it = true -> Inv mi D -> Inv (snd (flatten_item prefix it mi)) (D ++ fn_decls_item prefix it).
  Proof.
    induction it using item_ind'; intros prefix mi D Hok HI.
    - apply step_fn; auto.
    - cbn [fn_decls_item]. rewrite app_nil_r. apply step_let; auto.
    - rewrite flatten_item_mod. cbn [fn_decls_item].
      apply ok_mod in Hok.
      assert (HI0 : Inv (loaded_insert (prefix ++ [n]) mi) D) by (apply step_loaded; exact HI).
      revert HI0. generalize (loaded_insert (prefix ++ [n]) mi) as m. clear HI. revert D Hok.
      induction H as [|x r Hx Hr IH]; intros D Hok m HI0; cbn [flatten_items flat_map].
      + rewrite app_nil_r. exact HI0.
      + cbn [forallb] in Hok. apply andb_true_iff in Hok. destruct Hok as [Hokx Hokr].
        specialize (Hx (prefix ++ [n]) m D Hokx HI0).
        destruct (flatten_item (prefix ++ [n]) x m) as [s1 mi1]. cbn [snd] in Hx.
        specialize (IH (D ++ fn_decls_item (prefix ++ [n]) x) Hokr mi1 Hx).
        destruct (flatten_items (prefix ++ [n]) r mi1) as [s2 mi2]. cbn [snd] in *.
        rewrite app_assoc. exact IH.
    - cbn [fn_decls_item]. rewrite app_nil_r. apply step_use; auto.
  Qed.

  Lemma through_items : forall l prefix mi D,
      forallb (ok prefix) l = true -> Inv mi D -> Inv (snd (flatten_items prefix l mi)) (D ++ fn_decls_items prefix l).
  Proof.
    induction l as [|x r IH]; intros prefix mi D Hok HI; cbn [flatten_items fn_decls_items flat_map].
    - rewrite app_nil_r. exact HI.
    - cbn [forallb] in Hok. apply andb_true_iff in Hok. destruct Hok as [Hokx Hokr].
      pose proof (through_item x prefix mi D Hokx HI) as Hx.
      destruct (flatten_item prefix x mi) as [s1 mi1]. cbn [snd] in Hx.
      specialize (IH prefix mi1 _ Hokr Hx).
      destruct (flatten_items prefix r mi1) as [s2 mi2]. cbn [snd] in *.
      unfold fn_decls_items in IH. rewrite app_assoc. exact IH.
  Qed.
End Through.

(* ---- fields untouched by the individual steps ----------------------------------------------------------------- *)
Lemma use_external_load_fields : forall p prefix mi,
    visibility_map (use_external_load p prefix mi) = visibility_map mi
    /\ use_alias_map (use_external_load p prefix mi) = use_alias_map mi
    /\ module_context_map (use_external_load p prefix mi) = module_context_map mi.
Proof.
  intros p prefix mi. unfold use_external_load. destruct p as [|b p]; auto.
  destruct (mem (prefix ++ [b]) (loaded_external_modules mi) || mem [b] (loaded_external_modules mi)); auto.
Qed.

Lemma register_alias_ctx : forall pub prefix a m mi,
    module_context_map (register_alias pub prefix a m mi) = module_context_map mi.
Proof. intros. unfold register_alias. destruct pub; reflexivity. Qed.

Lemma process_use_ctx : forall pub path tgt prefix mi,
    module_context_map (process_use_statement pub path tgt prefix mi) = module_context_map mi.
Proof.
  intros pub path tgt prefix mi. unfold process_use_statement. destruct tgt as [|names|].
  - destruct path; auto. apply register_alias_ctx.
  - revert mi. induction names as [|x r IH]; intro mi; cbn [fold_left]; auto.
    rewrite IH. apply register_alias_ctx.
  - reflexivity.
Qed.

(* ---- the visibility map ------------------------------------------------------------------------------------------ *)
Definition vis_inv (mi : module_info) (D : list fn_decl) : Prop :=
  (forall s b, assoc s (visibility_map mi) = Some b ->
               has_key s (use_alias_map mi) = true \/ exists d, In d D /\ d_path d = s /\ d_pub d = b)
  /\ (forall d, In d D -> assoc (d_path d) (visibility_map mi) <> None).

Lemma vis_inv_same : forall mi mi' D,
    visibility_map mi' = visibility_map mi -> use_alias_map mi' = use_alias_map mi -> vis_inv mi D -> vis_inv mi' D.
Proof. intros mi mi' D Hv Ha [A B]. split; intros; rewrite ?Hv, ?Ha in *; auto. Qed.

Lemma register_alias_vis : forall pub prefix a m mi D, vis_inv mi D -> vis_inv (register_alias pub prefix a m mi) D.
Proof.
  intros pub prefix a m mi D [A B]. unfold register_alias. destruct pub.
  - split.
    + intros s b Hs. cbn [visibility_map alias_insert vis_insert use_alias_map] in *.
      cbn [assoc] in Hs. rewrite !has_key_cons.
      destruct (sym_eqb s (prefix ++ [a])); [left; reflexivity|].
      destruct (A s b Hs) as [Hk|Hd]; [left|right; exact Hd]. rewrite Hk. rewrite orb_true_r. reflexivity.
    + intros d Hd. cbn [visibility_map alias_insert vis_insert]. cbn [assoc].
      destruct (sym_eqb (d_path d) (prefix ++ [a])); [discriminate|]. apply B. exact Hd.
  - split.
    + intros s b Hs. cbn [visibility_map alias_insert use_alias_map] in *. rewrite has_key_cons.
      destruct (A s b Hs) as [Hk|Hd]; [left|right; exact Hd]. rewrite Hk. rewrite orb_true_r. reflexivity.
    + intros d Hd. cbn [visibility_map alias_insert]. apply B. exact Hd.
Qed.

Lemma process_use_vis : forall pub path tgt prefix mi D,
    vis_inv mi D -> vis_inv (process_use_statement pub path tgt prefix mi) D.
Proof.
  intros pub path tgt prefix mi D HI. unfold process_use_statement. destruct tgt as [|names|].
  - destruct path; auto. apply register_alias_vis. exact HI.
  - revert mi HI. induction names as [|x r IH]; intros mi HI; cbn [fold_left]; auto.
    apply IH. apply register_alias_vis. exact HI.
  - eapply vis_inv_same; [| |exact HI]; reflexivity.
Qed.

Lemma vis_inv_weaken : forall mi D D', vis_inv mi D -> incl D D' -> (forall d, In d D' -> In d D \/ assoc (d_path d) (visibility_map mi) <> None) -> vis_inv mi D'.
Proof.
  intros mi D D' [A B] Hincl Hnew. split.
  - intros s b Hs. destruct (A s b Hs) as [Hk|[d [Hd He]]]; [left; exact Hk|right]. exists d. split; auto.
  - intros d Hd. destruct (Hnew d Hd) as [H|H]; auto.
Qed.

Lemma flatten_vis : forall prog, vis_inv (snd (flatten prog)) (fn_decls prog).
Proof.
  intro prog. unfold flatten, fn_decls.
  change (fn_decls_items [] prog) with ([] ++ fn_decls_items [] prog).
  apply through_items with (ok := fun _ _ => true).
  - intros. apply forallb_forall. reflexivity.
  - (* fn *)
    intros prefix pub n ps b mi D _ [A B]. cbn [flatten_item snd].
    assert (HV : visibility_map (if nonempty prefix then ctx_insert (prefix ++ [n]) prefix (vis_insert (prefix ++ [n]) pub mi) else vis_insert (prefix ++ [n]) pub mi)
                 = (prefix ++ [n], pub) :: visibility_map mi) by (destruct (nonempty prefix); reflexivity).
    assert (HA : use_alias_map (if nonempty prefix then ctx_insert (prefix ++ [n]) prefix (vis_insert (prefix ++ [n]) pub mi) else vis_insert (prefix ++ [n]) pub mi)
                 = use_alias_map mi) by (destruct (nonempty prefix); reflexivity).
    split.
    + intros s b0 Hs. rewrite HV in Hs. rewrite HA. cbn [assoc] in Hs.
      destruct (sym_eqb s (prefix ++ [n])) eqn:E.
      * apply sym_eqb_eq in E. injection Hs as Hb. right. exists (mkDecl prefix n pub ps b). split.
        apply in_or_app. right. left. reflexivity. split. symmetry. exact E. exact Hb.
      * destruct (A s b0 Hs) as [Hk|[d [Hd He]]]; [left; exact Hk|right]. exists d. split; auto. apply in_or_app. left. exact Hd.
    + intros d Hd. rewrite HV. cbn [assoc]. destruct (sym_eqb (d_path d) (prefix ++ [n])) eqn:E; [discriminate|].
      apply in_app_or in Hd. destruct Hd as [Hd|[Hd|[]]]; [apply B; exact Hd|].
      subst d. unfold d_path in E. cbn [d_mod d_name] in E. rewrite sym_eqb_refl in E. discriminate.
  - (* let *)
    intros prefix n b mi D _ HI. cbn [flatten_item snd]. eapply vis_inv_same; [| |exact HI]; destruct (nonempty prefix); reflexivity.
  - intros m mi D HI. eapply vis_inv_same; [| |exact HI]; reflexivity.
  - (* use *)
    intros prefix pub p t mi D _ HI. cbn [flatten_item snd]. apply process_use_vis.
    destruct (use_external_load_fields p prefix mi) as [Hv [Ha _]]. eapply vis_inv_same; eauto.
  - apply forallb_forall. reflexivity.
  - split; intros; cbn in *; try discriminate; contradiction.
Qed.

(* ---- the module-context map ----------------------------------------------------------------------------------- *)
(* key of a `let` declaration (module path, name, initialiser): path ++ [name] *)
Definition let_key (d : list ident * ident * expr) : sym := fst (fst d) ++ [snd (fst d)].
Definition let_keys (prog : list item) : list sym := map let_key (let_decls prog).

(* every entry of module_context_map is  path ++ [name] -> path  for a function, or  [name] -> path  for a `let`
   member `name` of module `path` (G = the keys of the declared lets); the path is never empty *)
Definition ctx_inv (G : list sym) (mi : module_info) : Prop :=
  forall k c, assoc k (module_context_map mi) = Some c ->
              c <> [] /\ ((exists n, k = c ++ [n]) \/ (exists n, k = [n] /\ In (c ++ [n]) G)).

Definition lets_in (G : list sym) (prefix : list ident) (it : item) : bool :=
  forallb (fun d => mem (let_key d) G) (let_decls_item prefix it).

Lemma nonempty_snoc : forall A (l : list A) x, nonempty (l ++ [x]) = true.
Proof. intros A l x. destruct l; reflexivity. Qed.

Lemma nonempty_neq : forall A (l : list A), nonempty l = true -> l <> [].
Proof. intros A l H E. subst l. discriminate. Qed.

Lemma flatten_ctx : forall prog, ctx_inv (let_keys prog) (snd (flatten prog)).
Proof.
  intros prog. unfold flatten. set (G := let_keys prog).
  refine (through_items (fun mi _ => ctx_inv G mi) (lets_in G) _ _ _ _ _ prog [] mi_empty [] _ _).
  - intros prefix pub n body H. unfold lets_in in *. cbn [let_decls_item] in H. rewrite forallb_forall in H.
    apply forallb_forall. intros x Hx. apply forallb_forall. intros d Hd. apply H. apply in_flat_map. exists x. auto.
  - intros prefix pub n ps b mi D _ HI. cbn [flatten_item snd]. destruct (nonempty prefix) eqn:Hne.
    + intros k c Hk. cbn [module_context_map ctx_insert vis_insert] in Hk. cbn [assoc] in Hk.
      destruct (sym_eqb k (prefix ++ [n])) eqn:E.
      * apply sym_eqb_eq in E. injection Hk as Hc. subst c k. split. apply nonempty_neq. exact Hne. left. exists n. reflexivity.
      * apply HI. exact Hk.
    + exact HI.
  - intros prefix n b mi D Hok HI. cbn [flatten_item snd]. destruct (nonempty prefix) eqn:Hne.
    + intros k c Hk. cbn [module_context_map ctx_insert] in Hk. cbn [assoc] in Hk.
      destruct (sym_eqb k [n]) eqn:E.
      * apply sym_eqb_eq in E. injection Hk as Hc. subst c k. split. apply nonempty_neq. exact Hne. right. exists n. split; auto.
        unfold lets_in in Hok. cbn [let_decls_item forallb] in Hok. rewrite andb_true_r in Hok. apply mem_In in Hok. exact Hok.
      * apply HI. exact Hk.
    + exact HI.
  - intros m mi D HI. exact HI.
  - intros prefix pub p t mi D _ HI. cbn [flatten_item snd]. unfold ctx_inv. rewrite process_use_ctx.
    destruct (use_external_load_fields p prefix mi) as [_ [_ Hc]]. rewrite Hc. exact HI.
  - apply forallb_forall. intros it Hit. unfold lets_in. apply forallb_forall. intros d Hd. apply mem_In.
    unfold G, let_keys. apply in_map. unfold let_decls. apply in_flat_map. exists it. auto.
  - intros k c Hk. cbn in Hk. discriminate.
Qed.

(* ---- consequences used by the privacy theorem ----------------------------------------------------------------- *)
Lemma nodup_syms_NoDup : forall l, nodup_syms l = true -> NoDup l.
Proof.
  induction l as [|x r IH]; cbn [nodup_syms]; intro H. constructor.
  apply andb_true_iff in H. destruct H as [H1 H2]. constructor.
  - intro Hin. apply mem_In in Hin. rewrite Hin in H1. discriminate.
  - apply IH. exact H2.
Qed.

Lemma NoDup_map_eq : forall A B (f : A -> B) (l : list A) x y,
    NoDup (map f l) -> In x l -> In y l -> f x = f y -> x = y.
Proof.
  intros A B f l. induction l as [|a l IH]; intros x y Hnd Hx Hy Hf. contradiction.
  cbn [map] in Hnd. inversion Hnd as [|? ? Hnotin Hnd']; subst.
  destruct Hx as [Hx|Hx]; destruct Hy as [Hy|Hy]; subst; auto.
  - exfalso. apply Hnotin. rewrite Hf. apply in_map. exact Hy.
  - exfalso. apply Hnotin. rewrite <- Hf. apply in_map. exact Hx.
Qed.

Lemma is_private_member_spec : forall prog s,
    is_private_member prog s = true <->
    exists d, In d (fn_decls prog) /\ d_path d = s /\ d_pub d = false /\ d_mod d <> [].
Proof.
  intros prog s. unfold is_private_member. rewrite existsb_exists. split.
  - intros [d [Hd H]]. apply andb_true_iff in H. destruct H as [H H3]. apply andb_true_iff in H. destruct H as [H1 H2].
    exists d. split; auto. split. apply sym_eqb_eq. exact H1. split. destruct (d_pub d); [discriminate|reflexivity].
    destruct (d_mod d); [discriminate|discriminate].
  - intros [d [Hd [H1 [H2 H3]]]]. exists d. split; auto. rewrite H2. subst s. rewrite sym_eqb_refl. cbn.
    destruct (d_mod d); [contradiction|reflexivity].
Qed.

Lemma private_fn_member : forall prog M n, private_fn prog M n -> is_private_member prog (M ++ [n]) = true.
Proof.
  intros prog M n [HM [d [Hd [H1 [H2 H3]]]]]. apply is_private_member_spec. exists d. split; auto.
  unfold d_path. rewrite H1, H2. repeat split; auto.
Qed.

Lemma has_key_assoc : forall A k (m : list (sym * A)), has_key k m = true <-> assoc k m <> None.
Proof. intros A k m. unfold has_key. destruct (assoc k m); split; intro H; congruence. Qed.

Lemma private_vis_false : forall prog s,
    unique_fns prog = true -> pub_use_safe prog = true ->
    is_private_member prog s = true -> assoc s (visibility_map (snd (flatten prog))) = Some false.
Proof.
  intros prog s Hu Hs Hp. destruct (flatten_vis prog) as [A B].
  apply is_private_member_spec in Hp. destruct Hp as [d [Hd [Hpath [Hpub Hmod]]]].
  specialize (B d Hd). rewrite Hpath in B.
  destruct (assoc s (visibility_map (snd (flatten prog)))) as [b|] eqn:E; [|contradiction].
  destruct (A s b E) as [Hk|[d' [Hd' [Hp' Hb']]]].
  - exfalso. apply has_key_In in Hk. destruct Hk as [v Hin].
    unfold pub_use_safe in Hs. rewrite forallb_forall in Hs. specialize (Hs _ Hin). cbn [fst] in Hs.
    apply andb_true_iff in Hs. destruct Hs as [Hs _].
    assert (Hpm : is_private_member prog s = true) by (apply is_private_member_spec; exists d; auto).
    rewrite Hpm in Hs. discriminate.
  - assert (d' = d).
    { eapply NoDup_map_eq with (f := d_path); eauto. apply nodup_syms_NoDup. exact Hu. congruence. }
    subst d'. congruence.
Qed.

Lemma private_chain_fixed : forall prog k,
    pub_use_safe prog = true -> 2 <= List.length k ->
    is_private_member prog (resolve_alias_chain (snd (flatten prog)) k) = true ->
    resolve_alias_chain (snd (flatten prog)) k = k.
Proof.
  intros prog k Hs Hlen Hp.
  destruct (assoc k (use_alias_map (snd (flatten prog)))) as [v|] eqn:E.
  - exfalso. apply assoc_In in E. unfold pub_use_safe in Hs. rewrite forallb_forall in Hs. specialize (Hs _ E). cbn [fst] in Hs.
    apply andb_true_iff in Hs. destruct Hs as [_ Hs]. rewrite Hp in Hs. cbn [negb] in Hs. rewrite orb_false_r in Hs.
    apply Nat.ltb_lt in Hs. lia.
  - apply alias_chain_no_key. exact E.
Qed.
