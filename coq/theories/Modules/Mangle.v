(* Modules/Mangle.v — the name mangling `a$b$c` (program.rs mangle_qualified_name / mangle_qualified_path) is
   injective on '$'-free identifiers: modelling a Symbol by the list of its segments (Model.v `sym`) loses nothing. *)
From Coq Require Import List String Ascii Bool.
Import ListNotations.
Local Open Scope string_scope.

Definition dollar : ascii := "$"%char.

(* segments.iter().map(as_str).collect::<Vec<_>>().join("$") *)
Fixpoint mangle (l : list string) : string :=
  match l with
  | [] => ""
  | [x] => x
  | x :: r => x ++ String dollar (mangle r)
  end.

Fixpoint dollar_free (s : string) : Prop :=
  match s with
  | EmptyString => True
  | String c r => c <> dollar /\ dollar_free r
  end.

Lemma split_dollar : forall x y s t,
    dollar_free x -> dollar_free y -> x ++ String dollar s = y ++ String dollar t -> x = y /\ s = t.
Proof.
  induction x as [|a x IH]; destruct y as [|b y]; cbn; intros s t Hx Hy H.
  - inversion H. auto.
  - inversion H; subst. destruct Hy as [Hb _]. contradiction.
  - inversion H; subst. destruct Hx as [Ha _]. contradiction.
  - inversion H; subst. destruct Hx as [_ Hx]. destruct Hy as [_ Hy].
    destruct (IH y s t Hx Hy H2) as [E1 E2]. subst. auto.
Qed.

Lemma no_dollar_inside : forall x y t, dollar_free x -> x = y ++ String dollar t -> False.
Proof.
  induction x as [|a x IH]; destruct y as [|b y]; cbn; intros t Hx H; try discriminate.
  - inversion H; subst. destruct Hx as [Ha _]. contradiction.
  - inversion H; subst. destruct Hx as [_ Hx]. eapply IH; eauto.
Qed.

Theorem mangle_inj : forall p q,
    Forall dollar_free p -> Forall dollar_free q -> p <> [] -> q <> [] -> mangle p = mangle q -> p = q.
Proof.
  induction p as [|x p IH]; intros q Hp Hq Np Nq H. contradiction.
  destruct q as [|y q]. contradiction.
  inversion Hp as [|? ? Hx Hp']; subst. inversion Hq as [|? ? Hy Hq']; subst.
  destruct p as [|x2 p]; destruct q as [|y2 q].
  - cbn in H. subst. reflexivity.
  - exfalso. cbn [mangle] in H. eapply no_dollar_inside; [exact Hx|exact H].
  - exfalso. cbn [mangle] in H. symmetry in H. eapply no_dollar_inside; [exact Hy|exact H].
  - change (mangle (x :: x2 :: p)) with (x ++ String dollar (mangle (x2 :: p))) in H.
    change (mangle (y :: y2 :: q)) with (y ++ String dollar (mangle (y2 :: q))) in H.
    destruct (split_dollar _ _ _ _ Hx Hy H) as [E1 E2]. subst y.
    f_equal. apply IH; auto; discriminate.
Qed.
