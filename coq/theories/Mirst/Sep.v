(* Mirst/Sep.v — part 1 of the separation theorem: keys, ownership of an access by a (child, slot) key of the walk,
   monotonicity of the walk's used-set.  (Part 2: Mirst/SepSound.v.) *)
From Coq Require Import List NArith Bool Lia Arith.
From Mimium Require Import StateTree.Model StateTree.Lemmas Mirst.Model Mirst.Spec Mirst.Cells Mirst.Sound.
Import ListNotations.
Local Open Scope N_scope.

Definition apart (a b : access) : Prop := disjoint a b \/ feed_pair a b.

Lemma separated_app : forall t1 t2,
    separated t1 -> separated t2 -> (forall a b, In a t1 -> In b t2 -> apart a b) -> separated (t1 ++ t2).
Proof.
  induction t1 as [|x r IH]; intros t2 H1 H2 Hx; [exact H2|].
  cbn [app separated] in *. destruct H1 as [Hf Hs]. split.
  - apply Forall_app. split; [exact Hf|]. apply Forall_forall. intros b Hb. apply Hx; [now left|exact Hb].
  - apply IH; auto. intros a b Ha Hb. apply Hx; [now right|exact Hb].
Qed.

Lemma key_eqb_eq : forall a b : key, key_eqb a b = true <-> a = b.
Proof.
  intros [i s] [j t]. unfold key_eqb. cbn [fst snd]. split.
  - intros H. apply andb_prop in H. destruct H as [H1 H2]. apply Nat.eqb_eq in H1. apply eqb_prop in H2. now subst.
  - intros H. inversion H; subst. now rewrite Nat.eqb_refl, eqb_reflx.
Qed.

Lemma mem_key_false : forall k l, mem_key k l = false -> ~ In k l.
Proof.
  intros k l H Hin. unfold mem_key in H.
  assert (existsb (key_eqb k) l = true) as E by (apply existsb_exists; exists k; split; [exact Hin|now apply key_eqb_eq]).
  congruence.
Qed.

(* the children of a skeleton lie one after the other *)
Lemma tops_lower : forall cs b i o c, nth_error (tops_of b cs) i = Some (o, c) -> b <= o.
Proof.
  induction cs as [|x r IH]; intros b [|i] o c H; cbn in H; try discriminate.
  - inversion H; subst. lia.
  - apply IH in H. lia.
Qed.

Lemma tops_sorted : forall cs b i j o1 c1 o2 c2,
    (i < j)%nat -> nth_error (tops_of b cs) i = Some (o1, c1) -> nth_error (tops_of b cs) j = Some (o2, c2) ->
    o1 + size c1 <= o2.
Proof.
  induction cs as [|x r IH]; intros b i j o1 c1 o2 c2 Hlt H1 H2.
  - destruct i; discriminate.
  - destruct i as [|i], j as [|j]; try lia; cbn [tops_of nth_error] in H1, H2.
    + inversion H1; subst. now apply tops_lower in H2.
    + eapply IH; [|exact H1|exact H2]. lia.
Qed.

(* access a belongs to key k = (child index, slot): it lies inside the child's words; on a Feed child it is exactly the cell,
   read for slot false and written for slot true; other children have slot false only *)
Definition owns (entry : N) (T : list (N * skel)) (k : key) (a : access) : Prop :=
  exists o c, nth_error T (fst k) = Some (o, c) /\
              entry + o <= a_pos a /\ a_pos a + a_size a <= entry + o + size c /\
              match c with
              | Feed w => a_pos a = entry + o /\ a_size a = w /\ a_kind a = (if snd k then KSet else KGet)
              | _ => snd k = false
              end.

Lemma owns_cross : forall entry cs k1 k2 a b,
    owns entry (tops_of 0 cs) k1 a -> owns entry (tops_of 0 cs) k2 b -> k1 <> k2 -> apart a b.
Proof.
  intros entry cs [i s1] [j s2] a b [o1 [c1 [H1 [La [Ua Fa]]]]] [o2 [c2 [H2 [Lb [Ub Fb]]]]] Hne. cbn [fst snd] in *.
  destruct (lt_eq_lt_dec i j) as [[Hlt|Heq]|Hgt].
  - left. left. pose proof (tops_sorted _ _ _ _ _ _ _ _ Hlt H1 H2). lia.
  - subst j. rewrite H1 in H2. inversion H2; subst o2 c2.
    destruct c1 as [l|n|n|l]; try (subst; congruence).
    destruct Fa as [Pa [Sa Ka]], Fb as [Pb [Sb Kb]]. right. unfold feed_pair.
    repeat split; try congruence.
    destruct s1, s2; try congruence; [right|left]; auto.
  - left. right. pose proof (tops_sorted _ _ _ _ _ _ _ _ Hgt H2 H1). lia.
Qed.

(* a trace whose accesses are pairwise apart and each belong to a key that the walk took between `used` and `used'` *)
Definition tr_ok2 (entry : N) (T : list (N * skel)) (used used' : list key) (tr : list access) : Prop :=
  separated tr /\ Forall (fun a => exists k, In k used' /\ ~ In k used /\ owns entry T k a) tr.

Lemma tr_ok2_nil : forall e T u u', tr_ok2 e T u u' [].
Proof. intros. split; [exact I|constructor]. Qed.

Lemma tr_ok2_weaken : forall e T u0 u u1 u2 tr,
    tr_ok2 e T u u1 tr -> incl u0 u -> incl u1 u2 -> tr_ok2 e T u0 u2 tr.
Proof.
  intros e T u0 u u1 u2 tr [Hs Hf] H0 H12. split; [exact Hs|].
  eapply Forall_impl; [|exact Hf]. intros a [k [Hin [Hnin Ho]]]. exists k. repeat split; auto.
Qed.

Lemma tr_ok2_app : forall e cs u u1 u2 t1 t2,
    tr_ok2 e (tops_of 0 cs) u u1 t1 -> tr_ok2 e (tops_of 0 cs) u1 u2 t2 -> incl u u1 -> incl u1 u2 ->
    tr_ok2 e (tops_of 0 cs) u u2 (t1 ++ t2).
Proof.
  intros e cs u u1 u2 t1 t2 [S1 F1] [S2 F2] H01 H12. split.
  - apply separated_app; auto. intros a b Ha Hb.
    rewrite Forall_forall in F1, F2. destruct (F1 a Ha) as [k1 [I1 [_ O1]]]. destruct (F2 b Hb) as [k2 [_ [N2 O2]]].
    eapply owns_cross; eauto. intros E. subst k2. contradiction.
  - apply Forall_app. split.
    + eapply Forall_impl; [|exact F1]. intros a [k [Hin [Hnin Ho]]]. exists k. repeat split; auto.
    + eapply Forall_impl; [|exact F2]. intros a [k [Hin [Hnin Ho]]]. exists k. repeat split; auto.
Qed.

(* ------------------------------------------------------------------------------------------------ *)
(* the walk only adds keys *)

Definition mono (used : list key) (w : wres) : Prop :=
  match w with
  | WFail => True
  | WFall _ u' => incl used u'
  | WRet u' => incl used u'
  end.

Lemma use_incl : forall s cur used T u, use s cur used T = Some u -> incl used u.
Proof.
  intros s cur used T u H. apply use_spec in H. destruct H as [j [c [-> _]]]. apply incl_tl, incl_refl.
Qed.

Lemma mono_trans : forall u0 u1 w, incl u0 u1 -> mono u1 w -> mono u0 w.
Proof. intros u0 u1 [|c u|u] H01 H; cbn in *; auto; eapply incl_tran; eauto. Qed.

Section WalkMono.
  Variable sks : list skel.
  Variable f : func.
  Variable T : list (N * skel).
  Variable CL : list cell.
  Variable strict : bool.
  Variable recW : list ev -> N -> list key -> wres.
  Hypothesis HrecW : forall evs cur used, mono used (recW evs cur used).

  Lemma walk_arms_mono : forall arms cur c0 used c u,
      walk_arms f recW arms cur c0 used = Some (c, u) -> incl used u.
  Proof.
    induction arms as [|a r IH]; intros cur c0 used c u H; cbn [walk_arms] in H.
    - destruct c0; [|discriminate]. inversion H; subst. apply incl_refl.
    - destruct (block f a) as [ab|]; [|discriminate].
      pose proof (HrecW ab cur used) as Hm.
      destruct (recW ab cur used) as [|ca ua|ua]; try discriminate. cbn in Hm.
      destruct c0 as [c'|].
      + destruct (N.eqb ca c'); [|discriminate]. apply IH in H. eapply incl_tran; eauto.
      + apply IH in H. eapply incl_tran; eauto.
  Qed.

  Lemma walk_evs_mono : forall evs cur used, mono used (walk_evs sks f T CL strict recW evs cur used).
  Proof.
    induction evs as [|e rest IH]; intros cur used.
    - cbn. apply incl_refl.
    - destruct e as [n|n|w|w|len| |idx| |arms m| | ]; cbn [walk_evs]; try exact I; try apply IH.
      + destruct (cur <? n); [exact I|apply IH].
      + destruct (use (SGet w) cur used T) as [u|] eqn:E; [|exact I].
        eapply mono_trans; [eapply use_incl; eauto|apply IH].
      + destruct (N.eqb cur 0); [|exact I].
        destruct (use (SRet w) cur used T) as [u|] eqn:E; [|exact I]. cbn. eapply use_incl; eauto.
      + destruct (use (SDelay len) cur used T) as [u|] eqn:E; [|exact I].
        eapply mono_trans; [eapply use_incl; eauto|apply IH].
      + destruct (use SMem cur used T) as [u|] eqn:E; [|exact I].
        eapply mono_trans; [eapply use_incl; eauto|apply IH].
      + destruct (nth_error sks idx) as [g|]; [|exact I].
        destruct (stateful g); [|apply IH].
        destruct (use (SCall g) cur used T) as [u|] eqn:E.
        * eapply mono_trans; [eapply use_incl; eauto|apply IH].
        * destruct (negb strict && shared_ok cur g CL); [apply IH|exact I].
      + destruct (walk_arms f recW arms cur None used) as [[c u]|] eqn:Ea; [|exact I].
        destruct (block f m) as [mb|]; [|exact I].
        apply walk_arms_mono in Ea.
        pose proof (HrecW mb c u) as Hm.
        destruct (recW mb c u) as [|c2 u2|u2]; cbn in Hm; [exact I| |].
        * eapply mono_trans; [|apply IH]. eapply incl_tran; eauto.
        * cbn. eapply incl_tran; eauto.
      + destruct (N.eqb cur 0); [cbn; apply incl_refl|exact I].
  Qed.
End WalkMono.

Lemma walk_mono : forall k sks f T CL strict evs cur used, mono used (walk k sks f T CL strict evs cur used).
Proof.
  induction k as [|k IH]; intros; [exact I|]. cbn [walk]. apply walk_evs_mono. intros. apply IH.
Qed.
