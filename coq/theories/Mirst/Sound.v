(* Mirst/Sound.v — soundness of the static checker: an accepted program never faults, every access of every path hits a
   cell of the published skeleton of the function that runs, and every call returns with the cursor where it started. *)
From Coq Require Import List NArith Bool Lia Arith.
From Mimium Require Import StateTree.Model StateTree.Lemmas Mirst.Model Mirst.Spec Mirst.Cells.
Import ListNotations.
Local Open Scope N_scope.

(* what the walk's answer promises about the interpreter's outcome on the same events; the function's layout starts at
   `entry`, the walk's cursor is relative to it *)
Definition conf (entry : N) (sk : skel) (w : wres) (o : outcome) : Prop :=
  match w with
  | WFail => True
  | WFall c _ =>
      match o with
      | Fault => False
      | Stop tr => Forall (access_ok entry sk) tr
      | Fin c' tr _ r => r = false /\ c' = entry + c /\ Forall (access_ok entry sk) tr
      end
  | WRet _ => fn_ok entry sk o
  end.

Lemma conf_stop : forall e sk w tr, Forall (access_ok e sk) tr -> conf e sk w (Stop tr).
Proof. intros e sk [|c u|u] tr H; cbn; auto. Qed.

Lemma conf_pre : forall e sk w t o,
    Forall (access_ok e sk) t -> conf e sk w o -> conf e sk w (pre t o).
Proof.
  intros e sk [|c u|u] t [|tr|c' tr orc r] Ht H; cbn in *; auto.
  - now apply Forall_app.
  - destruct H as [H1 [H2 H3]]. repeat split; auto. now apply Forall_app.
  - now apply Forall_app.
  - destruct H as [H1 [H2 H3]]. repeat split; auto. now apply Forall_app.
Qed.

Lemma conf_andthen : forall e sk c u w o k,
    conf e sk (WFall c u) o ->
    (forall orc', conf e sk w (k (e + c) orc')) ->
    conf e sk w (andthen o k).
Proof.
  intros e sk c u w [|tr|c' tr orc r] k H Hk; cbn in H.
  - contradiction.
  - cbn [andthen]. now apply conf_stop.
  - destruct H as [Hr [Hc Hf]]. subst r c'. cbn [andthen]. apply conf_pre; auto.
Qed.

Lemma conf_ret_andthen : forall e sk u o k, conf e sk (WRet u) o -> andthen o k = o.
Proof.
  intros e sk u [|tr|c' tr orc r] k H; cbn in *; try reflexivity.
  destruct H as [Hr _]. subst r. reflexivity.
Qed.

Lemma conf_after_call : forall e sk w e' skg o k,
    fn_ok e' skg o ->
    (forall a, access_ok e' skg a -> access_ok e sk a) ->
    (forall orc', conf e sk w (k e' orc')) ->
    conf e sk w (after_call o k).
Proof.
  intros e sk w e' skg [|tr|c' tr orc r] k H Hincl Hk; cbn in H.
  - contradiction.
  - cbn [after_call]. apply conf_stop. eapply Forall_impl; eauto.
  - destruct H as [Hr [Hc Hf]]. subst r c'. cbn [after_call]. apply conf_pre; auto.
    eapply Forall_impl; eauto.
Qed.

Lemma choose_in : forall arms x, arms <> [] -> exists a, choose arms x = Some a /\ In a arms.
Proof.
  intros arms x Hne. unfold choose.
  destruct (nth_error arms (Nat.min x (length arms - 1))) as [a|] eqn:E.
  - exists a. split; auto. eapply nth_error_In; eauto.
  - apply nth_error_None in E. destruct arms; [congruence|]. cbn [length] in E. lia.
Qed.

Lemma nth_error_map_inv : forall (A B : Type) (g : A -> B) l i y,
    nth_error (map g l) i = Some y -> exists x, nth_error l i = Some x /\ g x = y.
Proof.
  intros A B g l. induction l as [|x r IH]; intros [|i] y H; cbn in *; try discriminate.
  - inversion H. eauto.
  - eauto.
Qed.

Section Step.
  Variable p : prog.
  Variable f : func.
  Variable cs : list skel.
  Variable recR : func -> list ev -> N -> list nat -> outcome.
  Variable recW : list ev -> N -> list key -> wres.
  Variable entry : N.
  Variable strict : bool.

  Let T := tops_of 0 cs.
  Let CL := cells_list 0 cs.
  Let sks := map f_skel p.
  Let sk := FnCall cs.

  (* the recursive walk and the recursive interpreter agree on the blocks of this function *)
  Hypothesis Hblk : forall evs cur used orc, conf entry sk (recW evs cur used) (recR f evs (entry + cur) orc).
  (* every function of the program has an entry block and, called anywhere, behaves *)
  Hypothesis Hb0 : forall idx g, nth_error p idx = Some g -> exists b0, block g 0 = Some b0.
  Hypothesis Hcall : forall idx g b0 e orc,
      nth_error p idx = Some g -> block g 0 = Some b0 -> fn_ok e (f_skel g) (recR g b0 e orc).

  Lemma walk_arms_spec : forall arms cur c0 used c u,
      walk_arms f recW arms cur c0 used = Some (c, u) ->
      (forall a, In a arms -> exists ab ua ua', block f a = Some ab /\ recW ab cur ua = WFall c ua') /\
      (forall c', c0 = Some c' -> c = c') /\
      (c0 = None -> arms <> []).
  Proof.
    induction arms as [|a r IH]; intros cur c0 used c u H; cbn [walk_arms] in H.
    - destruct c0 as [c'|]; [|discriminate]. inversion H; subst. repeat split.
      + intros a [].
      + intros c'' E. now inversion E.
      + discriminate.
    - destruct (block f a) as [ab|] eqn:Eb; [|discriminate].
      destruct (recW ab cur used) as [|ca ua|ua] eqn:Er; try discriminate.
      destruct c0 as [c'|].
      + destruct (N.eqb ca c') eqn:Ec; [|discriminate]. apply N.eqb_eq in Ec. subst ca.
        apply IH in H. destruct H as [H1 [H2 _]]. specialize (H2 c' eq_refl). subst c'.
        repeat split.
        * intros a' [<-|Hin]; [exists ab, used, ua; auto|auto].
        * intros c'' E. now inversion E.
        * discriminate.
      + apply IH in H. destruct H as [H1 [H2 _]]. specialize (H2 ca eq_refl). subst ca.
        repeat split.
        * intros a' [<-|Hin]; [exists ab, used, ua; auto|auto].
        * discriminate.
        * discriminate.
  Qed.

  Lemma site_step : forall s cur used u a w o,
      use s cur used T = Some u ->
      (forall c, site_matches s c = true -> access_ok (entry + cur) c a) ->
      conf entry sk w o ->
      conf entry sk w (pre [a] o).
  Proof.
    intros s cur used u a w o Hu Hs Hc. apply conf_pre; auto. constructor; [|constructor].
    apply use_in in Hu. destruct Hu as [c [Hin Hm]].
    eapply child_access_ok; eauto.
  Qed.

  Lemma walk_evs_run_evs : forall evs cur used orc,
      conf entry sk (walk_evs sks f T CL strict recW evs cur used) (run_evs p recR f evs (entry + cur) orc).
  Proof.
    induction evs as [|e rest IH]; intros cur used orc.
    - cbn. repeat split; auto.
    - destruct e as [n|n|w|w|len| |idx| |arms m| | ]; cbn [walk_evs run_evs].
      + (* EPush *) replace (entry + cur + n) with (entry + (cur + n)) by lia. apply IH.
      + (* EPop *) destruct (N.ltb_spec cur n) as [Hlt|Hge]; [exact I|].
        destruct (N.ltb_spec (entry + cur) n) as [Hlt'|_]; [lia|].
        replace (entry + cur - n) with (entry + (cur - n)) by lia. apply IH.
      + (* EGet *) destruct (use (SGet w) cur used T) as [u|] eqn:Eu; [|exact I].
        eapply site_step; eauto. intros c Hm. now apply site_get_ok.
      + (* ERetFeed *) destruct (N.eqb_spec cur 0) as [->|_]; [|exact I].
        destruct (use (SRet w) 0 used T) as [u|] eqn:Eu; [|exact I].
        cbn. repeat split; [lia|]. constructor; [|constructor].
        apply use_in in Eu. destruct Eu as [c [Hin Hm]].
        eapply child_access_ok; eauto. now apply site_ret_ok.
      + (* EDelay *) destruct (use (SDelay len) cur used T) as [u|] eqn:Eu; [|exact I].
        eapply site_step; eauto. intros c Hm. now apply site_delay_ok.
      + (* EMem *) destruct (use SMem cur used T) as [u|] eqn:Eu; [|exact I].
        eapply site_step; eauto. intros c Hm. now apply site_mem_ok.
      + (* ECall *) destruct (nth_error sks idx) as [gs|] eqn:Eg; [|exact I].
        apply nth_error_map_inv in Eg. destruct Eg as [g [Eg Hgs]]. rewrite Eg.
        destruct (Hb0 _ _ Eg) as [b0 Eb0]. rewrite Eb0.
        pose proof (Hcall idx g b0 (entry + cur) orc Eg Eb0) as Hok.
        destruct (stateful gs) eqn:Est.
        * destruct (use (SCall gs) cur used T) as [u|] eqn:Eu.
          -- eapply conf_after_call; [exact Hok| |intros; apply IH].
             apply use_in in Eu. destruct Eu as [c [Hin Hm]]. apply site_call_eq in Hm. subst c gs.
             intros a Ha. eapply child_access_ok; eauto.
          -- destruct (negb strict && shared_ok cur gs CL) eqn:Esh; [|exact I].
             apply andb_prop in Esh. destruct Esh as [_ Esh]. subst gs.
             eapply conf_after_call; [exact Hok| |intros; apply IH].
             intros a Ha. eapply shared_access_ok; eauto.
        * eapply conf_after_call; [exact Hok| |intros; apply IH].
          subst gs. destruct (f_skel g) as [l|n|n|[|x r]]; try discriminate.
          intros a Ha. exfalso. eapply no_cells_empty; eauto.
      + (* EOther *) apply IH.
      + (* EBranch *) destruct (walk_arms f recW arms cur None used) as [[c u]|] eqn:Ea; [|exact I].
        destruct (block f m) as [mb|] eqn:Em; [|exact I].
        apply walk_arms_spec in Ea. destruct Ea as [Harms [_ Hne]]. specialize (Hne eq_refl).
        destruct (pick orc) as [x orc1].
        destruct (choose_in arms x Hne) as [a [Ech Hin]]. rewrite Ech.
        destruct (Harms a Hin) as [ab [ua [ua' [Eab Hw]]]]. rewrite Eab.
        pose proof (Hblk ab cur ua orc1) as Harm. rewrite Hw in Harm.
        destruct (recW mb c u) as [|c2 u2|u2] eqn:Erm.
        * exact I.
        * eapply conf_andthen; [exact Harm|]. intros o1.
          pose proof (Hblk mb c u o1) as Hm. rewrite Erm in Hm.
          eapply conf_andthen; [exact Hm|]. intros o2. apply IH.
        * eapply conf_andthen; [exact Harm|]. intros o1.
          pose proof (Hblk mb c u o1) as Hm. rewrite Erm in Hm.
          erewrite conf_ret_andthen; [|exact Hm]. exact Hm.
      + (* EReturn *) destruct (N.eqb_spec cur 0) as [->|_]; [|exact I].
        cbn. repeat split; [lia|constructor].
      + (* EBad *) exact I.
  Qed.
End Step.

(* ------------------------------------------------------------------------------------------------ *)
(* tying the knot over the two fuels *)

Lemma check_fn_inv : forall strict sks f,
    check_fn strict sks f = true ->
    exists cs b0 used, f_skel f = FnCall cs /\ block f 0 = Some b0 /\
                       walk (S (length (f_blocks f))) sks f (tops_of 0 cs) (cells_list 0 cs) strict b0 0 [] = WRet used.
Proof.
  unfold check_fn. intros strict sks f H.
  destruct (f_skel f) as [l|n|n|cs]; try discriminate.
  destruct (block f 0) as [b0|]; [|discriminate].
  destruct (walk _ _ _ _ _ _ _ _ _) as [|c u|u] eqn:E; try discriminate.
  exists cs, b0, u. auto.
Qed.

Lemma check_prog_fn : forall s p idx f,
    check_prog_s s p = true -> nth_error p idx = Some f -> check_fn s (map f_skel p) f = true.
Proof.
  unfold check_prog_s. intros s p idx f H Hn. rewrite forallb_forall in H. apply H. eapply nth_error_In; eauto.
Qed.

Lemma walk_run : forall s p, check_prog_s s p = true ->
    forall n k idx f cs strict evs cur used entry orc,
      nth_error p idx = Some f -> f_skel f = FnCall cs ->
      conf entry (FnCall cs) (walk k (map f_skel p) f (tops_of 0 cs) (cells_list 0 cs) strict evs cur used)
           (run n p f evs (entry + cur) orc).
Proof.
  intros s p Hp. induction n as [|n IH]; intros k idx f cs strict evs cur used entry orc Hf Hsk.
  - cbn [run]. apply conf_stop. constructor.
  - destruct k as [|k]; [exact I|]. cbn [walk run].
    apply walk_evs_run_evs.
    + intros evs' cur' used' orc'. eapply IH; eauto.
    + intros i g Hg. pose proof (check_prog_fn _ _ _ _ Hp Hg) as Hc. apply check_fn_inv in Hc.
      destruct Hc as [_ [b0 [_ [_ [Hb _]]]]]. eauto.
    + intros i g b0 e orc' Hg Hb. pose proof (check_prog_fn _ _ _ _ Hp Hg) as Hc. apply check_fn_inv in Hc.
      destruct Hc as [csg [b0' [u [Hskg [Hb' Hw]]]]]. rewrite Hb in Hb'. inversion Hb'; subst b0'.
      pose proof (IH (S (length (f_blocks g))) i g csg s b0 0 [] e orc' Hg Hskg) as H.
      rewrite Hw in H. rewrite Hskg. replace (e + 0) with e in H by lia. exact H.
Qed.

(* the soundness theorem *)
Theorem check_sound_s : forall s p, check_prog_s s p = true ->
    forall idx f, nth_error p idx = Some f ->
    forall fuel entry orc, fn_ok entry (f_skel f) (run_fn fuel p f entry orc).
Proof.
  intros s p Hp idx f Hf fuel entry orc.
  pose proof (check_prog_fn _ _ _ _ Hp Hf) as Hc. apply check_fn_inv in Hc.
  destruct Hc as [cs [b0 [u [Hsk [Hb Hw]]]]].
  pose proof (walk_run s p Hp fuel (S (length (f_blocks f))) idx f cs s b0 0 [] entry orc Hf Hsk) as H.
  rewrite Hw in H. replace (entry + 0) with entry in H by lia.
  unfold run_fn. rewrite Hb, Hsk.
  destruct (run fuel p f b0 entry orc) as [|tr|c tr o r]; cbn in *; auto.
  destruct H as [-> [-> Hf']]. cbn. repeat split; auto. now rewrite app_nil_r.
Qed.

Theorem check_sound : forall p, check_prog p = true ->
    forall idx f, nth_error p idx = Some f ->
    forall fuel entry orc, fn_ok entry (f_skel f) (run_fn fuel p f entry orc).
Proof. intros p Hp. exact (check_sound_s false p Hp). Qed.

Corollary check_sound_bounds : forall p, check_prog p = true ->
    forall idx f, nth_error p idx = Some f ->
    forall fuel entry orc a,
      match run_fn fuel p f entry orc with
      | Fault => False
      | Stop tr | Fin _ tr _ _ => In a tr -> entry <= a_pos a /\ a_pos a + a_size a <= entry + size (f_skel f)
      end.
Proof.
  intros p Hp idx f Hf fuel entry orc a.
  pose proof (check_sound p Hp idx f Hf fuel entry orc) as H.
  destruct (run_fn fuel p f entry orc) as [|tr|c tr o r]; cbn in H; auto.
  - intros Hin. rewrite Forall_forall in H. now apply access_ok_bounds, H.
  - destruct H as [_ [_ H]]. intros Hin. rewrite Forall_forall in H. now apply access_ok_bounds, H.
Qed.
