(* Mirst/Cells.v — the layout published by a skeleton: cells, top-level children, bounds, the cell search of the checker *)
From Coq Require Import List NArith Bool Lia Arith.
From Mimium Require Import Tables.StateTreeConsts StateTree.Model StateTree.Lemmas Mirst.Model Mirst.Spec.
Import ListNotations.
Local Open Scope N_scope.

Lemma triple_inj : forall (A B C : Type) (a a' : A) (b b' : B) (c c' : C),
    (a, b, c) = (a', b', c') -> a = a' /\ b = b' /\ c = c'.
Proof. intros A B C a a' b b' c c' H. inversion H. auto. Qed.

Lemma cells_at_fncall : forall cs b, cells_at b (FnCall cs) = cells_list b cs.
Proof.
  induction cs as [|c r IH]; intros b; [reflexivity|].
  cbn [cells_list]. rewrite <- IH. reflexivity.
Qed.

Lemma size_fncall_cons : forall c r, size (FnCall (c :: r)) = size c + size (FnCall r).
Proof. intros. reflexivity. Qed.

(* a top-level child at offset o contributes its cells, laid out from o *)
Lemma tops_cells_incl : forall cs b o c,
    In (o, c) (tops_of b cs) -> incl (cells_at o c) (cells_list b cs).
Proof.
  induction cs as [|x r IH]; intros b o c Hin; [destruct Hin|].
  cbn [tops_of] in Hin. cbn [cells_list]. destruct Hin as [Heq|Hin].
  - inversion Heq; subst. apply incl_appl, incl_refl.
  - apply incl_appr. eapply IH; eauto.
Qed.

Lemma tops_shift : forall cs b e o c,
    In (o, c) (tops_of b cs) -> In (e + o, c) (tops_of (e + b) cs).
Proof.
  induction cs as [|x r IH]; intros b e o c Hin; [destruct Hin|].
  cbn [tops_of] in *. destruct Hin as [Heq|Hin].
  - inversion Heq; subst. now left.
  - right. replace (e + b + size x) with (e + (b + size x)) by lia. now apply IH.
Qed.

(* the cells of the child at (relative) offset o of function skeleton FnCall cs, laid out from entry + o, are cells of the
   function's layout laid out from entry *)
Lemma child_cells_incl : forall cs entry o c,
    In (o, c) (tops_of 0 cs) -> incl (cells_at (entry + o) c) (cells_at entry (FnCall cs)).
Proof.
  intros cs entry o c Hin. rewrite cells_at_fncall.
  apply tops_cells_incl. replace entry with (entry + 0) at 2 by lia. now apply tops_shift.
Qed.

Lemma child_access_ok : forall cs entry o c a,
    In (o, c) (tops_of 0 cs) -> access_ok (entry + o) c a -> access_ok entry (FnCall cs) a.
Proof.
  intros cs entry o c a Hin [x [Hx Hh]]. exists x. split; [|exact Hh].
  eapply child_cells_incl; eauto.
Qed.

Lemma no_cells_empty : forall entry a, ~ access_ok entry (FnCall []) a.
Proof. intros entry a [c [[] _]]. Qed.

(* every cell lies inside [base, base + size) *)
Lemma cells_bounds : forall s b o k z,
    In (o, k, z) (cells_at b s) -> b <= o /\ o + z <= b + size s.
Proof.
  induction s as [l|n|n|cs IH] using skel_ind'; intros b o k z Hin.
  - destruct Hin as [H|[]]. apply triple_inj in H. destruct H as [<- [_ <-]]. lia.
  - destruct Hin as [H|[]]. apply triple_inj in H. destruct H as [<- [_ <-]]. cbn [size]. lia.
  - destruct Hin as [H|[]]. apply triple_inj in H. destruct H as [<- [_ <-]]. cbn [size]. lia.
  - rewrite cells_at_fncall in Hin. revert b Hin.
    induction IH as [|x r Hx _ IHr]; intros b Hin; [destruct Hin|].
    cbn [cells_list] in Hin. rewrite size_fncall_cons. apply in_app_or in Hin. destruct Hin as [Hin|Hin].
    + apply Hx in Hin. lia.
    + apply IHr in Hin. lia.
Qed.

Lemma access_ok_bounds : forall entry sk a,
    access_ok entry sk a -> entry <= a_pos a /\ a_pos a + a_size a <= entry + size sk.
Proof.
  intros entry sk a [[[o k] z] [Hin [Hp [Hs _]]]]. cbn in Hp, Hs. rewrite Hp, Hs.
  eapply cells_bounds; eauto.
Qed.

(* ------------------------------------------------------------------------------------------------ *)
(* the cell search *)

Lemma find_cell_spec : forall s cur used T i j,
    find_cell s cur used i T = Some j ->
    exists c, nth_error T (j - i) = Some (cur, c) /\ site_matches s c = true /\
              mem_key (j, slot s) used = false /\ (i <= j)%nat.
Proof.
  induction T as [|[o c] r IH]; intros i j H; [discriminate|].
  cbn [find_cell] in H.
  destruct (N.eqb o cur && site_matches s c && negb (mem_key (i, slot s) used)) eqn:E.
  - inversion H; subst j. apply andb_prop in E. destruct E as [E E3]. apply andb_prop in E. destruct E as [E1 E2].
    apply N.eqb_eq in E1. subst o. exists c. rewrite Nat.sub_diag. repeat split; auto.
    now apply negb_true_iff in E3.
  - apply IH in H. destruct H as [c' [Hn [Hm [Hu Hle]]]]. exists c'.
    replace (j - i)%nat with (S (j - S i)) by lia. repeat split; auto. lia.
Qed.

Lemma use_spec : forall s cur used T u,
    use s cur used T = Some u ->
    exists j c, u = (j, slot s) :: used /\ nth_error T j = Some (cur, c) /\ site_matches s c = true /\
                mem_key (j, slot s) used = false.
Proof.
  unfold use. intros s cur used T u H. destruct (find_cell s cur used 0 T) as [j|] eqn:E; [|discriminate].
  inversion H; subst u. apply find_cell_spec in E. destruct E as [c [Hn [Hm [Hu _]]]].
  rewrite Nat.sub_0_r in Hn. exists j, c. auto.
Qed.

Lemma use_in : forall s cur used T u,
    use s cur used T = Some u -> exists c, In (cur, c) T /\ site_matches s c = true.
Proof.
  intros s cur used T u H. apply use_spec in H. destruct H as [j [c [_ [Hn [Hm _]]]]].
  exists c. split; auto. eapply nth_error_In; eauto.
Qed.

(* what a matching site touches is exactly the matched child's only cell *)
Lemma site_get_ok : forall w c entry o, site_matches (SGet w) c = true ->
    access_ok (entry + o) c {| a_kind := KGet; a_pos := entry + o; a_size := w |}.
Proof.
  intros w [l|n|n|cs] entry o H; try discriminate. cbn in H. apply N.eqb_eq in H. subst n.
  exists (entry + o, CFeed, w). split; [now left|]. repeat split.
Qed.

Lemma site_ret_ok : forall w c entry o, site_matches (SRet w) c = true ->
    access_ok (entry + o) c {| a_kind := KSet; a_pos := entry + o; a_size := w |}.
Proof.
  intros w [l|n|n|cs] entry o H; try discriminate. cbn in H. apply N.eqb_eq in H. subst n.
  exists (entry + o, CFeed, w). split; [now left|]. repeat split.
Qed.

Lemma site_mem_ok : forall c entry o, site_matches SMem c = true ->
    access_ok (entry + o) c {| a_kind := KMem; a_pos := entry + o; a_size := 1 |}.
Proof.
  intros [l|n|n|cs] entry o H; try discriminate. cbn in H. apply N.eqb_eq in H. subst n.
  exists (entry + o, CMem, 1). split; [now left|]. repeat split.
Qed.

Lemma site_delay_ok : forall len c entry o, site_matches (SDelay len) c = true ->
    access_ok (entry + o) c {| a_kind := KDelay; a_pos := entry + o; a_size := len + RING_HEADER |}.
Proof.
  intros len [l|n|n|cs] entry o H; try discriminate. cbn [site_matches] in H.
  apply andb_prop in H. destruct H as [H1 H2]. apply N.eqb_eq in H1. apply N.eqb_eq in H2. subst l.
  exists (entry + o, CDelay, size (Delay len)). split; [now left|]. repeat split. cbn [snd a_size]. exact H2.
Qed.

Lemma site_call_eq : forall g c, site_matches (SCall g) c = true -> c = g.
Proof.
  intros g [l|n|n|cs] H; try discriminate. cbn [site_matches] in H. symmetry. now apply skel_eqb_eq.
Qed.

(* ------------------------------------------------------------------------------------------------ *)
(* layouts move with their base; shared cells *)

Definition shift (e : N) (c : cell) : cell := (e + fst (fst c), snd (fst c), snd c).

Lemma cells_at_shift : forall s e b, cells_at (e + b) s = map (shift e) (cells_at b s).
Proof.
  induction s as [l|n|n|cs IH] using skel_ind'; intros e b; try reflexivity.
  rewrite !cells_at_fncall. revert b.
  induction IH as [|x r Hx _ IHr]; intros b; [reflexivity|].
  cbn [cells_list]. rewrite map_app, <- Hx. f_equal.
  replace (e + b + size x) with (e + (b + size x)) by lia. apply IHr.
Qed.

Lemma ckind_eqb_eq : forall a b, ckind_eqb a b = true -> a = b.
Proof. intros [] [] H; try discriminate; reflexivity. Qed.

Lemma cell_eqb_eq : forall a b, cell_eqb a b = true -> a = b.
Proof.
  intros [[o k] z] [[o' k'] z'] H. unfold cell_eqb in H. cbn [fst snd] in H.
  apply andb_prop in H. destruct H as [H H3]. apply andb_prop in H. destruct H as [H1 H2].
  apply N.eqb_eq in H1. apply N.eqb_eq in H3. apply ckind_eqb_eq in H2. now subst.
Qed.

Lemma shared_access_ok : forall cs entry cur g a,
    shared_ok cur g (cells_list 0 cs) = true ->
    access_ok (entry + cur) g a -> access_ok entry (FnCall cs) a.
Proof.
  intros cs entry cur g a Hs [c [Hin Hh]]. exists c. split; [|exact Hh].
  rewrite cells_at_shift in Hin. apply in_map_iff in Hin. destruct Hin as [c0 [<- Hin0]].
  unfold shared_ok in Hs. rewrite forallb_forall in Hs. specialize (Hs c0 Hin0).
  apply existsb_exists in Hs. destruct Hs as [c1 [Hin1 He]]. apply cell_eqb_eq in He. subst c1.
  replace entry with (entry + 0) at 2 by lia. rewrite cells_at_shift, cells_at_fncall.
  now apply in_map.
Qed.
