(* Mirst/SepSound.v — the separation theorem: a program accepted by the STRICT checker never touches a cell twice during
   one call (except that a Feed cell is read once and written once): every static site owns its cell, on every path, at
   every call depth. *)
From Coq Require Import List NArith Bool Lia Arith.
From Mimium Require Import StateTree.Model StateTree.Lemmas Mirst.Model Mirst.Spec Mirst.Cells Mirst.Sound Mirst.Sep.
Import ListNotations.
Local Open Scope N_scope.

(* what the walk's answer promises in addition to `conf`: the accesses of the run are pairwise apart and belong to keys
   taken by this stretch of the walk *)
Definition extra (entry : N) (T : list (N * skel)) (used : list key) (w : wres) (o : outcome) : Prop :=
  match w with
  | WFail => True
  | WFall _ u' | WRet u' =>
      match o with
      | Fault => True
      | Stop tr | Fin _ tr _ _ => tr_ok2 entry T used u' tr
      end
  end.

Definition used_of (w : wres) (d : list key) : list key :=
  match w with WFail => d | WFall _ u | WRet u => u end.

Definition sep_out (o : outcome) : Prop :=
  match o with Fault => True | Stop tr | Fin _ tr _ _ => separated tr end.

Lemma extra_pre : forall e cs u u1 w t o,
    tr_ok2 e (tops_of 0 cs) u u1 t -> incl u u1 -> mono u1 w ->
    extra e (tops_of 0 cs) u1 w o -> extra e (tops_of 0 cs) u w (pre t o).
Proof.
  intros e cs u u1 [|c u'|u'] t [|tr|c' tr orc r] Ht H01 Hm H; cbn in *; auto;
    eapply tr_ok2_app; eauto.
Qed.

Lemma extra_stop : forall e cs u u1 w t,
    tr_ok2 e (tops_of 0 cs) u u1 t -> mono u1 w -> extra e (tops_of 0 cs) u w (Stop t).
Proof.
  intros e cs u u1 [|c u'|u'] t Ht Hm; cbn in *; auto; eapply tr_ok2_weaken; eauto; apply incl_refl.
Qed.

Lemma no_access_empty : forall e tr, Forall (access_ok e (FnCall [])) tr -> tr = [].
Proof.
  intros e [|a r] H; [reflexivity|]. inversion H; subst. exfalso. eapply no_cells_empty; eauto.
Qed.

Lemma pre_nil : forall o, pre [] o = o.
Proof. intros [|tr|c tr orc r]; reflexivity. Qed.

Lemma pre_pre : forall t1 t2 o, pre t1 (pre t2 o) = pre (t1 ++ t2) o.
Proof. intros t1 t2 [|tr|c tr orc r]; cbn; auto; now rewrite app_assoc. Qed.

Section Step2.
  Variable p : prog.
  Variable f : func.
  Variable cs : list skel.
  Variable recR : func -> list ev -> N -> list nat -> outcome.
  Variable recW : list ev -> N -> list key -> wres.
  Variable entry : N.

  Let T := tops_of 0 cs.
  Let CL := cells_list 0 cs.
  Let sks := map f_skel p.
  Let sk := FnCall cs.

  Hypothesis Hblk : forall evs cur used orc, conf entry sk (recW evs cur used) (recR f evs (entry + cur) orc).
  Hypothesis Hblk2 : forall evs cur used orc, extra entry T used (recW evs cur used) (recR f evs (entry + cur) orc).
  Hypothesis HrecW : forall evs cur used, mono used (recW evs cur used).
  Hypothesis Hb0 : forall idx g, nth_error p idx = Some g -> exists b0, block g 0 = Some b0.
  Hypothesis Hcall : forall idx g b0 e orc,
      nth_error p idx = Some g -> block g 0 = Some b0 -> fn_ok e (f_skel g) (recR g b0 e orc).
  Hypothesis Hcall2 : forall idx g b0 e orc,
      nth_error p idx = Some g -> block g 0 = Some b0 -> sep_out (recR g b0 e orc).

  Lemma walk_arms_spec2 : forall arms cur c0 used c u,
      walk_arms f recW arms cur c0 used = Some (c, u) ->
      forall a, In a arms -> exists ab ua ua', block f a = Some ab /\ recW ab cur ua = WFall c ua' /\
                                              incl used ua /\ incl ua' u.
  Proof.
    induction arms as [|a r IH]; intros cur c0 used c u H x Hx; [destruct Hx|].
    cbn [walk_arms] in H.
    destruct (block f a) as [ab|] eqn:Eb; [|discriminate].
    pose proof (HrecW ab cur used) as Hm.
    destruct (recW ab cur used) as [|ca ua|ua] eqn:Er; try discriminate. cbn in Hm.
    assert (exists c0', walk_arms f recW r cur (Some c0') ua = Some (c, u) /\ (c0' = ca)) as [c0' [Hr Hc]].
    { destruct c0 as [c'|].
      - destruct (N.eqb_spec ca c') as [->|]; [|discriminate]. eauto.
      - eauto. }
    subst c0'.
    destruct Hx as [<-|Hx].
    - pose proof (walk_arms_spec f recW _ _ _ _ _ _ Hr) as [_ [Hc _]].
      specialize (Hc ca eq_refl). subst ca.
      exists ab, used, ua. repeat split; auto; [apply incl_refl|].
      eapply walk_arms_mono; eauto.
    - destruct (IH _ _ _ _ _ Hr x Hx) as [xb [xa [xa' [E1 [E2 [I1 I2]]]]]].
      exists xb, xa, xa'. repeat split; auto. eapply incl_tran; eauto.
  Qed.

  (* a single access made by a site that took key (j, slot s) *)
  Lemma site_tr : forall s cur used u a,
      use s cur used T = Some u ->
      (forall j c, nth_error T j = Some (cur, c) -> site_matches s c = true -> owns entry T (j, slot s) a) ->
      tr_ok2 entry T used u [a] /\ incl used u.
  Proof.
    intros s cur used u a Hu Ho. apply use_spec in Hu. destruct Hu as [j [c [-> [Hn [Hm Hf]]]]].
    split; [|apply incl_tl, incl_refl]. split; [cbn; auto|]. constructor; [|constructor].
    exists (j, slot s). repeat split; [now left|now apply mem_key_false|eauto].
  Qed.

  Lemma walk_evs_run_evs2 : forall evs cur used orc,
      extra entry T used (walk_evs sks f T CL true recW evs cur used) (run_evs p recR f evs (entry + cur) orc).
  Proof.
    assert (Hmono : forall evs cur used, mono used (walk_evs sks f T CL true recW evs cur used))
      by (intros; now apply walk_evs_mono).
    induction evs as [|e rest IH]; intros cur used orc.
    - cbn. apply tr_ok2_nil.
    - destruct e as [n|n|w|w|len| |idx| |arms m| | ]; cbn [walk_evs run_evs].
      + (* EPush *) replace (entry + cur + n) with (entry + (cur + n)) by lia. apply IH.
      + (* EPop *) destruct (N.ltb_spec cur n) as [Hlt|Hge]; [exact I|].
        destruct (N.ltb_spec (entry + cur) n) as [Hlt'|_]; [lia|].
        replace (entry + cur - n) with (entry + (cur - n)) by lia. apply IH.
      + (* EGet *) destruct (use (SGet w) cur used T) as [u|] eqn:Eu; [|exact I].
        destruct (site_tr _ _ _ _ {| a_kind := KGet; a_pos := entry + cur; a_size := w |} Eu) as [Ht Hi].
        { intros j c Hn Hm. destruct c as [l|x|x|l]; try discriminate. cbn in Hm. apply N.eqb_eq in Hm. subst x.
          exists cur, (Feed w). cbn [fst snd a_pos a_size a_kind size slot]. repeat split; auto; lia. }
        eapply extra_pre; eauto.
      + (* ERetFeed *) destruct (N.eqb_spec cur 0) as [->|_]; [|exact I].
        destruct (use (SRet w) 0 used T) as [u|] eqn:Eu; [|exact I].
        destruct (site_tr _ _ _ _ {| a_kind := KSet; a_pos := entry + 0; a_size := w |} Eu) as [Ht Hi].
        { intros j c Hn Hm. destruct c as [l|x|x|l]; try discriminate. cbn in Hm. apply N.eqb_eq in Hm. subst x.
          exists 0, (Feed w). cbn [fst snd a_pos a_size a_kind size slot]. repeat split; auto; lia. }
        cbn. exact Ht.
      + (* EDelay *) destruct (use (SDelay len) cur used T) as [u|] eqn:Eu; [|exact I].
        destruct (site_tr _ _ _ _ {| a_kind := KDelay; a_pos := entry + cur; a_size := len + RING_HEADER |} Eu) as [Ht Hi].
        { intros j c Hn Hm. destruct c as [l|x|x|l]; try discriminate. cbn [site_matches] in Hm.
          apply andb_prop in Hm. destruct Hm as [H1 H2]. apply N.eqb_eq in H1. apply N.eqb_eq in H2. subst l.
          exists cur, (Delay len). cbn [fst snd a_pos a_size a_kind slot]. repeat split; auto; lia. }
        eapply extra_pre; eauto.
      + (* EMem *) destruct (use SMem cur used T) as [u|] eqn:Eu; [|exact I].
        destruct (site_tr _ _ _ _ {| a_kind := KMem; a_pos := entry + cur; a_size := 1 |} Eu) as [Ht Hi].
        { intros j c Hn Hm. destruct c as [l|x|x|l]; try discriminate. cbn in Hm. apply N.eqb_eq in Hm. subst x.
          exists cur, (Mem 1). cbn [fst snd a_pos a_size a_kind size slot]. repeat split; auto; lia. }
        eapply extra_pre; eauto.
      + (* ECall *) destruct (nth_error sks idx) as [gs|] eqn:Eg; [|exact I].
        apply nth_error_map_inv in Eg. destruct Eg as [g [Eg Hgs]]. rewrite Eg.
        destruct (Hb0 _ _ Eg) as [b0 Eb0]. rewrite Eb0.
        pose proof (Hcall idx g b0 (entry + cur) orc Eg Eb0) as Hok.
        pose proof (Hcall2 idx g b0 (entry + cur) orc Eg Eb0) as Hsep.
        destruct (stateful gs) eqn:Est.
        * destruct (use (SCall gs) cur used T) as [u|] eqn:Eu; [|exact I].
          pose proof (use_incl _ _ _ _ _ Eu) as Hi.
          apply use_spec in Eu. destruct Eu as [j [c [-> [Hn [Hm Hf]]]]].
          assert (Hfn : exists l, c = FnCall l) by (destruct c; try discriminate; eauto).
          apply site_call_eq in Hm. subst c gs. destruct Hfn as [lg Hfn].
          assert (Hown : forall tr, separated tr -> Forall (access_ok (entry + cur) (f_skel g)) tr ->
                                    tr_ok2 entry T used ((j, slot (SCall (f_skel g))) :: used) tr).
          { intros tr Hs Hf'. split; [exact Hs|]. eapply Forall_impl; [|exact Hf'].
            intros a Ha. exists (j, false). repeat split; [now left|now apply mem_key_false|].
            apply access_ok_bounds in Ha. exists cur, (f_skel g). cbn [fst snd]. repeat split; auto; try lia.
            rewrite Hfn. reflexivity. }
          destruct (recR g b0 (entry + cur) orc) as [|tr|c' tr orc' r]; cbn in Hok, Hsep |- *.
          -- contradiction.
          -- eapply extra_stop; [apply Hown; auto|apply Hmono].
          -- destruct Hok as [-> [-> Hf']]. eapply extra_pre; [apply Hown; auto|exact Hi|apply Hmono|apply IH].
        * subst gs. destruct (f_skel g) as [l|n|n|[|x r]] eqn:Eskg; try discriminate.
          destruct (recR g b0 (entry + cur) orc) as [|tr|c' tr orc' r]; cbn in Hok |- *.
          -- contradiction.
          -- apply no_access_empty in Hok. subst tr. eapply extra_stop; [apply tr_ok2_nil|apply Hmono].
          -- destruct Hok as [-> [-> Hf']]. apply no_access_empty in Hf'. subst tr. cbn [after_call].
             rewrite pre_nil. apply IH.
      + (* EOther *) apply IH.
      + (* EBranch *) destruct (walk_arms f recW arms cur None used) as [[c u]|] eqn:Ea; [|exact I].
        destruct (block f m) as [mb|] eqn:Em; [|exact I].
        pose proof (walk_arms_spec f recW _ _ _ _ _ _ Ea) as [_ [_ Hne]].
        specialize (Hne eq_refl).
        pose proof (walk_arms_mono f recW HrecW _ _ _ _ _ _ Ea) as Hiu.
        destruct (pick orc) as [x orc1].
        destruct (choose_in arms x Hne) as [a [Ech Hin]]. rewrite Ech.
        destruct (walk_arms_spec2 _ _ _ _ _ _ Ea a Hin) as [ab [ua [ua' [Eab [Hw [Iua Iua']]]]]]. rewrite Eab.
        pose proof (Hblk ab cur ua orc1) as Harm. pose proof (Hblk2 ab cur ua orc1) as Harm2.
        rewrite Hw in Harm, Harm2.
        pose proof (HrecW mb c u) as Hmm.
        (* the whole answer of the walk, to know where its used-set ends *)
        set (wfin := match recW mb c u with WFall c2 u2 => walk_evs sks f T CL true recW rest c2 u2 | r => r end).
        assert (Hwfin : mono u wfin).
        { unfold wfin. destruct (recW mb c u) as [|c2 u2|u2]; cbn in Hmm |- *; auto.
          eapply mono_trans; [exact Hmm|apply Hmono]. }
        destruct (recR f ab (entry + cur) orc1) as [|tr1|c1 tr1 o1 r1]; cbn in Harm, Harm2.
        * contradiction.
        * (* the arm ran out of fuel *)
          cbn [andthen]. fold wfin. eapply extra_stop; [|exact Hwfin].
          eapply tr_ok2_weaken; eauto.
        * destruct Harm as [-> [-> Hf1]]. cbn [andthen].
          assert (Ht1 : tr_ok2 entry T used u tr1) by (eapply tr_ok2_weaken; eauto).
          pose proof (Hblk mb c u o1) as Hm. pose proof (Hblk2 mb c u o1) as Hm2.
          fold wfin. unfold wfin in *.
          destruct (recW mb c u) as [|c2 u2|u2] eqn:Erm; [exact I| |].
          -- cbn in Hmm.
             destruct (recR f mb (entry + c) o1) as [|tr2|c2' tr2 o2 r2]; cbn in Hm, Hm2.
             ++ contradiction.
             ++ cbn [andthen pre]. eapply extra_stop; [|apply Hmono].
                eapply tr_ok2_app; eauto.
             ++ destruct Hm as [-> [-> Hf2]]. cbn [andthen].
                assert (Ht12 : tr_ok2 entry T used u2 (tr1 ++ tr2)) by (eapply tr_ok2_app; eauto).
                rewrite pre_pre.
                eapply extra_pre; [exact Ht12|exact (incl_tran Hiu Hmm)|apply Hmono|apply IH].
          -- cbn in Hmm.
             destruct (recR f mb (entry + c) o1) as [|tr2|c2' tr2 o2 r2]; cbn in Hm, Hm2.
             ++ contradiction.
             ++ cbn [andthen pre]. cbn. eapply tr_ok2_app; eauto.
             ++ destruct Hm as [-> [-> Hf2]]. cbn [andthen pre]. cbn. eapply tr_ok2_app; eauto.
      + (* EReturn *) destruct (N.eqb_spec cur 0) as [->|_]; [|exact I]. cbn. apply tr_ok2_nil.
      + (* EBad *) exact I.
  Qed.
End Step2.

(* ------------------------------------------------------------------------------------------------ *)
(* tying the knot *)

Lemma callee_fn_ok : forall s p, check_prog_s s p = true ->
    forall n i g b0 e orc, nth_error p i = Some g -> block g 0 = Some b0 -> fn_ok e (f_skel g) (run n p g b0 e orc).
Proof.
  intros s p Hp n i g b0 e orc Hg Hb.
  pose proof (check_prog_fn _ _ _ _ Hp Hg) as Hc. apply check_fn_inv in Hc.
  destruct Hc as [csg [b0' [u [Hskg [Hb' Hw]]]]]. rewrite Hb in Hb'. inversion Hb'; subst b0'.
  pose proof (walk_run s p Hp n (S (length (f_blocks g))) i g csg s b0 0 [] e orc Hg Hskg) as H.
  rewrite Hw in H. rewrite Hskg. replace (e + 0) with e in H by lia. exact H.
Qed.

Lemma walk_run2 : forall p, check_prog_strict p = true ->
    forall n k idx f cs evs cur used entry orc,
      nth_error p idx = Some f -> f_skel f = FnCall cs ->
      extra entry (tops_of 0 cs) used
            (walk k (map f_skel p) f (tops_of 0 cs) (cells_list 0 cs) true evs cur used)
            (run n p f evs (entry + cur) orc).
Proof.
  intros p Hp. induction n as [|n IH]; intros k idx f cs evs cur used entry orc Hf Hsk.
  - cbn [run]. destruct (walk k _ _ _ _ _ _ _ _); cbn; auto using tr_ok2_nil.
  - destruct k as [|k]; [exact I|]. cbn [walk run].
    apply walk_evs_run_evs2.
    + intros evs' cur' used' orc'. eapply (walk_run true p Hp); eauto.
    + intros evs' cur' used' orc'. eapply IH; eauto.
    + intros. apply walk_mono.
    + intros i g Hg. pose proof (check_prog_fn _ _ _ _ Hp Hg) as Hc. apply check_fn_inv in Hc.
      destruct Hc as [_ [b0 [_ [_ [Hb _]]]]]. eauto.
    + intros i g b0 e orc' Hg Hb. eapply (callee_fn_ok true); eauto.
    + intros i g b0 e orc' Hg Hb.
      pose proof (check_prog_fn _ _ _ _ Hp Hg) as Hc. apply check_fn_inv in Hc.
      destruct Hc as [csg [b0' [u [Hskg [Hb' Hw]]]]]. rewrite Hb in Hb'. inversion Hb'; subst b0'.
      pose proof (IH (S (length (f_blocks g))) i g csg b0 0 [] e orc' Hg Hskg) as H.
      rewrite Hw in H. replace (e + 0) with e in H by lia.
      destruct (run n p g b0 e orc') as [|tr|c tr o r]; cbn in H |- *; auto; apply H.
Qed.

(* the separation theorem *)
Theorem strict_separated : forall p, check_prog_strict p = true ->
    forall idx f, nth_error p idx = Some f ->
    forall fuel entry orc,
      match run_fn fuel p f entry orc with
      | Fault => False
      | Stop tr | Fin _ tr _ _ => separated tr
      end.
Proof.
  intros p Hp idx f Hf fuel entry orc.
  pose proof (check_sound_s true p Hp idx f Hf fuel entry orc) as Hok.
  pose proof (check_prog_fn _ _ _ _ Hp Hf) as Hc. apply check_fn_inv in Hc.
  destruct Hc as [cs [b0 [u [Hsk [Hb Hw]]]]].
  pose proof (walk_run2 p Hp fuel (S (length (f_blocks f))) idx f cs b0 0 [] entry orc Hf Hsk) as H.
  rewrite Hw in H. replace (entry + 0) with entry in H by lia.
  unfold run_fn in *. rewrite Hb in *.
  destruct (run fuel p f b0 entry orc) as [|tr|c tr o r]; cbn in *; auto.
  - apply H.
  - destruct r; cbn in *; [|contradiction]. rewrite app_nil_r. apply H.
Qed.

(* the strict checker accepts less than the checker of C05 *)
Lemma strict_fn_lenient : forall p, check_prog_strict p = true ->
    forall idx f fuel entry orc, nth_error p idx = Some f -> fn_ok entry (f_skel f) (run_fn fuel p f entry orc).
Proof. intros p Hp idx f fuel entry orc Hf. exact (check_sound_s true p Hp idx f Hf fuel entry orc). Qed.
