(* Mirst/Follow.v — trace-directed, set-based version of the interpreter of Mirst/Model.v (executable definitions only).

   `accepts_trace` answers: is an OBSERVED access trace (hook H1 of the real VM, one dsp call) the trace of some path of the
   state view?  Instead of asking an oracle it advances, event by event, the SET of all states (cursor, rest of the
   observation) reachable along any arm of any branch; a state whose next expected access differs from the observation is
   dropped, equal states are merged (the rest is always a suffix of the one observation, so its length identifies it).
   (A pushed or popped set keeps its `closed` marks: the same event is applied to every state of the set.)
   The observation is in the hook's vocabulary: KGet = get_state, KSet = get_state_mut (one per SetState, two per Mem),
   KDelay = ring buffer; every event carries the length of the storage it touched, which must be the size of the skeleton
   of the function that owns the storage (vm.rs execute_idx / Closure::new resize the storage to total_size()).
   With cdepth > 0 an EOther event (CallCls / CallIndirect / external function) may consume any number of complete runs,
   each from cursor 0 to cursor 0 on a storage of its own, of stateful functions of the program whose skeleton has the
   size the next event reports: calls of closures (the hook records the accesses of all storages in one sequence; a
   closure without state of its own can only pass control on to such runs).  Runs nest at most cdepth deep and consume at
   least one event each. *)
From Coq Require Import List NArith Bool Arith.
From Mimium Require Import StateTree.Model Mirst.Model.
Import ListNotations.
Local Open Scope N_scope.

Definition obs : Type := (access * N)%type.             (* the access and the length of the storage it touched *)
(* cursor, rest of the observation, closed: every state a closure call can lead to from here (same cursor, shorter rest) is
   already in the set this state belongs to — so the next EOther need not search again *)
Definition st : Type := (N * list obs * bool)%type.
Definition cur_of (x : st) : N := fst (fst x).
Definition tr_of (x : st) : list obs := snd (fst x).
Definition closed_of (x : st) : bool := snd x.

Definition akind_eqb (a b : akind) : bool :=
  match a, b with
  | KGet, KGet | KSet, KSet | KMem, KMem | KDelay, KDelay => true
  | _, _ => false
  end.

Definition acc_eqb (a b : access) : bool :=
  akind_eqb (a_kind a) (a_kind b) && N.eqb (a_pos a) (a_pos b) && N.eqb (a_size a) (a_size b).

Definition tr_eqb (x y : list obs) : bool := Nat.eqb (length x) (length y).
Definition st_eqb (x y : st) : bool := N.eqb (cur_of x) (cur_of y) && tr_eqb (tr_of x) (tr_of y).

Definition add_st (x : st) (l : list st) : list st :=
  if existsb (st_eqb x) l
  then (if closed_of x then map (fun y : st => if st_eqb x y then (fst y, true) else y) l else l)
  else x :: l.
Definition union_st (l1 l2 : list st) : list st := fold_right add_st l2 l1.
Definition dedupe_st (l : list st) : list st := union_st l [].

Definition add_tr (x : list obs) (l : list (list obs)) : list (list obs) := if existsb (tr_eqb x) l then l else x :: l.
Definition dedupe_tr (l : list (list obs)) : list (list obs) := fold_right add_tr [] l.

(* the states that survive access a on a storage of length slen *)
Definition expect (mk : N -> access) (slen : N) (S : list st) : list st :=
  dedupe_st (flat_map (fun x : st =>
                         match tr_of x with
                         | (y, l) :: r => if acc_eqb (mk (cur_of x)) y && N.eqb l slen then [(cur_of x, r, false)] else []
                         | [] => []
                         end) S).

Definition RDEPTH : nat := 8.

Section FollowEvs.
  Variable p : prog.
  (* `rec cdepth stk f evs slen S` = (states that fell through, states that returned); stk = the functions being called *)
  Variable rec : nat -> list nat -> func -> list ev -> N -> list st -> list st * list st.

  (* one complete call, on its own storage, of some stateful function: the rests of the observation it can leave *)
  Definition runs (cdepth : nat) (t : list obs) : list (list obs) :=
    match cdepth, t with
    | S cd, (_, l) :: _ =>
        flat_map (fun g => if stateful (f_skel g) && N.eqb (size (f_skel g)) l
                           then match block g 0 with
                                | Some b0 =>
                                    flat_map (fun x : st => if N.eqb (cur_of x) 0 && Nat.ltb (length (tr_of x)) (length t)
                                                            then [tr_of x] else [])
                                             (snd (rec cd [] g b0 l [(0, t, false)]))
                                | None => []
                                end
                           else []) p
    | _, _ => []
    end.

  (* any number of such calls one after the other *)
  Fixpoint reach (fuel cdepth : nat) (P acc : list (list obs)) : list (list obs) :=
    match fuel with
    | O => acc
    | S k =>
        match filter (fun t => negb (existsb (tr_eqb t) acc)) (dedupe_tr (flat_map (runs cdepth) P)) with
        | [] => acc
        | nw => reach k cdepth nw (acc ++ nw)
        end
    end.

  Definition star (cdepth : nat) (S : list st) : list st :=
    dedupe_st (flat_map (fun x : st =>
                           if closed_of x then [x]
                           else map (fun t => (cur_of x, t, true))
                                    (reach (Datatypes.S (length (tr_of x))) cdepth [tr_of x] [tr_of x])) S).

  Fixpoint follow_evs (cdepth : nat) (stk : list nat) (f : func) (evs : list ev) (slen : N) (S : list st)
    : list st * list st :=
    match evs with
    | [] => (S, [])
    | e :: rest =>
      match e with
      | EPush n => follow_evs cdepth stk f rest slen (map (fun x : st => (cur_of x + n, tr_of x, closed_of x)) S)
      | EPop n =>
          follow_evs cdepth stk f rest slen
                     (flat_map (fun x : st => if cur_of x <? n then [] else [(cur_of x - n, tr_of x, closed_of x)]) S)
      | EGet w => follow_evs cdepth stk f rest slen (expect (fun c => {| a_kind := KGet; a_pos := c; a_size := w |}) slen S)
      | ERetFeed w =>
          (* bytecodegen: SetState, preceded by a GetState of the same cell in SelfEvalMode::ZeroAtInit *)
          let set := fun c => {| a_kind := KSet; a_pos := c; a_size := w |} in
          let get := fun c => {| a_kind := KGet; a_pos := c; a_size := w |} in
          ([], union_st (expect set slen S) (expect set slen (expect get slen S)))
      | EDelay len =>
          follow_evs cdepth stk f rest slen
                     (expect (fun c => {| a_kind := KDelay; a_pos := c; a_size := len + RING_HEADER |}) slen S)
      | EMem =>
          (* vm.rs Instruction::Mem: get_state_mut(1) to read, get_state_mut(1) to write: the hook sees two KSet events *)
          let set := fun c => {| a_kind := KSet; a_pos := c; a_size := 1 |} in
          follow_evs cdepth stk f rest slen (expect set slen (expect set slen S))
      | ECall idx =>
          match nth_error p idx with
          | Some g =>
              match block g 0 with
              | Some b0 =>
                  (* a function without state that is already RDEPTH times on the call stack (unbounded recursion in the
                     view: the data that ends it is not modelled) is taken to return without touching anything *)
                  if negb (stateful (f_skel g)) && Nat.leb RDEPTH (count_occ Nat.eq_dec stk idx)
                  then follow_evs cdepth stk f rest slen S
                  else follow_evs cdepth stk f rest slen (snd (rec cdepth (idx :: stk) g b0 slen S))   (* a callee must return *)
              | None => ([], [])
              end
          | None => ([], [])
          end
      | EOther => follow_evs cdepth stk f rest slen (star cdepth S)
      | EBranch arms m =>
          match block f m with
          | Some mb =>
              let fr :=
                fold_right
                  (fun a (acc : list st * list st) =>
                     match block f a with
                     | Some ab =>
                         let r1 := rec cdepth stk f ab slen S in
                         let r2 := rec cdepth stk f mb slen (fst r1) in
                         (union_st (fst r2) (fst acc), union_st (snd r1) (union_st (snd r2) (snd acc)))
                     | None => acc
                     end) ([], []) arms in
              let r3 := follow_evs cdepth stk f rest slen (fst fr) in
              (fst r3, union_st (snd fr) (snd r3))
          | None => ([], [])
          end
      | EReturn => ([], S)
      | EBad => ([], [])
      end
    end.
End FollowEvs.

Fixpoint follow (fuel : nat) (p : prog) (cdepth : nat) (stk : list nat) (f : func) (evs : list ev) (slen : N) (S : list st)
  : list st * list st :=
  match fuel with
  | O => ([], [])
  | S k => follow_evs p (follow k p) cdepth stk f evs slen S
  end.

(* the observed trace tr is exactly one call of f entered at cursor `entry` of a storage sized from f's skeleton and
   returning there *)
Definition accepts_trace (fuel : nat) (p : prog) (cdepth : nat) (f : func) (entry : N) (tr : list obs) : bool :=
  match block f 0 with
  | Some b0 =>
      existsb (fun x : st => N.eqb (cur_of x) entry && match tr_of x with [] => true | _ => false end)
              (snd (follow fuel p cdepth [] f b0 (size (f_skel f)) [(entry, tr, false)]))
  | None => false
  end.
