(* Mirst/Spec.v — the vocabulary of the theorems about Mirst/Model.v (definitions only). *)
From Coq Require Import List NArith Bool.
From Mimium Require Import StateTree.Model Mirst.Model.
Import ListNotations.
Local Open Scope N_scope.

(* access a touches exactly the cell c: same first word, same number of words, a kind the cell admits
   (GetState / SetState on a Feed cell, Mem on a Mem cell, the ring buffer on a Delay cell) *)
Definition hits (a : access) (c : cell) : Prop :=
  a_pos a = fst (fst c) /\ a_size a = snd c /\ kind_fits (a_kind a) (snd (fst c)) = true.

(* a is an access to one cell of the layout that skeleton sk publishes, laid out from word `entry` *)
Definition access_ok (entry : N) (sk : skel) (a : access) : Prop :=
  exists c, In c (cells_at entry sk) /\ hits a c.

(* the outcome of one call of a function whose published skeleton is sk, entered with the cursor at `entry` *)
Definition fn_ok (entry : N) (sk : skel) (o : outcome) : Prop :=
  match o with
  | Fault => False
  | Stop tr => Forall (access_ok entry sk) tr
  | Fin cur tr _ ret => ret = true /\ cur = entry /\ Forall (access_ok entry sk) tr
  end.

(* two accesses do not share a word *)
Definition disjoint (a b : access) : Prop :=
  a_pos a + a_size a <= a_pos b \/ a_pos b + a_size b <= a_pos a.

(* the GetState and the SetState (ReturnFeed) of one Feed cell *)
Definition feed_pair (a b : access) : Prop :=
  a_pos a = a_pos b /\ a_size a = a_size b /\
  ((a_kind a = KGet /\ a_kind b = KSet) \/ (a_kind a = KSet /\ a_kind b = KGet)).

(* every two accesses of a trace are to different cells, except the read and the write of a Feed cell *)
Fixpoint separated (tr : list access) : Prop :=
  match tr with
  | [] => True
  | a :: r => Forall (fun b => disjoint a b \/ feed_pair a b) r /\ separated r
  end.
