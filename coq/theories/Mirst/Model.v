(* Mirst/Model.v — the STATE VIEW of MIR, its semantics and the static checker (executable definitions only).

   Property C05 by translation validation: the real compiler's MIR (crates/lib/mimium-lang/src/mir.rs, produced by
   compiler/mirgen.rs) is dumped by harness/lang/src/bin/mir_dump.rs, one line per instruction (`rinstr`), erased here
   (`erase`) to the events that touch the state storage (`ev`), and judged by `check_prog`.

   What the definitions mirror
   * `run` — how the three code generators execute a function's blocks.  bytecodegen.rs emit_instruction: a function is
     the instruction list of block 0; JmpIf(c,t,e,m) emits block t, block e (each recursively), then the instructions of
     the merge block m after its Phi, then goes on with the current block; Switch likewise with cases ++ default and
     PhiSwitch (a scrutinee outside the table takes the last arm).  vm.rs: PushStatePos/PopStatePos move the cursor
     `pos` of the current StateStorage (pop below zero = usize underflow: Fault), GetState/SetState touch `size` words at
     the cursor, Mem one word, Delay a ring buffer of len + 2 words (ringbuffer.rs: read index, write index, data);
     Call of a global function runs the callee on the SAME storage at the current cursor; CallCls / CallIndirect /
     external functions run on the closure's own storage (`states_stack`) — no effect here (`EOther`).
     Branch conditions are data we do not model: an ORACLE (list nat) supplies every choice, and theorems quantify over
     all oracles, i.e. over every path.
   * `walk` / `check_fn` — the discipline of mirgen.rs (consume_and_insert_pushoffset, emit_fncall, try_make_delay,
     Expr::Feed, Expr::If, begin/end/finish_state_branches, Lambda: PopStateOffset(push_sum) + Return/ReturnFeed):
     every state access site sits at a cursor equal to the offset of one top-level child of the function's published
     skeleton, of the same kind and size; every child is used by exactly one site (a Feed cell by one GetState and one
     ReturnFeed); the arms of a branch re-join with equal cursors; the cursor is 0 at every return.  One exception that the
     property allows: a call whose callee's cells all ARE cells of the caller's layout at the current cursor (recursion)
     need not own a child (`shared_ok`; refused by the strict form of the checker).
   No proofs in this file. *)
From Coq Require Import List NArith Bool Arith.
From Mimium Require Import StateTree.Model.
Import ListNotations.
Local Open Scope N_scope.

(* ------------------------------------------------------------------------------------------------ *)
(* the dump: one `rinstr` per mir::Instruction, with its destination register                         *)

Inductive callee : Type :=
| CReg (r : N)      (* Value::Register *)
| CExt              (* Value::ExtFunction *)
| CFn (i : N)       (* Value::Function (bytecodegen: unreachable!()) *)
| COtherV.

Inductive rinstr : Type :=
| RUinteger (u : N)
| RPush (n : N)                 (* PushStateOffset *)
| RPop (n : N)                  (* PopStateOffset *)
| RGetState (w : N)             (* GetState(ty): w = ty.word_size() *)
| RReturnFeed (w : N)           (* ReturnFeed(_, ty) *)
| RDelay (len : N)
| RMem
| RCall (c : callee)
| RCallCls (c : callee)
| RCallIndirect (c : callee)
| RJmpIf (t e m : N)
| RSwitch (m : N) (default : option N) (cases : list N)
| RJmp
| RReturn
| ROther.                       (* every other variant: no effect on the state storage *)

Record rfunc : Type := { rf_skel : skel; rf_blocks : list (list (option N * rinstr)) }.
Definition rprog : Type := list rfunc.

(* ------------------------------------------------------------------------------------------------ *)
(* the state view                                                                                     *)

Inductive ev : Type :=
| EPush (n : N)
| EPop (n : N)
| EGet (w : N)
| ERetFeed (w : N)
| EDelay (len : N)
| EMem
| ECall (idx : nat)                     (* direct call of global function idx *)
| EOther                                (* closure / indirect / external call: another storage *)
| EBranch (arms : list nat) (m : nat)   (* JmpIf t e m = EBranch [t; e] m ; Switch = EBranch (cases ++ default) m *)
| EReturn
| EBad.                                 (* what the code generators cannot lower or we cannot resolve *)

Record func : Type := { f_skel : skel; f_blocks : list (list ev) }.
Definition prog : Type := list func.

Definition block (f : func) (i : nat) : option (list ev) := nth_error (f_blocks f) i.

(* --- erasure ------------------------------------------------------------------------------------- *)
(* all instructions of the function whose destination is register r *)
Definition defs_of (r : N) (bs : list (list (option N * rinstr))) : list rinstr :=
  flat_map (fun b => flat_map (fun di => match fst di with
                                         | Some d => if N.eqb d r then [snd di] else []
                                         | None => []
                                         end) b) bs.

(* emit_fncall: `f = Uinteger(idx); Call(f, ..)` — the callee register must have exactly one definition, a Uinteger *)
Definition resolve (r : N) (bs : list (list (option N * rinstr))) : option nat :=
  match defs_of r bs with
  | [RUinteger u] => Some (N.to_nat u)
  | _ => None
  end.

Definition erase_instr (bs : list (list (option N * rinstr))) (i : rinstr) : list ev :=
  match i with
  | RUinteger _ | ROther => []
  | RPush n => [EPush n]
  | RPop n => [EPop n]
  | RGetState w => [EGet w]
  | RReturnFeed w => [ERetFeed w]
  | RDelay len => [EDelay len]
  | RMem => [EMem]
  | RCall (CReg r) => match resolve r bs with Some idx => [ECall idx] | None => [EBad] end
  | RCall CExt => [EOther]
  | RCall _ => [EBad]
  | RCallCls (CReg _) | RCallCls CExt | RCallIndirect (CReg _) | RCallIndirect CExt => [EOther]
  | RCallCls _ | RCallIndirect _ => [EBad]
  | RJmpIf t e m => [EBranch [N.to_nat t; N.to_nat e] (N.to_nat m)]
  | RSwitch m d cases =>
      [EBranch (map N.to_nat cases ++ match d with Some b => [N.to_nat b] | None => [] end) (N.to_nat m)]
  | RJmp => [EBad]
  | RReturn => [EReturn]
  end.

Definition erase_fn (rf : rfunc) : func :=
  {| f_skel := rf_skel rf;
     f_blocks := map (fun b => flat_map (fun di => erase_instr (rf_blocks rf) (snd di)) b) (rf_blocks rf) |}.

Definition erase (rp : rprog) : prog := map erase_fn rp.

(* ------------------------------------------------------------------------------------------------ *)
(* semantics                                                                                          *)

(* kinds of hook H1 (vm.rs StateStorage): get_state, get_state_mut by SetState, get_state_mut by Mem, ring buffer *)
Inductive akind : Type := KGet | KSet | KMem | KDelay.
Record access : Type := { a_kind : akind; a_pos : N; a_size : N }.

Definition RING_HEADER : N := 2.     (* vm/ringbuffer.rs Ringbuffer::new: read_idx, write_idx, then the data *)

Inductive outcome : Type :=
| Fault                                                    (* cursor underflow, missing block/function, EBad, falling off a callee *)
| Stop (tr : list access)                                  (* out of fuel; the accesses made so far *)
| Fin (cur : N) (tr : list access) (orc : list nat) (ret : bool).   (* ret: a Return / ReturnFeed was executed *)

Definition pre (t : list access) (o : outcome) : outcome :=
  match o with
  | Fault => Fault
  | Stop t' => Stop (t ++ t')
  | Fin c t' orc r => Fin c (t ++ t') orc r
  end.

(* o, and when it fell through (did not return) then k *)
Definition andthen (o : outcome) (k : N -> list nat -> outcome) : outcome :=
  match o with
  | Fin c t orc false => pre t (k c orc)
  | _ => o
  end.

(* a callee must return *)
Definition after_call (o : outcome) (k : N -> list nat -> outcome) : outcome :=
  match o with
  | Fin c t orc true => pre t (k c orc)
  | Fin _ _ _ false => Fault
  | _ => o
  end.

Definition pick (orc : list nat) : nat * list nat :=
  match orc with [] => (O, []) | x :: r => (x, r) end.

(* the arm taken for oracle value k; values past the end take the last arm *)
Definition choose (arms : list nat) (k : nat) : option nat := nth_error arms (Nat.min k (length arms - 1)).

Section RunEvs.
  Variable p : prog.
  (* `rec f evs cur orc`: the interpreter with less fuel (blocks of arms, merge blocks, callees) *)
  Variable rec : func -> list ev -> N -> list nat -> outcome.

  Fixpoint run_evs (f : func) (evs : list ev) (cur : N) (orc : list nat) : outcome :=
    match evs with
    | [] => Fin cur [] orc false
    | e :: rest =>
      match e with
      | EPush n => run_evs f rest (cur + n) orc
      | EPop n => if cur <? n then Fault else run_evs f rest (cur - n) orc
      | EGet w => pre [{| a_kind := KGet; a_pos := cur; a_size := w |}] (run_evs f rest cur orc)
      | ERetFeed w => Fin cur [{| a_kind := KSet; a_pos := cur; a_size := w |}] orc true
      | EDelay len => pre [{| a_kind := KDelay; a_pos := cur; a_size := len + RING_HEADER |}] (run_evs f rest cur orc)
      | EMem => pre [{| a_kind := KMem; a_pos := cur; a_size := 1 |}] (run_evs f rest cur orc)
      | ECall idx =>
          match nth_error p idx with
          | Some g =>
              match block g 0 with
              | Some b0 => after_call (rec g b0 cur orc) (fun c o => run_evs f rest c o)
              | None => Fault
              end
          | None => Fault
          end
      | EOther => run_evs f rest cur orc
      | EBranch arms m =>
          let (x, orc1) := pick orc in
          match choose arms x with
          | Some a =>
              match block f a, block f m with
              | Some ab, Some mb =>
                  andthen (rec f ab cur orc1)
                          (fun c1 o1 => andthen (rec f mb c1 o1) (fun c2 o2 => run_evs f rest c2 o2))
              | _, _ => Fault
              end
          | None => Fault
          end
      | EReturn => Fin cur [] orc true
      | EBad => Fault
      end
    end.
End RunEvs.

Fixpoint run (fuel : nat) (p : prog) (f : func) (evs : list ev) (cur : N) (orc : list nat) : outcome :=
  match fuel with
  | O => Stop []
  | S k => run_evs p (run k p) f evs cur orc
  end.

(* one call of function f with the cursor at `entry` *)
Definition run_fn (fuel : nat) (p : prog) (f : func) (entry : N) (orc : list nat) : outcome :=
  match block f 0 with
  | Some b0 => after_call (run fuel p f b0 entry orc) (fun c o => Fin c [] o true)
  | None => Fault
  end.

(* ------------------------------------------------------------------------------------------------ *)
(* the layout a skeleton publishes                                                                    *)

Inductive ckind : Type := CFeed | CMem | CDelay.
Definition cell : Type := (N * ckind * N)%type.     (* offset, kind, size in words *)

Fixpoint cells_at (base : N) (s : skel) : list cell :=
  match s with
  | Delay len => [(base, CDelay, size (Delay len))]
  | Mem w => [(base, CMem, w)]
  | Feed w => [(base, CFeed, w)]
  | FnCall cs =>
      (fix go (b : N) (l : list skel) : list cell :=
         match l with
         | [] => []
         | c :: r => cells_at b c ++ go (b + size c) r
         end) base cs
  end.

Fixpoint cells_list (base : N) (l : list skel) : list cell :=
  match l with
  | [] => []
  | c :: r => cells_at base c ++ cells_list (base + size c) r
  end.

Definition kind_fits (k : akind) (c : ckind) : bool :=
  match k, c with
  | KGet, CFeed | KSet, CFeed | KMem, CMem | KDelay, CDelay => true
  | _, _ => false
  end.

(* ------------------------------------------------------------------------------------------------ *)
(* the checker                                                                                        *)

(* top-level children of a function's skeleton with their offsets *)
Fixpoint tops_of (base : N) (cs : list skel) : list (N * skel) :=
  match cs with
  | [] => []
  | c :: r => (base, c) :: tops_of (base + size c) r
  end.

Inductive site : Type := SGet (w : N) | SRet (w : N) | SMem | SDelay (len : N) | SCall (g : skel).

(* a Feed cell has two slots: false = its GetState, true = its ReturnFeed; every other cell only slot false *)
Definition slot (s : site) : bool := match s with SRet _ => true | _ => false end.

Definition site_matches (s : site) (c : skel) : bool :=
  match s, c with
  | SGet w, Feed w' => N.eqb w w'
  | SRet w, Feed w' => N.eqb w w'
  | SMem, Mem w => N.eqb w 1
  | SDelay len, Delay l' => N.eqb len l' && N.eqb (len + RING_HEADER) (size (Delay len))
  | SCall g, FnCall _ => skel_eqb g c
  | _, _ => false
  end.

Definition key : Type := (nat * bool)%type.
Definition key_eqb (a b : key) : bool := Nat.eqb (fst a) (fst b) && Bool.eqb (snd a) (snd b).
Definition mem_key (k : key) (l : list key) : bool := existsb (key_eqb k) l.

(* the first child at offset cur that fits the site and whose slot is still free *)
Fixpoint find_cell (s : site) (cur : N) (used : list key) (i : nat) (T : list (N * skel)) : option nat :=
  match T with
  | [] => None
  | (o, c) :: r =>
      if N.eqb o cur && site_matches s c && negb (mem_key (i, slot s) used)
      then Some i
      else find_cell s cur used (S i) r
  end.

Definition use (s : site) (cur : N) (used : list key) (T : list (N * skel)) : option (list key) :=
  match find_cell s cur used 0 T with
  | Some i => Some ((i, slot s) :: used)
  | None => None
  end.

Definition stateful (g : skel) : bool :=      (* mir::Function::is_stateful *)
  match g with FnCall [] => false | _ => true end.

Definition ckind_eqb (a b : ckind) : bool :=
  match a, b with CFeed, CFeed | CMem, CMem | CDelay, CDelay => true | _, _ => false end.

Definition cell_eqb (a b : cell) : bool :=
  N.eqb (fst (fst a)) (fst (fst b)) && ckind_eqb (snd (fst a)) (snd (fst b)) && N.eqb (snd a) (snd b).

(* every cell of skeleton g laid out from offset cur is a cell of the layout CL: a callee may run on cells the caller
   publishes without owning a child of its own — this is what a RECURSIVE call of a stateful function does (mirgen's
   emit_fncall sees the function's still empty skeleton, so the callee runs at the caller's cursor on the caller's cells) *)
Definition shared_ok (cur : N) (g : skel) (CL : list cell) : bool :=
  forallb (fun x => existsb (cell_eqb x) CL) (cells_at cur g).

Inductive wres : Type :=
| WFail
| WFall (cur : N) (used : list key)     (* the events fell through with this cursor *)
| WRet (used : list key).               (* a return was reached (cursor 0) *)

Section WalkEvs.
  Variable sks : list skel.             (* published skeleton of every function of the program *)
  Variable f : func.
  Variable T : list (N * skel).         (* the function's top-level children with their offsets *)
  Variable CL : list cell.              (* the function's flat layout from offset 0 *)
  Variable strict : bool.               (* true: every stateful call must own a child (no sharing) *)
  Variable rec : list ev -> N -> list key -> wres.    (* the walk with less fuel (blocks of arms, merge blocks) *)

  (* every arm from the same cursor; all must fall through with the same cursor c0 (None: no arm seen yet) *)
  Fixpoint walk_arms (arms : list nat) (cur : N) (c0 : option N) (used : list key) : option (N * list key) :=
    match arms with
    | [] => match c0 with Some c => Some (c, used) | None => None end
    | a :: r =>
        match block f a with
        | Some ab =>
            match rec ab cur used with
            | WFall c u =>
                match c0 with
                | None => walk_arms r cur (Some c) u
                | Some c' => if N.eqb c c' then walk_arms r cur c0 u else None
                end
            | _ => None
            end
        | None => None
        end
    end.

  Fixpoint walk_evs (evs : list ev) (cur : N) (used : list key) : wres :=
    match evs with
    | [] => WFall cur used
    | e :: rest =>
      match e with
      | EPush n => walk_evs rest (cur + n) used
      | EPop n => if cur <? n then WFail else walk_evs rest (cur - n) used
      | EGet w => match use (SGet w) cur used T with Some u => walk_evs rest cur u | None => WFail end
      | ERetFeed w =>
          if N.eqb cur 0 then match use (SRet w) cur used T with Some u => WRet u | None => WFail end else WFail
      | EDelay len => match use (SDelay len) cur used T with Some u => walk_evs rest cur u | None => WFail end
      | EMem => match use SMem cur used T with Some u => walk_evs rest cur u | None => WFail end
      | ECall idx =>
          match nth_error sks idx with
          | Some g =>
              if stateful g
              then match use (SCall g) cur used T with
                   | Some u => walk_evs rest cur u
                   | None => if negb strict && shared_ok cur g CL then walk_evs rest cur used else WFail
                   end
              else walk_evs rest cur used
          | None => WFail
          end
      | EOther => walk_evs rest cur used
      | EBranch arms m =>
          match walk_arms arms cur None used, block f m with
          | Some (c, u), Some mb =>
              match rec mb c u with
              | WFall c2 u2 => walk_evs rest c2 u2
              | r => r
              end
          | _, _ => WFail
          end
      | EReturn => if N.eqb cur 0 then WRet used else WFail
      | EBad => WFail
      end
    end.
End WalkEvs.

Fixpoint walk (fuel : nat) (sks : list skel) (f : func) (T : list (N * skel)) (CL : list cell) (strict : bool)
         (evs : list ev) (cur : N) (used : list key) : wres :=
  match fuel with
  | O => WFail
  | S k => walk_evs sks f T CL strict (walk k sks f T CL strict) evs cur used
  end.

(* every child that has words is used: slot false of each, slot true of each Feed (a unit-typed `self` publishes Feed 0 and
   returns with a plain Return: a cell without words needs no site) *)
Fixpoint covered (i : nat) (T : list (N * skel)) (used : list key) : bool :=
  match T with
  | [] => true
  | (_, c) :: r =>
      (N.eqb (size c) 0
       || (mem_key (i, false) used && match c with Feed _ => mem_key (i, true) used | _ => true end))
      && covered (S i) r used
  end.

Definition check_fn (strict : bool) (sks : list skel) (f : func) : bool :=
  match f_skel f, block f 0 with
  | FnCall cs, Some b0 =>
      let T := tops_of 0 cs in
      match walk (S (length (f_blocks f))) sks f T (cells_list 0 cs) strict b0 0 [] with
      | WRet used => covered 0 T used
      | _ => false
      end
  | _, _ => false
  end.

Definition check_prog_s (strict : bool) (p : prog) : bool := forallb (check_fn strict (map f_skel p)) p.

(* the checker of property C05 *)
Definition check_prog (p : prog) : bool := check_prog_s false p.

(* ... and its strict form: in addition no two call sites, at any depth, share a cell *)
Definition check_prog_strict (p : prog) : bool := check_prog_s true p.

Definition check_rprog (rp : rprog) : bool := check_prog (erase rp).

(* index of the first function the checker rejects (diagnostics) *)
Fixpoint first_rejected (strict : bool) (sks : list skel) (i : nat) (l : list func) : option nat :=
  match l with
  | [] => None
  | f :: r => if check_fn strict sks f then first_rejected strict sks (S i) r else Some i
  end.
