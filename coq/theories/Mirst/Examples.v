(* Mirst/Examples.v — dumps of the real compiler (harness/lang/src/bin/mir_dump.rs; instructions without effect on the
   state storage left out), judged by the checker and run by the interpreter inside Coq.

   prog_if        fn cnt(i){ self + i }  fn g(x){ mem(x) + delay(4.0, x, 2.0) }
                  fn dsp(){ let c = cnt(1.0)  if (c > 3.0) { g(c) + cnt(2.0) } else { cnt(10.0) } }       (current compiler)
   prog_if_old    the same source compiled by the compiler BEFORE fix f1b50e4 (finding F2)
   prog_match     fn cnt(x){ self + x }
                  fn fe(q){ let a = cnt(1.0)  let b = match q { 0 => cnt(10.0), _ => 5.0 }  a + b + cnt(100.0) }
                  fn dsp(){ fe(now % 2.0) }                                                               (current compiler)
   prog_match_old the same source compiled by the compiler BEFORE fix 2eb1a04 (finding F27) *)
From Coq Require Import List NArith Bool.
From Mimium Require Import StateTree.Model Mirst.Model Mirst.Spec.
Import ListNotations.
Local Open Scope N_scope.

Definition prog_if : rprog :=
  [ (* _mimium_global *) {| rf_skel := FnCall []; rf_blocks := [[(Some 33, RReturn)]] |};
    (* cnt *) {| rf_skel := FnCall [Feed 1]; rf_blocks := [[(Some 0, RGetState 1); (Some 4, RReturnFeed 1)]] |};
    (* g *) {| rf_skel := FnCall [Mem 1; Delay 4];
               rf_blocks := [[(Some 6, RMem); (None, RPush 1); (Some 9, RDelay 4); (None, RPop 1); (Some 11, RReturn)]] |};
    (* dsp *) {| rf_skel := FnCall [FnCall [Feed 1]; FnCall [Mem 1; Delay 4]; FnCall [Feed 1]; FnCall [Feed 1]];
                 rf_blocks :=
                   [[(Some 13, RUinteger 1); (Some 14, RCall (CReg 13)); (None, RPush 1); (Some 20, RJmpIf 1 2 3)];
                    [(Some 22, RUinteger 2); (Some 23, RCall (CReg 22)); (None, RPush 7); (Some 25, RUinteger 1);
                     (Some 26, RCall (CReg 25)); (None, RPush 1); (None, RPush 1)];
                    [(None, RPush 8); (Some 29, RUinteger 1); (Some 30, RCall (CReg 29)); (None, RPush 1)];
                    [(None, RPop 10); (Some 32, RReturn)]] |} ].

Definition prog_if_old : rprog :=
  [ {| rf_skel := FnCall []; rf_blocks := [[(Some 33, RReturn)]] |};
    {| rf_skel := FnCall [Feed 1]; rf_blocks := [[(Some 0, RGetState 1); (Some 4, RReturnFeed 1)]] |};
    {| rf_skel := FnCall [Mem 1; Delay 4];
       rf_blocks := [[(Some 6, RMem); (None, RPush 1); (Some 9, RDelay 4); (None, RPop 1); (Some 11, RReturn)]] |};
    (* dsp: three cells published for four call sites, the arms share the cursor bookkeeping *)
    {| rf_skel := FnCall [FnCall [Feed 1]; FnCall [Mem 1; Delay 4]; FnCall [Feed 1]];
       rf_blocks :=
         [[(Some 13, RUinteger 1); (Some 14, RCall (CReg 13)); (Some 20, RJmpIf 1 2 3)];
          [(None, RPush 1); (Some 22, RUinteger 2); (Some 23, RCall (CReg 22)); (None, RPush 7); (Some 25, RUinteger 1);
           (Some 26, RCall (CReg 25))];
          [(None, RPush 1); (Some 29, RUinteger 1); (Some 30, RCall (CReg 29)); (None, RPush 7)];
          [(None, RPop 9); (Some 32, RReturn)]] |} ].

Definition prog_match : rprog :=
  [ {| rf_skel := FnCall []; rf_blocks := [[(Some 34, RReturn)]] |};
    {| rf_skel := FnCall [Feed 1]; rf_blocks := [[(Some 0, RGetState 1); (Some 4, RReturnFeed 1)]] |};
    (* fe *) {| rf_skel := FnCall [FnCall [Feed 1]; FnCall [Feed 1]; FnCall [Feed 1]];
                rf_blocks :=
                  [[(Some 6, RUinteger 1); (Some 7, RCall (CReg 6)); (None, RPush 1); (Some 12, RSwitch 3 (Some 2) [1])];
                   [(Some 14, RUinteger 1); (Some 15, RCall (CReg 14)); (None, RPush 1)];
                   [(None, RPush 1)];
                   [(Some 24, RUinteger 1); (Some 25, RCall (CReg 24)); (None, RPop 2); (Some 27, RReturn)]] |};
    (* dsp *) {| rf_skel := FnCall [FnCall [FnCall [Feed 1]; FnCall [Feed 1]; FnCall [Feed 1]]];
                 rf_blocks := [[(Some 28, RCallIndirect CExt); (Some 31, RUinteger 2); (Some 32, RCall (CReg 31));
                                (Some 33, RReturn)]] |} ].

Definition prog_match_old : rprog :=
  [ {| rf_skel := FnCall []; rf_blocks := [[(Some 34, RReturn)]] |};
    {| rf_skel := FnCall [Feed 1]; rf_blocks := [[(Some 0, RGetState 1); (Some 4, RReturnFeed 1)]] |};
    (* fe: the arm's padding is never returned and the arms do not re-join *)
    {| rf_skel := FnCall [FnCall [Feed 1]; FnCall [Feed 1]; FnCall [Feed 1]];
       rf_blocks :=
         [[(Some 6, RUinteger 1); (Some 7, RCall (CReg 6)); (Some 12, RSwitch 3 (Some 2) [1])];
          [(None, RPush 1); (Some 14, RUinteger 1); (Some 15, RCall (CReg 14))];
          [];
          [(None, RPush 1); (Some 24, RUinteger 1); (Some 25, RCall (CReg 24)); (None, RPop 2); (Some 27, RReturn)]] |};
    {| rf_skel := FnCall [FnCall [FnCall [Feed 1]; FnCall [Feed 1]; FnCall [Feed 1]]];
       rf_blocks := [[(Some 28, RCallIndirect CExt); (Some 31, RUinteger 2); (Some 32, RCall (CReg 31));
                      (Some 33, RReturn)]] |} ].

Definition dsp_of (rp : rprog) : func := nth 3 (erase rp) {| f_skel := FnCall []; f_blocks := [] |}.

Lemma prog_if_accepted : check_rprog prog_if = true.
Proof. vm_compute. reflexivity. Qed.

Lemma prog_match_accepted : check_rprog prog_match = true.
Proof. vm_compute. reflexivity. Qed.

(* the then-path of prog_if entered at word 100: cnt's cell, g's Mem and Delay cells, the second cnt's cell *)
Lemma prog_if_then_path :
  run_fn 5 (erase prog_if) (dsp_of prog_if) 100 [0%nat] =
  Fin 100 [ {| a_kind := KGet; a_pos := 100; a_size := 1 |}; {| a_kind := KSet; a_pos := 100; a_size := 1 |};
            {| a_kind := KMem; a_pos := 101; a_size := 1 |}; {| a_kind := KDelay; a_pos := 102; a_size := 6 |};
            {| a_kind := KGet; a_pos := 108; a_size := 1 |}; {| a_kind := KSet; a_pos := 108; a_size := 1 |} ] [] true.
Proof. vm_compute. reflexivity. Qed.

(* the else-path uses the LAST cell: each static call site owns its cell *)
Lemma prog_if_else_path :
  run_fn 5 (erase prog_if) (dsp_of prog_if) 100 [1%nat] =
  Fin 100 [ {| a_kind := KGet; a_pos := 100; a_size := 1 |}; {| a_kind := KSet; a_pos := 100; a_size := 1 |};
            {| a_kind := KGet; a_pos := 109; a_size := 1 |}; {| a_kind := KSet; a_pos := 109; a_size := 1 |} ] [] true.
Proof. vm_compute. reflexivity. Qed.

Lemma prog_if_old_rejected : check_rprog prog_if_old = false.
Proof. vm_compute. reflexivity. Qed.

(* ... rightly: both paths of the old code run the cursor below zero (the VM's `attempt to subtract with overflow`), and the
   else path reads cnt's state from g's Mem cell *)
Lemma prog_if_old_faults :
  run_fn 5 (erase prog_if_old) (dsp_of prog_if_old) 0 [0%nat] = Fault /\
  run_fn 5 (erase prog_if_old) (dsp_of prog_if_old) 0 [1%nat] = Fault.
Proof. split; vm_compute; reflexivity. Qed.

Lemma prog_match_old_rejected : check_rprog prog_match_old = false.
Proof. vm_compute. reflexivity. Qed.

Definition fe_of (rp : rprog) : func := nth 2 (erase rp) {| f_skel := FnCall []; f_blocks := [] |}.

(* the default arm of the old match lowering: cursor below zero *)
Lemma prog_match_old_faults : run_fn 5 (erase prog_match_old) (fe_of prog_match_old) 0 [1%nat] = Fault.
Proof. vm_compute. reflexivity. Qed.

(* while its first arm happens to work: a sampled run that only takes that arm sees nothing *)
Lemma prog_match_old_first_arm_fine :
  exists tr, run_fn 5 (erase prog_match_old) (fe_of prog_match_old) 0 [0%nat] = Fin 0 tr [] true.
Proof. eexists. vm_compute. reflexivity. Qed.

(* prog_rec       fn cnt(x){ self + x }  fn r(n){ if (n > 0.0) { r(n - 1.0) + cnt(1.0) } else { 0.0 } }  fn dsp(){ r(2.0) }
   (current compiler).  The recursive call r(n - 1.0) is compiled while r's skeleton is still empty, so it gets no cell of
   its own: every recursion depth runs cnt(1.0) on the SAME Feed cell.  All accesses hit published cells (C05 holds, the
   checker accepts) but cells are shared between call depths: the strict checker refuses the program. *)
Definition prog_rec : rprog :=
  [ {| rf_skel := FnCall []; rf_blocks := [[(Some 25, RReturn)]] |};
    {| rf_skel := FnCall [Feed 1]; rf_blocks := [[(Some 0, RGetState 1); (Some 4, RReturnFeed 1)]] |};
    (* r *) {| rf_skel := FnCall [FnCall [Feed 1]];
               rf_blocks := [[(Some 8, RJmpIf 1 2 3)];
                             [(Some 12, RUinteger 2); (Some 13, RCall (CReg 12)); (Some 15, RUinteger 1);
                              (Some 16, RCall (CReg 15)); (None, RPush 1)];
                             [(None, RPush 1)];
                             [(None, RPop 1); (Some 20, RReturn)]] |};
    (* dsp *) {| rf_skel := FnCall [FnCall [FnCall [Feed 1]]];
                 rf_blocks := [[(Some 22, RUinteger 2); (Some 23, RCall (CReg 22)); (Some 24, RReturn)]] |} ].

Lemma prog_rec_accepted : check_rprog prog_rec = true.
Proof. vm_compute. reflexivity. Qed.

Lemma prog_rec_not_strict : check_prog_strict (erase prog_rec) = false.
Proof. vm_compute. reflexivity. Qed.

(* two recursion depths (oracle: then, then, else): the one Feed cell is read and written twice *)
Lemma prog_rec_shares :
  run_fn 9 (erase prog_rec) (dsp_of prog_rec) 0 [0%nat; 0%nat; 1%nat] =
  Fin 0 [ {| a_kind := KGet; a_pos := 0; a_size := 1 |}; {| a_kind := KSet; a_pos := 0; a_size := 1 |};
          {| a_kind := KGet; a_pos := 0; a_size := 1 |}; {| a_kind := KSet; a_pos := 0; a_size := 1 |} ] [] true.
Proof. vm_compute. reflexivity. Qed.

Lemma prog_if_strict : check_prog_strict (erase prog_if) = true.
Proof. vm_compute. reflexivity. Qed.

Lemma prog_match_strict : check_prog_strict (erase prog_match) = true.
Proof. vm_compute. reflexivity. Qed.

(* prog_generic_self   fn f(x){ self }  fn dsp(){ let t = f((1.0, 2.0))  1.0 }     (current compiler; finding F64)
   The instance of f at argument type (number, number) publishes a one-word Feed cell — mirgen's Expr::Feed sizes the cell
   while the type of `self` is still a type variable — but its GetState / ReturnFeed move the two words of the resolved type. *)
Definition prog_generic_self : rprog :=
  [ {| rf_skel := FnCall []; rf_blocks := [[(Some 18, RReturn)]] |};
    (* f *) {| rf_skel := FnCall [Feed 1]; rf_blocks := [[(Some 0, RGetState 1); (Some 2, RReturnFeed 1)]] |};
    (* dsp *) {| rf_skel := FnCall [FnCall [Feed 1]];
                 rf_blocks := [[(Some 12, RUinteger 3); (Some 13, RCall (CReg 12)); (Some 17, RReturn)]] |};
    (* f_mono_tup_num_num_tup_num_num *)
    {| rf_skel := FnCall [Feed 1]; rf_blocks := [[(Some 0, RGetState 2); (Some 2, RReturnFeed 2)]] |} ].

Definition dsp2_of (rp : rprog) : func := nth 2 (erase rp) {| f_skel := FnCall []; f_blocks := [] |}.

Lemma prog_generic_self_rejected : check_rprog prog_generic_self = false.
Proof. vm_compute. reflexivity. Qed.

(* dsp's whole storage is one word; the call reads and writes two *)
Lemma prog_generic_self_out_of_bounds :
  size (f_skel (dsp2_of prog_generic_self)) = 1 /\
  run_fn 5 (erase prog_generic_self) (dsp2_of prog_generic_self) 0 [] =
  Fin 0 [ {| a_kind := KGet; a_pos := 0; a_size := 2 |}; {| a_kind := KSet; a_pos := 0; a_size := 2 |} ] [] true.
Proof. split; vm_compute; reflexivity. Qed.
