(* Prims/Wasm.v — the WASM HOST implementation of the runtime primitives (definitions only).  Transcribes
   runtime/wasm.rs: RuntimeState { heap: HeapStorage, arrays: HashMap<Word, Vec<Word>>, global_state: StateStorage,
   current_time, sample_rate } and the host functions the generated module imports from "runtime"
   (the heap, box, state, array and runtime_get functions) and `builtin.len`, together with the argument conventions of
   compiler/wasmgen.rs (what the generated code passes): an array index is converted with i64.trunc_sat_f64_s
   (emit_value_load_as_numeric_i64), sizes are i32 constants, multi-word values travel through linear memory
   (the harness pokes them into the real module's memory; the model takes the word lists).

   How the host stores things:
     heap objects   the same slot map as the VM (vm/heap.rs HeapStorage), handle = KeyData::as_ffi of the key
                    (heap_idx_to_word / heap_idx_from_word; before the repair of finding P5 a transmute);
     arrays         HashMap keyed by `arrays.len() + 1`, values are the flat words ONLY (no element size is
                    remembered: every call brings its own), nothing is ever removed; handle 0 is the
                    "uninitialised array-valued state" sentinel for array_get_elem and len;
     state          StateStorage { pos, data } grown on demand, saturating cursor = Lmmm.Machine's WasmD;
                    a delay longer than MAX_WASM_DELAY_SAMPLES returns 0.0 and touches nothing. *)
From Coq Require Import List ZArith NArith Bool.
From Mimium Require Import Heap.Model Lmmm.Machine Prims.Float Prims.StateOps Prims.Spec Prims.Impl.
Import ListNotations.
Local Open Scope N_scope.

Definition WE : henc := enc_ffi.

Definition amap := list (N * list word).

Fixpoint amap_get (m : amap) (k : N) : option (list word) :=
  match m with
  | [] => None
  | (k', d) :: r => if k' =? k then Some d else amap_get r k
  end.

(* HashMap::insert: replace the value of an existing key, else add *)
Fixpoint amap_put (m : amap) (k : N) (d : list word) : amap :=
  match m with
  | [] => [(k, d)]
  | (k', d') :: r => if k' =? k then (k, d) :: r else (k', d') :: amap_put r k d
  end.

Record wast := mkWa { w_heap : store; w_arrs : amap; w_st : mstate; w_now : N; w_sr : word }.

(* RuntimeState::default(): empty storage; current_time / sample_rate are set by the driver *)
Definition wasm_init (now : N) (sr : word) : wast := mkWa sm_new [] (mkM [] 0 []) now sr.

Definition MAX_WASM_DELAY_SAMPLES : N := 16777216.     (* 16 * 1024 * 1024 *)
Definition USIZE_MAX : N := 18446744073709551615.

(* array_alloc_host: id = arrays.len() + 1 *)
Definition wasm_array_alloc (m : amap) (data : list word) : amap * ires :=
  let id := N.of_nat (length m) + 1 in (amap_put m id data, IHandle id).

(* array_get_elem_host(dst_ptr, array: i64, index: i64, elem_size: i32) *)
Definition wasm_array_get (m : amap) (array : word) (index : Z) (esz : Z) : ires :=
  if (esz <=? 0)%Z then IFault FBadSize
  else
    let ew := Z.to_N esz in
    if array =? 0 then IWords (repeat 0 (N.to_nat ew))
    else match amap_get m array with
         | None => IFault FInvalidHandle
         | Some d =>
             let len := N.of_nat (length d) / ew in
             if len =? 0 then IWords (repeat 0 (N.to_nat ew))
             else
               let i := Z.to_N (clampZ index 0 (Z.of_N len - 1)) in
               IWords (firstn (N.to_nat ew) (skipn (N.to_nat (i * ew)) d))
         end.

(* array_set_elem_host(array: i64, index: i64, src_ptr, elem_size: i32); src = elem_size words of memory *)
Definition wasm_array_set (m : amap) (array : word) (index : Z) (src : list word) (esz : Z) : amap * ires :=
  if (esz <=? 0)%Z then (m, IFault FBadSize)
  else
    let ew := Z.to_N esz in
    match amap_get m array with
    | None => (m, IFault FInvalidHandle)
    | Some d =>
        let len := N.of_nat (length d) / ew in
        if len =? 0 then (m, IUnit)
        else
          let st := N.to_nat (Z.to_N (clampZ index 0 (Z.of_N len - 1)) * ew) in
          (amap_put m array (firstn st d ++ src ++ skipn (st + length src) d), IUnit)
    end.

(* builtin_length_array_host: array_data.len() as f64 — the number of WORDS *)
Definition wasm_array_len (m : amap) (array : word) : ires :=
  if array =? 0 then IWords [0]
  else match amap_get m array with
       | None => IFault FInvalidHandle
       | Some d => IWords [f64_of_N (N.of_nat (length d))]
       end.

(* state_push_host / state_pop_host(offset: i64): saturating in both directions *)
Definition set_pos (m : mstate) (p : N) : mstate := mkM (m_words m) p (m_trace m).

Definition wasm_cursor_add (m : mstate) (k : N) : mstate :=
  if m_pos m + k <=? USIZE_MAX then do_push k m else set_pos (tr 3 (m_pos m) k m) USIZE_MAX.
Definition wasm_cursor_sub (m : mstate) (k : N) : mstate :=
  match do_pop WasmD k m with Some m' => m' | None => m end.       (* do_pop WasmD never fails *)

Definition wasm_state_push (o : Z) (m : mstate) : mstate :=
  if (0 <=? o)%Z then wasm_cursor_add m (Z.to_N o) else wasm_cursor_sub m (Z.to_N (- o)).
Definition wasm_state_pop (o : Z) (m : mstate) : mstate :=
  if (0 <=? o)%Z then wasm_cursor_sub m (Z.to_N o) else wasm_cursor_add m (Z.to_N (- o)).

(* state_delay_host(input: f64, time: f64, max_len: i64) *)
Definition wasm_state_delay (input time : word) (max_len : N) (m : mstate) : mstate * word :=
  if (max_len =? 0) || (MAX_WASM_DELAY_SAMPLES <? max_len) then (m, 0)
  else if USIZE_MAX <? m_pos m + 2 + max_len then (m, 0)
  else match delay1 WasmD max_len (zw input) (f64_time time) m with
       | Some (r, m') => (m', wz r)
       | None => (m, 0)                                  (* delay1 WasmD never fails *)
       end.

Definition with_wheap (w : wast) (h : store) : wast := mkWa h (w_arrs w) (w_st w) (w_now w) (w_sr w).
Definition with_warrs (w : wast) (a : amap) : wast := mkWa (w_heap w) a (w_st w) (w_now w) (w_sr w).
Definition with_wst (w : wast) (m : mstate) : wast := mkWa (w_heap w) (w_arrs w) m (w_now w) (w_sr w).

Definition I32_LIMIT : N := 2147483648.

Definition wasm_step (t : tabs) (w : wast) (o : op) : wast * ires :=
  match o with
  | OHeapAlloc size => let (h, r) := hp_alloc WE (w_heap w) (repeat 0 (N.to_nat size)) in (with_wheap w h, r)
  | OBoxAlloc src => let (h, r) := hp_alloc WE (w_heap w) (map (resolve t) src) in (with_wheap w h, r)
  | OHeapRetain h => let (h', r) := hp_retain WE (w_heap w) (resolve t h) in (with_wheap w h', r)
  | OHeapRelease h => let (h', r) := hp_release WE (w_heap w) (resolve t h) in (with_wheap w h', r)
  | OHeapLoad h size => (w, hp_load WE (w_heap w) (resolve t h) size)
  | OHeapStore h src => let (h', r) := hp_store WE (w_heap w) (resolve t h) (map (resolve t) src) in (with_wheap w h', r)
  | OStatePush o => (with_wst w (wasm_state_push o (w_st w)), IUnit)
  | OStatePop o => (with_wst w (wasm_state_pop o (w_st w)), IUnit)
  | OStateGet size =>
      match getn WasmD size (w_st w) with
      | Some (l, m) => (with_wst w m, IWords (map wz l))
      | None => (w, IFault FOutOfRange)                 (* getn WasmD never fails *)
      end
  | OStateSet src =>
      match setn WasmD (map zw src) (w_st w) with
      | Some m => (with_wst w m, IUnit)
      | None => (w, IFault FOutOfRange)
      end
  | OStateDelay input time max_len =>
      let (m, r) := wasm_state_delay input time max_len (w_st w) in (with_wst w m, IWords [r])
  | OStateMem input =>
      match mem1 WasmD (zw input) (w_st w) with
      | Some (r, m) => (with_wst w m, IWords [wz r])
      | None => (w, IFault FOutOfRange)
      end
  | OArrayNew esz data =>
      (* wasmgen I::Array: the element words are written to linear memory, array_alloc(ptr, n * esz) *)
      if (esz =? 0) || negb (N.of_nat (length data) mod esz =? 0) then (w, IFault FBadSize)
      else let (a, r) := wasm_array_alloc (w_arrs w) (map (resolve t) data) in (with_warrs w a, r)
  | OArrayGet a idx esz => (w, wasm_array_get (w_arrs w) (resolve t a) (f64_to_i64 idx) (Z.of_N esz))
  | OArraySet a idx src esz =>
      if negb (N.of_nat (length src) =? esz) then (w, IFault FBadSize)
      else let (a', r) := wasm_array_set (w_arrs w) (resolve t a) (f64_to_i64 idx) (map (resolve t) src) (Z.of_N esz) in
           (with_warrs w a', r)
  | OArrayLen a => (w, wasm_array_len (w_arrs w) (resolve t a))
  | ONow => (w, IWords [f64_of_N (w_now w)])
  | OSamplerate => (w, IWords [w_sr w])
  end.

Definition wasm_run (now : N) (sr : word) (ops : list op) : list ires := irun wasm_step tabs0 (wasm_init now sr) ops.
