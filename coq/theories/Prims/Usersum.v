(* Prims/Usersum.v — usersum_clone / usersum_release (definitions only, and one difference lemma at the end).

   VM (vm/primitives.rs usersum_clone / usersum_release = vm.rs Instruction::CloneUserSum / ReleaseUserSum, both calling
   Machine::clone_usersum_recursive / release_usersum_recursive with the type taken from Program.type_table): a walk of
   the value DIRECTED BY ITS TYPE that retains / releases every boxed handle inside the value; releasing a handle whose
   count is <= 1 first walks the object's own words with the inner type (cascading release through the heap).
   WASM host (wasm.rs usersum_clone_host / usersum_release_host): a shallow copy inside linear memory and a no-op; with
   the arguments wasmgen passes today ("placeholder" 0, size, 0) both do NOTHING.  So the reference counts of boxed values
   inside sum values differ between the backends: usersum_differs.

   Types (types.rs), as far as the walks look at them:
     TyNum n      n words without handles (unit, numbers, strings, functions, arrays, ...)
     TyBoxed t    Type::Boxed(t): one word, a heap handle
     TySum name variants   Type::UserSum: [tag] ++ payload of variant `tag` (None = no payload)
     TyTuple l    Type::Tuple / Type::Record: the fields one after the other
     TyAlias name Type::TypeAlias: inside a `type rec` declaration the self reference; one word, a heap handle whose
                  object is a value of the UserSum called `name` in the type table
   The release walk recurses through the heap, so it takes fuel (the real function recurses on the Rust stack). *)
From Coq Require Import List ZArith NArith Bool.
From Mimium Require Import Heap.Model Lmmm.Machine Prims.Float Prims.StateOps Prims.Spec Prims.Impl Prims.Vm Prims.Wasm.
Import ListNotations.
Local Open Scope N_scope.

Inductive sty :=
| TyNum (n : N)
| TyBoxed (inner : sty)
| TySum (name : N) (variants : list (option sty))
| TyTuple (fields : list sty)
| TyAlias (name : N).

(* TypeNodeId::word_size *)
Fixpoint ty_size (t : sty) : N :=
  match t with
  | TyNum n => n
  | TyBoxed _ => 1
  | TyAlias _ => 1
  | TySum _ vs =>
      1 + (fix mx (l : list (option sty)) : N :=
             match l with
             | [] => 0
             | Some p :: r => N.max (ty_size p) (mx r)
             | None :: r => mx r
             end) vs
  | TyTuple l => (fix sm (l : list sty) : N := match l with [] => 0 | e :: r => ty_size e + sm r end) l
  end.

(* clone_usersum_recursive *)
Fixpoint uclone (t : sty) (v : list word) (h : store) {struct t} : store :=
  match t with
  | TyNum _ => h
  | TyBoxed _ | TyAlias _ => match v with [] => h | w :: _ => fst (hp_retain VE h w) end
  | TySum _ vs =>
      match v with
      | [] => h
      | tag :: rest =>
          if tag <? N.of_nat (length vs) then
            (fix pick (l : list (option sty)) (k : nat) : store :=
               match l, k with
               | Some p :: _, O => uclone p rest h
               | None :: _, O => h
               | _ :: r, S k' => pick r k'
               | [], _ => h
               end) vs (N.to_nat tag)
          else h
      end
  | TyTuple l =>
      (fix go (l : list sty) (v : list word) (h : store) : store :=
         match l with
         | [] => h
         | e :: r =>
             let n := N.to_nat (ty_size e) in
             let h' := if Nat.leb n (length v) then uclone e (firstn n v) h else h in
             go r (skipn n v) h'
         end) l v h
  end.

(* type_table.iter().find(|tid| matches!(tid, UserSum { name: n, .. } if n == name)) *)
Fixpoint find_sum (tt : list sty) (name : N) : option sty :=
  match tt with
  | [] => None
  | (TySum n vs) :: r => if n =? name then Some (TySum n vs) else find_sum r name
  | _ :: r => find_sum r name
  end.

(* release_usersum_recursive; [fuel] bounds the depth of the recursion *)
Fixpoint urelease (fuel : nat) (tt : list sty) (t : sty) (v : list word) (h : store) : store :=
  match fuel with
  | O => h
  | S f =>
      match t with
      | TyNum _ => h
      | TyBoxed inner =>
          match v with
          | [] => h
          | w :: _ =>
              let h1 := match sm_get h (h_dec VE w) with
                        | Some ob => if orc ob <=? 1 then urelease f tt inner (odata ob) h else h
                        | None => h
                        end in
              fst (hp_release VE h1 w)
          end
      | TyAlias name =>
          match v with
          | [] => h
          | w :: _ =>
              let h1 := match sm_get h (h_dec VE w), find_sum tt name with
                        | Some ob, Some inner => if orc ob <=? 1 then urelease f tt inner (odata ob) h else h
                        | _, _ => h
                        end in
              fst (hp_release VE h1 w)
          end
      | TySum _ vs =>
          match v with
          | [] => h
          | tag :: rest =>
              if tag <? N.of_nat (length vs) then
                match nth (N.to_nat tag) vs None with
                | Some p => urelease f tt p rest h
                | None => h
                end
              else h
          end
      | TyTuple l =>
          (fix go (l : list sty) (v : list word) (h : store) : store :=
             match l with
             | [] => h
             | e :: r =>
                 let n := N.to_nat (ty_size e) in
                 let h' := if Nat.leb n (length v) then urelease f tt e (firstn n v) h else h in
                 go r (skipn n v) h'
             end) l v h
      end
  end.

Definition URELEASE_FUEL : nat := 4000.

(* the two primitives on the VM: `size` words of the value, type number `ty` of the table *)
Definition vm_usersum_clone (tt : list sty) (v : vmst) (value : list word) (size ty : N) : vmst * ires :=
  match nth_error tt (N.to_nat ty) with
  | None => (v, IFault FBadSize)                          (* expect("usersum_clone: invalid type id") *)
  | Some t =>
      if size <=? N.of_nat (length value)
      then (with_vheap v (uclone t (firstn (N.to_nat size) value) (v_heap v)), IUnit)
      else (v, IFault FOutOfRange)                        (* &value[..size] *)
  end.

Definition vm_usersum_release (tt : list sty) (v : vmst) (value : list word) (size ty : N) : vmst * ires :=
  match nth_error tt (N.to_nat ty) with
  | None => (v, IFault FBadSize)
  | Some t =>
      if size <=? N.of_nat (length value)
      then (with_vheap v (urelease URELEASE_FUEL tt t (firstn (N.to_nat size) value) (v_heap v)), IUnit)
      else (v, IFault FOutOfRange)
  end.

(* the WASM host, as wasmgen calls it: usersum_clone(0, size, 0) = usersum_clone_host(dst_ptr = 0, src_ptr = size,
   size = 0) returns at `size <= 0`; usersum_release_host is empty *)
Definition wasm_usersum_clone (w : wast) (value : list word) (size ty : N) : wast * ires := (w, IUnit).
Definition wasm_usersum_release (w : wast) (value : list word) (size ty : N) : wast * ires := (w, IUnit).

(* ---------------------------------------------------------------------------------------------- *)
(* type rec List = Nil | Cons(float, List): table = [the sum with the boxed self reference] *)
Definition ty_list : sty := TySum 1 [None; Some (TyTuple [TyNum 1; TyAlias 1])].

(* a cons cell whose tail is the boxed object h0; clone the value, then release the box once:
   on the VM the clone retained the tail (count 2 -> 1: still there), the WASM host did nothing (count 1 -> 0: freed),
   and the next load of the tail faults on WASM only *)
Lemma usersum_differs :
  let value := fun raw => [1; 4607182418800017408; raw] in
  let (h0, k0) := st_alloc sm_new [0] in
  let rv := h_enc VE k0 in        (* the VM's handle for the box *)
  let rw := h_enc WE k0 in        (* the WASM host's handle for the same box *)
  let v1 := fst (vm_usersum_clone [ty_list] (mkVm h0 sm_new (st_init 0)) (value rv) 3 0) in
  let hv := fst (hp_release VE (v_heap v1) rv) in
  let w1 := fst (wasm_usersum_clone (mkWa h0 [] (st_init 0) 0 0) (value rw) 3 0) in
  let hw := fst (hp_release WE (w_heap w1) rw) in
  hp_load VE hv rv 1 = IWords [0] /\ hp_load WE hw rw 1 = IFault FInvalidHandle.
Proof. vm_compute. split; reflexivity. Qed.
