(* Prims/Bits.v — a handle is the u64 image of a slot-map key: the two encodings round-trip for 32-bit fields
   (heap handles: transmute of KeyData = Heap.Model.raw_of_key / key_of_raw; VM array handles: KeyData::as_ffi /
   from_ffi = Vm.ffi_of_key / key_of_ffi), and the slot map's index and version fields stay small: after B
   operations every index and version is at most B (so the 32-bit fields of the real keys do not wrap for runs
   shorter than 2^32 operations — the hypothesis `ops_short` of the refinement theorems). *)
From Coq Require Import List NArith Bool Lia Arith.
From Mimium Require Import Heap.Model Heap.SlotMap Prims.Spec Prims.Impl Prims.Vm.
Import ListNotations.
Local Open Scope N_scope.

Definition TWO32 : N := 4294967296.

Lemma ones32 : 4294967295 = N.ones 32.
Proof. reflexivity. Qed.

Lemma raw_key_roundtrip : forall k, kidx k < TWO32 -> kver k < TWO32 -> key_of_raw (raw_of_key k) = k.
Proof.
  intros [i v] Hi Hv. unfold key_of_raw, raw_of_key; cbn [kidx kver] in *. f_equal.
  - rewrite N.shiftr_lor, N.shiftr_shiftl_l by lia. cbn [N.sub]. rewrite N.shiftl_0_r.
    rewrite (N.shiftr_div_pow2 v), N.div_small by (exact Hv). apply N.lor_0_r.
  - rewrite ones32, N.land_lor_distr_l, !N.land_ones.
    rewrite N.shiftl_mul_pow2, N.mod_mul by (cbn; lia).
    rewrite N.mod_small by exact Hv. reflexivity.
Qed.

Lemma lor1_odd_id : forall v, N.odd v = true -> N.lor v 1 = v.
Proof. intros [|p] H; [discriminate|]. destruct p; cbn in *; try discriminate; reflexivity. Qed.

Lemma ffi_key_roundtrip : forall k, kidx k < TWO32 -> kver k < TWO32 -> N.odd (kver k) = true ->
  key_of_ffi (ffi_of_key k) = k.
Proof.
  intros [i v] Hi Hv Ho. unfold key_of_ffi, ffi_of_key; cbn [kidx kver] in *. f_equal.
  - rewrite ones32, N.land_lor_distr_l, !N.land_ones.
    rewrite N.shiftl_mul_pow2, N.mod_mul by (cbn; lia).
    rewrite N.mod_small by exact Hi. reflexivity.
  - rewrite N.shiftr_lor, N.shiftr_shiftl_l by lia. cbn [N.sub]. rewrite N.shiftl_0_r.
    rewrite (N.shiftr_div_pow2 i), N.div_small by (exact Hi). rewrite N.lor_0_r. apply lor1_odd_id; exact Ho.
Qed.

(* both handle encodings give the key back (for the keys a slot map issues: odd version) *)
Definition enc_roundtrip (E : henc) : Prop :=
  forall k, kidx k < TWO32 -> kver k < TWO32 -> N.odd (kver k) = true -> h_dec E (h_enc E k) = k.

Lemma enc_transmute_rt : enc_roundtrip enc_transmute.
Proof. intros k Hi Hv _. apply raw_key_roundtrip; auto. Qed.

Lemma enc_ffi_rt : enc_roundtrip enc_ffi.
Proof. intros k Hi Hv Ho. apply ffi_key_roundtrip; auto. Qed.

(* ---------------------------------------------------------------------------------------------- *)
(* sizes of a slot map: number of slots and every version at most B *)
Section Small.
  Context {V : Type}.

  Definition sm_le (m : smap V) (B : N) : Prop :=
    N.of_nat (length (slots m)) <= B /\ Forall (fun s => sver s <= B) (slots m).

  Lemma sm_le_new : sm_le (@sm_new V) 1.
  Proof. split; cbn; [lia|]. constructor; [cbn; lia|constructor]. Qed.

  Lemma sm_le_mono : forall (m : smap V) B B', B <= B' -> sm_le m B -> sm_le m B'.
  Proof.
    intros m B B' Hb [Hl Hv]. split; [lia|]. eapply Forall_impl; [|exact Hv]. intros s Hs; cbn in *; lia.
  Qed.

  Lemma Forall_set_nth : forall (P : slot V -> Prop) l n x, Forall P l -> P x -> Forall P (set_nth l n x).
  Proof.
    intros P l. induction l as [|y r IH]; intros [|n] x Hl Hx; cbn; auto; inversion Hl; subst; constructor; auto.
  Qed.

  Lemma slot_at_in : forall (m : smap V) i s, slot_at m i = Some s -> In s (slots m).
  Proof. intros m i s H. rewrite slot_at_eq in H. eapply nth_error_In; eauto. Qed.

  Lemma lor1_le : forall v, N.lor v 1 <= v + 1.
  Proof.
    intros v. destruct (N.odd v) eqn:E; [rewrite lor1_odd_id by exact E; lia|rewrite lor1_even by exact E; lia].
  Qed.

  Lemma sm_le_insert : forall (m : smap V) v B, sm_le m B -> sm_le (fst (sm_insert m v)) (B + 1).
  Proof.
    intros m v B [Hl Hv]. unfold sm_le, sm_insert. destruct (slot_at m (free_head m)) as [s|] eqn:Hs; cbn [fst slots].
    - split; [rewrite set_nth_length; lia|].
      apply Forall_set_nth.
      + eapply Forall_impl; [|exact Hv]. intros; cbn in *; lia.
      + cbn [sver]. pose proof (lor1_le (sver s)). rewrite Forall_forall in Hv.
        specialize (Hv s (slot_at_in _ _ _ Hs)). cbn in Hv. lia.
    - split; [rewrite app_length; cbn; lia|].
      apply Forall_app. split; [eapply Forall_impl; [|exact Hv]; intros; cbn in *; lia|].
      constructor; [cbn; lia|constructor].
  Qed.

  Lemma sm_insert_key_le : forall (m : smap V) v B, sm_le m B ->
    kidx (snd (sm_insert m v)) <= B /\ kver (snd (sm_insert m v)) <= B + 1.
  Proof.
    intros m v B [Hl Hv]. unfold sm_insert. destruct (slot_at m (free_head m)) as [s|] eqn:Hs; cbn [snd kidx kver].
    - split.
      + unfold slot_at in Hs. destruct (free_head m <? N.of_nat (length (slots m))) eqn:E; [|discriminate].
        apply N.ltb_lt in E. lia.
      + pose proof (lor1_le (sver s)). rewrite Forall_forall in Hv.
        specialize (Hv s (slot_at_in _ _ _ Hs)). cbn in Hv. lia.
    - split; lia.
  Qed.

  Lemma sm_le_remove : forall (m : smap V) k B, sm_le m B -> sm_le (fst (sm_remove m k)) (B + 1).
  Proof.
    intros m k B [Hl Hv]. unfold sm_remove. destruct (sm_contains m k); [|apply (sm_le_mono m B); [lia|split; auto]].
    destruct (slot_at m (kidx k)) as [s|] eqn:Hs; cbn [fst]; [|apply (sm_le_mono m B); [lia|split; auto]].
    unfold sm_le; split; cbn [slots]; [rewrite set_nth_length; lia|].
    apply Forall_set_nth.
    - eapply Forall_impl; [|exact Hv]. intros; cbn in *; lia.
    - cbn [sver]. rewrite Forall_forall in Hv. specialize (Hv s (slot_at_in _ _ _ Hs)). cbn in Hv. lia.
  Qed.

  Lemma sm_le_set : forall (m : smap V) k v B, sm_le m B -> sm_le (sm_set m k v) B.
  Proof.
    intros m k v B [Hl Hv]. unfold sm_set. destruct (slot_at m (kidx k)) as [s|] eqn:Hs; [|split; auto].
    destruct (sver s =? kver k); [|split; auto].
    unfold sm_le; split; cbn [slots]; [rewrite set_nth_length; lia|].
    apply Forall_set_nth; [exact Hv|]. cbn [sver]. rewrite Forall_forall in Hv.
    exact (Hv s (slot_at_in _ _ _ Hs)).
  Qed.
End Small.
