(* Prims/Agree.v — the corollary of the two refinements: under both sets of hypotheses the VM and the WASM host
   give results related to the SAME specification results; results that are numbers are equal words, results
   that are handles are the two implementations' own handles for the same allocation. *)
From Coq Require Import List ZArith NArith Bool Lia Arith.
From Mimium Require Import Heap.Model Lmmm.Machine Prims.Float Prims.StateOps Prims.Spec Prims.Impl
  Prims.Vm Prims.Wasm Prims.Pre Prims.Bits Prims.HeapSim Prims.Sim Prims.SimVm Prims.SimWasm.
Import ListNotations.
Local Open Scope N_scope.

Definition is_num (v : val) : bool := match v with VNum _ => true | _ => false end.

(* a specification result without handles: a backend-independent observation *)
Definition nums_only (r : sres) : bool :=
  match r with
  | SVals l => forallb is_num l
  | SHeapH _ | SArrH _ => false
  | _ => true
  end.

Lemma map_resolve_nums_only : forall t1 t2 l, forallb is_num l = true -> map (resolve t1) l = map (resolve t2) l.
Proof.
  intros t1 t2 l H. rewrite forallb_forall in H. apply map_ext_in. intros v Hv. specialize (H v Hv).
  destruct v; cbn in *; try discriminate; reflexivity.
Qed.

Lemma rel_nums_eq : forall t1 t2 r a b, nums_only r = true -> res_rel t1 r a -> res_rel t2 r b -> a = b.
Proof.
  intros t1 t2 r a b Hn Ha Hb. destruct r, a; cbn in *; try contradiction; try discriminate;
    destruct b; cbn in *; try contradiction; try discriminate; subst; auto.
  f_equal. apply map_resolve_nums_only. exact Hn.
Qed.

Theorem vm_wasm_agree : forall size now sr ops,
  N.of_nat (length ops) + 4 < TWO32 ->
  pre_run vm_pre (spec_init size now sr) ops = true ->
  pre_run wasm_pre (spec_init size now sr) ops = true ->
  exists tv tw,
    Forall2 (res_rel tv) (spec_run (spec_init size now sr) ops) (vm_run size ops) /\
    Forall2 (res_rel tw) (spec_run (spec_init size now sr) ops) (wasm_run now sr ops).
Proof.
  intros size now sr ops Hs Hv Hw. do 2 eexists. split.
  - apply vm_refines_spec; auto.
  - apply wasm_refines_spec; auto.
Qed.

Lemma Forall2_nth : forall {A B} (P : A -> B -> Prop) l1 l2 i a b,
  Forall2 P l1 l2 -> nth_error l1 i = Some a -> nth_error l2 i = Some b -> P a b.
Proof.
  intros A B P l1 l2 i a b H. revert i. induction H as [|x y l1 l2 Hxy H IH]; intros [|i] Ha Hb; cbn in *; try discriminate.
  - inversion Ha; inversion Hb; subst; auto.
  - eapply IH; eauto.
Qed.

Theorem vm_wasm_agree_numbers : forall size now sr ops i r a b,
  N.of_nat (length ops) + 4 < TWO32 ->
  pre_run vm_pre (spec_init size now sr) ops = true ->
  pre_run wasm_pre (spec_init size now sr) ops = true ->
  nth_error (spec_run (spec_init size now sr) ops) i = Some r -> nums_only r = true ->
  nth_error (vm_run size ops) i = Some a -> nth_error (wasm_run now sr ops) i = Some b ->
  a = b.
Proof.
  intros size now sr ops i r a b Hs Hv Hw Hr Hn Ha Hb.
  destruct (vm_wasm_agree size now sr ops Hs Hv Hw) as (tv & tw & Fv & Fw).
  eapply rel_nums_eq; [exact Hn| |].
  - eapply (Forall2_nth _ _ _ i r a Fv); eauto.
  - eapply (Forall2_nth _ _ _ i r b Fw); eauto.
Qed.

Lemma Forall2_len : forall {A B} (P : A -> B -> Prop) l1 l2, Forall2 P l1 l2 -> length l1 = length l2.
Proof. intros A B P l1 l2 H. induction H; cbn; auto. Qed.

Theorem vm_wasm_same_length : forall size now sr ops,
  N.of_nat (length ops) + 4 < TWO32 ->
  pre_run vm_pre (spec_init size now sr) ops = true ->
  pre_run wasm_pre (spec_init size now sr) ops = true ->
  length (vm_run size ops) = length (wasm_run now sr ops).
Proof.
  intros size now sr ops Hs Hv Hw.
  destruct (vm_wasm_agree size now sr ops Hs Hv Hw) as (tv & tw & Fv & Fw).
  rewrite <- (Forall2_len _ _ _ Fv), <- (Forall2_len _ _ _ Fw). reflexivity.
Qed.
