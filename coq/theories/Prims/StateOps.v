(* Prims/StateOps.v — the state-storage primitives on whole words, built on the cursor machine of
   Lmmm/Machine.v (imported, not copied: do_push do_pop mem1 delay1 ensure rd wr and the two disciplines
   VmD = vm.rs StateStorage, WasmD = wasm.rs state_*_host).  Definitions only.

   New here: GetState / SetState of ANY size (Lmmm has the one-word case), u64 words (a state word is kept as
   the Z of its bit pattern, so that Lmmm's ring-buffer arithmetic applies to the two index words unchanged),
   and the delay time given as an f64 bit pattern (Float.f64_time). *)
From Coq Require Import List ZArith NArith Bool.
From Mimium Require Import Lmmm.Machine Prims.Float.
Import ListNotations.
Local Open Scope N_scope.

Definition zw (w : N) : Z := Z.of_N w.
Definition wz (z : Z) : N := Z.to_N z.

(* words [p, p+n) *)
Fixpoint rd_n (m : mstate) (p : N) (n : nat) : list Z :=
  match n with
  | O => []
  | S k => rd m p :: rd_n m (p + 1) k
  end.

Fixpoint wr_n (m : mstate) (p : N) (l : list Z) : mstate :=
  match l with
  | [] => m
  | v :: r => wr_n (wr m p v) (p + 1) r
  end.

(* StateStorage::get_state(size) / state_get_host: `size` words at the cursor *)
Definition getn (d : disc) (size : N) (m : mstate) : option (list Z * mstate) :=
  let m := tr 0 (m_pos m) size m in
  match ensure d (m_pos m + size) m with
  | Some m => Some (rd_n m (m_pos m) (N.to_nat size), m)
  | None => None
  end.

(* StateStorage::get_state_mut(size).copy_from_slice(src) / state_set_host *)
Definition setn (d : disc) (src : list Z) (m : mstate) : option mstate :=
  let size := N.of_nat (length src) in
  let m := tr 1 (m_pos m) size m in
  match ensure d (m_pos m + size) m with
  | Some m => Some (wr_n m (m_pos m) src)
  | None => None
  end.

(* the words of a storage as u64 *)
Definition st_words (m : mstate) : list N := map wz (m_words m).
Definition st_init (size : N) : mstate := mkM (repeat 0%Z (N.to_nat size)) 0 [].
