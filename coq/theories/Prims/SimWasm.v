(* Prims/SimWasm.v — every step of the WASM host's implementation (Prims/Wasm.v wasm_step) simulates the
   specification's step under [wasm_rel], whenever the hypothesis wasm_pre holds; hence every run does. *)
From Coq Require Import List ZArith NArith Bool Lia Arith.
From Mimium Require Import Heap.Model Heap.SlotMap Lmmm.Machine Prims.Float Prims.StateOps Prims.Spec Prims.Impl
  Prims.Vm Prims.Wasm Prims.Pre Prims.Bits Prims.HeapSim Prims.StateSim Prims.ArrSimVm Prims.ArrSimWasm Prims.Sim Prims.SimVm.
Import ListNotations.
Local Open Scope N_scope.

Record wasm_rel (t : tabs) (s : spec) (w : wast) (B : N) : Prop := mkWaR {
  wl_heap : heap_rel WE t (sp_heap s) (w_heap w) B;
  wl_arr : warr_rel t (sp_arrs s) (w_arrs w);
  wl_st : st_rel (sp_st s) (w_st w);
  wl_now : w_now w = sp_now s;
  wl_sr : w_sr w = sp_sr s
}.

Lemma wasm_rel_init : forall size now sr, wasm_rel tabs0 (spec_init size now sr) (wasm_init now sr) 1.
Proof.
  intros. constructor; cbn; [apply heap_rel_init|apply warr_rel_init|apply st_rel_init|reflexivity|reflexivity].
Qed.

(* a step that changes only the state storage *)
Lemma wasm_rel_st : forall t s w B ms mw, wasm_rel t s w B -> st_rel ms mw ->
  wasm_rel t (with_st s ms) (with_wst w mw) (B + 1).
Proof.
  intros t s w B ms mw [Hh Ha Hs Hn Hr] H. constructor; cbn; auto. apply (heap_rel_mono _ _ _ _ B); [lia|exact Hh].
Qed.

Lemma wasm_rel_same : forall t s w B, wasm_rel t s w B -> wasm_rel t s w (B + 1).
Proof. intros t s w B [Hh Ha Hs Hn Hr]. constructor; auto. apply (heap_rel_mono _ _ _ _ B); [lia|exact Hh]. Qed.

Lemma wasm_rel_heap : forall t s w B sh' h', wasm_rel t s w B -> heap_rel WE t sh' h' (B + 1) ->
  wasm_rel t (with_heap s sh') (with_wheap w h') (B + 1).
Proof. intros t s w B sh' h' [Hh Ha Hs Hn Hr] H. constructor; cbn; auto. Qed.

Lemma wasm_rel_heap_alloc : forall t s v B w h' o',
  wasm_rel t s v B ->
  heap_rel WE (mkTabs (t_heap t ++ [w]) (t_arr t)) (sp_heap s ++ [Some o']) h' (B + 1) ->
  wasm_rel (mkTabs (t_heap t ++ [w]) (t_arr t)) (with_heap s (sp_heap s ++ [Some o'])) (with_wheap v h') (B + 1).
Proof.
  intros t s v B w h' o' [Hh Ha Hs Hn Hr] Hnew. constructor; cbn; auto. apply warr_rel_ext_heap. exact Ha.
Qed.

Ltac fault_case :=
  rewrite ?tabs_after_fault; split; [apply ext_refl|]; split; [intros; reflexivity|]; split; [reflexivity|discriminate].

Lemma wasm_step_sim : forall t s w B o, wasm_rel t s w B -> wasm_pre s o = true -> B + 2 < TWO32 ->
  step_sim_at wasm_step wasm_rel t s w B o.
Proof.
  intros t s w B o HR Hpre HB. pose proof HR as [Hh Ha Hst Hnow Hsr].
  unfold wasm_pre in Hpre. apply andb_true_iff in Hpre. destruct Hpre as [Hwf Hx].
  pose proof (hr_len _ _ _ _ _ Hh) as Hlh. pose proof (wr_len _ _ _ Ha) as Hla.
  destruct o as [size|src|h|h|h size|h src|k|k|size|src|input time max_len|input|esz data|a idx esz|a idx src esz|a| |];
    cbn [op_wf] in Hwf.
  - (* OHeapAlloc *)
    destruct (hp_alloc_sim WE enc_ffi_rt t (sp_heap s) (w_heap w) B (repeat (VNum 0) (N.to_nat size)) Hh) as (x & h' & E & Hnew);
      [lia|apply vals_scoped_repeat0|].
    rewrite map_resolve_repeat0 in E.
    unfold step_sim_at; cbn zeta; cbn [spec_step wasm_step]. rewrite E. cbn [fst snd tabs_after is_heap_alloc].
    split; [apply ext_heap_snoc|]. split; [|split; [reflexivity|]].
    + intros t'' He. cbn [res_rel]. rewrite <- Hlh. eapply ext_nth_heap; eauto.
    + intros _. apply wasm_rel_heap_alloc; auto.
  - (* OBoxAlloc *)
    destruct (hp_alloc_sim WE enc_ffi_rt t (sp_heap s) (w_heap w) B src Hh) as (x & h' & E & Hnew);
      [lia|rewrite Hlh, Hla; exact Hwf|].
    unfold step_sim_at; cbn zeta; cbn [spec_step wasm_step]. rewrite E. cbn [fst snd tabs_after is_heap_alloc].
    split; [apply ext_heap_snoc|]. split; [|split; [reflexivity|]].
    + intros t'' He. cbn [res_rel]. rewrite <- Hlh. eapply ext_nth_heap; eauto.
    + intros _. apply wasm_rel_heap_alloc; auto.
  - (* OHeapRetain *)
    destruct (hp_retain_sim WE t s (w_heap w) B h Hh Hwf) as (sh' & r & Es & Hr & Hf1 & Hf2 & Hnew).
    unfold step_sim_at; cbn zeta. cbn [wasm_step]. rewrite Es.
    destruct (hp_retain WE (w_heap w) (resolve t h)) as [h' i] eqn:E. cbn [fst snd] in *.
    rewrite tabs_after_nonalloc by reflexivity.
    split; [apply ext_refl|]. split; [intros; apply Hr|]. split; [congruence|].
    intros _. apply wasm_rel_heap; auto.
  - (* OHeapRelease *)
    destruct (hp_release_sim WE t s (w_heap w) B h Hh Hwf) as (sh' & r & Es & Hr & Hf1 & Hf2 & Hnew).
    unfold step_sim_at; cbn zeta. cbn [wasm_step]. rewrite Es.
    destruct (hp_release WE (w_heap w) (resolve t h)) as [h' i] eqn:E. cbn [fst snd] in *.
    rewrite tabs_after_nonalloc by reflexivity.
    split; [apply ext_refl|]. split; [intros; apply Hr|]. split; [congruence|].
    intros _. apply wasm_rel_heap; auto.
  - (* OHeapLoad *)
    destruct (hp_load_sim WE t s (w_heap w) B h size Hh Hwf) as (r & Es & Hr & Hf & Hext).
    unfold step_sim_at; cbn zeta. cbn [wasm_step]. rewrite Es. cbn [fst snd].
    rewrite tabs_after_nonalloc by reflexivity.
    split; [apply ext_refl|]. split; [exact Hext|]. split; [exact Hf|].
    intros _. apply wasm_rel_same. exact HR.
  - (* OHeapStore *)
    apply andb_true_iff in Hwf. destruct Hwf as [Hwf Hsrc].
    destruct (hp_store_sim WE t s (w_heap w) B h src Hh Hwf) as (sh' & r & Es & Hr & Hf & Hnew);
      [rewrite Hlh, Hla; exact Hsrc|].
    unfold step_sim_at; cbn zeta. cbn [wasm_step]. rewrite Es.
    destruct (hp_store WE (w_heap w) (resolve t h) (map (resolve t) src)) as [h' i] eqn:E. cbn [fst snd] in *.
    rewrite tabs_after_nonalloc by reflexivity.
    split; [apply ext_refl|]. split; [intros; apply Hr|]. split; [exact Hf|].
    intros Hn. apply wasm_rel_heap; auto.
  - (* OStatePush *)
    apply andb_true_iff in Hx. destruct Hx as [H0 Hfit]. apply N.leb_le in Hfit.
    unfold step_sim_at; cbn zeta. cbn [spec_step wasm_step].
    destruct (Z.ltb_spec k 0); [apply Z.leb_le in H0; lia|]. cbn [fst snd].
    rewrite tabs_after_nonalloc by reflexivity.
    split; [apply ext_refl|]. split; [intros; exact I|]. split; [reflexivity|]. intros _.
    apply wasm_rel_st; [exact HR|]. unfold wasm_state_push. rewrite H0. unfold wasm_cursor_add.
    destruct Hst as (Hp & _). rewrite Hp. destruct (N.leb_spec (m_pos (sp_st s) + Z.to_N k) USIZE_MAX); [|lia].
    apply do_push_rel. exact (wl_st _ _ _ _ HR).
  - (* OStatePop *)
    apply andb_true_iff in Hx. destruct Hx as [H0 Hnf]. apply negb_true_iff in Hnf.
    unfold spec_faults in Hnf. cbn [spec_step] in Hnf.
    unfold step_sim_at; cbn zeta. cbn [spec_step wasm_step].
    destruct (Z.ltb_spec k 0); [apply Z.leb_le in H0; lia|].
    destruct (do_pop VmD (Z.to_N k) (sp_st s)) as [ms'|] eqn:Ep; [|cbn in Hnf; discriminate]. cbn [fst snd].
    rewrite tabs_after_nonalloc by reflexivity.
    split; [apply ext_refl|]. split; [intros; exact I|]. split; [reflexivity|]. intros _.
    apply wasm_rel_st; [exact HR|]. unfold wasm_state_pop. rewrite H0. unfold wasm_cursor_sub.
    destruct (do_pop_rel _ _ _ _ Hst Ep) as (mw' & E & Hr'). rewrite E. exact Hr'.
  - (* OStateGet *)
    apply negb_true_iff in Hx. unfold spec_faults in Hx. cbn [spec_step] in Hx.
    unfold step_sim_at; cbn zeta. cbn [spec_step wasm_step].
    destruct (getn VmD size (sp_st s)) as [[l ms']|] eqn:Eg; [|cbn in Hx; discriminate].
    destruct (getn_rel _ _ _ _ _ Hst Eg) as (mw' & E & Hr'). rewrite E. cbn [fst snd].
    rewrite tabs_after_nonalloc by reflexivity.
    split; [apply ext_refl|]. split; [intros; cbn [res_rel]; rewrite map_resolve_nums; reflexivity|]. split; [reflexivity|].
    intros _. apply wasm_rel_st; auto.
  - (* OStateSet *)
    apply negb_true_iff in Hx. unfold spec_faults in Hx. cbn [spec_step] in Hx.
    unfold step_sim_at; cbn zeta. cbn [spec_step wasm_step].
    destruct (setn VmD (map zw src) (sp_st s)) as [ms'|] eqn:Eg; [|cbn in Hx; discriminate].
    destruct (setn_rel _ _ _ _ Hst Eg) as (mw' & E & Hr'). rewrite E. cbn [fst snd].
    rewrite tabs_after_nonalloc by reflexivity.
    split; [apply ext_refl|]. split; [intros; exact I|]. split; [reflexivity|].
    intros _. apply wasm_rel_st; auto.
  - (* OStateDelay *)
    apply andb_true_iff in Hx. destruct Hx as [Hx Hfit]. apply andb_true_iff in Hx. destruct Hx as [Hnf Hcap].
    apply negb_true_iff in Hnf. unfold spec_faults in Hnf. cbn [spec_step] in Hnf.
    apply N.leb_le in Hfit. apply N.leb_le in Hcap.
    unfold step_sim_at; cbn zeta. cbn [spec_step wasm_step].
    destruct (delay1 VmD max_len (zw input) (f64_time time) (sp_st s)) as [[r ms']|] eqn:Ed; [|cbn in Hnf; discriminate].
    unfold wasm_state_delay.
    destruct (N.eqb_spec max_len 0) as [E0|Hn0]; cbn [orb].
    + subst max_len. destruct (delay1_zero_vm _ _ _ _ _ Ed) as (-> & Hw & Hp). cbn [fst snd].
      rewrite tabs_after_nonalloc by reflexivity.
      split; [apply ext_refl|]. split; [intros; reflexivity|]. split; [reflexivity|].
      intros _. apply wasm_rel_st; [exact HR|]. eapply st_rel_same_words; eauto.
    + destruct (N.ltb_spec MAX_WASM_DELAY_SAMPLES max_len); [lia|].
      destruct Hst as (Hp & Hst'). rewrite Hp.
      destruct (N.ltb_spec USIZE_MAX (m_pos (sp_st s) + 2 + max_len)); [lia|].
      destruct (delay1_rel _ _ _ _ _ _ _ (wl_st _ _ _ _ HR) Ed Hn0) as (mw' & E & Hr'). rewrite E. cbn [fst snd].
      rewrite tabs_after_nonalloc by reflexivity.
      split; [apply ext_refl|]. split; [intros; reflexivity|]. split; [reflexivity|].
      intros _. apply wasm_rel_st; auto.
  - (* OStateMem *)
    apply negb_true_iff in Hx. unfold spec_faults in Hx. cbn [spec_step] in Hx.
    unfold step_sim_at; cbn zeta. cbn [spec_step wasm_step].
    destruct (mem1 VmD (zw input) (sp_st s)) as [[r ms']|] eqn:Eg; [|cbn in Hx; discriminate].
    destruct (mem1_rel _ _ _ _ _ Hst Eg) as (mw' & E & Hr'). rewrite E. cbn [fst snd].
    rewrite tabs_after_nonalloc by reflexivity.
    split; [apply ext_refl|]. split; [intros; reflexivity|]. split; [reflexivity|].
    intros _. apply wasm_rel_st; auto.
  - (* OArrayNew *)
    unfold step_sim_at; cbn zeta. cbn [spec_step wasm_step].
    destruct ((esz =? 0) || negb (N.of_nat (length data) mod esz =? 0)) eqn:Ebad.
    + cbn [fst snd]. fault_case.
    + destruct (wasm_array_alloc_sim t (sp_arrs s) (w_arrs w) esz data Ha) as (x & a' & E & Hnew);
        [rewrite Hlh, Hla; exact Hwf|].
      rewrite E. cbn [fst snd tabs_after is_heap_alloc is_arr_alloc].
      split; [apply ext_arr_snoc|]. split; [|split; [reflexivity|]].
      * intros t'' He. cbn [res_rel]. rewrite <- Hla. eapply ext_nth_arr; eauto.
      * intros _. constructor; cbn [sp_heap sp_arrs sp_st sp_now sp_sr with_arrs with_warrs w_heap w_arrs w_st w_now w_sr]; auto.
        apply (heap_rel_mono _ _ _ _ B); [lia|]. apply heap_rel_ext_arr. exact Hh.
  - (* OArrayGet *)
    destruct (wasm_array_get_sim t s (w_arrs w) a idx esz Ha Hwf Hx) as (r & Es & Hf & Hext).
    unfold step_sim_at; cbn zeta. cbn [wasm_step]. rewrite Es. cbn [fst snd].
    rewrite tabs_after_nonalloc by reflexivity.
    split; [apply ext_refl|]. split; [exact Hext|]. split; [exact Hf|].
    intros _. apply wasm_rel_same. exact HR.
  - (* OArraySet *)
    apply andb_true_iff in Hwf. destruct Hwf as [Hwf Hsrc].
    unfold step_sim_at; cbn zeta. cbn [wasm_step].
    destruct (N.eqb_spec (N.of_nat (length src)) esz) as [Hlen|Hlen]; cbn [negb].
    + destruct (wasm_array_set_sim t s (w_arrs w) a idx src esz Ha Hwf Hx) as (sa' & r & Es & Hf & Hr & Hnew);
        [rewrite Hlh, Hla; exact Hsrc|exact Hlen|].
      rewrite Es.
      destruct (wasm_array_set (w_arrs w) (resolve t a) (f64_to_i64 idx) (map (resolve t) src) (Z.of_N esz)) as [a' i] eqn:E.
      cbn [fst snd] in *. rewrite tabs_after_nonalloc by reflexivity.
      split; [apply ext_refl|]. split; [intros; apply Hr|]. split; [exact Hf|].
      intros Hn. constructor; cbn [sp_heap sp_arrs sp_st sp_now sp_sr with_arrs with_warrs w_heap w_arrs w_st w_now w_sr]; auto.
      apply (heap_rel_mono _ _ _ _ B); [lia|exact Hh].
    + cbn [spec_step]. destruct (resolve_arr_arg t _ _ Hwf) as (j & -> & Hj & _).
      unfold arr_esz_ok in Hx. rewrite arr_get_spec in * by exact Hj. rewrite Hx.
      destruct (N.eqb_spec (N.of_nat (length src)) esz); [contradiction|]. cbn [negb]. rewrite !orb_true_r.
      cbn [fst snd]. fault_case.
  - (* OArrayLen *)
    destruct (wasm_array_len_sim t s (w_arrs w) a Ha Hwf Hx) as (r & Es & Hf & Hext).
    unfold step_sim_at; cbn zeta. cbn [wasm_step]. rewrite Es. cbn [fst snd].
    rewrite tabs_after_nonalloc by reflexivity.
    split; [apply ext_refl|]. split; [intros; apply Hext|]. split; [exact Hf|].
    intros _. apply wasm_rel_same. exact HR.
  - (* ONow *)
    unfold step_sim_at; cbn zeta. cbn [spec_step wasm_step fst snd]. rewrite Hnow.
    rewrite tabs_after_nonalloc by reflexivity.
    split; [apply ext_refl|]. split; [intros; reflexivity|]. split; [reflexivity|].
    intros _. apply wasm_rel_same. exact HR.
  - (* OSamplerate *)
    unfold step_sim_at; cbn zeta. cbn [spec_step wasm_step fst snd]. rewrite Hsr.
    rewrite tabs_after_nonalloc by reflexivity.
    split; [apply ext_refl|]. split; [intros; reflexivity|]. split; [reflexivity|].
    intros _. apply wasm_rel_same. exact HR.
Qed.

Theorem wasm_refines_spec : forall size now sr ops,
  N.of_nat (length ops) + 4 < TWO32 ->
  pre_run wasm_pre (spec_init size now sr) ops = true ->
  let tf := fst (iexec wasm_step tabs0 (wasm_init now sr) ops) in
  Forall2 (res_rel tf) (spec_run (spec_init size now sr) ops) (wasm_run now sr ops).
Proof.
  intros size now sr ops Hs Hp. cbn zeta. unfold wasm_run.
  apply (run_sim wasm_step wasm_pre wasm_rel wasm_step_sim ops tabs0 (spec_init size now sr) (wasm_init now sr) 1).
  - apply wasm_rel_init.
  - exact Hp.
  - lia.
Qed.
