(* Prims/Differs.v — where the two implementations leave the contract and each other: one witness per hypothesis of
   the refinement theorems (each [Lemma *_differs] is closed by computation on the transcriptions; the same operation
   sequences are replayed on the REAL implementations by checks/prims_part.py, FIXED).  For each: which hypothesis of
   vm_pre / wasm_pre fails at the witness. *)
From Coq Require Import List ZArith NArith Bool Lia Arith.
From Mimium Require Import Heap.Model Lmmm.Machine Prims.Float Prims.StateOps Prims.Spec Prims.Impl
  Prims.Vm Prims.Wasm Prims.Pre.
Import ListNotations.
Local Open Scope N_scope.

Definition F64_5 : word := 4617315517961601024.     (* 5.0 *)
Definition F64_10 : word := 4621819117588971520.    (* 10.0 *)
Definition F64_20 : word := 4626322717216342016.
Definition F64_30 : word := 4629137466983448576.
Definition F64_44100 : word := 4676293871431319552. (* 44100.0 = 0x40E5888000000000 *)

(* 1. state cursor popped below zero: the VM panics (`pos - offset` overflows), the WASM host saturates at 0 and plays on
      (hypothesis of wasm_pre: the specification does not fault).  The class of defect F2. *)
Definition w_underflow : list op := [OStatePop 1; OStateMem F64_ONE].
Lemma state_underflow_differs :
  spec_run (spec_init 4 0 F64_44100) w_underflow = [SFault FUnderflow] /\
  vm_run 4 w_underflow = [IFault FUnderflow] /\
  wasm_run 0 F64_44100 w_underflow = [IUnit; IWords [0]] /\
  pre_run wasm_pre (spec_init 4 0 F64_44100) w_underflow = false.
Proof. vm_compute. repeat split. Qed.

(* 2. state access past the storage: undefined behaviour on the VM (raw pointers in StateStorage), the WASM host grows
      its storage and plays on *)
Definition w_past_end : list op := [OStatePush 4; OStateMem F64_ONE].
Lemma state_out_of_range_differs :
  spec_run (spec_init 4 0 F64_44100) w_past_end = [SUnit; SFault FOutOfRange] /\
  vm_run 4 w_past_end = [IUnit; IFault FOutOfRange] /\
  wasm_run 0 F64_44100 w_past_end = [IUnit; IWords [0]] /\
  pre_run wasm_pre (spec_init 4 0 F64_44100) w_past_end = false.
Proof. vm_compute. repeat split. Qed.

(* 3. a delay line longer than MAX_WASM_DELAY_SAMPLES = 2^24: the WASM host returns 0.0 for every call and keeps no
      history, whatever the storage (hypothesis of wasm_pre: max_len <= MAX_WASM_DELAY_SAMPLES).  A compiled program
      reaches it: fn dsp(){ delay(17000000.0, now+1.0, 2.0) } plays 0 0 1 2 3 on the VM and 0 0 0 0 0 on WASM. *)
Lemma delay_cap_differs : forall input time n m, MAX_WASM_DELAY_SAMPLES < n ->
  wasm_state_delay input time n m = (m, 0).
Proof.
  intros input time n m H. unfold wasm_state_delay. apply N.ltb_lt in H. rewrite H, orb_true_r. reflexivity.
Qed.

(* the same primitive on the VM discipline reads back what was written (a two-sample line, time 1.0) *)
Lemma delay_reads_back_small :
  vm_run 6 [OStateDelay F64_5 F64_ONE 2; OStateDelay F64_10 F64_ONE 2] = [IWords [0]; IWords [F64_5]] /\
  wasm_run 0 F64_44100 [OStateDelay F64_5 F64_ONE 2; OStateDelay F64_10 F64_ONE 2] = [IWords [0]; IWords [F64_5]].
Proof. vm_compute. split; reflexivity. Qed.

(* 4. (REPAIRED by commit 15d0817) array index +infinity: the VM's GetArrayElem used to take element 0
      (`if !index_val.is_finite() { 0 }`) while the WASM side converts with i64.trunc_sat_f64_s (i64::MAX) and the host
      clamps to the LAST element: fn dsp(){ let a = [10.0,20.0,30.0]  a[1.0/0.0] } played 10 on the VM, 30 on WASM.
      The VM now casts with saturation and clamps like the contract: both take the last element, and the hypotheses
      of both refinement theorems hold at the former witness. *)
Definition w_pinf : list op := [OArrayNew 1 [VNum F64_10; VNum F64_20; VNum F64_30]; OArrayGet (VArr 0) F64_PINF 1;
                                OArrayGet (VArr 0) F64_NINF 1; OArrayGet (VArr 0) F64_NAN 1].
Lemma index_pinf_agrees :
  spec_run (spec_init 0 0 F64_44100) w_pinf = [SArrH 0; SVals [VNum F64_30]; SVals [VNum F64_10]; SVals [VNum F64_10]] /\
  vm_run 0 w_pinf = [IHandle 4294967297; IWords [F64_30]; IWords [F64_10]; IWords [F64_10]] /\
  wasm_run 0 F64_44100 w_pinf = [IHandle 1; IWords [F64_30]; IWords [F64_10]; IWords [F64_10]] /\
  pre_run vm_pre (spec_init 0 0 F64_44100) w_pinf = true /\
  pre_run wasm_pre (spec_init 0 0 F64_44100) w_pinf = true.
Proof. vm_compute. repeat split. Qed.

(* 5. `len` of an array whose elements have two words: the host keeps no element size and returns the number of WORDS
      (hypothesis of wasm_pre: one-word elements).  fn dsp(){ len([(1.0,2.0),(3.0,4.0)]) } plays 2 on the VM, 4 on WASM. *)
Definition w_len : list op := [OArrayNew 2 [VNum 1; VNum 2; VNum 3; VNum 4]; OArrayLen (VArr 0)].
Lemma len_words_differs :
  spec_run (spec_init 0 0 F64_44100) w_len = [SArrH 0; SVals [VNum (f64_of_N 2)]] /\
  vm_run 0 w_len = [IHandle 4294967297; IWords [f64_of_N 2]] /\
  wasm_run 0 F64_44100 w_len = [IHandle 1; IWords [f64_of_N 4]] /\
  pre_run vm_pre (spec_init 0 0 F64_44100) w_len = true /\
  pre_run wasm_pre (spec_init 0 0 F64_44100) w_len = false.
Proof. vm_compute. repeat split. Qed.

(* 6. the raw handle 0 (an array-valued `self` before its first value): the WASM host reads zeros
      (UNINITIALIZED_ARRAY_HANDLE_SENTINEL), the VM's GetArrayElem panics "Invalid ArrayIdx: raw_id=0"
      (hypothesis op_wf: the argument is a handle that was returned).  A compiled program reaches it:
      fn acc(x:float)->[float]{ let a = self  let v = a[0]  [x + v] }  fn dsp(){ let r = acc(1.0)  r[0] } *)
Definition w_zero : list op := [OArrayGet (VNum 0) 0 1].
Lemma zero_handle_differs :
  spec_run (spec_init 0 0 F64_44100) w_zero = [SFault FInvalidHandle] /\
  vm_run 0 w_zero = [IFault FInvalidHandle] /\
  wasm_run 0 F64_44100 w_zero = [IWords [0]] /\
  pre_run wasm_pre (spec_init 0 0 F64_44100) w_zero = false.
Proof. vm_compute. repeat split. Qed.

(* 7. the VM's TRAIT methods runtime_get_now / runtime_get_samplerate return constants (the interpreter reads them
      through external functions instead; not reachable by compiled code) *)
Definition w_now : list op := [ONow; OSamplerate].
Lemma now_differs :
  spec_run (spec_init 0 7 F64_44100) w_now = [SVals [VNum (f64_of_N 7)]; SVals [VNum F64_44100]] /\
  vm_run 0 w_now = [IWords [0]; IWords [F64_48000]] /\
  wasm_run 7 F64_44100 w_now = [IWords [f64_of_N 7]; IWords [F64_44100]].
Proof. vm_compute. repeat split. Qed.

(* 8. the VM's TRAIT method array_get_elem (vm/primitives.rs) indexes without clamping where the interpreter's
      GetArrayElem clamps: index 3 of a 3-element array (not reachable by compiled code: the trait impl is not
      called by the interpreter) *)
Lemma trait_array_get_differs :
  let a := fst (vm_array_new sm_new 1 [F64_10; F64_20; F64_30]) in
  vm_array_get a 4294967297 (f64_of_N 3) = IWords [F64_30] /\
  vm_prim_array_get a 4294967297 (f64_of_N 3) 1 = IFault FOutOfRange.
Proof. vm_compute. split; reflexivity. Qed.

(* 9. a negative offset: the WASM host moves the cursor the other way (state_push_host with offset < 0 subtracts);
      the bytecode cannot express it *)
Definition w_negpush : list op := [OStatePush 2; OStatePush (-1); OStateSet [7]; OStatePop 1; OStateGet 3].
Lemma negative_offset_differs :
  spec_run (spec_init 4 0 F64_44100) w_negpush = [SUnit; SFault FBadSize] /\
  vm_run 4 w_negpush = [IUnit; IFault FBadSize] /\
  wasm_run 0 F64_44100 w_negpush = [IUnit; IUnit; IUnit; IUnit; IWords [0; 7; 0]].
Proof. vm_compute. repeat split. Qed.

(* 10. an element size that is not the array's: the WASM host believes the call (it stores no element size), the VM
       uses the size stored with the array (the type checker rules it out) *)
Definition w_esz : list op := [OArrayNew 2 [VNum 1; VNum 2; VNum 3; VNum 4]; OArrayGet (VArr 0) F64_ONE 1].
Lemma element_size_differs :
  spec_run (spec_init 0 0 F64_44100) w_esz = [SArrH 0; SFault FBadSize] /\
  vm_run 0 w_esz = [IHandle 4294967297; IWords [3; 4]] /\
  wasm_run 0 F64_44100 w_esz = [IHandle 1; IWords [2]].
Proof. vm_compute. repeat split. Qed.

(* ---------- the hypotheses are satisfiable: a sequence through every kind of operation ---------- *)
Definition ex_ops : list op :=
  [ OHeapAlloc 2; OBoxAlloc [VNum F64_ONE; VHeap 0]; OHeapRetain (VHeap 1); OHeapLoad (VHeap 1) 2;
    OHeapStore (VHeap 0) [VNum 5; VHeap 1]; OHeapRelease (VHeap 1); OHeapRelease (VHeap 1); OHeapRelease (VHeap 1);
    OHeapLoad (VHeap 1) 1 ].
Definition ex_ops2 : list op :=
  [ OStatePush 1; OStateMem F64_ONE; OStateSet [3; 4]; OStateGet 2; OStateDelay F64_5 F64_ONE 3; OStatePop 1; OStateGet 1;
    OArrayNew 1 [VNum F64_10; VNum F64_20]; OArrayGet (VArr 0) F64_ONE 1; OArrayGet (VArr 0) F64_NAN 1;
    OArraySet (VArr 0) 0 [VNum F64_30] 1; OArrayLen (VArr 0); OBoxAlloc [VArr 0]; OHeapLoad (VHeap 0) 1 ].

Lemma ex_ops_pre : pre_run vm_pre (spec_init 0 0 F64_44100) ex_ops = true /\ pre_run wasm_pre (spec_init 0 0 F64_44100) ex_ops = true.
Proof. vm_compute. split; reflexivity. Qed.
Lemma ex_ops2_pre : pre_run vm_pre (spec_init 8 0 F64_44100) ex_ops2 = true /\ pre_run wasm_pre (spec_init 8 0 F64_44100) ex_ops2 = true.
Proof. vm_compute. split; reflexivity. Qed.

(* a released handle is detected by both (the last load faults with FInvalidHandle everywhere); the two implementations
   number their handles differently (VM: transmuted key, index in the high half; WASM host: KeyData::as_ffi, version in
   the high half), which the handle tables absorb *)
Lemma ex_ops_runs :
  spec_run (spec_init 0 0 F64_44100) ex_ops =
    [SHeapH 0; SHeapH 1; SCount 2; SVals [VNum F64_ONE; VHeap 0]; SUnit; SCount 1; SCount 0; SInvalid; SFault FInvalidHandle] /\
  vm_run 0 ex_ops =
    [IHandle 4294967297; IHandle 8589934593; ICount 2; IWords [F64_ONE; 4294967297]; IUnit; ICount 1; ICount 0; IInvalid; IFault FInvalidHandle] /\
  wasm_run 0 F64_44100 ex_ops =
    [IHandle 4294967297; IHandle 4294967298; ICount 2; IWords [F64_ONE; 4294967297]; IUnit; ICount 1; ICount 0; IInvalid; IFault FInvalidHandle].
Proof. vm_compute. repeat split. Qed.

(* REPAIRED (finding P5): a word that is no heap handle on the WASM host.  The host used to transmute the word into a key:
   the zero word (a `type rec` value that was never assigned, e.g. the initial `self`) became the key (index 0, version 0)
   of slotmap's vacant sentinel slot, which `get` accepts: a vacant slot read as a HeapObject (SIGSEGV).  With
   KeyData::from_ffi the version is forced odd, so the zero word, a word that names no slot and the word of a
   released object are all plain invalid handles (a word with an EVEN version field v denotes version v+1): warning for retain / release, "invalid heap index" fault for a load. *)
Definition w_badheap : list op :=
  [OHeapAlloc 1; OHeapRelease (VHeap 0); OHeapAlloc 1; OHeapRetain (VNum 0); OHeapRelease (VNum 2);
   OHeapRetain (VNum 4294967297); OHeapLoad (VNum 0) 1].
Lemma wasm_bad_heap_word_invalid :
  wasm_run 0 F64_44100 w_badheap =
    [IHandle 4294967297; ICount 0; IHandle 12884901889; IInvalid; IInvalid; IInvalid; IFault FInvalidHandle].
Proof. vm_compute. reflexivity. Qed.

Lemma ex_ops2_short : N.of_nat (length ex_ops2) + 4 < 4294967296.
Proof. vm_compute. reflexivity. Qed.
