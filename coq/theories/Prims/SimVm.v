(* Prims/SimVm.v — every step of the VM's implementation (Prims/Vm.v vm_step) simulates the specification's step
   under [vm_rel], whenever the hypothesis vm_pre holds; hence (Sim.run_sim) every run does. *)
From Coq Require Import List ZArith NArith Bool Lia Arith.
From Mimium Require Import Heap.Model Heap.SlotMap Lmmm.Machine Prims.Float Prims.StateOps Prims.Spec Prims.Impl
  Prims.Vm Prims.Pre Prims.Bits Prims.HeapSim Prims.ArrSimVm Prims.Sim.
Import ListNotations.
Local Open Scope N_scope.

Record vm_rel (t : tabs) (s : spec) (v : vmst) (B : N) : Prop := mkVR {
  vr_heap : heap_rel VE t (sp_heap s) (v_heap v) B;
  vr_arr : varr_rel t (sp_arrs s) (v_arrs v) B;
  vr_st : v_st v = sp_st s
}.

Lemma vm_rel_init : forall size now sr, vm_rel tabs0 (spec_init size now sr) (vm_init size) 1.
Proof. intros. constructor; cbn; [apply heap_rel_init|apply varr_rel_init|reflexivity]. Qed.

Lemma map_resolve_repeat0 : forall t n, map (resolve t) (repeat (VNum 0) n) = repeat 0 n.
Proof. intros t n. induction n; cbn; [reflexivity|]. now f_equal. Qed.

Lemma map_resolve_nums : forall t (l : list Z), map (resolve t) (map (fun z => VNum (wz z)) l) = map wz l.
Proof. intros t l. rewrite map_map. reflexivity. Qed.

Lemma forallb_scoped : forall nh na l, forallb (val_ok nh na) l = true -> vals_scoped nh na l.
Proof. intros. exact H. Qed.

(* the three parts that do not change keep their relation when a table grows *)
Lemma vm_rel_heap_alloc : forall t s v B w h' o',
  vm_rel t s v B ->
  heap_rel VE (mkTabs (t_heap t ++ [w]) (t_arr t)) (sp_heap s ++ [Some o']) h' (B + 1) ->
  vm_rel (mkTabs (t_heap t ++ [w]) (t_arr t)) (with_heap s (sp_heap s ++ [Some o'])) (with_vheap v h') (B + 1).
Proof.
  intros t s v B w h' o' [Hh Ha Hs] Hnew. constructor; cbn [sp_heap sp_arrs sp_st with_heap with_vheap v_heap v_arrs v_st].
  - exact Hnew.
  - apply (varr_rel_mono _ _ _ B); [lia|]. apply varr_rel_ext_heap. exact Ha.
  - exact Hs.
Qed.

Ltac fin_simple Hrel :=
  (* a step that allocates nothing: tables unchanged *)
  unfold step_sim_at; cbn zeta; cbn [fst snd];
  rewrite tabs_after_nonalloc by reflexivity.

Lemma vm_step_sim : forall t s v B o, vm_rel t s v B -> vm_pre s o = true -> B + 2 < TWO32 ->
  step_sim_at vm_step vm_rel t s v B o.
Proof.
  intros t s v B o HR Hpre HB. pose proof HR as [Hh Ha Hst].
  unfold vm_pre in Hpre. apply andb_true_iff in Hpre. destruct Hpre as [Hwf Hx].
  pose proof (hr_len _ _ _ _ _ Hh) as Hlh. pose proof (ar_len _ _ _ _ Ha) as Hla.
  destruct o as [size|src|h|h|h size|h src|k|k|size|src|input time max_len|input|esz data|a idx esz|a idx src esz|a| |];
    cbn [op_wf] in Hwf.
  - (* OHeapAlloc *)
    destruct (hp_alloc_sim VE enc_transmute_rt t (sp_heap s) (v_heap v) B (repeat (VNum 0) (N.to_nat size)) Hh) as (w & h' & E & Hnew);
      [lia|apply vals_scoped_repeat0|].
    rewrite map_resolve_repeat0 in E.
    unfold step_sim_at; cbn zeta; cbn [spec_step vm_step]. rewrite E. cbn [fst snd tabs_after is_heap_alloc].
    split; [apply ext_heap_snoc|]. split; [|split; [reflexivity|]].
    + intros t'' He. cbn [res_rel]. rewrite <- Hlh. eapply ext_nth_heap; eauto.
    + intros _. apply vm_rel_heap_alloc; auto.
  - (* OBoxAlloc *)
    destruct (hp_alloc_sim VE enc_transmute_rt t (sp_heap s) (v_heap v) B src Hh) as (w & h' & E & Hnew);
      [lia|rewrite Hlh, Hla; exact Hwf|].
    unfold step_sim_at; cbn zeta; cbn [spec_step vm_step]. rewrite E. cbn [fst snd tabs_after is_heap_alloc].
    split; [apply ext_heap_snoc|]. split; [|split; [reflexivity|]].
    + intros t'' He. cbn [res_rel]. rewrite <- Hlh. eapply ext_nth_heap; eauto.
    + intros _. apply vm_rel_heap_alloc; auto.
  - (* OHeapRetain *)
    destruct (hp_retain_sim VE t s (v_heap v) B h Hh Hwf) as (sh' & r & Es & Hr & Hf1 & Hf2 & Hnew).
    unfold step_sim_at; cbn zeta. cbn [vm_step]. rewrite Es.
    destruct (hp_retain VE (v_heap v) (resolve t h)) as [h' i] eqn:E. cbn [fst snd] in *.
    rewrite tabs_after_nonalloc by reflexivity.
    split; [apply ext_refl|]. split; [|split; [congruence|]].
    + intros t'' _. apply Hr.
    + intros _. constructor; cbn; auto.
      apply (varr_rel_mono _ _ _ B); [lia|exact Ha].
  - (* OHeapRelease *)
    destruct (hp_release_sim VE t s (v_heap v) B h Hh Hwf) as (sh' & r & Es & Hr & Hf1 & Hf2 & Hnew).
    unfold step_sim_at; cbn zeta. cbn [vm_step]. rewrite Es.
    destruct (hp_release VE (v_heap v) (resolve t h)) as [h' i] eqn:E. cbn [fst snd] in *.
    rewrite tabs_after_nonalloc by reflexivity.
    split; [apply ext_refl|]. split; [|split; [congruence|]].
    + intros t'' _. apply Hr.
    + intros _. constructor; cbn; auto.
      apply (varr_rel_mono _ _ _ B); [lia|exact Ha].
  - (* OHeapLoad *)
    destruct (hp_load_sim VE t s (v_heap v) B h size Hh Hwf) as (r & Es & Hr & Hf & Hext).
    unfold step_sim_at; cbn zeta. cbn [vm_step]. rewrite Es. cbn [fst snd].
    rewrite tabs_after_nonalloc by reflexivity.
    split; [apply ext_refl|]. split; [exact Hext|]. split; [exact Hf|].
    intros _. constructor; auto; [apply (heap_rel_mono _ _ _ _ B); [lia|exact Hh]|apply (varr_rel_mono _ _ _ B); [lia|exact Ha]].
  - (* OHeapStore *)
    apply andb_true_iff in Hwf. destruct Hwf as [Hwf Hsrc].
    destruct (hp_store_sim VE t s (v_heap v) B h src Hh Hwf) as (sh' & r & Es & Hr & Hf & Hnew);
      [rewrite Hlh, Hla; exact Hsrc|].
    unfold step_sim_at; cbn zeta. cbn [vm_step]. rewrite Es.
    destruct (hp_store VE (v_heap v) (resolve t h) (map (resolve t) src)) as [h' i] eqn:E. cbn [fst snd] in *.
    rewrite tabs_after_nonalloc by reflexivity.
    split; [apply ext_refl|]. split; [|split; [exact Hf|]].
    + intros t'' _. apply Hr.
    + intros Hn. constructor; cbn; auto.
      apply (varr_rel_mono _ _ _ B); [lia|exact Ha].
  - (* OStatePush *)
    unfold step_sim_at; cbn zeta. cbn [spec_step vm_step]. rewrite Hst.
    destruct (k <? 0)%Z eqn:En; cbn [orb fst snd].
    + rewrite tabs_after_fault. split; [apply ext_refl|]. split; [intros; reflexivity|]. split; [reflexivity|discriminate].
    + apply Z.ltb_lt in Hx. destruct (Z.leb_spec U24_LIMIT k); [lia|]. cbn [fst snd].
      rewrite tabs_after_nonalloc by reflexivity.
      split; [apply ext_refl|]. split; [intros; exact I|]. split; [reflexivity|]. intros _.
      constructor; cbn; auto; [apply (heap_rel_mono _ _ _ _ B); [lia|exact Hh]|apply (varr_rel_mono _ _ _ B); [lia|exact Ha]].
  - (* OStatePop *)
    unfold step_sim_at; cbn zeta. cbn [spec_step vm_step]. rewrite Hst.
    destruct (k <? 0)%Z eqn:En; cbn [orb fst snd].
    + rewrite tabs_after_fault. split; [apply ext_refl|]. split; [intros; reflexivity|]. split; [reflexivity|discriminate].
    + apply Z.ltb_lt in Hx. destruct (Z.leb_spec U24_LIMIT k); [lia|].
      destruct (do_pop VmD (Z.to_N k) (sp_st s)) as [m|]; cbn [fst snd].
      * rewrite tabs_after_nonalloc by reflexivity.
        split; [apply ext_refl|]. split; [intros; exact I|]. split; [reflexivity|]. intros _.
        constructor; cbn; auto; [apply (heap_rel_mono _ _ _ _ B); [lia|exact Hh]|apply (varr_rel_mono _ _ _ B); [lia|exact Ha]].
      * rewrite tabs_after_fault. split; [apply ext_refl|]. split; [intros; reflexivity|]. split; [reflexivity|discriminate].
  - (* OStateGet *)
    unfold step_sim_at; cbn zeta. cbn [spec_step vm_step]. rewrite Hst.
    destruct (getn VmD size (sp_st s)) as [[l m]|]; cbn [fst snd].
    + rewrite tabs_after_nonalloc by reflexivity.
      split; [apply ext_refl|]. split; [intros; cbn [res_rel]; rewrite map_resolve_nums; reflexivity|]. split; [reflexivity|].
      intros _. constructor; cbn; auto; [apply (heap_rel_mono _ _ _ _ B); [lia|exact Hh]|apply (varr_rel_mono _ _ _ B); [lia|exact Ha]].
    + rewrite tabs_after_fault. split; [apply ext_refl|]. split; [intros; reflexivity|]. split; [reflexivity|discriminate].
  - (* OStateSet *)
    unfold step_sim_at; cbn zeta. cbn [spec_step vm_step]. rewrite Hst.
    destruct (setn VmD (map zw src) (sp_st s)) as [m|]; cbn [fst snd].
    + rewrite tabs_after_nonalloc by reflexivity.
      split; [apply ext_refl|]. split; [intros; exact I|]. split; [reflexivity|].
      intros _. constructor; cbn; auto; [apply (heap_rel_mono _ _ _ _ B); [lia|exact Hh]|apply (varr_rel_mono _ _ _ B); [lia|exact Ha]].
    + rewrite tabs_after_fault. split; [apply ext_refl|]. split; [intros; reflexivity|]. split; [reflexivity|discriminate].
  - (* OStateDelay *)
    unfold step_sim_at; cbn zeta. cbn [spec_step vm_step]. rewrite Hst.
    destruct (delay1 VmD max_len (zw input) (f64_time time) (sp_st s)) as [[r m]|]; cbn [fst snd].
    + rewrite tabs_after_nonalloc by reflexivity.
      split; [apply ext_refl|]. split; [intros; reflexivity|]. split; [reflexivity|].
      intros _. constructor; cbn; auto; [apply (heap_rel_mono _ _ _ _ B); [lia|exact Hh]|apply (varr_rel_mono _ _ _ B); [lia|exact Ha]].
    + rewrite tabs_after_fault. split; [apply ext_refl|]. split; [intros; reflexivity|]. split; [reflexivity|discriminate].
  - (* OStateMem *)
    unfold step_sim_at; cbn zeta. cbn [spec_step vm_step]. rewrite Hst.
    destruct (mem1 VmD (zw input) (sp_st s)) as [[r m]|]; cbn [fst snd].
    + rewrite tabs_after_nonalloc by reflexivity.
      split; [apply ext_refl|]. split; [intros; reflexivity|]. split; [reflexivity|].
      intros _. constructor; cbn; auto; [apply (heap_rel_mono _ _ _ _ B); [lia|exact Hh]|apply (varr_rel_mono _ _ _ B); [lia|exact Ha]].
    + rewrite tabs_after_fault. split; [apply ext_refl|]. split; [intros; reflexivity|]. split; [reflexivity|discriminate].
  - (* OArrayNew *)
    unfold step_sim_at; cbn zeta. cbn [spec_step vm_step].
    destruct ((esz =? 0) || negb (N.of_nat (length data) mod esz =? 0)) eqn:Ebad.
    + unfold vm_array_new. rewrite map_length, Ebad. cbn [fst snd]. rewrite tabs_after_fault.
      split; [apply ext_refl|]. split; [intros; reflexivity|]. split; [reflexivity|discriminate].
    + apply orb_false_iff in Ebad. destruct Ebad as [E0 Em]. apply N.eqb_neq in E0.
      apply negb_false_iff, N.eqb_eq in Em.
      destruct (vm_array_new_sim t (sp_arrs s) (v_arrs v) B esz data Ha) as (w & a' & E & Hnew);
        [lia|rewrite Hlh, Hla; exact Hwf|exact E0|exact Em|].
      rewrite E. cbn [fst snd tabs_after is_heap_alloc is_arr_alloc].
      split; [apply ext_arr_snoc|]. split; [|split; [reflexivity|]].
      * intros t'' He. cbn [res_rel]. rewrite <- Hla. eapply ext_nth_arr; eauto.
      * intros _. constructor; cbn [sp_heap sp_arrs sp_st with_arrs with_varrs v_heap v_arrs v_st]; auto.
        apply (heap_rel_mono _ _ _ _ B); [lia|]. apply heap_rel_ext_arr. exact Hh.
  - (* OArrayGet *)
    destruct (vm_array_get_sim t s (v_arrs v) B a idx esz Ha Hwf Hx) as (r & Es & Hf & Hext).
    unfold step_sim_at; cbn zeta. cbn [vm_step]. rewrite Es. cbn [fst snd].
    rewrite tabs_after_nonalloc by reflexivity.
    split; [apply ext_refl|]. split; [exact Hext|]. split; [exact Hf|].
    intros _. constructor; auto; [apply (heap_rel_mono _ _ _ _ B); [lia|exact Hh]|apply (varr_rel_mono _ _ _ B); [lia|exact Ha]].
  - (* OArraySet *)
    apply andb_true_iff in Hwf. destruct Hwf as [Hwf Hsrc].
    destruct (vm_array_set_sim t s (v_arrs v) B a idx src esz Ha Hwf Hx) as (sa' & r & Es & Hf & Hr & Hnew);
      [rewrite Hlh, Hla; exact Hsrc|].
    unfold step_sim_at; cbn zeta. cbn [vm_step]. rewrite Es.
    destruct (vm_array_set (v_arrs v) (resolve t a) idx (map (resolve t) src)) as [a' i] eqn:E. cbn [fst snd] in *.
    rewrite tabs_after_nonalloc by reflexivity.
    split; [apply ext_refl|]. split; [|split; [exact Hf|]].
    + intros t'' _. apply Hr.
    + intros Hn. constructor; cbn [sp_heap sp_arrs sp_st with_arrs with_varrs v_heap v_arrs v_st]; auto.
      * apply (heap_rel_mono _ _ _ _ B); [lia|exact Hh].
      * apply (varr_rel_mono _ _ _ B); [lia|auto].
  - (* OArrayLen *)
    destruct (vm_array_len_sim t s (v_arrs v) B a Ha Hwf) as (r & Es & Hf & Hext).
    unfold step_sim_at; cbn zeta. cbn [vm_step]. rewrite Es. cbn [fst snd].
    rewrite tabs_after_nonalloc by reflexivity.
    split; [apply ext_refl|]. split; [intros; apply Hext|]. split; [exact Hf|].
    intros _. constructor; auto; [apply (heap_rel_mono _ _ _ _ B); [lia|exact Hh]|apply (varr_rel_mono _ _ _ B); [lia|exact Ha]].
  - (* ONow *)
    apply N.eqb_eq in Hx.
    unfold step_sim_at; cbn zeta. cbn [spec_step vm_step fst snd]. rewrite Hx.
    rewrite tabs_after_nonalloc by reflexivity.
    split; [apply ext_refl|]. split; [intros; reflexivity|]. split; [reflexivity|].
    intros _. constructor; auto; [apply (heap_rel_mono _ _ _ _ B); [lia|exact Hh]|apply (varr_rel_mono _ _ _ B); [lia|exact Ha]].
  - (* OSamplerate *)
    apply N.eqb_eq in Hx.
    unfold step_sim_at; cbn zeta. cbn [spec_step vm_step fst snd]. rewrite Hx.
    rewrite tabs_after_nonalloc by reflexivity.
    split; [apply ext_refl|]. split; [intros; reflexivity|]. split; [reflexivity|].
    intros _. constructor; auto; [apply (heap_rel_mono _ _ _ _ B); [lia|exact Hh]|apply (varr_rel_mono _ _ _ B); [lia|exact Ha]].
Qed.

Theorem vm_refines_spec : forall size now sr ops,
  N.of_nat (length ops) + 4 < TWO32 ->
  pre_run vm_pre (spec_init size now sr) ops = true ->
  let tf := fst (iexec vm_step tabs0 (vm_init size) ops) in
  Forall2 (res_rel tf) (spec_run (spec_init size now sr) ops) (vm_run size ops).
Proof.
  intros size now sr ops Hs Hp. cbn zeta. unfold vm_run.
  apply (run_sim vm_step vm_pre vm_rel vm_step_sim ops tabs0 (spec_init size now sr) (vm_init size) 1).
  - apply vm_rel_init.
  - exact Hp.
  - lia.
Qed.
