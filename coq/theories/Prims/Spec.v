(* Prims/Spec.v — the ABSTRACT CONTRACT of the runtime primitives (runtime/primitives.rs, trait
   RuntimePrimitives: "the minimal interface required by code generation so multiple backends (VM, WASM) can
   share the same runtime behavior").  Definitions only.

   The contract is stated over abstract handles: the k-th heap allocation of a run has handle k, the k-th
   array has handle k; nothing about slot reuse, key encodings or id counters.
     heap   = finite map  handle -> (refcount, words)        (a freed handle stays freed for ever)
     arrays = finite map  handle -> (element size, words)    (arrays are never freed by either backend)
     state  = storage words + cursor                          (Lmmm.Machine, the fixed-storage discipline)
   Every operation has a result and explicit error outcomes:
     SInvalid              the handle does not name a live object and the primitive is one that only warns
                           (heap_retain / heap_release / box_clone / box_release: `log::warn!`, nothing changes)
     SFault FInvalidHandle the primitive dereferences the handle (`expect`): the run stops
     SFault FOutOfRange    more words asked than the object has / state access outside the storage
     SFault FUnderflow     state cursor popped below zero
     SFault FBadSize       element size 0, data that is not a whole number of elements, size mismatch
   A value is a number (any u64 bit pattern) or a handle; objects, arrays and operation arguments hold
   values, so a handle may be stored in an object and loaded back (boxed recursive values, arrays of arrays).
   State words are numbers.

   Operation arguments name handles by their ordinal (VHeap k = the handle returned by the k-th heap/box
   allocation of this operation sequence, VArr k likewise), so the SAME operation sequence can be given to
   this specification and to both implementations (each resolves an ordinal to the handle it returned
   itself); VNum w as a handle argument is a raw word (foreign / forged handle). *)
From Coq Require Import List ZArith NArith Bool.
From Mimium Require Import Lmmm.Machine Prims.Float Prims.StateOps.
Import ListNotations.
Local Open Scope N_scope.

Definition word := N.

Inductive val := VNum (w : word) | VHeap (k : nat) | VArr (k : nat).

Inductive fault := FInvalidHandle | FOutOfRange | FUnderflow | FBadSize.

Inductive op :=
(* heap objects (heap_* and box_* are the same operations under two names; box_alloc has initial data) *)
| OHeapAlloc (size : N)
| OBoxAlloc (src : list val)
| OHeapRetain (h : val)                      (* heap_retain, box_clone *)
| OHeapRelease (h : val)                     (* heap_release, box_release *)
| OHeapLoad (h : val) (size : N)             (* heap_load, box_load *)
| OHeapStore (h : val) (src : list val)      (* heap_store, box_store: the first |src| words are overwritten *)
(* state storage *)
| OStatePush (o : Z)
| OStatePop (o : Z)
| OStateGet (size : N)
| OStateSet (src : list word)
| OStateDelay (input time : word) (max_len : N)
| OStateMem (input : word)
(* arrays: an array literal (array_alloc + its initialisation), element read / write, the `len` builtin *)
| OArrayNew (esz : N) (data : list val)
| OArrayGet (a : val) (idx : word) (esz : N)        (* idx: an f64 bit pattern, as the language has it *)
| OArraySet (a : val) (idx : word) (src : list val) (esz : N)
| OArrayLen (a : val)
(* runtime globals *)
| ONow
| OSamplerate.

Inductive sres :=
| SUnit
| SHeapH (k : nat)            (* a new heap handle *)
| SArrH (k : nat)             (* a new array handle *)
| SVals (l : list val)
| SCount (n : N)              (* retain / release: the reference count afterwards; 0 = the object is gone *)
| SInvalid
| SFault (f : fault).

Record sobj := mkSObj { so_rc : N; so_data : list val }.
Record sarr := mkSArr { sa_esz : N; sa_data : list val }.

Record spec := mkSpec {
  sp_heap : list (option sobj);      (* position = handle; None = freed *)
  sp_arrs : list sarr;               (* position = handle *)
  sp_st : mstate;                    (* state storage + cursor *)
  sp_now : N;                        (* current sample count *)
  sp_sr : word                       (* sample rate, an f64 bit pattern *)
}.

Definition spec_init (state_size now : N) (sr : word) : spec :=
  mkSpec [] [] (st_init state_size) now sr.

Fixpoint set_at {A : Type} (l : list A) (n : nat) (x : A) : list A :=
  match l, n with
  | [], _ => []
  | _ :: r, O => x :: r
  | y :: r, S n' => y :: set_at r n' x
  end.

Definition heap_get (s : spec) (h : val) : option (nat * sobj) :=
  match h with
  | VHeap k => match nth_error (sp_heap s) k with Some (Some o) => Some (k, o) | _ => None end
  | _ => None
  end.

Definition arr_get (s : spec) (a : val) : option (nat * sarr) :=
  match a with
  | VArr k => match nth_error (sp_arrs s) k with Some ar => Some (k, ar) | None => None end
  | _ => None
  end.

Definition with_heap (s : spec) (h : list (option sobj)) : spec := mkSpec h (sp_arrs s) (sp_st s) (sp_now s) (sp_sr s).
Definition with_arrs (s : spec) (a : list sarr) : spec := mkSpec (sp_heap s) a (sp_st s) (sp_now s) (sp_sr s).
Definition with_st (s : spec) (m : mstate) : spec := mkSpec (sp_heap s) (sp_arrs s) m (sp_now s) (sp_sr s).

(* The element an index denotes: truncation toward zero, then clamped into [0, len-1]
   (NaN -> 0, -inf -> 0, +inf -> len-1). *)
Definition clamp_index (idx : word) (len : N) : N := Z.to_N (clampZ (f64_to_i64 idx) 0 (Z.of_N len - 1)).

Definition spec_step (s : spec) (o : op) : spec * sres :=
  match o with
  | OHeapAlloc size =>
      (with_heap s (sp_heap s ++ [Some (mkSObj 1 (repeat (VNum 0) (N.to_nat size)))]), SHeapH (length (sp_heap s)))
  | OBoxAlloc src =>
      (with_heap s (sp_heap s ++ [Some (mkSObj 1 src)]), SHeapH (length (sp_heap s)))
  | OHeapRetain h =>
      match heap_get s h with
      | Some (k, ob) => (with_heap s (set_at (sp_heap s) k (Some (mkSObj (so_rc ob + 1) (so_data ob)))), SCount (so_rc ob + 1))
      | None => (s, SInvalid)
      end
  | OHeapRelease h =>
      match heap_get s h with
      | Some (k, ob) =>
          if so_rc ob - 1 =? 0
          then (with_heap s (set_at (sp_heap s) k None), SCount 0)
          else (with_heap s (set_at (sp_heap s) k (Some (mkSObj (so_rc ob - 1) (so_data ob)))), SCount (so_rc ob - 1))
      | None => (s, SInvalid)
      end
  | OHeapLoad h size =>
      match heap_get s h with
      | Some (_, ob) =>
          if size <=? N.of_nat (length (so_data ob))
          then (s, SVals (firstn (N.to_nat size) (so_data ob)))
          else (s, SFault FOutOfRange)
      | None => (s, SFault FInvalidHandle)
      end
  | OHeapStore h src =>
      match heap_get s h with
      | Some (k, ob) =>
          if N.of_nat (length src) <=? N.of_nat (length (so_data ob))
          then (with_heap s (set_at (sp_heap s) k
                   (Some (mkSObj (so_rc ob) (src ++ skipn (length src) (so_data ob))))), SUnit)
          else (s, SFault FOutOfRange)
      | None => (s, SFault FInvalidHandle)
      end
  | OStatePush o =>
      if (o <? 0)%Z then (s, SFault FBadSize) else (with_st s (do_push (Z.to_N o) (sp_st s)), SUnit)
  | OStatePop o =>
      if (o <? 0)%Z then (s, SFault FBadSize)
      else match do_pop VmD (Z.to_N o) (sp_st s) with
           | Some m => (with_st s m, SUnit)
           | None => (s, SFault FUnderflow)
           end
  | OStateGet size =>
      match getn VmD size (sp_st s) with
      | Some (l, m) => (with_st s m, SVals (map (fun z => VNum (wz z)) l))
      | None => (s, SFault FOutOfRange)
      end
  | OStateSet src =>
      match setn VmD (map zw src) (sp_st s) with
      | Some m => (with_st s m, SUnit)
      | None => (s, SFault FOutOfRange)
      end
  | OStateDelay input time max_len =>
      match delay1 VmD max_len (zw input) (f64_time time) (sp_st s) with
      | Some (r, m) => (with_st s m, SVals [VNum (wz r)])
      | None => (s, SFault FOutOfRange)
      end
  | OStateMem input =>
      match mem1 VmD (zw input) (sp_st s) with
      | Some (r, m) => (with_st s m, SVals [VNum (wz r)])
      | None => (s, SFault FOutOfRange)
      end
  | OArrayNew esz data =>
      if (esz =? 0) || negb (N.of_nat (length data) mod esz =? 0) then (s, SFault FBadSize)
      else (with_arrs s (sp_arrs s ++ [mkSArr esz data]), SArrH (length (sp_arrs s)))
  | OArrayGet a idx esz =>
      match arr_get s a with
      | Some (_, ar) =>
          if (esz =? 0) || negb (esz =? sa_esz ar) then (s, SFault FBadSize)
          else
            let len := N.of_nat (length (sa_data ar)) / esz in
            if len =? 0 then (s, SVals (repeat (VNum 0) (N.to_nat esz)))
            else
              let i := clamp_index idx len in
              (s, SVals (firstn (N.to_nat esz) (skipn (N.to_nat (i * esz)) (sa_data ar))))
      | None => (s, SFault FInvalidHandle)
      end
  | OArraySet a idx src esz =>
      match arr_get s a with
      | Some (k, ar) =>
          if (esz =? 0) || negb (esz =? sa_esz ar) || negb (N.of_nat (length src) =? esz) then (s, SFault FBadSize)
          else
            let len := N.of_nat (length (sa_data ar)) / esz in
            if len =? 0 then (s, SUnit)
            else
              let i := N.to_nat (clamp_index idx len * esz) in
              (with_arrs s (set_at (sp_arrs s) k
                 (mkSArr (sa_esz ar) (firstn i (sa_data ar) ++ src ++ skipn (i + length src) (sa_data ar)))), SUnit)
      | None => (s, SFault FInvalidHandle)
      end
  | OArrayLen a =>
      match arr_get s a with
      | Some (_, ar) =>
          if sa_esz ar =? 0 then (s, SFault FBadSize)
          else (s, SVals [VNum (f64_of_N (N.of_nat (length (sa_data ar)) / sa_esz ar))])
      | None => (s, SFault FInvalidHandle)
      end
  | ONow => (s, SVals [VNum (f64_of_N (sp_now s))])
  | OSamplerate => (s, SVals [VNum (sp_sr s)])
  end.

Definition sres_fault (r : sres) : bool := match r with SFault _ => true | _ => false end.

(* a run stops at the first fault (a panic of the real runtime) *)
Fixpoint spec_run (s : spec) (ops : list op) : list sres :=
  match ops with
  | [] => []
  | o :: rest =>
      let (s', r) := spec_step s o in
      r :: (if sres_fault r then [] else spec_run s' rest)
  end.

(* the state after a run (for invariants and examples) *)
Fixpoint spec_exec (s : spec) (ops : list op) : spec :=
  match ops with
  | [] => s
  | o :: rest =>
      let (s', r) := spec_step s o in
      if sres_fault r then s' else spec_exec s' rest
  end.
