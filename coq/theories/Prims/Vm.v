(* Prims/Vm.v — the VM's implementation of the runtime primitives (definitions only).  Transcribes
     runtime/vm/primitives.rs   impl RuntimePrimitives for Machine            (vm_prim_*: the trait methods)
     runtime/vm.rs              ArrayStorage / ArrayHeap, Instruction::{AllocArray, GetArrayElem, SetArrayElem},
                                StateStorage (through Lmmm/Machine.v, discipline VmD)
     runtime/vm/heap.rs         (through Heap/Model.v and Prims/Impl.v)
     plugin/builtin_functins.rs `len`
   The interpreter loop (vm.rs execute) does not call the trait methods; it has the same code inline for the heap /
   box / state instructions (BoxAlloc BoxLoad BoxClone BoxRelease BoxStore GetState SetState PushStatePos PopStatePos
   Delay Mem — same functions of heap.rs / StateStorage / Ringbuffer), but its array instructions CLAMP the index
   (saturating cast, then clamp: the contract's index) where the trait methods index directly.  [vm_step] is what a compiled program executes (instruction level);
   the trait-level array methods are transcribed too (vm_prim_array_get / _set) and compared with the real ones.

   Faults: an `expect` / slice / overflow panic is [IFault]; an access of the state storage outside its words goes
   through raw pointers in StateStorage (undefined behaviour, no panic) and is [IFault FOutOfRange] as well:
   the correspondence harness refuses to execute such an access on the real VM and reports the same class. *)
From Coq Require Import List ZArith NArith Bool.
From Mimium Require Import Heap.Model Lmmm.Machine Prims.Float Prims.StateOps Prims.Spec Prims.Impl.
Import ListNotations.
Local Open Scope N_scope.

(* vm.rs ArrayHeap { elem_word_size, data } in ArrayStorage { data: SlotMap<DefaultKey, ArrayHeap> } *)
Record varr := mkVArr { va_esz : N; va_data : list word }.

Record vmst := mkVm { v_heap : store; v_arrs : smap varr; v_st : mstate }.

(* Machine::new + the first execute_idx (global_states.resize(skeleton size)) *)
Definition vm_init (state_size : N) : vmst := mkVm sm_new sm_new (st_init state_size).

(* array handles are KeyData::as_ffi / from_ffi images (Impl.ffi_of_key / key_of_ffi); heap handles are transmuted keys *)
Definition VE : henc := enc_transmute.

(* ArrayStorage::alloc_array(len, elem_size): zeroed, returns key.data().as_ffi() *)
Definition vm_alloc_array (a : smap varr) (len esz : N) : smap varr * word :=
  let (a', k) := sm_insert a (mkVArr esz (repeat 0 (N.to_nat (len * esz)))) in (a', ffi_of_key k).

(* ArrayHeap::get_length_array: data.len() / elem_word_size (panics on a zero element size) *)
Definition va_len (ar : varr) : N := N.of_nat (length (va_data ar)) / va_esz ar.

(* GetArrayElem / SetArrayElem (since commit 15d0817): `(index_val as i64).clamp(0, max_idx as i64) as usize` with
   max_idx = len.saturating_sub(1); the cast saturates (+inf -> i64::MAX, -inf -> i64::MIN, NaN -> 0), like the
   i64.trunc_sat_f64_s of the WASM backend *)
Definition vm_index (idx : word) (len : N) : N := Z.to_N (clampZ (f64_to_i64 idx) 0 (Z.of_N (len - 1))).

(* Instruction::GetArrayElem *)
Definition vm_array_get (a : smap varr) (raw idx : word) : ires :=
  match sm_get a (key_of_ffi raw) with
  | None => IFault FInvalidHandle                      (* get_array: panic "Invalid ArrayIdx" *)
  | Some ar =>
      if va_esz ar =? 0 then IFault FBadSize           (* division by zero in get_length_array *)
      else if va_len ar =? 0 then IWords (repeat 0 (N.to_nat (va_esz ar)))
      else
        let i := vm_index idx (va_len ar) in
        IWords (firstn (N.to_nat (va_esz ar)) (skipn (N.to_nat (i * va_esz ar)) (va_data ar)))
  end.

(* the store of SetArrayElem once the index is an element number i < len; src = elem_word_size words *)
Definition vm_array_put (a : smap varr) (raw : word) (ar : varr) (i : N) (src : list word) : smap varr :=
  let st := N.to_nat (i * va_esz ar) in
  sm_set a (key_of_ffi raw)
    (mkVArr (va_esz ar) (firstn st (va_data ar) ++ src ++ skipn (st + length src) (va_data ar))).

(* Instruction::SetArrayElem (the value is elem_word_size words read from the registers) *)
Definition vm_array_set (a : smap varr) (raw idx : word) (src : list word) : smap varr * ires :=
  match sm_get a (key_of_ffi raw) with
  | None => (a, IFault FInvalidHandle)
  | Some ar =>
      if va_esz ar =? 0 then (a, IFault FBadSize)
      else if negb (N.of_nat (length src) =? va_esz ar) then (a, IFault FBadSize)
      else if va_len ar =? 0 then (a, IUnit)
      else (vm_array_put a raw ar (vm_index idx (va_len ar)) src, IUnit)
  end.

(* element i of a flat list of elements of size esz *)
Definition chunk (esz : N) (data : list word) (i : nat) : list word :=
  firstn (N.to_nat esz) (skipn (i * N.to_nat esz) data).

(* bytecodegen.rs mir::Instruction::Array: AllocArray(n, esz) then, for i = 0..n-1, MoveImmF(i) and
   SetArrayElem(dst, i, value_i).  The stores use element number i (the immediate i as f64 converts back to i). *)
Fixpoint vm_array_fill (a : smap varr) (raw : word) (esz : N) (data : list word) (i n : nat) : smap varr :=
  match n with
  | O => a
  | S n' =>
      let a' := match sm_get a (key_of_ffi raw) with
                | Some ar => vm_array_put a raw ar (N.of_nat i) (chunk esz data i)
                | None => a
                end in
      vm_array_fill a' raw esz data (S i) n'
  end.

Definition vm_array_new (a : smap varr) (esz : N) (data : list word) : smap varr * ires :=
  if (esz =? 0) || negb (N.of_nat (length data) mod esz =? 0) then (a, IFault FBadSize)
  else
    let n := N.of_nat (length data) / esz in
    let (a1, raw) := vm_alloc_array a n esz in
    (vm_array_fill a1 raw esz data 0 (N.to_nat n), IHandle raw).

(* builtin `len` (plugin/builtin_functins.rs): the zero handle is "an array-valued self before its first
   value" and has length 0; otherwise get_array(..).get_length_array() as f64 *)
Definition vm_array_len (a : smap varr) (raw : word) : ires :=
  if raw =? 0 then IWords [0]
  else match sm_get a (key_of_ffi raw) with
       | None => IFault FInvalidHandle
       | Some ar => if va_esz ar =? 0 then IFault FBadSize else IWords [f64_of_N (va_len ar)]
       end.

(* ---- the trait methods array_get_elem / array_set_elem of vm/primitives.rs (no clamping) ---- *)
Definition vm_prim_array_get (a : smap varr) (raw idx : word) (esz : N) : ires :=
  match sm_get a (key_of_ffi raw) with
  | None => IFault FInvalidHandle
  | Some ar =>
      let start := f64_to_u64 idx * esz in
      if start + esz <=? N.of_nat (length (va_data ar))
      then IWords (firstn (N.to_nat esz) (skipn (N.to_nat start) (va_data ar)))
      else IFault FOutOfRange                  (* debug_assert / slice bound / multiplication overflow *)
  end.

Definition vm_prim_array_set (a : smap varr) (raw idx : word) (src : list word) (esz : N) : smap varr * ires :=
  if negb (esz <=? N.of_nat (length src)) then (a, IFault FOutOfRange)      (* debug_assert!(src.len() >= elem_size) *)
  else
  match sm_get a (key_of_ffi raw) with
  | None => (a, IFault FInvalidHandle)
  | Some ar =>
      let start := f64_to_u64 idx * esz in
      if start + esz <=? N.of_nat (length (va_data ar))
      then (sm_set a (key_of_ffi raw)
              (mkVArr (va_esz ar) (firstn (N.to_nat start) (va_data ar) ++ firstn (N.to_nat esz) src
                                   ++ skipn (N.to_nat (start + esz)) (va_data ar))), IUnit)
      else (a, IFault FOutOfRange)
  end.

(* ---- state storage: StateStorage of vm.rs is Lmmm.Machine's discipline VmD ---- *)
Definition U24_LIMIT : Z := 16777216%Z.       (* StateOffset = intx::U24 *)

Definition with_vheap (v : vmst) (h : store) : vmst := mkVm h (v_arrs v) (v_st v).
Definition with_varrs (v : vmst) (a : smap varr) : vmst := mkVm (v_heap v) a (v_st v).
Definition with_vst (v : vmst) (m : mstate) : vmst := mkVm (v_heap v) (v_arrs v) m.

Definition F64_48000 : word := 4676829883349860352.   (* 48000.0 = 0x40E7700000000000 *)

Definition vm_step (t : tabs) (v : vmst) (o : op) : vmst * ires :=
  match o with
  | OHeapAlloc size => let (h, r) := hp_alloc VE (v_heap v) (repeat 0 (N.to_nat size)) in (with_vheap v h, r)
  | OBoxAlloc src => let (h, r) := hp_alloc VE (v_heap v) (map (resolve t) src) in (with_vheap v h, r)
  | OHeapRetain h => let (h', r) := hp_retain VE (v_heap v) (resolve t h) in (with_vheap v h', r)
  | OHeapRelease h => let (h', r) := hp_release VE (v_heap v) (resolve t h) in (with_vheap v h', r)
  | OHeapLoad h size => (v, hp_load VE (v_heap v) (resolve t h) size)
  | OHeapStore h src => let (h', r) := hp_store VE (v_heap v) (resolve t h) (map (resolve t) src) in (with_vheap v h', r)
  | OStatePush o =>
      (* the offset type is U24: other offsets cannot be written in bytecode *)
      if ((o <? 0) || (U24_LIMIT <=? o))%Z then (v, IFault FBadSize)
      else (with_vst v (do_push (Z.to_N o) (v_st v)), IUnit)
  | OStatePop o =>
      if ((o <? 0) || (U24_LIMIT <=? o))%Z then (v, IFault FBadSize)
      else match do_pop VmD (Z.to_N o) (v_st v) with
           | Some m => (with_vst v m, IUnit)
           | None => (v, IFault FUnderflow)          (* `pos - offset`: attempt to subtract with overflow *)
           end
  | OStateGet size =>
      match getn VmD size (v_st v) with
      | Some (l, m) => (with_vst v m, IWords (map wz l))
      | None => (v, IFault FOutOfRange)
      end
  | OStateSet src =>
      match setn VmD (map zw src) (v_st v) with
      | Some m => (with_vst v m, IUnit)
      | None => (v, IFault FOutOfRange)
      end
  | OStateDelay input time max_len =>
      match delay1 VmD max_len (zw input) (f64_time time) (v_st v) with
      | Some (r, m) => (with_vst v m, IWords [wz r])
      | None => (v, IFault FOutOfRange)
      end
  | OStateMem input =>
      match mem1 VmD (zw input) (v_st v) with
      | Some (r, m) => (with_vst v m, IWords [wz r])
      | None => (v, IFault FOutOfRange)
      end
  | OArrayNew esz data => let (a, r) := vm_array_new (v_arrs v) esz (map (resolve t) data) in (with_varrs v a, r)
  | OArrayGet a idx _ => (v, vm_array_get (v_arrs v) (resolve t a) idx)
  | OArraySet a idx src _ => let (a', r) := vm_array_set (v_arrs v) (resolve t a) idx (map (resolve t) src) in (with_varrs v a', r)
  | OArrayLen a => (v, vm_array_len (v_arrs v) (resolve t a))
  | ONow => (v, IWords [0])                     (* runtime_get_now: "For now, return 0" *)
  | OSamplerate => (v, IWords [F64_48000])      (* runtime_get_samplerate: "Default sample rate" *)
  end.

Definition vm_run (state_size : N) (ops : list op) : list ires := irun vm_step tabs0 (vm_init state_size) ops.
