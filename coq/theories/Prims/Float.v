(* Prims/Float.v — the few facts about IEEE-754 binary64 BIT PATTERNS the runtime primitives depend on
   (definitions only).  A runtime word is a u64; array indices and delay times arrive as f64 bit patterns and
   are turned into integers by Rust's saturating `as` casts (f64 as u64 / usize / i64) and, on the WASM side, by
   `i64.trunc_sat_f64_s` (wasmgen.rs emit_value_load_as_numeric_i64), which has the same meaning as `as i64`:
   NaN -> 0, otherwise truncation toward zero saturated to the target range.  No rounding is involved: the
   truncation of a finite double is computed exactly from its fields. *)
From Coq Require Import ZArith NArith Bool.
Local Open Scope N_scope.

Definition TWO52 : N := 4503599627370496.
Definition U64_MAX : N := 18446744073709551615.
Definition I64_MAX : Z := 9223372036854775807%Z.
Definition I64_MIN : Z := (-9223372036854775808)%Z.

Definition f64_sign (b : N) : bool := N.testbit b 63.
Definition f64_exp (b : N) : N := N.land (N.shiftr b 52) 2047.
Definition f64_frac (b : N) : N := N.land b (TWO52 - 1).
Definition f64_is_nan (b : N) : bool := (f64_exp b =? 2047) && negb (f64_frac b =? 0).
Definition f64_is_inf (b : N) : bool := (f64_exp b =? 2047) && (f64_frac b =? 0).

(* |x| truncated toward zero for a finite x = (2^52 + frac) * 2^(exp - 1075)  (subnormals are < 1) *)
Definition f64_trunc_abs (b : N) : N :=
  let e := f64_exp b in
  if e =? 0 then 0
  else
    let m := TWO52 + f64_frac b in
    if 1075 <=? e then N.shiftl m (e - 1075) else N.shiftr m (1075 - e).

(* |x| truncated, with infinity = 2^64 (above every bound it is compared with) *)
Definition f64_mag (b : N) : N := if f64_is_inf b then U64_MAX + 1 else f64_trunc_abs b.

(* Rust `x as u64` / `x as usize` *)
Definition f64_to_u64 (b : N) : N :=
  if f64_is_nan b then 0 else if f64_sign b then 0 else N.min (f64_mag b) U64_MAX.

(* Rust `x as i64` and WASM i64.trunc_sat_f64_s *)
Definition f64_to_i64 (b : N) : Z :=
  if f64_is_nan b then 0%Z
  else if f64_sign b then Z.max (- Z.of_N (f64_mag b)) I64_MIN
  else Z.min (Z.of_N (f64_mag b)) I64_MAX.

(* f64::is_finite *)
Definition f64_is_finite (b : N) : bool := negb (f64_exp b =? 2047).

(* The integer handed to the ring buffer's clamp: `delay_time.clamp(0.0, max_delay) as u64` equals
   clampZ (f64_time b) 0 max_delay for every integer max_delay >= 0 that is exactly representable
   (NaN.clamp(..) is NaN and NaN as u64 is 0; -0.0 and negatives give 0; +inf gives max_delay). *)
Definition f64_time (b : N) : Z :=
  if f64_is_nan b then 0%Z else if f64_sign b then 0%Z else Z.of_N (f64_mag b).

(* `n as f64` for n < 2^53 (exact): the bit pattern *)
Definition f64_of_N (n : N) : N :=
  match n with
  | 0 => 0
  | _ => let e := N.log2 n in
         N.lor (N.shiftl (e + 1023) 52) (N.shiftl n (52 - e) - TWO52)
  end.

(* some bit patterns used in examples *)
Definition F64_ZERO : N := 0.
Definition F64_ONE : N := 4607182418800017408.        (* 0x3FF0000000000000 *)
Definition F64_PINF : N := 9218868437227405312.       (* 0x7FF0000000000000 *)
Definition F64_NINF : N := 18442240474082181120.      (* 0xFFF0000000000000 *)
Definition F64_NAN : N := 9221120237041090560.        (* 0x7FF8000000000000 *)
