(* Prims/ArrSimWasm.v — the WASM host's array store (wasm.rs RuntimeState.arrays: HashMap<Word, Vec<Word>>, ids
   arrays.len() + 1, nothing ever removed; array_alloc_host / array_get_elem_host / array_set_elem_host,
   builtin_length_array_host) refines the abstract arrays of Prims/Spec.v: the k-th array has id k + 1 and holds the
   specification's words.  The host keeps NO element size: a call is right when it brings the array's own, and `len`
   (the number of WORDS) is the number of elements only for one-word elements. *)
From Coq Require Import List ZArith NArith Bool Lia Arith.
From Mimium Require Import Heap.Model Lmmm.Machine Prims.Float Prims.StateOps Prims.Spec Prims.Impl
  Prims.Wasm Prims.Pre Prims.HeapSim Prims.ArrSimVm.
Import ListNotations.
Local Open Scope N_scope.

(* ---------- the association list that stands for the HashMap ---------- *)
Lemma amap_get_put_same : forall m k d, amap_get (amap_put m k d) k = Some d.
Proof.
  induction m as [|[k' d'] r IH]; intros k d; cbn [amap_put amap_get].
  - rewrite N.eqb_refl. reflexivity.
  - destruct (N.eqb_spec k' k) as [->|Hne]; cbn [amap_get].
    + rewrite N.eqb_refl. reflexivity.
    + destruct (N.eqb_spec k' k); [contradiction|]. apply IH.
Qed.

Lemma amap_get_put_other : forall m k d k', k' <> k -> amap_get (amap_put m k d) k' = amap_get m k'.
Proof.
  induction m as [|[k0 d0] r IH]; intros k d k' Hne; cbn [amap_put amap_get].
  - destruct (N.eqb_spec k k'); [congruence|reflexivity].
  - destruct (N.eqb_spec k0 k) as [->|Hn0]; cbn [amap_get].
    + destruct (N.eqb_spec k k'); [congruence|reflexivity].
    + destruct (N.eqb_spec k0 k'); [reflexivity|]. apply IH. exact Hne.
Qed.

Lemma amap_put_length_new : forall m k d, amap_get m k = None -> length (amap_put m k d) = S (length m).
Proof.
  induction m as [|[k0 d0] r IH]; intros k d H; cbn [amap_put amap_get length] in *; [reflexivity|].
  destruct (N.eqb_spec k0 k); [discriminate|]. cbn [length]. rewrite IH by exact H. reflexivity.
Qed.

Lemma amap_put_length_old : forall m k d d0, amap_get m k = Some d0 -> length (amap_put m k d) = length m.
Proof.
  induction m as [|[k0 d1] r IH]; intros k d d0 H; cbn [amap_put amap_get length] in *; [discriminate|].
  destruct (N.eqb_spec k0 k); [reflexivity|]. cbn [length]. erewrite IH by exact H. reflexivity.
Qed.

(* ---------- the abstraction relation ---------- *)
Definition wid (k : nat) : N := N.of_nat k + 1.

Record warr_rel (t : tabs) (sa : list sarr) (m : amap) : Prop := mkWR {
  wr_len : length (t_arr t) = length sa;
  wr_mlen : length m = length sa;
  wr_tab : forall k, (k < length sa)%nat -> nth k (t_arr t) 0 = wid k;
  wr_get : forall k, (k < length sa)%nat -> amap_get m (wid k) = Some (map (resolve t) (sa_data (nth k sa dummy_arr)));
  wr_fresh : forall id, N.of_nat (length sa) < id -> amap_get m id = None;
  wr_scoped : Forall (arr_scoped (length (t_heap t)) (length (t_arr t))) sa
}.

Lemma warr_rel_init : warr_rel tabs0 [] [].
Proof. constructor; cbn; auto; intros; lia. Qed.

Lemma warr_rel_ext_heap : forall t sa m b, warr_rel t sa m -> warr_rel (mkTabs (t_heap t ++ b) (t_arr t)) sa m.
Proof.
  intros t sa m b [H1 H2 H3 H4 H5 H6].
  assert (He : ext t (mkTabs (t_heap t ++ b) (t_arr t))).
  { split; cbn; [exists b; reflexivity|exists []; now rewrite app_nil_r]. }
  constructor; cbn [t_heap t_arr]; auto.
  - intros k Hk. rewrite H4 by exact Hk. f_equal. symmetry. apply map_resolve_ext; auto.
    exact (nth_arr_scoped _ _ _ k H6).
  - eapply Forall_impl; [|exact H6]. intros ar Ho. unfold arr_scoped in *.
    eapply vals_scoped_mono; [| |exact Ho]; [rewrite app_length; lia|lia].
Qed.

Lemma wasm_array_alloc_sim : forall t sa m esz data,
  warr_rel t sa m -> vals_scoped (length (t_heap t)) (length (t_arr t)) data ->
  exists w m', wasm_array_alloc m (map (resolve t) data) = (m', IHandle w) /\
    warr_rel (mkTabs (t_heap t) (t_arr t ++ [w])) (sa ++ [mkSArr esz data]) m'.
Proof.
  intros t sa m esz data [Hl Hm Ht Hg Hf Hs] Hd. unfold wasm_array_alloc. rewrite Hm. fold (wid (length sa)).
  do 2 eexists. split; [reflexivity|].
  match goal with |- warr_rel ?T _ _ => remember T as t' eqn:Ht' end.
  assert (Hext : ext t t').
  { rewrite Ht'. split; cbn; [exists []; now rewrite app_nil_r|eexists; reflexivity]. }
  assert (Hnone : amap_get m (wid (length sa)) = None) by (apply Hf; unfold wid; lia).
  constructor.
  - rewrite Ht'; cbn [t_arr]. rewrite !app_length. cbn. lia.
  - rewrite amap_put_length_new by exact Hnone. rewrite app_length. cbn. lia.
  - intros k Hk. rewrite app_length in Hk; cbn in Hk. rewrite Ht'; cbn [t_arr].
    destruct (Nat.eq_dec k (length sa)) as [->|Hne].
    + rewrite app_nth2, Hl, Nat.sub_diag by lia. reflexivity.
    + rewrite app_nth1 by lia. apply Ht. lia.
  - intros k Hk. rewrite app_length in Hk; cbn in Hk.
    destruct (Nat.eq_dec k (length sa)) as [->|Hne].
    + rewrite amap_get_put_same. rewrite app_nth2, Nat.sub_diag by lia. cbn [nth sa_data].
      rewrite (map_resolve_ext t t') by auto. reflexivity.
    + rewrite amap_get_put_other by (unfold wid; lia). rewrite Hg by lia. rewrite app_nth1 by lia.
      f_equal. symmetry. apply map_resolve_ext; auto. exact (nth_arr_scoped _ _ _ k Hs).
  - intros id Hid. rewrite app_length in Hid; cbn in Hid. rewrite amap_get_put_other by (unfold wid; lia).
    apply Hf. lia.
  - rewrite Ht'; cbn [t_heap t_arr]. apply Forall_app. split.
    + eapply Forall_impl; [|exact Hs]. intros ar Ho. unfold arr_scoped in *.
      eapply vals_scoped_mono; [| |exact Ho]; [lia|rewrite app_length; lia].
    + constructor; [|constructor]. unfold arr_scoped; cbn [sa_data].
      eapply vals_scoped_mono; [| |exact Hd]; [lia|rewrite app_length; lia].
Qed.

Lemma wid_nz : forall k, wid k =? 0 = false.
Proof. intros k. apply N.eqb_neq. unfold wid. lia. Qed.

Lemma esz_check : forall esz, (Z.of_N esz <=? 0)%Z = (esz =? 0).
Proof. intros esz. destruct (N.eqb_spec esz 0) as [->|H]; [reflexivity|]. apply Z.leb_gt. lia. Qed.

Lemma wasm_array_get_sim : forall t s m av idx esz,
  warr_rel t (sp_arrs s) m -> arr_arg (length (sp_arrs s)) av = true -> arr_esz_ok s av esz = true ->
  exists r, spec_step s (OArrayGet av idx esz) = (s, r) /\
    sres_fault r = ires_fault (wasm_array_get m (resolve t av) (f64_to_i64 idx) (Z.of_N esz)) /\
    (forall t', ext t t' -> res_rel t' r (wasm_array_get m (resolve t av) (f64_to_i64 idx) (Z.of_N esz))).
Proof.
  intros t s m av idx esz HR Ha He.
  destruct (resolve_arr_arg t _ _ Ha) as (k & -> & Hk & Hres).
  unfold arr_esz_ok in He. cbn [spec_step]. rewrite arr_get_spec in * by exact Hk.
  apply N.eqb_eq in He. subst esz.
  unfold wasm_array_get. rewrite Hres, (wr_tab _ _ _ HR) by exact Hk. rewrite esz_check, wid_nz, N2Z.id.
  rewrite (wr_get _ _ _ HR) by exact Hk.
  set (ar := nth k (sp_arrs s) dummy_arr). rewrite N.eqb_refl. cbn [negb]. rewrite orb_false_r, map_length.
  destruct (sa_esz ar =? 0) eqn:Ez.
  - eexists. split; [reflexivity|]. cbn. auto.
  - destruct (N.of_nat (length (sa_data ar)) / sa_esz ar =? 0) eqn:El.
    + eexists. split; [reflexivity|]. cbn [sres_fault ires_fault res_rel]. split; [reflexivity|].
      intros t' _. clear. induction (N.to_nat (sa_esz ar)); cbn; [reflexivity|]. now f_equal.
    + eexists. split; [reflexivity|]. cbn [sres_fault ires_fault res_rel]. split; [reflexivity|].
      intros t' He. unfold clamp_index. rewrite skipn_map, firstn_map. symmetry. apply map_resolve_ext; auto.
      apply vals_scoped_firstn, vals_scoped_skipn. exact (nth_arr_scoped _ _ _ k (wr_scoped _ _ _ HR)).
Qed.

Lemma warr_rel_set : forall t sa m k data',
  warr_rel t sa m -> (k < length sa)%nat ->
  vals_scoped (length (t_heap t)) (length (t_arr t)) data' ->
  warr_rel t (set_at sa k (mkSArr (sa_esz (nth k sa dummy_arr)) data')) (amap_put m (wid k) (map (resolve t) data')).
Proof.
  intros t sa m k data' [Hl Hm Ht Hg Hf Hs] Hk Hd.
  constructor; rewrite ?set_at_length; auto.
  - erewrite amap_put_length_old by (apply Hg; exact Hk). exact Hm.
  - intros j Hj. rewrite nth_set_at. destruct (Nat.eqb_spec j k) as [->|Hne]; cbn [andb].
    + destruct (Nat.ltb_spec k (length sa)); [|lia]. rewrite amap_get_put_same. reflexivity.
    + rewrite amap_get_put_other by (unfold wid; lia). apply Hg. exact Hj.
  - intros id Hid. rewrite amap_get_put_other by (unfold wid; lia). apply Hf. exact Hid.
  - apply Forall_set_at; auto.
Qed.

Lemma wasm_array_set_sim : forall t s m av idx src esz,
  warr_rel t (sp_arrs s) m -> arr_arg (length (sp_arrs s)) av = true -> arr_esz_ok s av esz = true ->
  vals_scoped (length (t_heap t)) (length (t_arr t)) src -> N.of_nat (length src) = esz ->
  exists sa' r, spec_step s (OArraySet av idx src esz) = (with_arrs s sa', r) /\
    sres_fault r = ires_fault (snd (wasm_array_set m (resolve t av) (f64_to_i64 idx) (map (resolve t) src) (Z.of_N esz))) /\
    (forall t', res_rel t' r (snd (wasm_array_set m (resolve t av) (f64_to_i64 idx) (map (resolve t) src) (Z.of_N esz)))) /\
    (sres_fault r = false ->
     warr_rel t sa' (fst (wasm_array_set m (resolve t av) (f64_to_i64 idx) (map (resolve t) src) (Z.of_N esz)))).
Proof.
  intros t s m av idx src esz HR Ha He Hsrc Hlen.
  destruct (resolve_arr_arg t _ _ Ha) as (k & -> & Hk & Hres).
  unfold arr_esz_ok in He. cbn [spec_step]. rewrite arr_get_spec in * by exact Hk.
  apply N.eqb_eq in He. subst esz.
  unfold wasm_array_set. rewrite Hres, (wr_tab _ _ _ HR) by exact Hk. rewrite esz_check, N2Z.id.
  rewrite (wr_get _ _ _ HR) by exact Hk.
  set (ar := nth k (sp_arrs s) dummy_arr) in *. rewrite N.eqb_refl. cbn [negb]. rewrite orb_false_r, !map_length.
  rewrite Hlen, N.eqb_refl. cbn [negb]. rewrite orb_false_r.
  destruct (sa_esz ar =? 0) eqn:Ez.
  - exists (sp_arrs s). eexists. split; [destruct s; reflexivity|]. cbn. spl. discriminate.
  - destruct (N.of_nat (length (sa_data ar)) / sa_esz ar =? 0) eqn:El.
    + exists (sp_arrs s). eexists. split; [destruct s; reflexivity|]. cbn. spl. intros _. exact HR.
    + do 2 eexists. split; [reflexivity|]. cbn [sres_fault ires_fault res_rel fst snd]. spl. intros _.
      unfold clamp_index.
      set (st := N.to_nat (Z.to_N (clampZ (f64_to_i64 idx) 0 (Z.of_N (N.of_nat (length (sa_data ar)) / sa_esz ar) - 1)) * sa_esz ar)).
      pose proof (warr_rel_set t (sp_arrs s) m k (firstn st (sa_data ar) ++ src ++ skipn (st + length src) (sa_data ar)) HR Hk) as H1.
      fold ar in H1. rewrite !map_app, <- firstn_map, <- skipn_map in H1. apply H1.
      apply vals_scoped_app; [apply vals_scoped_firstn|apply vals_scoped_app; [exact Hsrc|apply vals_scoped_skipn]];
        exact (nth_arr_scoped _ _ _ k (wr_scoped _ _ _ HR)).
Qed.

Lemma wasm_array_len_sim : forall t s m av,
  warr_rel t (sp_arrs s) m -> arr_arg (length (sp_arrs s)) av = true ->
  (match arr_get s av with Some (_, ar) => sa_esz ar =? 1 | None => true end) = true ->
  exists r, spec_step s (OArrayLen av) = (s, r) /\
    sres_fault r = ires_fault (wasm_array_len m (resolve t av)) /\
    (forall t', res_rel t' r (wasm_array_len m (resolve t av))).
Proof.
  intros t s m av HR Ha H1.
  destruct (resolve_arr_arg t _ _ Ha) as (k & -> & Hk & Hres).
  cbn [spec_step]. rewrite arr_get_spec in * by exact Hk. apply N.eqb_eq in H1.
  unfold wasm_array_len. rewrite Hres, (wr_tab _ _ _ HR) by exact Hk. rewrite wid_nz.
  rewrite (wr_get _ _ _ HR) by exact Hk. rewrite H1, map_length. cbn [N.eqb Pos.eqb].
  eexists. split; [reflexivity|]. cbn. rewrite N.div_1_r. auto.
Qed.
