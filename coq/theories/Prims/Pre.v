(* Prims/Pre.v — the hypotheses of the refinement theorems, as decidable predicates on (specification state,
   operation), evaluated along the run of the specification (definitions only).  The correspondence check
   evaluates the same (extracted) predicates on every generated sequence: where they hold, the real
   implementations' answers must be related to the specification's.

   op_wf      the client uses the contract sensibly: a handle argument of a heap operation is a heap handle
              that has been returned already, likewise for arrays, and every handle stored as data has been
              returned already.  (Released handles ARE allowed: both implementations detect them.)
   vm_pre     what the VM needs beyond op_wf
   wasm_pre   what the WASM host needs beyond op_wf
   Outside these the implementations differ from the contract and from each other: Prims/Differs.v. *)
From Coq Require Import List ZArith NArith Bool.
From Mimium Require Import Lmmm.Machine Prims.Float Prims.StateOps Prims.Spec Prims.Impl Prims.Vm Prims.Wasm.
Import ListNotations.
Local Open Scope N_scope.

Definition val_ok (nh na : nat) (v : val) : bool :=
  match v with
  | VNum _ => true
  | VHeap k => Nat.ltb k nh
  | VArr k => Nat.ltb k na
  end.

Definition heap_arg (nh : nat) (v : val) : bool := match v with VHeap k => Nat.ltb k nh | _ => false end.
Definition arr_arg (na : nat) (v : val) : bool := match v with VArr k => Nat.ltb k na | _ => false end.

Definition op_wf (s : spec) (o : op) : bool :=
  let nh := length (sp_heap s) in
  let na := length (sp_arrs s) in
  match o with
  | OBoxAlloc src => forallb (val_ok nh na) src
  | OHeapRetain h | OHeapRelease h | OHeapLoad h _ => heap_arg nh h
  | OHeapStore h src => heap_arg nh h && forallb (val_ok nh na) src
  | OArrayNew _ d => forallb (val_ok nh na) d
  | OArrayGet a _ _ | OArrayLen a => arr_arg na a
  | OArraySet a _ src _ => arr_arg na a && forallb (val_ok nh na) src
  | _ => true
  end.

(* the element size a call brings is the array's own (the type checker's job) *)
Definition arr_esz_ok (s : spec) (a : val) (esz : N) : bool :=
  match arr_get s a with Some (_, ar) => esz =? sa_esz ar | None => true end.

Definition spec_faults (s : spec) (o : op) : bool := sres_fault (snd (spec_step s o)).

Definition vm_pre (s : spec) (o : op) : bool :=
  op_wf s o &&
  match o with
  | OStatePush k | OStatePop k => (k <? U24_LIMIT)%Z          (* the bytecode's offset field has 24 bits *)
  | OArrayGet a _ esz => arr_esz_ok s a esz
  | OArraySet a _ _ esz => arr_esz_ok s a esz
  | ONow => sp_now s =? 0                                     (* the trait methods return constants *)
  | OSamplerate => sp_sr s =? F64_48000
  | _ => true
  end.

Definition wasm_pre (s : spec) (o : op) : bool :=
  op_wf s o &&
  match o with
  | OStatePush k => (0 <=? k)%Z && (m_pos (sp_st s) + Z.to_N k <=? USIZE_MAX)
  | OStatePop k => (0 <=? k)%Z && negb (spec_faults s o)
  | OStateGet _ | OStateSet _ | OStateMem _ => negb (spec_faults s o)
  | OStateDelay _ _ n => negb (spec_faults s o) && (n <=? MAX_WASM_DELAY_SAMPLES) && (m_pos (sp_st s) + 2 + n <=? USIZE_MAX)
  | OArrayGet a _ esz | OArraySet a _ _ esz => arr_esz_ok s a esz
  | OArrayLen a => match arr_get s a with Some (_, ar) => sa_esz ar =? 1 | None => true end
  | _ => true
  end.

(* the predicate holds at every step of the specification's run *)
Fixpoint pre_run (pre : spec -> op -> bool) (s : spec) (ops : list op) : bool :=
  match ops with
  | [] => true
  | o :: rest =>
      pre s o &&
      (let (s', r) := spec_step s o in if sres_fault r then true else pre_run pre s' rest)
  end.

(* ---- how results are compared: through the client's handle tables ---- *)
Definition res_rel (t : tabs) (a : sres) (b : ires) : Prop :=
  match a, b with
  | SUnit, IUnit => True
  | SHeapH k, IHandle w => nth_error (t_heap t) k = Some w
  | SArrH k, IHandle w => nth_error (t_arr t) k = Some w
  | SVals l, IWords ws => ws = map (resolve t) l
  | SCount n, ICount m => n = m
  | SInvalid, IInvalid => True
  | SFault f, IFault g => f = g
  | _, _ => False
  end.
