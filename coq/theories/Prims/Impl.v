(* Prims/Impl.v — what the two implementations have in common (definitions only):
   * results as raw words, the client's handle tables and the resolution of ordinals to raw handles,
   * the runner of an operation sequence (stops at the first fault = panic),
   * the heap object store: BOTH implementations keep heap objects in vm/heap.rs `HeapStorage`
     (= SlotMap<DefaultKey, HeapObject>; wasm.rs RuntimeState.heap has the same type and calls the same
     heap::heap_retain / heap::heap_release), so the transcription of Heap/Model.v (slotmap 1.0.7 basic.rs,
     heap.rs) is reused for both; a handle travels as a u64 image of the key, and the two implementations use
     DIFFERENT images ([henc]): the VM transmutes the key (Machine::to_value / get_as = transmute_copy:
     Heap.Model.raw_of_key / key_of_raw, index in the high half), the WASM host uses slotmap's FFI conversion
     (wasm.rs heap_idx_to_word / heap_idx_from_word = KeyData::as_ffi / from_ffi: version in the high half, and
     from_ffi forces the version odd, so a word that is no handle — the zero word — never names the vacant
     sentinel slot). *)
From Coq Require Import List ZArith NArith Bool.
From Mimium Require Import Heap.Model Lmmm.Machine Prims.Float Prims.StateOps Prims.Spec.
Import ListNotations.
Local Open Scope N_scope.

Inductive ires :=
| IUnit
| IHandle (w : word)          (* a new handle, as the raw word the implementation returned *)
| IWords (l : list word)
| ICount (n : N)
| IInvalid
| IFault (f : fault).

Definition ires_fault (r : ires) : bool := match r with IFault _ => true | _ => false end.

(* the client's tables: raw handles returned so far by heap / box allocations and by array allocations *)
Record tabs := mkTabs { t_heap : list word; t_arr : list word }.
Definition tabs0 : tabs := mkTabs [] [].

(* an ordinal that has not been returned yet resolves to 0 (excluded by the well-formedness of sequences) *)
Definition resolve (t : tabs) (v : val) : word :=
  match v with
  | VNum w => w
  | VHeap k => nth k (t_heap t) 0
  | VArr k => nth k (t_arr t) 0
  end.

Definition is_heap_alloc (o : op) : bool := match o with OHeapAlloc _ | OBoxAlloc _ => true | _ => false end.
Definition is_arr_alloc (o : op) : bool := match o with OArrayNew _ _ => true | _ => false end.

Definition tabs_after (t : tabs) (o : op) (r : ires) : tabs :=
  match r with
  | IHandle w =>
      if is_heap_alloc o then mkTabs (t_heap t ++ [w]) (t_arr t)
      else if is_arr_alloc o then mkTabs (t_heap t) (t_arr t ++ [w])
      else t
  | _ => t
  end.

Section Run.
  Context {S : Type}.
  Variable step : tabs -> S -> op -> S * ires.

  Fixpoint irun (t : tabs) (s : S) (ops : list op) : list ires :=
    match ops with
    | [] => []
    | o :: rest =>
        let (s', r) := step t s o in
        r :: (if ires_fault r then [] else irun (tabs_after t o r) s' rest)
    end.

  Fixpoint iexec (t : tabs) (s : S) (ops : list op) : tabs * S :=
    match ops with
    | [] => (t, s)
    | o :: rest =>
        let (s', r) := step t s o in
        if ires_fault r then (t, s') else iexec (tabs_after t o r) s' rest
    end.
End Run.

(* ---------------------------------------------------------------------------------------------- *)
(* heap.rs through the slot map (Heap/Model.v): HeapObject { refcount, size, data }                *)

(* slotmap KeyData::as_ffi: (version << 32) | idx;  from_ffi: idx = low 32 bits, version = (high 32 bits) | 1 *)
Definition ffi_of_key (k : key) : N := N.lor (N.shiftl (kver k) 32) (kidx k).
Definition key_of_ffi (r : N) : key := mkKey (N.land r 4294967295) (N.lor (N.shiftr r 32) 1).

(* how an implementation turns a key into the handle word and back *)
Record henc := mkHenc { h_enc : key -> word; h_dec : word -> key }.
Definition enc_transmute : henc := mkHenc raw_of_key key_of_raw.      (* the VM *)
Definition enc_ffi : henc := mkHenc ffi_of_key key_of_ffi.            (* the WASM host *)

Section HeapOps.
Variable E : henc.

(* HeapObject::new(size): refcount 1, zeroed data;  HeapObject::with_data(data) *)
Definition hp_alloc (h : store) (data : list word) : store * ires :=
  let (h', k) := st_alloc h data in (h', IHandle (h_enc E k)).

(* heap::heap_retain / heap::heap_release on the raw handle *)
Definition hp_retain (h : store) (raw : word) : store * ires :=
  match heap_retain h (h_dec E raw) with
  | (h', RCount n) => (h', ICount n)
  | (h', _) => (h', IInvalid)
  end.

Definition hp_release (h : store) (raw : word) : store * ires :=
  match heap_release h (h_dec E raw) with
  | (h', RCount n) => (h', ICount n)
  | (h', _) => (h', IInvalid)
  end.

(* heap.get(obj).map(|o| &o.data[..size]).expect("heap_load: invalid heap index")
   (the slice inside `map` panics first when the object is shorter than `size`) *)
Definition hp_load (h : store) (raw : word) (size : N) : ires :=
  match sm_get h (h_dec E raw) with
  | Some ob => if size <=? N.of_nat (length (odata ob)) then IWords (firstn (N.to_nat size) (odata ob))
               else IFault FOutOfRange
  | None => IFault FInvalidHandle
  end.

(* heap.get_mut(obj).map(|o| &mut o.data[..size]).expect(..).copy_from_slice(&src[..size]), size = |src| *)
Definition hp_store (h : store) (raw : word) (src : list word) : store * ires :=
  match sm_get h (h_dec E raw) with
  | Some ob =>
      if N.of_nat (length src) <=? N.of_nat (length (odata ob))
      then (sm_set h (h_dec E raw) (mkObj (orc ob) (oclosed ob) (src ++ skipn (length src) (odata ob))), IUnit)
      else (h, IFault FOutOfRange)
  | None => (h, IFault FInvalidHandle)
  end.
End HeapOps.
