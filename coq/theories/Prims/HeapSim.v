(* Prims/HeapSim.v — the heap-object store of both implementations (vm/heap.rs HeapStorage through the slot map
   of Heap/Model.v, the hp_ operations of Impl.v) refines the abstract heap of Prims/Spec.v (handle -> (refcount, values)).
   The abstraction relation [heap_rel t sh h B]: the k-th entry of the client's table [t] is the image of a key that
   the slot map has issued ([bound]), distinct ordinals have distinct keys, and looking that key up gives exactly
   the specification's object k with its values resolved through [t] — or nothing when the specification's object
   is freed (a released key stays stale for ever: versions only grow).  [B] bounds the slot map's indices and
   versions (Bits.sm_le), so that a key survives the trip through its 64-bit image. *)
From Coq Require Import List ZArith NArith Bool Lia Arith.
From Mimium Require Import Heap.Model Heap.SlotMap Lmmm.Machine Prims.Float Prims.StateOps Prims.Spec Prims.Impl
  Prims.Pre Prims.Bits.
Import ListNotations.
Local Open Scope N_scope.

(* ---------- generic list facts ---------- *)
Lemma set_at_length : forall {A} (l : list A) n x, length (set_at l n x) = length l.
Proof. intros A l. induction l as [|y r IH]; intros [|n] x; cbn; auto. Qed.

Lemma nth_set_at : forall {A} (l : list A) n x j d,
  nth j (set_at l n x) d = if (Nat.eqb j n && Nat.ltb n (length l))%bool then x else nth j l d.
Proof.
  intros A l. induction l as [|y r IH]; intros n x j d.
  - destruct n, j; cbn; rewrite ?andb_false_r; reflexivity.
  - destruct n as [|n], j as [|j]; cbn [set_at nth length]; try reflexivity.
    rewrite IH. destruct (Nat.eqb j n) eqn:E; cbn [Nat.eqb]; rewrite E; cbn [andb]; [|reflexivity].
    change (S n <? S (length r))%nat with (n <? length r)%nat. reflexivity.
Qed.

Lemma nth_error_nth_some : forall {A} (l : list A) k d, (k < length l)%nat -> nth_error l k = Some (nth k l d).
Proof. intros A l k d H. apply nth_error_nth'. exact H. Qed.

Lemma Forall_set_at : forall {A} (P : A -> Prop) l n x, Forall P l -> P x -> Forall P (set_at l n x).
Proof.
  intros A P l. induction l as [|y r IH]; intros [|n] x Hl Hx; cbn; auto; inversion Hl; subst; constructor; auto.
Qed.

(* ---------- scoping of the values the specification holds ---------- *)
Definition vals_scoped (nh na : nat) (l : list val) : Prop := forallb (val_ok nh na) l = true.
Definition obj_scoped (nh na : nat) (o : option sobj) : Prop :=
  match o with Some ob => vals_scoped nh na (so_data ob) | None => True end.

Lemma val_ok_mono : forall nh na nh' na' v, (nh <= nh')%nat -> (na <= na')%nat ->
  val_ok nh na v = true -> val_ok nh' na' v = true.
Proof.
  intros nh na nh' na' [w|k|k] H1 H2 H; cbn in *; auto; apply Nat.ltb_lt in H; apply Nat.ltb_lt; lia.
Qed.

Lemma vals_scoped_mono : forall nh na nh' na' l, (nh <= nh')%nat -> (na <= na')%nat ->
  vals_scoped nh na l -> vals_scoped nh' na' l.
Proof.
  unfold vals_scoped. intros nh na nh' na' l H1 H2 H. rewrite forallb_forall in *.
  intros v Hv. eapply val_ok_mono; eauto.
Qed.

Lemma vals_scoped_app : forall nh na a b, vals_scoped nh na a -> vals_scoped nh na b -> vals_scoped nh na (a ++ b).
Proof. unfold vals_scoped. intros. rewrite forallb_app. now rewrite H, H0. Qed.

Lemma In_firstn_l : forall {A} n (l : list A) x, In x (firstn n l) -> In x l.
Proof.
  intros A n. induction n as [|n IH]; intros [|y r] x H; cbn in *; auto; try contradiction.
  destruct H as [H|H]; [left; exact H|right; apply IH; exact H].
Qed.

Lemma vals_scoped_firstn : forall nh na n l, vals_scoped nh na l -> vals_scoped nh na (firstn n l).
Proof.
  unfold vals_scoped. intros nh na n l H. rewrite forallb_forall in *. intros v Hv. apply H. eapply In_firstn_l; eauto.
Qed.

Lemma In_skipn : forall {A} n (l : list A) x, In x (skipn n l) -> In x l.
Proof. intros A n. induction n as [|n IH]; intros [|y r] x H; cbn in *; auto. Qed.

Lemma vals_scoped_skipn : forall nh na n l, vals_scoped nh na l -> vals_scoped nh na (skipn n l).
Proof.
  unfold vals_scoped. intros nh na n l H. rewrite forallb_forall in *. intros v Hv. apply H. eapply In_skipn; eauto.
Qed.

Lemma vals_scoped_repeat0 : forall nh na n, vals_scoped nh na (repeat (VNum 0) n).
Proof. unfold vals_scoped. induction n; cbn; auto. Qed.

(* a table that only grows *)
Definition ext (t t' : tabs) : Prop :=
  (exists a, t_heap t' = t_heap t ++ a) /\ (exists b, t_arr t' = t_arr t ++ b).

Lemma ext_refl : forall t, ext t t.
Proof. intros t. split; exists []; rewrite app_nil_r; reflexivity. Qed.

Lemma ext_trans : forall a b c, ext a b -> ext b c -> ext a c.
Proof.
  intros a b c [[x Hx] [y Hy]] [[x' Hx'] [y' Hy']]. split.
  - exists (x ++ x'). rewrite Hx', Hx, app_assoc. reflexivity.
  - exists (y ++ y'). rewrite Hy', Hy, app_assoc. reflexivity.
Qed.

Lemma resolve_ext : forall t t' v, ext t t' -> val_ok (length (t_heap t)) (length (t_arr t)) v = true ->
  resolve t' v = resolve t v.
Proof.
  intros t t' [w|k|k] [[a Ha] [b Hb]] H; cbn in *; auto; apply Nat.ltb_lt in H.
  - rewrite Ha, app_nth1 by exact H. reflexivity.
  - rewrite Hb, app_nth1 by exact H. reflexivity.
Qed.

Lemma map_resolve_ext : forall t t' l, ext t t' -> vals_scoped (length (t_heap t)) (length (t_arr t)) l ->
  map (resolve t') l = map (resolve t) l.
Proof.
  unfold vals_scoped. intros t t' l He H. rewrite forallb_forall in H.
  apply map_ext_in. intros v Hv. apply resolve_ext; auto.
Qed.

Ltac spl := repeat match goal with |- _ /\ _ => split end; try reflexivity; try exact I;
  try (intro; reflexivity); try (intro; exact I).

(* ---------- the abstraction relation (for either handle encoding) ---------- *)
Section Enc.
Variable enc : henc.
Hypothesis E_rt : enc_roundtrip enc.

Definition hkey (t : tabs) (k : nat) : key := h_dec enc (nth k (t_heap t) 0).

Definition himg (t : tabs) (o : option sobj) : option obj :=
  match o with
  | Some ob => Some (mkObj (so_rc ob) false (map (resolve t) (so_data ob)))
  | None => None
  end.

Record heap_rel (t : tabs) (sh : list (option sobj)) (h : store) (B : N) : Prop := mkHR {
  hr_wf : wf h;
  hr_le : sm_le h B;
  hr_len : length (t_heap t) = length sh;
  hr_bound : forall k, (k < length sh)%nat -> bound h (hkey t k);
  hr_inj : forall k k', (k < length sh)%nat -> (k' < length sh)%nat -> hkey t k = hkey t k' -> k = k';
  hr_get : forall k, (k < length sh)%nat -> sm_get h (hkey t k) = himg t (nth k sh None);
  hr_scoped : Forall (obj_scoped (length (t_heap t)) (length (t_arr t))) sh
}.

Lemma heap_rel_init : heap_rel tabs0 [] sm_new 1.
Proof.
  constructor; cbn; try (intros; lia); auto.
  - apply wf_new.
  - apply sm_le_new.
Qed.

Lemma himg_ext : forall t t' o, ext t t' -> obj_scoped (length (t_heap t)) (length (t_arr t)) o -> himg t' o = himg t o.
Proof. intros t t' [ob|] He Hs; cbn in *; [|reflexivity]. rewrite (map_resolve_ext t t') by auto. reflexivity. Qed.

Lemma obj_scoped_mono : forall nh na nh' na' o, (nh <= nh')%nat -> (na <= na')%nat ->
  obj_scoped nh na o -> obj_scoped nh' na' o.
Proof. intros nh na nh' na' [ob|] H1 H2 H; cbn in *; auto. eapply vals_scoped_mono; eauto. Qed.

Lemma nth_scoped : forall nh na sh k, Forall (obj_scoped nh na) sh -> obj_scoped nh na (nth k sh None).
Proof.
  intros nh na sh k H. destruct (Nat.lt_ge_cases k (length sh)) as [Hl|Hg].
  - rewrite Forall_forall in H. apply H. apply nth_In. exact Hl.
  - rewrite nth_overflow by exact Hg. exact I.
Qed.

(* the heap table is untouched, the array table grows *)
Lemma heap_rel_ext_arr : forall t sh h B b, heap_rel t sh h B ->
  heap_rel (mkTabs (t_heap t) (t_arr t ++ b)) sh h B.
Proof.
  intros t sh h B b [Hwf Hle Hlen Hb Hi Hg Hs].
  assert (He : ext t (mkTabs (t_heap t) (t_arr t ++ b))).
  { split; cbn; [exists []; now rewrite app_nil_r|exists b; reflexivity]. }
  constructor; cbn [t_heap t_arr]; auto.
  - intros k Hk. change (hkey (mkTabs (t_heap t) (t_arr t ++ b)) k) with (hkey t k). rewrite Hg by exact Hk.
    symmetry. apply himg_ext; auto. apply nth_scoped; exact Hs.
  - eapply Forall_impl; [|exact Hs]. intros o Ho. eapply obj_scoped_mono; [| |exact Ho]; [lia|rewrite app_length; lia].
Qed.

(* ---------- allocation ---------- *)
Lemma hp_alloc_sim : forall t sh h B data,
  heap_rel t sh h B -> B + 1 < TWO32 ->
  vals_scoped (length (t_heap t)) (length (t_arr t)) data ->
  exists w h', hp_alloc enc h (map (resolve t) data) = (h', IHandle w) /\
    heap_rel (mkTabs (t_heap t ++ [w]) (t_arr t)) (sh ++ [Some (mkSObj 1 data)]) h' (B + 1).
Proof.
  intros t sh h B data [Hwf Hle Hlen Hb Hi Hg Hs] HB Hd.
  unfold hp_alloc, st_alloc.
  set (ob := mkObj 1 false (map (resolve t) data)).
  destruct (sm_insert h ob) as [h' k] eqn:Hins.
  assert (Hh' : h' = fst (sm_insert h ob)) by (rewrite Hins; reflexivity).
  assert (Hk : k = snd (sm_insert h ob)) by (rewrite Hins; reflexivity).
  exists (h_enc enc k), h'. split; [reflexivity|].
  pose proof (sm_insert_key_le h ob B Hle) as [Hki Hkv]. rewrite <- Hk in Hki, Hkv.
  assert (Hrt : h_dec enc (h_enc enc k) = k).
  { apply E_rt; [unfold TWO32 in *; lia|unfold TWO32 in *; lia|rewrite Hk; apply insert_key_odd]. }
  match goal with |- heap_rel ?T _ _ _ => remember T as t' eqn:Ht' end.
  assert (He : ext t t').
  { rewrite Ht'. split; cbn; [eexists; reflexivity|exists []; now rewrite app_nil_r]. }
  assert (Hold : forall j, (j < length sh)%nat -> hkey t' j = hkey t j).
  { intros j Hj. unfold hkey. rewrite Ht'; cbn [t_heap]. rewrite app_nth1 by lia. reflexivity. }
  assert (Hnew : hkey t' (length sh) = k).
  { unfold hkey. rewrite Ht'; cbn [t_heap]. rewrite app_nth2 by lia. rewrite Hlen, Nat.sub_diag. cbn [nth]. exact Hrt. }
  assert (Hfresh : forall j, (j < length sh)%nat -> hkey t j <> k).
  { intros j Hj E. apply (insert_new_unbound h ob Hwf). rewrite <- Hk, <- E. apply Hb. exact Hj. }
  constructor.
  - rewrite Hh'. apply insert_wf. exact Hwf.
  - rewrite Hh'. apply sm_le_insert. exact Hle.
  - rewrite Ht'; cbn [t_heap]. rewrite !app_length. cbn. lia.
  - intros j Hj. rewrite app_length in Hj; cbn in Hj.
    destruct (Nat.eq_dec j (length sh)) as [->|Hne].
    + rewrite Hnew, Hh', Hk. apply insert_new_bound.
    + rewrite Hold by lia. rewrite Hh'. apply insert_bound_mono. apply Hb. lia.
  - intros j j' Hj Hj' E. rewrite app_length in Hj, Hj'; cbn in Hj, Hj'.
    destruct (Nat.eq_dec j (length sh)) as [->|Hne], (Nat.eq_dec j' (length sh)) as [->|Hne']; auto.
    + rewrite Hnew, Hold in E by lia. exfalso. apply (Hfresh j'); [lia|auto].
    + rewrite Hnew, Hold in E by lia. exfalso. apply (Hfresh j); [lia|auto].
    + rewrite !Hold in E by lia. apply Hi; auto; lia.
  - intros j Hj. rewrite app_length in Hj; cbn in Hj.
    destruct (Nat.eq_dec j (length sh)) as [->|Hne].
    + rewrite Hnew, Hh', Hk, insert_get_same by exact Hwf.
      rewrite app_nth2, Nat.sub_diag by lia. cbn [nth himg so_rc so_data]. unfold ob.
      rewrite (map_resolve_ext t t') by auto. reflexivity.
    + rewrite Hold by lia. rewrite Hh', insert_get_other; [|exact Hwf|rewrite <- Hk; apply Hfresh; lia].
      rewrite Hg by lia. rewrite app_nth1 by lia. symmetry. apply himg_ext; auto. apply nth_scoped; exact Hs.
  - rewrite Ht'; cbn [t_heap t_arr]. apply Forall_app. split.
    + eapply Forall_impl; [|exact Hs]. intros o Ho. eapply obj_scoped_mono; [| |exact Ho]; [rewrite app_length; lia|lia].
    + constructor; [|constructor]. cbn. eapply vals_scoped_mono; [| |exact Hd]; [rewrite app_length; lia|lia].
Qed.

(* ---------- operations on an existing handle ---------- *)
Lemma resolve_heap_arg : forall t n hv, heap_arg n hv = true ->
  exists k, hv = VHeap k /\ (k < n)%nat /\ h_dec enc (resolve t hv) = hkey t k.
Proof.
  intros t n [w|k|k] H; cbn in H; try discriminate. apply Nat.ltb_lt in H. exists k. repeat split; auto.
Qed.

Lemma heap_get_spec : forall s k, heap_get s (VHeap k) =
  match nth k (sp_heap s) None with Some o => Some (k, o) | None => None end.
Proof.
  intros s k. unfold heap_get. destruct (nth_error (sp_heap s) k) as [o|] eqn:E.
  - rewrite (nth_error_nth _ _ None E). destruct o; reflexivity.
  - apply nth_error_None in E. rewrite nth_overflow by exact E. reflexivity.
Qed.

(* replacing object k of the specification and the value under its key *)
Lemma heap_rel_set : forall t sh h B k ob0 o',
  heap_rel t sh h B -> (k < length sh)%nat -> nth k sh None = Some ob0 ->
  vals_scoped (length (t_heap t)) (length (t_arr t)) (so_data o') ->
  heap_rel t (set_at sh k (Some o')) (sm_set h (hkey t k) (mkObj (so_rc o') false (map (resolve t) (so_data o')))) B.
Proof.
  intros t sh h B k ob0 o' [Hwf Hle Hlen Hb Hi Hg Hs] Hk Hn Hd.
  assert (Hget : sm_get h (hkey t k) = Some (mkObj (so_rc ob0) false (map (resolve t) (so_data ob0)))).
  { rewrite Hg by exact Hk. rewrite Hn. reflexivity. }
  constructor; rewrite ?set_at_length; auto.
  - eapply set_wf; eauto.
  - apply sm_le_set. exact Hle.
  - intros j Hj. apply set_bound_mono. apply Hb. exact Hj.
  - intros j Hj. rewrite nth_set_at. destruct (Nat.eqb_spec j k) as [->|Hne]; cbn [andb].
    + destruct (Nat.ltb_spec k (length sh)); [|lia]. erewrite set_get_same by eauto. reflexivity.
    + rewrite set_get_other; [apply Hg; exact Hj|]. intros E. apply Hne. apply Hi; auto.
  - apply Forall_set_at; auto.
Qed.

(* freeing object k *)
Lemma heap_rel_free : forall t sh h B k ob0,
  heap_rel t sh h B -> (k < length sh)%nat -> nth k sh None = Some ob0 ->
  heap_rel t (set_at sh k None) (fst (sm_remove h (hkey t k))) (B + 1).
Proof.
  intros t sh h B k ob0 [Hwf Hle Hlen Hb Hi Hg Hs] Hk Hn.
  assert (Hget : sm_get h (hkey t k) = Some (mkObj (so_rc ob0) false (map (resolve t) (so_data ob0)))).
  { rewrite Hg by exact Hk. rewrite Hn. reflexivity. }
  constructor; rewrite ?set_at_length; auto.
  - eapply remove_wf; eauto.
  - apply sm_le_remove. exact Hle.
  - intros j Hj. apply remove_bound_mono. apply Hb. exact Hj.
  - intros j Hj. rewrite nth_set_at. destruct (Nat.eqb_spec j k) as [->|Hne]; cbn [andb].
    + destruct (Nat.ltb_spec k (length sh)); [|lia]. erewrite remove_get_same by eauto. reflexivity.
    + erewrite remove_get_other; [apply Hg; exact Hj|eauto|]. intros E. apply Hne. apply Hi; auto.
  - apply Forall_set_at; auto. exact I.
Qed.

Lemma heap_rel_mono : forall t sh h B B', B <= B' -> heap_rel t sh h B -> heap_rel t sh h B'.
Proof. intros t sh h B B' HB [Hwf Hle Hlen Hb Hi Hg Hs]. constructor; auto. eapply sm_le_mono; eauto. Qed.

Lemma hp_retain_sim : forall t s h B hv,
  heap_rel t (sp_heap s) h B -> heap_arg (length (sp_heap s)) hv = true ->
  exists sh' r, spec_step s (OHeapRetain hv) = (with_heap s sh', r) /\
    (forall t', res_rel t' r (snd (hp_retain enc h (resolve t hv)))) /\ sres_fault r = false /\
    ires_fault (snd (hp_retain enc h (resolve t hv))) = false /\
    heap_rel t sh' (fst (hp_retain enc h (resolve t hv))) (B + 1).
Proof.
  intros t s h B hv HR Ha.
  destruct (resolve_heap_arg t _ _ Ha) as (k & -> & Hk & Hkey).
  cbn [spec_step]. rewrite heap_get_spec. unfold hp_retain, heap_retain. rewrite Hkey.
  rewrite (hr_get _ _ _ _ HR) by exact Hk.
  destruct (nth k (sp_heap s) None) as [ob|] eqn:Hn; cbn [himg].
  - cbn [orc oclosed odata fst snd]. do 2 eexists. split; [reflexivity|]. cbn [res_rel sres_fault ires_fault fst snd].
    spl.
    apply (heap_rel_mono _ _ _ B); [lia|].
    apply (heap_rel_set t (sp_heap s) h B k ob (mkSObj (so_rc ob + 1) (so_data ob))); auto.
    pose proof (nth_scoped _ _ _ k (hr_scoped _ _ _ _ HR)) as Hsc. rewrite Hn in Hsc. exact Hsc.
  - exists (sp_heap s), SInvalid. cbn [fst snd res_rel sres_fault ires_fault]. spl.
    + destruct s; reflexivity.
    + apply (heap_rel_mono _ _ _ B); [lia|exact HR].
Qed.

Lemma hp_release_sim : forall t s h B hv,
  heap_rel t (sp_heap s) h B -> heap_arg (length (sp_heap s)) hv = true ->
  exists sh' r, spec_step s (OHeapRelease hv) = (with_heap s sh', r) /\
    (forall t', res_rel t' r (snd (hp_release enc h (resolve t hv)))) /\ sres_fault r = false /\
    ires_fault (snd (hp_release enc h (resolve t hv))) = false /\
    heap_rel t sh' (fst (hp_release enc h (resolve t hv))) (B + 1).
Proof.
  intros t s h B hv HR Ha.
  destruct (resolve_heap_arg t _ _ Ha) as (k & -> & Hk & Hkey).
  cbn [spec_step]. rewrite heap_get_spec. unfold hp_release, heap_release. rewrite Hkey.
  rewrite (hr_get _ _ _ _ HR) by exact Hk.
  destruct (nth k (sp_heap s) None) as [ob|] eqn:Hn; cbn [himg].
  - cbn [orc oclosed odata].
    pose proof (nth_scoped _ _ _ k (hr_scoped _ _ _ _ HR)) as Hsc. rewrite Hn in Hsc. cbn in Hsc.
    pose proof (heap_rel_set t (sp_heap s) h B k ob (mkSObj (so_rc ob - 1) (so_data ob)) HR Hk Hn Hsc) as HR1.
    cbn [so_rc so_data] in HR1.
    destruct (so_rc ob - 1 =? 0) eqn:Ez; cbn [fst snd].
    + do 2 eexists. split; [reflexivity|]. cbn [res_rel sres_fault ires_fault]. spl.
      assert (Hk1 : (k < length (set_at (sp_heap s) k (Some (mkSObj (so_rc ob - 1) (so_data ob)))))%nat)
        by (rewrite set_at_length; exact Hk).
      pose proof (heap_rel_free t _ _ B k (mkSObj (so_rc ob - 1) (so_data ob)) HR1 Hk1) as HR2.
      rewrite nth_set_at, Nat.eqb_refl in HR2. destruct (Nat.ltb_spec k (length (sp_heap s))); [|lia].
      specialize (HR2 eq_refl).
      replace (set_at (sp_heap s) k None)
        with (set_at (set_at (sp_heap s) k (Some (mkSObj (so_rc ob - 1) (so_data ob)))) k None); [exact HR2|].
      clear. generalize (sp_heap s) as l. intros l. revert k. induction l as [|y r IH]; intros [|k]; cbn; auto.
      f_equal. apply IH.
    + do 2 eexists. split; [reflexivity|]. cbn [res_rel sres_fault ires_fault]. spl.
      apply (heap_rel_mono _ _ _ B); [lia|exact HR1].
  - exists (sp_heap s), SInvalid. cbn [fst snd res_rel sres_fault ires_fault]. spl.
    + destruct s; reflexivity.
    + apply (heap_rel_mono _ _ _ B); [lia|exact HR].
Qed.

Lemma firstn_map_resolve : forall t n l, firstn n (map (resolve t) l) = map (resolve t) (firstn n l).
Proof. intros. apply firstn_map. Qed.

Lemma hp_load_sim : forall t s h B hv size,
  heap_rel t (sp_heap s) h B -> heap_arg (length (sp_heap s)) hv = true ->
  exists r, spec_step s (OHeapLoad hv size) = (s, r) /\
    res_rel t r (hp_load enc h (resolve t hv) size) /\ sres_fault r = ires_fault (hp_load enc h (resolve t hv) size) /\
    (forall t', ext t t' -> res_rel t' r (hp_load enc h (resolve t hv) size)).
Proof.
  intros t s h B hv size HR Ha.
  destruct (resolve_heap_arg t _ _ Ha) as (k & -> & Hk & Hkey).
  cbn [spec_step]. rewrite heap_get_spec. unfold hp_load. rewrite Hkey.
  rewrite (hr_get _ _ _ _ HR) by exact Hk.
  pose proof (nth_scoped _ _ _ k (hr_scoped _ _ _ _ HR)) as Hsc.
  destruct (nth k (sp_heap s) None) as [ob|] eqn:Hn; cbn [himg odata].
  - rewrite map_length. destruct (size <=? N.of_nat (length (so_data ob))).
    + eexists. split; [reflexivity|]. cbn [res_rel sres_fault ires_fault]. rewrite firstn_map_resolve.
      spl. intros t' He. symmetry. apply map_resolve_ext; auto.
      apply vals_scoped_firstn. exact Hsc.
    + eexists. split; [reflexivity|]. cbn. spl.
  - eexists. split; [reflexivity|]. cbn. spl.
Qed.

Lemma skipn_map_resolve : forall t n l, skipn n (map (resolve t) l) = map (resolve t) (skipn n l).
Proof. intros. apply skipn_map. Qed.

Lemma hp_store_sim : forall t s h B hv src,
  heap_rel t (sp_heap s) h B -> heap_arg (length (sp_heap s)) hv = true ->
  vals_scoped (length (t_heap t)) (length (t_arr t)) src ->
  exists sh' r, spec_step s (OHeapStore hv src) = (with_heap s sh', r) /\
    (forall t', res_rel t' r (snd (hp_store enc h (resolve t hv) (map (resolve t) src)))) /\
    sres_fault r = ires_fault (snd (hp_store enc h (resolve t hv) (map (resolve t) src))) /\
    (sres_fault r = false -> heap_rel t sh' (fst (hp_store enc h (resolve t hv) (map (resolve t) src))) (B + 1)).
Proof.
  intros t s h B hv src HR Ha Hsrc.
  destruct (resolve_heap_arg t _ _ Ha) as (k & -> & Hk & Hkey).
  cbn [spec_step]. rewrite heap_get_spec. unfold hp_store. rewrite Hkey.
  rewrite (hr_get _ _ _ _ HR) by exact Hk.
  pose proof (nth_scoped _ _ _ k (hr_scoped _ _ _ _ HR)) as Hsc.
  destruct (nth k (sp_heap s) None) as [ob|] eqn:Hn; cbn [himg odata orc oclosed].
  - rewrite !map_length. destruct (N.of_nat (length src) <=? N.of_nat (length (so_data ob))); cbn [fst snd].
    + do 2 eexists. split; [reflexivity|]. cbn [res_rel sres_fault ires_fault]. spl. intros _.
      apply (heap_rel_mono _ _ _ B); [lia|].
      pose proof (heap_rel_set t (sp_heap s) h B k ob (mkSObj (so_rc ob) (src ++ skipn (length src) (so_data ob))) HR Hk Hn) as H1.
      cbn [so_rc so_data] in H1. rewrite map_app, <- skipn_map_resolve in H1. apply H1.
      apply vals_scoped_app; [exact Hsrc|apply vals_scoped_skipn; exact Hsc].
    + exists (sp_heap s). eexists. split; [destruct s; reflexivity|]. cbn. spl. discriminate.
  - exists (sp_heap s). eexists. split; [destruct s; reflexivity|]. cbn. spl. discriminate.
Qed.
End Enc.
