(* Prims/Sim.v — from one step to whole runs: if every step of an implementation simulates the specification's
   step under the relation R (handle tables only grow, results related through every later table, faults at the
   same steps), then for EVERY operation sequence on which the hypotheses [pre] hold along the specification's run,
   the implementation's list of results is the specification's, related through the final handle tables. *)
From Coq Require Import List ZArith NArith Bool Lia Arith.
From Mimium Require Import Heap.Model Lmmm.Machine Prims.Float Prims.StateOps Prims.Spec Prims.Impl Prims.Pre
  Prims.Bits Prims.HeapSim.
Import ListNotations.
Local Open Scope N_scope.

Lemma tabs_after_nonalloc : forall t o r, is_heap_alloc o = false -> is_arr_alloc o = false -> tabs_after t o r = t.
Proof. intros t o r H1 H2. unfold tabs_after. rewrite H1, H2. destruct r; reflexivity. Qed.

Lemma tabs_after_fault : forall t o f, tabs_after t o (IFault f) = t.
Proof. reflexivity. Qed.

Lemma ext_nth_heap : forall t t' w, ext (mkTabs (t_heap t ++ [w]) (t_arr t)) t' ->
  nth_error (t_heap t') (length (t_heap t)) = Some w.
Proof.
  intros t t' w [[a Ha] _]. cbn [t_heap] in Ha. rewrite Ha, <- app_assoc. rewrite nth_error_app2 by lia.
  rewrite Nat.sub_diag. reflexivity.
Qed.

Lemma ext_nth_arr : forall t t' w, ext (mkTabs (t_heap t) (t_arr t ++ [w])) t' ->
  nth_error (t_arr t') (length (t_arr t)) = Some w.
Proof.
  intros t t' w [_ [b Hb]]. cbn [t_arr] in Hb. rewrite Hb, <- app_assoc. rewrite nth_error_app2 by lia.
  rewrite Nat.sub_diag. reflexivity.
Qed.

Lemma ext_heap_snoc : forall t w, ext t (mkTabs (t_heap t ++ [w]) (t_arr t)).
Proof. intros. split; cbn; [eexists; reflexivity|exists []; now rewrite app_nil_r]. Qed.

Lemma ext_arr_snoc : forall t w, ext t (mkTabs (t_heap t) (t_arr t ++ [w])).
Proof. intros. split; cbn; [exists []; now rewrite app_nil_r|eexists; reflexivity]. Qed.

Section Sim.
  Context {S : Type}.
  Variable step : tabs -> S -> op -> S * ires.
  Variable pre : spec -> op -> bool.
  Variable R : tabs -> spec -> S -> N -> Prop.

  Definition step_sim_at (t : tabs) (s : spec) (x : S) (B : N) (o : op) : Prop :=
    let sr := spec_step s o in
    let xr := step t x o in
    let t' := tabs_after t o (snd xr) in
    ext t t' /\ (forall t'', ext t' t'' -> res_rel t'' (snd sr) (snd xr)) /\
    sres_fault (snd sr) = ires_fault (snd xr) /\
    (sres_fault (snd sr) = false -> R t' (fst sr) (fst xr) (B + 1)).

  Hypothesis step_sim : forall t s x B o, R t s x B -> pre s o = true -> B + 2 < TWO32 -> step_sim_at t s x B o.

  Lemma run_sim : forall ops t s x B, R t s x B -> pre_run pre s ops = true ->
    B + 2 + N.of_nat (length ops) < TWO32 ->
    ext t (fst (iexec step t x ops)) /\
    Forall2 (res_rel (fst (iexec step t x ops))) (spec_run s ops) (irun step t x ops).
  Proof.
    induction ops as [|o rest IH]; intros t s x B HR Hpre HB; cbn [iexec irun spec_run pre_run fst length] in *.
    - split; [apply ext_refl|constructor].
    - apply andb_true_iff in Hpre. destruct Hpre as [Hp Hrest].
      assert (HB2 : B + 2 < TWO32) by lia.
      pose proof (step_sim t s x B o HR Hp HB2) as (He & Hres & Hf & Hnext). cbn zeta in *.
      destruct (spec_step s o) as [s' r] eqn:Es. destruct (step t x o) as [x' i] eqn:Ex. cbn [fst snd] in *.
      rewrite <- Hf. destruct (sres_fault r) eqn:Efault.
      + cbn [fst]. split; [apply ext_refl|]. constructor; [|constructor].
        apply Hres.
        assert (Hi : exists f, i = IFault f).
        { destruct i; cbn in Hf; try discriminate. eexists; reflexivity. }
        destruct Hi as [f ->]. cbn [tabs_after]. apply ext_refl.
      + specialize (Hnext eq_refl).
        destruct (IH (tabs_after t o i) s' x' (B + 1) Hnext Hrest) as [He2 Hall]; [lia|].
        split; [eapply ext_trans; eauto|]. constructor; [|exact Hall]. apply Hres. exact He2.
  Qed.
End Sim.
