(* Prims/ArrSimVm.v — the VM's array store (vm.rs ArrayStorage: a slot map of ArrayHeap { elem_word_size, data },
   instructions AllocArray / SetArrayElem / GetArrayElem, builtin len) refines the abstract arrays of Prims/Spec.v.
   Arrays are never freed, so every handle of the client's table names a present array.  The array literal of
   bytecodegen (AllocArray then one SetArrayElem per element) builds exactly the literal's words. *)
From Coq Require Import List ZArith NArith Bool Lia Arith.
From Mimium Require Import Heap.Model Heap.SlotMap Lmmm.Machine Prims.Float Prims.StateOps Prims.Spec Prims.Impl
  Prims.Vm Prims.Pre Prims.Bits Prims.HeapSim.
Import ListNotations.
Local Open Scope N_scope.

(* ---------- the index ---------- *)
Lemma vm_index_clamp : forall idx len, len <> 0 -> vm_index idx len = clamp_index idx len.
Proof.
  intros idx len Hl. unfold vm_index, clamp_index.
  assert (Hhi : Z.of_N (len - 1) = (Z.of_N len - 1)%Z) by lia. rewrite Hhi. reflexivity.
Qed.

(* ---------- lists: writing the elements of a literal one after the other gives the literal ---------- *)
Definition put_list (cur : list word) (st : nat) (src : list word) : list word :=
  firstn st cur ++ src ++ skipn (st + length src) cur.

Fixpoint fill_list (e : nat) (data cur : list word) (i n : nat) : list word :=
  match n with
  | O => cur
  | S n' => fill_list e data (put_list cur (i * e) (firstn e (skipn (i * e) data))) (S i) n'
  end.

Lemma firstn_add : forall {A} a b (l : list A), firstn (a + b) l = firstn a l ++ firstn b (skipn a l).
Proof. intros A a. induction a as [|a IH]; intros b [|x l]; cbn; auto. - now rewrite firstn_nil. - now rewrite IH. Qed.

Lemma fill_list_all : forall e data n i cur N,
  (0 < e)%nat -> length data = (N * e)%nat -> length cur = (N * e)%nat ->
  firstn (i * e) cur = firstn (i * e) data -> (i + n = N)%nat ->
  fill_list e data cur i n = data.
Proof.
  intros e data n. induction n as [|n IH]; intros i cur N He Hd Hc Hf Hn; cbn [fill_list].
  - assert (i = N) by lia. subst i. rewrite <- (firstn_all cur), <- (firstn_all data). rewrite Hc, Hd. exact Hf.
  - assert (Hie : (i * e + e <= N * e)%nat) by nia.
    set (ch := firstn e (skipn (i * e) data)).
    assert (Hch : length ch = e). { unfold ch. rewrite firstn_length, skipn_length. lia. }
    apply (IH (S i) _ N); auto.
    + unfold put_list. rewrite !app_length, firstn_length, skipn_length, Hch. lia.
    + unfold put_list.
      assert (Hl1 : length (firstn (i * e) cur ++ ch) = (S i * e)%nat).
      { rewrite app_length, firstn_length, Hch. cbn. lia. }
      rewrite app_assoc. rewrite <- Hl1 at 1. rewrite firstn_app, firstn_all, Nat.sub_diag. cbn [firstn]. rewrite app_nil_r.
      rewrite Hf. unfold ch. replace (S i * e)%nat with (i * e + e)%nat by (cbn; lia). symmetry. apply firstn_add.
    + lia.
Qed.

(* ---------- the abstraction relation ---------- *)
Definition akey (t : tabs) (k : nat) : key := key_of_ffi (nth k (t_arr t) 0).
Definition aimg (t : tabs) (ar : sarr) : varr := mkVArr (sa_esz ar) (map (resolve t) (sa_data ar)).
Definition dummy_arr : sarr := mkSArr 1 [].
Definition arr_scoped (nh na : nat) (ar : sarr) : Prop := vals_scoped nh na (sa_data ar).

Record varr_rel (t : tabs) (sa : list sarr) (a : smap varr) (B : N) : Prop := mkAR {
  ar_wf : wf a;
  ar_le : sm_le a B;
  ar_len : length (t_arr t) = length sa;
  ar_bound : forall k, (k < length sa)%nat -> bound a (akey t k);
  ar_inj : forall k k', (k < length sa)%nat -> (k' < length sa)%nat -> akey t k = akey t k' -> k = k';
  ar_get : forall k, (k < length sa)%nat -> sm_get a (akey t k) = Some (aimg t (nth k sa dummy_arr));
  ar_nz : forall k, (k < length sa)%nat -> nth k (t_arr t) 0 <> 0;
  ar_scoped : Forall (arr_scoped (length (t_heap t)) (length (t_arr t))) sa
}.

Lemma varr_rel_init : varr_rel tabs0 [] sm_new 1.
Proof. constructor; cbn; try (intros; lia); auto. - apply wf_new. - apply sm_le_new. Qed.

Lemma varr_rel_mono : forall t sa a B B', B <= B' -> varr_rel t sa a B -> varr_rel t sa a B'.
Proof. intros t sa a B B' HB [H1 H2 H3 H4 H5 H6 H7 H8]. constructor; auto. eapply sm_le_mono; eauto. Qed.

Lemma nth_arr_scoped : forall nh na sa k, Forall (arr_scoped nh na) sa -> arr_scoped nh na (nth k sa dummy_arr).
Proof.
  intros nh na sa k H. destruct (Nat.lt_ge_cases k (length sa)) as [Hl|Hg].
  - rewrite Forall_forall in H. apply H. apply nth_In. exact Hl.
  - rewrite nth_overflow by exact Hg. reflexivity.
Qed.

Lemma aimg_ext : forall t t' ar, ext t t' -> arr_scoped (length (t_heap t)) (length (t_arr t)) ar -> aimg t' ar = aimg t ar.
Proof. intros t t' ar He Hs. unfold aimg. rewrite (map_resolve_ext t t') by auto. reflexivity. Qed.

(* the heap table grows, the array table is untouched *)
Lemma varr_rel_ext_heap : forall t sa a B b, varr_rel t sa a B ->
  varr_rel (mkTabs (t_heap t ++ b) (t_arr t)) sa a B.
Proof.
  intros t sa a B b [H1 H2 H3 H4 H5 H6 H7 H8].
  assert (He : ext t (mkTabs (t_heap t ++ b) (t_arr t))).
  { split; cbn; [exists b; reflexivity|exists []; now rewrite app_nil_r]. }
  constructor; cbn [t_heap t_arr]; auto.
  - intros k Hk. change (akey (mkTabs (t_heap t ++ b) (t_arr t)) k) with (akey t k). rewrite H6 by exact Hk.
    f_equal. symmetry. apply aimg_ext; auto. apply nth_arr_scoped; exact H8.
  - eapply Forall_impl; [|exact H8]. intros ar Ho. unfold arr_scoped in *.
    eapply vals_scoped_mono; [| |exact Ho]; [rewrite app_length; lia|lia].
Qed.

(* ---------- the literal: AllocArray + SetArrayElem per element ---------- *)
Lemma fill_spec : forall n i (a : smap varr) raw esz data cur,
  wf a -> sm_get a (key_of_ffi raw) = Some (mkVArr esz cur) ->
  let a' := vm_array_fill a raw esz data i n in
  wf a' /\ (forall B, sm_le a B -> sm_le a' B) /\ (forall k, bound a k -> bound a' k) /\
  (forall k, k <> key_of_ffi raw -> sm_get a' k = sm_get a k) /\
  sm_get a' (key_of_ffi raw) = Some (mkVArr esz (fill_list (N.to_nat esz) data cur i n)).
Proof.
  induction n as [|n IH]; intros i a raw esz data cur Hwf Hg; cbn [vm_array_fill fill_list].
  - cbn zeta. split; [exact Hwf|]. split; [auto|]. split; [auto|]. split; [auto|]. exact Hg.
  - rewrite Hg. unfold vm_array_put. cbn [va_esz va_data].
    set (a1 := sm_set a (key_of_ffi raw) _).
    assert (Hst : N.to_nat (N.of_nat i * esz) = (i * N.to_nat esz)%nat) by (rewrite N2Nat.inj_mul, Nat2N.id; reflexivity).
    assert (Hg1 : sm_get a1 (key_of_ffi raw) =
                  Some (mkVArr esz (put_list cur (i * N.to_nat esz) (firstn (N.to_nat esz) (skipn (i * N.to_nat esz) data))))).
    { unfold a1. erewrite set_get_same by eauto. unfold put_list, chunk. rewrite Hst. reflexivity. }
    assert (Hwf1 : wf a1) by (unfold a1; eapply set_wf; eauto).
    destruct (IH (S i) a1 raw esz data _ Hwf1 Hg1) as (W & L & Bd & O & G). cbn zeta in *.
    split; [exact W|]. split; [|split; [|split]].
    + intros B HB. apply L. unfold a1. apply sm_le_set. exact HB.
    + intros k Hk. apply Bd. unfold a1. apply set_bound_mono. exact Hk.
    + intros k Hk. rewrite O by exact Hk. unfold a1. apply set_get_other. exact Hk.
    + exact G.
Qed.

Lemma ffi_nonzero : forall k, N.odd (kver k) = true -> ffi_of_key k <> 0.
Proof.
  intros k Ho E. unfold ffi_of_key in E. apply N.lor_eq_0_iff in E. destruct E as [E _].
  apply N.shiftl_eq_0_iff in E. rewrite E in Ho. discriminate.
Qed.

Lemma vm_array_new_sim : forall t sa a B esz data,
  varr_rel t sa a B -> B + 1 < TWO32 ->
  vals_scoped (length (t_heap t)) (length (t_arr t)) data ->
  esz <> 0 -> N.of_nat (length data) mod esz = 0 ->
  exists w a', vm_array_new a esz (map (resolve t) data) = (a', IHandle w) /\
    varr_rel (mkTabs (t_heap t) (t_arr t ++ [w])) (sa ++ [mkSArr esz data]) a' (B + 1).
Proof.
  intros t sa a B esz data [Hwf Hle Hlen Hb Hi Hg Hnz Hs] HB Hd He Hm.
  unfold vm_array_new. rewrite map_length.
  destruct (N.eqb_spec esz 0) as [|_]; [contradiction|]. rewrite Hm. cbn [N.eqb negb orb].
  unfold vm_alloc_array.
  set (n := N.of_nat (length data) / esz).
  set (z := mkVArr esz (repeat 0 (N.to_nat (n * esz)))).
  destruct (sm_insert a z) as [a1 k] eqn:Hins.
  assert (Ha1 : a1 = fst (sm_insert a z)) by (rewrite Hins; reflexivity).
  assert (Hk : k = snd (sm_insert a z)) by (rewrite Hins; reflexivity).
  pose proof (sm_insert_key_le a z B Hle) as [Hki Hkv]. rewrite <- Hk in Hki, Hkv.
  assert (Hodd : N.odd (kver k) = true) by (rewrite Hk; apply insert_key_odd).
  assert (Hrt : key_of_ffi (ffi_of_key k) = k) by (apply ffi_key_roundtrip; unfold TWO32 in *; auto; lia).
  assert (Hlenn : length data = (N.to_nat n * N.to_nat esz)%nat).
  { assert (E : N.of_nat (length data) = esz * n) by (apply N.div_exact; auto). lia. }
  assert (Hwf1 : wf a1) by (rewrite Ha1; apply insert_wf; exact Hwf).
  assert (Hg1 : sm_get a1 (key_of_ffi (ffi_of_key k)) = Some z).
  { rewrite Hrt, Ha1, Hk. apply insert_get_same. exact Hwf. }
  destruct (fill_spec (N.to_nat n) 0 a1 (ffi_of_key k) esz (map (resolve t) data) _ Hwf1 Hg1) as (W & L & Bd & O & G).
  cbn zeta in *. rewrite Hrt in O, G.
  rewrite (fill_list_all (N.to_nat esz) (map (resolve t) data) (N.to_nat n) 0 _ (N.to_nat n)) in G;
    [|lia|rewrite map_length; exact Hlenn|rewrite repeat_length; lia|reflexivity|lia].
  exists (ffi_of_key k). eexists. split; [reflexivity|].
  match goal with |- varr_rel ?T _ ?A _ => remember T as t' eqn:Ht'; remember A as a' eqn:Ha' end.
  assert (Hext : ext t t').
  { rewrite Ht'. split; cbn; [exists []; now rewrite app_nil_r|eexists; reflexivity]. }
  assert (Hold : forall j, (j < length sa)%nat -> akey t' j = akey t j).
  { intros j Hj. unfold akey. rewrite Ht'; cbn [t_arr]. rewrite app_nth1 by lia. reflexivity. }
  assert (Hnew : akey t' (length sa) = k).
  { unfold akey. rewrite Ht'; cbn [t_arr]. rewrite app_nth2 by lia. rewrite Hlen, Nat.sub_diag. cbn [nth]. exact Hrt. }
  assert (Hfresh : forall j, (j < length sa)%nat -> akey t j <> k).
  { intros j Hj E. apply (insert_new_unbound a z Hwf). rewrite <- Hk, <- E. apply Hb. exact Hj. }
  constructor.
  - exact W.
  - apply L. rewrite Ha1. apply sm_le_insert. exact Hle.
  - rewrite Ht'; cbn [t_arr]. rewrite !app_length. cbn. lia.
  - intros j Hj. rewrite app_length in Hj; cbn in Hj. apply Bd.
    destruct (Nat.eq_dec j (length sa)) as [->|Hne].
    + rewrite Hnew, Ha1, Hk. apply insert_new_bound.
    + rewrite Hold by lia. rewrite Ha1. apply insert_bound_mono. apply Hb. lia.
  - intros j j' Hj Hj' E. rewrite app_length in Hj, Hj'; cbn in Hj, Hj'.
    destruct (Nat.eq_dec j (length sa)) as [->|Hne], (Nat.eq_dec j' (length sa)) as [->|Hne']; auto.
    + rewrite Hnew, Hold in E by lia. exfalso. apply (Hfresh j'); [lia|auto].
    + rewrite Hnew, Hold in E by lia. exfalso. apply (Hfresh j); [lia|auto].
    + rewrite !Hold in E by lia. apply Hi; auto; lia.
  - intros j Hj. rewrite app_length in Hj; cbn in Hj.
    destruct (Nat.eq_dec j (length sa)) as [->|Hne].
    + rewrite Hnew, G. rewrite app_nth2, Nat.sub_diag by lia. cbn [nth]. unfold aimg; cbn [sa_esz sa_data].
      rewrite (map_resolve_ext t t') by auto. reflexivity.
    + rewrite Hold by lia. rewrite O by (apply Hfresh; lia).
      rewrite Ha1, insert_get_other; [|exact Hwf|rewrite <- Hk; apply Hfresh; lia].
      rewrite Hg by lia. rewrite app_nth1 by lia. f_equal. symmetry. apply aimg_ext; auto. apply nth_arr_scoped; exact Hs.
  - intros j Hj. rewrite app_length in Hj; cbn in Hj. rewrite Ht'; cbn [t_arr].
    destruct (Nat.eq_dec j (length sa)) as [->|Hne].
    + rewrite app_nth2, Hlen, Nat.sub_diag by lia. cbn [nth]. apply ffi_nonzero. exact Hodd.
    + rewrite app_nth1 by lia. apply Hnz. lia.
  - rewrite Ht'; cbn [t_heap t_arr]. apply Forall_app. split.
    + eapply Forall_impl; [|exact Hs]. intros ar Ho. unfold arr_scoped in *.
      eapply vals_scoped_mono; [| |exact Ho]; [lia|rewrite app_length; lia].
    + constructor; [|constructor]. unfold arr_scoped; cbn [sa_data].
      eapply vals_scoped_mono; [| |exact Hd]; [lia|rewrite app_length; lia].
Qed.

(* ---------- element access ---------- *)
Lemma resolve_arr_arg : forall t n av, arr_arg n av = true ->
  exists k, av = VArr k /\ (k < n)%nat /\ resolve t av = nth k (t_arr t) 0.
Proof. intros t n [w|k|k] H; cbn in H; try discriminate. apply Nat.ltb_lt in H. exists k. auto. Qed.

Lemma arr_get_spec : forall s k, (k < length (sp_arrs s))%nat ->
  arr_get s (VArr k) = Some (k, nth k (sp_arrs s) dummy_arr).
Proof. intros s k H. unfold arr_get. rewrite (nth_error_nth_some _ _ dummy_arr H). reflexivity. Qed.

Lemma vm_array_get_sim : forall t s a B av idx esz,
  varr_rel t (sp_arrs s) a B -> arr_arg (length (sp_arrs s)) av = true ->
  arr_esz_ok s av esz = true ->
  exists r, spec_step s (OArrayGet av idx esz) = (s, r) /\
    sres_fault r = ires_fault (vm_array_get a (resolve t av) idx) /\
    (forall t', ext t t' -> res_rel t' r (vm_array_get a (resolve t av) idx)).
Proof.
  intros t s a B av idx esz HR Ha He.
  destruct (resolve_arr_arg t _ _ Ha) as (k & -> & Hk & Hres).
  unfold arr_esz_ok in He. cbn [spec_step]. rewrite arr_get_spec in * by exact Hk.
  apply N.eqb_eq in He. subst esz.
  unfold vm_array_get. rewrite Hres. fold (akey t k). rewrite (ar_get _ _ _ _ HR) by exact Hk.
  set (ar := nth k (sp_arrs s) dummy_arr). unfold aimg, va_len; cbn [va_esz va_data].
  rewrite N.eqb_refl. cbn [negb orb]. rewrite orb_false_r, map_length.
  destruct (sa_esz ar =? 0) eqn:Ez.
  - eexists. split; [reflexivity|]. cbn. auto.
  - destruct (N.of_nat (length (sa_data ar)) / sa_esz ar =? 0) eqn:El.
    + eexists. split; [reflexivity|]. cbn [sres_fault ires_fault res_rel]. split; [reflexivity|].
      intros t' _. clear. induction (N.to_nat (sa_esz ar)); cbn; [reflexivity|]. now f_equal.
    + apply N.eqb_neq in El. rewrite (vm_index_clamp idx _ El).
      eexists. split; [reflexivity|]. cbn [sres_fault ires_fault res_rel]. split; [reflexivity|].
      intros t' He. rewrite skipn_map, firstn_map. symmetry. apply map_resolve_ext; auto.
      apply vals_scoped_firstn, vals_scoped_skipn.
      exact (nth_arr_scoped _ _ _ k (ar_scoped _ _ _ _ HR)).
Qed.

Lemma varr_rel_set : forall t sa a B k data',
  varr_rel t sa a B -> (k < length sa)%nat ->
  vals_scoped (length (t_heap t)) (length (t_arr t)) data' ->
  varr_rel t (set_at sa k (mkSArr (sa_esz (nth k sa dummy_arr)) data'))
           (sm_set a (akey t k) (mkVArr (sa_esz (nth k sa dummy_arr)) (map (resolve t) data'))) B.
Proof.
  intros t sa a B k data' [Hwf Hle Hlen Hb Hi Hg Hnz Hs] Hk Hd.
  constructor; rewrite ?set_at_length; auto.
  - eapply set_wf; [exact Hwf|apply Hg; exact Hk].
  - apply sm_le_set. exact Hle.
  - intros j Hj. apply set_bound_mono. apply Hb. exact Hj.
  - intros j Hj. rewrite nth_set_at. destruct (Nat.eqb_spec j k) as [->|Hne]; cbn [andb].
    + destruct (Nat.ltb_spec k (length sa)); [|lia]. erewrite set_get_same by (apply Hg; exact Hk). reflexivity.
    + rewrite set_get_other; [apply Hg; exact Hj|]. intros E. apply Hne. apply Hi; auto.
  - apply Forall_set_at; auto.
Qed.

Lemma vm_array_set_sim : forall t s a B av idx src esz,
  varr_rel t (sp_arrs s) a B -> arr_arg (length (sp_arrs s)) av = true ->
  arr_esz_ok s av esz = true ->
  vals_scoped (length (t_heap t)) (length (t_arr t)) src ->
  exists sa' r, spec_step s (OArraySet av idx src esz) = (with_arrs s sa', r) /\
    sres_fault r = ires_fault (snd (vm_array_set a (resolve t av) idx (map (resolve t) src))) /\
    (forall t', res_rel t' r (snd (vm_array_set a (resolve t av) idx (map (resolve t) src)))) /\
    (sres_fault r = false -> varr_rel t sa' (fst (vm_array_set a (resolve t av) idx (map (resolve t) src))) B).
Proof.
  intros t s a B av idx src esz HR Ha He Hsrc.
  destruct (resolve_arr_arg t _ _ Ha) as (k & -> & Hk & Hres).
  unfold arr_esz_ok in He. cbn [spec_step]. rewrite arr_get_spec in * by exact Hk.
  apply N.eqb_eq in He. subst esz.
  unfold vm_array_set. rewrite Hres. fold (akey t k). rewrite (ar_get _ _ _ _ HR) by exact Hk.
  set (ar := nth k (sp_arrs s) dummy_arr). unfold aimg, va_len; cbn [va_esz va_data].
  rewrite N.eqb_refl. cbn [negb orb]. rewrite !map_length.
  destruct (sa_esz ar =? 0) eqn:Ez; cbn [orb].
  - exists (sp_arrs s). eexists. split; [destruct s; reflexivity|]. cbn. spl. discriminate.
  - destruct (N.of_nat (length src) =? sa_esz ar) eqn:Es; cbn [negb].
    + destruct (N.of_nat (length (sa_data ar)) / sa_esz ar =? 0) eqn:El.
      * exists (sp_arrs s). eexists. split; [destruct s; reflexivity|]. cbn. spl. intros _. exact HR.
      * apply N.eqb_neq in El. rewrite (vm_index_clamp idx _ El).
        do 2 eexists. split; [reflexivity|]. cbn [sres_fault ires_fault res_rel fst snd]. spl.
        intros _. unfold vm_array_put; cbn [va_esz va_data]. rewrite map_length.
        set (st := N.to_nat (clamp_index idx (N.of_nat (length (sa_data ar)) / sa_esz ar) * sa_esz ar)).
        pose proof (varr_rel_set t (sp_arrs s) a B k (firstn st (sa_data ar) ++ src ++ skipn (st + length src) (sa_data ar)) HR Hk) as H1.
        fold ar in H1. rewrite !map_app, <- firstn_map, <- skipn_map in H1. fold (akey t k). apply H1.
        apply vals_scoped_app; [apply vals_scoped_firstn|apply vals_scoped_app; [exact Hsrc|apply vals_scoped_skipn]];
          exact (nth_arr_scoped _ _ _ k (ar_scoped _ _ _ _ HR)).
    + exists (sp_arrs s). eexists. split; [destruct s; reflexivity|]. cbn. spl. discriminate.
Qed.

Lemma vm_array_len_sim : forall t s a B av,
  varr_rel t (sp_arrs s) a B -> arr_arg (length (sp_arrs s)) av = true ->
  exists r, spec_step s (OArrayLen av) = (s, r) /\
    sres_fault r = ires_fault (vm_array_len a (resolve t av)) /\
    (forall t', res_rel t' r (vm_array_len a (resolve t av))).
Proof.
  intros t s a B av HR Ha.
  destruct (resolve_arr_arg t _ _ Ha) as (k & -> & Hk & Hres).
  cbn [spec_step]. rewrite arr_get_spec by exact Hk.
  unfold vm_array_len. rewrite Hres.
  destruct (N.eqb_spec (nth k (t_arr t) 0) 0) as [E|_]; [exfalso; exact (ar_nz _ _ _ _ HR k Hk E)|].
  fold (akey t k). rewrite (ar_get _ _ _ _ HR) by exact Hk.
  set (ar := nth k (sp_arrs s) dummy_arr). unfold aimg, va_len; cbn [va_esz va_data]. rewrite map_length.
  destruct (sa_esz ar =? 0); eexists; (split; [reflexivity|]); cbn; auto.
Qed.
