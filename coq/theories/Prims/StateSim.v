(* Prims/StateSim.v — the WASM host's state storage (grown on demand, saturating cursor: Lmmm.Machine's WasmD,
   started EMPTY as RuntimeState::default() does) refines the fixed storage of the specification (VmD) wherever the
   specification does not fault.  [st_rel ms mw]: same cursor, the host's words are a prefix of the specification's
   and everything beyond that prefix is zero (so reading through [rd], which gives 0 outside, agrees everywhere).
   The VM's storage IS the specification's (same functions), so nothing is to be proved for it here. *)
From Coq Require Import List ZArith NArith Bool Lia Arith.
From Mimium Require Import StateTree.Model Lmmm.Syntax Lmmm.Compile Lmmm.Machine Lmmm.Base
  Prims.Float Prims.StateOps Prims.Spec Prims.Impl Prims.Wasm.
Import ListNotations.
Local Open Scope N_scope.

Definition st_rel (ms mw : mstate) : Prop :=
  m_pos mw = m_pos ms /\ (length (m_words mw) <= length (m_words ms))%nat /\ forall i, rd mw i = rd ms i.

Lemma nth_repeat0Z : forall n j, nth j (repeat 0%Z n) 0%Z = 0%Z.
Proof. induction n as [|n IH]; intros [|j]; cbn [repeat nth]; auto. Qed.

Lemma st_rel_init : forall size, st_rel (st_init size) (mkM [] 0 []).
Proof.
  intros size. unfold st_rel, st_init; cbn [m_pos m_words]. split; [reflexivity|]. split; [cbn; lia|].
  intros i. unfold rd; cbn [m_words]. rewrite nth_repeat0Z. destruct (N.to_nat i); reflexivity.
Qed.

Lemma st_rel_tr_l : forall ms mw k p s, st_rel ms mw -> st_rel (tr k p s ms) mw.
Proof. intros ms mw k p s H. exact H. Qed.

Lemma st_rel_tr_r : forall ms mw k p s, st_rel ms mw -> st_rel ms (tr k p s mw).
Proof. intros ms mw k p s H. exact H. Qed.

Lemma nth_app_repeat0 : forall (l : list Z) k i, nth i (l ++ repeat 0%Z k) 0%Z = nth i l 0%Z.
Proof.
  intros l k i. destruct (Nat.lt_ge_cases i (length l)) as [H|H].
  - apply app_nth1. exact H.
  - rewrite app_nth2 by exact H. rewrite (nth_overflow l) by exact H.
    generalize (i - length l)%nat as j. clear. induction k as [|k IH]; intros [|j]; cbn; auto.
Qed.

(* growing the host's storage up to what the specification already has *)
Lemma ensure_rel : forall ms mw need, st_rel ms mw -> need <= N.of_nat (length (m_words ms)) ->
  exists mw', ensure WasmD need mw = Some mw' /\ st_rel ms mw' /\
              need <= N.of_nat (length (m_words mw')) /\ m_pos mw' = m_pos mw /\ m_trace mw' = m_trace mw.
Proof.
  intros ms mw need (Hp & Hl & Hr) Hn. unfold ensure.
  destruct (N.leb_spec need (N.of_nat (length (m_words mw)))) as [Hle|Hgt].
  - exists mw. repeat split; auto.
  - eexists. split; [reflexivity|]. unfold st_rel. cbn [m_pos m_words m_trace].
    assert (Hlen : length (m_words mw ++ repeat 0%Z (N.to_nat need - length (m_words mw))) = N.to_nat need).
    { rewrite app_length, repeat_length. lia. }
    rewrite Hlen. split; [split; [exact Hp|split; [lia|]]|split; [lia|auto]].
    intros i. unfold rd; cbn [m_words]. rewrite nth_app_repeat0. apply Hr.
Qed.

Lemma ensure_vm_inv : forall need m m', ensure VmD need m = Some m' -> m' = m /\ need <= N.of_nat (length (m_words m)).
Proof.
  intros need m m' H. unfold ensure in H. destruct (N.leb_spec need (N.of_nat (length (m_words m)))); [|discriminate].
  inversion H; subst; auto.
Qed.

Lemma wr_rel : forall ms mw i v, st_rel ms mw -> i < N.of_nat (length (m_words mw)) ->
  st_rel (wr ms i v) (wr mw i v).
Proof.
  intros ms mw i v (Hp & Hl & Hr) Hi. unfold st_rel. rewrite !wr_length. cbn [wr m_pos]. repeat split; auto.
  intros j. rewrite !rd_wr.
  destruct (N.ltb_spec i (N.of_nat (length (m_words mw)))); [|lia].
  destruct (N.ltb_spec i (N.of_nat (length (m_words ms)))); [|lia].
  destruct (N.eqb j i); cbn [andb]; auto.
Qed.

Lemma rd_n_rel : forall ms mw n p, (forall i, rd mw i = rd ms i) -> rd_n mw p n = rd_n ms p n.
Proof. intros ms mw n. induction n as [|n IH]; intros p H; cbn [rd_n]; [reflexivity|]. rewrite H, IH by exact H. reflexivity. Qed.

Lemma wr_n_length : forall l m p, length (m_words (wr_n m p l)) = length (m_words m).
Proof. induction l as [|v r IH]; intros m p; cbn [wr_n]; [reflexivity|]. rewrite IH, wr_length. reflexivity. Qed.

Lemma wr_n_pos : forall l m p, m_pos (wr_n m p l) = m_pos m.
Proof. induction l as [|v r IH]; intros m p; cbn [wr_n]; [reflexivity|]. rewrite IH. reflexivity. Qed.

Lemma wr_n_rel : forall l ms mw p, st_rel ms mw -> p + N.of_nat (length l) <= N.of_nat (length (m_words mw)) ->
  st_rel (wr_n ms p l) (wr_n mw p l).
Proof.
  induction l as [|v r IH]; intros ms mw p H Hb; cbn [wr_n]; [exact H|].
  cbn [length] in Hb. apply IH.
  - apply wr_rel; [exact H|lia].
  - rewrite wr_length. lia.
Qed.

(* ---------- the primitives ---------- *)
Lemma getn_rel : forall ms mw size l ms', st_rel ms mw -> getn VmD size ms = Some (l, ms') ->
  exists mw', getn WasmD size mw = Some (l, mw') /\ st_rel ms' mw'.
Proof.
  intros ms mw size l ms' H Hg. unfold getn in *.
  destruct (ensure VmD _ _) as [m1|] eqn:He; [|discriminate]. apply ensure_vm_inv in He. destruct He as [-> Hn].
  inversion Hg; subst; clear Hg. cbn [tr m_pos m_words] in Hn.
  destruct (ensure_rel (tr 0 (m_pos ms) size ms) (tr 0 (m_pos mw) size mw) (m_pos ms + size)) as (mw' & E & Hr & Hb & Hp & _).
  { exact H. } { exact Hn. }
  destruct H as (Hpos & _). cbn [tr m_pos]. rewrite Hpos. cbn [tr m_pos] in E. rewrite Hpos in E. rewrite E.
  eexists. split; [|exact Hr]. f_equal. f_equal.
  cbn [tr m_pos] in Hp. rewrite Hp, Hpos. apply rd_n_rel. destruct Hr as (_ & _ & Hr). exact Hr.
Qed.

Lemma setn_rel : forall ms mw src ms', st_rel ms mw -> setn VmD src ms = Some ms' ->
  exists mw', setn WasmD src mw = Some mw' /\ st_rel ms' mw'.
Proof.
  intros ms mw src ms' H Hg. unfold setn in *.
  destruct (ensure VmD _ _) as [m1|] eqn:He; [|discriminate]. apply ensure_vm_inv in He. destruct He as [-> Hn].
  inversion Hg; subst; clear Hg. cbn [tr m_pos m_words] in Hn.
  set (size := N.of_nat (length src)) in *.
  destruct (ensure_rel (tr 1 (m_pos ms) size ms) (tr 1 (m_pos mw) size mw) (m_pos ms + size)) as (mw' & E & Hr & Hb & Hp & _).
  { exact H. } { exact Hn. }
  destruct H as (Hpos & _). cbn [tr m_pos]. rewrite Hpos. cbn [tr m_pos] in E. rewrite Hpos in E. rewrite E.
  eexists. split; [reflexivity|]. cbn [tr m_pos] in Hp. rewrite Hp, Hpos.
  apply wr_n_rel; [exact Hr|]. unfold size in Hb. exact Hb.
Qed.

Lemma mem1_rel : forall ms mw x r ms', st_rel ms mw -> mem1 VmD x ms = Some (r, ms') ->
  exists mw', mem1 WasmD x mw = Some (r, mw') /\ st_rel ms' mw'.
Proof.
  intros ms mw x r ms' H Hg. unfold mem1 in *.
  destruct (ensure VmD _ _) as [m1|] eqn:He; [|discriminate]. apply ensure_vm_inv in He. destruct He as [-> Hn].
  inversion Hg; subst; clear Hg. cbn [tr m_pos m_words] in Hn.
  destruct (ensure_rel (tr 1 (m_pos ms) 1 (tr 1 (m_pos ms) 1 ms)) (tr 1 (m_pos mw) 1 (tr 1 (m_pos mw) 1 mw)) (m_pos ms + 1))
    as (mw' & E & Hr & Hb & Hp & _).
  { exact H. } { exact Hn. }
  destruct H as (Hpos & _). cbn [tr m_pos]. rewrite Hpos. cbn [tr m_pos] in E. rewrite Hpos in E. rewrite E.
  cbn [tr m_pos] in Hp. rewrite Hp, Hpos.
  eexists. split.
  - f_equal. f_equal. destruct Hr as (_ & _ & Hr). apply Hr.
  - apply wr_rel; [exact Hr|lia].
Qed.

Lemma delay1_rel : forall ms mw n x t r ms', st_rel ms mw -> delay1 VmD n x t ms = Some (r, ms') ->
  n <> 0 ->
  exists mw', delay1 WasmD n x t mw = Some (r, mw') /\ st_rel ms' mw'.
Proof.
  intros ms mw n x t r ms' H Hg Hn0. unfold delay1 in *.
  destruct (N.eqb_spec n 0) as [E0|_]; [contradiction|].
  destruct (ensure VmD _ _) as [m1|] eqn:He; [|discriminate]. apply ensure_vm_inv in He. destruct He as [-> Hn].
  inversion Hg; subst; clear Hg. cbn [tr m_pos m_words] in Hn.
  destruct (ensure_rel (tr 2 (m_pos ms) (n + 2) ms) (tr 2 (m_pos mw) (n + 2) mw) (m_pos ms + 2 + n))
    as (mw' & E & Hr & Hb & Hp & _).
  { exact H. } { exact Hn. }
  destruct H as (Hpos & _). cbn [tr m_pos]. rewrite Hpos. cbn [tr m_pos] in E. rewrite Hpos in E. rewrite E.
  cbn [tr m_pos] in Hp. rewrite Hp, Hpos.
  pose proof Hr as (_ & _ & Hrd).
  set (msT := tr 2 (m_pos ms) (n + 2) ms) in *.
  rewrite !Hrd.
  set (len := Z.of_N n). set (p := m_pos ms).
  set (w := (rd msT (p + 1) mod len)%Z).
  set (rr := ((w + len - clampZ t 0 (len - 1)) mod len)%Z).
  assert (Hlen : (0 < len)%Z) by (unfold len; lia).
  assert (Hw : (0 <= w < len)%Z) by (apply Z.mod_pos_bound; exact Hlen).
  eexists. split; [reflexivity|].
  apply wr_rel; [apply wr_rel; [apply wr_rel; [exact Hr|]|]|]; rewrite ?wr_length; unfold len in *; lia.
Qed.

(* a delay line of length 0: both return 0 and keep their words *)
Lemma delay1_zero_vm : forall x t m r m', delay1 VmD 0 x t m = Some (r, m') ->
  r = 0%Z /\ m_words m' = m_words m /\ m_pos m' = m_pos m.
Proof.
  intros x t m r m' H. unfold delay1 in H. cbn [N.eqb] in H.
  destruct (ensure VmD _ _) as [m1|] eqn:He; [|discriminate]. apply ensure_vm_inv in He. destruct He as [-> _].
  inversion H; subst. auto.
Qed.

Lemma st_rel_same_words : forall ms ms' mw, st_rel ms mw -> m_words ms' = m_words ms -> m_pos ms' = m_pos ms -> st_rel ms' mw.
Proof.
  intros ms ms' mw (Hp & Hl & Hr) Hw Hpp. unfold st_rel, rd in *. rewrite Hw, Hpp. auto.
Qed.

(* cursor moves *)
Lemma do_push_rel : forall ms mw k, st_rel ms mw -> st_rel (do_push k ms) (do_push k mw).
Proof. intros ms mw k (Hp & Hl & Hr). unfold st_rel, do_push; cbn [tr m_pos m_words]. rewrite Hp. auto. Qed.

Lemma do_pop_rel : forall ms mw k ms', st_rel ms mw -> do_pop VmD k ms = Some ms' ->
  exists mw', do_pop WasmD k mw = Some mw' /\ st_rel ms' mw'.
Proof.
  intros ms mw k ms' (Hp & Hl & Hr) H. unfold do_pop in *. cbn [tr m_pos m_words m_trace] in *.
  rewrite Hp. destruct (k <=? m_pos ms); [|discriminate]. inversion H; subst.
  eexists. split; [reflexivity|]. unfold st_rel; cbn [m_pos m_words]. auto.
Qed.
