(* Lexer/PreLemmas.v — the pre-parser model: which trivia token ends up in which map (C13_trivia_once,
   C13_leading_trivia_refuted, C13_token_indices, C04_preparse_total).  Everything is proved for an
   arbitrary token list (not only for outputs of the tokenizer). *)
From Coq Require Import List NArith Bool Arith Lia.
From Mimium Require Import Tables.LexerTables Lexer.Model.
Import ListNotations.

Definition dtok : Token := mkTok KEof 0 0.

(* a token the parser sees: neither trivia nor the end marker *)
Definition is_syntax (t : Token) : bool := negb (is_trivia t) && negb (is_eof t).

(* number of occurrences of an index in a list of indices *)
Definition cnt (i : N) (l : list N) : nat := count_occ N.eq_dec l i.

(* all the indices stored in a trivia map *)
Definition map_values (m : TriviaMap) : list N := concat (map snd m).
Definition map_keys (m : TriviaMap) : list N := map fst m.

(* how often trivia token i is attached to some syntax token *)
Definition attachments (i : N) (pp : PreParsed) : nat :=
  cnt i (map_values (pp_leading pp)) + cnt i (map_values (pp_trailing pp)).

(* scanning l from its head: is a LineBreak met before any syntax token? *)
Fixpoint lb_first (l : list Token) : bool :=
  match l with
  | [] => false
  | t :: r => if is_linebreak t then true else if is_syntax t then false else lb_first r
  end.

(* like lb_first, but reaching the end of the tokens also counts *)
Fixpoint lb_or_end_first (l : list Token) : bool :=
  match l with
  | [] => true
  | t :: r => if is_linebreak t then true else if is_syntax t then false else lb_or_end_first r
  end.

Definition no_syntax (l : list Token) : bool := negb (existsb is_syntax l).

(* THE F5 SITUATION.  Trivia token j is dropped (attached to nothing) exactly when no syntax token
   precedes it and, scanning forward from j (j included), a LineBreak or the end of the token list
   comes before the first syntax token. *)
Definition dropped (toks : list Token) (j : nat) : bool :=
  no_syntax (firstn j toks) && lb_or_end_first (skipn j toks).

(* ------------------------------------------------------------------------------------------ *)
(* counting                                                                                   *)
(* ------------------------------------------------------------------------------------------ *)

Lemma cnt_app : forall i a b, cnt i (a ++ b) = (cnt i a + cnt i b)%nat.
Proof. intros. unfold cnt. apply count_occ_app. Qed.

Lemma cnt_nil : forall i, cnt i [] = 0%nat.
Proof. reflexivity. Qed.

Lemma cnt_single : forall j n : nat, cnt (N.of_nat j) [N.of_nat n] = if Nat.eqb j n then 1%nat else 0%nat.
Proof.
  intros j n. unfold cnt. cbn [count_occ].
  destruct (N.eq_dec (N.of_nat n) (N.of_nat j)) as [E|E]; destruct (Nat.eqb_spec j n) as [E'|E']; try reflexivity.
  - apply Nat2N.inj in E. congruence.
  - subst. congruence.
Qed.

Lemma map_values_append : forall i k vs m,
  cnt i (map_values (map_append k vs m)) = (cnt i (map_values m) + cnt i vs)%nat.
Proof.
  intros i k vs. induction m as [|[k' l] r IH]; cbn [map_append].
  - unfold map_values. cbn [map snd concat]. rewrite app_nil_r. reflexivity.
  - destruct (N.eqb k' k); unfold map_values in *; cbn [map snd concat]; rewrite !cnt_app.
    + lia.
    + rewrite IH. lia.
Qed.

Lemma map_keys_append : forall k vs m x, In x (map_keys (map_append k vs m)) -> x = k \/ In x (map_keys m).
Proof.
  intros k vs. induction m as [|[k' l] r IH]; intros x H; cbn [map_append] in H.
  - cbn in H. destruct H as [H|[]]. now left.
  - destruct (N.eqb k' k); cbn [map_keys map fst] in *.
    + now right.
    + destruct H as [H|H]; [right; now left|]. destruct (IH _ H); [now left|right; now right].
Qed.

(* ------------------------------------------------------------------------------------------ *)
(* scanning lemmas                                                                            *)
(* ------------------------------------------------------------------------------------------ *)

Lemma syntax_not_linebreak : forall t, is_syntax t = true -> is_linebreak t = false.
Proof.
  intros [k s l]. unfold is_syntax, is_trivia, is_linebreak, is_eof. cbn [tk_kind]. destruct k; cbn; congruence.
Qed.

Lemma linebreak_is_trivia : forall t, is_linebreak t = true -> is_trivia t = true.
Proof.
  intros [k s l]. unfold is_trivia, is_linebreak. cbn [tk_kind]. destruct k; cbn; congruence.
Qed.

Lemma lb_first_snoc : forall l t, is_linebreak t = false -> lb_first (l ++ [t]) = lb_first l.
Proof.
  induction l as [|a l IH]; intros t Ht; cbn [app lb_first].
  - rewrite Ht. now destruct (is_syntax t).
  - destruct (is_linebreak a); [reflexivity|]. destruct (is_syntax a); [reflexivity|]. now apply IH.
Qed.

Lemma lb_first_app_syntax : forall l x, no_syntax l = false -> lb_first (l ++ x) = lb_first l.
Proof.
  unfold no_syntax. induction l as [|a l IH]; intros x H; cbn [existsb] in H; [discriminate|].
  cbn [app lb_first]. destruct (is_linebreak a); [reflexivity|].
  destruct (is_syntax a); [reflexivity|]. cbn [orb] in H. now apply IH.
Qed.

Lemma lb_first_snoc_lb : forall l t, no_syntax l = true -> is_linebreak t = true -> lb_first (l ++ [t]) = true.
Proof.
  unfold no_syntax. induction l as [|a l IH]; intros t H Ht; cbn [app lb_first].
  - now rewrite Ht.
  - cbn [existsb] in H. destruct (is_linebreak a); [reflexivity|].
    destruct (is_syntax a); [discriminate|]. cbn [orb] in H. now apply IH.
Qed.

Lemma lb_or_end_syntax : forall l, no_syntax l = false -> lb_or_end_first l = lb_first l.
Proof.
  unfold no_syntax. induction l as [|a l IH]; intro H; cbn [existsb] in H; [discriminate|].
  cbn [lb_or_end_first lb_first]. destruct (is_linebreak a); [reflexivity|].
  destruct (is_syntax a); [reflexivity|]. cbn [orb] in H. now apply IH.
Qed.

Lemma lb_or_end_no_syntax : forall l, no_syntax l = true -> lb_or_end_first l = true.
Proof.
  unfold no_syntax. induction l as [|a l IH]; intro H; cbn [lb_or_end_first]; [reflexivity|].
  cbn [existsb] in H. destruct (is_linebreak a); [reflexivity|].
  destruct (is_syntax a); [discriminate|]. cbn [orb] in H. now apply IH.
Qed.

Lemma no_syntax_app : forall a b, no_syntax (a ++ b) = no_syntax a && no_syntax b.
Proof. intros. unfold no_syntax. rewrite existsb_app. now destruct (existsb is_syntax a), (existsb is_syntax b). Qed.

Lemma no_syntax_firstn : forall l j, no_syntax l = true -> no_syntax (firstn j l) = true.
Proof.
  intros l j H. rewrite <- (firstn_skipn j l), no_syntax_app in H. now apply andb_prop in H as [H _].
Qed.

Lemma no_syntax_skipn : forall l j, no_syntax l = true -> no_syntax (skipn j l) = true.
Proof.
  intros l j H. rewrite <- (firstn_skipn j l), no_syntax_app in H. now apply andb_prop in H as [_ H].
Qed.

(* ------------------------------------------------------------------------------------------ *)
(* what the loop has attached after reading the tokens `seen`                                 *)
(* ------------------------------------------------------------------------------------------ *)

(* trivia j was thrown away by `pending_trivia.clear()` while reading `seen` *)
Definition cleared (seen : list Token) (j : nat) : bool :=
  no_syntax (firstn j seen) && lb_first (skipn j seen).

(* 1 when trivia token j of `seen` is held somewhere (a map or pending_trivia), else 0 *)
Definition held (seen : list Token) (j : nat) : nat :=
  if (j <? length seen)%nat && is_trivia (nth j seen dtok) && negb (cleared seen j) then 1%nat else 0%nat.

Lemma held_ge : forall seen j, (length seen <= j)%nat -> held seen j = 0%nat.
Proof. intros seen j H. unfold held. destruct (Nat.ltb_spec j (length seen)); [lia|reflexivity]. Qed.

Lemma firstn_snoc_le : forall (l : list Token) t j, (j <= length l)%nat -> firstn j (l ++ [t]) = firstn j l.
Proof.
  intros l t j H. rewrite firstn_app. replace (j - length l)%nat with 0%nat by lia. cbn [firstn]. now rewrite app_nil_r.
Qed.

Lemma skipn_snoc_le : forall (l : list Token) t j, (j <= length l)%nat -> skipn j (l ++ [t]) = skipn j l ++ [t].
Proof.
  intros l t j H. rewrite skipn_app. replace (j - length l)%nat with 0%nat by lia. reflexivity.
Qed.

(* appending a token that is not a LineBreak *)
Lemma held_snoc_other : forall seen t j, is_linebreak t = false ->
  held (seen ++ [t]) j = (held seen j + (if Nat.eqb j (length seen) && is_trivia t then 1 else 0))%nat.
Proof.
  intros seen t j Ht. unfold held. rewrite app_length. cbn [length].
  destruct (Nat.lt_trichotomy j (length seen)) as [Hlt|[Heq|Hgt]].
  - replace (Nat.eqb j (length seen)) with false by (symmetry; apply Nat.eqb_neq; lia). cbn [andb].
    rewrite app_nth1 by assumption.
    replace (j <? length seen + 1)%nat with true by (symmetry; apply Nat.ltb_lt; lia).
    replace (j <? length seen)%nat with true by (symmetry; apply Nat.ltb_lt; lia).
    unfold cleared. rewrite firstn_snoc_le, skipn_snoc_le by lia.
    destruct (no_syntax (skipn j seen)) eqn:Es.
    + rewrite lb_first_snoc by assumption. lia.
    + rewrite lb_first_app_syntax by assumption. lia.
  - subst j. rewrite Nat.eqb_refl. cbn [andb].
    replace (length seen <? length seen + 1)%nat with true by (symmetry; apply Nat.ltb_lt; lia).
    rewrite Nat.ltb_irrefl. cbn [andb].
    rewrite app_nth2, Nat.sub_diag by lia. cbn [nth].
    unfold cleared. rewrite skipn_app, skipn_all, Nat.sub_diag. cbn [app skipn lb_first]. rewrite Ht.
    destruct (is_syntax t); rewrite andb_false_r; cbn [negb andb]; destruct (is_trivia t); reflexivity.
  - replace (Nat.eqb j (length seen)) with false by (symmetry; apply Nat.eqb_neq; lia). cbn [andb].
    replace (j <? length seen + 1)%nat with false by (symmetry; apply Nat.ltb_ge; lia).
    replace (j <? length seen)%nat with false by (symmetry; apply Nat.ltb_ge; lia). reflexivity.
Qed.

(* appending a LineBreak after some syntax token was seen *)
Lemma held_snoc_lb_syntax : forall seen t j, is_linebreak t = true -> no_syntax seen = false ->
  held (seen ++ [t]) j = (held seen j + (if Nat.eqb j (length seen) then 1 else 0))%nat.
Proof.
  intros seen t j Ht Hs. unfold held. rewrite app_length. cbn [length].
  destruct (Nat.lt_trichotomy j (length seen)) as [Hlt|[Heq|Hgt]].
  - replace (Nat.eqb j (length seen)) with false by (symmetry; apply Nat.eqb_neq; lia).
    rewrite app_nth1 by assumption.
    replace (j <? length seen + 1)%nat with true by (symmetry; apply Nat.ltb_lt; lia).
    replace (j <? length seen)%nat with true by (symmetry; apply Nat.ltb_lt; lia).
    unfold cleared. rewrite firstn_snoc_le, skipn_snoc_le by lia.
    destruct (no_syntax (firstn j seen)) eqn:Ef; cbn [andb]; [|lia].
    assert (Hk : no_syntax (skipn j seen) = false).
    { rewrite <- (firstn_skipn j seen), no_syntax_app, Ef in Hs. exact Hs. }
    rewrite lb_first_app_syntax by assumption. lia.
  - subst j. rewrite Nat.eqb_refl.
    replace (length seen <? length seen + 1)%nat with true by (symmetry; apply Nat.ltb_lt; lia).
    rewrite Nat.ltb_irrefl. cbn [andb].
    rewrite app_nth2, Nat.sub_diag by lia. cbn [nth]. rewrite (linebreak_is_trivia _ Ht).
    unfold cleared. rewrite firstn_app, Nat.sub_diag, firstn_all. cbn [firstn]. rewrite app_nil_r, Hs. reflexivity.
  - replace (Nat.eqb j (length seen)) with false by (symmetry; apply Nat.eqb_neq; lia).
    replace (j <? length seen + 1)%nat with false by (symmetry; apply Nat.ltb_ge; lia).
    replace (j <? length seen)%nat with false by (symmetry; apply Nat.ltb_ge; lia). reflexivity.
Qed.

(* appending a LineBreak when no syntax token was seen: everything so far is thrown away *)
Lemma held_snoc_lb_none : forall seen t j, is_linebreak t = true -> no_syntax seen = true ->
  held (seen ++ [t]) j = 0%nat.
Proof.
  intros seen t j Ht Hs. unfold held. rewrite app_length. cbn [length].
  destruct (Nat.ltb_spec j (length seen + 1)) as [Hlt|Hge]; [|reflexivity]. cbn [andb].
  assert (Hc : cleared (seen ++ [t]) j = true).
  { unfold cleared. rewrite firstn_snoc_le, skipn_snoc_le by lia.
    rewrite (no_syntax_firstn _ _ Hs). cbn [andb].
    apply lb_first_snoc_lb; [now apply no_syntax_skipn|assumption]. }
  rewrite Hc. now rewrite andb_false_r.
Qed.

(* ------------------------------------------------------------------------------------------ *)
(* loop invariant                                                                             *)
(* ------------------------------------------------------------------------------------------ *)

(* indices (counted from i) of the syntax tokens of l *)
Fixpoint syn_idx (i : N) (l : list Token) : list N :=
  match l with
  | [] => []
  | t :: r => if is_syntax t then i :: syn_idx (N.succ i) r else syn_idx (N.succ i) r
  end.

Lemma syn_idx_snoc : forall l i t,
  syn_idx i (l ++ [t]) = syn_idx i l ++ (if is_syntax t then [(i + N.of_nat (length l))%N] else []).
Proof.
  induction l as [|a l IH]; intros i t; cbn [app syn_idx length].
  - rewrite N.add_0_r. now destruct (is_syntax t).
  - rewrite IH. replace (N.succ i + N.of_nat (length l))%N with (i + N.of_nat (S (length l)))%N by lia.
    now destruct (is_syntax a).
Qed.

Definition st_count (j : nat) (st : PreState) : nat :=
  (cnt (N.of_nat j) (map_values (ps_leading st)) + cnt (N.of_nat j) (map_values (ps_trailing st))
   + cnt (N.of_nat j) (ps_pending st))%nat.

Record Inv (seen : list Token) (st : PreState) : Prop := {
  inv_idx : ps_token_indices st = syn_idx 0 seen;
  inv_last : match ps_last_token_idx st with
             | None => no_syntax seen = true /\ ps_leading st = [] /\ ps_trailing st = []
             | Some k => no_syntax seen = false /\ (k < N.of_nat (length (ps_token_indices st)))%N
             end;
  inv_count : forall j, st_count j st = held seen j;
  inv_keys : forall x, In x (map_keys (ps_leading st)) \/ In x (map_keys (ps_trailing st)) ->
                       (x < N.of_nat (length (ps_token_indices st)))%N
}.

Lemma Inv_init : Inv [] pre_init.
Proof.
  constructor.
  - reflexivity.
  - cbn. auto.
  - intro j. unfold st_count, held. cbn. now destruct j.
  - cbn. intros x [[]|[]].
Qed.

Lemma no_syntax_snoc : forall seen t, no_syntax (seen ++ [t]) = no_syntax seen && negb (is_syntax t).
Proof. intros. rewrite no_syntax_app. unfold no_syntax at 2. cbn [existsb]. now rewrite orb_false_r. Qed.

Lemma trivia_not_syntax : forall t, is_trivia t = true -> is_syntax t = false.
Proof. intros t H. unfold is_syntax. now rewrite H. Qed.

Lemma Inv_step : forall seen st t, Inv seen st -> Inv (seen ++ [t]) (pre_step st (N.of_nat (length seen)) t).
Proof.
  intros seen st t [Hidx Hlast Hcount Hkeys]. unfold pre_step.
  destruct (is_trivia t) eqn:Etr.
  - (* trivia *)
    pose proof (trivia_not_syntax _ Etr) as Hns.
    destruct (is_linebreak t) eqn:Elb.
    + destruct (ps_last_token_idx st) as [k|] eqn:El.
      * destruct Hlast as [Hsyn Hk]. constructor; cbn [ps_token_indices ps_leading ps_trailing ps_pending ps_last_token_idx].
        -- rewrite syn_idx_snoc, Hns, app_nil_r. exact Hidx.
        -- split; [|exact Hk]. now rewrite no_syntax_snoc, Hsyn.
        -- intro j. rewrite held_snoc_lb_syntax by assumption. rewrite <- Hcount. unfold st_count.
           cbn [ps_leading ps_trailing ps_pending]. rewrite map_values_append, cnt_app, cnt_single.
           rewrite cnt_nil. lia.
        -- intros x [Hx|Hx]; [apply Hkeys; now left|].
           apply map_keys_append in Hx as [->|Hx]; [exact Hk|apply Hkeys; now right].
      * destruct Hlast as [Hsyn [Hl Ht]]. constructor; cbn [ps_token_indices ps_leading ps_trailing ps_pending ps_last_token_idx].
        -- rewrite syn_idx_snoc, Hns, app_nil_r. exact Hidx.
        -- split; [|auto]. now rewrite no_syntax_snoc, Hsyn, Hns.
        -- intro j. rewrite held_snoc_lb_none by assumption. unfold st_count.
           cbn [ps_leading ps_trailing ps_pending]. rewrite Hl, Ht. reflexivity.
        -- intros x Hx. apply Hkeys. exact Hx.
    + constructor; cbn [ps_token_indices ps_leading ps_trailing ps_pending ps_last_token_idx].
      * rewrite syn_idx_snoc, Hns, app_nil_r. exact Hidx.
      * destruct (ps_last_token_idx st) as [k|].
        -- destruct Hlast as [Hsyn Hk]. split; [|exact Hk]. now rewrite no_syntax_snoc, Hsyn.
        -- destruct Hlast as [Hsyn Hm]. split; [|exact Hm]. now rewrite no_syntax_snoc, Hsyn, Hns.
      * intro j. rewrite held_snoc_other by assumption. rewrite <- Hcount. unfold st_count.
        cbn [ps_leading ps_trailing ps_pending]. rewrite cnt_app, cnt_single, Etr, andb_true_r. lia.
      * exact Hkeys.
  - destruct (is_eof t) eqn:Eeof; cbn [negb].
    + (* Eof: ignored *)
      assert (Hns : is_syntax t = false) by (unfold is_syntax; now rewrite Eeof, andb_false_r).
      assert (Elb : is_linebreak t = false).
      { destruct (is_linebreak t) eqn:E; [|reflexivity]. apply linebreak_is_trivia in E. congruence. }
      constructor.
      * rewrite syn_idx_snoc, Hns, app_nil_r. exact Hidx.
      * destruct (ps_last_token_idx st) as [k|].
        -- destruct Hlast as [Hsyn Hk]. split; [|exact Hk]. now rewrite no_syntax_snoc, Hsyn.
        -- destruct Hlast as [Hsyn Hm]. split; [|exact Hm]. now rewrite no_syntax_snoc, Hsyn, Hns.
      * intro j. rewrite held_snoc_other by assumption. rewrite Etr, andb_false_r. rewrite <- Hcount. lia.
      * exact Hkeys.
    + (* a syntax token *)
      assert (Hsy : is_syntax t = true) by (unfold is_syntax; now rewrite Etr, Eeof).
      pose proof (syntax_not_linebreak _ Hsy) as Elb.
      set (cur := N.of_nat (length (ps_token_indices st))).
      (* the state after "attach pending trivia" *)
      match goal with |- Inv _ (mkPre (ps_token_indices ?s' ++ _) _ _ _ _ _) => set (st' := s') end.
      assert (Hst' : ps_token_indices st' = ps_token_indices st /\
                     (forall j, st_count j st' = st_count j st) /\
                     (forall x, In x (map_keys (ps_leading st')) \/ In x (map_keys (ps_trailing st')) ->
                                (x < N.of_nat (length (ps_token_indices st) + 1))%N)).
      { subst st'. destruct (ps_pending st) as [|p0 pend] eqn:Ep.
        - split; [reflexivity|]. split; [reflexivity|]. intros x Hx. specialize (Hkeys x Hx). lia.
        - destruct (ps_last_was_linebreak st || match ps_last_token_idx st with None => true | Some _ => false end) eqn:Ec.
          + cbn [ps_token_indices ps_leading ps_trailing ps_pending]. split; [reflexivity|]. split.
            * intro j. unfold st_count. cbn [ps_leading ps_trailing ps_pending].
              rewrite map_values_append, Ep. rewrite cnt_nil. lia.
            * intros x [Hx|Hx].
              -- apply map_keys_append in Hx as [->|Hx]; [lia|]. specialize (Hkeys x (or_introl Hx)). lia.
              -- specialize (Hkeys x (or_intror Hx)). lia.
          + destruct (ps_last_token_idx st) as [k|] eqn:El; [|rewrite orb_true_r in Ec; discriminate].
            destruct Hlast as [_ Hk].
            cbn [ps_token_indices ps_leading ps_trailing ps_pending]. split; [reflexivity|]. split.
            * intro j. unfold st_count. cbn [ps_leading ps_trailing ps_pending].
              rewrite map_values_append, Ep. rewrite cnt_nil. lia.
            * intros x [Hx|Hx].
              -- specialize (Hkeys x (or_introl Hx)). lia.
              -- apply map_keys_append in Hx as [->|Hx]; [lia|]. specialize (Hkeys x (or_intror Hx)). lia. }
      destruct Hst' as [Hti [Hcnt Hk']].
      constructor; cbn [ps_token_indices ps_leading ps_trailing ps_pending ps_last_token_idx].
      * rewrite Hti, syn_idx_snoc, Hsy, Hidx. reflexivity.
      * split; [now rewrite no_syntax_snoc, Hsy, andb_false_r|].
        rewrite Hti, app_length. cbn [length]. subst cur. lia.
      * intro j. rewrite held_snoc_other by assumption. rewrite Etr, andb_false_r, Nat.add_0_r.
        rewrite <- Hcount, <- Hcnt. reflexivity.
      * intros x Hx. rewrite Hti, app_length. cbn [length]. apply Hk'. exact Hx.
Qed.

Lemma Inv_loop : forall rest seen st, Inv seen st ->
  Inv (seen ++ rest) (pre_loop st (N.of_nat (length seen)) rest).
Proof.
  induction rest as [|t rest IH]; intros seen st H; cbn [pre_loop].
  - now rewrite app_nil_r.
  - replace (seen ++ t :: rest) with ((seen ++ [t]) ++ rest) by (rewrite <- app_assoc; reflexivity).
    replace (N.succ (N.of_nat (length seen))) with (N.of_nat (length (seen ++ [t])))
      by (rewrite app_length; cbn [length]; lia).
    apply IH. now apply Inv_step.
Qed.

Lemma Inv_final : forall toks, Inv toks (pre_loop pre_init 0 toks).
Proof. intro toks. apply (Inv_loop toks [] pre_init Inv_init). Qed.

(* ------------------------------------------------------------------------------------------ *)
(* results about preparse                                                                     *)
(* ------------------------------------------------------------------------------------------ *)

Lemma pre_finish_indices : forall st, pp_token_indices (pre_finish st) = ps_token_indices st.
Proof.
  intro st. unfold pre_finish. destruct (ps_pending st); [reflexivity|]. now destruct (ps_last_token_idx st).
Qed.

(* token_indices = the indices of the syntax tokens, ascending *)
Theorem preparse_token_indices : forall toks, pp_token_indices (preparse toks) = syn_idx 0 toks.
Proof.
  intro toks. unfold preparse. rewrite pre_finish_indices. apply (inv_idx _ _ (Inv_final toks)).
Qed.

Lemma attachments_final : forall toks j,
  attachments (N.of_nat j) (preparse toks) =
  if no_syntax toks then 0%nat else held toks j.
Proof.
  intros toks j. unfold preparse, attachments.
  destruct (Inv_final toks) as [Hidx Hlast Hcount Hkeys].
  set (st := pre_loop pre_init 0 toks) in *.
  specialize (Hcount j). unfold st_count in Hcount. unfold pre_finish.
  destruct (ps_last_token_idx st) as [k|] eqn:El.
  - destruct Hlast as [Hsyn _]. rewrite Hsyn.
    destruct (ps_pending st) as [|p0 pend] eqn:Ep; cbn [pp_leading pp_trailing].
    + rewrite cnt_nil in Hcount. lia.
    + rewrite map_values_append. lia.
  - destruct Hlast as [Hsyn [Hl Ht]]. rewrite Hsyn.
    destruct (ps_pending st); cbn [pp_leading pp_trailing]; rewrite Hl, Ht; reflexivity.
Qed.

(* C13_trivia_once *)
Theorem preparse_trivia_once : forall toks j,
  (j < length toks)%nat -> is_trivia (nth j toks dtok) = true ->
  attachments (N.of_nat j) (preparse toks) = if dropped toks j then 0%nat else 1%nat.
Proof.
  intros toks j Hj Htr. rewrite attachments_final. unfold dropped.
  destruct (no_syntax toks) eqn:Es.
  - rewrite (no_syntax_firstn _ _ Es), (lb_or_end_no_syntax _ (no_syntax_skipn _ _ Es)). reflexivity.
  - unfold held, cleared. replace (j <? length toks)%nat with true by (symmetry; apply Nat.ltb_lt; lia).
    rewrite Htr. cbn [andb].
    destruct (no_syntax (firstn j toks)) eqn:Ef; cbn [andb negb]; [|reflexivity].
    assert (Hk : no_syntax (skipn j toks) = false).
    { rewrite <- (firstn_skipn j toks), no_syntax_app, Ef in Es. exact Es. }
    rewrite (lb_or_end_syntax _ Hk). now destruct (lb_first (skipn j toks)).
Qed.

(* indices that are not trivia tokens of the list are in no map *)
Theorem preparse_only_trivia : forall toks j,
  (length toks <= j)%nat \/ is_trivia (nth j toks dtok) = false ->
  attachments (N.of_nat j) (preparse toks) = 0%nat.
Proof.
  intros toks j H. rewrite attachments_final. destruct (no_syntax toks); [reflexivity|].
  unfold held. destruct H as [H|H].
  - replace (j <? length toks)%nat with false by (symmetry; apply Nat.ltb_ge; lia). reflexivity.
  - rewrite H, andb_false_r. reflexivity.
Qed.

(* every key of the maps is a valid index into token_indices *)
Theorem preparse_keys_in_range : forall toks k,
  In k (map_keys (pp_leading (preparse toks))) \/ In k (map_keys (pp_trailing (preparse toks))) ->
  (k < N.of_nat (length (pp_token_indices (preparse toks))))%N.
Proof.
  intros toks k H. unfold preparse in *. rewrite pre_finish_indices.
  destruct (Inv_final toks) as [Hidx Hlast Hcount Hkeys].
  set (st := pre_loop pre_init 0 toks) in *. unfold pre_finish in H.
  destruct (ps_pending st) as [|p0 pend]; cbn [pp_leading pp_trailing] in H; [now apply Hkeys|].
  destruct (ps_last_token_idx st) as [l|]; cbn [pp_leading pp_trailing] in H; [|now apply Hkeys].
  destruct Hlast as [_ Hl]. destruct H as [H|H]; [apply Hkeys; now left|].
  apply map_keys_append in H as [->|H]; [exact Hl|apply Hkeys; now right].
Qed.

Lemma syn_idx_bound : forall l i x, In x (syn_idx i l) -> (i <= x < i + N.of_nat (length l))%N.
Proof.
  induction l as [|t r IH]; intros i x H; cbn [syn_idx] in H; [destruct H|].
  cbn [length]. destruct (is_syntax t).
  - destruct H as [<-|H]; [lia|]. specialize (IH _ _ H). lia.
  - specialize (IH _ _ H). lia.
Qed.

(* every index stored anywhere in the result is an index of the token list *)
Theorem preparse_indices_in_range : forall toks x,
  In x (pp_token_indices (preparse toks)) \/
  In x (map_values (pp_leading (preparse toks))) \/ In x (map_values (pp_trailing (preparse toks))) ->
  (x < N.of_nat (length toks))%N.
Proof.
  intros toks x H. destruct H as [H|H].
  - rewrite preparse_token_indices in H. apply syn_idx_bound in H. lia.
  - destruct (N.lt_ge_cases x (N.of_nat (length toks))) as [Hlt|Hge]; [assumption|exfalso].
    assert (Ha : attachments (N.of_nat (N.to_nat x)) (preparse toks) = 0%nat).
    { apply preparse_only_trivia. left. lia. }
    rewrite N2Nat.id in Ha. unfold attachments, cnt in Ha.
    destruct H as [H|H]; apply (count_occ_In N.eq_dec) in H; lia.
Qed.

(* ------------------------------------------------------------------------------------------ *)
(* `dropped` in words (positions instead of scans)                                            *)
(* ------------------------------------------------------------------------------------------ *)

Lemma no_syntax_nth : forall l,
  no_syntax l = true <-> (forall i, (i < length l)%nat -> is_syntax (nth i l dtok) = false).
Proof.
  unfold no_syntax. induction l as [|a l IH]; cbn [existsb length].
  - split; [intros _ i Hi; lia|reflexivity].
  - split.
    + intros H i Hi. apply negb_true_iff, orb_false_iff in H as [Ha Hl].
      destruct i as [|i]; cbn [nth]; [assumption|]. apply IH; [now rewrite Hl|lia].
    + intro H. apply negb_true_iff, orb_false_iff. split; [apply (H 0%nat); lia|].
      apply negb_true_iff. apply IH. intros i Hi. apply (H (S i)). lia.
Qed.

Lemma lb_or_end_nth : forall l,
  lb_or_end_first l = true <->
  ((exists b, (b < length l)%nat /\ is_linebreak (nth b l dtok) = true /\
              forall i, (i < b)%nat -> is_syntax (nth i l dtok) = false)
   \/ (forall i, (i < length l)%nat -> is_syntax (nth i l dtok) = false)).
Proof.
  induction l as [|a l IH]; cbn [lb_or_end_first length].
  - split; [intros _; right; intros i Hi; lia|reflexivity].
  - destruct (is_linebreak a) eqn:Ea.
    + split; [|reflexivity]. intros _. left. exists 0%nat. cbn [nth]. repeat split; [lia|assumption|intros i Hi; lia].
    + destruct (is_syntax a) eqn:Es.
      * split; [discriminate|]. intros [[b [Hb [Hlb Hi]]]|H].
        -- destruct b as [|b]; cbn [nth] in Hlb; [congruence|]. specialize (Hi 0%nat). cbn [nth] in Hi. rewrite Hi in Es; [discriminate|lia].
        -- specialize (H 0%nat). cbn [nth] in H. rewrite H in Es; [discriminate|lia].
      * rewrite IH. split; intros [[b [Hb [Hlb Hi]]]|H].
        -- left. exists (S b). cbn [nth]. repeat split; [lia|assumption|].
           intros i Hlt. destruct i as [|i]; cbn [nth]; [assumption|apply Hi; lia].
        -- right. intros i Hlt. destruct i as [|i]; cbn [nth]; [assumption|apply H; lia].
        -- destruct b as [|b]; cbn [nth] in Hlb; [congruence|]. left. exists b. repeat split; [lia|assumption|].
           intros i Hlt. apply (Hi (S i)). lia.
        -- right. intros i Hlt. apply (H (S i)). lia.
Qed.

Lemma nth_firstn_lt : forall (l : list Token) j i, (i < j)%nat -> nth i (firstn j l) dtok = nth i l dtok.
Proof.
  induction l as [|a l IH]; intros j i H; destruct j as [|j]; try lia; cbn [firstn nth].
  - now destruct i.
  - destruct i as [|i]; [reflexivity|]. apply IH. lia.
Qed.

Lemma nth_skipn_add : forall (l : list Token) j i, nth i (skipn j l) dtok = nth (j + i) l dtok.
Proof.
  induction l as [|a l IH]; intros j i; destruct j as [|j]; cbn [skipn Nat.add nth]; try reflexivity.
  - now destruct i.
  - apply IH.
Qed.

(* The F5 situation in words: no syntax token before j, and from j on a LineBreak (at b >= j) or the
   end of the token list is reached without meeting a syntax token. *)
Theorem dropped_spec : forall toks j, (j <= length toks)%nat ->
  (dropped toks j = true <->
   (forall i, (i < j)%nat -> is_syntax (nth i toks dtok) = false) /\
   ((exists b, (j <= b < length toks)%nat /\ is_linebreak (nth b toks dtok) = true /\
               forall i, (j <= i < b)%nat -> is_syntax (nth i toks dtok) = false)
    \/ (forall i, (j <= i < length toks)%nat -> is_syntax (nth i toks dtok) = false))).
Proof.
  intros toks j Hj. unfold dropped. rewrite andb_true_iff, no_syntax_nth, lb_or_end_nth.
  rewrite firstn_length_le, skipn_length by assumption.
  split; intros [H1 H2]; split.
  - intros i Hi. rewrite <- (nth_firstn_lt toks j i Hi). now apply H1.
  - destruct H2 as [[b [Hb [Hlb Hi]]]|H2].
    + left. exists (j + b)%nat. rewrite nth_skipn_add in Hlb. repeat split; [lia|lia|assumption|].
      intros i Hr. specialize (Hi (i - j)%nat). rewrite nth_skipn_add in Hi.
      replace (j + (i - j))%nat with i in Hi by lia. apply Hi. lia.
    + right. intros i Hr. specialize (H2 (i - j)%nat). rewrite nth_skipn_add in H2.
      replace (j + (i - j))%nat with i in H2 by lia. apply H2. lia.
  - intros i Hi. rewrite (nth_firstn_lt toks j i Hi). now apply H1.
  - destruct H2 as [[b [Hb [Hlb Hi]]]|H2].
    + left. exists (b - j)%nat. rewrite nth_skipn_add. replace (j + (b - j))%nat with b by lia.
      repeat split; [lia|assumption|]. intros i Hr. rewrite nth_skipn_add. apply Hi. lia.
    + right. intros i Hr. rewrite nth_skipn_add. apply H2. lia.
Qed.

(* ------------------------------------------------------------------------------------------ *)
(* F5 witness and the bounds used by C04_preparse_total                                       *)
(* ------------------------------------------------------------------------------------------ *)

(* the text "// c\nfn" with the classification the real tokenizer exhibits *)
Definition f5_witness : Input :=
  [ mkCh 47 false false false false false; mkCh 47 false false false false false;
    mkCh 32 false false false false false; mkCh 99 false true true false false;
    mkCh 10 true false false false false;
    mkCh 102 false true true false false; mkCh 110 false true true false false ].

Theorem leading_trivia_refuted :
  exists (s : Input) (toks : list Token),
    tokenize s = TokOk toks /\
    toks = [mkTok KSingleLineComment 0 4; mkTok KLineBreak 4 1; mkTok KFunction 5 2; mkTok KEof 7 0] /\
    attachments 0 (preparse toks) = 0%nat /\ attachments 1 (preparse toks) = 0%nat.
Proof.
  exists f5_witness. eexists. split; [vm_compute; reflexivity|]. split; [reflexivity|].
  split; vm_compute; reflexivity.
Qed.

Theorem preparse_total : forall (toks : list Token) (x : N),
  (In x (pp_token_indices (preparse toks)) \/
   In x (map_values (pp_leading (preparse toks))) \/ In x (map_values (pp_trailing (preparse toks))) ->
   (x < N.of_nat (length toks))%N) /\
  (In x (map_keys (pp_leading (preparse toks))) \/ In x (map_keys (pp_trailing (preparse toks))) ->
   (x < N.of_nat (length (pp_token_indices (preparse toks))))%N).
Proof.
  intros toks x. split; [apply preparse_indices_in_range|apply preparse_keys_in_range].
Qed.

(* ------------------------------------------------------------------------------------------ *)
(* attached trivia are neighbours of the token they are attached to                           *)
(* ------------------------------------------------------------------------------------------ *)

(* number of syntax tokens strictly before token index v *)
Definition syn_before (toks : list Token) (v : N) : N :=
  N.of_nat (length (filter is_syntax (firstn (N.to_nat v) toks))).

(* every value v stored under key k satisfies Q k v *)
Definition MapOK (Q : N -> N -> Prop) (m : TriviaMap) : Prop :=
  forall k vs v, In (k, vs) m -> In v vs -> Q k v.

Lemma MapOK_nil : forall Q, MapOK Q [].
Proof. intros Q k vs v []. Qed.

Lemma MapOK_impl : forall (Q Q' : N -> N -> Prop) m, (forall k v, Q k v -> Q' k v) -> MapOK Q m -> MapOK Q' m.
Proof. intros Q Q' m H Hm k vs v Hin Hv. apply H. eapply Hm; eassumption. Qed.

Lemma MapOK_append : forall (Q : N -> N -> Prop) k vs m,
  MapOK Q m -> (forall v, In v vs -> Q k v) -> MapOK Q (map_append k vs m).
Proof.
  intros Q k vs. induction m as [|[k' l] r IH]; intros Hm Hvs; cbn [map_append].
  - intros k0 vs0 v [E|[]] Hv. inversion E; subst k0 vs0. now apply Hvs.
  - destruct (N.eqb_spec k' k) as [->|Hne].
    + intros k0 vs0 v [E|Hin] Hv.
      * inversion E; subst k0 vs0. apply in_app_or in Hv as [Hv|Hv]; [|now apply Hvs].
        apply (Hm k l v); [now left|assumption].
      * apply (Hm k0 vs0 v); [now right|assumption].
    + intros k0 vs0 v [E|Hin] Hv.
      * inversion E; subst k0 vs0. apply (Hm k' l v); [now left|assumption].
      * apply (IH (fun a b c H1 H2 => Hm a b c (or_intror H1) H2) Hvs k0 vs0 v Hin Hv).
Qed.

Lemma syn_idx_length : forall l i, length (syn_idx i l) = length (filter is_syntax l).
Proof.
  induction l as [|t r IH]; intro i; cbn [syn_idx filter]; [reflexivity|].
  destruct (is_syntax t); cbn [length]; now rewrite IH.
Qed.

Lemma syn_before_snoc : forall seen t v, (v <= N.of_nat (length seen))%N ->
  syn_before (seen ++ [t]) v = syn_before seen v.
Proof. intros seen t v H. unfold syn_before. rewrite firstn_snoc_le by lia. reflexivity. Qed.

Lemma syn_before_all : forall seen t, syn_before (seen ++ [t]) (N.of_nat (length seen)) = N.of_nat (length (filter is_syntax seen)).
Proof.
  intros. unfold syn_before. rewrite Nat2N.id, firstn_app, Nat.sub_diag, firstn_all. cbn [firstn]. now rewrite app_nil_r.
Qed.

Definition Near (seen : list Token) (d : N) (k v : N) : Prop :=
  (v < N.of_nat (length seen))%N /\ syn_before seen v = (k + d)%N.

Record Inv2 (seen : list Token) (st : PreState) : Prop := {
  inv2_pending : forall v, In v (ps_pending st) ->
                   Near seen 0 (N.of_nat (length (ps_token_indices st))) v;
  inv2_leading : MapOK (Near seen 0) (ps_leading st);
  inv2_trailing : MapOK (Near seen 1) (ps_trailing st);
  inv2_last : forall k, ps_last_token_idx st = Some k -> (k + 1 = N.of_nat (length (ps_token_indices st)))%N
}.

Lemma Near_snoc : forall seen t d k v, Near seen d k v -> Near (seen ++ [t]) d k v.
Proof.
  intros seen t d k v [Hlt Hs]. split; [rewrite app_length; cbn [length]; lia|].
  rewrite syn_before_snoc by lia. exact Hs.
Qed.

Lemma Near_new : forall seen t st, ps_token_indices st = syn_idx 0 seen ->
  Near (seen ++ [t]) 0 (N.of_nat (length (ps_token_indices st))) (N.of_nat (length seen)).
Proof.
  intros seen t st Hidx. split; [rewrite app_length; cbn [length]; lia|].
  rewrite syn_before_all, Hidx, syn_idx_length. lia.
Qed.

Lemma Inv2_init : Inv2 [] pre_init.
Proof. constructor; cbn; try apply MapOK_nil; [intros v []|discriminate]. Qed.

Lemma Inv2_step : forall seen st t, Inv seen st -> Inv2 seen st ->
  Inv2 (seen ++ [t]) (pre_step st (N.of_nat (length seen)) t).
Proof.
  intros seen st t HI [Hpend Hlead Htrail Hlast]. pose proof (inv_idx _ _ HI) as Hidx.
  assert (Hpend' : forall v, In v (ps_pending st ++ [N.of_nat (length seen)]) ->
                     Near (seen ++ [t]) 0 (N.of_nat (length (ps_token_indices st))) v).
  { intros v Hv. apply in_app_or in Hv as [Hv|[<-|[]]]; [apply Near_snoc; now apply Hpend|now apply Near_new]. }
  assert (Hlead' : MapOK (Near (seen ++ [t]) 0) (ps_leading st)).
  { eapply MapOK_impl; [|exact Hlead]. intros k v. apply Near_snoc. }
  assert (Htrail' : MapOK (Near (seen ++ [t]) 1) (ps_trailing st)).
  { eapply MapOK_impl; [|exact Htrail]. intros k v. apply Near_snoc. }
  unfold pre_step. destruct (is_trivia t) eqn:Etr.
  - destruct (is_linebreak t).
    + destruct (ps_last_token_idx st) as [k|] eqn:El.
      * constructor; cbn [ps_token_indices ps_leading ps_trailing ps_pending ps_last_token_idx]; try assumption.
        -- intros v [].
        -- apply MapOK_append; [assumption|]. intros v Hv. specialize (Hpend' v Hv).
           destruct Hpend' as [H1 H2]. split; [assumption|]. rewrite H2. specialize (Hlast k eq_refl). lia.
      * constructor; cbn [ps_token_indices ps_leading ps_trailing ps_pending ps_last_token_idx]; try assumption.
        intros v [].
    + constructor; cbn [ps_token_indices ps_leading ps_trailing ps_pending ps_last_token_idx]; assumption.
  - destruct (is_eof t); cbn [negb].
    + constructor; try assumption. intros v Hv. apply Near_snoc. now apply Hpend.
    + (* syntax token: pending is flushed, then the token is pushed *)
      assert (Hp0 : forall v, In v (ps_pending st) -> Near (seen ++ [t]) 0 (N.of_nat (length (ps_token_indices st))) v).
      { intros v Hv. apply Near_snoc. now apply Hpend. }
      destruct (ps_pending st) as [|p0 pend] eqn:Ep.
      * constructor; cbn [ps_token_indices ps_leading ps_trailing ps_pending ps_last_token_idx]; try assumption.
        -- intros v Hv. rewrite Ep in Hv. destruct Hv.
        -- intros k E. inversion E; subst. rewrite app_length. cbn [length]. lia.
      * destruct (ps_last_was_linebreak st || match ps_last_token_idx st with None => true | Some _ => false end) eqn:Ec.
        -- constructor; cbn [ps_token_indices ps_leading ps_trailing ps_pending ps_last_token_idx]; try assumption.
           ++ intros v [].
           ++ apply MapOK_append; [assumption|]. intros v Hv. specialize (Hp0 v Hv).
              destruct Hp0 as [H1 H2]. split; [assumption|]. rewrite H2. lia.
           ++ intros k E. inversion E; subst. rewrite app_length. cbn [length]. lia.
        -- destruct (ps_last_token_idx st) as [l|] eqn:El; [|rewrite orb_true_r in Ec; discriminate].
           constructor; cbn [ps_token_indices ps_leading ps_trailing ps_pending ps_last_token_idx]; try assumption.
           ++ intros v [].
           ++ apply MapOK_append; [assumption|]. intros v Hv. specialize (Hp0 v Hv).
              destruct Hp0 as [H1 H2]. split; [assumption|]. rewrite H2. specialize (Hlast l eq_refl). lia.
           ++ intros k E. inversion E; subst. rewrite app_length. cbn [length]. lia.
Qed.

Lemma Inv2_loop : forall rest seen st, Inv seen st -> Inv2 seen st ->
  Inv2 (seen ++ rest) (pre_loop st (N.of_nat (length seen)) rest).
Proof.
  induction rest as [|t rest IH]; intros seen st H H2; cbn [pre_loop].
  - now rewrite app_nil_r.
  - replace (seen ++ t :: rest) with ((seen ++ [t]) ++ rest) by (rewrite <- app_assoc; reflexivity).
    replace (N.succ (N.of_nat (length seen))) with (N.of_nat (length (seen ++ [t])))
      by (rewrite app_length; cbn [length]; lia).
    apply IH; [now apply Inv_step|now apply Inv2_step].
Qed.

(* leading trivia of syntax token #k lie after exactly k syntax tokens (between #k-1 and #k);
   trailing trivia of #k lie after exactly k+1 (between #k and #k+1) *)
Theorem preparse_neighbour : forall toks k vs v, In v vs ->
  (In (k, vs) (pp_leading (preparse toks)) -> syn_before toks v = k) /\
  (In (k, vs) (pp_trailing (preparse toks)) -> syn_before toks v = (k + 1)%N).
Proof.
  intros toks k vs v Hv. unfold preparse.
  pose proof (Inv2_loop toks [] pre_init Inv_init Inv2_init) as [Hpend Hlead Htrail Hlast].
  cbn [app length N.of_nat] in *. set (st := pre_loop pre_init 0 toks) in *.
  assert (HL : In (k, vs) (ps_leading st) -> syn_before toks v = k).
  { intro Hin. destruct (Hlead k vs v Hin Hv) as [_ H]. rewrite H. lia. }
  assert (HT : MapOK (Near toks 1) (pp_trailing (pre_finish st))).
  { unfold pre_finish. destruct (ps_pending st) as [|p0 pend] eqn:Ep; cbn [pp_trailing]; [assumption|].
    destruct (ps_last_token_idx st) as [l|] eqn:El; cbn [pp_trailing]; [|assumption].
    apply MapOK_append; [assumption|]. intros w Hw. destruct (Hpend w Hw) as [H1 H2].
    split; [assumption|]. rewrite H2. specialize (Hlast l eq_refl). lia. }
  split.
  - intro Hin. apply HL. unfold pre_finish in Hin.
    destruct (ps_pending st); [exact Hin|]. destruct (ps_last_token_idx st); exact Hin.
  - intro Hin. destruct (HT k vs v Hin Hv) as [_ H]. exact H.
Qed.
