(* Lexer/Lemmas.v — the tokenizer model tiles its input (C13_tiling, C13_split_preserves_tiling,
   C04_lex_total).  All statements are for an arbitrary table record T satisfying `tables_ok`
   (checked by computation for the generated tables) and arbitrary character-class answers. *)
From Coq Require Import List NArith Bool Arith Lia.
From Mimium Require Import Tables.LexerTables Lexer.Model.
Import ListNotations.
Local Open Scope N_scope.

(* ------------------------------------------------------------------------------------------ *)
(* bytes                                                                                      *)
(* ------------------------------------------------------------------------------------------ *)

Lemma len_utf8_pos : forall c, 1 <= len_utf8 c.
Proof.
  intro c. unfold len_utf8.
  destruct (c <? 128); [lia|]. destruct (c <? 2048); [lia|]. destruct (c <? 65536); lia.
Qed.

Lemma ulen_pos : forall c, 1 <= ulen c.
Proof. intro c. apply len_utf8_pos. Qed.

Lemma blen_app : forall a b, blen (a ++ b) = blen a + blen b.
Proof.
  induction a as [|c a IH]; intro b; cbn [app blen]; [lia|]. rewrite IH. lia.
Qed.

Lemma blen_nonempty : forall a, a <> [] -> 0 < blen a.
Proof.
  intros [|c a] H; [congruence|]. cbn [blen]. pose proof (ulen_pos c). lia.
Qed.

Lemma drop_bytes_app : forall a b, drop_bytes (blen a) (a ++ b) = drop_bytes 0 b.
Proof.
  induction a as [|c a IH]; intro b; cbn [app blen drop_bytes]; [reflexivity|].
  pose proof (ulen_pos c) as Hc.
  destruct (N.ltb_spec (ulen c + blen a) (ulen c)) as [Hlt|Hge]; [lia|].
  replace (ulen c + blen a - ulen c) with (blen a) by lia. apply IH.
Qed.

Lemma drop_bytes_0 : forall b, drop_bytes 0 b = b.
Proof.
  intros [|c b]; cbn [drop_bytes]; [reflexivity|].
  pose proof (ulen_pos c). destruct (N.ltb_spec 0 (ulen c)); [reflexivity|lia].
Qed.

Lemma take_bytes_app : forall a b, take_bytes (blen a) (a ++ b) = a.
Proof.
  induction a as [|c a IH]; intro b; cbn [app blen].
  - destruct b as [|c b]; cbn [take_bytes]; [reflexivity|].
    pose proof (ulen_pos c). destruct (N.ltb_spec 0 (ulen c)); [reflexivity|lia].
  - cbn [take_bytes]. pose proof (ulen_pos c) as Hc.
    destruct (N.ltb_spec (ulen c + blen a) (ulen c)) as [Hlt|Hge]; [lia|].
    replace (ulen c + blen a - ulen c) with (blen a) by lia. now rewrite IH.
Qed.

(* the text of a token that starts after `done` and spans `pre` *)
Lemma tk_text_at : forall done pre rest k,
  tk_text (done ++ pre ++ rest) (mkTok k (blen done) (blen pre)) = pre.
Proof.
  intros. unfold tk_text. cbn [tk_start tk_len].
  rewrite drop_bytes_app, drop_bytes_0. apply take_bytes_app.
Qed.

(* ------------------------------------------------------------------------------------------ *)
(* cursors advance over a prefix of the remaining input                                       *)
(* ------------------------------------------------------------------------------------------ *)

(* cu' is cu advanced over the characters `pre` *)
Definition AdvBy (pre : Input) (cu cu' : Cursor) : Prop :=
  cur_rest cu = pre ++ cur_rest cu' /\ cur_pos cu' = cur_pos cu + blen pre.

Definition Adv (cu cu' : Cursor) : Prop := exists pre, AdvBy pre cu cu'.
Definition SAdv (cu cu' : Cursor) : Prop := exists pre, pre <> [] /\ AdvBy pre cu cu'.

Lemma Adv_refl : forall cu, Adv cu cu.
Proof. intro cu. exists []. split; cbn [app blen]; [reflexivity|lia]. Qed.

Lemma AdvBy_trans : forall p q a b c, AdvBy p a b -> AdvBy q b c -> AdvBy (p ++ q) a c.
Proof.
  intros p q a b c [H1 H2] [H3 H4]. split.
  - rewrite H1, H3. now rewrite app_assoc.
  - rewrite H4, H2, blen_app. lia.
Qed.

Lemma Adv_trans : forall a b c, Adv a b -> Adv b c -> Adv a c.
Proof. intros a b c [p Hp] [q Hq]. exists (p ++ q). eapply AdvBy_trans; eauto. Qed.

Lemma SAdv_Adv : forall a b c, SAdv a b -> Adv b c -> SAdv a c.
Proof.
  intros a b c [p [Hn Hp]] [q Hq]. exists (p ++ q). split.
  - destruct p; [congruence|discriminate].
  - eapply AdvBy_trans; eauto.
Qed.

Lemma Adv_SAdv : forall a b c, Adv a b -> SAdv b c -> SAdv a c.
Proof.
  intros a b c [p Hp] [q [Hn Hq]]. exists (p ++ q). split.
  - destruct p; cbn [app]; [assumption|discriminate].
  - eapply AdvBy_trans; eauto.
Qed.

Lemma SAdv_is_Adv : forall a b, SAdv a b -> Adv a b.
Proof. intros a b [p [_ H]]. now exists p. Qed.

(* one character consumed *)
Lemma SAdv_one : forall pos c r, SAdv (mkCur pos (c :: r)) (mkCur (pos + ulen c) r).
Proof.
  intros. exists [c]. split; [discriminate|]. split; cbn [cur_rest cur_pos app blen]; [reflexivity|lia].
Qed.

Lemma SAdv_nonempty : forall cu cu', SAdv cu cu' -> cur_rest cu <> [].
Proof. intros cu cu' [p [Hn [H _]]]. rewrite H. destruct p; [congruence|discriminate]. Qed.

Lemma SAdv_shorter : forall cu cu', SAdv cu cu' -> (length (cur_rest cu') < length (cur_rest cu))%nat.
Proof.
  intros cu cu' [p [Hn [H _]]]. rewrite H, app_length. destruct p; [congruence|]. cbn [length]. lia.
Qed.

(* ------------------------------------------------------------------------------------------ *)
(* primitives                                                                                 *)
(* ------------------------------------------------------------------------------------------ *)

Lemma just_go_adv : forall s pos inp cu',
  just_go s pos inp = Some cu' -> exists pre, AdvBy pre (mkCur pos inp) cu' /\ length pre = length s.
Proof.
  induction s as [|a s IH]; intros pos inp cu' H; cbn [just_go] in H.
  - inversion H; subst. exists []. split; [|reflexivity]. split; cbn [cur_rest cur_pos app blen]; [reflexivity|lia].
  - destruct inp as [|c r]; [discriminate|]. destruct (cp c =? a); [|discriminate].
    destruct (IH _ _ _ H) as [pre [[H1 H2] Hl]]. cbn [cur_rest cur_pos] in H1, H2.
    exists (c :: pre). split; [|cbn [length]; now rewrite Hl].
    split; cbn [cur_rest cur_pos app blen]; [now rewrite H1|lia].
Qed.

Lemma just_adv : forall s cu cu', just s cu = Some cu' -> Adv cu cu'.
Proof.
  intros s [pos inp] cu' H. unfold just in H. cbn [cur_pos cur_rest] in H.
  destruct (just_go_adv _ _ _ _ H) as [pre [Hp _]]. now exists pre.
Qed.

Lemma just_sadv : forall s cu cu', s <> [] -> just s cu = Some cu' -> SAdv cu cu'.
Proof.
  intros s [pos inp] cu' Hs H. unfold just in H. cbn [cur_pos cur_rest] in H.
  destruct (just_go_adv _ _ _ _ H) as [pre [Hp Hl]]. exists pre. split; [|assumption].
  destruct pre; [|discriminate]. destruct s; [congruence|discriminate].
Qed.

Lemma skip_while_go_adv : forall p inp pos, Adv (mkCur pos inp) (skip_while_go p pos inp).
Proof.
  induction inp as [|c r IH]; intro pos; cbn [skip_while_go].
  - apply Adv_refl.
  - destruct (p c); [|apply Adv_refl].
    eapply Adv_trans; [apply SAdv_is_Adv, SAdv_one|apply IH].
Qed.

Lemma skip_while_adv : forall p cu, Adv cu (skip_while p cu).
Proof. intros p [pos inp]. apply skip_while_go_adv. Qed.

Lemma many1_sadv : forall p cu cu', many1 p cu = Some cu' -> SAdv cu cu'.
Proof.
  intros p [pos inp] cu' H. unfold many1 in H. cbn [cur_rest cur_pos] in H.
  destruct inp as [|c r]; [discriminate|]. destruct (p c); [|discriminate]. inversion H; subst.
  eapply SAdv_Adv; [apply SAdv_one|apply skip_while_adv].
Qed.

Lemma newline_sadv : forall cu cu', newline cu = Some cu' -> SAdv cu cu'.
Proof.
  intros [pos inp] cu' H. unfold newline in H. cbn [cur_rest cur_pos] in H.
  destruct inp as [|c r]; [discriminate|].
  destruct (cp c =? 13).
  - destruct r as [|c2 r2].
    + inversion H; subst. apply SAdv_one.
    + destruct (cp c2 =? 10); inversion H; subst; [|apply SAdv_one].
      eapply SAdv_Adv; [apply SAdv_one|apply SAdv_is_Adv, SAdv_one].
  - destruct (c_newline c); [|discriminate]. inversion H; subst. apply SAdv_one.
Qed.

(* the structural `newlines` is `newline` repeated *)
Lemma newlines_unfold : forall cu,
  newlines cu = match newline cu with Some cu' => newlines cu' | None => cu end.
Proof.
  intros [pos inp]. unfold newlines, newline. cbn [cur_pos cur_rest].
  destruct inp as [|c r]; cbn [newlines_go]; [reflexivity|].
  destruct (cp c =? 13).
  - destruct r as [|c2 r2]; cbn [cur_pos cur_rest]; [reflexivity|].
    destruct (cp c2 =? 10); reflexivity.
  - destruct (c_newline c); reflexivity.
Qed.

Lemma newlines_go_adv : forall n inp pos, (length inp <= n)%nat -> Adv (mkCur pos inp) (newlines_go pos inp).
Proof.
  induction n as [|n IH]; intros inp pos Hn.
  - destruct inp; [|cbn [length] in Hn; lia]. cbn [newlines_go]. apply Adv_refl.
  - destruct inp as [|c r]; cbn [newlines_go]; [apply Adv_refl|]. cbn [length] in Hn.
    destruct (cp c =? 13).
    + destruct r as [|c2 r2].
      * eapply Adv_trans; [apply SAdv_is_Adv, SAdv_one|]. apply IH. cbn [length]. lia.
      * destruct (cp c2 =? 10).
        -- eapply Adv_trans; [apply SAdv_is_Adv, SAdv_one|].
           eapply Adv_trans; [apply SAdv_is_Adv, SAdv_one|]. apply IH. cbn [length] in *. lia.
        -- eapply Adv_trans; [apply SAdv_is_Adv, SAdv_one|]. apply IH. lia.
    + destruct (c_newline c); [|apply Adv_refl].
      eapply Adv_trans; [apply SAdv_is_Adv, SAdv_one|]. apply IH. lia.
Qed.

Lemma newlines_adv : forall cu, Adv cu (newlines cu).
Proof. intros [pos inp]. unfold newlines. cbn [cur_pos cur_rest]. eapply newlines_go_adv. apply le_n. Qed.

Lemma int10_sadv : forall cu cu', int10 cu = Some cu' -> SAdv cu cu'.
Proof.
  intros [pos inp] cu' H. unfold int10 in H. cbn [cur_rest cur_pos] in H.
  destruct inp as [|c r].
  - apply just_sadv in H; [assumption|discriminate].
  - destruct (c_digit c && negb (cp c =? 48)).
    + inversion H; subst. eapply SAdv_Adv; [apply SAdv_one|apply skip_while_adv].
    + apply just_sadv in H; [assumption|discriminate].
Qed.

Lemma ident_sadv : forall cu cu', ident cu = Some cu' -> SAdv cu cu'.
Proof.
  intros [pos inp] cu' H. unfold ident in H. cbn [cur_rest cur_pos] in H.
  destruct inp as [|c r]; [discriminate|]. destruct (c_ident_start c); [|discriminate].
  inversion H; subst. eapply SAdv_Adv; [apply SAdv_one|apply skip_while_adv].
Qed.

Lemma comment_body_go_adv : forall inp pos, Adv (mkCur pos inp) (comment_body_go pos inp).
Proof.
  induction inp as [|c r IH]; intro pos; cbn [comment_body_go]; [apply Adv_refl|].
  destruct (at_endline (c :: r)); [apply Adv_refl|].
  eapply Adv_trans; [apply SAdv_is_Adv, SAdv_one|apply IH].
Qed.

Lemma multi_line_body_go_adv : forall inp pos, Adv (mkCur pos inp) (multi_line_body_go pos inp).
Proof.
  induction inp as [|c r IH]; intro pos; cbn [multi_line_body_go]; [apply Adv_refl|].
  destruct (just_go [42; 47] pos (c :: r)); [apply Adv_refl|].
  eapply Adv_trans; [apply SAdv_is_Adv, SAdv_one|apply IH].
Qed.

(* ------------------------------------------------------------------------------------------ *)
(* token parsers consume at least one character                                               *)
(* ------------------------------------------------------------------------------------------ *)

Definition Consuming (p : KParser) : Prop := forall cu k cu', p cu = Some (k, cu') -> SAdv cu cu'.

Lemma to_kind_inv : forall k r k' cu', to_kind k r = Some (k', cu') -> r = Some cu' /\ k' = k.
Proof. intros k [c|] k' cu' H; cbn in H; [inversion H; subst; auto|discriminate]. Qed.

Lemma whitespace_consuming : forall T, Consuming (whitespace_parser T).
Proof.
  intros T cu k cu' H. unfold whitespace_parser in H. apply to_kind_inv in H as [H _].
  eapply many1_sadv; eassumption.
Qed.

Lemma linebreak_consuming : Consuming linebreak_parser.
Proof.
  intros cu k cu' H. unfold linebreak_parser in H.
  destruct (newline cu) as [c1|] eqn:E; [|discriminate]. inversion H; subst.
  eapply SAdv_Adv; [eapply newline_sadv; eassumption|apply newlines_adv].
Qed.

Lemma single_line_consuming : Consuming single_line_comment.
Proof.
  intros cu k cu' H. unfold single_line_comment in H.
  destruct (just [47; 47] cu) as [c1|] eqn:E; [|discriminate].
  destruct (at_endline _); [|discriminate]. inversion H; subst.
  eapply SAdv_Adv; [eapply just_sadv; [|eassumption]; discriminate|].
  destruct c1 as [p1 r1]. apply comment_body_go_adv.
Qed.

Lemma multi_line_consuming : Consuming multi_line_comment.
Proof.
  intros cu k cu' H. unfold multi_line_comment in H.
  destruct (just [47; 42] cu) as [c1|] eqn:E; [|discriminate].
  apply to_kind_inv in H as [H _].
  eapply SAdv_Adv; [eapply just_sadv; [|eassumption]; discriminate|].
  eapply Adv_trans; [|eapply just_adv; eassumption].
  destruct c1 as [p1 r1]. apply multi_line_body_go_adv.
Qed.

Lemma or_else_consuming : forall p q, Consuming p -> Consuming q -> Consuming (or_else p q).
Proof.
  intros p q Hp Hq cu k cu' H. unfold or_else in H.
  destruct (p cu) as [[k1 c1]|] eqn:E.
  - inversion H; subst. eapply Hp; eassumption.
  - eapply Hq; eassumption.
Qed.

Lemma comment_consuming : Consuming comment_parser.
Proof. apply or_else_consuming; [apply single_line_consuming|apply multi_line_consuming]. Qed.

Lemma string_consuming : Consuming string_parser.
Proof.
  intros cu k cu' H. unfold string_parser in H.
  destruct (just [34] cu) as [c1|] eqn:E; [|discriminate].
  apply to_kind_inv in H as [H _].
  eapply SAdv_Adv; [eapply just_sadv; [|eassumption]; discriminate|].
  eapply Adv_trans; [apply skip_while_adv|eapply just_adv; eassumption].
Qed.

Lemma float_consuming : Consuming float_parser.
Proof.
  intros cu k cu' H. unfold float_parser in H.
  destruct (int10 cu) as [c1|] eqn:E1; [|discriminate].
  destruct (just [46] c1) as [c2|] eqn:E2; [|discriminate].
  destruct (digits10 c2) as [c3|] eqn:E3; [|discriminate].
  destruct (float_lookahead _); [|discriminate]. inversion H; subst.
  eapply SAdv_Adv; [eapply int10_sadv; eassumption|].
  eapply Adv_trans; [eapply just_adv; eassumption|].
  apply SAdv_is_Adv. eapply many1_sadv. exact E3.
Qed.

Lemma number_consuming : Consuming number_parser.
Proof.
  apply or_else_consuming; [apply float_consuming|].
  intros cu k cu' H. apply to_kind_inv in H as [H _]. eapply int10_sadv; eassumption.
Qed.

(* a table of just(s).to(k) whose strings are all non-empty *)
Definition table_ok (t : list (list N * TokenKind)) : bool :=
  forallb (fun e => match fst e with [] => false | _ => true end) t.

Lemma first_just_consuming : forall t, table_ok t = true -> Consuming (first_just t).
Proof.
  induction t as [|[s k0] t IH]; intros Hok cu k cu' H; cbn [first_just] in H; [discriminate|].
  cbn [table_ok forallb fst] in Hok. apply andb_prop in Hok as [Hs Ht].
  destruct (just s cu) as [c1|] eqn:E.
  - inversion H; subst. eapply just_sadv; [|eassumption]. destruct s; [discriminate|discriminate].
  - eapply IH; eassumption.
Qed.

Lemma identifier_consuming : forall T, Consuming (identifier_parser T).
Proof.
  intros T cu k cu' H. unfold identifier_parser in H.
  destruct (ident cu) as [c1|] eqn:E; [|discriminate]. inversion H; subst.
  eapply ident_sadv; eassumption.
Qed.

Definition tables_ok (T : LexTables) : bool :=
  table_ok (t_operators T) && table_ok (t_punctuation T).

Lemma run_rule_consuming : forall T r, tables_ok T = true -> Consuming (run_rule T r).
Proof.
  intros T r Hok. unfold tables_ok in Hok. apply andb_prop in Hok as [Ho Hp].
  destruct r; cbn [run_rule].
  - apply comment_consuming.
  - apply identifier_consuming.
  - apply linebreak_consuming.
  - apply number_consuming.
  - apply first_just_consuming; assumption.
  - apply first_just_consuming; assumption.
  - apply string_consuming.
  - apply whitespace_consuming.
Qed.

Lemma choice_consuming : forall ps, Forall Consuming ps -> Consuming (choice ps).
Proof.
  induction ps as [|p ps IH]; intros HF cu k cu' H; cbn [choice] in H; [discriminate|].
  inversion HF as [|p0 ps0 Hp Hps]; subst.
  destruct (p cu) as [[k1 c1]|] eqn:E.
  - inversion H; subst. eapply Hp; eassumption.
  - eapply IH; eassumption.
Qed.

Lemma token_parser_consuming : forall T, tables_ok T = true -> Consuming (token_parser T).
Proof.
  intros T Hok. unfold token_parser. apply choice_consuming.
  apply Forall_forall. intros p Hin. apply in_map_iff in Hin as [r [<- _]].
  now apply run_rule_consuming.
Qed.

Lemma error_token_consuming : Consuming error_token.
Proof.
  intros [pos inp] k cu' H. unfold error_token in H. cbn [cur_rest cur_pos] in H.
  destruct inp as [|c r]; [discriminate|]. inversion H; subst. apply SAdv_one.
Qed.

(* the item parser of the repetition *)
Definition item (T : LexTables) : KParser := or_else (token_parser T) error_token.

Lemma item_consuming : forall T, tables_ok T = true -> Consuming (item T).
Proof.
  intros T Hok. apply or_else_consuming; [now apply token_parser_consuming|apply error_token_consuming].
Qed.

(* the error token makes the item parser succeed on every non-empty input *)
Lemma item_some : forall T cu, cur_rest cu <> [] -> exists k cu', item T cu = Some (k, cu').
Proof.
  intros T [pos inp] Hne. unfold item, or_else.
  destruct (token_parser T (mkCur pos inp)) as [[k c]|]; [eauto|].
  unfold error_token. cbn [cur_rest cur_pos] in *. destruct inp; [congruence|eauto].
Qed.

(* ------------------------------------------------------------------------------------------ *)
(* kinds: no parser produces Eof                                                              *)
(* ------------------------------------------------------------------------------------------ *)

Definition not_eof (k : TokenKind) : bool := match k with KEof => false | _ => true end.

Definition kinds_ok (T : LexTables) : bool :=
  forallb (fun e => not_eof (snd e)) (t_operators T) &&
  forallb (fun e => not_eof (snd e)) (t_punctuation T) &&
  forallb (fun e => not_eof (snd e)) (t_keywords T) &&
  not_eof (t_ident_default T).

Definition NoEof (p : KParser) : Prop := forall cu k cu', p cu = Some (k, cu') -> not_eof k = true.

Lemma first_just_noeof : forall t, forallb (fun e => not_eof (snd e)) t = true -> NoEof (first_just t).
Proof.
  induction t as [|[s k0] t IH]; intros Hok cu k cu' H; cbn [first_just] in H; [discriminate|].
  cbn [forallb snd] in Hok. apply andb_prop in Hok as [Hk Ht].
  destruct (just s cu); [inversion H; subst; assumption|eapply IH; eassumption].
Qed.

Lemma keyword_kind_noeof : forall t d txt,
  forallb (fun e => not_eof (snd e)) t = true -> not_eof d = true -> not_eof (keyword_kind t d txt) = true.
Proof.
  induction t as [|[s k0] t IH]; intros d txt Hok Hd; cbn [keyword_kind]; [assumption|].
  cbn [forallb snd] in Hok. apply andb_prop in Hok as [Hk Ht].
  destruct (list_N_eqb s txt); [assumption|now apply IH].
Qed.

Lemma or_else_noeof : forall p q, NoEof p -> NoEof q -> NoEof (or_else p q).
Proof.
  intros p q Hp Hq cu k cu' H. unfold or_else in H.
  destruct (p cu) as [[k1 c1]|] eqn:E.
  - inversion H; subst. eapply Hp; eassumption.
  - eapply Hq; eassumption.
Qed.

Lemma run_rule_noeof : forall T r, kinds_ok T = true -> NoEof (run_rule T r).
Proof.
  intros T r Hok. unfold kinds_ok in Hok.
  apply andb_prop in Hok as [Hok Hd]. apply andb_prop in Hok as [Hok Hk]. apply andb_prop in Hok as [Ho Hp].
  destruct r; cbn [run_rule].
  - apply or_else_noeof; intros cu k cu' H.
    + unfold single_line_comment in H. destruct (just _ cu); [|discriminate].
      destruct (at_endline _); [|discriminate]. now inversion H.
    + unfold multi_line_comment in H. destruct (just _ cu); [|discriminate].
      apply to_kind_inv in H as [_ ->]. reflexivity.
  - intros cu k cu' H. unfold identifier_parser in H. destruct (ident cu); [|discriminate].
    inversion H; subst. now apply keyword_kind_noeof.
  - intros cu k cu' H. unfold linebreak_parser in H. destruct (newline cu); [|discriminate]. now inversion H.
  - apply or_else_noeof; intros cu k cu' H.
    + unfold float_parser in H. destruct (int10 cu); [|discriminate]. destruct (just _ _); [|discriminate].
      destruct (digits10 _); [|discriminate]. destruct (float_lookahead _); [|discriminate]. now inversion H.
    + apply to_kind_inv in H as [_ ->]. reflexivity.
  - now apply first_just_noeof.
  - now apply first_just_noeof.
  - intros cu k cu' H. unfold string_parser in H. destruct (just _ cu); [|discriminate].
    apply to_kind_inv in H as [_ ->]. reflexivity.
  - intros cu k cu' H. unfold whitespace_parser in H. apply to_kind_inv in H as [_ ->]. reflexivity.
Qed.

Lemma choice_noeof : forall ps, Forall NoEof ps -> NoEof (choice ps).
Proof.
  induction ps as [|p ps IH]; intros HF cu k cu' H; cbn [choice] in H; [discriminate|].
  inversion HF as [|p0 ps0 Hp Hps]; subst. destruct (p cu) as [[k1 c1]|] eqn:E.
  - inversion H; subst. eapply Hp; eassumption.
  - eapply IH; eassumption.
Qed.

Lemma item_noeof : forall T, kinds_ok T = true -> NoEof (item T).
Proof.
  intros T Hok. apply or_else_noeof.
  - unfold token_parser. apply choice_noeof. apply Forall_forall. intros p Hin.
    apply in_map_iff in Hin as [r [<- _]]. now apply run_rule_noeof.
  - intros cu k cu' H. unfold error_token in H. destruct (cur_rest cu); [discriminate|]. now inversion H.
Qed.

(* ------------------------------------------------------------------------------------------ *)
(* tiling                                                                                     *)
(* ------------------------------------------------------------------------------------------ *)

(* `toks` cut the text `inp`, which starts at byte `pos`, into consecutive non-empty pieces *)
Inductive Tiles : N -> Input -> list Token -> Prop :=
  | Tiles_nil : forall pos, Tiles pos [] []
  | Tiles_cons : forall pos pre rest k toks,
      pre <> [] -> not_eof k = true ->
      Tiles (pos + blen pre) rest toks ->
      Tiles pos (pre ++ rest) (mkTok k pos (blen pre) :: toks).

Lemma lex_loop_tiles : forall T, tables_ok T = true -> kinds_ok T = true ->
  forall fuel cu, (length (cur_rest cu) < fuel)%nat ->
  exists toks, lex_loop fuel T cu = LexOk toks /\ Tiles (cur_pos cu) (cur_rest cu) toks.
Proof.
  intros T Hok Hk. induction fuel as [|f IH]; intros cu Hf; [lia|].
  cbn [lex_loop]. fold (item T).
  destruct (item T cu) as [[k cu']|] eqn:E.
  - pose proof (item_consuming T Hok _ _ _ E) as HS.
    pose proof (item_noeof T Hk _ _ _ E) as HK.
    pose proof (SAdv_shorter _ _ HS) as Hlen.
    destruct (IH cu') as [toks [Hl Ht]]; [lia|]. rewrite Hl.
    destruct HS as [pre [Hne [Hr Hp]]].
    exists (mkTok k (cur_pos cu) (cur_pos cu' - cur_pos cu) :: toks). split; [reflexivity|].
    rewrite Hr. replace (cur_pos cu' - cur_pos cu) with (blen pre) by lia.
    apply Tiles_cons; [assumption|assumption|]. now rewrite <- Hp.
  - destruct (cur_rest cu) as [|c r] eqn:Er.
    + exists []. split; [reflexivity|constructor].
    + destruct (item_some T cu) as [k [cu' E']]; [rewrite Er; discriminate|]. congruence.
Qed.

(* ------------------------------------------------------------------------------------------ *)
(* split_projection_float_tokens keeps the tiling                                             *)
(* ------------------------------------------------------------------------------------------ *)

Lemma split_once_dot_spec : forall txt h t,
  split_once_dot txt = Some (h, t) -> exists d, cp d = 46 /\ txt = h ++ d :: t.
Proof.
  induction txt as [|c r IH]; intros h t H; cbn [split_once_dot] in H; [discriminate|].
  destruct (N.eqb_spec (cp c) 46) as [Hc|Hc].
  - inversion H; subst. exists c. split; [assumption|reflexivity].
  - destruct (split_once_dot r) as [[h' t']|] eqn:E; [|discriminate]. inversion H; subst.
    destruct (IH _ _ eq_refl) as [d [Hd ->]]. exists d. split; [assumption|reflexivity].
Qed.

Lemma is_digit_only_nonempty : forall s, is_digit_only s = true -> s <> [].
Proof. intros [|c s] H; [discriminate|discriminate]. Qed.

Lemma split_go_tiles : forall done inp toks, Tiles (blen done) inp toks ->
  forall prev, Tiles (blen done) inp (split_go prev toks (done ++ inp)).
Proof.
  intros done inp toks H. remember (blen done) as pos eqn:Hpos. revert done Hpos.
  induction H as [pos|pos pre rest k toks Hne Hk Ht IH]; intros done Hpos prev; cbn [split_go].
  - constructor.
  - assert (Hrec : forall prev', Tiles (pos + blen pre) rest (split_go prev' toks (done ++ pre ++ rest))).
    { intro prev'. specialize (IH (done ++ pre)). rewrite <- app_assoc in IH. apply IH. rewrite blen_app. lia. }
    destruct (maybe_split prev (mkTok k pos (blen pre)) (done ++ pre ++ rest)) as [[hl tl]|] eqn:E.
    + unfold maybe_split in E.
      destruct prev as [p|]; [|discriminate]. destruct (tk_kind p); try discriminate.
      destruct (tk_end p =? tk_start _); [|discriminate].
      cbn [tk_kind] in E. destruct k; try discriminate.
      subst pos. rewrite tk_text_at in E.
      destruct (split_once_dot pre) as [[h t]|] eqn:Es; [|discriminate].
      destruct (is_digit_only h && is_digit_only t) eqn:Ed; [|discriminate].
      apply andb_prop in Ed as [Hh Htl]. inversion E; subst hl tl.
      destruct (split_once_dot_spec _ _ _ Es) as [d [Hd ->]].
      assert (Hu : ulen d = 1). { unfold ulen. rewrite Hd. reflexivity. }
      cbn [tk_start].
      replace ((h ++ d :: t) ++ rest) with (h ++ ([d] ++ (t ++ rest))) by (rewrite <- !app_assoc; reflexivity).
      apply Tiles_cons; [now apply is_digit_only_nonempty|reflexivity|].
      replace 1 with (blen [d]) by (cbn [blen]; lia).
      apply Tiles_cons; [discriminate|reflexivity|].
      replace (blen done + blen h + blen [d]) with (blen done + blen h + blen [d] + 0) by lia.
      replace (blen done + blen h + blen [d] + 0) with (blen done + blen h + blen [d]) by lia.
      apply Tiles_cons; [now apply is_digit_only_nonempty|reflexivity|].
      specialize (Hrec (Some (mkTok KInt (blen done + blen h + blen [d]) (blen t)))).
      replace (blen done + blen h + blen [d] + blen t) with (blen done + blen (h ++ d :: t)).
      2:{ rewrite blen_app. cbn [blen]. lia. }
      replace (done ++ (h ++ d :: t) ++ rest) with (done ++ h ++ [d] ++ t ++ rest) in Hrec
        by (rewrite <- !app_assoc; reflexivity).
      replace (blen done + blen h + 1) with (blen done + blen h + blen [d]) by (cbn [blen]; lia).
      exact Hrec.
    + apply Tiles_cons; [assumption|assumption|apply Hrec].
Qed.

(* ------------------------------------------------------------------------------------------ *)
(* the readable clauses of C13_tiling, derived from Tiles                                     *)
(* ------------------------------------------------------------------------------------------ *)

(* each token starts where the previous one ends; the first starts at pos *)
Fixpoint contiguous (pos : N) (toks : list Token) : Prop :=
  match toks with
  | [] => True
  | t :: r => tk_start t = pos /\ contiguous (tk_end t) r
  end.

(* byte offset `off` is the boundary between two characters of s (or its start / end):
   what str::is_char_boundary(off) tests *)
Definition char_boundary (s : Input) (off : N) : Prop := exists k, off = blen (firstn k s).

Definition eof_token (s : Input) : Token := mkTok KEof (blen s) 0.

Lemma Tiles_contiguous : forall pos inp toks, Tiles pos inp toks ->
  contiguous pos (toks ++ [mkTok KEof (pos + blen inp) 0]).
Proof.
  induction 1 as [pos|pos pre rest k toks Hne Hk Ht IH]; cbn [app contiguous tk_start blen].
  - split; [lia|exact I].
  - split; [reflexivity|]. unfold tk_end. cbn [tk_start tk_len].
    rewrite blen_app. replace (pos + (blen pre + blen rest)) with (pos + blen pre + blen rest) by lia. exact IH.
Qed.

Lemma Tiles_body : forall pos inp toks, Tiles pos inp toks ->
  Forall (fun t => 0 < tk_len t /\ tk_kind t <> KEof) toks.
Proof.
  induction 1 as [pos|pos pre rest k toks Hne Hk Ht IH]; constructor; [|assumption].
  cbn [tk_len tk_kind]. split; [now apply blen_nonempty|]. intro; subst; discriminate.
Qed.

Lemma char_boundary_app : forall a b, char_boundary (a ++ b) (blen a).
Proof.
  intros a b. exists (length a). rewrite firstn_app, Nat.sub_diag, firstn_all. cbn [firstn]. now rewrite app_nil_r.
Qed.

Lemma Tiles_boundaries : forall done inp toks, Tiles (blen done) inp toks ->
  Forall (fun t => char_boundary (done ++ inp) (tk_start t) /\ char_boundary (done ++ inp) (tk_end t)) toks.
Proof.
  intros done inp toks H. remember (blen done) as pos eqn:Hpos. revert done Hpos.
  induction H as [pos|pos pre rest k toks Hne Hk Ht IH]; intros done Hpos; constructor.
  - unfold tk_end. cbn [tk_start tk_len]. subst pos. split.
    + apply char_boundary_app.
    + rewrite <- blen_app, app_assoc. apply char_boundary_app.
  - specialize (IH (done ++ pre)). rewrite <- app_assoc in IH. apply IH. rewrite blen_app. lia.
Qed.

Lemma Tiles_texts : forall done inp toks, Tiles (blen done) inp toks ->
  concat (map (tk_text (done ++ inp)) toks) = inp.
Proof.
  intros done inp toks H. remember (blen done) as pos eqn:Hpos. revert done Hpos.
  induction H as [pos|pos pre rest k toks Hne Hk Ht IH]; intros done Hpos; cbn [map concat]; [reflexivity|].
  subst pos. rewrite tk_text_at. f_equal.
  specialize (IH (done ++ pre)). rewrite <- app_assoc in IH. apply IH. rewrite blen_app. lia.
Qed.

Lemma tk_text_eof : forall s, tk_text s (eof_token s) = [].
Proof.
  intro s. unfold tk_text, eof_token. cbn [tk_start tk_len].
  destruct (drop_bytes (blen s) s) as [|c r]; cbn [take_bytes]; [reflexivity|].
  pose proof (ulen_pos c). destruct (N.ltb_spec 0 (ulen c)); [reflexivity|lia].
Qed.

(* contiguity gives order and non-overlap *)
Lemma contiguous_le : forall toks pos j, contiguous pos toks -> (j < length toks)%nat ->
  pos <= tk_start (nth j toks (mkTok KEof 0 0)).
Proof.
  induction toks as [|t r IH]; intros pos j Hc Hj; cbn [length] in Hj; [lia|].
  cbn [contiguous] in Hc. destruct Hc as [Hs Hc]. destruct j as [|j]; cbn [nth]; [lia|].
  specialize (IH _ j Hc). unfold tk_end in IH. lia.
Qed.

Lemma contiguous_ordered : forall toks pos i j, contiguous pos toks -> (i < j < length toks)%nat ->
  tk_end (nth i toks (mkTok KEof 0 0)) <= tk_start (nth j toks (mkTok KEof 0 0)).
Proof.
  induction toks as [|t r IH]; intros pos i j Hc Hij; cbn [length] in Hij; [lia|].
  cbn [contiguous] in Hc. destruct Hc as [Hs Hc].
  destruct j as [|j]; [lia|]. destruct i as [|i]; cbn [nth].
  - apply (contiguous_le r _ j Hc). lia.
  - apply (IH _ i j Hc). lia.
Qed.

(* the full statement of C13_tiling *)
Definition tiling (s : Input) (toks : list Token) : Prop :=
  exists body,
    toks = body ++ [eof_token s] /\
    contiguous 0 toks /\
    Forall (fun t => 0 < tk_len t /\ tk_kind t <> KEof) body /\
    Forall (fun t => char_boundary s (tk_start t) /\ char_boundary s (tk_end t)) toks /\
    (forall i j, (i < j < length toks)%nat ->
       tk_end (nth i toks (mkTok KEof 0 0)) <= tk_start (nth j toks (mkTok KEof 0 0))) /\
    concat (map (tk_text s) toks) = s.

Lemma Tiles_tiling : forall s body, Tiles 0 s body -> tiling s (body ++ [eof_token s]).
Proof.
  intros s body H. exists body.
  pose proof (Tiles_contiguous _ _ _ H) as Hc. rewrite N.add_0_l in Hc. fold (eof_token s) in Hc.
  split; [reflexivity|]. split; [assumption|]. split; [eapply Tiles_body; eassumption|].
  split.
  - apply Forall_app. split.
    + change 0 with (blen []) in H. apply (Tiles_boundaries [] s body H).
    + constructor; [|constructor]. unfold tk_end, eof_token. cbn [tk_start tk_len]. rewrite N.add_0_r.
      split; exists (length s); now rewrite firstn_all.
  - split; [intros i j Hij; eapply contiguous_ordered; eassumption|].
    rewrite map_app, concat_app. cbn [map concat]. rewrite tk_text_eof, !app_nil_r.
    change 0 with (blen []) in H. apply (Tiles_texts [] s body H).
Qed.

(* conversely, the readable clauses determine the cutting *)
Lemma blen_firstn_le : forall k s, blen (firstn k s) <= blen s.
Proof.
  induction k as [|k IH]; intros [|c s]; cbn [firstn blen]; try lia. specialize (IH s). lia.
Qed.

Lemma boundary_split : forall done inp n, 0 < n ->
  char_boundary (done ++ inp) (blen done + n) ->
  exists pre rest, inp = pre ++ rest /\ blen pre = n /\ pre <> [].
Proof.
  intros done inp n Hn [k Hk].
  destruct (Nat.le_gt_cases k (length done)) as [Hle|Hgt].
  - rewrite firstn_app in Hk. replace (k - length done)%nat with 0%nat in Hk by lia.
    cbn [firstn] in Hk. rewrite app_nil_r in Hk. pose proof (blen_firstn_le k done). lia.
  - rewrite firstn_app, firstn_all2, blen_app in Hk by lia.
    exists (firstn (k - length done) inp), (skipn (k - length done) inp).
    split; [now rewrite firstn_skipn|]. split; [lia|].
    intro E. rewrite E in Hk. cbn [blen] in Hk. lia.
Qed.

Lemma not_eof_iff : forall k, k <> KEof -> not_eof k = true.
Proof. intros k H. destruct k; try reflexivity. congruence. Qed.

Lemma clauses_Tiles : forall body done inp,
  contiguous (blen done) (body ++ [eof_token (done ++ inp)]) ->
  Forall (fun t => 0 < tk_len t /\ tk_kind t <> KEof) body ->
  Forall (fun t => char_boundary (done ++ inp) (tk_end t)) body ->
  Tiles (blen done) inp body.
Proof.
  induction body as [|t body IH]; intros done inp Hc Hb Hcb.
  - cbn [app contiguous eof_token tk_start] in Hc. destruct Hc as [Hc _].
    rewrite blen_app in Hc. destruct inp as [|c r]; [constructor|].
    assert (Hne : c :: r <> []) by discriminate. pose proof (blen_nonempty (c :: r) Hne). exfalso. lia.
  - cbn [app contiguous] in Hc. destruct Hc as [Hs Hc].
    inversion Hb as [|t0 b0 [Hlen Hkind] Hb']; subst.
    inversion Hcb as [|t1 b1 Hend Hcb']; subst.
    destruct t as [k st ln]. cbn [tk_start tk_len tk_kind] in *. unfold tk_end in *. cbn [tk_start tk_len] in *.
    subst st. destruct (boundary_split done inp ln Hlen Hend) as [pre [rest [-> [Hpl Hne]]]].
    subst ln. apply Tiles_cons; [assumption|now apply not_eof_iff|].
    rewrite <- blen_app. apply IH.
    + rewrite <- app_assoc, blen_app. exact Hc.
    + assumption.
    + rewrite <- app_assoc. exact Hcb'.
Qed.

Lemma tiling_Tiles : forall s body, tiling s (body ++ [eof_token s]) -> Tiles 0 s body.
Proof.
  intros s body [body' [Heq [Hc [Hb [Hcb _]]]]].
  apply app_inj_tail in Heq as [<- _].
  change 0 with (blen []). apply (clauses_Tiles body [] s).
  - exact Hc.
  - exact Hb.
  - apply Forall_app in Hcb as [Hcb _]. eapply Forall_impl; [|exact Hcb]. intros t [_ H]. exact H.
Qed.

Theorem tokenize_with_tiling : forall T, tables_ok T = true -> kinds_ok T = true ->
  forall s, exists toks, tokenize_with T s = TokOk toks /\ tiling s toks.
Proof.
  intros T Hok Hk s. unfold tokenize_with.
  destruct (lex_loop_tiles T Hok Hk (S (length s)) (mkCur 0 s)) as [toks [Hl Ht]]; [cbn [cur_rest]; lia|].
  rewrite Hl. cbn [cur_pos cur_rest] in Ht.
  eexists. split; [reflexivity|]. apply Tiles_tiling.
  unfold split_projection_float_tokens.
  change 0 with (blen []) in Ht. apply (split_go_tiles [] s toks Ht).
Qed.

Lemma the_tables_ok : tables_ok the_tables = true.
Proof. vm_compute. reflexivity. Qed.

Lemma the_kinds_ok : kinds_ok the_tables = true.
Proof. vm_compute. reflexivity. Qed.

Theorem tokenize_tiling : forall s, exists toks, tokenize s = TokOk toks /\ tiling s toks.
Proof. apply tokenize_with_tiling; [apply the_tables_ok|apply the_kinds_ok]. Qed.

(* re-splitting any tiling token list (not only the scanner's) gives a tiling token list *)
Theorem split_preserves_tiling : forall s body,
  Tiles 0 s body -> Tiles 0 s (split_projection_float_tokens body s).
Proof.
  intros s body H. unfold split_projection_float_tokens.
  change 0 with (blen []) in *. apply (split_go_tiles [] s body H).
Qed.

Theorem split_preserves_tiling_clauses : forall s body,
  tiling s (body ++ [eof_token s]) ->
  tiling s (split_projection_float_tokens body s ++ [eof_token s]).
Proof.
  intros s body H. apply Tiles_tiling, split_preserves_tiling, tiling_Tiles, H.
Qed.

(* fuel: the scanner consumes at least one character per token *)
Theorem lex_loop_total : forall s fuel, (length s < fuel)%nat ->
  exists toks, lex_loop fuel the_tables (mkCur 0 s) = LexOk toks.
Proof.
  intros s fuel Hf.
  destruct (lex_loop_tiles the_tables the_tables_ok the_kinds_ok fuel (mkCur 0 s)) as [toks [Hl _]]; [assumption|].
  eauto.
Qed.

Theorem tokenize_total : forall s, tokenize s <> TokOutOfFuel.
Proof.
  intro s. destruct (tokenize_tiling s) as [toks [H _]]. rewrite H. discriminate.
Qed.
