(* Lexer/Model.v — executable model of the mimium tokenizer and pre-parser.

   Transcribes crates/lib/mimium-lang/src/compiler/parser/{tokenizer.rs,token.rs,preparser.rs}.
   The tokenizer is a chumsky-0.11 grammar (PEG: ordered choice, greedy `repeated`, no backtracking
   into a repetition).  A parser here is a function `Input -> option Input` returning the rest of the
   input on success.  The declarative tables (token kinds, keywords, operators, punctuation,
   whitespace set, order of the top-level choice) come from Tables/LexerTables.v, regenerated from
   the Rust source on every run; every function transcribed by hand below is pinned by hash in
   translators/lexer_tables.py.

   Definitions only (lemmas: Lexer/Lemmas.v, Lexer/PreLemmas.v). *)
From Coq Require Import List NArith Bool Arith.
From Mimium Require Import Tables.LexerTables.
Import ListNotations.
Local Open Scope N_scope.

(* ------------------------------------------------------------------------------------------ *)
(* Characters                                                                                 *)
(* ------------------------------------------------------------------------------------------ *)

(* One `char` of the source as the grammar sees it: its code point and the answers of the
   character predicates the grammar asks.  The answers are *inputs* of the model (the harness
   reports what the real code sees); every theorem holds for arbitrary answers. *)
Record Ch : Set := mkCh {
  cp : N;                  (* code point *)
  c_newline : bool;        (* chumsky text::Char::is_newline for char *)
  c_ident_start : bool;    (* chumsky Char::is_ident_start  (unicode_ident::is_xid_start || '_') *)
  c_ident_cont : bool;     (* chumsky Char::is_ident_continue (unicode_ident::is_xid_continue) *)
  c_digit : bool;          (* char::is_digit(10)   (chumsky text::int / text::digits, radix 10) *)
  c_ascii_digit : bool     (* char::is_ascii_digit (split_projection_float_tokens) *)
}.

Definition Input : Set := list Ch.

(* char::len_utf8 *)
Definition len_utf8 (c : N) : N :=
  if c <? 128 then 1 else if c <? 2048 then 2 else if c <? 65536 then 3 else 4.

Definition ulen (c : Ch) : N := len_utf8 (cp c).

(* str::len of a piece of source: number of UTF-8 bytes *)
Fixpoint blen (s : Input) : N :=
  match s with
  | [] => 0
  | c :: r => ulen c + blen r
  end.

(* ------------------------------------------------------------------------------------------ *)
(* token.rs                                                                                   *)
(* ------------------------------------------------------------------------------------------ *)

(* pub struct Token { kind, start, length }  — start/length are byte offsets *)
Record Token : Set := mkTok { tk_kind : TokenKind; tk_start : N; tk_len : N }.

(* Token::end *)
Definition tk_end (t : Token) : N := tk_start t + tk_len t.

(* Token::is_trivia *)
Definition is_trivia (t : Token) : bool := is_trivia_kind (tk_kind t).

(* &source[a..]  for a on a character boundary (Rust panics otherwise; the model stops at the
   straddling character) *)
Fixpoint drop_bytes (n : N) (s : Input) : Input :=
  match s with
  | [] => []
  | c :: r => if n <? ulen c then s else drop_bytes (n - ulen c) r
  end.

(* &source[..n] *)
Fixpoint take_bytes (n : N) (s : Input) : Input :=
  match s with
  | [] => []
  | c :: r => if n <? ulen c then [] else c :: take_bytes (n - ulen c) r
  end.

(* Token::text : &source[self.start..self.end()] *)
Definition tk_text (source : Input) (t : Token) : Input :=
  take_bytes (tk_len t) (drop_bytes (tk_start t) source).

(* ------------------------------------------------------------------------------------------ *)
(* chumsky primitives used by tokenizer.rs                                                    *)
(* ------------------------------------------------------------------------------------------ *)

Definition Parser : Set := Input -> option Input.

(* just("...") / just('c'): the given code points, in order *)
Fixpoint just (s : list N) (inp : Input) : option Input :=
  match s with
  | [] => Some inp
  | a :: s' =>
    match inp with
    | c :: r => if cp c =? a then just s' r else None
    | [] => None
    end
  end.

(* any().filter(p).repeated()  /  one_of(..).repeated()  /  none_of(..).repeated():
   greedy, stops at the first character that does not satisfy p *)
Fixpoint skip_while (p : Ch -> bool) (inp : Input) : Input :=
  match inp with
  | c :: r => if p c then skip_while p r else inp
  | [] => []
  end.

(* any().filter(p).repeated().at_least(1) *)
Definition many1 (p : Ch -> bool) (inp : Input) : option Input :=
  match inp with
  | c :: r => if p c then Some (skip_while p r) else None
  | [] => None
  end.

(* chumsky text::newline():
     if peek().to_ascii() == Some(b'\r') { skip; if peek() == '\n' { skip }; Ok }
     else { c = next(); if c.is_newline() Ok else Err } *)
Definition newline (inp : Input) : option Input :=
  match inp with
  | [] => None
  | c :: r =>
    if cp c =? 13 then
      match r with
      | c2 :: r2 => if cp c2 =? 10 then Some r2 else Some r
      | [] => Some r
      end
    else if c_newline c then Some r else None
  end.

(* text::newline().repeated()  (structural form of
   `match newline inp with Some r => newlines r | None => inp end`, see Lemmas.newlines_unfold) *)
Fixpoint newlines (inp : Input) : Input :=
  match inp with
  | [] => []
  | c :: r =>
    if cp c =? 13 then
      match r with
      | c2 :: r2 => if cp c2 =? 10 then newlines r2 else newlines r
      | [] => newlines r
      end
    else if c_newline c then newlines r else inp
  end.

(* chumsky text::int(10):
     any().filter(|c| c.is_digit(10) && c != '0').then(any().filter(is_digit).repeated())
       .or(just('0')) *)
Definition int10 (inp : Input) : option Input :=
  match inp with
  | c :: r => if c_digit c && negb (cp c =? 48) then Some (skip_while c_digit r) else just [48] inp
  | [] => just [48] inp
  end.

(* chumsky text::digits(10): any().filter(is_digit).repeated().at_least(1) *)
Definition digits10 (inp : Input) : option Input := many1 c_digit inp.

(* chumsky text::ident() (unicode): any().filter(is_ident_start).then(any().filter(is_ident_continue).repeated()) *)
Definition ident (inp : Input) : option Input :=
  match inp with
  | c :: r => if c_ident_start c then Some (skip_while c_ident_cont r) else None
  | [] => None
  end.

(* the slice a parser consumed (`to_slice`): the prefix of inp before rest *)
Definition consumed (inp rest : Input) : Input :=
  firstn (length inp - length rest)%nat inp.

(* ------------------------------------------------------------------------------------------ *)
(* tokenizer.rs sub-parsers; a token parser returns the kind and the rest                     *)
(* ------------------------------------------------------------------------------------------ *)

Definition KParser : Set := Input -> option (TokenKind * Input).

Definition to_kind (k : TokenKind) (r : option Input) : option (TokenKind * Input) :=
  match r with Some rest => Some (k, rest) | None => None end.

(* the tables a tokenizer is built from (instantiated with LexerTables below) *)
Record LexTables : Set := mkTables {
  t_whitespace : list N;
  t_operators : list (list N * TokenKind);
  t_punctuation : list (list N * TokenKind);
  t_keywords : list (list N * TokenKind);
  t_ident_default : TokenKind;
  t_order : list Rule
}.

Definition mem_cp (c : N) (l : list N) : bool := existsb (N.eqb c) l.

(* whitespace_parser: one_of(" \t\r").repeated().at_least(1).to(Whitespace) *)
Definition whitespace_parser (T : LexTables) : KParser :=
  fun inp => to_kind KWhitespace (many1 (fun c => mem_cp (cp c) (t_whitespace T)) inp).

(* linebreak_parser: text::newline().repeated().at_least(1).to(LineBreak) *)
Definition linebreak_parser : KParser :=
  fun inp =>
    match newline inp with
    | Some r => Some (KLineBreak, newlines r)
    | None => None
    end.

(* comment_parser: `endline = text::newline().or(end())`; it is only used under not() and rewind(),
   i.e. as a test at the current position *)
Definition at_endline (inp : Input) : bool :=
  match newline inp with
  | Some _ => true
  | None => match inp with [] => true | _ => false end
  end.

(* any().and_is(endline.not()).repeated() *)
Fixpoint comment_body (inp : Input) : Input :=
  match inp with
  | [] => []
  | _ :: r => if at_endline inp then inp else comment_body r
  end.

(* just("//").ignore_then(<comment_body>).then_ignore(endline.rewind()).to(SingleLineComment) *)
Definition single_line_comment : KParser :=
  fun inp =>
    match just [47; 47] inp with
    | Some r =>
      let r' := comment_body r in
      if at_endline r' then Some (KSingleLineComment, r') else None
    | None => None
    end.

(* any().and_is(just("*/").not()).repeated() *)
Fixpoint multi_line_body (inp : Input) : Input :=
  match inp with
  | [] => []
  | _ :: r => match just [42; 47] inp with Some _ => inp | None => multi_line_body r end
  end.

(* just("/*").ignore_then(<multi_line_body>).then_ignore(just("*/")).to(MultiLineComment) *)
Definition multi_line_comment : KParser :=
  fun inp =>
    match just [47; 42] inp with
    | Some r => to_kind KMultiLineComment (just [42; 47] (multi_line_body r))
    | None => None
    end.

(* p.or(q) *)
Definition or_else (p q : KParser) : KParser :=
  fun inp => match p inp with Some x => Some x | None => q inp end.

(* comment_parser: single_line.or(multi_line) *)
Definition comment_parser : KParser := or_else single_line_comment multi_line_comment.

(* string_parser: none_of(DQUOTE).repeated().delimited_by(just(DQUOTE), just(DQUOTE)).to(Str),
   DQUOTE = the double-quote character, code point 34 *)
Definition string_parser : KParser :=
  fun inp =>
    match just [34] inp with
    | Some r => to_kind KStr (just [34] (skip_while (fun c => negb (cp c =? 34)) r))
    | None => None
    end.

(* just('.').not().ignored().or(end()).rewind() : a test at the current position *)
Definition float_lookahead (inp : Input) : bool :=
  match just [46] inp with
  | None => true
  | Some _ => match inp with [] => true | _ => false end
  end.

(* float = text::int(10).then_ignore(just('.')).then(text::digits(10)).then_ignore(<float_lookahead>).to(Float) *)
Definition float_parser : KParser :=
  fun inp =>
    match int10 inp with
    | Some r1 =>
      match just [46] r1 with
      | Some r2 =>
        match digits10 r2 with
        | Some r3 => if float_lookahead r3 then Some (KFloat, r3) else None
        | None => None
        end
      | None => None
      end
    | None => None
    end.

(* number_parser: float.or(int) *)
Definition number_parser : KParser :=
  or_else float_parser (fun inp => to_kind KInt (int10 inp)).

(* choice(( just(s1).to(k1), just(s2).to(k2), ... )) *)
Fixpoint first_just (table : list (list N * TokenKind)) (inp : Input) : option (TokenKind * Input) :=
  match table with
  | [] => None
  | (s, k) :: t =>
    match just s inp with
    | Some r => Some (k, r)
    | None => first_just t inp
    end
  end.

Definition operator_parser (T : LexTables) : KParser := first_just (t_operators T).
Definition punctuation_parser (T : LexTables) : KParser := first_just (t_punctuation T).

Fixpoint list_N_eqb (a b : list N) : bool :=
  match a, b with
  | [], [] => true
  | x :: a', y :: b' => (x =? y) && list_N_eqb a' b'
  | _, _ => false
  end.

(* match ident { "fn" => Function, ..., _ => Ident } *)
Fixpoint keyword_kind (table : list (list N * TokenKind)) (default : TokenKind) (text : list N) : TokenKind :=
  match table with
  | [] => default
  | (s, k) :: t => if list_N_eqb s text then k else keyword_kind t default text
  end.

(* identifier_parser: text::ident().to_slice().map(|ident| match ident {..}) *)
Definition identifier_parser (T : LexTables) : KParser :=
  fun inp =>
    match ident inp with
    | Some r => Some (keyword_kind (t_keywords T) (t_ident_default T) (map cp (consumed inp r)), r)
    | None => None
    end.

Definition run_rule (T : LexTables) (r : Rule) : KParser :=
  match r with
  | RComment => comment_parser
  | RLinebreak => linebreak_parser
  | RWhitespace => whitespace_parser T
  | RString => string_parser
  | RNumber => number_parser
  | RIdentifier => identifier_parser T
  | ROperator => operator_parser T
  | RPunctuation => punctuation_parser T
  end.

(* choice((p1, p2, ...)) *)
Fixpoint choice (ps : list KParser) : KParser :=
  fun inp =>
    match ps with
    | [] => None
    | p :: t => match p inp with Some x => Some x | None => choice t inp end
    end.

(* token_parser: choice((comment, linebreak, whitespace, string, number, identifier, operator, punctuation))
   — the order is the generated table t_order *)
Definition token_parser (T : LexTables) : KParser := choice (map (run_rule T) (t_order T)).

(* error_token = any().map_with(.. Token::new(Error, span.start, span.end - span.start)) *)
Definition error_token : KParser :=
  fun inp => match inp with _ :: r => Some (KError, r) | [] => None end.

(* ------------------------------------------------------------------------------------------ *)
(* tokenize                                                                                   *)
(* ------------------------------------------------------------------------------------------ *)

Inductive Lexed : Set :=
  | LexOk (toks : list Token)   (* parse(source) produced Some(tokens) *)
  | LexFail                     (* parse(source) produced None (then_ignore(end()) failed) *)
  | LexOutOfFuel.

(* token_parser().map_with(span).or(error_token).repeated().collect().then_ignore(end())
   `pos` is the byte offset of inp in the source (span.start); span.end - span.start is the number
   of bytes consumed. *)
Fixpoint lex_loop (fuel : nat) (T : LexTables) (pos : N) (inp : Input) : Lexed :=
  match fuel with
  | O => LexOutOfFuel
  | S f =>
    match or_else (token_parser T) error_token inp with
    | Some (k, rest) =>
      let n := blen inp - blen rest in
      match lex_loop f T (pos + n) rest with
      | LexOk l => LexOk (mkTok k pos n :: l)
      | e => e
      end
    | None =>
      (* repeated() stops at the first failure; then end() must match *)
      match inp with [] => LexOk [] | _ => LexFail end
    end
  end.

(* str::split_once('.') on a token text *)
Fixpoint split_once_dot (txt : Input) : option (Input * Input) :=
  match txt with
  | [] => None
  | c :: r =>
    if cp c =? 46 then Some ([], r)
    else match split_once_dot r with
         | Some (h, t) => Some (c :: h, t)
         | None => None
         end
  end.

(* |s: &str| !s.is_empty() && s.chars().all(|c| c.is_ascii_digit()) *)
Definition is_digit_only (s : Input) : bool :=
  match s with [] => false | _ => forallb c_ascii_digit s end.

(* the `maybe_split` value of split_projection_float_tokens; prev = result.last() *)
Definition maybe_split (prev : option Token) (token : Token) (source : Input) : option (N * N) :=
  match prev with
  | None => None
  | Some p =>
    match tk_kind p with
    | KDot =>
      if tk_end p =? tk_start token then
        match tk_kind token with
        | KFloat =>
          match split_once_dot (tk_text source token) with
          | Some (head, tail) =>
            if is_digit_only head && is_digit_only tail then Some (blen head, blen tail) else None
          | None => None
          end
        | _ => None
        end
      else None
    | _ => None
    end
  end.

(* the for_each of split_projection_float_tokens; `prev` is result.last() *)
Fixpoint split_go (prev : option Token) (tokens : list Token) (source : Input) : list Token :=
  match tokens with
  | [] => []
  | token :: rest =>
    match maybe_split prev token source with
    | Some (head_len, tail_len) =>
      let head := mkTok KInt (tk_start token) head_len in
      let dot := mkTok KDot (tk_start token + head_len) 1 in
      let tail := mkTok KInt (tk_start token + head_len + 1) tail_len in
      head :: dot :: tail :: split_go (Some tail) rest source
    | None => token :: split_go (Some token) rest source
    end
  end.

Definition split_projection_float_tokens (tokens : list Token) (source : Input) : list Token :=
  split_go None tokens source.

Inductive TokResult : Set :=
  | TokOk (toks : list Token)
  | TokOutOfFuel.

(* pub fn tokenize(source) *)
Definition tokenize_with (T : LexTables) (source : Input) : TokResult :=
  match lex_loop (S (length source)) T 0 source with
  | LexOk toks => TokOk (split_projection_float_tokens toks source ++ [mkTok KEof (blen source) 0])
  | LexFail => TokOk [mkTok KEof (blen source) 0]
  | LexOutOfFuel => TokOutOfFuel
  end.

Definition the_tables : LexTables :=
  mkTables whitespace_chars operator_table punctuation_table keyword_table ident_default_kind token_parser_order.

Definition tokenize (source : Input) : TokResult := tokenize_with the_tables source.

(* ------------------------------------------------------------------------------------------ *)
(* preparser.rs                                                                               *)
(* ------------------------------------------------------------------------------------------ *)

(* HashMap<usize, Vec<usize>> as an association list (order of keys is irrelevant to the Rust code) *)
Definition TriviaMap : Set := list (nat * list nat).

(* map.entry(k).or_default().append(&mut vs) *)
Fixpoint map_append (k : nat) (vs : list nat) (m : TriviaMap) : TriviaMap :=
  match m with
  | [] => [(k, vs)]
  | (k', l) :: r => if Nat.eqb k' k then (k', l ++ vs) :: r else (k', l) :: map_append k vs r
  end.

(* map.get(&k) *)
Fixpoint map_get (k : nat) (m : TriviaMap) : option (list nat) :=
  match m with
  | [] => None
  | (k', l) :: r => if Nat.eqb k' k then Some l else map_get k r
  end.

(* the local state of `preparse` *)
Record PreState : Set := mkPre {
  ps_token_indices : list nat;          (* result.token_indices *)
  ps_leading : TriviaMap;               (* result.leading_trivia_map *)
  ps_trailing : TriviaMap;              (* result.trailing_trivia_map *)
  ps_pending : list nat;                (* pending_trivia *)
  ps_last_was_linebreak : bool;
  ps_last_token_idx : option nat
}.

Definition pre_init : PreState := mkPre [] [] [] [] false None.

Definition is_eof (t : Token) : bool := match tk_kind t with KEof => true | _ => false end.
Definition is_linebreak (t : Token) : bool := match tk_kind t with KLineBreak => true | _ => false end.

(* body of `for (i, token) in tokens.iter().enumerate()` *)
Definition pre_step (st : PreState) (i : nat) (token : Token) : PreState :=
  if is_trivia token then
    let pending := ps_pending st ++ [i] in
    if is_linebreak token then
      match ps_last_token_idx st with
      | Some last_idx =>
        mkPre (ps_token_indices st) (ps_leading st) (map_append last_idx pending (ps_trailing st))
              [] true (ps_last_token_idx st)
      | None =>
        (* pending_trivia.clear() *)
        mkPre (ps_token_indices st) (ps_leading st) (ps_trailing st) [] true (ps_last_token_idx st)
      end
    else
      mkPre (ps_token_indices st) (ps_leading st) (ps_trailing st) pending false (ps_last_token_idx st)
  else if negb (is_eof token) then
    let current_idx := length (ps_token_indices st) in
    let st' :=
      match ps_pending st with
      | [] => st
      | _ =>
        if ps_last_was_linebreak st || (match ps_last_token_idx st with None => true | Some _ => false end) then
          mkPre (ps_token_indices st) (map_append current_idx (ps_pending st) (ps_leading st)) (ps_trailing st)
                [] (ps_last_was_linebreak st) (ps_last_token_idx st)
        else
          match ps_last_token_idx st with
          | Some last_idx =>
            mkPre (ps_token_indices st) (ps_leading st) (map_append last_idx (ps_pending st) (ps_trailing st))
                  [] (ps_last_was_linebreak st) (ps_last_token_idx st)
          | None => st
          end
      end in
    mkPre (ps_token_indices st' ++ [i]) (ps_leading st') (ps_trailing st') (ps_pending st')
          false (Some current_idx)
  else st.

Fixpoint pre_loop (st : PreState) (i : nat) (tokens : list Token) : PreState :=
  match tokens with
  | [] => st
  | t :: r => pre_loop (pre_step st i t) (S i) r
  end.

(* pub struct PreParsedTokens *)
Record PreParsed : Set := mkPP {
  pp_token_indices : list nat;
  pp_leading : TriviaMap;
  pp_trailing : TriviaMap
}.

(* "Handle any remaining trailing trivia" *)
Definition pre_finish (st : PreState) : PreParsed :=
  match ps_pending st with
  | [] => mkPP (ps_token_indices st) (ps_leading st) (ps_trailing st)
  | _ =>
    match ps_last_token_idx st with
    | Some last_idx =>
      mkPP (ps_token_indices st) (ps_leading st) (map_append last_idx (ps_pending st) (ps_trailing st))
    | None => mkPP (ps_token_indices st) (ps_leading st) (ps_trailing st)
    end
  end.

(* pub fn preparse(tokens) *)
Definition preparse (tokens : list Token) : PreParsed := pre_finish (pre_loop pre_init 0 tokens).

(* tokenize followed by preparse, for the driver *)
Definition lex_and_preparse (source : Input) : option (list Token * PreParsed) :=
  match tokenize source with
  | TokOk toks => Some (toks, preparse toks)
  | TokOutOfFuel => None
  end.
