(* Lexer/Model.v — executable model of the mimium tokenizer and pre-parser.

   Transcribes crates/lib/mimium-lang/src/compiler/parser/{tokenizer.rs,token.rs,preparser.rs}.
   The tokenizer is a chumsky-0.11 grammar (PEG: ordered choice, greedy `repeated`, no backtracking
   into a repetition).  A parser here is a function `Input -> option Input` returning the rest of the
   input on success.  The declarative tables (token kinds, keywords, operators, punctuation,
   whitespace set, order of the top-level choice) come from Tables/LexerTables.v, regenerated from
   the Rust source on every run; every function transcribed by hand below is pinned by hash in
   translators/lexer_tables.py.

   Definitions only (lemmas: Lexer/Lemmas.v, Lexer/PreLemmas.v). *)
From Coq Require Import List NArith Bool Arith.
From Mimium Require Import Tables.LexerTables.
Import ListNotations.
Local Open Scope N_scope.

(* ------------------------------------------------------------------------------------------ *)
(* Characters                                                                                 *)
(* ------------------------------------------------------------------------------------------ *)

(* One `char` of the source as the grammar sees it: its code point and the answers of the
   character predicates the grammar asks.  The answers are *inputs* of the model (the harness
   reports what the real code sees); every theorem holds for arbitrary answers. *)
Record Ch : Set := mkCh {
  cp : N;                  (* code point *)
  c_newline : bool;        (* chumsky text::Char::is_newline for char *)
  c_ident_start : bool;    (* chumsky Char::is_ident_start  (unicode_ident::is_xid_start || '_') *)
  c_ident_cont : bool;     (* chumsky Char::is_ident_continue (unicode_ident::is_xid_continue) *)
  c_digit : bool;          (* char::is_digit(10)   (chumsky text::int / text::digits, radix 10) *)
  c_ascii_digit : bool     (* char::is_ascii_digit (split_projection_float_tokens) *)
}.

Definition Input : Set := list Ch.

(* char::len_utf8 *)
Definition len_utf8 (c : N) : N :=
  if c <? 128 then 1 else if c <? 2048 then 2 else if c <? 65536 then 3 else 4.

Definition ulen (c : Ch) : N := len_utf8 (cp c).

(* str::len of a piece of source: number of UTF-8 bytes *)
Fixpoint blen (s : Input) : N :=
  match s with
  | [] => 0
  | c :: r => ulen c + blen r
  end.

(* ------------------------------------------------------------------------------------------ *)
(* token.rs                                                                                   *)
(* ------------------------------------------------------------------------------------------ *)

(* pub struct Token { kind, start, length }  — start/length are byte offsets *)
Record Token : Set := mkTok { tk_kind : TokenKind; tk_start : N; tk_len : N }.

(* Token::end *)
Definition tk_end (t : Token) : N := tk_start t + tk_len t.

(* Token::is_trivia *)
Definition is_trivia (t : Token) : bool := is_trivia_kind (tk_kind t).

(* &source[a..]  for a on a character boundary (Rust panics otherwise; the model stops at the
   straddling character) *)
Fixpoint drop_bytes (n : N) (s : Input) : Input :=
  match s with
  | [] => []
  | c :: r => if n <? ulen c then s else drop_bytes (n - ulen c) r
  end.

(* &source[..n] *)
Fixpoint take_bytes (n : N) (s : Input) : Input :=
  match s with
  | [] => []
  | c :: r => if n <? ulen c then [] else c :: take_bytes (n - ulen c) r
  end.

(* Token::text : &source[self.start..self.end()] *)
Definition tk_text (source : Input) (t : Token) : Input :=
  take_bytes (tk_len t) (drop_bytes (tk_start t) source).

(* ------------------------------------------------------------------------------------------ *)
(* chumsky primitives used by tokenizer.rs                                                    *)
(* ------------------------------------------------------------------------------------------ *)

(* chumsky's input cursor on a &str: byte offset + the characters not yet consumed *)
Record Cursor : Set := mkCur { cur_pos : N; cur_rest : Input }.

(* a parser returns the cursor after the match, or fails (the caller then rewinds) *)
Definition Parser : Set := Cursor -> option Cursor.

(* just("...") / just('c'): the given code points, in order *)
Fixpoint just_go (s : list N) (pos : N) (inp : Input) : option Cursor :=
  match s with
  | [] => Some (mkCur pos inp)
  | a :: s' =>
    match inp with
    | c :: r => if cp c =? a then just_go s' (pos + ulen c) r else None
    | [] => None
    end
  end.
Definition just (s : list N) : Parser := fun cu => just_go s (cur_pos cu) (cur_rest cu).

(* any().filter(p).repeated()  /  one_of(..).repeated()  /  none_of(..).repeated():
   greedy, stops at the first character that does not satisfy p; never fails *)
Fixpoint skip_while_go (p : Ch -> bool) (pos : N) (inp : Input) : Cursor :=
  match inp with
  | c :: r => if p c then skip_while_go p (pos + ulen c) r else mkCur pos inp
  | [] => mkCur pos []
  end.
Definition skip_while (p : Ch -> bool) (cu : Cursor) : Cursor := skip_while_go p (cur_pos cu) (cur_rest cu).

(* any().filter(p).repeated().at_least(1) *)
Definition many1 (p : Ch -> bool) : Parser :=
  fun cu =>
    match cur_rest cu with
    | c :: r => if p c then Some (skip_while p (mkCur (cur_pos cu + ulen c) r)) else None
    | [] => None
    end.

(* chumsky text::newline():
     if peek().to_ascii() == Some(b'\r') { skip; if peek() == '\n' { skip }; Ok }
     else { c = next(); if c.is_newline() Ok else Err } *)
Definition newline : Parser :=
  fun cu =>
    match cur_rest cu with
    | [] => None
    | c :: r =>
      let pos1 := cur_pos cu + ulen c in
      if cp c =? 13 then
        match r with
        | c2 :: r2 => if cp c2 =? 10 then Some (mkCur (pos1 + ulen c2) r2) else Some (mkCur pos1 r)
        | [] => Some (mkCur pos1 r)
        end
      else if c_newline c then Some (mkCur pos1 r) else None
    end.

(* text::newline().repeated()  — structural form of
   `match newline cu with Some cu' => newlines cu' | None => cu end` (Lemmas.newlines_unfold) *)
Fixpoint newlines_go (pos : N) (inp : Input) : Cursor :=
  match inp with
  | [] => mkCur pos []
  | c :: r =>
    let pos1 := pos + ulen c in
    if cp c =? 13 then
      match r with
      | c2 :: r2 => if cp c2 =? 10 then newlines_go (pos1 + ulen c2) r2 else newlines_go pos1 r
      | [] => newlines_go pos1 r
      end
    else if c_newline c then newlines_go pos1 r else mkCur pos inp
  end.
Definition newlines (cu : Cursor) : Cursor := newlines_go (cur_pos cu) (cur_rest cu).

(* chumsky text::int(10):
     any().filter(|c| c.is_digit(10) && c != '0').then(any().filter(is_digit).repeated())
       .or(just('0')) *)
Definition int10 : Parser :=
  fun cu =>
    match cur_rest cu with
    | c :: r =>
      if c_digit c && negb (cp c =? 48) then Some (skip_while c_digit (mkCur (cur_pos cu + ulen c) r))
      else just [48] cu
    | [] => just [48] cu
    end.

(* chumsky text::digits(10): any().filter(is_digit).repeated().at_least(1) *)
Definition digits10 : Parser := many1 c_digit.

(* chumsky text::ident() (unicode):
     any().filter(is_ident_start).then(any().filter(is_ident_continue).repeated()) *)
Definition ident : Parser :=
  fun cu =>
    match cur_rest cu with
    | c :: r => if c_ident_start c then Some (skip_while c_ident_cont (mkCur (cur_pos cu + ulen c) r)) else None
    | [] => None
    end.

(* `to_slice`: the text between two cursors *)
Definition slice_between (cu cu' : Cursor) : Input :=
  take_bytes (cur_pos cu' - cur_pos cu) (cur_rest cu).

(* ------------------------------------------------------------------------------------------ *)
(* tokenizer.rs sub-parsers; a token parser returns the kind and the cursor after the token   *)
(* ------------------------------------------------------------------------------------------ *)

Definition KParser : Set := Cursor -> option (TokenKind * Cursor).

(* p.to(kind) *)
Definition to_kind (k : TokenKind) (r : option Cursor) : option (TokenKind * Cursor) :=
  match r with Some cu => Some (k, cu) | None => None end.

(* the tables a tokenizer is built from (instantiated with LexerTables below) *)
Record LexTables : Set := mkTables {
  t_whitespace : list N;
  t_operators : list (list N * TokenKind);
  t_punctuation : list (list N * TokenKind);
  t_keywords : list (list N * TokenKind);
  t_ident_default : TokenKind;
  t_order : list Rule
}.

Definition mem_cp (c : N) (l : list N) : bool := existsb (N.eqb c) l.

(* whitespace_parser: one_of(" \t\r").repeated().at_least(1).to(Whitespace) *)
Definition whitespace_parser (T : LexTables) : KParser :=
  fun cu => to_kind KWhitespace (many1 (fun c => mem_cp (cp c) (t_whitespace T)) cu).

(* linebreak_parser: text::newline().repeated().at_least(1).to(LineBreak) *)
Definition linebreak_parser : KParser :=
  fun cu =>
    match newline cu with
    | Some cu' => Some (KLineBreak, newlines cu')
    | None => None
    end.

(* comment_parser: `endline = text::newline().or(end())`; it is only used under not() and rewind(),
   i.e. as a test at the current position *)
Definition at_endline (inp : Input) : bool :=
  match newline (mkCur 0 inp) with
  | Some _ => true
  | None => match inp with [] => true | _ => false end
  end.

(* any().and_is(endline.not()).repeated() *)
Fixpoint comment_body_go (pos : N) (inp : Input) : Cursor :=
  match inp with
  | [] => mkCur pos []
  | c :: r => if at_endline inp then mkCur pos inp else comment_body_go (pos + ulen c) r
  end.

(* just("//").ignore_then(<comment_body>).then_ignore(endline.rewind()).to(SingleLineComment) *)
Definition single_line_comment : KParser :=
  fun cu =>
    match just [47; 47] cu with
    | Some cu1 =>
      let cu2 := comment_body_go (cur_pos cu1) (cur_rest cu1) in
      if at_endline (cur_rest cu2) then Some (KSingleLineComment, cu2) else None
    | None => None
    end.

(* any().and_is(just("*/").not()).repeated() *)
Fixpoint multi_line_body_go (pos : N) (inp : Input) : Cursor :=
  match inp with
  | [] => mkCur pos []
  | c :: r =>
    match just_go [42; 47] pos inp with
    | Some _ => mkCur pos inp
    | None => multi_line_body_go (pos + ulen c) r
    end
  end.

(* just("/*").ignore_then(<multi_line_body>).then_ignore(just("*/")).to(MultiLineComment) *)
Definition multi_line_comment : KParser :=
  fun cu =>
    match just [47; 42] cu with
    | Some cu1 => to_kind KMultiLineComment (just [42; 47] (multi_line_body_go (cur_pos cu1) (cur_rest cu1)))
    | None => None
    end.

(* p.or(q) *)
Definition or_else (p q : KParser) : KParser :=
  fun cu => match p cu with Some x => Some x | None => q cu end.

(* comment_parser: single_line.or(multi_line) *)
Definition comment_parser : KParser := or_else single_line_comment multi_line_comment.

(* string_parser: none_of(DQUOTE).repeated().delimited_by(just(DQUOTE), just(DQUOTE)).to(Str),
   DQUOTE = the double-quote character, code point 34 *)
Definition string_parser : KParser :=
  fun cu =>
    match just [34] cu with
    | Some cu1 => to_kind KStr (just [34] (skip_while (fun c => negb (cp c =? 34)) cu1))
    | None => None
    end.

(* just('.').not().ignored().or(end()).rewind() : a test at the current position *)
Definition float_lookahead (inp : Input) : bool :=
  match just_go [46] 0 inp with
  | None => true
  | Some _ => match inp with [] => true | _ => false end
  end.

(* float = text::int(10).then_ignore(just('.')).then(text::digits(10)).then_ignore(<float_lookahead>).to(Float) *)
Definition float_parser : KParser :=
  fun cu =>
    match int10 cu with
    | Some cu1 =>
      match just [46] cu1 with
      | Some cu2 =>
        match digits10 cu2 with
        | Some cu3 => if float_lookahead (cur_rest cu3) then Some (KFloat, cu3) else None
        | None => None
        end
      | None => None
      end
    | None => None
    end.

(* number_parser: float.or(int) *)
Definition number_parser : KParser :=
  or_else float_parser (fun cu => to_kind KInt (int10 cu)).

(* choice(( just(s1).to(k1), just(s2).to(k2), ... )) *)
Fixpoint first_just (table : list (list N * TokenKind)) (cu : Cursor) : option (TokenKind * Cursor) :=
  match table with
  | [] => None
  | (s, k) :: t =>
    match just s cu with
    | Some cu' => Some (k, cu')
    | None => first_just t cu
    end
  end.

Definition operator_parser (T : LexTables) : KParser := first_just (t_operators T).
Definition punctuation_parser (T : LexTables) : KParser := first_just (t_punctuation T).

Fixpoint list_N_eqb (a b : list N) : bool :=
  match a, b with
  | [], [] => true
  | x :: a', y :: b' => (x =? y) && list_N_eqb a' b'
  | _, _ => false
  end.

(* match ident { "fn" => Function, ..., _ => Ident } *)
Fixpoint keyword_kind (table : list (list N * TokenKind)) (default : TokenKind) (text : list N) : TokenKind :=
  match table with
  | [] => default
  | (s, k) :: t => if list_N_eqb s text then k else keyword_kind t default text
  end.

(* identifier_parser: text::ident().to_slice().map(|ident| match ident {..}) *)
Definition identifier_parser (T : LexTables) : KParser :=
  fun cu =>
    match ident cu with
    | Some cu' => Some (keyword_kind (t_keywords T) (t_ident_default T) (map cp (slice_between cu cu')), cu')
    | None => None
    end.

Definition run_rule (T : LexTables) (r : Rule) : KParser :=
  match r with
  | RComment => comment_parser
  | RLinebreak => linebreak_parser
  | RWhitespace => whitespace_parser T
  | RString => string_parser
  | RNumber => number_parser
  | RIdentifier => identifier_parser T
  | ROperator => operator_parser T
  | RPunctuation => punctuation_parser T
  end.

(* choice((p1, p2, ...)) *)
Fixpoint choice (ps : list KParser) : KParser :=
  fun cu =>
    match ps with
    | [] => None
    | p :: t => match p cu with Some x => Some x | None => choice t cu end
    end.

(* token_parser: choice((comment, linebreak, whitespace, string, number, identifier, operator, punctuation))
   — the order is the generated table t_order *)
Definition token_parser (T : LexTables) : KParser := choice (map (run_rule T) (t_order T)).

(* error_token = any().map_with(.. Token::new(Error, span.start, span.end - span.start)) *)
Definition error_token : KParser :=
  fun cu =>
    match cur_rest cu with
    | c :: r => Some (KError, mkCur (cur_pos cu + ulen c) r)
    | [] => None
    end.

(* ------------------------------------------------------------------------------------------ *)
(* tokenize                                                                                   *)
(* ------------------------------------------------------------------------------------------ *)

Inductive Lexed : Set :=
  | LexOk (toks : list Token)   (* parse(source) produced Some(tokens) *)
  | LexFail                     (* parse(source) produced None (then_ignore(end()) failed) *)
  | LexOutOfFuel.

(* token_parser().map_with(|kind, e| Token::new(kind, span.start, span.end - span.start))
     .or(error_token).repeated().collect().then_ignore(end()) *)
Fixpoint lex_loop (fuel : nat) (T : LexTables) (cu : Cursor) : Lexed :=
  match fuel with
  | O => LexOutOfFuel
  | S f =>
    match or_else (token_parser T) error_token cu with
    | Some (k, cu') =>
      match lex_loop f T cu' with
      | LexOk l => LexOk (mkTok k (cur_pos cu) (cur_pos cu' - cur_pos cu) :: l)
      | e => e
      end
    | None =>
      (* repeated() stops at the first failure; then end() must match *)
      match cur_rest cu with [] => LexOk [] | _ => LexFail end
    end
  end.

(* str::split_once('.') on a token text *)
Fixpoint split_once_dot (txt : Input) : option (Input * Input) :=
  match txt with
  | [] => None
  | c :: r =>
    if cp c =? 46 then Some ([], r)
    else match split_once_dot r with
         | Some (h, t) => Some (c :: h, t)
         | None => None
         end
  end.

(* |s: &str| !s.is_empty() && s.chars().all(|c| c.is_ascii_digit()) *)
Definition is_digit_only (s : Input) : bool :=
  match s with [] => false | _ => forallb c_ascii_digit s end.

(* the `maybe_split` value of split_projection_float_tokens; prev = result.last() *)
Definition maybe_split (prev : option Token) (token : Token) (source : Input) : option (N * N) :=
  match prev with
  | None => None
  | Some p =>
    match tk_kind p with
    | KDot =>
      if tk_end p =? tk_start token then
        match tk_kind token with
        | KFloat =>
          match split_once_dot (tk_text source token) with
          | Some (head, tail) =>
            if is_digit_only head && is_digit_only tail then Some (blen head, blen tail) else None
          | None => None
          end
        | _ => None
        end
      else None
    | _ => None
    end
  end.

(* the for_each of split_projection_float_tokens; `prev` is result.last() *)
Fixpoint split_go (prev : option Token) (tokens : list Token) (source : Input) : list Token :=
  match tokens with
  | [] => []
  | token :: rest =>
    match maybe_split prev token source with
    | Some (head_len, tail_len) =>
      let head := mkTok KInt (tk_start token) head_len in
      let dot := mkTok KDot (tk_start token + head_len) 1 in
      let tail := mkTok KInt (tk_start token + head_len + 1) tail_len in
      head :: dot :: tail :: split_go (Some tail) rest source
    | None => token :: split_go (Some token) rest source
    end
  end.

Definition split_projection_float_tokens (tokens : list Token) (source : Input) : list Token :=
  split_go None tokens source.

Inductive TokResult : Set :=
  | TokOk (toks : list Token)
  | TokOutOfFuel.

(* pub fn tokenize(source) *)
Definition tokenize_with (T : LexTables) (source : Input) : TokResult :=
  match lex_loop (S (length source)) T (mkCur 0 source) with
  | LexOk toks => TokOk (split_projection_float_tokens toks source ++ [mkTok KEof (blen source) 0])
  | LexFail => TokOk [mkTok KEof (blen source) 0]
  | LexOutOfFuel => TokOutOfFuel
  end.

Definition the_tables : LexTables :=
  mkTables whitespace_chars operator_table punctuation_table keyword_table ident_default_kind token_parser_order.

Definition tokenize (source : Input) : TokResult := tokenize_with the_tables source.

(* ------------------------------------------------------------------------------------------ *)
(* preparser.rs                                                                               *)
(* ------------------------------------------------------------------------------------------ *)

(* token indices are N (binary) so that the extracted model is fast; HashMap<usize, Vec<usize>> is an
   association list (the Rust code never depends on the order of keys) *)
Definition TriviaMap : Set := list (N * list N).

(* map.entry(k).or_default().append(&mut vs) *)
Fixpoint map_append (k : N) (vs : list N) (m : TriviaMap) : TriviaMap :=
  match m with
  | [] => [(k, vs)]
  | (k', l) :: r => if k' =? k then (k', l ++ vs) :: r else (k', l) :: map_append k vs r
  end.

(* map.get(&k) *)
Fixpoint map_get (k : N) (m : TriviaMap) : option (list N) :=
  match m with
  | [] => None
  | (k', l) :: r => if k' =? k then Some l else map_get k r
  end.

(* the local state of `preparse` *)
Record PreState : Set := mkPre {
  ps_token_indices : list N;            (* result.token_indices *)
  ps_leading : TriviaMap;               (* result.leading_trivia_map *)
  ps_trailing : TriviaMap;              (* result.trailing_trivia_map *)
  ps_pending : list N;                  (* pending_trivia *)
  ps_last_was_linebreak : bool;
  ps_last_token_idx : option N
}.

Definition pre_init : PreState := mkPre [] [] [] [] false None.

Definition is_eof (t : Token) : bool := match tk_kind t with KEof => true | _ => false end.
Definition is_linebreak (t : Token) : bool := match tk_kind t with KLineBreak => true | _ => false end.

(* body of `for (i, token) in tokens.iter().enumerate()` *)
Definition pre_step (st : PreState) (i : N) (token : Token) : PreState :=
  if is_trivia token then
    let pending := ps_pending st ++ [i] in
    if is_linebreak token then
      match ps_last_token_idx st with
      | Some last_idx =>
        mkPre (ps_token_indices st) (ps_leading st) (map_append last_idx pending (ps_trailing st))
              [] true (ps_last_token_idx st)
      | None =>
        (* pending_trivia.clear() *)
        mkPre (ps_token_indices st) (ps_leading st) (ps_trailing st) [] true (ps_last_token_idx st)
      end
    else
      mkPre (ps_token_indices st) (ps_leading st) (ps_trailing st) pending false (ps_last_token_idx st)
  else if negb (is_eof token) then
    let current_idx := N.of_nat (length (ps_token_indices st)) in
    let st' :=
      match ps_pending st with
      | [] => st
      | _ =>
        if ps_last_was_linebreak st || (match ps_last_token_idx st with None => true | Some _ => false end) then
          mkPre (ps_token_indices st) (map_append current_idx (ps_pending st) (ps_leading st)) (ps_trailing st)
                [] (ps_last_was_linebreak st) (ps_last_token_idx st)
        else
          match ps_last_token_idx st with
          | Some last_idx =>
            mkPre (ps_token_indices st) (ps_leading st) (map_append last_idx (ps_pending st) (ps_trailing st))
                  [] (ps_last_was_linebreak st) (ps_last_token_idx st)
          | None => st
          end
      end in
    mkPre (ps_token_indices st' ++ [i]) (ps_leading st') (ps_trailing st') (ps_pending st')
          false (Some current_idx)
  else st.

Fixpoint pre_loop (st : PreState) (i : N) (tokens : list Token) : PreState :=
  match tokens with
  | [] => st
  | t :: r => pre_loop (pre_step st i t) (N.succ i) r
  end.

(* pub struct PreParsedTokens *)
Record PreParsed : Set := mkPP {
  pp_token_indices : list N;
  pp_leading : TriviaMap;
  pp_trailing : TriviaMap
}.

(* "Handle any remaining trailing trivia" *)
Definition pre_finish (st : PreState) : PreParsed :=
  match ps_pending st with
  | [] => mkPP (ps_token_indices st) (ps_leading st) (ps_trailing st)
  | _ =>
    match ps_last_token_idx st with
    | Some last_idx =>
      mkPP (ps_token_indices st) (ps_leading st) (map_append last_idx (ps_pending st) (ps_trailing st))
    | None => mkPP (ps_token_indices st) (ps_leading st) (ps_trailing st)
    end
  end.

(* pub fn preparse(tokens) *)
Definition preparse (tokens : list Token) : PreParsed := pre_finish (pre_loop pre_init 0 tokens).

(* tokenize followed by preparse, for the driver *)
Definition lex_and_preparse (source : Input) : option (list Token * PreParsed) :=
  match tokenize source with
  | TokOk toks => Some (toks, preparse toks)
  | TokOutOfFuel => None
  end.
