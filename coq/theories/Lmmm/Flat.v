(* Lmmm/Flat.v — the abstraction function of C02: the flat state words a reference state tree denotes.
   Flat order = evaluation order; a function instance = [self cell (iff the body uses self)] ++ body;
   a delay cell = the ring `ring_words n hist ridx`. *)
From Coq Require Import List ZArith NArith Bool Lia Arith.
From Mimium Require Import StateTree.Model Lmmm.Syntax Lmmm.Ref Lmmm.Compile Lmmm.Machine Lmmm.Wf Lmmm.Spec Lmmm.Base Lmmm.Prims.
Import ListNotations.

Definition cell_mem (c : cellv) : Z := match c with CMem z => z | _ => 0%Z end.
Definition cell_self (c : cellv) : Z := match c with CSelf z => z | _ => 0%Z end.
Definition cell_hist (c : cellv) : list Z := match c with CDelay h _ => h | _ => [] end.
Definition cell_ridx (c : cellv) : Z := match c with CDelay _ r => r | _ => 0%Z end.

Definition flat_fn := stree -> list Z.

Section FlatExpr.
  Variable ffe : ident -> option flat_fn.

  Fixpoint flat_expr (e : expr) (s : stree) {struct e} : list Z :=
    match e with
    | ELit _ | EVar _ | ENow | ESr | ESelf => []
    | EBin _ a b => flat_expr a (kid s 0) ++ flat_expr b (kid s 1)
    | ENeg a => flat_expr a (kid s 0)
    | ELet _ a b => flat_expr a (kid s 0) ++ flat_expr b (kid s 1)
    | EIf c t e' => flat_expr c (kid s 0) ++ flat_expr t (kid s 1) ++ flat_expr e' (kid s 2)
    | ECall f args =>
        (fix go (l : list expr) (i : nat) : list Z :=
           match l with
           | [] => []
           | a :: l' => flat_expr a (kid s i) ++ go l' (S i)
           end) args O ++
        match ffe f with Some ff => ff (kid s (length args)) | None => [] end
    | EMem a => flat_expr a (kid s 0) ++ [cell_mem (cell_of s)]
    | EDelay n a t =>
        flat_expr a (kid s 0) ++ flat_expr t (kid s 1) ++
        ring_words n (cell_hist (cell_of s)) (cell_ridx (cell_of s))
    end.
End FlatExpr.

Definition flat_args (ffe : ident -> option flat_fn) (s : stree) : list expr -> nat -> list Z :=
  fix go (l : list expr) (i : nat) : list Z :=
    match l with
    | [] => []
    | a :: l' => flat_expr ffe a (kid s i) ++ go l' (S i)
    end.

Lemma flat_call_eq : forall ffe f args s,
  flat_expr ffe (ECall f args) s =
  flat_args ffe s args O ++ match ffe f with Some ff => ff (kid s (length args)) | None => [] end.
Proof. reflexivity. Qed.

Lemma flat_args_cons : forall ffe s a l i,
  flat_args ffe s (a :: l) i = flat_expr ffe a (kid s i) ++ flat_args ffe s l (S i).
Proof. reflexivity. Qed.

Fixpoint flat_list (ffe : ident -> option flat_fn) (l : list expr) (ks : list stree) : list Z :=
  match l, ks with
  | a :: l', k :: ks' => flat_expr ffe a k ++ flat_list ffe l' ks'
  | _, _ => []
  end.

Definition flat_fun (ffe : ident -> option flat_fn) (fd : fundef) : flat_fn :=
  fun inst =>
    (if uses_self (f_body fd) then [cell_self (cell_of inst)] else []) ++
    flat_expr ffe (f_body fd) (kid inst 0).

(* built like ref_fenv / mach_fenv *)
Fixpoint flat_fenv (fs_rev : list fundef) : ident -> option flat_fn :=
  match fs_rev with
  | [] => fun _ => None
  | fd :: earlier =>
      let fe := flat_fenv earlier in
      fun name => if N.eqb name (f_name fd) then Some (flat_fun fe fd) else fe name
  end.

(* the words of a whole dsp state tree *)
Definition flat_prog (p : program) (s : stree) : list Z :=
  let ffe := flat_fenv (rev (p_funs p)) in
  flat_args ffe s (map snd (p_lets p)) O ++ flat_args ffe s (p_outs p) (length (p_lets p)).

Lemma kid_nth : forall c ks i, kid (ST c ks) i = nth i ks st0.
Proof. reflexivity. Qed.

Lemma flat_args_kids : forall ffe args c0 pre ks post, length ks = length args ->
  flat_args ffe (ST c0 (pre ++ ks ++ post)) args (length pre) = flat_list ffe args ks.
Proof.
  intros ffe. induction args as [|a args IH]; intros c0 pre ks post Hl.
  - destruct ks; reflexivity.
  - destruct ks as [|k ks]; [discriminate|]. cbn [length] in Hl. rewrite flat_args_cons. cbn [flat_list].
    f_equal.
    + rewrite kid_nth, app_nth2 by lia. rewrite Nat.sub_diag. reflexivity.
    + specialize (IH c0 (pre ++ [k]) ks post ltac:(lia)).
      rewrite app_length in IH. cbn [length] in IH. rewrite Nat.add_1_r in IH. rewrite <- IH.
      rewrite <- app_assoc. reflexivity.
Qed.

(* a fresh tree denotes zeros *)
Lemma kid_st0 : forall i, kid st0 i = st0.
Proof. intros [|i]; reflexivity. Qed.

Definition all_zero (l : list Z) : Prop := Forall (fun z => z = 0%Z) l.

Lemma all_zero_app : forall a b, all_zero a -> all_zero b -> all_zero (a ++ b).
Proof. intros a b Ha Hb. apply Forall_app. auto. Qed.

Lemma all_zero_repeat : forall n, all_zero (repeat 0%Z n).
Proof. induction n; constructor; auto. Qed.

Lemma ring_words_zero : forall n, all_zero (ring_words n [] 0%Z).
Proof.
  intros n. unfold ring_words. destruct (N.eqb n 0); [repeat constructor|].
  constructor; [reflexivity|]. constructor; [apply Zmod_0_l|]. apply all_zero_repeat.
Qed.

Section FlatZero.
  Variable ffe : ident -> option flat_fn.
  Hypothesis Hz : forall f ff, ffe f = Some ff -> all_zero (ff st0).

  Lemma flat_expr_zero : forall e, all_zero (flat_expr ffe e st0).
  Proof.
    induction e as [z|x| | | |op a b IHa IHb|a IHa|x a b IHa IHb|cn t e' IHc IHt IHe|f args IHargs|a IHa|n a t IHa IHt]
      using expr_ind'; cbn [flat_expr]; rewrite ?kid_st0; try (constructor; fail); auto using all_zero_app.
    - fold (flat_args ffe st0). apply all_zero_app.
      + generalize O. induction IHargs as [|a args Ha _ IH]; intros i; [constructor|].
        rewrite flat_args_cons, kid_st0. apply all_zero_app; auto.
      + destruct (ffe f) as [ff|] eqn:Hf; [|constructor]. apply (Hz f ff Hf).
    - apply all_zero_app; [exact IHa|]. repeat constructor.
    - apply all_zero_app; [exact IHa|]. apply all_zero_app; [exact IHt|]. apply ring_words_zero.
  Qed.

  Lemma flat_args_zero : forall args i, all_zero (flat_args ffe st0 args i).
  Proof.
    induction args as [|a args IH]; intros i; [constructor|].
    rewrite flat_args_cons, kid_st0. apply all_zero_app; [apply flat_expr_zero|apply IH].
  Qed.
End FlatZero.

Lemma flat_fenv_zero : forall l f ff, flat_fenv l f = Some ff -> all_zero (ff st0).
Proof.
  induction l as [|fd l IH]; intros f ff Hf; cbn [flat_fenv] in Hf; [discriminate|].
  destruct (N.eqb f (f_name fd)); [|apply (IH f ff Hf)].
  inversion Hf; subst. unfold flat_fun. apply all_zero_app.
  - destruct (uses_self (f_body fd)); repeat constructor.
  - rewrite kid_st0. apply flat_expr_zero. exact IH.
Qed.

Lemma flat_prog_zero : forall p, all_zero (flat_prog p st0).
Proof.
  intros p. unfold flat_prog. apply all_zero_app; apply flat_args_zero; apply flat_fenv_zero.
Qed.
