(* Lmmm/Compile.v — the state-offset bookkeeping of mirgen.rs for the λmmm fragment.
   Mirrors (per function context) ContextData{next_state_offset: Option<u64>, push_sum: u64}:
     consume_and_insert_pushoffset, emit_fncall, try_make_delay, make_uniop_intrinsic(MEM),
     Expr::Feed, Expr::If (then-cells followed by else-cells; each arm skips the other's cells), the Lambda arm's trailing
     PopStateOffset(push_sum) and ReturnFeed.
   The produced `code` is the expression annotated with the PushStateOffset instructions the real
   compiler emits; `skel`s are the published state skeleton. *)
From Coq Require Import List ZArith NArith Bool.
From Mimium Require Import StateTree.Model Lmmm.Syntax.
Import ListNotations.
Local Open Scope N_scope.

Inductive code : Type :=
| KLit (z : Z)
| KVar (x : ident)
| KNow
| KSr
| KSelf
| KBin (op : binop) (a b : code)
| KNeg (a : code)
| KLet (x : ident) (a b : code)
| KIf (c : code) (push0 : option N) (t : code) (pusht : option N) (padt : N)
      (e : code) (pushe : option N)
      (* push0: pending offset flushed before JmpIf; pusht/pushe: flush at the end of each arm;
         padt: PushStateOffset(else_size) appended to the then arm *)
| KCall (f : ident) (args : list code) (push : option N) (* push emitted after the args, before Call *)
| KMem (a : code) (push : option N)
| KDelay (n : N) (a t : code) (push : option N).

(* (next_state_offset, push_sum) *)
Definition cctx : Type := (option N * N)%type.

(* consume_and_insert_pushoffset: returns the emitted push and the new context *)
Definition consume (c : cctx) : option N * cctx :=
  match c with
  | (Some o, ps) => (Some o, (None, ps + o))
  | (None, ps) => (None, (None, ps))
  end.

Definition skels_size (ss : list skel) : N := sumN (map size ss).

(* compiled function: published skeleton children; a function is stateful iff non-empty *)
Record cfun := mkCFun {
  c_name : ident;
  c_params : list ident;
  c_feed : bool;        (* uses self: GetState at entry, ReturnFeed at exit *)
  c_body : code;
  c_pop : N;            (* PopStateOffset(push_sum) at exit, emitted iff > 0 *)
  c_skel : list skel }.

Definition cenv := ident -> option cfun.

Section CompileExpr.
  Variable fe : cenv.

  Fixpoint compile_expr (e : expr) (c : cctx) {struct e} : option (code * list skel * cctx) :=
    match e with
    | ELit z => Some (KLit z, [], c)
    | EVar x => Some (KVar x, [], c)
    | ENow => Some (KNow, [], c)
    | ESr => Some (KSr, [], c)
    | ESelf => Some (KSelf, [], c)
    | EBin op a b =>
        match compile_expr a c with
        | Some (ka, sa, c1) =>
            match compile_expr b c1 with
            | Some (kb, sb, c2) => Some (KBin op ka kb, sa ++ sb, c2)
            | None => None
            end
        | None => None
        end
    | ENeg a =>
        match compile_expr a c with
        | Some (ka, sa, c1) => Some (KNeg ka, sa, c1)
        | None => None
        end
    | ELet x a b =>
        match compile_expr a c with
        | Some (ka, sa, c1) =>
            match compile_expr b c1 with
            | Some (kb, sb, c2) => Some (KLet x ka kb, sa ++ sb, c2)
            | None => None
            end
        | None => None
        end
    | EIf cnd t e' =>
        match compile_expr cnd c with
        | Some (kc, sc, c1) =>
            (* flush the pending offset before branching; both arms start from (None, ps0) *)
            let '(push0, (_, ps0)) := consume c1 in
            match compile_expr t (None, ps0) with
            | Some (kt, st, c2) =>
                let '(pusht, _) := consume c2 in
                let ts := skels_size st in
                (* the else arm owns the cells after the then arm's cells: it starts by skipping them *)
                match compile_expr e' ((if 0 <? ts then Some ts else None), ps0) with
                | Some (ke, se, c3) =>
                    let '(pushe, _) := consume c3 in
                    let es := skels_size se in
                    Some (KIf kc push0 kt pusht es ke pushe, sc ++ st ++ se, (None, ps0 + ts + es))
                | None => None
                end
            | None => None
            end
        | None => None
        end
    | ECall f args =>
        match (fix go (l : list expr) (c : cctx) : option (list code * list skel * cctx) :=
                 match l with
                 | [] => Some ([], [], c)
                 | a :: l' =>
                     match compile_expr a c with
                     | Some (ka, sa, c1) =>
                         match go l' c1 with
                         | Some (ks, ss, c2) => Some (ka :: ks, sa ++ ss, c2)
                         | None => None
                         end
                     | None => None
                     end
                 end) args c with
        | Some (ks, ss, c1) =>
            match fe f with
            | Some cf =>
                if Nat.eqb (length (c_params cf)) (length args) then
                  match c_skel cf with
                  | [] => Some (KCall f ks None, ss, c1)                 (* stateless callee *)
                  | sk =>
                      let '(push, (_, ps)) := consume c1 in
                      Some (KCall f ks push, ss ++ [FnCall sk], (Some (skels_size sk), ps))
                  end
                else None
            | None => None
            end
        | None => None
        end
    | EMem a =>
        match compile_expr a c with
        | Some (ka, sa, c1) =>
            let '(push, (_, ps)) := consume c1 in
            Some (KMem ka push, sa ++ [Mem 1], (Some 1, ps))
        | None => None
        end
    | EDelay n a t =>
        match compile_expr a c with
        | Some (ka, sa, c1) =>
            match compile_expr t c1 with
            | Some (kt, st, c2) =>
                let '(push, (_, ps)) := consume c2 in
                Some (KDelay n ka kt push, sa ++ st ++ [Delay n],
                      (Some (size (Delay n)), ps))
            | None => None
            end
        | None => None
        end
    end.
End CompileExpr.

(* Lambda arm (+ convert_self's Feed wrapper when `self` occurs) *)
Definition compile_fun (fe : cenv) (fd : fundef) : option cfun :=
  let feed := uses_self (f_body fd) in
  let c0 : cctx := if feed then (Some 1, 0) else (None, 0) in
  match compile_expr fe (f_body fd) c0 with
  | Some (k, ss, (_, ps)) =>
      Some (mkCFun (f_name fd) (f_params fd) feed k ps
                   (if feed then Feed 1 :: ss else ss))
  | None => None
  end.

Fixpoint compile_funs (fe : cenv) (fs : list fundef) : option cenv :=
  match fs with
  | [] => Some fe
  | fd :: rest =>
      match compile_fun fe fd with
      | Some cf =>
          compile_funs (fun name => if N.eqb name (f_name fd) then Some cf else fe name) rest
      | None => None
      end
  end.

(* dsp: lets then the output tuple, all in one function context *)
Fixpoint compile_lets (fe : cenv) (lets : list (ident * expr)) (c : cctx)
  : option (list (ident * code) * list skel * cctx) :=
  match lets with
  | [] => Some ([], [], c)
  | (x, e) :: rest =>
      match compile_expr fe e c with
      | Some (k, s, c1) =>
          match compile_lets fe rest c1 with
          | Some (ks, ss, c2) => Some ((x, k) :: ks, s ++ ss, c2)
          | None => None
          end
      | None => None
      end
  end.

Fixpoint compile_outs (fe : cenv) (outs : list expr) (c : cctx)
  : option (list code * list skel * cctx) :=
  match outs with
  | [] => Some ([], [], c)
  | e :: rest =>
      match compile_expr fe e c with
      | Some (k, s, c1) =>
          match compile_outs fe rest c1 with
          | Some (ks, ss, c2) => Some (k :: ks, s ++ ss, c2)
          | None => None
          end
      | None => None
      end
  end.

Record cprog := mkCProg {
  cp_fenv : cenv;
  cp_inputs : list ident;
  cp_lets : list (ident * code);
  cp_outs : list code;
  cp_pop : N;
  cp_skel : list skel }.

Definition compile (p : program) : option cprog :=
  match compile_funs (fun _ => None) (p_funs p) with
  | Some fe =>
      match compile_lets fe (p_lets p) (None, 0) with
      | Some (kl, sl, c1) =>
          match compile_outs fe (p_outs p) c1 with
          | Some (ko, so, (_, ps)) =>
              Some (mkCProg fe (p_inputs p) kl ko ps (sl ++ so))
          | None => None
          end
      | None => None
      end
  | None => None
  end.

(* the published dsp skeleton *)
Definition published_skeleton (cp : cprog) : skel := FnCall (cp_skel cp).
