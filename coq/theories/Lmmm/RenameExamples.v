(* Lmmm/RenameExamples.v — a concrete renaming of the standard example program. *)
From Coq Require Import List ZArith NArith Bool Lia.
From Mimium Require Import StateTree.Model Lmmm.Syntax Lmmm.Ref Lmmm.Compile Lmmm.Machine Lmmm.Wf Lmmm.HotSwap Lmmm.Spec
  Lmmm.Examples Lmmm.Rename.
Import ListNotations.
Local Open Scope N_scope.

Definition ex_rv (x : ident) : ident := x + 100.
Definition ex_rf (f : ident) : ident := 2 * f + 7.

Lemma ex_rv_injective : injective ex_rv.
Proof. intros a b H. unfold ex_rv in H. lia. Qed.
Lemma ex_rf_injective : injective ex_rf.
Proof. intros a b H. unfold ex_rf in H. lia. Qed.

Lemma ex_prog2_renamed :
  rename_prog ex_rv ex_rf ex_prog2 =
  mkProg [ mkFun 9 [110] (EBin OAdd ESelf (EVar 110));
           mkFun 11 [111] (EBin OAdd (EMem (EVar 111)) (EDelay 3 (EVar 111) (ELit 2))) ]
         [120] [(121, ECall 9 [EVar 120])]
         [ ECall 11 [EVar 121]; EBin OAdd (ECall 11 [ECall 9 [ELit 2]]) (EVar 121) ].
Proof. vm_compute. reflexivity. Qed.

Lemma ex_prog2_renamed_runs :
  ref_run (rename_prog ex_rv ex_rf ex_prog2) 0 [[1]; [2]; [3]; [4]]%Z st0 = ref_run ex_prog2 0 [[1]; [2]; [3]; [4]]%Z st0 /\
  published_skeleton (compiled (rename_prog ex_rv ex_rf ex_prog2)) = published_skeleton (compiled ex_prog2) /\
  outs_of (mach_run VmD (rename_prog ex_rv ex_rf ex_prog2) (compiled (rename_prog ex_rv ex_rf ex_prog2)) 0
                    [[1]; [2]; [3]; [4]]%Z m0)
  = [Some [0; 1]; Some [1; 5]; Some [4; 12]; Some [9; 20]]%Z.
Proof. vm_compute. auto. Qed.

(* a non-injective renaming may change the meaning: merging the two function names *)
Lemma non_injective_differs :
  option_map fst (ref_run (rename_prog ex_rv (fun _ => 1) ex_prog2) 0 [[1]; [2]]%Z st0)
  <> option_map fst (ref_run ex_prog2 0 [[1]; [2]]%Z st0).
Proof. vm_compute. intros H. discriminate H. Qed.
