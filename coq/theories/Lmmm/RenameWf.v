(* Lmmm/RenameWf.v — C16: well-formedness and the published state skeleton are invariant under injective renaming. *)
From Coq Require Import List ZArith NArith Bool Lia.
From Mimium Require Import StateTree.Model Lmmm.Syntax Lmmm.Ref Lmmm.Compile Lmmm.Machine Lmmm.Wf Lmmm.Spec Lmmm.Base Lmmm.Rename Lmmm.RenameRef.
Import ListNotations.

Ltac inv H := inversion H; subst; clear H.

Section WfRename.
  Variable rv rf : ident -> ident.
  Hypothesis Hrv : injective rv.
  Hypothesis Hrf : injective rf.

  Definition rename_sig (g : sigenv) : sigenv := map (fun ns => (rf (fst ns), snd ns)) g.

  Lemma sig_lookup_rename : forall f g, sig_lookup (rf f) (rename_sig g) = sig_lookup f g.
  Proof.
    induction g as [|[n s] g IH]; [reflexivity|]. cbn [rename_sig map fst snd sig_lookup].
    rewrite (inj_eqb rf f n Hrf). destruct (N.eqb f n); [reflexivity|exact IH].
  Qed.

  Lemma mem_id_rename : forall x l, mem_id (rv x) (map rv l) = mem_id x l.
  Proof.
    induction l as [|y l IH]; [reflexivity|]. cbn [map mem_id]. rewrite (inj_eqb rv x y Hrv), IH. reflexivity.
  Qed.

  Lemma uses_self_rename : forall e, uses_self (rename_expr rv rf e) = uses_self e.
  Proof.
    induction e as [z|x| | | |op a b IHa IHb|a IHa|x a b IHa IHb|cn t e' IHc IHt IHe|f args IHargs|a IHa|n a t IHa IHt]
      using expr_ind'; cbn [rename_expr uses_self]; try reflexivity; try congruence.
    induction IHargs as [|a args Ha _ IH]; [reflexivity|]. cbn [map existsb]. rewrite Ha, IH. reflexivity.
  Qed.

  Lemma stateful_rename : forall g e, stateful_expr (rename_sig g) (rename_expr rv rf e) = stateful_expr g e.
  Proof.
    intros g.
    induction e as [z|x| | | |op a b IHa IHb|a IHa|x a b IHa IHb|cn t e' IHc IHt IHe|f args IHargs|a IHa|n a t IHa IHt]
      using expr_ind'; cbn [rename_expr stateful_expr]; try reflexivity; try congruence.
    rewrite sig_lookup_rename. f_equal.
    induction IHargs as [|a args Ha _ IH]; [reflexivity|]. cbn [map existsb]. rewrite Ha, IH. reflexivity.
  Qed.

  Lemma wf_expr_rename : forall g e b vars,
    wf_expr (rename_sig g) b (map rv vars) (rename_expr rv rf e) = wf_expr g b vars e.
  Proof.
    intros g.
    induction e as [z|x| | | |op a b IHa IHb|a IHa|x a b IHa IHb|cn t e' IHc IHt IHe|f args IHargs|a IHa|n a t IHa IHt]
      using expr_ind'; intros bb vars; cbn [rename_expr wf_expr]; try reflexivity.
    - apply mem_id_rename.
    - rewrite IHa, IHb. reflexivity.
    - apply IHa.
    - rewrite IHa. change (rv x :: map rv vars) with (map rv (x :: vars)). rewrite IHb. reflexivity.
    - rewrite IHc, IHt, IHe. reflexivity.
    - rewrite sig_lookup_rename, map_length. f_equal.
      induction IHargs as [|a args Ha _ IH]; [reflexivity|]. cbn [map forallb]. rewrite Ha, IH. reflexivity.
    - apply IHa.
    - rewrite IHa, IHt. reflexivity.
  Qed.

  Lemma wf_funs_rename : forall fs g,
    wf_funs (rename_sig g) (map (rename_fun rv rf) fs) = option_map rename_sig (wf_funs g fs).
  Proof.
    induction fs as [|fd fs IH]; intros g; [reflexivity|].
    cbn [map wf_funs rename_fun f_name f_params f_body]. rewrite sig_lookup_rename, wf_expr_rename.
    destruct (negb _ && wf_expr g true (f_params fd) (f_body fd)); [|reflexivity].
    assert (Hsig : fun_sig (rename_sig g) (rename_fun rv rf fd) = fun_sig g fd).
    { unfold fun_sig, rename_fun. cbn [f_params f_body]. rewrite map_length, uses_self_rename, stateful_rename. reflexivity. }
    rewrite Hsig. apply (IH ((f_name fd, fun_sig g fd) :: g)).
  Qed.

  Lemma wf_lets_rename : forall g lets vars,
    wf_lets (rename_sig g) (map rv vars) (map (rename_let rv rf) lets) = option_map (map rv) (wf_lets g vars lets).
  Proof.
    intros g. induction lets as [|[x e] lets IH]; intros vars; [reflexivity|].
    cbn [map rename_let fst snd wf_lets]. rewrite wf_expr_rename.
    destruct (wf_expr g false vars e); [|reflexivity]. apply (IH (x :: vars)).
  Qed.

  Theorem wf_prog_rename : forall p, wf_prog (rename_prog rv rf p) = wf_prog p.
  Proof.
    intros p. unfold wf_prog. cbn [rename_prog p_funs p_inputs p_lets p_outs].
    pose proof (wf_funs_rename (p_funs p) []) as Hf. cbn [rename_sig map] in Hf. rewrite Hf.
    destruct (wf_funs [] (p_funs p)) as [g|]; [|reflexivity]. cbn [option_map].
    rewrite wf_lets_rename. destruct (wf_lets g (p_inputs p) (p_lets p)) as [vars|]; [|reflexivity]. cbn [option_map].
    induction (p_outs p) as [|e outs IH]; [reflexivity|]. cbn [map forallb]. rewrite wf_expr_rename, IH. reflexivity.
  Qed.

  (* ---------- compilation: same skeletons, same offset contexts ---------- *)
  Definition cf_shape (cf : cfun) : nat * list skel := (length (c_params cf), c_skel cf).
  Definition cenv_ren (ce ce' : cenv) : Prop :=
    forall f, option_map cf_shape (ce' (rf f)) = option_map cf_shape (ce f).
  Definition cproj {A : Type} (x : A * list skel * cctx) : list skel * cctx := (snd (fst x), snd x).

  Section CE.
    Variable ce ce' : cenv.
    Hypothesis Hce : cenv_ren ce ce'.

    Lemma compile_expr_rename : forall e c,
      option_map cproj (compile_expr ce' (rename_expr rv rf e) c) = option_map cproj (compile_expr ce e c).
    Proof.
      induction e as [z|x| | | |op a b IHa IHb|a IHa|x a b IHa IHb|cn t e' IHc IHt IHe|f args IHargs|a IHa|n a t IHa IHt]
        using expr_ind'; intros c; cbn [rename_expr]; try reflexivity.
      - cbn [compile_expr]. pose proof (IHa c) as Ha.
        destruct (compile_expr ce' (rename_expr rv rf a) c) as [[[ka' sa'] c1']|], (compile_expr ce a c) as [[[ka sa] c1]|];
          cbn in Ha; try discriminate; [|reflexivity]. inv Ha.
        pose proof (IHb c1) as Hb.
        destruct (compile_expr ce' (rename_expr rv rf b) c1) as [[[kb' sb'] c2']|], (compile_expr ce b c1) as [[[kb sb] c2]|];
          cbn in Hb; try discriminate; [|reflexivity]. inv Hb. reflexivity.
      - cbn [compile_expr]. pose proof (IHa c) as Ha.
        destruct (compile_expr ce' (rename_expr rv rf a) c) as [[[ka' sa'] c1']|], (compile_expr ce a c) as [[[ka sa] c1]|];
          cbn in Ha; try discriminate; [|reflexivity]. inv Ha. reflexivity.
      - cbn [compile_expr]. pose proof (IHa c) as Ha.
        destruct (compile_expr ce' (rename_expr rv rf a) c) as [[[ka' sa'] c1']|], (compile_expr ce a c) as [[[ka sa] c1]|];
          cbn in Ha; try discriminate; [|reflexivity]. inv Ha.
        pose proof (IHb c1) as Hb.
        destruct (compile_expr ce' (rename_expr rv rf b) c1) as [[[kb' sb'] c2']|], (compile_expr ce b c1) as [[[kb sb] c2]|];
          cbn in Hb; try discriminate; [|reflexivity]. inv Hb. reflexivity.
      - cbn [compile_expr]. pose proof (IHc c) as Hc.
        destruct (compile_expr ce' (rename_expr rv rf cn) c) as [[[kc' sc'] c1']|], (compile_expr ce cn c) as [[[kc sc] c1]|];
          cbn in Hc; try discriminate; [|reflexivity]. inv Hc.
        destruct (consume c1) as [push0 [o0 ps0]].
        pose proof (IHt (None, ps0)) as Ht.
        destruct (compile_expr ce' (rename_expr rv rf t) (None, ps0)) as [[[kt' st'] c2']|],
                 (compile_expr ce t (None, ps0)) as [[[kt st] c2]|]; cbn in Ht; try discriminate; [|reflexivity]. inv Ht.
        destruct (consume c2) as [pusht ct].
        pose proof (IHe (if (0 <? skels_size st)%N then Some (skels_size st) else None, ps0)) as He.
        destruct (compile_expr ce' (rename_expr rv rf e') _) as [[[ke' se'] c3']|],
                 (compile_expr ce e' _) as [[[ke se] c3]|]; cbn in He; try discriminate; [|reflexivity]. inv He.
        destruct (consume c3) as [pushe cte]. reflexivity.
      - rewrite !compile_call_eq.
        assert (Hargs : forall c0, option_map cproj (compile_args ce' (map (rename_expr rv rf) args) c0)
                                   = option_map cproj (compile_args ce args c0)).
        { induction IHargs as [|a args Ha _ IH]; intros c0; [reflexivity|].
          cbn [map]. rewrite !compile_args_cons. pose proof (Ha c0) as Ha0.
          destruct (compile_expr ce' (rename_expr rv rf a) c0) as [[[ka' sa'] c1']|], (compile_expr ce a c0) as [[[ka sa] c1]|];
            cbn in Ha0; try discriminate; [|reflexivity]. inv Ha0.
          pose proof (IH c1) as Hr.
          destruct (compile_args ce' (map (rename_expr rv rf) args) c1) as [[[ks' ss'] c2']|],
                   (compile_args ce args c1) as [[[ks ss] c2]|]; cbn in Hr; try discriminate; [|reflexivity]. inv Hr.
          reflexivity. }
        pose proof (Hargs c) as Ha.
        destruct (compile_args ce' (map (rename_expr rv rf) args) c) as [[[ks' ss'] c1']|],
                 (compile_args ce args c) as [[[ks ss] c1]|]; cbn in Ha; try discriminate; [|reflexivity]. inv Ha.
        pose proof (Hce f) as Hf. rewrite map_length.
        destruct (ce' (rf f)) as [cf'|], (ce f) as [cf|]; cbn in Hf; try discriminate; [|reflexivity].
        unfold cf_shape in Hf. inv Hf. rewrite H0, H1.
        destruct (Nat.eqb (length (c_params cf)) (length args)); [|reflexivity].
        destruct (c_skel cf); [reflexivity|]. destruct (consume c1) as [push [o ps]]. reflexivity.
      - cbn [compile_expr]. pose proof (IHa c) as Ha.
        destruct (compile_expr ce' (rename_expr rv rf a) c) as [[[ka' sa'] c1']|], (compile_expr ce a c) as [[[ka sa] c1]|];
          cbn in Ha; try discriminate; [|reflexivity]. inv Ha. destruct (consume c1) as [push [o ps]]. reflexivity.
      - cbn [compile_expr]. pose proof (IHa c) as Ha.
        destruct (compile_expr ce' (rename_expr rv rf a) c) as [[[ka' sa'] c1']|], (compile_expr ce a c) as [[[ka sa] c1]|];
          cbn in Ha; try discriminate; [|reflexivity]. inv Ha.
        pose proof (IHt c1) as Ht.
        destruct (compile_expr ce' (rename_expr rv rf t) c1) as [[[kt' st'] c2']|], (compile_expr ce t c1) as [[[kt st] c2]|];
          cbn in Ht; try discriminate; [|reflexivity]. inv Ht. destruct (consume c2) as [push [o ps]]. reflexivity.
    Qed.
  End CE.
End WfRename.

Section CompileRename.
  Variable rv rf : ident -> ident.
  Hypothesis Hrv : injective rv.
  Hypothesis Hrf : injective rf.

  Lemma compile_fun_rename : forall ce ce' fd, cenv_ren rf ce ce' ->
    option_map cf_shape (compile_fun ce' (rename_fun rv rf fd)) = option_map cf_shape (compile_fun ce fd).
  Proof.
    intros ce ce' fd Hce. unfold compile_fun. cbn [rename_fun f_name f_params f_body]. rewrite uses_self_rename.
    pose proof (compile_expr_rename rv rf ce ce' Hce (f_body fd) (if uses_self (f_body fd) then (Some 1%N, 0%N) else (None, 0%N))) as H.
    destruct (compile_expr ce' (rename_expr rv rf (f_body fd)) _) as [[[k' ss'] [nso' ps']]|],
             (compile_expr ce (f_body fd) _) as [[[k ss] [nso ps]]|]; cbn in H; try discriminate; [|reflexivity].
    inv H. unfold cf_shape. cbn [option_map c_params c_skel]. rewrite map_length. reflexivity.
  Qed.

  Lemma compile_funs_rename : forall fs ce ce', cenv_ren rf ce ce' ->
    match compile_funs ce fs, compile_funs ce' (map (rename_fun rv rf) fs) with
    | Some c1, Some c1' => cenv_ren rf c1 c1'
    | None, None => True
    | _, _ => False
    end.
  Proof.
    induction fs as [|fd fs IH]; intros ce ce' Hce; cbn [map compile_funs]; [exact Hce|].
    pose proof (compile_fun_rename ce ce' fd Hce) as Hf.
    destruct (compile_fun ce' (rename_fun rv rf fd)) as [cf'|], (compile_fun ce fd) as [cf|]; cbn in Hf; try discriminate; [|exact I].
    apply IH. intros f. cbn [rename_fun f_name]. rewrite (inj_eqb rf f (f_name fd) Hrf).
    destruct (N.eqb f (f_name fd)); [exact Hf|apply Hce].
  Qed.

  Lemma compile_lets_rename : forall ce ce', cenv_ren rf ce ce' -> forall lets c,
    option_map cproj (compile_lets ce' (map (rename_let rv rf) lets) c) = option_map cproj (compile_lets ce lets c).
  Proof.
    intros ce ce' Hce. induction lets as [|[x e] lets IH]; intros c; [reflexivity|].
    cbn [map rename_let fst snd compile_lets].
    pose proof (compile_expr_rename rv rf ce ce' Hce e c) as He.
    destruct (compile_expr ce' (rename_expr rv rf e) c) as [[[k' s'] c1']|], (compile_expr ce e c) as [[[k s] c1]|];
      cbn in He; try discriminate; [|reflexivity]. inv He.
    pose proof (IH c1) as Hr.
    destruct (compile_lets ce' (map (rename_let rv rf) lets) c1) as [[[ks' ss'] c2']|],
             (compile_lets ce lets c1) as [[[ks ss] c2]|]; cbn in Hr; try discriminate; [|reflexivity]. inv Hr. reflexivity.
  Qed.

  Lemma compile_outs_rename : forall ce ce', cenv_ren rf ce ce' -> forall outs c,
    option_map cproj (compile_outs ce' (map (rename_expr rv rf) outs) c) = option_map cproj (compile_outs ce outs c).
  Proof.
    intros ce ce' Hce. induction outs as [|e outs IH]; intros c; [reflexivity|].
    cbn [map compile_outs].
    pose proof (compile_expr_rename rv rf ce ce' Hce e c) as He.
    destruct (compile_expr ce' (rename_expr rv rf e) c) as [[[k' s'] c1']|], (compile_expr ce e c) as [[[k s] c1]|];
      cbn in He; try discriminate; [|reflexivity]. inv He.
    pose proof (IH c1) as Hr.
    destruct (compile_outs ce' (map (rename_expr rv rf) outs) c1) as [[[ks' ss'] c2']|],
             (compile_outs ce outs c1) as [[[ks ss] c2]|]; cbn in Hr; try discriminate; [|reflexivity]. inv Hr. reflexivity.
  Qed.

  Theorem compile_rename_skeleton : forall p,
    option_map published_skeleton (compile (rename_prog rv rf p)) = option_map published_skeleton (compile p).
  Proof.
    intros p. unfold compile. cbn [rename_prog p_funs p_inputs p_lets p_outs].
    assert (H0 : cenv_ren rf (fun _ => None) (fun _ => None)) by (intros f; reflexivity).
    pose proof (compile_funs_rename (p_funs p) _ _ H0) as Hf.
    destruct (compile_funs (fun _ => None) (p_funs p)) as [ce|],
             (compile_funs (fun _ => None) (map (rename_fun rv rf) (p_funs p))) as [ce'|]; try contradiction; [|reflexivity].
    pose proof (compile_lets_rename ce ce' Hf (p_lets p) (None, 0%N)) as Hl.
    destruct (compile_lets ce' (map (rename_let rv rf) (p_lets p)) (None, 0%N)) as [[[kl' sl'] c1']|],
             (compile_lets ce (p_lets p) (None, 0%N)) as [[[kl sl] c1]|]; cbn in Hl; try discriminate; [|reflexivity]. inv Hl.
    pose proof (compile_outs_rename ce ce' Hf (p_outs p) c1) as Ho.
    destruct (compile_outs ce' (map (rename_expr rv rf) (p_outs p)) c1) as [[[ko' so'] [n' ps']]|],
             (compile_outs ce (p_outs p) c1) as [[[ko so] [n0 ps]]|]; cbn in Ho; try discriminate; [|reflexivity]. inv Ho.
    reflexivity.
  Qed.
End CompileRename.
