(* Lmmm/VoicesSwap.v — C07 in terms of HotSwap.hot_swap and the StateTree migration plan. *)
From Coq Require Import List ZArith NArith Bool Lia Arith.
From Mimium Require Import StateTree.Model StateTree.Lemmas StateTree.Apply
  Lmmm.Syntax Lmmm.Ref Lmmm.Compile Lmmm.Machine Lmmm.Wf Lmmm.HotSwap Lmmm.Spec
  Lmmm.Base Lmmm.Layout Lmmm.LayoutProg Lmmm.Swap Lmmm.Prims Lmmm.Voices.
Import ListNotations.
Local Open Scope N_scope.

Ltac inv H := inversion H; subst; clear H.

(* ---------- the embedding of state words into StateTree's storage ---------- *)
Lemma zdec_zenc : forall z, zdec (zenc z) = z.
Proof.
  intros [|p|p]; cbn [zenc zdec]; try reflexivity.
  destruct p as [q|q|]; cbn [Pos.pred_N Pos.pred_double zdec]; try reflexivity.
  - rewrite Pos.succ_pred_double. reflexivity.
Qed.

Lemma zenc_0 : zenc 0%Z = 0. Proof. reflexivity. Qed.
Lemma zdec_0 : zdec 0 = 0%Z. Proof. reflexivity. Qed.

Lemma nth_map_zenc : forall l i, nth i (map zenc l) 0 = zenc (nth i l 0%Z).
Proof. intros l i. rewrite <- zenc_0 at 1. apply map_nth. Qed.
Lemma nth_map_zdec : forall l i, nth i (map zdec l) 0%Z = zdec (nth i l 0).
Proof. intros l i. rewrite <- zdec_0 at 1. apply map_nth. Qed.

Lemma nth_pad0 : forall (w : list Z) n i, nth i (w ++ repeat 0%Z n) 0%Z = nth i w 0%Z.
Proof.
  intros w n i. destruct (Nat.lt_ge_cases i (length w)) as [Hlt|Hge].
  - apply app_nth1. exact Hlt.
  - rewrite app_nth2 by exact Hge. rewrite nth_repeat0. symmetry. apply nth_overflow. exact Hge.
Qed.

(* ---------- what a hot swap with a real plan produces ---------- *)
Lemma hot_swap_plan_spec : forall cp1 cp2 m1 total ps,
  plan (published_skeleton cp1) (published_skeleton cp2) = Some (total, ps) ->
  (length (m_words m1) <= N.to_nat (size (published_skeleton cp1)))%nat ->
  exists m2, hot_swap cp1 cp2 m1 = Some m2 /\ m_pos m2 = 0 /\
    length (m_words m2) = N.to_nat (size (published_skeleton cp2)) /\
    forall k, k < size (published_skeleton cp2) ->
      (forall pt, In pt ps -> p_dst pt <= k < p_dst pt + p_sz pt ->
         nth (N.to_nat k) (m_words m2) 0%Z = nth (N.to_nat (p_src pt + (k - p_dst pt))) (m_words m1) 0%Z) /\
      ((forall pt, In pt ps -> ~ (p_dst pt <= k < p_dst pt + p_sz pt)) -> nth (N.to_nat k) (m_words m2) 0%Z = 0%Z).
Proof.
  intros cp1 cp2 m1 total ps Hplan Hlen. unfold hot_swap. rewrite Hplan.
  set (old := m_words m1 ++ repeat 0%Z (N.to_nat (size (published_skeleton cp1)) - length (m_words m1))).
  destruct (plan_apply_spec _ _ total ps (map zenc old) Hplan) as (st & Hap & Hlst & Hspec).
  { rewrite map_length. unfold old. rewrite app_length, repeat_length. lia. }
  rewrite Hap. eexists. split; [reflexivity|]. split; [reflexivity|]. cbn [m_words]. split; [rewrite map_length; exact Hlst|].
  intros k Hk. destruct (Hspec (N.to_nat k) ltac:(lia)) as [Hcov Hnot]. split.
  - intros pt Hin Hr. rewrite nth_map_zdec, (Hcov pt Hin) by lia.
    rewrite nth_map_zenc, zdec_zenc. unfold old. rewrite nth_pad0. f_equal. lia.
  - intros Hno. rewrite nth_map_zdec, Hnot; [reflexivity|].
    intros pt Hin Hr. apply (Hno pt Hin). lia.
Qed.

(* the storage never outgrows the skeleton on wf programs *)
Lemma final_state_length : forall d p cp, compile p = Some cp -> wf_prog p = true ->
  forall rows t0 m m1, home d cp m -> (length (m_words m) <= N.to_nat (size (published_skeleton cp)))%nat ->
  rows_ok p rows -> final_state d p cp t0 rows m = Some m1 ->
  (length (m_words m1) <= N.to_nat (size (published_skeleton cp)))%nat.
Proof.
  intros d p cp Hc Hwf. induction rows as [|i rows IH]; intros t0 m m1 Hh Hl Hrows Hf; cbn [final_state] in Hf.
  - inv Hf. exact Hl.
  - inversion Hrows as [|? ? Hi Hrows']; subst. destruct Hh as [Hp Hb].
    destruct (step_ok d p cp t0 i m Hc Hwf Hp Hi) as (outs & m' & Hstep & _ & Hp' & Hl' & _).
    { destruct d; [rewrite step_start_vm_length; lia|exact Hb]. }
    rewrite Hstep in Hf. apply (IH (t0 + 1)%Z m' m1); try assumption.
    + split; [exact Hp'|]. destruct d; [exact I|]. rewrite Hl'. exact Hb.
    + rewrite Hl'. destruct d; cbn [step_start m_words]; [rewrite resize_words_length; lia|exact Hl].
Qed.

Lemma init_state_length : forall d cp,
  (length (m_words (init_state d cp)) <= N.to_nat (size (published_skeleton cp)))%nat.
Proof. intros [|] cp; cbn [init_state m_words m0 length]; [lia|rewrite repeat_length; lia]. Qed.

(* ---------- C07 with hot_swap ---------- *)
Theorem untouched_voice_continues : forall d p1 cp1 p2 cp2 i j e off1 off2 sz t0 rows1 m1 t1 rows2,
  compile p1 = Some cp1 -> wf_prog p1 = true -> compile p2 = Some cp2 -> wf_prog p2 = true ->
  p_funs p2 = p_funs p1 -> p_inputs p2 = p_inputs p1 ->
  nth_error (p_outs p1) i = Some e -> nth_error (p_outs p2) j = Some e ->
  closed_voice p1 e = true -> closed_voice p2 e = true ->
  voice_range p1 i = Some (off1, sz) -> voice_range p2 j = Some (off2, sz) ->
  rows_ok p1 rows1 -> final_state d p1 cp1 t0 rows1 (init_state d cp1) = Some m1 ->
  voice_carried (published_skeleton cp1) (published_skeleton cp2) off1 off2 sz ->
  rows_ok p1 rows2 ->
  exists m2, hot_swap cp1 cp2 m1 = Some m2 /\
    map (chan j) (outs_of (mach_run d p2 cp2 t1 rows2 m2))
    = map (chan i) (outs_of (mach_run d p1 cp1 t1 rows2 m1)).
Proof.
  intros d p1 cp1 p2 cp2 i j e off1 off2 sz t0 rows1 m1 t1 rows2
         Hc1 Hw1 Hc2 Hw2 Hfuns Hins Hi Hj Hcl1 Hcl2 Hr1 Hr2 Hrows1 Hfin Hcar Hrows2.
  pose proof (final_state_length d p1 cp1 Hc1 Hw1 rows1 t0 _ m1 (home_init d cp1) (init_state_length d cp1) Hrows1 Hfin) as Hlen1.
  pose proof (final_state_is_home d p1 cp1 Hc1 Hw1 rows1 t0 _ m1 (home_init d cp1) Hrows1 Hfin) as Hh1.
  destruct (voice_in_state p2 cp2 j e off2 sz Hc2 Hw2 Hj Hr2) as (_ & Hin2 & _).
  unfold voice_carried in Hcar.
  destruct (plan (published_skeleton cp1) (published_skeleton cp2)) as [[total ps]|] eqn:Hplan.
  - destruct Hcar as (pt & Hpt & Hd1 & Hd2 & Hsrc).
    destruct (hot_swap_plan_spec cp1 cp2 m1 total ps Hplan Hlen1) as (m2 & Hswap & Hp2 & Hl2 & Hspec).
    exists m2. split; [exact Hswap|].
    apply (voice_continues d p1 cp1 p2 cp2 i j e off1 off2 sz t0 rows1 m1 m2 t1 rows2); try assumption.
    + split; [exact Hp2|]. destruct d; [exact I|]. rewrite Hl2. lia.
    + intros k Hk. destruct (Hspec (off2 + k) ltac:(lia)) as [Hcov _].
      rewrite (Hcov pt Hpt) by lia. f_equal. lia.
  - subst off2. exists (mkM (m_words m1) 0 []). split.
    + unfold hot_swap. rewrite Hplan. reflexivity.
    + apply (voice_continues d p1 cp1 p2 cp2 i j e off1 off1 sz t0 rows1 m1 _ t1 rows2); try assumption.
      * (* identical skeletons: the storage of the old machine is big enough for the new program *)
        apply plan_none_eq in Hplan. destruct Hh1 as [_ Hb]. split; [reflexivity|].
        destruct d; [exact I|]. cbn [m_words]. rewrite <- Hplan. exact Hb.
      * intros k Hk. reflexivity.
Qed.

(* a voice into whose range no patch writes starts from fresh (zero) state *)
Theorem new_voice_fresh : forall d p1 cp1 p2 cp2 j e off2 sz t0 rows1 m1 t1 rows2,
  compile p1 = Some cp1 -> wf_prog p1 = true -> compile p2 = Some cp2 -> wf_prog p2 = true ->
  nth_error (p_outs p2) j = Some e -> closed_voice p2 e = true -> voice_range p2 j = Some (off2, sz) ->
  rows_ok p1 rows1 -> final_state d p1 cp1 t0 rows1 (init_state d cp1) = Some m1 ->
  voice_unwritten (published_skeleton cp1) (published_skeleton cp2) off2 sz ->
  rows_ok p2 rows2 ->
  exists m2 vs sv',
    hot_swap cp1 cp2 m1 = Some m2 /\
    voice_ref_run (p_funs p2) (p_inputs p2) e t1 rows2 st0 = Some (vs, sv') /\
    map (chan j) (outs_of (mach_run d p2 cp2 t1 rows2 m2)) = map Some vs.
Proof.
  intros d p1 cp1 p2 cp2 j e off2 sz t0 rows1 m1 t1 rows2 Hc1 Hw1 Hc2 Hw2 Hj Hcl2 Hr2 Hrows1 Hfin Hun Hrows2.
  pose proof (final_state_length d p1 cp1 Hc1 Hw1 rows1 t0 _ m1 (home_init d cp1) (init_state_length d cp1) Hrows1 Hfin) as Hlen1.
  destruct (voice_in_state p2 cp2 j e off2 sz Hc2 Hw2 Hj Hr2) as (_ & Hin2 & _).
  unfold voice_unwritten in Hun.
  destruct (plan (published_skeleton cp1) (published_skeleton cp2)) as [[total ps]|] eqn:Hplan; [|contradiction].
  destruct (hot_swap_plan_spec cp1 cp2 m1 total ps Hplan Hlen1) as (m2 & Hswap & Hp2 & Hl2 & Hspec).
  destruct (voice_fresh d p2 cp2 j e off2 sz t1 rows2 m2 Hc2 Hw2 Hj Hcl2 Hr2) as (vs & sv' & Hvr & Hch).
  - split; [exact Hp2|]. destruct d; [exact I|]. rewrite Hl2. lia.
  - intros k Hk. destruct (Hspec (off2 + k) ltac:(lia)) as [_ Hnot]. apply Hnot.
    intros pt Hpt. apply (Hun pt k Hpt Hk).
  - exact Hrows2.
  - exists m2, vs, sv'. auto.
Qed.

(* a swap that does not happen (the new source does not compile) leaves everything unchanged *)
Theorem failed_edit_noop : forall p_new cur, compile p_new = None -> try_swap p_new cur = cur.
Proof. intros p_new cur H. unfold try_swap. rewrite H. reflexivity. Qed.
