(* Lmmm/Syntax.v — the core language λmmm (first-order fragment of mimium, DESIGN.md §4 C02).
   Numbers are integers (exactly representable f64 values; the check discards cases leaving |v| < 2^53). *)
From Coq Require Import List ZArith NArith Bool.
Import ListNotations.

Definition ident := N.

Inductive binop := OAdd | OSub | OMul | OLt | OLe | OGt | OGe | OEq | ONe | OAnd | OOr | OMin | OMax.

Inductive expr : Type :=
| ELit (z : Z)
| EVar (x : ident)
| ENow
| ESr
| ESelf
| EBin (op : binop) (a b : expr)
| ENeg (a : expr)
| ELet (x : ident) (a b : expr)
| EIf (c t e : expr)
| ECall (f : ident) (args : list expr)
| EMem (a : expr)
| EDelay (n : N) (a t : expr).

Record fundef := mkFun { f_name : ident; f_params : list ident; f_body : expr }.

(* fn dsp(inputs){ let x1 = e1 ... ; (out1, ..., outk) } *)
Record program := mkProg {
  p_funs : list fundef;            (* source order; a function may call only earlier ones *)
  p_inputs : list ident;
  p_lets : list (ident * expr);
  p_outs : list expr }.

Definition b2z (b : bool) : Z := if b then 1%Z else 0%Z.

(* vm.rs binop!/binop_bool!/binop_bool_compose! on integer-valued f64 *)
Definition eval_binop (op : binop) (a b : Z) : Z :=
  match op with
  | OAdd => (a + b)%Z | OSub => (a - b)%Z | OMul => (a * b)%Z
  | OLt => b2z (a <? b)%Z | OLe => b2z (a <=? b)%Z
  | OGt => b2z (a >? b)%Z | OGe => b2z (a >=? b)%Z
  | OEq => b2z (a =? b)%Z | ONe => b2z (negb (a =? b)%Z)
  | OAnd => b2z ((0 <? a)%Z && (0 <? b)%Z)
  | OOr => b2z ((0 <? a)%Z || (0 <? b)%Z)
  | OMin => Z.min a b | OMax => Z.max a b
  end.

Definition SAMPLE_RATE : Z := 48000%Z.

Fixpoint uses_self (e : expr) : bool :=
  match e with
  | ESelf => true
  | ELit _ | EVar _ | ENow | ESr => false
  | EBin _ a b => uses_self a || uses_self b
  | ENeg a => uses_self a
  | ELet _ a b => uses_self a || uses_self b
  | EIf c t e => uses_self c || uses_self t || uses_self e
  | ECall _ args => existsb uses_self args
  | EMem a => uses_self a
  | EDelay _ a t => uses_self a || uses_self t
  end.

Definition env := list (ident * Z).
Fixpoint lookup (x : ident) (r : env) : option Z :=
  match r with
  | [] => None
  | (y, v) :: r' => if N.eqb x y then Some v else lookup x r'
  end.

Fixpoint bind_params (ps : list ident) (vs : list Z) : option env :=
  match ps, vs with
  | [], [] => Some []
  | p :: ps', v :: vs' =>
      match bind_params ps' vs' with Some r => Some ((p, v) :: r) | None => None end
  | _, _ => None
  end.
