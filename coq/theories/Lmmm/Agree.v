(* Lmmm/Agree.v — C01: whenever the VM discipline does not fault, the WASM discipline computes exactly
   the same (outputs, words, cursor, trace); on wf programs the VM discipline never faults. *)
From Coq Require Import List ZArith NArith Bool Lia.
From Mimium Require Import StateTree.Model Lmmm.Syntax Lmmm.Ref Lmmm.Compile Lmmm.Machine Lmmm.Wf Lmmm.Spec Lmmm.Base Lmmm.Layout Lmmm.LayoutProg.
Import ListNotations.
Local Open Scope N_scope.

Ltac inv H := inversion H; subst; clear H.

Lemma ensure_vm : forall need m m1, ensure VmD need m = Some m1 -> m1 = m /\ ensure WasmD need m = Some m.
Proof.
  intros need m m1 H. unfold ensure in *. destruct (need <=? N.of_nat (length (m_words m))); [|discriminate].
  inv H. auto.
Qed.

Lemma do_pop_agree : forall k m m1, do_pop VmD k m = Some m1 ->
  do_pop WasmD k m = Some m1 /\ length (m_words m1) = length (m_words m).
Proof.
  intros k m m1 H. unfold do_pop in *. cbn [tr m_pos m_words m_trace] in *.
  destruct (k <=? m_pos m); [|discriminate]. inv H. auto.
Qed.

Lemma get1_agree : forall m v m1, get1 VmD m = Some (v, m1) ->
  get1 WasmD m = Some (v, m1) /\ length (m_words m1) = length (m_words m).
Proof.
  intros m v m1 H. unfold get1 in *.
  destruct (ensure VmD _ _) as [m2|] eqn:He; [|discriminate]. apply ensure_vm in He. destruct He as [-> ->].
  inv H. auto.
Qed.

Lemma set1_agree : forall x m m1, set1 VmD x m = Some m1 ->
  set1 WasmD x m = Some m1 /\ length (m_words m1) = length (m_words m).
Proof.
  intros x m m1 H. unfold set1 in *.
  destruct (ensure VmD _ _) as [m2|] eqn:He; [|discriminate]. apply ensure_vm in He. destruct He as [-> ->].
  inv H. split; [reflexivity|]. rewrite wr_length. reflexivity.
Qed.

Lemma mem1_agree : forall x m v m1, mem1 VmD x m = Some (v, m1) ->
  mem1 WasmD x m = Some (v, m1) /\ length (m_words m1) = length (m_words m).
Proof.
  intros x m v m1 H. unfold mem1 in *.
  destruct (ensure VmD _ _) as [m2|] eqn:He; [|discriminate]. apply ensure_vm in He. destruct He as [-> ->].
  inv H. split; [reflexivity|]. rewrite wr_length. reflexivity.
Qed.

Lemma delay1_agree : forall n x t m v m1, delay1 VmD n x t m = Some (v, m1) ->
  delay1 WasmD n x t m = Some (v, m1) /\ length (m_words m1) = length (m_words m).
Proof.
  intros n x t m v m1 H. unfold delay1 in *. destruct (N.eqb n 0).
  - destruct (ensure VmD _ _) as [m2|] eqn:He; [|discriminate]. apply ensure_vm in He. destruct He as [-> _].
    inv H. auto.
  - destruct (ensure VmD _ _) as [m2|] eqn:He; [|discriminate]. apply ensure_vm in He. destruct He as [-> ->].
    inv H. split; [reflexivity|]. rewrite !wr_length. reflexivity.
Qed.

Lemma opt_push_length : forall push m, length (m_words (opt_push push m)) = length (m_words m).
Proof. intros [o|] m; reflexivity. Qed.

Definition fn_agree (fv fw : mach_fn) : Prop :=
  forall vs m v m', fv vs m = Some (v, m') ->
    fw vs m = Some (v, m') /\ length (m_words m') = length (m_words m).

Definition fenv_agree (mfv mfw : ident -> option mach_fn) : Prop :=
  forall f fv, mfv f = Some fv -> exists fw, mfw f = Some fw /\ fn_agree fv fw.

Section Agree.
  Variable now : Z.
  Variable mfv mfw : ident -> option mach_fn.
  Hypothesis Hfe : fenv_agree mfv mfw.

  Lemma run_code_agree : forall k selfv r m v m',
    run_code VmD mfv now selfv r k m = Some (v, m') ->
    run_code WasmD mfw now selfv r k m = Some (v, m') /\ length (m_words m') = length (m_words m).
  Proof.
    induction k as [z|x| | | |op a b IHa IHb|a IHa|x a b IHa IHb|cn p0 t pt pad e pe IHc IHt IHe|f args push IHargs|a push IHa|n a t push IHa IHt]
      using code_ind'; intros selfv r m v m' H; cbn [run_code] in H |- *.
    - inv H. auto.
    - destruct (lookup x r); [|discriminate]. inv H. auto.
    - inv H. auto.
    - inv H. auto.
    - inv H. auto.
    - destruct (run_code VmD mfv now selfv r a m) as [[va m1]|] eqn:Ha; [|discriminate].
      destruct (run_code VmD mfv now selfv r b m1) as [[vb m2]|] eqn:Hb; [|discriminate]. inv H.
      destruct (IHa _ _ _ _ _ Ha) as [-> Hl1]. destruct (IHb _ _ _ _ _ Hb) as [-> Hl2]. split; [reflexivity|congruence].
    - destruct (run_code VmD mfv now selfv r a m) as [[va m1]|] eqn:Ha; [|discriminate]. inv H.
      destruct (IHa _ _ _ _ _ Ha) as [-> Hl1]. auto.
    - destruct (run_code VmD mfv now selfv r a m) as [[va m1]|] eqn:Ha; [|discriminate].
      destruct (IHa _ _ _ _ _ Ha) as [-> Hl1]. destruct (IHb _ _ _ _ _ H) as [-> Hl2]. split; [reflexivity|congruence].
    - destruct (run_code VmD mfv now selfv r cn m) as [[vc m1]|] eqn:Hc; [|discriminate].
      destruct (IHc _ _ _ _ _ Hc) as [-> Hl1]. destruct (0 <? vc)%Z.
      + destruct (run_code VmD mfv now selfv r t (opt_push p0 m1)) as [[vt m2]|] eqn:Ht; [|discriminate]. inv H.
        destruct (IHt _ _ _ _ _ Ht) as [-> Hl2]. split; [reflexivity|].
        destruct (0 <? pad); cbn [do_push tr m_words]; rewrite ?opt_push_length, Hl2, opt_push_length; exact Hl1.
      + destruct (run_code VmD mfv now selfv r e (opt_push p0 m1)) as [[vt m2]|] eqn:Ht; [|discriminate]. inv H.
        destruct (IHe _ _ _ _ _ Ht) as [-> Hl2]. split; [reflexivity|].
        rewrite opt_push_length, Hl2, opt_push_length. exact Hl1.
    - fold (run_args VmD mfv now selfv r) in H. fold (run_args WasmD mfw now selfv r).
      destruct (run_args VmD mfv now selfv r args m) as [[vs m1]|] eqn:Hargs; [|discriminate].
      assert (Hargs' : run_args WasmD mfw now selfv r args m = Some (vs, m1) /\ length (m_words m1) = length (m_words m)).
      { clear H. revert m vs m1 Hargs. induction IHargs as [|a args Ha _ IH]; intros m vs m1 Hargs.
        - cbn in Hargs. inv Hargs. auto.
        - rewrite run_args_cons in Hargs |- *.
          destruct (run_code VmD mfv now selfv r a m) as [[va m2]|] eqn:Hra; [|discriminate].
          destruct (run_args VmD mfv now selfv r args m2) as [[vs' m3]|] eqn:Hrr; [|discriminate]. inv Hargs.
          destruct (Ha _ _ _ _ _ Hra) as [-> Hl1]. destruct (IH _ _ _ Hrr) as [-> Hl2].
          split; [reflexivity|congruence]. }
      destruct Hargs' as [-> Hl1].
      destruct (mfv f) as [fv|] eqn:Hf; [|discriminate].
      destruct (Hfe f fv Hf) as (fw & -> & Hag). destruct (Hag _ _ _ _ H) as [-> Hl2].
      split; [reflexivity|]. rewrite Hl2, opt_push_length. exact Hl1.
    - destruct (run_code VmD mfv now selfv r a m) as [[va m1]|] eqn:Ha; [|discriminate].
      destruct (IHa _ _ _ _ _ Ha) as [-> Hl1]. destruct (mem1_agree _ _ _ _ H) as [-> Hl2].
      split; [reflexivity|]. rewrite Hl2, opt_push_length. exact Hl1.
    - destruct (run_code VmD mfv now selfv r a m) as [[va m1]|] eqn:Ha; [|discriminate].
      destruct (run_code VmD mfv now selfv r t m1) as [[vt m2]|] eqn:Ht; [|discriminate].
      destruct (IHa _ _ _ _ _ Ha) as [-> Hl1]. destruct (IHt _ _ _ _ _ Ht) as [-> Hl2].
      destruct (delay1_agree _ _ _ _ _ _ H) as [-> Hl3].
      split; [reflexivity|]. rewrite Hl3, opt_push_length. congruence.
  Qed.

  Lemma mach_call_agree : forall cf, fn_agree (mach_call VmD mfv now cf) (mach_call WasmD mfw now cf).
  Proof.
    intros cf vs m v m' H. unfold mach_call in *.
    destruct (bind_params (c_params cf) vs) as [r|]; [|discriminate].
    destruct (c_feed cf).
    - destruct (get1 VmD m) as [[sv m1]|] eqn:Hg; [|discriminate].
      destruct (get1_agree _ _ _ Hg) as [-> Hl1].
      destruct (run_code VmD mfv now sv r (c_body cf) m1) as [[v2 m2]|] eqn:Hr; [|discriminate].
      destruct (run_code_agree _ _ _ _ _ _ Hr) as [-> Hl2].
      destruct (0 <? c_pop cf).
      + destruct (do_pop VmD (c_pop cf) m2) as [m3|] eqn:Hp; [|discriminate].
        destruct (do_pop_agree _ _ _ Hp) as [-> Hl3].
        destruct (set1 VmD v2 m3) as [m4|] eqn:Hs; [|discriminate]. inv H.
        destruct (set1_agree _ _ _ Hs) as [-> Hl4]. split; [reflexivity|congruence].
      + destruct (set1 VmD v2 m2) as [m4|] eqn:Hs; [|discriminate]. inv H.
        destruct (set1_agree _ _ _ Hs) as [-> Hl4]. split; [reflexivity|congruence].
    - destruct (run_code VmD mfv now 0%Z r (c_body cf) m) as [[v2 m2]|] eqn:Hr; [|discriminate].
      destruct (run_code_agree _ _ _ _ _ _ Hr) as [-> Hl2].
      destruct (0 <? c_pop cf).
      + destruct (do_pop VmD (c_pop cf) m2) as [m3|] eqn:Hp; [|discriminate].
        destruct (do_pop_agree _ _ _ Hp) as [-> Hl3]. inv H. split; [reflexivity|congruence].
      + inv H. auto.
  Qed.

  Lemma run_lets_agree : forall lets r m r' m',
    run_lets VmD mfv now r lets m = Some (r', m') ->
    run_lets WasmD mfw now r lets m = Some (r', m') /\ length (m_words m') = length (m_words m).
  Proof.
    induction lets as [|[x k] lets IH]; intros r m r' m' H; cbn [run_lets] in *.
    - inv H. auto.
    - destruct (run_code VmD mfv now 0%Z r k m) as [[v m1]|] eqn:Hr; [|discriminate].
      destruct (run_code_agree _ _ _ _ _ _ Hr) as [-> Hl1]. destruct (IH _ _ _ _ H) as [-> Hl2].
      split; [reflexivity|congruence].
  Qed.

  Lemma run_outs_agree : forall outs r m vs m',
    run_outs VmD mfv now r outs m = Some (vs, m') ->
    run_outs WasmD mfw now r outs m = Some (vs, m') /\ length (m_words m') = length (m_words m).
  Proof.
    induction outs as [|k outs IH]; intros r m vs m' H; cbn [run_outs] in *.
    - inv H. auto.
    - destruct (run_code VmD mfv now 0%Z r k m) as [[v m1]|] eqn:Hr; [|discriminate].
      destruct (run_outs VmD mfv now r outs m1) as [[vs' m2]|] eqn:Ho; [|discriminate]. inv H.
      destruct (run_code_agree _ _ _ _ _ _ Hr) as [-> Hl1]. destruct (IH _ _ _ _ Ho) as [-> Hl2].
      split; [reflexivity|congruence].
  Qed.
End Agree.

Lemma mach_fenv_agree : forall now ce l, fenv_agree (mach_fenv VmD now ce l) (mach_fenv WasmD now ce l).
Proof.
  intros now ce. induction l as [|fd l IH]; intros f fv Hf; cbn [mach_fenv] in *.
  - discriminate.
  - destruct (N.eqb f (f_name fd)).
    + destruct (ce f) as [cf|]; [|discriminate]. inv Hf. eexists. split; [reflexivity|].
      apply mach_call_agree. exact IH.
    + apply IH. exact Hf.
Qed.

Lemma mach_step_agree : forall p cp now inputs m outs m',
  length (m_words m) = N.to_nat (size (published_skeleton cp)) ->
  mach_step VmD p cp now inputs m = Some (outs, m') ->
  mach_step WasmD p cp now inputs m = Some (outs, m') /\
  length (m_words m') = N.to_nat (size (published_skeleton cp)).
Proof.
  intros p cp now inputs m outs m' Hlen H. unfold mach_step in *.
  rewrite <- Hlen, resize_words_id in H.
  pose proof (mach_fenv_agree now (cp_fenv cp) (rev (p_funs p))) as Hfe.
  destruct (bind_params (cp_inputs cp) inputs) as [r0|]; [|discriminate].
  destruct (run_lets VmD _ now r0 (cp_lets cp) _) as [[r1 m1]|] eqn:Hl; [|discriminate].
  destruct (run_lets_agree now _ _ Hfe _ _ _ _ _ Hl) as [-> Hl1].
  destruct (run_outs VmD _ now r1 (cp_outs cp) m1) as [[vs m2]|] eqn:Ho; [|discriminate].
  destruct (run_outs_agree now _ _ Hfe _ _ _ _ _ Ho) as [-> Hl2].
  cbn [m_words] in Hl1.
  destruct (0 <? cp_pop cp).
  - destruct (do_pop VmD (cp_pop cp) m2) as [m3|] eqn:Hp; [|discriminate]. inv H.
    destruct (do_pop_agree _ _ _ Hp) as [-> Hl3]. split; [reflexivity|congruence].
  - inv H. split; [reflexivity|congruence].
Qed.

Lemma mach_run_agree : forall p cp rows t0 m,
  length (m_words m) = N.to_nat (size (published_skeleton cp)) ->
  ~ In None (mach_run VmD p cp t0 rows m) ->
  mach_run WasmD p cp t0 rows m = mach_run VmD p cp t0 rows m.
Proof.
  intros p cp. induction rows as [|i rows IH]; intros t0 m Hlen Hnf; cbn [mach_run] in *; [reflexivity|].
  destruct (mach_step VmD p cp t0 i m) as [[o m']|] eqn:Hs.
  - destruct (mach_step_agree _ _ _ _ _ _ _ Hlen Hs) as [-> Hl']. f_equal. apply IH; [exact Hl'|].
    intros Hin. apply Hnf. right. exact Hin.
  - exfalso. apply Hnf. left. reflexivity.
Qed.

(* C01_agree_unless_fault *)
Theorem agree_unless_fault : forall p cp t0 rows w,
  compile p = Some cp -> length w = N.to_nat (size (published_skeleton cp)) ->
  ~ In None (mach_run VmD p cp t0 rows (mkM w 0%N [])) ->
  mach_run WasmD p cp t0 rows (mkM w 0%N []) = mach_run VmD p cp t0 rows (mkM w 0%N []).
Proof. intros p cp t0 rows w _ Hlen Hnf. apply mach_run_agree; assumption. Qed.

Lemma mach_step_vm_resized : forall p cp now inputs m,
  mach_step VmD p cp now inputs m =
  mach_step VmD p cp now inputs (mkM (resize_words (m_words m) (N.to_nat (size (published_skeleton cp)))) (m_pos m) []).
Proof.
  intros. unfold mach_step. cbn [m_words m_pos].
  pose proof (resize_words_id (resize_words (m_words m) (N.to_nat (size (published_skeleton cp))))) as H.
  rewrite resize_words_length in H. rewrite H. reflexivity.
Qed.

(* C01_core_agree *)
Theorem core_agree : forall p cp t0 rows,
  compile p = Some cp -> wf_prog p = true -> rows_ok p rows ->
  mach_run WasmD p cp t0 rows (mkM (repeat 0%Z (N.to_nat (size (published_skeleton cp)))) 0%N [])
  = mach_run VmD p cp t0 rows m0.
Proof.
  intros p cp t0 rows Hc Hwf Hrows.
  assert (Heq : mach_run VmD p cp t0 rows m0 =
                mach_run VmD p cp t0 rows (mkM (repeat 0%Z (N.to_nat (size (published_skeleton cp)))) 0%N [])).
  { destruct rows as [|i rows]; [reflexivity|]. cbn [mach_run]. rewrite (mach_step_vm_resized p cp t0 i m0).
    unfold m0. cbn [m_words m_pos]. unfold resize_words at 1. cbn [length]. rewrite firstn_nil, Nat.sub_0_r. reflexivity. }
  rewrite Heq. apply mach_run_agree.
  - cbn [m_words]. apply repeat_length.
  - rewrite <- Heq. intros Hin.
    pose proof (run_layout_exact p cp t0 rows Hc Hwf Hrows) as Hall.
    rewrite Forall_forall in Hall. destruct (Hall None Hin) as (o & w & tr & Hnone & _). discriminate.
Qed.
