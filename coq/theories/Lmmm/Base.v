(* Lmmm/Base.v — induction principles, top-level mirrors of the local fixpoints, word/leaves lemmas *)
From Coq Require Import List ZArith NArith Bool Lia.
From Mimium Require Import StateTree.Model Lmmm.Syntax Lmmm.Ref Lmmm.Compile Lmmm.Machine Lmmm.Wf Lmmm.Spec.
Import ListNotations.
Local Open Scope N_scope.

(* ---------- nested induction principles ---------- *)
Section SkelInd.
  Variable P : skel -> Prop.
  Hypothesis HD : forall l, P (Delay l).
  Hypothesis HM : forall n, P (Mem n).
  Hypothesis HF : forall n, P (Feed n).
  Hypothesis HC : forall cs, Forall P cs -> P (FnCall cs).
  Fixpoint skel_ind_l (s : skel) : P s :=
    match s with
    | Delay l => HD l
    | Mem n => HM n
    | Feed n => HF n
    | FnCall cs =>
        HC cs ((fix go (l : list skel) : Forall P l :=
                  match l with
                  | [] => Forall_nil P
                  | x :: xs => Forall_cons x (skel_ind_l x) (go xs)
                  end) cs)
    end.
End SkelInd.

Section ExprInd.
  Variable P : expr -> Prop.
  Hypothesis HLit : forall z, P (ELit z).
  Hypothesis HVar : forall x, P (EVar x).
  Hypothesis HNow : P ENow.
  Hypothesis HSr : P ESr.
  Hypothesis HSelf : P ESelf.
  Hypothesis HBin : forall op a b, P a -> P b -> P (EBin op a b).
  Hypothesis HNeg : forall a, P a -> P (ENeg a).
  Hypothesis HLet : forall x a b, P a -> P b -> P (ELet x a b).
  Hypothesis HIf : forall c t e, P c -> P t -> P e -> P (EIf c t e).
  Hypothesis HCall : forall f args, Forall P args -> P (ECall f args).
  Hypothesis HMem : forall a, P a -> P (EMem a).
  Hypothesis HDelay : forall n a t, P a -> P t -> P (EDelay n a t).
  Fixpoint expr_ind' (e : expr) : P e :=
    match e with
    | ELit z => HLit z
    | EVar x => HVar x
    | ENow => HNow
    | ESr => HSr
    | ESelf => HSelf
    | EBin op a b => HBin op a b (expr_ind' a) (expr_ind' b)
    | ENeg a => HNeg a (expr_ind' a)
    | ELet x a b => HLet x a b (expr_ind' a) (expr_ind' b)
    | EIf c t e' => HIf c t e' (expr_ind' c) (expr_ind' t) (expr_ind' e')
    | ECall f args =>
        HCall f args ((fix go (l : list expr) : Forall P l :=
                         match l with
                         | [] => Forall_nil P
                         | x :: xs => Forall_cons x (expr_ind' x) (go xs)
                         end) args)
    | EMem a => HMem a (expr_ind' a)
    | EDelay n a t => HDelay n a t (expr_ind' a) (expr_ind' t)
    end.
End ExprInd.

Section CodeInd.
  Variable P : code -> Prop.
  Hypothesis HLit : forall z, P (KLit z).
  Hypothesis HVar : forall x, P (KVar x).
  Hypothesis HNow : P KNow.
  Hypothesis HSr : P KSr.
  Hypothesis HSelf : P KSelf.
  Hypothesis HBin : forall op a b, P a -> P b -> P (KBin op a b).
  Hypothesis HNeg : forall a, P a -> P (KNeg a).
  Hypothesis HLet : forall x a b, P a -> P b -> P (KLet x a b).
  Hypothesis HIf : forall c p0 t pt pad e pe, P c -> P t -> P e -> P (KIf c p0 t pt pad e pe).
  Hypothesis HCall : forall f args push, Forall P args -> P (KCall f args push).
  Hypothesis HMem : forall a push, P a -> P (KMem a push).
  Hypothesis HDelay : forall n a t push, P a -> P t -> P (KDelay n a t push).
  Fixpoint code_ind' (k : code) : P k :=
    match k with
    | KLit z => HLit z
    | KVar x => HVar x
    | KNow => HNow
    | KSr => HSr
    | KSelf => HSelf
    | KBin op a b => HBin op a b (code_ind' a) (code_ind' b)
    | KNeg a => HNeg a (code_ind' a)
    | KLet x a b => HLet x a b (code_ind' a) (code_ind' b)
    | KIf c p0 t pt pad e pe => HIf c p0 t pt pad e pe (code_ind' c) (code_ind' t) (code_ind' e)
    | KCall f args push =>
        HCall f args push ((fix go (l : list code) : Forall P l :=
                         match l with
                         | [] => Forall_nil P
                         | x :: xs => Forall_cons x (code_ind' x) (go xs)
                         end) args)
    | KMem a push => HMem a push (code_ind' a)
    | KDelay n a t push => HDelay n a t push (code_ind' a) (code_ind' t)
    end.
End CodeInd.

(* ---------- top-level mirrors of the local fixpoints ---------- *)
Definition compile_args (fe : cenv) : list expr -> cctx -> option (list code * list skel * cctx) :=
  fix go (l : list expr) (c : cctx) : option (list code * list skel * cctx) :=
  match l with
  | [] => Some ([], [], c)
  | a :: l' =>
      match compile_expr fe a c with
      | Some (ka, sa, c1) =>
          match go l' c1 with
          | Some (ks, ss, c2) => Some (ka :: ks, sa ++ ss, c2)
          | None => None
          end
      | None => None
      end
  end.

Lemma compile_args_cons : forall fe a l c,
  compile_args fe (a :: l) c =
  match compile_expr fe a c with
  | Some (ka, sa, c1) =>
      match compile_args fe l c1 with
      | Some (ks, ss, c2) => Some (ka :: ks, sa ++ ss, c2)
      | None => None
      end
  | None => None
  end.
Proof. reflexivity. Qed.

Lemma compile_call_eq : forall fe f args c,
  compile_expr fe (ECall f args) c =
  match compile_args fe args c with
  | Some (ks, ss, c1) =>
      match fe f with
      | Some cf =>
          if Nat.eqb (length (c_params cf)) (length args) then
            match c_skel cf with
            | [] => Some (KCall f ks None, ss, c1)
            | sk =>
                let '(push, (_, ps)) := consume c1 in
                Some (KCall f ks push, ss ++ [FnCall sk], (Some (skels_size sk), ps))
            end
          else None
      | None => None
      end
  | None => None
  end.
Proof. reflexivity. Qed.

Definition run_args (d : disc) (fenv : ident -> option mach_fn) (now selfv : Z) (r : env)
  : list code -> mstate -> option (list Z * mstate) :=
  fix go (l : list code) (m : mstate) : option (list Z * mstate) :=
  match l with
  | [] => Some ([], m)
  | a :: l' =>
      match run_code d fenv now selfv r a m with
      | Some (v, m1) =>
          match go l' m1 with
          | Some (vs, m2) => Some (v :: vs, m2)
          | None => None
          end
      | None => None
      end
  end.

Lemma run_args_cons : forall d fenv now selfv r a l m,
  run_args d fenv now selfv r (a :: l) m =
  match run_code d fenv now selfv r a m with
  | Some (v, m1) =>
      match run_args d fenv now selfv r l m1 with
      | Some (vs, m2) => Some (v :: vs, m2)
      | None => None
      end
  | None => None
  end.
Proof. reflexivity. Qed.

Lemma run_call_eq : forall d fenv now selfv r f args push m,
  run_code d fenv now selfv r (KCall f args push) m =
  match run_args d fenv now selfv r args m with
  | Some (vs, m1) =>
      match fenv f with
      | Some fn => fn vs (opt_push push m1)
      | None => None
      end
  | None => None
  end.
Proof. reflexivity. Qed.

Definition ref_args (fenv : ident -> option ref_fn) (now selfv : Z) (r : env) (s : stree)
  : list expr -> nat -> option (list Z * list stree) :=
  fix go (l : list expr) (i : nat) : option (list Z * list stree) :=
  match l with
  | [] => Some ([], [])
  | a :: l' =>
      match ref_eval fenv now selfv r a (kid s i) with
      | Some (v, k) =>
          match go l' (S i) with
          | Some (vs, ks) => Some (v :: vs, k :: ks)
          | None => None
          end
      | None => None
      end
  end.

Lemma ref_args_cons : forall fenv now selfv r s a l i,
  ref_args fenv now selfv r s (a :: l) i =
  match ref_eval fenv now selfv r a (kid s i) with
  | Some (v, k) =>
      match ref_args fenv now selfv r s l (S i) with
      | Some (vs, ks) => Some (v :: vs, k :: ks)
      | None => None
      end
  | None => None
  end.
Proof. reflexivity. Qed.

Lemma ref_call_eq : forall fenv now selfv r f args s,
  ref_eval fenv now selfv r (ECall f args) s =
  match ref_args fenv now selfv r s args O with
  | Some (vs, ks) =>
      match fenv f with
      | Some fn =>
          match fn vs (kid s (length args)) with
          | Some (v, ki) => Some (v, ST CNone (ks ++ [ki]))
          | None => None
          end
      | None => None
      end
  | None => None
  end.
Proof. reflexivity. Qed.

(* ---------- flat words ---------- *)
Lemma set_nth_length : forall l i v, length (set_nth l i v) = length l.
Proof. induction l as [|x l IH]; intros [|i] v; cbn [set_nth length]; auto. Qed.

Lemma nth_set_nth : forall l i v j d,
  nth j (set_nth l i v) d = if (Nat.eqb j i && Nat.ltb i (length l))%bool then v else nth j l d.
Proof.
  induction l as [|x l IH]; intros [|i] v [|j] dflt; cbn [set_nth nth length]; auto.
  - rewrite Bool.andb_false_r. reflexivity.
  - rewrite IH. reflexivity.
Qed.

Lemma rd_wr : forall m i v j,
  rd (wr m i v) j = if (N.eqb j i && (i <? N.of_nat (length (m_words m))))%bool then v else rd m j.
Proof.
  intros m i v j. unfold rd, wr. cbn [m_words]. rewrite nth_set_nth.
  destruct (N.eqb_spec j i) as [->|Hne].
  - rewrite Nat.eqb_refl. cbn [andb].
    destruct (N.ltb_spec i (N.of_nat (length (m_words m)))) as [Hl|Hl];
      destruct (Nat.ltb_spec (N.to_nat i) (length (m_words m))) as [Hl'|Hl']; try reflexivity; lia.
  - destruct (Nat.eqb_spec (N.to_nat j) (N.to_nat i)) as [He|He]; [lia|reflexivity].
Qed.

Lemma wr_length : forall m i v, length (m_words (wr m i v)) = length (m_words m).
Proof. intros. unfold wr. cbn [m_words]. apply set_nth_length. Qed.

Lemma wr_pos : forall m i v, m_pos (wr m i v) = m_pos m.
Proof. reflexivity. Qed.
Lemma wr_trace : forall m i v, m_trace (wr m i v) = m_trace m.
Proof. reflexivity. Qed.

Lemma ensure_ok : forall d need m, need <= N.of_nat (length (m_words m)) -> ensure d need m = Some m.
Proof.
  intros d need m H. unfold ensure.
  destruct (N.leb_spec need (N.of_nat (length (m_words m)))); [reflexivity|lia].
Qed.

(* ---------- skeleton sizes and leaves ---------- *)
Lemma skels_size_app : forall a b, skels_size (a ++ b) = skels_size a + skels_size b.
Proof.
  intros a b. induction a as [|x a IH].
  - reflexivity.
  - change (size x + skels_size (a ++ b) = size x + skels_size a + skels_size b). rewrite IH. lia.
Qed.

Lemma skels_size_cons : forall x a, skels_size (x :: a) = size x + skels_size a.
Proof. reflexivity. Qed.

Lemma skels_size_nil : skels_size [] = 0.
Proof. reflexivity. Qed.

Lemma size_FnCall_skels : forall cs, size (FnCall cs) = skels_size cs.
Proof. reflexivity. Qed.

Definition leaves_list : list skel -> N -> list (skel * N) :=
  fix go (l : list skel) (b : N) : list (skel * N) :=
    match l with [] => [] | c :: l' => leaves c b ++ go l' (b + size c) end.

Lemma leaves_FnCall : forall cs b, leaves (FnCall cs) b = leaves_list cs b.
Proof. reflexivity. Qed.

Lemma leaves_list_cons : forall c l b, leaves_list (c :: l) b = leaves c b ++ leaves_list l (b + size c).
Proof. reflexivity. Qed.

Lemma leaves_list_app : forall a b lo,
  leaves_list (a ++ b) lo = leaves_list a lo ++ leaves_list b (lo + skels_size a).
Proof.
  induction a as [|x a IH]; intros b lo.
  - cbn [app leaves_list]. rewrite skels_size_nil, N.add_0_r. reflexivity.
  - cbn [app]. rewrite !leaves_list_cons, IH, skels_size_cons, app_assoc_reverse, N.add_assoc. reflexivity.
Qed.

Lemma leaves_bound : forall sk lo s pos, In (s, pos) (leaves sk lo) -> lo <= pos /\ pos + size s <= lo + size sk.
Proof.
  induction sk as [l|n|n|cs IH] using skel_ind_l; intros lo s pos Hin;
    try (cbn [leaves In] in Hin; destruct Hin as [Hin|[]]; inversion Hin; subst; lia).
  rewrite leaves_FnCall in Hin. rewrite size_FnCall_skels.
  revert lo Hin. induction IH as [|c cs Hc _ IHcs]; intros lo Hin.
  - destruct Hin.
  - rewrite leaves_list_cons in Hin. rewrite skels_size_cons. apply in_app_or in Hin. destruct Hin as [Hin|Hin].
    + apply Hc in Hin. lia.
    + apply IHcs in Hin. lia.
Qed.

Lemma event_at_incl : forall sk1 lo1 sk2 lo2 ev,
  incl (leaves sk1 lo1) (leaves sk2 lo2) -> event_at sk1 lo1 ev -> event_at sk2 lo2 ev.
Proof.
  intros sk1 lo1 sk2 lo2 [[k pos] sz] Hincl H. unfold event_at in *.
  destruct k as [|p]; [|destruct p as [q|q|]; [|destruct q|]]; auto.
  - destruct H as [H1 H2]. auto.
  - destruct H as [n [H1 H2]]. exists n. auto.
  - destruct H as [[H1|H1] H2]; auto.
Qed.

Lemma event_at_app_l : forall a b lo ev, event_at (FnCall a) lo ev -> event_at (FnCall (a ++ b)) lo ev.
Proof.
  intros a b lo ev. apply event_at_incl. rewrite !leaves_FnCall, leaves_list_app. apply incl_appl, incl_refl.
Qed.

Lemma event_at_app_r : forall a b lo lo' ev, lo' = lo + skels_size a ->
  event_at (FnCall b) lo' ev -> event_at (FnCall (a ++ b)) lo ev.
Proof.
  intros a b lo lo' ev ->. apply event_at_incl. rewrite !leaves_FnCall, leaves_list_app. apply incl_appr, incl_refl.
Qed.

Lemma event_at_single : forall s lo ev, event_at s lo ev -> event_at (FnCall [s]) lo ev.
Proof.
  intros s lo ev. apply event_at_incl. rewrite leaves_FnCall, leaves_list_cons. apply incl_appl, incl_refl.
Qed.

Lemma event_at_push : forall sk lo p s, event_at sk lo (3, p, s).
Proof. intros. exact I. Qed.
Lemma event_at_pop : forall sk lo p s, event_at sk lo (4, p, s).
Proof. intros. exact I. Qed.

(* ---------- the compile-time context: `eff` (push_sum + pending offset) lives in Spec.v ---------- *)

(* ---------- the run invariant ---------- *)
Definition run_ok (lo hi pos' : N) (P : N * N * N -> Prop) (m m' : mstate) : Prop :=
  m_pos m' = pos' /\ length (m_words m') = length (m_words m) /\
  (forall i, i < lo \/ hi <= i -> rd m' i = rd m i) /\
  exists evs, m_trace m' = evs ++ m_trace m /\ Forall P evs.

Lemma run_ok_refl : forall lo hi P m, run_ok lo hi (m_pos m) P m m.
Proof. intros. repeat split; auto. exists []. split; auto. Qed.

Lemma run_ok_trans : forall lo hi (P : N * N * N -> Prop) lo1 hi1 p1 (P1 : N * N * N -> Prop) lo2 hi2 p2 (P2 : N * N * N -> Prop) m m1 m2,
  run_ok lo1 hi1 p1 P1 m m1 -> run_ok lo2 hi2 p2 P2 m1 m2 ->
  (lo <= lo1 \/ hi1 <= lo1) -> hi1 <= hi \/ hi1 <= lo1 -> lo <= lo2 \/ hi2 <= lo2 -> hi2 <= hi \/ hi2 <= lo2 ->
  (forall ev, P1 ev -> P ev) -> (forall ev, P2 ev -> P ev) ->
  run_ok lo hi p2 P m m2.
Proof.
  intros lo hi P lo1 hi1 p1 P1 lo2 hi2 p2 P2 m m1 m2 (Hp1 & Hl1 & Hf1 & evs1 & Ht1 & HP1)
         (Hp2 & Hl2 & Hf2 & evs2 & Ht2 & HP2) Ha Hb Hc Hd HPa HPb.
  split; [exact Hp2|]. split; [congruence|]. split.
  - intros i Hi. rewrite Hf2 by lia. rewrite Hf1 by lia. reflexivity.
  - exists (evs2 ++ evs1). split.
    + rewrite Ht2, Ht1, app_assoc. reflexivity.
    + apply Forall_app. split; [apply (Forall_impl P HPb HP2) | apply (Forall_impl P HPa HP1)].
Qed.
