(* Lmmm/Sim.v — C02: one-step simulation for expressions (reference tree vs flat words). *)
From Coq Require Import List ZArith NArith Bool Lia Arith.
From Mimium Require Import StateTree.Model Lmmm.Syntax Lmmm.Ref Lmmm.Compile Lmmm.Machine Lmmm.Wf Lmmm.Spec
  Lmmm.Base Lmmm.Layout Lmmm.Prims Lmmm.Flat Lmmm.Preserve.
Import ListNotations.
Local Open Scope N_scope.

Ltac inv H := inversion H; subst; clear H.

Lemma pad_push_frame : forall n m lo hi,
  frame_ok lo hi (m_pos m + n) m (if 0 <? n then do_push n m else m).
Proof.
  intros n m lo hi. destruct (N.ltb_spec 0 n) as [Hp|Hz].
  - apply (opt_push_frame (Some n)).
  - replace (m_pos m + n) with (m_pos m) by lia. apply frame_ok_refl.
Qed.

Section Sim.
  Variable d : disc.
  Variable now : Z.
  Variable g : sigenv.
  Variable ce : cenv.
  Variable rf : ident -> option ref_fn.
  Variable mf : ident -> option mach_fn.
  Variable ffe : ident -> option flat_fn.
  Hypothesis Hsig : sig_ok g ce.
  Hypothesis Hfe : fenv_ok ce mf.
  Hypothesis Hsim : fenv_sim ce rf mf ffe.

  Lemma FL : forall e in_fun vars c k ss c' s,
    compile_expr ce e c = Some (k, ss, c') -> wf_expr g in_fun vars e = true ->
    N.of_nat (length (flat_expr ffe e s)) = skels_size ss.
  Proof. exact (flat_len g ce rf mf ffe Hsim). Qed.

  Definition sim_spec (vars : list ident) (e : expr) (k : code) (ss : list skel) (c c' : cctx) : Prop :=
    forall r m base svr svm s,
      env_ok vars r -> (uses_self e = true -> svr = svm) ->
      m_pos m = base + snd c ->
      base + eff c + skels_size ss <= N.of_nat (length (m_words m)) ->
      seg_is m (base + eff c) (flat_expr ffe e s) ->
      exists v s' m',
        ref_eval rf now svr r e s = Some (v, s') /\
        run_code d mf now svm r k m = Some (v, m') /\
        frame_ok (base + eff c) (base + eff c + skels_size ss) (base + snd c') m m' /\
        seg_is m' (base + eff c) (flat_expr ffe e s').

  Definition args_sim_spec (vars : list ident) (args : list expr) (ks : list code) (ss : list skel) (c c' : cctx) : Prop :=
    forall i r m base svr svm s,
      env_ok vars r -> (existsb uses_self args = true -> svr = svm) ->
      m_pos m = base + snd c ->
      base + eff c + skels_size ss <= N.of_nat (length (m_words m)) ->
      seg_is m (base + eff c) (flat_args ffe s args i) ->
      exists vs kids m',
        ref_args rf now svr r s args i = Some (vs, kids) /\
        run_args d mf now svm r ks m = Some (vs, m') /\
        length vs = length args /\ length kids = length args /\
        frame_ok (base + eff c) (base + eff c + skels_size ss) (base + snd c') m m' /\
        seg_is m' (base + eff c) (flat_list ffe args kids).

  Lemma sim_pure : forall vars e k c,
    (forall s, flat_expr ffe e s = []) ->
    (forall r svr svm s, env_ok vars r -> (uses_self e = true -> svr = svm) ->
       exists v s', ref_eval rf now svr r e s = Some (v, s') /\
                    forall m, run_code d mf now svm r k m = Some (v, m)) ->
    sim_spec vars e k [] c c.
  Proof.
    intros vars e k c Hflat H r m base svr svm s Hr Hsv Hpos Hbd Hseg.
    destruct (H r svr svm s Hr Hsv) as (v & s' & Hre & Hru). exists v, s', m.
    split; [exact Hre|]. split; [apply Hru|]. split; [rewrite <- Hpos; apply frame_ok_refl|].
    rewrite Hflat. apply seg_is_nil.
  Qed.

  Lemma sim_ok : forall e in_fun vars c k ss c',
    compile_expr ce e c = Some (k, ss, c') -> wf_expr g in_fun vars e = true ->
    sim_spec vars e k ss c c'.
  Proof.
    induction e as [z|x| | | |op a b IHa IHb|a IHa|x a b IHa IHb|cn t e' IHc IHt IHe|f args IHargs|a IHa|n a t IHa IHt]
      using expr_ind'; intros in_fun vars c k ss c' Hc Hwf;
      pose proof (expr_ok d now g ce mf Hsig Hfe _ _ _ _ _ _ _ Hc Hwf) as [Eall _]; cbn [wf_expr] in Hwf.
    - cbn [compile_expr] in Hc. inv Hc. apply sim_pure; [reflexivity|]. intros. do 2 eexists. split; reflexivity.
    - cbn [compile_expr] in Hc. inv Hc. apply sim_pure; [reflexivity|]. intros r svr svm s Hr _.
      destruct (Hr x Hwf) as [v Hv]. exists v, st0. cbn [ref_eval run_code]. rewrite Hv. split; reflexivity.
    - cbn [compile_expr] in Hc. inv Hc. apply sim_pure; [reflexivity|]. intros. do 2 eexists. split; reflexivity.
    - cbn [compile_expr] in Hc. inv Hc. apply sim_pure; [reflexivity|]. intros. do 2 eexists. split; reflexivity.
    - cbn [compile_expr] in Hc. inv Hc. apply sim_pure; [reflexivity|]. intros r svr svm s Hr Hsv.
      rewrite (Hsv eq_refl). do 2 eexists. split; reflexivity.
    - (* EBin *)
      apply andb_prop in Hwf. destruct Hwf as [Hwa Hwb]. cbn [compile_expr] in Hc.
      destruct (compile_expr ce a c) as [[[ka sa] c1]|] eqn:Ha; [|discriminate].
      destruct (compile_expr ce b c1) as [[[kb sb] c2]|] eqn:Hb; [|discriminate]. inv Hc.
      destruct (expr_ok d now g ce mf Hsig Hfe _ _ _ _ _ _ _ Ha Hwa) as [Ea _].
      pose proof (IHa _ _ _ _ _ _ Ha Hwa) as Sa. pose proof (IHb _ _ _ _ _ _ Hb Hwb) as Sb.
      intros r m base svr svm s Hr Hsv Hpos Hbd Hseg. cbn [flat_expr] in Hseg. cbn [uses_self] in Hsv.
      apply seg_is_app in Hseg. destruct Hseg as [Hsega Hsegb].
      rewrite (FL _ _ _ _ _ _ _ (kid s 0) Ha Hwa) in Hsegb.
      destruct (Sa r m base svr svm (kid s 0) Hr ltac:(intros H; apply Hsv; rewrite H; reflexivity) Hpos ltac:(sz) Hsega)
        as (va & ka' & m1 & Hrefa & Hruna & Hfa & Hsega').
      pose proof Hfa as (Hp1 & Hl1 & _).
      replace (base + eff c + skels_size sa) with (base + eff c1) in Hsegb by lia.
      assert (Hsegb1 : seg_is m1 (base + eff c1) (flat_expr ffe b (kid s 1)))
        by (eapply seg_is_frame; [exact Hsegb|exact Hfa|lia]).
      destruct (Sb r m1 base svr svm (kid s 1) Hr ltac:(intros H; apply Hsv; rewrite H; apply orb_true_r) Hp1 ltac:(rewrite Hl1; sz) Hsegb1)
        as (vb & kb' & m2 & Hrefb & Hrunb & Hfb & Hsegb').
      exists (eval_binop op va vb), (ST CNone [ka'; kb']), m2.
      split; [cbn [ref_eval]; rewrite Hrefa, Hrefb; reflexivity|].
      split; [cbn [run_code]; rewrite Hruna, Hrunb; reflexivity|].
      split; [eapply frame_ok_trans; [exact Hfa|exact Hfb|try sz..]|].
      cbn [flat_expr kid nth]. apply seg_is_app.
      rewrite (FL _ _ _ _ _ _ _ ka' Ha Hwa). split.
      + eapply seg_is_frame; [exact Hsega'|exact Hfb|].
        rewrite (FL _ _ _ _ _ _ _ ka' Ha Hwa). lia.
      + replace (base + eff c + skels_size sa) with (base + eff c1) by lia. exact Hsegb'.
    - (* ENeg *)
      cbn [compile_expr] in Hc.
      destruct (compile_expr ce a c) as [[[ka sa] c1]|] eqn:Ha; [|discriminate]. inv Hc.
      pose proof (IHa _ _ _ _ _ _ Ha Hwf) as Sa.
      intros r m base svr svm s Hr Hsv Hpos Hbd Hseg. cbn [flat_expr] in Hseg. cbn [uses_self] in Hsv.
      destruct (Sa r m base svr svm (kid s 0) Hr Hsv Hpos Hbd Hseg) as (va & ka' & m1 & Hrefa & Hruna & Hfa & Hsega').
      exists (- va)%Z, (ST CNone [ka']), m1.
      split; [cbn [ref_eval]; rewrite Hrefa; reflexivity|].
      split; [cbn [run_code]; rewrite Hruna; reflexivity|]. split; [exact Hfa|]. exact Hsega'.
    - (* ELet *)
      apply andb_prop in Hwf. destruct Hwf as [Hwa Hwb]. cbn [compile_expr] in Hc.
      destruct (compile_expr ce a c) as [[[ka sa] c1]|] eqn:Ha; [|discriminate].
      destruct (compile_expr ce b c1) as [[[kb sb] c2]|] eqn:Hb; [|discriminate]. inv Hc.
      destruct (expr_ok d now g ce mf Hsig Hfe _ _ _ _ _ _ _ Ha Hwa) as [Ea _].
      pose proof (IHa _ _ _ _ _ _ Ha Hwa) as Sa. pose proof (IHb _ _ _ _ _ _ Hb Hwb) as Sb.
      intros r m base svr svm s Hr Hsv Hpos Hbd Hseg. cbn [flat_expr] in Hseg. cbn [uses_self] in Hsv.
      apply seg_is_app in Hseg. destruct Hseg as [Hsega Hsegb].
      rewrite (FL _ _ _ _ _ _ _ (kid s 0) Ha Hwa) in Hsegb.
      destruct (Sa r m base svr svm (kid s 0) Hr ltac:(intros H; apply Hsv; rewrite H; reflexivity) Hpos ltac:(sz) Hsega)
        as (va & ka' & m1 & Hrefa & Hruna & Hfa & Hsega').
      pose proof Hfa as (Hp1 & Hl1 & _).
      replace (base + eff c + skels_size sa) with (base + eff c1) in Hsegb by lia.
      assert (Hsegb1 : seg_is m1 (base + eff c1) (flat_expr ffe b (kid s 1)))
        by (eapply seg_is_frame; [exact Hsegb|exact Hfa|lia]).
      destruct (Sb ((x, va) :: r) m1 base svr svm (kid s 1) (env_ok_cons _ _ _ _ Hr)
                   ltac:(intros H; apply Hsv; rewrite H; apply orb_true_r) Hp1 ltac:(rewrite Hl1; sz) Hsegb1)
        as (vb & kb' & m2 & Hrefb & Hrunb & Hfb & Hsegb').
      exists vb, (ST CNone [ka'; kb']), m2.
      split; [cbn [ref_eval]; rewrite Hrefa, Hrefb; reflexivity|].
      split; [cbn [run_code]; rewrite Hruna, Hrunb; reflexivity|].
      split; [eapply frame_ok_trans; [exact Hfa|exact Hfb|try sz..]|].
      cbn [flat_expr kid nth]. apply seg_is_app.
      rewrite (FL _ _ _ _ _ _ _ ka' Ha Hwa). split.
      + eapply seg_is_frame; [exact Hsega'|exact Hfb|].
        rewrite (FL _ _ _ _ _ _ _ ka' Ha Hwa). lia.
      + replace (base + eff c + skels_size sa) with (base + eff c1) by lia. exact Hsegb'.
    - (* EIf *)
      apply andb_prop in Hwf. destruct Hwf as [Hwf Hwe]. apply andb_prop in Hwf. destruct Hwf as [Hwc Hwt].
      cbn [compile_expr] in Hc.
      destruct (compile_expr ce cn c) as [[[kc sc] c1]|] eqn:Hcc; [|discriminate].
      destruct (consume c1) as [push0 [o0 ps0]] eqn:Hcons0.
      destruct (compile_expr ce t (None, ps0)) as [[[kt st] c2]|] eqn:Hct; [|discriminate].
      destruct (consume c2) as [pusht [ot pst]] eqn:Hconst.
      destruct (compile_expr ce e' (if 0 <? skels_size st then Some (skels_size st) else None, ps0))
        as [[[ke se] c3]|] eqn:Hce; [|discriminate].
      destruct (consume c3) as [pushe [oe pse]] eqn:Hconse. inv Hc.
      destruct (expr_ok d now g ce mf Hsig Hfe _ _ _ _ _ _ _ Hcc Hwc) as [Ec _].
      destruct (expr_ok d now g ce mf Hsig Hfe _ _ _ _ _ _ _ Hct Hwt) as [Et _].
      destruct (expr_ok d now g ce mf Hsig Hfe _ _ _ _ _ _ _ Hce Hwe) as [Ee _].
      rewrite eff_none in Et. rewrite eff_ifpos in Ee.
      pose proof (IHc _ _ _ _ _ _ Hcc Hwc) as Sc. pose proof (IHt _ _ _ _ _ _ Hct Hwt) as St.
      pose proof (IHe _ _ _ _ _ _ Hce Hwe) as Se.
      unfold sim_spec in St, Se. rewrite eff_none in St. rewrite eff_ifpos in Se. cbn [snd] in St, Se.
      assert (Hps0 : ps0 = eff c1) by (destruct c1 as [[o1|] ps1]; cbn [consume] in Hcons0; inv Hcons0; rewrite ?eff_some, ?eff_none; reflexivity).
      intros r m base svr svm s Hr Hsv Hpos Hbd Hseg. cbn [flat_expr] in Hseg. cbn [uses_self] in Hsv.
      apply seg_is_app in Hseg. destruct Hseg as [Hsegc Hseg]. apply seg_is_app in Hseg. destruct Hseg as [Hsegt Hsege].
      rewrite (FL _ _ _ _ _ _ _ (kid s 0) Hcc Hwc) in Hsegt, Hsege. rewrite (FL _ _ _ _ _ _ _ (kid s 1) Hct Hwt) in Hsege.
      replace (base + eff c + skels_size sc) with (base + ps0) in Hsegt, Hsege by lia.
      destruct (Sc r m base svr svm (kid s 0) Hr ltac:(intros H; apply Hsv; rewrite H; reflexivity) Hpos ltac:(sz) Hsegc)
        as (vc & kc' & m1 & Hrefc & Hrunc & Hfc & Hsegc').
      pose proof Hfc as (Hp1 & Hl1 & _).
      destruct (consume_pos _ _ _ _ _ _ Hcons0 Hp1) as [_ Hpp0].
      pose proof (opt_push_frame push0 m1 0 0) as Hop0. rewrite Hpp0 in Hop0.
      assert (F1 : frame_ok (base + eff c) (base + eff c + skels_size sc) (base + ps0) m (opt_push push0 m1))
        by (rewrite Hps0; eapply frame_ok_trans; [exact Hfc|exact Hop0|lia..]).
      pose proof F1 as (Hp1' & Hl1' & _).
      cbn [ref_eval run_code]. rewrite Hrefc, Hrunc.
      destruct (0 <? vc)%Z.
      + assert (Hsegt1 : seg_is (opt_push push0 m1) (base + ps0) (flat_expr ffe t (kid s 1)))
          by (eapply seg_is_frame; [exact Hsegt|exact F1|lia]).
        destruct (St r (opt_push push0 m1) base svr svm (kid s 1) Hr
                     ltac:(intros H; apply Hsv; rewrite H, ?orb_true_r; reflexivity) Hp1' ltac:(rewrite Hl1'; sz) Hsegt1)
          as (vt & kt' & m2 & Hreft & Hrunt & Hft & Hsegt').
        rewrite Hreft, Hrunt. pose proof Hft as (Hp2 & Hl2 & _).
        destruct (consume_pos _ _ _ _ _ _ Hconst Hp2) as [_ Hppt].
        pose proof (opt_push_frame pusht m2 0 0) as Hopt. rewrite Hppt in Hopt. pose proof Hopt as (Hp2' & _).
        pose proof (pad_push_frame (skels_size se) (opt_push pusht m2) 0 0) as Hpad. rewrite Hp2' in Hpad.
        assert (F2' : frame_ok 0 0 (base + eff c2 + skels_size se) m2
                        (if 0 <? skels_size se then do_push (skels_size se) (opt_push pusht m2) else opt_push pusht m2))
          by (eapply frame_ok_trans; [exact Hopt|exact Hpad|lia..]).
        assert (F2 : frame_ok (base + ps0) (base + ps0 + skels_size st) (base + eff c2 + skels_size se) (opt_push push0 m1)
                        (if 0 <? skels_size se then do_push (skels_size se) (opt_push pusht m2) else opt_push pusht m2))
          by (eapply frame_ok_trans; [exact Hft|exact F2'|lia..]).
        eexists vt, _, _. split; [reflexivity|]. split; [reflexivity|]. split.
        * cbn [snd]. replace (base + (ps0 + skels_size st + skels_size se)) with (base + eff c2 + skels_size se) by lia.
          eapply frame_ok_trans; [exact F1|exact F2|sz..].
        * cbn [flat_expr kid nth]. apply seg_is_app. rewrite (FL _ _ _ _ _ _ _ kc' Hcc Hwc). split;
            [|apply seg_is_app; rewrite (FL _ _ _ _ _ _ _ kt' Hct Hwt); split].
          -- eapply seg_is_frame; [eapply seg_is_frame; [exact Hsegc'|exact Hop0|lia]|exact F2|].
             rewrite (FL _ _ _ _ _ _ _ kc' Hcc Hwc). lia.
          -- replace (base + eff c + skels_size sc) with (base + ps0) by lia.
             eapply seg_is_frame; [exact Hsegt'|exact F2'|lia].
          -- replace (base + eff c + skels_size sc) with (base + ps0) by lia.
             eapply seg_is_frame; [eapply seg_is_frame; [exact Hsege|exact F1|lia]|exact F2|lia].
      + assert (Hsege1 : seg_is (opt_push push0 m1) (base + (ps0 + skels_size st)) (flat_expr ffe e' (kid s 2)))
          by (rewrite N.add_assoc; eapply seg_is_frame; [exact Hsege|exact F1|lia]).
        destruct (Se r (opt_push push0 m1) base svr svm (kid s 2) Hr
                     ltac:(intros H; apply Hsv; rewrite H, ?orb_true_r; reflexivity) Hp1' ltac:(rewrite Hl1'; sz) Hsege1)
          as (ve & ke' & m2 & Hrefe & Hrune & Hfe' & Hsege').
        rewrite Hrefe, Hrune. pose proof Hfe' as (Hp2 & Hl2 & _).
        destruct (consume_pos _ _ _ _ _ _ Hconse Hp2) as [_ Hppe].
        pose proof (opt_push_frame pushe m2 0 0) as Hope. rewrite Hppe in Hope.
        assert (F2 : frame_ok (base + (ps0 + skels_size st)) (base + (ps0 + skels_size st) + skels_size se) (base + eff c3)
                        (opt_push push0 m1) (opt_push pushe m2))
          by (eapply frame_ok_trans; [exact Hfe'|exact Hope|lia..]).
        eexists ve, _, _. split; [reflexivity|]. split; [reflexivity|]. split.
        * cbn [snd]. replace (base + (ps0 + skels_size st + skels_size se)) with (base + eff c3) by lia.
          eapply frame_ok_trans; [exact F1|exact F2|sz..].
        * cbn [flat_expr kid nth]. apply seg_is_app. rewrite (FL _ _ _ _ _ _ _ kc' Hcc Hwc). split;
            [|apply seg_is_app; rewrite (FL _ _ _ _ _ _ _ (kid s 1) Hct Hwt); split].
          -- eapply seg_is_frame; [eapply seg_is_frame; [exact Hsegc'|exact Hop0|lia]|exact F2|].
             rewrite (FL _ _ _ _ _ _ _ kc' Hcc Hwc). lia.
          -- replace (base + eff c + skels_size sc) with (base + ps0) by lia.
             eapply seg_is_frame; [eapply seg_is_frame; [exact Hsegt|exact F1|lia]|exact F2|].
             rewrite (FL _ _ _ _ _ _ _ (kid s 1) Hct Hwt). lia.
          -- replace (base + eff c + skels_size sc + skels_size st) with (base + (ps0 + skels_size st)) by lia.
             eapply seg_is_frame; [exact Hsege'|exact Hope|lia].
    - (* ECall *)
      apply andb_prop in Hwf. destruct Hwf as [Hwargs Hwsig]. rewrite compile_call_eq in Hc.
      destruct (compile_args ce args c) as [[[ks ss1] c1]|] eqn:Hargs; [|discriminate].
      assert (Hargs' : eff c1 = eff c + skels_size ss1 /\ args_sim_spec vars args ks ss1 c c1).
      { clear Hc Hwsig Eall. revert c ks ss1 c1 Hwargs Hargs.
        induction IHargs as [|a args Ha _ IH]; intros c ks ss1 c1 Hwargs Hargs.
        - cbn in Hargs. inv Hargs. split; [sz|].
          intros i r m base svr svm s Hr Hsv Hpos Hbd Hseg. exists [], [], m.
          split; [reflexivity|]. split; [reflexivity|]. split; [reflexivity|]. split; [reflexivity|].
          split; [rewrite <- Hpos; apply frame_ok_refl|apply seg_is_nil].
        - cbn [forallb] in Hwargs. apply andb_prop in Hwargs. destruct Hwargs as [Hwa Hwr].
          rewrite compile_args_cons in Hargs.
          destruct (compile_expr ce a c) as [[[ka sa] c2]|] eqn:Hca; [|discriminate].
          destruct (compile_args ce args c2) as [[[ks' ss'] c3]|] eqn:Hcr; [|discriminate]. inv Hargs.
          destruct (expr_ok d now g ce mf Hsig Hfe _ _ _ _ _ _ _ Hca Hwa) as [Ea _].
          pose proof (Ha _ _ _ _ _ _ Hca Hwa) as Sa. destruct (IH _ _ _ _ Hwr Hcr) as [Er Sr].
          split; [sz|].
          intros i r m base svr svm s Hr Hsv Hpos Hbd Hseg. rewrite flat_args_cons in Hseg. cbn [existsb] in Hsv.
          apply seg_is_app in Hseg. destruct Hseg as [Hsega Hsegr].
          rewrite (FL _ _ _ _ _ _ _ (kid s i) Hca Hwa) in Hsegr.
          destruct (Sa r m base svr svm (kid s i) Hr ltac:(intros H; apply Hsv; rewrite H; reflexivity) Hpos ltac:(sz) Hsega)
            as (va & ka' & m1 & Hrefa & Hruna & Hfa & Hsega').
          pose proof Hfa as (Hp1 & Hl1 & _).
          replace (base + eff c + skels_size sa) with (base + eff c2) in Hsegr by lia.
          assert (Hsegr1 : seg_is m1 (base + eff c2) (flat_args ffe s args (S i)))
            by (eapply seg_is_frame; [exact Hsegr|exact Hfa|lia]).
          destruct (Sr (S i) r m1 base svr svm s Hr ltac:(intros H; apply Hsv; rewrite H; apply orb_true_r) Hp1 ltac:(rewrite Hl1; sz) Hsegr1)
            as (vs & kids & m2 & Hrefr & Hrunr & Hlvs & Hlks & Hfr & Hsegr').
          exists (va :: vs), (ka' :: kids), m2.
          split; [rewrite ref_args_cons, Hrefa, Hrefr; reflexivity|].
          split; [rewrite run_args_cons, Hruna, Hrunr; reflexivity|].
          split; [cbn [length]; congruence|]. split; [cbn [length]; congruence|].
          split; [eapply frame_ok_trans; [exact Hfa|exact Hfr|try sz..]|].
          cbn [flat_list]. apply seg_is_app. rewrite (FL _ _ _ _ _ _ _ ka' Hca Hwa). split.
          + eapply seg_is_frame; [exact Hsega'|exact Hfr|]. rewrite (FL _ _ _ _ _ _ _ ka' Hca Hwa). lia.
          + replace (base + eff c + skels_size sa) with (base + eff c2) by lia. exact Hsegr'. }
      destruct Hargs' as [Eargs Sargs].
      assert (Hfal : forall s0 i, N.of_nat (length (flat_args ffe s0 args i)) = skels_size ss1).
      { intros s0. clear - Hargs Hwargs Hsim. revert c ks ss1 c1 Hwargs Hargs.
        induction args as [|a args IH]; intros c ks ss1 c1 Hwargs Hargs i.
        - cbn in Hargs. inv Hargs. reflexivity.
        - cbn [forallb] in Hwargs. apply andb_prop in Hwargs. destruct Hwargs as [Hwa Hwr].
          rewrite compile_args_cons in Hargs.
          destruct (compile_expr ce a c) as [[[ka sa] c2]|] eqn:Hca; [|discriminate].
          destruct (compile_args ce args c2) as [[[ks' ss'] c3]|] eqn:Hcr; [|discriminate]. inv Hargs.
          rewrite flat_args_cons, app_length, Nat2N.inj_add, (FL _ _ _ _ _ _ _ (kid s0 i) Hca Hwa), (IH _ _ _ _ Hwr Hcr). sz. }
      destruct (ce f) as [cf|] eqn:Hcf; [|discriminate].
      destruct (Nat.eqb_spec (length (c_params cf)) (length args)) as [Har|]; [|discriminate].
      destruct (Hsim f cf Hcf) as (fr & fm & ff & Hfr & Hfm & Hff & Hfflen & Hfn).
      assert (Hflist : forall kids ki, length kids = length args ->
                flat_expr ffe (ECall f args) (ST CNone (kids ++ [ki])) = flat_list ffe args kids ++ ff ki).
      { intros kids ki Hlk. rewrite flat_call_eq, Hff.
        pose proof (flat_args_kids ffe args CNone [] kids [ki] Hlk) as HH. cbn [app length] in HH. rewrite HH. f_equal. f_equal.
        rewrite kid_nth, app_nth2 by lia. rewrite Hlk, Nat.sub_diag. reflexivity. }
      assert (Hfllen : forall kids, length kids = length args -> N.of_nat (length (flat_list ffe args kids)) = skels_size ss1).
      { intros kids Hlk. pose proof (flat_args_kids ffe args CNone [] kids [] Hlk) as HH. cbn [app length] in HH.
        rewrite <- HH. apply Hfal. }
      intros r m base svr svm s Hr Hsv Hpos Hbd Hseg. rewrite flat_call_eq, Hff in Hseg. cbn [uses_self] in Hsv.
      apply seg_is_app in Hseg. destruct Hseg as [Hsega Hsegf]. rewrite Hfal in Hsegf.
      replace (base + eff c + skels_size ss1) with (base + eff c1) in Hsegf by lia.
      rewrite ref_call_eq, Hfr.
      destruct (c_skel cf) as [|s0 sk0] eqn:Hsk.
      + (* stateless callee *)
        pose proof (snd_le_eff c1) as Hle. inv Hc. rewrite run_call_eq, Hfm.
        destruct (Sargs O r m base svr svm s Hr Hsv Hpos Hbd Hsega)
          as (vs & kids & m1 & Hrefr & Hrunr & Hlvs & Hlks & Hfa & Hsega').
        rewrite Hrefr, Hrunr. pose proof Hfa as (Hp1 & Hl1 & _).
        assert (Hnil : forall inst, ff inst = []).
        { intros inst. specialize (Hfflen inst). destruct (ff inst); [reflexivity|cbn in Hfflen; lia]. }
        destruct (Hfn vs m1 (kid s (length args)) ltac:(congruence)) as (v & inst' & m2 & Hcr & Hcm & Hfc & Hsegc).
        { rewrite Hl1. sz. }
        { rewrite Hnil. apply seg_is_nil. }
        cbn [opt_push]. rewrite Hcr, Hcm. exists v, (ST CNone (kids ++ [inst'])), m2.
        split; [reflexivity|]. split; [reflexivity|]. rewrite Hp1 in Hfc. split.
        * eapply frame_ok_trans; [exact Hfa|exact Hfc|try sz..].
        * rewrite (Hflist kids inst' Hlks), Hnil, app_nil_r.
          eapply seg_is_frame; [exact Hsega'|exact Hfc|sz].
      + destruct (consume c1) as [push [o ps]] eqn:Hcons. inv Hc. rewrite run_call_eq, Hfm.
        destruct (Sargs O r m base svr svm s Hr Hsv Hpos ltac:(sz) Hsega)
          as (vs & kids & m1 & Hrefr & Hrunr & Hlvs & Hlks & Hfa & Hsega').
        rewrite Hrefr, Hrunr. pose proof Hfa as (Hp1 & Hl1 & _).
        destruct (consume_pos _ _ _ _ _ _ Hcons Hp1) as [-> Hpp].
        pose proof (opt_push_frame push m1 0 0) as Hop. rewrite Hpp in Hop. pose proof Hop as (Hp2 & Hl2 & _).
        assert (Hsegf1 : seg_is (opt_push push m1) (m_pos (opt_push push m1)) (ff (kid s (length args)))).
        { rewrite Hp2. eapply seg_is_frame; [eapply seg_is_frame; [exact Hsegf|exact Hfa|lia]|exact Hop|lia]. }
        destruct (Hfn vs (opt_push push m1) (kid s (length args)) ltac:(congruence)) as (v & inst' & m2 & Hcr & Hcm & Hfc & Hsegc).
        { rewrite Hl2, Hl1, Hp2. sz. }
        { exact Hsegf1. }
        rewrite Hcr, Hcm. exists v, (ST CNone (kids ++ [inst'])), m2.
        split; [reflexivity|]. split; [reflexivity|]. rewrite Hp2 in Hfc, Hsegc.
        assert (F1 : frame_ok (base + eff c) (base + eff c + skels_size ss1) (base + eff c1) m (opt_push push m1))
          by (eapply frame_ok_trans; [exact Hfa|exact Hop|lia..]).
        split.
        * cbn [snd]. eapply frame_ok_trans; [exact F1|exact Hfc|try sz..].
        * rewrite (Hflist kids inst' Hlks). apply seg_is_app. rewrite (Hfllen kids Hlks). split.
          -- eapply seg_is_frame; [eapply seg_is_frame; [exact Hsega'|exact Hop|lia]|exact Hfc|].
             rewrite (Hfllen kids Hlks). lia.
          -- replace (base + eff c + skels_size ss1) with (base + eff c1) by lia. exact Hsegc.
    - (* EMem *)
      cbn [compile_expr] in Hc.
      destruct (compile_expr ce a c) as [[[ka sa] c1]|] eqn:Ha; [|discriminate].
      destruct (consume c1) as [push [o ps]] eqn:Hcons. inv Hc.
      destruct (expr_ok d now g ce mf Hsig Hfe _ _ _ _ _ _ _ Ha Hwf) as [Ea _].
      pose proof (IHa _ _ _ _ _ _ Ha Hwf) as Sa.
      intros r m base svr svm s Hr Hsv Hpos Hbd Hseg. cbn [flat_expr] in Hseg. cbn [uses_self] in Hsv.
      apply seg_is_app in Hseg. destruct Hseg as [Hsega Hsegm]. rewrite (FL _ _ _ _ _ _ _ (kid s 0) Ha Hwf) in Hsegm.
      replace (base + eff c + skels_size sa) with (base + eff c1) in Hsegm by lia.
      destruct (Sa r m base svr svm (kid s 0) Hr Hsv Hpos ltac:(sz) Hsega) as (va & ka' & m1 & Hrefa & Hruna & Hfa & Hsega').
      pose proof Hfa as (Hp1 & Hl1 & _).
      destruct (consume_pos _ _ _ _ _ _ Hcons Hp1) as [-> Hpp].
      pose proof (opt_push_frame push m1 0 0) as Hop. rewrite Hpp in Hop. pose proof Hop as (Hp2 & Hl2 & _).
      assert (Hsegm1 : seg_is (opt_push push m1) (m_pos (opt_push push m1)) [cell_mem (cell_of s)]).
      { rewrite Hp2. eapply seg_is_frame; [eapply seg_is_frame; [exact Hsegm|exact Hfa|lia]|exact Hop|lia]. }
      destruct (mem1_refines d va (opt_push push m1) _ ltac:(rewrite Hp2, Hl2, Hl1; sz) Hsegm1) as (m2 & Hmem & Hfm & Hsegm').
      rewrite Hp2 in Hfm, Hsegm'.
      exists (cell_mem (cell_of s)), (ST (CMem va) [ka']), m2.
      split; [cbn [ref_eval]; rewrite Hrefa; reflexivity|].
      split; [cbn [run_code]; rewrite Hruna; exact Hmem|].
      assert (F1 : frame_ok (base + eff c) (base + eff c + skels_size sa) (base + eff c1) m (opt_push push m1))
        by (eapply frame_ok_trans; [exact Hfa|exact Hop|lia..]).
      split.
      * cbn [snd]. eapply frame_ok_trans; [exact F1|exact Hfm|try sz..].
      * cbn [flat_expr kid nth cell_of cell_mem]. apply seg_is_app. rewrite (FL _ _ _ _ _ _ _ ka' Ha Hwf). split.
        -- eapply seg_is_frame; [eapply seg_is_frame; [exact Hsega'|exact Hop|lia]|exact Hfm|].
           rewrite (FL _ _ _ _ _ _ _ ka' Ha Hwf). lia.
        -- replace (base + eff c + skels_size sa) with (base + eff c1) by lia. exact Hsegm'.
    - (* EDelay *)
      apply andb_prop in Hwf. destruct Hwf as [Hwa Hwt]. cbn [compile_expr] in Hc.
      destruct (compile_expr ce a c) as [[[ka sa] c1]|] eqn:Ha; [|discriminate].
      destruct (compile_expr ce t c1) as [[[kt st] c2]|] eqn:Ht; [|discriminate].
      destruct (consume c2) as [push [o ps]] eqn:Hcons.
      remember (size (Delay n)) as dsz eqn:Hdsz in Hc. inv Hc.
      destruct (expr_ok d now g ce mf Hsig Hfe _ _ _ _ _ _ _ Ha Hwa) as [Ea _].
      destruct (expr_ok d now g ce mf Hsig Hfe _ _ _ _ _ _ _ Ht Hwt) as [Et _].
      pose proof (IHa _ _ _ _ _ _ Ha Hwa) as Sa. pose proof (IHt _ _ _ _ _ _ Ht Hwt) as St.
      intros r m base svr svm s Hr Hsv Hpos Hbd Hseg. cbn [flat_expr] in Hseg. cbn [uses_self] in Hsv.
      apply seg_is_app in Hseg. destruct Hseg as [Hsega Hseg]. apply seg_is_app in Hseg. destruct Hseg as [Hsegt Hsegd].
      rewrite (FL _ _ _ _ _ _ _ (kid s 0) Ha Hwa) in Hsegt, Hsegd. rewrite (FL _ _ _ _ _ _ _ (kid s 1) Ht Hwt) in Hsegd.
      replace (base + eff c + skels_size sa) with (base + eff c1) in Hsegt, Hsegd by lia.
      replace (base + eff c1 + skels_size st) with (base + eff c2) in Hsegd by lia.
      destruct (Sa r m base svr svm (kid s 0) Hr ltac:(intros H; apply Hsv; rewrite H; reflexivity) Hpos ltac:(sz) Hsega)
        as (va & ka' & m1 & Hrefa & Hruna & Hfa & Hsega').
      pose proof Hfa as (Hp1 & Hl1 & _).
      assert (Hsegt1 : seg_is m1 (base + eff c1) (flat_expr ffe t (kid s 1)))
        by (eapply seg_is_frame; [exact Hsegt|exact Hfa|lia]).
      destruct (St r m1 base svr svm (kid s 1) Hr ltac:(intros H; apply Hsv; rewrite H; apply orb_true_r) Hp1 ltac:(rewrite Hl1; sz) Hsegt1)
        as (vt & kt' & m2 & Hreft & Hrunt & Hft & Hsegt').
      pose proof Hft as (Hp2 & Hl2 & _).
      destruct (consume_pos _ _ _ _ _ _ Hcons Hp2) as [-> Hpp].
      pose proof (opt_push_frame push m2 0 0) as Hop. rewrite Hpp in Hop. pose proof Hop as (Hp3 & Hl3 & _).
      assert (F12 : frame_ok (base + eff c) (base + eff c + skels_size (sa ++ st)) (base + eff c2) m (opt_push push m2)).
      { assert (F12a : frame_ok (base + eff c) (base + eff c + skels_size (sa ++ st)) (base + snd c2) m m2)
          by (eapply frame_ok_trans; [exact Hfa|exact Hft|try sz..]).
        eapply frame_ok_trans; [exact F12a|exact Hop|lia..]. }
      assert (Hsegd1 : seg_is (opt_push push m2) (m_pos (opt_push push m2))
                         (ring_words n (cell_hist (cell_of s)) (cell_ridx (cell_of s)))).
      { rewrite Hp3. eapply seg_is_frame; [exact Hsegd|exact F12|sz]. }
      destruct (delay1_refines d n va vt (opt_push push m2) _ _ ltac:(rewrite Hp3, Hl3, Hl2, Hl1; sz) Hsegd1)
        as (m3 & Hdel & Hfd & Hsegd').
      rewrite Hp3 in Hfd, Hsegd'.
      exists (delay_read n (cell_hist (cell_of s)) vt),
             (ST (CDelay (va :: cell_hist (cell_of s)) (delay_ridx n (cell_hist (cell_of s)) vt)) [ka'; kt']), m3.
      split; [cbn [ref_eval]; rewrite Hrefa, Hreft; reflexivity|].
      split; [cbn [run_code]; rewrite Hruna, Hrunt; exact Hdel|].
      split.
      * cbn [snd]. rewrite app_assoc. eapply frame_ok_trans; [exact F12|exact Hfd|try sz..].
      * cbn [flat_expr kid nth cell_of cell_hist cell_ridx]. apply seg_is_app. rewrite (FL _ _ _ _ _ _ _ ka' Ha Hwa). split;
          [|apply seg_is_app; rewrite (FL _ _ _ _ _ _ _ kt' Ht Hwt); split].
        -- eapply seg_is_frame; [eapply seg_is_frame; [eapply seg_is_frame; [exact Hsega'|exact Hft|]|exact Hop|lia]|exact Hfd|];
             rewrite (FL _ _ _ _ _ _ _ ka' Ha Hwa); lia.
        -- replace (base + eff c + skels_size sa) with (base + eff c1) by lia.
           eapply seg_is_frame; [eapply seg_is_frame; [exact Hsegt'|exact Hop|lia]|exact Hfd|].
           rewrite (FL _ _ _ _ _ _ _ kt' Ht Hwt). lia.
        -- replace (base + eff c + skels_size sa + skels_size st) with (base + eff c2) by lia. exact Hsegd'.
  Qed.
End Sim.
