(* Lmmm/Rename.v — consistent renaming of identifiers (definitions used in the statements of C16). *)
From Coq Require Import List ZArith NArith Bool.
From Mimium Require Import Lmmm.Syntax.
Import ListNotations.

Definition injective (f : ident -> ident) : Prop := forall a b, f a = f b -> a = b.
Definition inj_on (l : list ident) (f : ident -> ident) : Prop :=
  forall a b, In a l -> In b l -> f a = f b -> a = b.

Section Rename.
  Variable rv : ident -> ident.   (* variables: parameters, let binders, dsp inputs *)
  Variable rf : ident -> ident.   (* function names *)

  Fixpoint rename_expr (e : expr) : expr :=
    match e with
    | ELit z => ELit z
    | EVar x => EVar (rv x)
    | ENow => ENow
    | ESr => ESr
    | ESelf => ESelf
    | EBin op a b => EBin op (rename_expr a) (rename_expr b)
    | ENeg a => ENeg (rename_expr a)
    | ELet x a b => ELet (rv x) (rename_expr a) (rename_expr b)
    | EIf c t e' => EIf (rename_expr c) (rename_expr t) (rename_expr e')
    | ECall f args => ECall (rf f) (map rename_expr args)
    | EMem a => EMem (rename_expr a)
    | EDelay n a t => EDelay n (rename_expr a) (rename_expr t)
    end.

  Definition rename_fun (fd : fundef) : fundef :=
    mkFun (rf (f_name fd)) (map rv (f_params fd)) (rename_expr (f_body fd)).

  Definition rename_let (xe : ident * expr) : ident * expr := (rv (fst xe), rename_expr (snd xe)).

  Definition rename_prog (p : program) : program :=
    mkProg (map rename_fun (p_funs p)) (map rv (p_inputs p)) (map rename_let (p_lets p))
           (map rename_expr (p_outs p)).
End Rename.

(* the identifiers occurring in a program *)
Fixpoint expr_vars (e : expr) : list ident :=
  match e with
  | ELit _ | ENow | ESr | ESelf => []
  | EVar x => [x]
  | EBin _ a b => expr_vars a ++ expr_vars b
  | ENeg a => expr_vars a
  | ELet x a b => x :: expr_vars a ++ expr_vars b
  | EIf c t e' => expr_vars c ++ expr_vars t ++ expr_vars e'
  | ECall _ args => flat_map expr_vars args
  | EMem a => expr_vars a
  | EDelay _ a t => expr_vars a ++ expr_vars t
  end.

Fixpoint expr_fnames (e : expr) : list ident :=
  match e with
  | ELit _ | ENow | ESr | ESelf | EVar _ => []
  | EBin _ a b => expr_fnames a ++ expr_fnames b
  | ENeg a => expr_fnames a
  | ELet _ a b => expr_fnames a ++ expr_fnames b
  | EIf c t e' => expr_fnames c ++ expr_fnames t ++ expr_fnames e'
  | ECall f args => f :: flat_map expr_fnames args
  | EMem a => expr_fnames a
  | EDelay _ a t => expr_fnames a ++ expr_fnames t
  end.

Definition prog_exprs (p : program) : list expr :=
  map f_body (p_funs p) ++ map snd (p_lets p) ++ p_outs p.

Definition prog_vars (p : program) : list ident :=
  p_inputs p ++ flat_map f_params (p_funs p) ++ map fst (p_lets p) ++ flat_map expr_vars (prog_exprs p).

Definition prog_fnames (p : program) : list ident :=
  map f_name (p_funs p) ++ flat_map expr_fnames (prog_exprs p).
