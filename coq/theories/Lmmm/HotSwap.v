(* Lmmm/HotSwap.v — model of hot-swapping the running program (executable definitions only).
   Mirrors runtime/vm.rs Machine::new_resume (fresh machine; state words = apply(plan) into zeroed storage, or a plain clone
   when the skeletons are identical; cursor 0) and runtime/wasm/engine.rs WasmDspRuntime::try_hot_swap with the payload
   prepared as in mimium-cli prepare_hot_swap_wasm_payload (identical skeletons -> whole-copy patch). *)
From Coq Require Import List ZArith NArith Bool.
From Mimium Require Import StateTree.Model Lmmm.Syntax Lmmm.Compile Lmmm.Machine.
Import ListNotations.

(* StateTree.Model works on words of type N; state words here are Z: an injective embedding (0 |-> 0, so that
   zero-initialised new cells decode to 0) *)
Definition zenc (z : Z) : N :=
  match z with Z0 => 0%N | Zpos p => Npos (xO p) | Zneg p => Pos.pred_N (xO p) end.
Definition zdec (n : N) : Z :=
  match n with
  | N0 => 0%Z
  | Npos (xO p) => Zpos p
  | Npos (xI p) => Zneg (Pos.succ p)
  | Npos xH => Zneg xH
  end.

(* None = the real runtime panics (a patch reads outside the old storage) *)
Definition hot_swap (cp_old cp_new : cprog) (m : mstate) : option mstate :=
  match plan (published_skeleton cp_old) (published_skeleton cp_new) with
  | None => Some (mkM (m_words m) 0%N [])
  | Some (total, ps) =>
      (* new_resume / try_hot_swap first extend the old storage with zeros to the size of the old layout
         (cells that were never touched / the storage before the first dsp call) *)
      let old := m_words m ++ repeat 0%Z (N.to_nat (size (published_skeleton cp_old)) - length (m_words m)) in
      match apply_plan (map zenc old) total ps with
      | Some w => Some (mkM (map zdec w) 0%N [])
      | None => None
      end
  end.

(* run rows1 on the old program from m0, swap, run rows2 on the new program (now continues) *)
Fixpoint final_state (d : disc) (p : program) (cp : cprog) (t0 : Z) (inputs : list (list Z)) (m : mstate) : option mstate :=
  match inputs with
  | [] => Some m
  | i :: rest =>
      match mach_step d p cp t0 i m with
      | Some (_, m') => final_state d p cp (t0 + 1)%Z rest m'
      | None => None
      end
  end.

Definition swap_run (d : disc) (p1 : program) (cp1 : cprog) (p2 : program) (cp2 : cprog)
           (rows1 rows2 : list (list Z))
  : option (list (option (list Z * list Z * N * list (N * N * N)))) :=
  match final_state d p1 cp1 0%Z rows1 m0 with
  | Some m1 =>
      match hot_swap cp1 cp2 m1 with
      | Some m2 => Some (mach_run d p2 cp2 (Z.of_nat (length rows1)) rows2 m2)
      | None => None
      end
  | None => None
  end.
