(* Lmmm/Layout.v — C05: wf programs compile; the cursor machine running compiled code stays exactly
   on the published layout (cursor home, every access on its cell, nothing outside touched). *)
From Coq Require Import List ZArith NArith Bool Lia.
From Mimium Require Import StateTree.Model Lmmm.Syntax Lmmm.Ref Lmmm.Compile Lmmm.Machine Lmmm.Wf Lmmm.Spec Lmmm.Base.
Import ListNotations.
Local Open Scope N_scope.

(* ---------- primitives ---------- *)
Lemma opt_push_ok : forall push m lo hi sk lo0,
  run_ok lo hi (m_pos m + match push with Some o => o | None => 0 end) (event_at sk lo0) m (opt_push push m).
Proof.
  intros [o|] m lo hi sk lo0; cbn [opt_push].
  - unfold do_push, tr. cbn [m_words m_pos m_trace]. repeat split; auto.
    exists [(3, m_pos m, o)]. split; [reflexivity|]. constructor; [exact I|constructor].
  - rewrite N.add_0_r. apply run_ok_refl.
Qed.

Lemma do_pop_ok : forall d k m lo hi sk lo0, k <= m_pos m ->
  exists m', do_pop d k m = Some m' /\ run_ok lo hi (m_pos m - k) (event_at sk lo0) m m'.
Proof.
  intros d k m lo hi sk lo0 Hk. unfold do_pop, tr. cbn [m_words m_pos m_trace].
  destruct (N.leb_spec k (m_pos m)) as [_|Hc]; [|lia].
  eexists. split; [reflexivity|]. repeat split; auto.
  exists [(4, m_pos m, k)]. split; [reflexivity|]. constructor; [exact I|constructor].
Qed.

Lemma pad_push_ok : forall n m lo hi sk lo0,
  run_ok lo hi (m_pos m + n) (event_at sk lo0) m (if 0 <? n then do_push n m else m).
Proof.
  intros n m lo hi sk lo0. destruct (N.ltb_spec 0 n) as [Hp|Hz].
  - apply (opt_push_ok (Some n)).
  - replace (m_pos m + n) with (m_pos m) by lia. apply run_ok_refl.
Qed.

Lemma opt_pop_ok : forall d k m lo hi sk lo0, k <= m_pos m ->
  exists m', (if 0 <? k then do_pop d k m else Some m) = Some m' /\
             run_ok lo hi (m_pos m - k) (event_at sk lo0) m m'.
Proof.
  intros d k m lo hi sk lo0 Hk. destruct (N.ltb_spec 0 k) as [Hp|Hz].
  - apply do_pop_ok; assumption.
  - exists m. split; [reflexivity|]. replace (m_pos m - k) with (m_pos m) by lia. apply run_ok_refl.
Qed.

Lemma get1_ok : forall d m, m_pos m + 1 <= N.of_nat (length (m_words m)) ->
  exists m', get1 d m = Some (rd m (m_pos m), m') /\
     m_words m' = m_words m /\
     run_ok (m_pos m) (m_pos m) (m_pos m) (event_at (Feed 1) (m_pos m)) m m'.
Proof.
  intros d m Hb. unfold get1, tr. cbn [m_pos m_words m_trace].
  rewrite ensure_ok by (cbn [m_words]; exact Hb). cbn [m_pos].
  eexists. split; [reflexivity|]. split; [reflexivity|].
  repeat split; auto. exists [(0, m_pos m, 1)]. split; [reflexivity|].
  constructor; [|constructor]. cbn. auto.
Qed.

Lemma set1_ok : forall d v m, m_pos m + 1 <= N.of_nat (length (m_words m)) ->
  exists m', set1 d v m = Some m' /\ rd m' (m_pos m) = v /\
     run_ok (m_pos m) (m_pos m + 1) (m_pos m) (event_at (Feed 1) (m_pos m)) m m'.
Proof.
  intros d v m Hb. unfold set1, tr. cbn [m_pos m_words m_trace].
  rewrite ensure_ok by (cbn [m_words]; exact Hb). cbn [m_pos].
  eexists. split; [reflexivity|]. split.
  - rewrite rd_wr. cbn [m_words]. rewrite N.eqb_refl.
    destruct (N.ltb_spec (m_pos m) (N.of_nat (length (m_words m)))); [reflexivity|lia].
  - split; [reflexivity|]. split; [rewrite wr_length; reflexivity|]. split.
    + intros i Hi. rewrite rd_wr. destruct (N.eqb_spec i (m_pos m)); [lia|]. reflexivity.
    + exists [(1, m_pos m, 1)]. split; [reflexivity|]. constructor; [|constructor]. cbn. auto.
Qed.

Lemma mem1_ok : forall d v m, m_pos m + 1 <= N.of_nat (length (m_words m)) ->
  exists m', mem1 d v m = Some (rd m (m_pos m), m') /\ rd m' (m_pos m) = v /\
     run_ok (m_pos m) (m_pos m + 1) (m_pos m) (event_at (Mem 1) (m_pos m)) m m'.
Proof.
  intros d v m Hb. unfold mem1, tr. cbn [m_pos m_words m_trace].
  rewrite ensure_ok by (cbn [m_words]; exact Hb). cbn [m_pos].
  eexists. split; [reflexivity|]. split.
  - rewrite rd_wr. cbn [m_words]. rewrite N.eqb_refl.
    destruct (N.ltb_spec (m_pos m) (N.of_nat (length (m_words m)))); [reflexivity|lia].
  - split; [reflexivity|]. split; [rewrite wr_length; reflexivity|]. split.
    + intros i Hi. rewrite rd_wr. destruct (N.eqb_spec i (m_pos m)); [lia|]. reflexivity.
    + exists [(1, m_pos m, 1); (1, m_pos m, 1)]. split; [reflexivity|].
      constructor; [|constructor; [|constructor]]; cbn; auto.
Qed.

Lemma delay1_ok : forall d n x t m, m_pos m + 2 + n <= N.of_nat (length (m_words m)) ->
  exists v m', delay1 d n x t m = Some (v, m') /\
     run_ok (m_pos m) (m_pos m + 2 + n) (m_pos m) (event_at (Delay n) (m_pos m)) m m'.
Proof.
  intros d n x t m Hb. unfold delay1, tr. cbn [m_pos m_words m_trace].
  assert (Hev : Forall (event_at (Delay n) (m_pos m)) [(2, m_pos m, n + 2)]).
  { constructor; [|constructor]. cbn. exists n. auto. }
  destruct (N.eqb_spec n 0) as [Hn|Hn].
  - destruct d.
    + rewrite ensure_ok by (cbn [m_words]; lia). do 2 eexists. split; [reflexivity|].
      repeat split; auto. exists [(2, m_pos m, n + 2)]. split; [reflexivity|exact Hev].
    + do 2 eexists. split; [reflexivity|].
      repeat split; auto. exists [(2, m_pos m, n + 2)]. split; [reflexivity|exact Hev].
  - rewrite ensure_ok by (cbn [m_words]; lia). cbn [m_pos].
    do 2 eexists. split; [reflexivity|].
    set (m1 := {| m_words := m_words m; m_pos := m_pos m; m_trace := (2, m_pos m, n + 2) :: m_trace m |}).
    set (len := Z.of_N n).
    set (w := (rd m1 (m_pos m + 1) mod len)%Z).
    set (r := ((w + len - clampZ t 0 (len - 1)) mod len)%Z).
    assert (Hw : (0 <= w < len)%Z) by (apply Z.mod_pos_bound; lia).
    split; [reflexivity|]. split; [rewrite !wr_length; reflexivity|]. split.
    + intros i Hi. rewrite !rd_wr.
      destruct (N.eqb_spec i (m_pos m + 1)); [lia|].
      destruct (N.eqb_spec i (m_pos m)); [lia|].
      destruct (N.eqb_spec i (m_pos m + 2 + Z.to_N w)); [lia|]. reflexivity.
    + exists [(2, m_pos m, n + 2)]. split; [reflexivity|exact Hev].
Qed.

(* ---------- static environments ---------- *)
Definition sig_ok (g : sigenv) (ce : cenv) : Prop :=
  forall f, match sig_lookup f g, ce f with
            | Some (ar, st), Some cf => length (c_params cf) = ar /\ (st = false -> c_skel cf = [])
            | None, None => True
            | _, _ => False
            end.

Definition env_ok (vars : list ident) (r : env) : Prop :=
  forall x, mem_id x vars = true -> exists v, lookup x r = Some v.

Lemma env_ok_cons : forall vars r x v, env_ok vars r -> env_ok (x :: vars) ((x, v) :: r).
Proof.
  intros vars r x v H y Hy. cbn [mem_id] in Hy. cbn [lookup].
  destruct (N.eqb y x); [eauto|]. cbn [orb] in Hy. apply H. exact Hy.
Qed.

Lemma bind_params_ok : forall ps vs, length vs = length ps ->
  exists r, bind_params ps vs = Some r /\ env_ok ps r.
Proof.
  induction ps as [|p ps IH]; intros [|v vs] Hl; cbn [length] in Hl; try discriminate.
  - exists []. split; [reflexivity|]. intros x Hx. discriminate.
  - destruct (IH vs) as (r & Hr & Hok); [lia|]. exists ((p, v) :: r). cbn [bind_params]. rewrite Hr.
    split; [reflexivity|]. apply env_ok_cons. exact Hok.
Qed.

Ltac inv H := inversion H; subst; clear H.

(* a stateless expression publishes no state *)
Section Stateless.
  Variable g : sigenv.
  Variable ce : cenv.
  Hypothesis Hsig : sig_ok g ce.

  Lemma stateless_compile : forall e c k ss c',
    stateful_expr g e = false -> compile_expr ce e c = Some (k, ss, c') -> ss = [].
  Proof.
    induction e as [z|x| | | |op a b IHa IHb|a IHa|x a b IHa IHb|cn t e' IHc IHt IHe|f args IHargs|a IHa|n a t IHa IHt]
      using expr_ind'; intros c k ss c' Hs Hc; cbn [stateful_expr] in Hs; try discriminate;
      try (cbn [compile_expr] in Hc; inv Hc; auto; fail).
    - apply orb_false_elim in Hs. destruct Hs as [Hsa Hsb]. cbn [compile_expr] in Hc.
      destruct (compile_expr ce a c) as [[[ka sa] c1]|] eqn:Ha; [|discriminate].
      destruct (compile_expr ce b c1) as [[[kb sb] c2]|] eqn:Hb; [|discriminate].
      inv Hc. rewrite (IHa _ _ _ _ Hsa Ha), (IHb _ _ _ _ Hsb Hb). reflexivity.
    - cbn [compile_expr] in Hc.
      destruct (compile_expr ce a c) as [[[ka sa] c1]|] eqn:Ha; [|discriminate].
      inv Hc. eauto.
    - apply orb_false_elim in Hs. destruct Hs as [Hsa Hsb]. cbn [compile_expr] in Hc.
      destruct (compile_expr ce a c) as [[[ka sa] c1]|] eqn:Ha; [|discriminate].
      destruct (compile_expr ce b c1) as [[[kb sb] c2]|] eqn:Hb; [|discriminate].
      inv Hc. rewrite (IHa _ _ _ _ Hsa Ha), (IHb _ _ _ _ Hsb Hb). reflexivity.
    - apply orb_false_elim in Hs. destruct Hs as [Hs Hse]. apply orb_false_elim in Hs. destruct Hs as [Hsc Hst].
      cbn [compile_expr] in Hc.
      destruct (compile_expr ce cn c) as [[[kc sc] c1]|] eqn:Hcc; [|discriminate].
      destruct (consume c1) as [push0 [o0 ps0]].
      destruct (compile_expr ce t (None, ps0)) as [[[kt st] c2]|] eqn:Hct; [|discriminate].
      destruct (consume c2) as [pusht ct].
      destruct (compile_expr ce e' _) as [[[ke se] c3]|] eqn:Hce; [|discriminate].
      destruct (consume c3) as [pushe cte]. inv Hc.
      rewrite (IHc _ _ _ _ Hsc Hcc), (IHt _ _ _ _ Hst Hct), (IHe _ _ _ _ Hse Hce). reflexivity.
    - apply orb_false_elim in Hs. destruct Hs as [Hsa Hsf]. rewrite compile_call_eq in Hc.
      destruct (compile_args ce args c) as [[[ks ss1] c1]|] eqn:Hargs; [|discriminate].
      assert (Hargs' : ss1 = []).
      { clear Hc Hsf. revert c ks ss1 c1 Hsa Hargs.
        induction IHargs as [|a args Ha _ IH]; intros c ks ss1 c1 Hsa Hargs.
        - cbn in Hargs. inv Hargs. auto.
        - cbn [existsb] in Hsa. apply orb_false_elim in Hsa. destruct Hsa as [Hsa Hsr].
          rewrite compile_args_cons in Hargs.
          destruct (compile_expr ce a c) as [[[ka sa] c2]|] eqn:Hca; [|discriminate].
          destruct (compile_args ce args c2) as [[[ks' ss'] c3]|] eqn:Hcr; [|discriminate].
          inv Hargs. rewrite (Ha _ _ _ _ Hsa Hca), (IH _ _ _ _ Hsr Hcr). reflexivity. }
      subst ss1.
      pose proof (Hsig f) as Hf.
      destruct (ce f) as [cf|] eqn:Hcf; [|discriminate].
      destruct (sig_lookup f g) as [[ar st]|]; [|contradiction].
      destruct Hf as [_ Hst]. rewrite (Hst Hsf) in Hc.
      destruct (Nat.eqb (length (c_params cf)) (length args)); [|discriminate]. inv Hc. auto.
  Qed.
End Stateless.

(* ---------- the layout invariant of compiled code ---------- *)
Definition fn_ok (cf : cfun) (fn : mach_fn) : Prop :=
  forall vs m, length vs = length (c_params cf) ->
    m_pos m + skels_size (c_skel cf) <= N.of_nat (length (m_words m)) ->
    exists v m', fn vs m = Some (v, m') /\
      run_ok (m_pos m) (m_pos m + skels_size (c_skel cf)) (m_pos m)
             (event_at (FnCall (c_skel cf)) (m_pos m)) m m'.

Definition fenv_ok (ce : cenv) (mf : ident -> option mach_fn) : Prop :=
  forall f cf, ce f = Some cf -> exists fn, mf f = Some fn /\ fn_ok cf fn.

Lemma size_Mem : forall n, size (Mem n) = n. Proof. reflexivity. Qed.
Lemma size_Feed : forall n, size (Feed n) = n. Proof. reflexivity. Qed.
Lemma size_Delay : forall n, size (Delay n) = 2 + n. Proof. reflexivity. Qed.
Lemma eff_some : forall o ps, eff (Some o, ps) = ps + o. Proof. reflexivity. Qed.
Lemma eff_none : forall ps, eff (None, ps) = ps. Proof. intros. unfold eff. cbn [fst snd]. lia. Qed.
Lemma snd_le_eff : forall c, snd c <= eff c. Proof. intros. unfold eff. lia. Qed.
Lemma eff_ifpos : forall n ps, eff ((if 0 <? n then Some n else None), ps) = ps + n.
Proof. intros n ps. destruct (N.ltb_spec 0 n); [apply eff_some|rewrite eff_none; lia]. Qed.
Ltac sz := rewrite ?skels_size_app, ?skels_size_cons, ?skels_size_nil, ?size_FnCall_skels, ?size_Mem, ?size_Feed, ?size_Delay in *;
           rewrite ?skels_size_app, ?skels_size_cons, ?skels_size_nil in *; lia.

Section Layout.
  Variable d : disc.
  Variable now : Z.
  Variable g : sigenv.
  Variable ce : cenv.
  Variable mf : ident -> option mach_fn.
  Hypothesis Hsig : sig_ok g ce.
  Hypothesis Hfe : fenv_ok ce mf.

  Definition expr_spec (vars : list ident) (k : code) (ss : list skel) (c c' : cctx) : Prop :=
    eff c' = eff c + skels_size ss /\
    forall r m base selfv,
      env_ok vars r -> m_pos m = base + snd c ->
      base + eff c + skels_size ss <= N.of_nat (length (m_words m)) ->
      exists v m', run_code d mf now selfv r k m = Some (v, m') /\
        run_ok (base + eff c) (base + eff c + skels_size ss) (base + snd c')
               (event_at (FnCall ss) (base + eff c)) m m'.

  Definition args_spec (vars : list ident) (ks : list code) (ss : list skel) (c c' : cctx) : Prop :=
    eff c' = eff c + skels_size ss /\
    forall r m base selfv,
      env_ok vars r -> m_pos m = base + snd c ->
      base + eff c + skels_size ss <= N.of_nat (length (m_words m)) ->
      exists vs m', run_args d mf now selfv r ks m = Some (vs, m') /\ length vs = length ks /\
        run_ok (base + eff c) (base + eff c + skels_size ss) (base + snd c')
               (event_at (FnCall ss) (base + eff c)) m m'.

  Lemma expr_spec_pure : forall vars k c,
    (forall r selfv m, env_ok vars r -> exists v, run_code d mf now selfv r k m = Some (v, m)) ->
    expr_spec vars k [] c c.
  Proof.
    intros vars k c H. split; [sz|]. intros r m base selfv Hr Hpos Hbd.
    destruct (H r selfv m Hr) as [v Hv]. exists v, m. split; [exact Hv|].
    rewrite <- Hpos. apply run_ok_refl.
  Qed.

  Lemma consume_pos : forall c1 push o ps m base,
    consume c1 = (push, (o, ps)) -> m_pos m = base + snd c1 ->
    ps = eff c1 /\ m_pos m + match push with Some o => o | None => 0 end = base + eff c1.
  Proof.
    intros [[o1|] ps1] push o ps m base Hc Hpos; cbn [consume] in Hc; inv Hc;
      unfold eff; cbn [fst snd] in *; lia.
  Qed.

  Lemma expr_ok : forall e in_fun vars c k ss c',
    compile_expr ce e c = Some (k, ss, c') -> wf_expr g in_fun vars e = true ->
    expr_spec vars k ss c c'.
  Proof.
    induction e as [z|x| | | |op a b IHa IHb|a IHa|x a b IHa IHb|cn t e' IHc IHt IHe|f args IHargs|a IHa|n a t IHa IHt]
      using expr_ind'; intros in_fun vars c k ss c' Hc Hwf; cbn [wf_expr] in Hwf.
    - (* ELit *) cbn [compile_expr] in Hc. inv Hc. apply expr_spec_pure. intros. eexists. reflexivity.
    - (* EVar *) cbn [compile_expr] in Hc. inv Hc. apply expr_spec_pure. intros r selfv m Hr.
      destruct (Hr x Hwf) as [v Hv]. exists v. cbn [run_code]. rewrite Hv. reflexivity.
    - cbn [compile_expr] in Hc. inv Hc. apply expr_spec_pure. intros. eexists. reflexivity.
    - cbn [compile_expr] in Hc. inv Hc. apply expr_spec_pure. intros. eexists. reflexivity.
    - cbn [compile_expr] in Hc. inv Hc. apply expr_spec_pure. intros. eexists. reflexivity.
    - (* EBin *)
      apply andb_prop in Hwf. destruct Hwf as [Hwa Hwb]. cbn [compile_expr] in Hc.
      destruct (compile_expr ce a c) as [[[ka sa] c1]|] eqn:Ha; [|discriminate].
      destruct (compile_expr ce b c1) as [[[kb sb] c2]|] eqn:Hb; [|discriminate]. inv Hc.
      destruct (IHa _ _ _ _ _ _ Ha Hwa) as [Ea Ra]. destruct (IHb _ _ _ _ _ _ Hb Hwb) as [Eb Rb].
      split; [sz|]. intros r m base selfv Hr Hpos Hbd.
      destruct (Ra r m base selfv Hr Hpos ltac:(sz)) as (va & m1 & Hra & Hoa).
      pose proof Hoa as (Hp1 & Hl1 & _).
      destruct (Rb r m1 base selfv Hr Hp1 ltac:(rewrite Hl1; sz)) as (vb & m2 & Hrb & Hob).
      exists (eval_binop op va vb), m2. split; [cbn [run_code]; rewrite Hra, Hrb; reflexivity|].
      eapply run_ok_trans; [exact Hoa|exact Hob|try sz..| |].
      + intros ev. apply event_at_app_l.
      + intros ev. apply event_at_app_r. lia.
    - (* ENeg *)
      cbn [compile_expr] in Hc.
      destruct (compile_expr ce a c) as [[[ka sa] c1]|] eqn:Ha; [|discriminate]. inv Hc.
      destruct (IHa _ _ _ _ _ _ Ha Hwf) as [Ea Ra]. split; [exact Ea|].
      intros r m base selfv Hr Hpos Hbd.
      destruct (Ra r m base selfv Hr Hpos Hbd) as (va & m1 & Hra & Hoa).
      exists (- va)%Z, m1. split; [cbn [run_code]; rewrite Hra; reflexivity|exact Hoa].
    - (* ELet *)
      apply andb_prop in Hwf. destruct Hwf as [Hwa Hwb]. cbn [compile_expr] in Hc.
      destruct (compile_expr ce a c) as [[[ka sa] c1]|] eqn:Ha; [|discriminate].
      destruct (compile_expr ce b c1) as [[[kb sb] c2]|] eqn:Hb; [|discriminate]. inv Hc.
      destruct (IHa _ _ _ _ _ _ Ha Hwa) as [Ea Ra]. destruct (IHb _ _ _ _ _ _ Hb Hwb) as [Eb Rb].
      split; [sz|]. intros r m base selfv Hr Hpos Hbd.
      destruct (Ra r m base selfv Hr Hpos ltac:(sz)) as (va & m1 & Hra & Hoa).
      pose proof Hoa as (Hp1 & Hl1 & _).
      destruct (Rb ((x, va) :: r) m1 base selfv (env_ok_cons _ _ _ _ Hr) Hp1 ltac:(rewrite Hl1; sz))
        as (vb & m2 & Hrb & Hob).
      exists vb, m2. split; [cbn [run_code]; rewrite Hra, Hrb; reflexivity|].
      eapply run_ok_trans; [exact Hoa|exact Hob|try sz..| |].
      + intros ev. apply event_at_app_l.
      + intros ev. apply event_at_app_r. lia.
    - (* EIf *)
      apply andb_prop in Hwf. destruct Hwf as [Hwf Hwe]. apply andb_prop in Hwf. destruct Hwf as [Hwc Hwt].
      cbn [compile_expr] in Hc.
      destruct (compile_expr ce cn c) as [[[kc sc] c1]|] eqn:Hcc; [|discriminate].
      destruct (consume c1) as [push0 [o0 ps0]] eqn:Hcons0.
      destruct (compile_expr ce t (None, ps0)) as [[[kt st] c2]|] eqn:Hct; [|discriminate].
      destruct (consume c2) as [pusht [ot pst]] eqn:Hconst.
      destruct (compile_expr ce e' (if 0 <? skels_size st then Some (skels_size st) else None, ps0))
        as [[[ke se] c3]|] eqn:Hce; [|discriminate].
      destruct (consume c3) as [pushe [oe pse]] eqn:Hconse. inv Hc.
      destruct (IHc _ _ _ _ _ _ Hcc Hwc) as [Ec Rc]. destruct (IHt _ _ _ _ _ _ Hct Hwt) as [Et Rt].
      destruct (IHe _ _ _ _ _ _ Hce Hwe) as [Ee Re].
      rewrite eff_none in Et, Rt. rewrite eff_ifpos in Ee, Re. cbn [snd] in Rt, Re.
      assert (Hps0 : ps0 = eff c1) by (destruct c1 as [[o1|] ps1]; cbn [consume] in Hcons0; inv Hcons0; rewrite ?eff_some, ?eff_none; reflexivity).
      split; [rewrite eff_none; sz|].
      intros r m base selfv Hr Hpos Hbd.
      destruct (Rc r m base selfv Hr Hpos ltac:(sz)) as (vc & m1 & Hrc & Hoc).
      pose proof Hoc as (Hp1 & Hl1 & _).
      destruct (consume_pos _ _ _ _ _ _ Hcons0 Hp1) as [_ Hpp0].
      pose proof (opt_push_ok push0 m1 (base + eff c) (base + eff c) (FnCall sc) (base + eff c)) as Hop0.
      rewrite Hpp0 in Hop0. pose proof Hop0 as (Hp1' & Hl1' & _).
      assert (Hoc' : run_ok (base + eff c) (base + eff c + skels_size sc) (base + eff c1)
                            (event_at (FnCall sc) (base + eff c)) m (opt_push push0 m1))
        by (eapply run_ok_trans; [exact Hoc|exact Hop0|try sz..|auto|auto]).
      cbn [run_code]. rewrite Hrc.
      destruct (0 <? vc)%Z.
      + destruct (Rt r (opt_push push0 m1) base selfv Hr ltac:(lia) ltac:(rewrite Hl1', Hl1; sz)) as (vt & m2 & Hrt & Hot).
        rewrite Hrt. pose proof Hot as (Hp2 & Hl2 & _).
        destruct (consume_pos _ _ _ _ _ _ Hconst Hp2) as [_ Hppt].
        pose proof (opt_push_ok pusht m2 (base + ps0) (base + ps0) (FnCall st) (base + ps0)) as Hopt.
        rewrite Hppt in Hopt. pose proof Hopt as (Hp2' & Hl2' & _).
        pose proof (pad_push_ok (skels_size se) (opt_push pusht m2) (base + ps0) (base + ps0) (FnCall st) (base + ps0)) as Hpad.
        rewrite Hp2' in Hpad.
        eexists vt, _. split; [reflexivity|]. cbn [snd].
        assert (H2 : run_ok (base + ps0) (base + ps0 + skels_size st) (base + eff c2 + skels_size se)
                            (event_at (FnCall st) (base + ps0)) (opt_push push0 m1)
                            (if 0 <? skels_size se then do_push (skels_size se) (opt_push pusht m2) else opt_push pusht m2)).
        { assert (H2a : run_ok (base + ps0) (base + ps0 + skels_size st) (base + eff c2)
                               (event_at (FnCall st) (base + ps0)) (opt_push push0 m1) (opt_push pusht m2))
            by (eapply run_ok_trans; [exact Hot|exact Hopt|try sz..|auto|auto]).
          eapply run_ok_trans; [exact H2a|exact Hpad|try sz..|auto|auto]. }
        replace (base + (ps0 + skels_size st + skels_size se)) with (base + eff c2 + skels_size se) by lia.
        eapply run_ok_trans; [exact Hoc'|exact H2|try sz..| |].
        * intros ev. apply event_at_app_l.
        * intros ev Hev. eapply event_at_app_r; [|apply event_at_app_l; exact Hev]. lia.
      + destruct (Re r (opt_push push0 m1) base selfv Hr ltac:(lia) ltac:(rewrite Hl1', Hl1; sz)) as (ve & m2 & Hre & Hoe).
        rewrite Hre. pose proof Hoe as (Hp2 & Hl2 & _).
        destruct (consume_pos _ _ _ _ _ _ Hconse Hp2) as [_ Hppe].
        pose proof (opt_push_ok pushe m2 (base + (ps0 + skels_size st)) (base + (ps0 + skels_size st)) (FnCall se) (base + (ps0 + skels_size st))) as Hope.
        rewrite Hppe in Hope.
        eexists ve, _. split; [reflexivity|]. cbn [snd].
        assert (H2 : run_ok (base + (ps0 + skels_size st)) (base + (ps0 + skels_size st) + skels_size se) (base + eff c3)
                            (event_at (FnCall se) (base + (ps0 + skels_size st))) (opt_push push0 m1) (opt_push pushe m2)).
        { eapply run_ok_trans; [exact Hoe|exact Hope|try sz..|auto|auto]. }
        replace (base + (ps0 + skels_size st + skels_size se)) with (base + eff c3) by lia.
        eapply run_ok_trans; [exact Hoc'|exact H2|try sz..| |].
        * intros ev. apply event_at_app_l.
        * intros ev Hev. apply (event_at_app_r sc (st ++ se) (base + eff c) (base + eff c + skels_size sc)); [reflexivity|].
          apply (event_at_app_r st se _ (base + (ps0 + skels_size st))); [lia|exact Hev].
    - (* ECall *)
      apply andb_prop in Hwf. destruct Hwf as [Hwargs Hwsig]. rewrite compile_call_eq in Hc.
      destruct (compile_args ce args c) as [[[ks ss1] c1]|] eqn:Hargs; [|discriminate].
      assert (Hargs' : args_spec vars ks ss1 c c1 /\ length ks = length args).
      { clear Hc Hwsig. revert c ks ss1 c1 Hwargs Hargs.
        induction IHargs as [|a args Ha _ IH]; intros c ks ss1 c1 Hwargs Hargs.
        - cbn in Hargs. inv Hargs. split; [|reflexivity]. split; [sz|].
          intros r m base selfv Hr Hpos Hbd. exists [], m. split; [reflexivity|]. split; [reflexivity|].
          rewrite <- Hpos. apply run_ok_refl.
        - cbn [forallb] in Hwargs. apply andb_prop in Hwargs. destruct Hwargs as [Hwa Hwr].
          rewrite compile_args_cons in Hargs.
          destruct (compile_expr ce a c) as [[[ka sa] c2]|] eqn:Hca; [|discriminate].
          destruct (compile_args ce args c2) as [[[ks' ss'] c3]|] eqn:Hcr; [|discriminate].
          inv Hargs. destruct (Ha _ _ _ _ _ _ Hca Hwa) as [Ea Ra].
          destruct (IH _ _ _ _ Hwr Hcr) as [[Er Rr] Hlen]. split; [|cbn [length]; congruence].
          split; [sz|]. intros r m base selfv Hr Hpos Hbd.
          destruct (Ra r m base selfv Hr Hpos ltac:(sz)) as (va & m1 & Hra & Hoa).
          pose proof Hoa as (Hp1 & Hl1 & _).
          destruct (Rr r m1 base selfv Hr Hp1 ltac:(rewrite Hl1; sz)) as (vs & m2 & Hrr & Hlvs & Hor).
          exists (va :: vs), m2. split; [rewrite run_args_cons, Hra, Hrr; reflexivity|].
          split; [cbn [length]; congruence|].
          eapply run_ok_trans; [exact Hoa|exact Hor|try sz..| |].
          + intros ev. apply event_at_app_l.
          + intros ev. apply event_at_app_r. lia. }
      destruct Hargs' as [[Eargs Rargs] Hlen].
      pose proof (Hsig f) as Hf.
      destruct (ce f) as [cf|] eqn:Hcf; [|discriminate].
      destruct (Nat.eqb_spec (length (c_params cf)) (length args)) as [Har|]; [|discriminate].
      destruct (Hfe f cf Hcf) as (fn & Hfn & Hfnok).
      destruct (c_skel cf) as [|s0 sk0] eqn:Hsk.
      + (* stateless callee *)
        pose proof (snd_le_eff c1) as Hle. inv Hc. split; [exact Eargs|]. intros r m base selfv Hr Hpos Hbd.
        destruct (Rargs r m base selfv Hr Hpos Hbd) as (vs & m1 & Hrr & Hlvs & Hor).
        pose proof Hor as (Hp1 & Hl1 & _).
        destruct (Hfnok vs m1 ltac:(congruence)) as (v & m2 & Hcall & Hoc).
        { rewrite Hsk, Hl1. sz. }
        rewrite Hsk in Hoc. exists v, m2. split; [rewrite run_call_eq, Hrr, Hfn; exact Hcall|].
        rewrite Hp1 in Hoc.
        eapply run_ok_trans; [exact Hor|exact Hoc|try sz..|auto|].
        intros ev. apply event_at_incl. apply incl_nil_l.
      + destruct (consume c1) as [push [o ps]] eqn:Hcons. inv Hc.
        split.
        { destruct c1 as [[o1|] ps1]; cbn [consume] in Hcons; inv Hcons; rewrite ?eff_some, ?eff_none in *; sz. }
        intros r m base selfv Hr Hpos Hbd.
        destruct (Rargs r m base selfv Hr Hpos ltac:(sz)) as (vs & m1 & Hrr & Hlvs & Hor).
        pose proof Hor as (Hp1 & Hl1 & _).
        destruct (consume_pos _ _ _ _ _ _ Hcons Hp1) as [-> Hpp].
        pose proof (opt_push_ok push m1 (base + eff c) (base + eff c) (FnCall ss1) (base + eff c)) as Hop.
        rewrite Hpp in Hop. pose proof Hop as (Hp2 & Hl2 & _).
        destruct (Hfnok vs (opt_push push m1) ltac:(congruence)) as (v & m2 & Hcall & Hoc).
        { rewrite Hsk, Hl2, Hl1, Hp2. sz. }
        rewrite Hsk, Hp2 in Hoc.
        exists v, m2. split; [rewrite run_call_eq, Hrr, Hfn; exact Hcall|]. cbn [snd].
        assert (Hor' : run_ok (base + eff c) (base + eff c + skels_size ss1) (base + eff c1)
                              (event_at (FnCall ss1) (base + eff c)) m (opt_push push m1))
          by (eapply run_ok_trans; [exact Hor|exact Hop|try sz..|auto|auto]).
        eapply run_ok_trans; [exact Hor'|exact Hoc|try sz..| |].
        * intros ev. apply event_at_app_l.
        * intros ev Hev. eapply event_at_app_r; [|apply event_at_single; exact Hev]. lia.
    - (* EMem *)
      cbn [compile_expr] in Hc.
      destruct (compile_expr ce a c) as [[[ka sa] c1]|] eqn:Ha; [|discriminate].
      destruct (consume c1) as [push [o ps]] eqn:Hcons. inv Hc.
      destruct (IHa _ _ _ _ _ _ Ha Hwf) as [Ea Ra].
      split.
      { destruct c1 as [[o1|] ps1]; cbn [consume] in Hcons; inv Hcons; rewrite ?eff_some, ?eff_none in *; sz. }
      intros r m base selfv Hr Hpos Hbd.
      destruct (Ra r m base selfv Hr Hpos ltac:(sz)) as (va & m1 & Hra & Hoa).
      pose proof Hoa as (Hp1 & Hl1 & _).
      destruct (consume_pos _ _ _ _ _ _ Hcons Hp1) as [-> Hpp].
      pose proof (opt_push_ok push m1 (base + eff c) (base + eff c) (FnCall sa) (base + eff c)) as Hop.
      rewrite Hpp in Hop. pose proof Hop as (Hp2 & Hl2 & _).
      destruct (mem1_ok d va (opt_push push m1)) as (m2 & Hmem & _ & Hom).
      { rewrite Hl2, Hl1, Hp2. cbn [size] in *. sz. }
      rewrite Hp2 in Hom.
      eexists _, m2. split; [cbn [run_code]; rewrite Hra; exact Hmem|]. cbn [snd].
      assert (Hoa' : run_ok (base + eff c) (base + eff c + skels_size sa) (base + eff c1)
                            (event_at (FnCall sa) (base + eff c)) m (opt_push push m1))
        by (eapply run_ok_trans; [exact Hoa|exact Hop|try sz..|auto|auto]).
      eapply run_ok_trans; [exact Hoa'|exact Hom|try (cbn [size] in *; sz)..| |].
      * intros ev. apply event_at_app_l.
      * intros ev Hev. eapply event_at_app_r; [|apply event_at_single; exact Hev]. lia.
    - (* EDelay *)
      apply andb_prop in Hwf. destruct Hwf as [Hwa Hwt]. cbn [compile_expr] in Hc.
      destruct (compile_expr ce a c) as [[[ka sa] c1]|] eqn:Ha; [|discriminate].
      destruct (compile_expr ce t c1) as [[[kt st] c2]|] eqn:Ht; [|discriminate].
      destruct (consume c2) as [push [o ps]] eqn:Hcons.
      remember (size (Delay n)) as dsz eqn:Hdsz in Hc. inv Hc.
      destruct (IHa _ _ _ _ _ _ Ha Hwa) as [Ea Ra]. destruct (IHt _ _ _ _ _ _ Ht Hwt) as [Et Rt].
      split.
      { destruct c2 as [[o1|] ps1]; cbn [consume] in Hcons; inv Hcons; rewrite ?eff_some, ?eff_none in *; sz. }
      intros r m base selfv Hr Hpos Hbd.
      destruct (Ra r m base selfv Hr Hpos ltac:(sz)) as (va & m1 & Hra & Hoa).
      pose proof Hoa as (Hp1 & Hl1 & _).
      destruct (Rt r m1 base selfv Hr Hp1 ltac:(rewrite Hl1; sz)) as (vt & m2 & Hrt & Hot).
      pose proof Hot as (Hp2 & Hl2 & _).
      destruct (consume_pos _ _ _ _ _ _ Hcons Hp2) as [-> Hpp].
      pose proof (opt_push_ok push m2 (base + eff c) (base + eff c) (FnCall (sa ++ st)) (base + eff c)) as Hop.
      rewrite Hpp in Hop. pose proof Hop as (Hp3 & Hl3 & _).
      destruct (delay1_ok d n va vt (opt_push push m2)) as (v & m3 & Hdel & Hod).
      { rewrite Hl3, Hl2, Hl1, Hp3. sz. }
      rewrite Hp3 in Hod.
      exists v, m3. split; [cbn [run_code]; rewrite Hra, Hrt; exact Hdel|]. cbn [snd].
      rewrite app_assoc.
      assert (Hoat : run_ok (base + eff c) (base + eff c + skels_size (sa ++ st)) (base + snd c2)
                            (event_at (FnCall (sa ++ st)) (base + eff c)) m m2).
      { eapply run_ok_trans; [exact Hoa|exact Hot|try sz..| |].
        - intros ev. apply event_at_app_l.
        - intros ev. apply event_at_app_r. lia. }
      assert (Hoat' : run_ok (base + eff c) (base + eff c + skels_size (sa ++ st)) (base + eff c2)
                            (event_at (FnCall (sa ++ st)) (base + eff c)) m (opt_push push m2))
        by (eapply run_ok_trans; [exact Hoat|exact Hop|try sz..|auto|auto]).
      eapply run_ok_trans; [exact Hoat'|exact Hod|try sz..| |].
      * intros ev. apply event_at_app_l.
      * intros ev Hev. eapply event_at_app_r; [|apply event_at_single; exact Hev]. sz.
  Qed.
End Layout.

(* ---------- wf expressions compile ---------- *)
Section Total.
  Variable g : sigenv.
  Variable ce : cenv.
  Hypothesis Hsig : sig_ok g ce.

  Lemma compile_expr_total : forall e in_fun vars c,
    wf_expr g in_fun vars e = true -> exists k ss c', compile_expr ce e c = Some (k, ss, c').
  Proof.
    induction e as [z|x| | | |op a b IHa IHb|a IHa|x a b IHa IHb|cn t e' IHc IHt IHe|f args IHargs|a IHa|n a t IHa IHt]
      using expr_ind'; intros in_fun vars c Hwf; cbn [wf_expr] in Hwf;
      try (cbn [compile_expr]; do 3 eexists; reflexivity).
    - apply andb_prop in Hwf. destruct Hwf as [Hwa Hwb]. cbn [compile_expr].
      destruct (IHa _ _ c Hwa) as (ka & sa & c1 & ->). destruct (IHb _ _ c1 Hwb) as (kb & sb & c2 & ->).
      do 3 eexists; reflexivity.
    - cbn [compile_expr]. destruct (IHa _ _ c Hwf) as (ka & sa & c1 & ->). do 3 eexists; reflexivity.
    - apply andb_prop in Hwf. destruct Hwf as [Hwa Hwb]. cbn [compile_expr].
      destruct (IHa _ _ c Hwa) as (ka & sa & c1 & ->). destruct (IHb _ _ c1 Hwb) as (kb & sb & c2 & ->).
      do 3 eexists; reflexivity.
    - apply andb_prop in Hwf. destruct Hwf as [Hwf Hwe]. apply andb_prop in Hwf. destruct Hwf as [Hwc Hwt].
      cbn [compile_expr].
      destruct (IHc _ _ c Hwc) as (kc & sc & c1 & ->). destruct (consume c1) as [push0 [o0 ps0]].
      destruct (IHt _ _ (None, ps0) Hwt) as (kt & st & c2 & ->). destruct (consume c2) as [pusht ct].
      destruct (IHe _ _ (if 0 <? skels_size st then Some (skels_size st) else None, ps0) Hwe) as (ke & se & c3 & ->).
      destruct (consume c3) as [pushe cte]. do 3 eexists; reflexivity.
    - apply andb_prop in Hwf. destruct Hwf as [Hwargs Hwsig]. rewrite compile_call_eq.
      assert (Hargs : exists ks ss c1, compile_args ce args c = Some (ks, ss, c1)).
      { clear Hwsig. revert c Hwargs. induction IHargs as [|a args Ha _ IH]; intros c Hwargs.
        - do 3 eexists; reflexivity.
        - cbn [forallb] in Hwargs. apply andb_prop in Hwargs. destruct Hwargs as [Hwa Hwr].
          rewrite compile_args_cons. destruct (Ha _ _ c Hwa) as (ka & sa & c1 & ->).
          destruct (IH c1 Hwr) as (ks & ss & c2 & ->). do 3 eexists; reflexivity. }
      destruct Hargs as (ks & ss & c1 & ->).
      pose proof (Hsig f) as Hf.
      destruct (sig_lookup f g) as [[ar st]|]; [|discriminate].
      destruct (ce f) as [cf|]; [|contradiction]. destruct Hf as [Har _].
      apply Nat.eqb_eq in Hwsig. subst ar. rewrite Har, Nat.eqb_refl.
      destruct (c_skel cf); [do 3 eexists; reflexivity|].
      destruct (consume c1) as [push [o ps]]. do 3 eexists; reflexivity.
    - cbn [compile_expr]. destruct (IHa _ _ c Hwf) as (ka & sa & c1 & ->).
      destruct (consume c1) as [push [o ps]]. do 3 eexists; reflexivity.
    - apply andb_prop in Hwf. destruct Hwf as [Hwa Hwt]. cbn [compile_expr].
      destruct (IHa _ _ c Hwa) as (ka & sa & c1 & ->). destruct (IHt _ _ c1 Hwt) as (kt & st & c2 & ->).
      destruct (consume c2) as [push [o ps]]. do 3 eexists; reflexivity.
  Qed.
End Total.

(* ---------- one function ---------- *)
Lemma fn_ok_compile_fun : forall d now g ce mf fd cf,
  sig_ok g ce -> fenv_ok ce mf ->
  wf_expr g true (f_params fd) (f_body fd) = true ->
  compile_fun ce fd = Some cf ->
  fn_ok cf (mach_call d mf now cf).
Proof.
  intros d now g ce mf fd cf Hsig Hfe Hwf Hcf. unfold compile_fun in Hcf.
  destruct (compile_expr ce (f_body fd) (if uses_self (f_body fd) then (Some 1, 0) else (None, 0)))
    as [[[k ss] [nso ps]]|] eqn:Hc; [|discriminate]. inv Hcf.
  destruct (expr_ok d now g ce mf Hsig Hfe _ _ _ _ _ _ _ Hc Hwf) as [E R].
  intros vs m Hlen Hbd. unfold mach_call. cbn [c_params c_feed c_body c_pop c_skel] in *.
  destruct (bind_params_ok (f_params fd) vs Hlen) as (r & -> & Hr).
  destruct (uses_self (f_body fd)).
  - (* feed *)
    rewrite eff_some in E.
    destruct (get1_ok d m ltac:(sz)) as (m1 & -> & Hw1 & Ho1).
    pose proof Ho1 as (Hp1 & Hl1 & _).
    destruct (R r m1 (m_pos m) (rd m (m_pos m)) Hr ltac:(cbn [snd]; lia)) as (v & m2 & -> & Ho2).
    { rewrite eff_some, Hl1. sz. }
    rewrite eff_some in Ho2. cbn [snd] in Ho2. pose proof Ho2 as (Hp2 & Hl2 & _).
    destruct (opt_pop_ok d ps m2 (m_pos m) (m_pos m) (FnCall (Feed 1 :: ss)) (m_pos m) ltac:(lia))
      as (m3 & -> & Ho3).
    rewrite Hp2 in Ho3. replace (m_pos m + ps - ps) with (m_pos m) in Ho3 by lia.
    pose proof Ho3 as (Hp3 & Hl3 & _).
    destruct (set1_ok d v m3) as (m4 & -> & _ & Ho4). { rewrite Hp3, Hl3, Hl2, Hl1. sz. }
    rewrite Hp3 in Ho4.
    exists v, m4. split; [reflexivity|].
    assert (HA : forall ev, event_at (Feed 1) (m_pos m) ev -> event_at (FnCall (Feed 1 :: ss)) (m_pos m) ev).
    { intros ev Hev. apply (event_at_app_l [Feed 1] ss). apply event_at_single. exact Hev. }
    assert (HB : forall ev, event_at (FnCall ss) (m_pos m + (0 + 1)) ev -> event_at (FnCall (Feed 1 :: ss)) (m_pos m) ev).
    { intros ev Hev. apply (event_at_app_r [Feed 1] ss (m_pos m) (m_pos m + (0 + 1))); [sz|exact Hev]. }
    assert (H12 : run_ok (m_pos m) (m_pos m + skels_size (Feed 1 :: ss)) (m_pos m + ps)
                         (event_at (FnCall (Feed 1 :: ss)) (m_pos m)) m m2)
      by (eapply run_ok_trans; [exact Ho1|exact Ho2|try sz..|exact HA|exact HB]).
    assert (H13 : run_ok (m_pos m) (m_pos m + skels_size (Feed 1 :: ss)) (m_pos m)
                         (event_at (FnCall (Feed 1 :: ss)) (m_pos m)) m m3)
      by (eapply run_ok_trans; [exact H12|exact Ho3|try sz..|auto|auto]).
    eapply run_ok_trans; [exact H13|exact Ho4|try sz..|auto|exact HA].
  - rewrite eff_none in E.
    destruct (R r m (m_pos m) 0%Z Hr ltac:(cbn [snd]; lia)) as (v & m2 & -> & Ho2).
    { rewrite eff_none. sz. }
    rewrite eff_none in Ho2. cbn [snd] in Ho2. pose proof Ho2 as (Hp2 & Hl2 & _).
    destruct (opt_pop_ok d ps m2 (m_pos m) (m_pos m) (FnCall ss) (m_pos m) ltac:(lia))
      as (m3 & -> & Ho3).
    rewrite Hp2 in Ho3. replace (m_pos m + ps - ps) with (m_pos m) in Ho3 by lia.
    exists v, m3. split; [reflexivity|].
    rewrite N.add_0_r in Ho2.
    eapply run_ok_trans; [exact Ho2|exact Ho3|try sz..|auto|auto].
Qed.

(* ---------- the function list ---------- *)
Lemma wf_funs_app : forall l1 l2 g0,
  wf_funs g0 (l1 ++ l2) = match wf_funs g0 l1 with Some g => wf_funs g l2 | None => None end.
Proof.
  induction l1 as [|fd l1 IH]; intros l2 g0; cbn [app wf_funs]; [reflexivity|].
  destruct (_ && _); [apply IH|reflexivity].
Qed.

Lemma compile_funs_app : forall l1 l2 ce0,
  compile_funs ce0 (l1 ++ l2) = match compile_funs ce0 l1 with Some ce => compile_funs ce l2 | None => None end.
Proof.
  induction l1 as [|fd l1 IH]; intros l2 ce0; cbn [app compile_funs]; [reflexivity|].
  destruct (compile_fun ce0 fd); [apply IH|reflexivity].
Qed.

Definition ext_env (ce : cenv) (fd : fundef) (cf : cfun) : cenv :=
  fun name => if N.eqb name (f_name fd) then Some cf else ce name.

Lemma sig_ok_nil : sig_ok [] (fun _ => None).
Proof. intros f. exact I. Qed.

Lemma sig_ok_step : forall g ce fd cf,
  sig_ok g ce -> compile_fun ce fd = Some cf ->
  sig_ok ((f_name fd, fun_sig g fd) :: g) (ext_env ce fd cf).
Proof.
  intros g ce fd cf Hsig Hcf f. cbn [sig_lookup]. unfold ext_env.
  destruct (N.eqb f (f_name fd)); [|apply Hsig].
  unfold fun_sig. unfold compile_fun in Hcf.
  destruct (compile_expr ce (f_body fd) _) as [[[k ss] [nso ps]]|] eqn:Hc; [|discriminate]. inv Hcf.
  cbn [c_params c_skel]. split; [reflexivity|]. intros Hst. apply orb_false_elim in Hst.
  destruct Hst as [Hself Hst]. rewrite Hself in *.
  rewrite (stateless_compile g ce Hsig _ _ _ _ _ Hst Hc). reflexivity.
Qed.

Lemma funs_total : forall fs g0 ce0 g,
  sig_ok g0 ce0 -> wf_funs g0 fs = Some g ->
  exists ce, compile_funs ce0 fs = Some ce /\ sig_ok g ce.
Proof.
  induction fs as [|fd fs IH]; intros g0 ce0 g Hsig Hwf; cbn [wf_funs] in Hwf.
  - inv Hwf. exists ce0. split; [reflexivity|exact Hsig].
  - destruct (negb _ && wf_expr g0 true (f_params fd) (f_body fd)) eqn:Hchk; [|discriminate].
    apply andb_prop in Hchk. destruct Hchk as [_ Hwfe]. cbn [compile_funs].
    assert (Hcf : exists cf, compile_fun ce0 fd = Some cf).
    { unfold compile_fun.
      destruct (compile_expr_total g0 ce0 Hsig _ _ _ (if uses_self (f_body fd) then (Some 1, 0) else (None, 0)) Hwfe)
        as (k & ss & [nso ps] & ->). eexists; reflexivity. }
    destruct Hcf as [cf Hcf]. rewrite Hcf.
    apply (IH _ (ext_env ce0 fd cf) _ (sig_ok_step _ _ _ _ Hsig Hcf) Hwf).
Qed.

Lemma funs_ok : forall d now fs g ce,
  wf_funs [] fs = Some g -> compile_funs (fun _ => None) fs = Some ce ->
  forall ceF, (forall f cf, ce f = Some cf -> ceF f = Some cf) ->
  fenv_ok ce (mach_fenv d now ceF (rev fs)).
Proof.
  intros d now. induction fs as [|fd fs IH] using rev_ind; intros g ce Hwf Hcomp ceF Hext.
  - cbn in Hcomp. inv Hcomp. intros f cf Hf. discriminate.
  - rewrite wf_funs_app in Hwf. rewrite compile_funs_app in Hcomp.
    destruct (wf_funs [] fs) as [g'|] eqn:Hwf'; [|discriminate].
    destruct (compile_funs (fun _ => None) fs) as [ce'|] eqn:Hcomp'; [|discriminate].
    destruct (funs_total fs [] (fun _ => None) g' sig_ok_nil Hwf') as (ce'' & Hcomp'' & Hsig').
    rewrite Hcomp' in Hcomp''. inv Hcomp''.
    cbn [wf_funs] in Hwf.
    destruct (negb _ && wf_expr g' true (f_params fd) (f_body fd)) eqn:Hchk; [|discriminate].
    apply andb_prop in Hchk. destruct Hchk as [Hfresh Hwfe]. inv Hwf.
    cbn [compile_funs] in Hcomp. destruct (compile_fun ce'' fd) as [cf|] eqn:Hcf; [|discriminate]. inv Hcomp.
    assert (Hnone : ce'' (f_name fd) = None).
    { pose proof (Hsig' (f_name fd)) as Hs. destruct (sig_lookup (f_name fd) g'); [discriminate|].
      destruct (ce'' (f_name fd)); [contradiction|reflexivity]. }
    assert (Hext' : forall f cf0, ce'' f = Some cf0 -> ceF f = Some cf0).
    { intros f cf0 Hf. apply Hext. destruct (N.eqb_spec f (f_name fd)) as [->|Hne]; [congruence|exact Hf]. }
    pose proof (IH g' ce'' eq_refl eq_refl ceF Hext') as Hfe'.
    rewrite rev_unit. cbn [mach_fenv]. intros f cf0 Hf.
    destruct (N.eqb_spec f (f_name fd)) as [->|Hne].
    + inv Hf. rewrite (Hext (f_name fd) cf0) by (rewrite N.eqb_refl; reflexivity).
      eexists. split; [reflexivity|].
      eapply fn_ok_compile_fun; eauto.
    + apply Hfe'. exact Hf.
Qed.
