(* Lmmm/RenameMach.v — C16 at machine level, and the versions that only ask injectivity on the identifiers
   that occur in the program. *)
From Coq Require Import List ZArith NArith Bool Lia.
From Mimium Require Import StateTree.Model Lmmm.Syntax Lmmm.Ref Lmmm.Compile Lmmm.Machine Lmmm.Wf Lmmm.HotSwap Lmmm.Spec
  Lmmm.Base Lmmm.LayoutProg Lmmm.PreserveProg Lmmm.Rename Lmmm.RenameRef Lmmm.RenameWf.
Import ListNotations.

Ltac inv H := inversion H; subst; clear H.

Lemma rows_ok_rename : forall rv rf p rows, rows_ok (rename_prog rv rf p) rows <-> rows_ok p rows.
Proof. intros. unfold rows_ok. cbn [rename_prog p_inputs]. rewrite map_length. reflexivity. Qed.

(* C16_alpha_machine *)
Theorem alpha_machine : forall rv rf p cp rows, injective rv -> injective rf ->
  wf_prog p = true -> compile p = Some cp -> rows_ok p rows ->
  exists cp', compile (rename_prog rv rf p) = Some cp' /\
    published_skeleton cp' = published_skeleton cp /\
    outs_of (mach_run VmD (rename_prog rv rf p) cp' 0%Z rows m0) = outs_of (mach_run VmD p cp 0%Z rows m0).
Proof.
  intros rv rf p cp rows Hrv Hrf Hwf Hc Hrows.
  assert (Hwf' : wf_prog (rename_prog rv rf p) = true) by (rewrite (wf_prog_rename rv rf Hrv Hrf); exact Hwf).
  destruct (wf_compiles _ Hwf') as [cp' Hc']. exists cp'. split; [exact Hc'|].
  pose proof (compile_rename_skeleton rv rf Hrf p) as Hsk. rewrite Hc, Hc' in Hsk. cbn [option_map] in Hsk. injection Hsk as Hsk.
  split; [unfold published_skeleton; rewrite Hsk; reflexivity|].
  destruct (preservation p cp rows Hc Hwf Hrows) as (outs & s' & Hr & Hm).
  destruct (preservation _ cp' rows Hc' Hwf' (proj2 (rows_ok_rename rv rf p rows) Hrows)) as (outs' & s'' & Hr' & Hm').
  rewrite (alpha_ref rv rf p rows Hrv Hrf), Hr in Hr'. inv Hr'. rewrite Hm, Hm'. reflexivity.
Qed.

(* ---------- only the identifiers of the program matter ---------- *)
Lemma rename_expr_ext : forall rv rf rv' rf' e,
  (forall x, In x (expr_vars e) -> rv x = rv' x) -> (forall f, In f (expr_fnames e) -> rf f = rf' f) ->
  rename_expr rv rf e = rename_expr rv' rf' e.
Proof.
  intros rv rf rv' rf'.
  induction e as [z|x| | | |op a b IHa IHb|a IHa|x a b IHa IHb|cn t e' IHc IHt IHe|f args IHargs|a IHa|n a t IHa IHt]
    using expr_ind'; intros Hv Hf; cbn [rename_expr expr_vars expr_fnames] in *; try reflexivity.
  - rewrite (Hv x) by (left; reflexivity). reflexivity.
  - rewrite IHa, IHb; try reflexivity; intros; try apply Hv; try apply Hf; apply in_or_app; auto.
  - rewrite IHa; auto.
  - rewrite (Hv x) by (left; reflexivity).
    rewrite IHa, IHb; try reflexivity; intros; try apply Hv; try apply Hf; try right; apply in_or_app; auto.
  - rewrite IHc, IHt, IHe; try reflexivity; intros; try apply Hv; try apply Hf; apply in_or_app; auto;
      right; apply in_or_app; auto.
  - rewrite (Hf f) by (left; reflexivity). f_equal.
    assert (Hv' : forall x, In x (flat_map expr_vars args) -> rv x = rv' x) by exact Hv.
    assert (Hf' : forall g, In g (flat_map expr_fnames args) -> rf g = rf' g) by (intros g Hg; apply Hf; right; exact Hg).
    clear Hv Hf. induction IHargs as [|a args Ha _ IH]; [reflexivity|]. cbn [map flat_map] in *.
    rewrite Ha, IH; try reflexivity; intros; try apply Hv'; try apply Hf'; apply in_or_app; auto.
  - rewrite IHa; auto.
  - rewrite IHa, IHt; try reflexivity; intros; try apply Hv; try apply Hf; apply in_or_app; auto.
Qed.

Lemma map_ext_in' : forall (A B : Type) (f g : A -> B) l, (forall a, In a l -> f a = g a) -> map f l = map g l.
Proof. intros A B f g l H. apply map_ext_in. exact H. Qed.

Lemma rename_prog_ext : forall rv rf rv' rf' p,
  (forall x, In x (prog_vars p) -> rv x = rv' x) -> (forall f, In f (prog_fnames p) -> rf f = rf' f) ->
  rename_prog rv rf p = rename_prog rv' rf' p.
Proof.
  intros rv rf rv' rf' p Hv Hf. unfold rename_prog, prog_vars, prog_fnames, prog_exprs in *.
  assert (He : forall e, In e (map f_body (p_funs p) ++ map snd (p_lets p) ++ p_outs p) ->
               rename_expr rv rf e = rename_expr rv' rf' e).
  { intros e Hin. apply rename_expr_ext.
    - intros x Hx. apply Hv. apply in_or_app. right. apply in_or_app. right. apply in_or_app. right.
      apply in_flat_map. exists e. auto.
    - intros f Hx. apply Hf. apply in_or_app. right. apply in_flat_map. exists e. auto. }
  f_equal.
  - apply map_ext_in. intros fd Hfd. unfold rename_fun. f_equal.
    + apply Hf. apply in_or_app. left. apply in_map. exact Hfd.
    + apply map_ext_in. intros x Hx. apply Hv. apply in_or_app. right. apply in_or_app. left.
      apply in_flat_map. exists fd. auto.
    + apply He. apply in_or_app. left. apply in_map. exact Hfd.
  - apply map_ext_in. intros x Hx. apply Hv. apply in_or_app. left. exact Hx.
  - apply map_ext_in. intros [x e] Hxe. unfold rename_let. cbn [fst snd]. f_equal.
    + apply Hv. apply in_or_app. right. apply in_or_app. right. apply in_or_app. left.
      apply (in_map fst) in Hxe. exact Hxe.
    + apply He. apply in_or_app. right. apply in_or_app. left. apply (in_map snd) in Hxe. exact Hxe.
  - apply map_ext_in. intros e Hin. apply He. apply in_or_app. right. apply in_or_app. right. exact Hin.
Qed.

(* extend a function injective on l to an injective function on all identifiers *)
Definition maxN (l : list N) : N := fold_right N.max 0%N l.
Definition ext_inj (l : list ident) (f : ident -> ident) : ident -> ident :=
  fun x => if mem_id x l then f x else (maxN (map f l) + 1 + x)%N.

Lemma mem_id_In' : forall x l, mem_id x l = true <-> In x l.
Proof.
  induction l as [|y l IH]; cbn [mem_id In]; [split; [discriminate|tauto]|].
  rewrite orb_true_iff, IH. split; intros [H|H]; auto.
  - apply N.eqb_eq in H. auto.
  - left. apply N.eqb_eq. auto.
Qed.

Lemma maxN_ge : forall l x, In x l -> (x <= maxN l)%N.
Proof.
  induction l as [|y l IH]; intros x Hin; [destruct Hin|].
  destruct Hin as [->|Hin]; cbn [maxN fold_right]; [lia|].
  specialize (IH x Hin). unfold maxN in IH. lia.
Qed.

Lemma ext_inj_injective : forall l f, inj_on l f -> injective (ext_inj l f).
Proof.
  intros l f Hinj a b Hab. unfold ext_inj in Hab.
  destruct (mem_id a l) eqn:Ha, (mem_id b l) eqn:Hb.
  - apply Hinj; try (apply mem_id_In'; assumption). exact Hab.
  - apply mem_id_In' in Ha. pose proof (maxN_ge (map f l) (f a) (in_map f l a Ha)). lia.
  - apply mem_id_In' in Hb. pose proof (maxN_ge (map f l) (f b) (in_map f l b Hb)). lia.
  - lia.
Qed.

Lemma ext_inj_agree : forall l f x, In x l -> ext_inj l f x = f x.
Proof. intros l f x Hx. unfold ext_inj. apply mem_id_In' in Hx. rewrite Hx. reflexivity. Qed.

Lemma rename_prog_ext_inj : forall rv rf p,
  rename_prog rv rf p = rename_prog (ext_inj (prog_vars p) rv) (ext_inj (prog_fnames p) rf) p.
Proof.
  intros rv rf p. apply rename_prog_ext; intros x Hx; symmetry; apply ext_inj_agree; exact Hx.
Qed.

Theorem alpha_ref_on : forall rv rf p rows, inj_on (prog_vars p) rv -> inj_on (prog_fnames p) rf ->
  ref_run (rename_prog rv rf p) 0%Z rows st0 = ref_run p 0%Z rows st0.
Proof.
  intros rv rf p rows Hrv Hrf. rewrite rename_prog_ext_inj.
  apply alpha_ref; apply ext_inj_injective; assumption.
Qed.

Theorem alpha_machine_on : forall rv rf p cp rows, inj_on (prog_vars p) rv -> inj_on (prog_fnames p) rf ->
  wf_prog p = true -> compile p = Some cp -> rows_ok p rows ->
  exists cp', compile (rename_prog rv rf p) = Some cp' /\
    published_skeleton cp' = published_skeleton cp /\
    outs_of (mach_run VmD (rename_prog rv rf p) cp' 0%Z rows m0) = outs_of (mach_run VmD p cp 0%Z rows m0).
Proof.
  intros rv rf p cp rows Hrv Hrf. rewrite rename_prog_ext_inj.
  apply alpha_machine; apply ext_inj_injective; assumption.
Qed.
