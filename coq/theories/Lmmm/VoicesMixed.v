(* Lmmm/VoicesMixed.v — C07 for MIXED edits of voice programs (voices removed AND added in one edit, e.g. removed at one position and
   another one added at a different position), via StateTree's survivors_mixed_unambiguous: when the added voices share no state cell
   with any old voice, every other voice of the new program continues. *)
From Coq Require Import List ZArith NArith Bool Lia Arith.
From Mimium Require Import StateTree.Model StateTree.Lemmas StateTree.Apply StateTree.Embeds
  StateTree.Indep StateTree.Script StateTree.Unamb StateTree.MixedThm
  Lmmm.Syntax Lmmm.Ref Lmmm.Compile Lmmm.Machine Lmmm.Wf Lmmm.HotSwap Lmmm.Spec
  Lmmm.Base Lmmm.Layout Lmmm.LayoutProg Lmmm.Swap Lmmm.Prims Lmmm.Voices Lmmm.VoicesSwap Lmmm.VoicesEdit Lmmm.Examples.
Import ListNotations.
Local Open Scope N_scope.

Ltac inv H := inversion H; subst; clear H.

(* l1 and l2 are interleavings of `same` (the untouched elements, in the same relative order) with the removed elements `del`
   resp. the added elements `ins` *)
Inductive aligned {A : Type} : list A -> list A -> list A -> list A -> list A -> Prop :=
| al_nil : aligned [] [] [] [] []
| al_same : forall x l1 l2 s d i, aligned l1 l2 s d i -> aligned (x :: l1) (x :: l2) (x :: s) d i
| al_del : forall x l1 l2 s d i, aligned l1 l2 s d i -> aligned (x :: l1) l2 s (x :: d) i
| al_ins : forall x l1 l2 s d i, aligned l1 l2 s d i -> aligned l1 (x :: l2) s d (x :: i).

(* the skeleton children published by a list of voices of program p *)
Definition skels_of (p : program) (es : list expr) : list skel :=
  match compile_funs (fun _ => None) (p_funs p) with
  | Some fe => concat (map (expr_skel fe) es)
  | None => []
  end.

Lemma aligned_map : forall (A B : Type) (f : A -> B) l1 l2 s d i,
  aligned l1 l2 s d i -> aligned (map f l1) (map f l2) (map f s) (map f d) (map f i).
Proof. intros A B f l1 l2 s d i H. induction H; cbn [map]; constructor; assumption. Qed.

Lemma aligned_new_nth : forall (A : Type) (l1 l2 s d i : list A), aligned l1 l2 s d i ->
  forall j e, nth_error l2 j = Some e -> In e i \/ exists i', nth_error l1 i' = Some e.
Proof.
  intros A l1 l2 s d i H. induction H as [|x l1 l2 s d i H IH|x l1 l2 s d i H IH|x l1 l2 s d i H IH]; intros j e Hj.
  - destruct j; discriminate.
  - destruct j as [|j]; cbn [nth_error] in Hj.
    + inv Hj. right. exists O. reflexivity.
    + destruct (IH j e Hj) as [Hi|[i' Hi']]; [left; exact Hi|right; exists (S i'); exact Hi'].
  - destruct (IH j e Hj) as [Hi|[i' Hi']]; [left; exact Hi|right; exists (S i'); exact Hi'].
  - destruct j as [|j]; cbn [nth_error] in Hj.
    + inv Hj. left. left. reflexivity.
    + destruct (IH j e Hj) as [Hi|[i' Hi']]; [left; right; exact Hi|right; exists i'; exact Hi'].
Qed.

Lemma aligned_old_nth : forall (A : Type) (l1 l2 s d i : list A), aligned l1 l2 s d i ->
  forall k e, nth_error l1 k = Some e -> In e d \/ exists j', nth_error l2 j' = Some e.
Proof.
  intros A l1 l2 s d i H. induction H as [|x l1 l2 s d i H IH|x l1 l2 s d i H IH|x l1 l2 s d i H IH]; intros k e Hk.
  - destruct k; discriminate.
  - destruct k as [|k]; cbn [nth_error] in Hk.
    + inv Hk. right. exists O. reflexivity.
    + destruct (IH k e Hk) as [Hi|[j' Hj']]; [left; exact Hi|right; exists (S j'); exact Hj'].
  - destruct k as [|k]; cbn [nth_error] in Hk.
    + inv Hk. left. left. reflexivity.
    + destruct (IH k e Hk) as [Hi|[j' Hj']]; [left; right; exact Hi|right; exists j'; exact Hj'].
  - destruct (IH k e Hk) as [Hi|[j' Hj']]; [left; exact Hi|right; exists (S j'); exact Hj'].
Qed.

(* an alignment of lists of singletons is a script over the concatenations (nothing is changed in place); when the added elements
   share nothing with the elements of os, the script is new_fresh *)
Lemma aligned_singletons_script : forall ls1 ls2 s d i : list (list skel), aligned ls1 ls2 s d i ->
  forallb (fun l => Nat.eqb (length l) 1) ls1 = true -> forallb (fun l => Nat.eqb (length l) 1) ls2 = true ->
  exists sc, olds sc = concat ls1 /\ news sc = concat ls2 /\
    forall os, (forall a n, In a os -> In n (concat i) -> share a n = false) -> new_fresh os sc.
Proof.
  intros ls1 ls2 s d i H.
  induction H as [|x l1 l2 s d i H IH|x l1 l2 s d i H IH|x l1 l2 s d i H IH]; intros H1 H2; cbn [forallb] in H1, H2.
  - exists []. repeat split; auto.
  - apply andb_prop in H1. destruct H1 as [Hx H1]. apply andb_prop in H2. destruct H2 as [_ H2].
    destruct x as [|c [|c' x]]; try discriminate. destruct (IH H1 H2) as (sc & Eo & En & F).
    exists (Same c :: sc). cbn [olds news concat app]. rewrite Eo, En. repeat split; auto.
  - apply andb_prop in H1. destruct H1 as [Hx H1].
    destruct x as [|c [|c' x]]; try discriminate. destruct (IH H1 H2) as (sc & Eo & En & F).
    exists (Del c :: sc). cbn [olds news concat app]. rewrite Eo, En. repeat split; auto.
  - apply andb_prop in H2. destruct H2 as [Hx H2].
    destruct x as [|c [|c' x]]; try discriminate. destruct (IH H1 H2) as (sc & Eo & En & F).
    exists (Ins c :: sc). cbn [olds news concat app]. rewrite Eo, En. split; [reflexivity|]. split; [reflexivity|].
    intros os Hs. cbn [new_fresh]. split.
    + intros a Ha. apply Hs; [exact Ha|]. cbn [concat app]. now left.
    + apply F. intros a n Ha Hn. apply Hs; [exact Ha|]. cbn [concat app]. now right.
Qed.

Section Mixed.
  Variables (p1 : program) (cp1 : cprog) (p2 : program) (cp2 : cprog).
  Hypothesis Hc1 : compile p1 = Some cp1.
  Hypothesis Hw1 : wf_prog p1 = true.
  Hypothesis Hc2 : compile p2 = Some cp2.
  Hypothesis Hw2 : wf_prog p2 = true.
  Hypothesis Hv1 : voice_prog p1 = true.
  Hypothesis Hv2 : voice_prog p2 = true.
  Hypothesis Hfuns : p_funs p2 = p_funs p1.
  Variables same del ins : list expr.
  Hypothesis Hal : aligned (p_outs p1) (p_outs p2) same del ins.
  Hypothesis Hnc : forall a n, In a (skels_of p1 (p_outs p1)) -> In n (skels_of p1 ins) -> share a n = false.

  Lemma skels_of_outs : skels_of p1 (p_outs p1) = concat (voice_skels p1).
  Proof. unfold skels_of, voice_skels. destruct (compile_funs (fun _ => None) (p_funs p1)); reflexivity. Qed.

  Lemma mixed_children :
    exists sc, olds sc = concat (voice_skels p1) /\ news sc = concat (voice_skels p2) /\ new_fresh (olds sc) sc.
  Proof.
    pose proof (voice_prog_singletons p1 Hv1) as S1. pose proof (voice_prog_singletons p2 Hv2) as S2.
    pose proof Hnc as NC.
    unfold voice_skels, skels_of in S1, S2, NC |- *. rewrite Hfuns in S2 |- *.
    destruct (compile_funs (fun _ => None) (p_funs p1)) as [fe|].
    - destruct (aligned_singletons_script _ _ _ _ _ (aligned_map _ _ (expr_skel fe) _ _ _ _ _ Hal) S1 S2)
        as (sc & Eo & En & F).
      exists sc. split; [exact Eo|]. split; [exact En|]. apply F. rewrite Eo. exact NC.
    - exists []. repeat split; auto.
  Qed.

  (* every new voice with cells whose skeleton is the skeleton of some old voice is carried from an old voice with that skeleton *)
  Lemma mixed_carried_new : forall j c, voice_skel p2 j = Some c -> 0 < count_cells c -> In c (concat (voice_skels p1)) ->
    exists i off1 off2,
      voice_skel p1 i = Some c /\ voice_range p1 i = Some (off1, size c) /\ voice_range p2 j = Some (off2, size c) /\
      voice_carried (published_skeleton cp1) (published_skeleton cp2) off1 off2 (size c).
  Proof.
    intros j c Hsk Hcells Hni.
    destruct (voice_prog_structure p1 cp1 Hc1 Hw1 Hv1) as [Hs1 Ho1].
    destruct (voice_prog_structure p2 cp2 Hc2 Hw2 Hv2) as [Hs2 Ho2].
    destruct mixed_children as (sc & Eo & En & NF).
    set (cs1 := concat (voice_skels p1)) in *. set (cs2 := concat (voice_skels p2)) in *.
    assert (Hj : exists e, nth_error (p_outs p2) j = Some e).
    { unfold voice_skel in Hsk. destruct (nth_error (voice_skels p2) j) as [l|] eqn:Hn; [|discriminate].
      unfold voice_skels in Hn. destruct (compile_funs (fun _ => None) (p_funs p2)); [|destruct j; discriminate].
      destruct (nth_error (p_outs p2) j) as [e|] eqn:He; [eauto|].
      apply nth_error_None in He. assert (nth_error (map (expr_skel c0) (p_outs p2)) j <> None) by congruence.
      apply nth_error_Some in H. rewrite map_length in H. lia. }
    destruct Hj as [e Hj]. destruct (Ho2 j e Hj) as (_ & c' & Hsk' & Hn2 & Hr2).
    rewrite Hsk in Hsk'. inv Hsk'.
    assert (Hfind : exists i, nth_error cs1 i = Some c' /\
              voice_carried (FnCall cs1) (FnCall cs2) (child_off cs1 i) (child_off cs2 j) (size c')).
    { destruct (plan (FnCall cs1) (FnCall cs2)) as [[total ps]|] eqn:Hplan.
      - rewrite <- Eo, <- En in Hplan.
        destruct (survivors_mixed_unambiguous sc total ps Hplan) as [Hnew _].
        specialize (Hnew NF). rewrite Eo, En in Hnew, Hplan.
        destruct (Hnew j c' Hn2 Hcells Hni) as (i & Hi & Hin).
        exists i. split; [exact Hi|]. apply (carried_by_patch _ _ _ _ _ _ _ Hplan Hin).
      - pose proof (plan_none_eq _ _ Hplan) as Heq. injection Heq as Heq.
        exists j. split; [rewrite Heq; exact Hn2|]. unfold voice_carried. rewrite Hplan, Heq. reflexivity. }
    destruct Hfind as (i & Hi & Hcar).
    destruct (child_in_outs p1 i c' Hv1 Hi) as [ei Hei].
    destruct (Ho1 i ei Hei) as (_ & c1 & Hsk1 & Hn1 & Hr1). fold cs1 in Hn1. rewrite Hi in Hn1. inv Hn1.
    exists i, (child_off cs1 i), (child_off cs2 j). rewrite Hs1, Hs2. auto.
  Qed.

End Mixed.

(* ---------- the corollaries ---------- *)

(* a mixed edit whose added voices share no state cell with any old voice: every voice of the new program whose skeleton has cells and is
   the skeleton of some old voice is carried from SOME old voice with that skeleton; if that old voice is the same expression, the
   channel continues *)
Theorem voices_mixed : forall d p1 cp1 p2 cp2 same del ins j e c t0 rows1 m1 t1 rows2,
  compile p1 = Some cp1 -> wf_prog p1 = true -> compile p2 = Some cp2 -> wf_prog p2 = true ->
  voice_prog p1 = true -> voice_prog p2 = true ->
  p_funs p2 = p_funs p1 -> p_inputs p2 = p_inputs p1 ->
  aligned (p_outs p1) (p_outs p2) same del ins ->
  (forall a n, In a (skels_of p1 (p_outs p1)) -> In n (skels_of p1 ins) -> share a n = false) ->
  nth_error (p_outs p2) j = Some e -> voice_skel p2 j = Some c -> 0 < count_cells c -> In c (skels_of p1 (p_outs p1)) ->
  rows_ok p1 rows1 -> final_state d p1 cp1 t0 rows1 (init_state d cp1) = Some m1 -> rows_ok p1 rows2 ->
  exists i off1 off2,
    voice_skel p1 i = Some c /\ voice_range p1 i = Some (off1, size c) /\ voice_range p2 j = Some (off2, size c) /\
    voice_carried (published_skeleton cp1) (published_skeleton cp2) off1 off2 (size c) /\
    (nth_error (p_outs p1) i = Some e -> continues d p1 cp1 p2 cp2 m1 t1 rows2 i j).
Proof.
  intros d p1 cp1 p2 cp2 same del ins j e c t0 rows1 m1 t1 rows2 Hc1 Hw1 Hc2 Hw2 Hv1 Hv2 Hfuns Hins Hal Hnc Hj Hsk Hcells Hni
    Hrows1 Hfin Hrows2.
  assert (Hni' : In c (concat (voice_skels p1))) by (rewrite <- skels_of_outs; exact Hni).
  destruct (mixed_carried_new p1 cp1 p2 cp2 Hc1 Hw1 Hc2 Hw2 Hv1 Hv2 Hfuns same del ins Hal Hnc j c Hsk Hcells Hni')
    as (i & off1 & off2 & Hsk1 & Hr1 & Hr2 & Hcar).
  exists i, off1, off2. repeat (split; [assumption|]). intros Hi.
  destruct (voice_prog_structure p1 cp1 Hc1 Hw1 Hv1) as [_ Ho1].
  destruct (voice_prog_structure p2 cp2 Hc2 Hw2 Hv2) as [_ Ho2].
  destruct (Ho1 i e Hi) as [Hcl1 _]. destruct (Ho2 j e Hj) as [Hcl2 _].
  apply (untouched_voice_continues d p1 cp1 p2 cp2 i j e off1 off2 (size c) t0 rows1 m1 t1 rows2); assumption.
Qed.

Lemma expr_in_skels_of : forall p es e c fe,
  compile_funs (fun _ => None) (p_funs p) = Some fe -> In e es -> expr_skel fe e = [c] -> In c (skels_of p es).
Proof.
  intros p es e c fe Hfe Hin Hsk. unfold skels_of. rewrite Hfe.
  apply in_concat. exists [c]. split; [|now left]. rewrite <- Hsk. now apply in_map.
Qed.

(* "untouched call sites continue" for mixed edits: when the old voices' skeletons are pairwise distinct and the added voices share no
   state cell with any old voice, every voice of the new program whose skeleton is the skeleton of an old voice is that old voice and
   continues from its own pre-swap state *)
Theorem voices_mixed_distinct : forall d p1 cp1 p2 cp2 same del ins j e c t0 rows1 m1 t1 rows2,
  compile p1 = Some cp1 -> wf_prog p1 = true -> compile p2 = Some cp2 -> wf_prog p2 = true ->
  voice_prog p1 = true -> voice_prog p2 = true ->
  p_funs p2 = p_funs p1 -> p_inputs p2 = p_inputs p1 ->
  aligned (p_outs p1) (p_outs p2) same del ins ->
  (forall a n, In a (skels_of p1 (p_outs p1)) -> In n (skels_of p1 ins) -> share a n = false) ->
  NoDup (voice_skels p1) ->
  nth_error (p_outs p2) j = Some e -> voice_skel p2 j = Some c -> 0 < count_cells c -> In c (skels_of p1 (p_outs p1)) ->
  rows_ok p1 rows1 -> final_state d p1 cp1 t0 rows1 (init_state d cp1) = Some m1 -> rows_ok p1 rows2 ->
  exists i, nth_error (p_outs p1) i = Some e /\ continues d p1 cp1 p2 cp2 m1 t1 rows2 i j.
Proof.
  intros d p1 cp1 p2 cp2 same del ins j e c t0 rows1 m1 t1 rows2 Hc1 Hw1 Hc2 Hw2 Hv1 Hv2 Hfuns Hins Hal Hnc Hnd Hj Hsk Hcells Hni
    Hrows1 Hfin Hrows2.
  destruct (voices_mixed d p1 cp1 p2 cp2 same del ins j e c t0 rows1 m1 t1 rows2 Hc1 Hw1 Hc2 Hw2 Hv1 Hv2 Hfuns Hins Hal Hnc
              Hj Hsk Hcells Hni Hrows1 Hfin Hrows2) as (i & off1 & off2 & Hsk1 & _ & _ & _ & Hcont).
  assert (Hold : exists i', nth_error (p_outs p1) i' = Some e).
  { destruct (aligned_new_nth _ _ _ _ _ _ Hal j e Hj) as [Hin|H]; [|exact H]. exfalso.
    unfold voice_skel, voice_skels in Hsk. rewrite Hfuns in Hsk.
    destruct (compile_funs (fun _ => None) (p_funs p1)) as [fe|] eqn:Hfe; [|destruct j; discriminate].
    rewrite (map_nth_error (expr_skel fe) _ _ Hj) in Hsk.
    destruct (expr_skel fe e) as [|c0 [|c1 l]] eqn:Q; try discriminate. inv Hsk.
    pose proof (Hnc c c Hni (expr_in_skels_of p1 ins e c fe Hfe Hin Q)) as SH.
    rewrite (share_same c Hcells) in SH. discriminate. }
  destruct Hold as [i' Hi'].
  pose proof (voice_skel_same_expr p1 p2 i' j e c Hfuns Hi' Hj Hsk) as Hsk1'.
  assert (Heq : i = i').
  { unfold voice_skel in Hsk1, Hsk1'.
    destruct (nth_error (voice_skels p1) i) as [[|c1 [|c1' l1]]|] eqn:Hn; try discriminate. inv Hsk1.
    destruct (nth_error (voice_skels p1) i') as [[|c2 [|c2' l2]]|] eqn:Hn'; try discriminate. inv Hsk1'.
    apply (proj1 (NoDup_nth_error (voice_skels p1)) Hnd); [apply nth_error_Some; congruence|congruence]. }
  subst i'. exists i. split; [exact Hi'|apply Hcont; exact Hi'].
Qed.

(* ---------- a concrete mixed edit ----------
   fn a(x){ self + (mem(x) + delay(1, x, 1)) }  fn b(y){ self + mem(y) }  fn c(z){ delay(7, z, 1) }
   old dsp = (a(1), b(2));  new dsp = (b(2), c(3)):  ONE edit removes a and adds c behind the untouched b; c = {delay 7} shares no cell
   with a = {self, mem, delay 1} or b = {self, mem} *)
Definition wfuns : list fundef :=
  [ mkFun 1 [10] (EBin OAdd ESelf (EBin OAdd (EMem (EVar 10)) (EDelay 1 (EVar 10) (ELit 1))));
    mkFun 2 [11] (EBin OAdd ESelf (EMem (EVar 11)));
    mkFun 3 [12] (EDelay 7 (EVar 12) (ELit 1)) ].
Definition w_old : program := mkProg wfuns [] [] [ ECall 1 [ELit 1]; ECall 2 [ELit 2] ].
Definition w_new : program := mkProg wfuns [] [] [ ECall 2 [ELit 2]; ECall 3 [ELit 3] ].

Lemma w_progs :
  voice_prog w_old = true /\ voice_prog w_new = true /\ wf_prog w_old = true /\ wf_prog w_new = true /\
  compile w_old = Some (compiled w_old) /\ compile w_new = Some (compiled w_new) /\
  voice_skels w_old = [[FnCall [Feed 1; Mem 1; Delay 1]]; [FnCall [Feed 1; Mem 1]]] /\
  voice_skels w_new = [[FnCall [Feed 1; Mem 1]]; [FnCall [Delay 7]]].
Proof. vm_compute. auto 10. Qed.

Lemma w_aligned : aligned (p_outs w_old) (p_outs w_new) [ECall 2 [ELit 2]] [ECall 1 [ELit 1]] [ECall 3 [ELit 3]].
Proof. cbn [p_outs w_old w_new]. apply al_del. apply al_same. apply al_ins. apply al_nil. Qed.

Lemma w_fresh : forall a n, In a (skels_of w_old (p_outs w_old)) -> In n (skels_of w_old [ECall 3 [ELit 3]]) -> share a n = false.
Proof.
  replace (skels_of w_old (p_outs w_old)) with [FnCall [Feed 1; Mem 1; Delay 1]; FnCall [Feed 1; Mem 1]] by (vm_compute; reflexivity).
  replace (skels_of w_old [ECall 3 [ELit 3]]) with [FnCall [Delay 7]] by (vm_compute; reflexivity).
  intros a n [<-|[<-|[]]] [<-|[]]; vm_compute; reflexivity.
Qed.

Lemma w_is_old : In (FnCall [Feed 1; Mem 1]) (skels_of w_old (p_outs w_old)).
Proof.
  replace (skels_of w_old (p_outs w_old)) with [FnCall [Feed 1; Mem 1; Delay 1]; FnCall [Feed 1; Mem 1]] by (vm_compute; reflexivity).
  right. left. reflexivity.
Qed.

Lemma w_old_distinct : NoDup (voice_skels w_old).
Proof.
  replace (voice_skels w_old) with [[FnCall [Feed 1; Mem 1; Delay 1]]; [FnCall [Feed 1; Mem 1]]] by (vm_compute; reflexivity).
  constructor; [intros [H|[]]; discriminate H|]. constructor; [intros []|constructor].
Qed.

(* the plan keeps b's words (old offset 5) at b's new place (offset 0); b(2) was at 0,2,4 and continues 6,8,10 on channel 0;
   the added voice c starts from zero state *)
Lemma w_swap_run :
  plan (published_skeleton (compiled w_old)) (published_skeleton (compiled w_new)) = Some (11, [mkPatch 5 0 2]) /\
  map (chan 1) (outs_of (mach_run VmD w_old (compiled w_old) 0 [[];[];[];[];[];[]] m0))
    = [Some 0; Some 2; Some 4; Some 6; Some 8; Some 10]%Z /\
  option_map (fun r => (map (chan 0) (outs_of r), map (chan 1) (outs_of r)))
             (swap_run VmD w_old (compiled w_old) w_new (compiled w_new) [[];[];[]] [[];[];[]])
    = Some ([Some 6; Some 8; Some 10], [Some 0; Some 3; Some 3])%Z.
Proof. vm_compute. auto. Qed.
