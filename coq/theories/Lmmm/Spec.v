(* Lmmm/Spec.v — definitions that appear in the statements of the Lmmm-based properties
   (C01, C02, C03, C05, C06, C07).  Definitions only, no lemmas. *)
From Coq Require Import List ZArith NArith Bool.
From Mimium Require Import StateTree.Model Lmmm.Syntax Lmmm.Ref Lmmm.Compile Lmmm.Machine Lmmm.Wf.
Import ListNotations.

(* leaves of a skeleton with their flat offsets, DFS order *)
Fixpoint leaves (s : skel) (base : N) : list (skel * N) :=
  match s with
  | FnCall cs =>
      (fix go (l : list skel) (b : N) : list (skel * N) :=
         match l with [] => [] | c :: l' => leaves c b ++ go l' (b + size c)%N end) cs base
  | leaf => [(leaf, base)]
  end.

(* a trace event (kind,pos,size) of kind 0/1/2 hits exactly a cell of the right kind and size of
   the skeleton sk laid out from flat offset lo *)
Definition event_at (sk : skel) (lo : N) (ev : N * N * N) : Prop :=
  let '(k, pos, sz) := ev in
  match k with
  | 0 => In (Feed 1, pos) (leaves sk lo) /\ sz = 1                                    (* GetState: a self cell *)
  | 1 => (In (Feed 1, pos) (leaves sk lo) \/ In (Mem 1, pos) (leaves sk lo)) /\ sz = 1 (* SetState / mem *)
  | 2 => exists n, In (Delay n, pos) (leaves sk lo) /\ sz = n + 2                     (* ring buffer *)
  | _ => True                                                                         (* push / pop *)
  end%N.

Definition event_ok (sk : skel) (ev : N * N * N) : Prop := event_at sk 0%N ev.

Definition outs_of (r : list (option (list Z * list Z * N * list (N * N * N)))) : list (option (list Z)) :=
  map (option_map (fun x => fst (fst (fst x)))) r.

Definition rows_ok (p : program) (rows : list (list Z)) : Prop :=
  Forall (fun r => length r = length (p_inputs p)) rows.

(* machine state after running the rows (None as soon as one sample faults) *)
Fixpoint final_state (d : disc) (p : program) (cp : cprog) (t0 : Z) (rows : list (list Z)) (m : mstate)
  : option mstate :=
  match rows with
  | [] => Some m
  | i :: rest =>
      match mach_step d p cp t0 i m with
      | Some (_, m') => final_state d p cp (t0 + 1)%Z rest m'
      | None => None
      end
  end.

(* hot swap onto the same program: plan = None, the state words are cloned into a fresh machine *)
Definition swap_same (m : mstate) : mstate := mkM (m_words m) 0%N [].

(* the initial machine of each discipline (the WASM runtime allocates the storage up front) *)
Definition init_state (d : disc) (cp : cprog) : mstate :=
  match d with
  | VmD => m0
  | WasmD => mkM (repeat 0%Z (N.to_nat (size (published_skeleton cp)))) 0%N []
  end.

(* k consecutive hot swaps of the same program: run the segments one after the other, swapping in
   between; `now` keeps counting.  Returns the outputs of all segments, None if a segment faults. *)
Fixpoint run_segments (d : disc) (p : program) (cp : cprog) (t0 : Z) (segs : list (list (list Z)))
         (m : mstate) : option (list (option (list Z))) :=
  match segs with
  | [] => Some []
  | rows :: rest =>
      match final_state d p cp t0 rows m with
      | Some m' =>
          match run_segments d p cp (t0 + Z.of_nat (length rows))%Z rest (swap_same m') with
          | Some os => Some (outs_of (mach_run d p cp t0 rows m) ++ os)
          | None => None
          end
      | None => None
      end
  end.

(* every delay line has at least one slot (what the generator / the real front end produce) *)
Fixpoint delays_pos (e : expr) : bool :=
  match e with
  | ELit _ | EVar _ | ENow | ESr | ESelf => true
  | EBin _ a b => delays_pos a && delays_pos b
  | ENeg a => delays_pos a
  | ELet _ a b => delays_pos a && delays_pos b
  | EIf c t e' => delays_pos c && delays_pos t && delays_pos e'
  | ECall _ args => forallb delays_pos args
  | EMem a => delays_pos a
  | EDelay n a t => (0 <? n)%N && delays_pos a && delays_pos t
  end.
