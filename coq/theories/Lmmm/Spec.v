(* Lmmm/Spec.v — definitions that appear in the statements of the Lmmm-based properties
   (C01, C02, C03, C05, C06, C07).  Definitions only, no lemmas. *)
From Coq Require Import List ZArith NArith Bool.
From Mimium Require Import StateTree.Model Lmmm.Syntax Lmmm.Ref Lmmm.Compile Lmmm.Machine Lmmm.Wf Lmmm.HotSwap.
Import ListNotations.

(* leaves of a skeleton with their flat offsets, DFS order *)
Fixpoint leaves (s : skel) (base : N) : list (skel * N) :=
  match s with
  | FnCall cs =>
      (fix go (l : list skel) (b : N) : list (skel * N) :=
         match l with [] => [] | c :: l' => leaves c b ++ go l' (b + size c)%N end) cs base
  | leaf => [(leaf, base)]
  end.

(* a trace event (kind,pos,size) of kind 0/1/2 hits exactly a cell of the right kind and size of
   the skeleton sk laid out from flat offset lo *)
Definition event_at (sk : skel) (lo : N) (ev : N * N * N) : Prop :=
  let '(k, pos, sz) := ev in
  match k with
  | 0 => In (Feed 1, pos) (leaves sk lo) /\ sz = 1                                    (* GetState: a self cell *)
  | 1 => (In (Feed 1, pos) (leaves sk lo) \/ In (Mem 1, pos) (leaves sk lo)) /\ sz = 1 (* SetState / mem *)
  | 2 => exists n, In (Delay n, pos) (leaves sk lo) /\ sz = n + 2                     (* ring buffer *)
  | _ => True                                                                         (* push / pop *)
  end%N.

Definition event_ok (sk : skel) (ev : N * N * N) : Prop := event_at sk 0%N ev.

Definition outs_of (r : list (option (list Z * list Z * N * list (N * N * N)))) : list (option (list Z)) :=
  map (option_map (fun x => fst (fst (fst x)))) r.

Definition rows_ok (p : program) (rows : list (list Z)) : Prop :=
  Forall (fun r => length r = length (p_inputs p)) rows.

(* `final_state` (machine state after running the rows) and `hot_swap` live in the model file Lmmm/HotSwap.v *)

(* what a hot swap onto a program with the same skeleton produces: the state words cloned into a fresh machine *)
Definition swap_same (m : mstate) : mstate := mkM (m_words m) 0%N [].

(* the initial machine of each discipline (the WASM runtime allocates the storage up front) *)
Definition init_state (d : disc) (cp : cprog) : mstate :=
  match d with
  | VmD => m0
  | WasmD => mkM (repeat 0%Z (N.to_nat (size (published_skeleton cp)))) 0%N []
  end.

(* k consecutive hot swaps of the same program: run the segments one after the other, hot-swapping the
   (unchanged) program in between; `now` keeps counting.  Returns the outputs of all segments, None if a
   segment or a swap faults. *)
Fixpoint run_segments (d : disc) (p : program) (cp : cprog) (t0 : Z) (segs : list (list (list Z)))
         (m : mstate) : option (list (option (list Z))) :=
  match segs with
  | [] => Some []
  | rows :: rest =>
      match final_state d p cp t0 rows m with
      | Some m' =>
          match hot_swap cp cp m' with
          | Some m'' =>
              match run_segments d p cp (t0 + Z.of_nat (length rows))%Z rest m'' with
              | Some os => Some (outs_of (mach_run d p cp t0 rows m) ++ os)
              | None => None
              end
          | None => None
          end
      | None => None
      end
  end.

(* ---------- C07: voices ---------- *)
(* effective next free state offset of a compile-time context (push_sum + pending offset) *)
Definition eff (c : cctx) : N := (snd c + match fst c with Some o => o | None => 0 end)%N.

(* the flat range (offset, size) of each output expression ("voice") of dsp *)
Fixpoint outs_ranges (fe : cenv) (outs : list expr) (c : cctx) : list (N * N) :=
  match outs with
  | [] => []
  | e :: rest =>
      match compile_expr fe e c with
      | Some (_, s, c1) => (eff c, skels_size s) :: outs_ranges fe rest c1
      | None => []
      end
  end.

Definition voice_range (p : program) (j : nat) : option (N * N) :=
  match compile_funs (fun _ => None) (p_funs p) with
  | Some fe =>
      match compile_lets fe (p_lets p) (None, 0%N) with
      | Some (_, _, c1) => nth_error (outs_ranges fe (p_outs p) c1) j
      | None => None
      end
  | None => None
  end.

(* a voice that depends on the dsp inputs only (and no `let` shadows an input) *)
Definition closed_voice (p : program) (e : expr) : bool :=
  match wf_funs [] (p_funs p) with
  | Some g =>
      wf_expr g false (p_inputs p) e &&
      forallb (fun xe => negb (mem_id (fst xe) (p_inputs p))) (p_lets p)
  | None => false
  end.

(* the reference stream of one voice alone, from its own state tree *)
Fixpoint voice_ref_run (funs : list fundef) (inputs : list ident) (e : expr) (t0 : Z)
         (rows : list (list Z)) (sv : stree) : option (list Z * stree) :=
  match rows with
  | [] => Some ([], sv)
  | i :: rest =>
      match bind_params inputs i with
      | Some r0 =>
          match ref_eval (ref_fenv t0 (rev funs)) t0 0%Z r0 e sv with
          | Some (v, sv') =>
              match voice_ref_run funs inputs e (t0 + 1)%Z rest sv' with
              | Some (vs, sv'') => Some (v :: vs, sv'')
              | None => None
              end
          | None => None
          end
      | None => None
      end
  end.

(* channel j of one sample's outputs *)
Definition chan (j : nat) (o : option (list Z)) : option Z :=
  match o with Some l => nth_error l j | None => None end.

(* words [off2, off2+sz) of w2 are the words [off1, off1+sz) of w1 *)
Definition words_eq_on (w1 : list Z) (off1 : N) (w2 : list Z) (off2 : N) (sz : N) : Prop :=
  forall k, (k < sz)%N -> nth (N.to_nat (off2 + k)) w2 0%Z = nth (N.to_nat (off1 + k)) w1 0%Z.

Definition words_zero_on (w : list Z) (off sz : N) : Prop :=
  forall k, (k < sz)%N -> nth (N.to_nat (off + k)) w 0%Z = 0%Z.

(* the migration plan from skeleton o to skeleton n carries the words [off1, off1+sz) of the old storage
   onto [off2, off2+sz) of the new one: one patch covers the destination range and reads it from the
   source range (identical skeletons: plan = None, the storage is cloned, so the ranges must coincide) *)
Definition voice_carried (o n : skel) (off1 off2 sz : N) : Prop :=
  match plan o n with
  | None => off1 = off2
  | Some (_, ps) =>
      exists pt, In pt ps /\ (p_dst pt <= off2)%N /\ (off2 + sz <= p_dst pt + p_sz pt)%N /\
                 (p_src pt + (off2 - p_dst pt))%N = off1
  end.

(* no patch of the plan writes into [off2, off2+sz) of the new storage (it stays zero) *)
Definition voice_unwritten (o n : skel) (off2 sz : N) : Prop :=
  match plan o n with
  | None => False
  | Some (_, ps) =>
      forall pt k, In pt ps -> (k < sz)%N -> ~ (p_dst pt <= off2 + k < p_dst pt + p_sz pt)%N
  end.

(* an edit of the running program: if the new source does not compile (or the migration faults) the swap
   does not happen and the runtime keeps (program, state) *)
Definition try_swap (p_new : program) (cur : cprog * mstate) : cprog * mstate :=
  match compile p_new with
  | Some cp2 => match hot_swap (fst cur) cp2 (snd cur) with Some m2 => (cp2, m2) | None => cur end
  | None => cur
  end.

(* ---------- C07: voice programs and insert/delete edits ---------- *)
(* the skeleton children an expression publishes (independent of where it is compiled) *)
Definition expr_skel (fe : cenv) (e : expr) : list skel :=
  match compile_expr fe e (None, 0%N) with Some (_, ss, _) => ss | None => [] end.

Definition voice_skels (p : program) : list (list skel) :=
  match compile_funs (fun _ => None) (p_funs p) with
  | Some fe => map (expr_skel fe) (p_outs p)
  | None => []
  end.

(* the skeleton of voice j, when the voice publishes exactly one child (e.g. one stateful call) *)
Definition voice_skel (p : program) (j : nat) : option skel :=
  match nth_error (voice_skels p) j with Some [c] => Some c | _ => None end.

(* a voice program: dsp has no lets, every output is a closed voice publishing exactly one skeleton child;
   the children of the published skeleton are then exactly the voices' skeletons, in order *)
Definition voice_prog (p : program) : bool :=
  match p_lets p with
  | [] => forallb (closed_voice p) (p_outs p) &&
          forallb (fun ss => Nat.eqb (length ss) 1) (voice_skels p)
  | _ => false
  end.

(* l1 is obtained from l2 by deleting elements *)
Inductive sublist {A : Type} : list A -> list A -> Prop :=
| sl_nil : sublist [] []
| sl_skip : forall l1 x l2, sublist l1 l2 -> sublist l1 (x :: l2)
| sl_keep : forall x l1 l2, sublist l1 l2 -> sublist (x :: l1) (x :: l2).

(* after hot-swapping p1 (state m1) for p2, channel j of p2 continues exactly like channel i of p1 would have *)
Definition continues (d : disc) (p1 : program) (cp1 : cprog) (p2 : program) (cp2 : cprog)
           (m1 : mstate) (t1 : Z) (rows2 : list (list Z)) (i j : nat) : Prop :=
  exists m2, hot_swap cp1 cp2 m1 = Some m2 /\
    map (chan j) (outs_of (mach_run d p2 cp2 t1 rows2 m2))
    = map (chan i) (outs_of (mach_run d p1 cp1 t1 rows2 m1)).
