(* Lmmm/Swap.v — C06: hot-swapping the same program is the identity on the output stream. *)
From Coq Require Import List ZArith NArith Bool Lia.
From Mimium Require Import StateTree.Model Lmmm.Syntax Lmmm.Ref Lmmm.Compile Lmmm.Machine Lmmm.Wf Lmmm.HotSwap Lmmm.Spec Lmmm.Base Lmmm.Layout Lmmm.LayoutProg.
Import ListNotations.
Local Open Scope N_scope.

(* C06_plan_none *)
Lemma skel_eqb_same : forall s, skel_eqb s s = true.
Proof.
  induction s as [l|n|n|cs IH] using skel_ind_l; cbn [skel_eqb]; try apply N.eqb_refl.
  induction IH as [|c cs Hc _ IHcs]; [reflexivity|]. rewrite Hc. exact IHcs.
Qed.

Theorem plan_none : forall cp, plan (published_skeleton cp) (published_skeleton cp) = None.
Proof. intros cp. unfold plan. rewrite skel_eqb_same. reflexivity. Qed.

(* hot-swapping a program with an identical skeleton clones the words into a fresh machine *)
Theorem hot_swap_same : forall cp m, hot_swap cp cp m = Some (mkM (m_words m) 0 []).
Proof. intros cp m. unfold hot_swap. rewrite plan_none. reflexivity. Qed.

(* cursor at the origin (and, for WASM, storage allocated) *)
Definition home (d : disc) (cp : cprog) (m : mstate) : Prop :=
  m_pos m = 0 /\
  match d with VmD => True | WasmD => size (published_skeleton cp) <= N.of_nat (length (m_words m)) end.

Lemma home_init : forall d cp, home d cp (init_state d cp).
Proof.
  intros [|] cp; split; try reflexivity; try exact I.
  cbn [init_state m_words]. rewrite repeat_length. lia.
Qed.

Lemma home_swap : forall d cp m, home d cp m -> home d cp (swap_same m).
Proof. intros d cp m [Hp Hb]. split; [reflexivity|exact Hb]. Qed.

Lemma mach_step_swap : forall d p cp now i m, m_pos m = 0 ->
  mach_step d p cp now i (swap_same m) = mach_step d p cp now i m.
Proof. intros d p cp now i m Hp. unfold mach_step, swap_same. cbn [m_words m_pos]. rewrite Hp. reflexivity. Qed.

Lemma mach_run_swap : forall d p cp t0 rows m, m_pos m = 0 ->
  mach_run d p cp t0 rows (swap_same m) = mach_run d p cp t0 rows m.
Proof.
  intros d p cp t0 [|i rows] m Hp; [reflexivity|]. cbn [mach_run]. rewrite mach_step_swap by exact Hp. reflexivity.
Qed.

Lemma final_state_swap : forall d p cp t0 rows m, m_pos m = 0 -> rows <> [] ->
  final_state d p cp t0 rows (swap_same m) = final_state d p cp t0 rows m.
Proof.
  intros d p cp t0 [|i rows] m Hp Hne; [congruence|]. cbn [final_state]. rewrite mach_step_swap by exact Hp. reflexivity.
Qed.

Lemma mach_run_app : forall d p cp rows1 rows2 t0 m m1,
  final_state d p cp t0 rows1 m = Some m1 ->
  mach_run d p cp t0 (rows1 ++ rows2) m =
  mach_run d p cp t0 rows1 m ++ mach_run d p cp (t0 + Z.of_nat (length rows1))%Z rows2 m1.
Proof.
  intros d p cp. induction rows1 as [|i rows1 IH]; intros rows2 t0 m m1 Hf; cbn [final_state] in Hf.
  - inversion Hf; subst. cbn [app mach_run length Z.of_nat]. rewrite Z.add_0_r. reflexivity.
  - cbn [app mach_run]. destruct (mach_step d p cp t0 i m) as [[o m']|]; [|discriminate].
    rewrite (IH rows2 (t0 + 1)%Z m' m1 Hf). cbn [app length].
    replace (t0 + 1 + Z.of_nat (length rows1))%Z with (t0 + Z.of_nat (S (length rows1)))%Z by lia. reflexivity.
Qed.

Lemma final_state_app : forall d p cp rows1 rows2 t0 m m1,
  final_state d p cp t0 rows1 m = Some m1 ->
  final_state d p cp t0 (rows1 ++ rows2) m =
  final_state d p cp (t0 + Z.of_nat (length rows1))%Z rows2 m1.
Proof.
  intros d p cp. induction rows1 as [|i rows1 IH]; intros rows2 t0 m m1 Hf; cbn [final_state] in Hf.
  - inversion Hf; subst. cbn [app length Z.of_nat]. rewrite Z.add_0_r. reflexivity.
  - cbn [app final_state]. destruct (mach_step d p cp t0 i m) as [[o m']|]; [|discriminate].
    rewrite (IH rows2 (t0 + 1)%Z m' m1 Hf). cbn [length].
    replace (t0 + 1 + Z.of_nat (length rows1))%Z with (t0 + Z.of_nat (S (length rows1)))%Z by lia. reflexivity.
Qed.

Section Swap.
  Variable d : disc.
  Variable p : program.
  Variable cp : cprog.
  Hypothesis Hc : compile p = Some cp.
  Hypothesis Hwf : wf_prog p = true.

  Lemma step_home : forall now i m, home d cp m -> length i = length (p_inputs p) ->
    exists outs m', mach_step d p cp now i m = Some (outs, m') /\ home d cp m'.
  Proof.
    intros now i m [Hp Hb] Hi.
    destruct (step_ok d p cp now i m Hc Hwf Hp Hi) as (outs & m' & Hstep & _ & Hp' & Hl' & _).
    { destruct d; [rewrite step_start_vm_length; lia|exact Hb]. }
    exists outs, m'. split; [exact Hstep|]. split; [exact Hp'|].
    destruct d; [exact I|]. rewrite Hl'. exact Hb.
  Qed.

  Lemma final_state_home : forall rows t0 m, home d cp m -> rows_ok p rows ->
    exists m1, final_state d p cp t0 rows m = Some m1 /\ home d cp m1.
  Proof.
    induction rows as [|i rows IH]; intros t0 m Hh Hrows.
    - exists m. split; [reflexivity|exact Hh].
    - inversion Hrows as [|? ? Hi Hrows']; subst. cbn [final_state].
      destruct (step_home t0 i m Hh Hi) as (outs & m' & -> & Hh'). apply IH; assumption.
  Qed.

  Lemma final_state_is_home : forall rows t0 m m1, home d cp m -> rows_ok p rows ->
    final_state d p cp t0 rows m = Some m1 -> home d cp m1.
  Proof.
    intros rows t0 m m1 Hh Hrows Hf. destruct (final_state_home rows t0 m Hh Hrows) as (m1' & Hf' & Hh').
    congruence.
  Qed.

  (* one swap, from any home state *)
  Lemma swap_identity_gen : forall rows1 rows2 t0 m m1,
    home d cp m -> rows_ok p rows1 ->
    final_state d p cp t0 rows1 m = Some m1 ->
    mach_run d p cp t0 (rows1 ++ rows2) m
    = mach_run d p cp t0 rows1 m ++
      mach_run d p cp (t0 + Z.of_nat (length rows1))%Z rows2 (swap_same m1).
  Proof.
    intros rows1 rows2 t0 m m1 Hh Hr1 Hf.
    rewrite (mach_run_app _ _ _ _ _ _ _ _ Hf). f_equal. symmetry. apply mach_run_swap.
    apply (final_state_is_home rows1 t0 m m1 Hh Hr1 Hf).
  Qed.

  (* any number of swaps *)
  Lemma swaps_identity_gen : forall segs t0 m,
    home d cp m -> Forall (rows_ok p) segs ->
    run_segments d p cp t0 segs m = Some (outs_of (mach_run d p cp t0 (concat segs) m)).
  Proof.
    induction segs as [|rows segs IH]; intros t0 m Hh Hsegs; cbn [run_segments concat].
    - reflexivity.
    - inversion Hsegs as [|? ? Hrows Hsegs']; subst.
      destruct (final_state_home rows t0 m Hh Hrows) as (m1 & Hf & Hh1). rewrite Hf.
      rewrite hot_swap_same. change (mkM (m_words m1) 0 []) with (swap_same m1).
      rewrite (IH _ (swap_same m1) (home_swap _ _ _ Hh1) Hsegs').
      rewrite (mach_run_app _ _ _ _ _ _ _ _ Hf). unfold outs_of. rewrite map_app.
      rewrite mach_run_swap by (apply Hh1). reflexivity.
  Qed.
End Swap.

(* C06_swap_identity *)
Theorem swap_identity : forall p cp rows1 rows2 m1,
  compile p = Some cp -> wf_prog p = true -> rows_ok p rows1 -> rows_ok p rows2 ->
  final_state VmD p cp 0%Z rows1 m0 = Some m1 ->
  hot_swap cp cp m1 = Some (mkM (m_words m1) 0 []) /\
  outs_of (mach_run VmD p cp 0%Z (rows1 ++ rows2) m0)
  = outs_of (mach_run VmD p cp 0%Z rows1 m0) ++
    outs_of (mach_run VmD p cp (Z.of_nat (length rows1)) rows2 (mkM (m_words m1) 0 [])).
Proof.
  intros p cp rows1 rows2 m1 Hc Hwf Hr1 _ Hf. split; [apply hot_swap_same|].
  rewrite (swap_identity_gen VmD p cp Hc Hwf rows1 rows2 0%Z m0 m1 (home_init VmD cp) Hr1 Hf).
  unfold outs_of. rewrite map_app. reflexivity.
Qed.

(* in terms of HotSwap.swap_run: run rows1, hot-swap the same program, run rows2 *)
Theorem swap_run_identity : forall p cp rows1 rows2,
  compile p = Some cp -> wf_prog p = true -> rows_ok p rows1 ->
  exists r, swap_run VmD p cp p cp rows1 rows2 = Some r /\
    mach_run VmD p cp 0%Z (rows1 ++ rows2) m0 = mach_run VmD p cp 0%Z rows1 m0 ++ r.
Proof.
  intros p cp rows1 rows2 Hc Hwf Hr1. unfold swap_run.
  destruct (final_state_home VmD p cp Hc Hwf rows1 0%Z m0 (home_init VmD cp) Hr1) as (m1 & Hf & Hh).
  rewrite Hf, hot_swap_same. eexists. split; [reflexivity|].
  apply (swap_identity_gen VmD p cp Hc Hwf rows1 rows2 0%Z m0 m1 (home_init VmD cp) Hr1 Hf).
Qed.

(* the whole observable behaviour (words, cursor, trace too), either discipline, any start time *)
Theorem swap_identity_full : forall d p cp t0 rows1 rows2 m1,
  compile p = Some cp -> wf_prog p = true -> rows_ok p rows1 ->
  final_state d p cp t0 rows1 (init_state d cp) = Some m1 ->
  mach_run d p cp t0 (rows1 ++ rows2) (init_state d cp)
  = mach_run d p cp t0 rows1 (init_state d cp) ++
    mach_run d p cp (t0 + Z.of_nat (length rows1))%Z rows2 (swap_same m1).
Proof.
  intros d p cp t0 rows1 rows2 m1 Hc Hwf Hr1 Hf.
  apply (swap_identity_gen d p cp Hc Hwf rows1 rows2 t0 _ m1 (home_init d cp) Hr1 Hf).
Qed.

(* C06_swaps_identity: k consecutive swaps *)
Theorem swaps_identity : forall d p cp (segs : list (list (list Z))),
  compile p = Some cp -> wf_prog p = true -> Forall (rows_ok p) segs ->
  run_segments d p cp 0%Z segs (init_state d cp)
  = Some (outs_of (mach_run d p cp 0%Z (concat segs) (init_state d cp))).
Proof.
  intros d p cp segs Hc Hwf Hsegs.
  apply (swaps_identity_gen d p cp Hc Hwf segs 0%Z _ (home_init d cp) Hsegs).
Qed.
