(* Lmmm/PreserveProg.v — C02 for functions, the function list, dsp, and every run length. *)
From Coq Require Import List ZArith NArith Bool Lia Arith.
From Mimium Require Import StateTree.Model Lmmm.Syntax Lmmm.Ref Lmmm.Compile Lmmm.Machine Lmmm.Wf Lmmm.HotSwap Lmmm.Spec
  Lmmm.Base Lmmm.Layout Lmmm.LayoutProg Lmmm.Prims Lmmm.Flat Lmmm.Preserve Lmmm.Sim.
Import ListNotations.
Local Open Scope N_scope.

Ltac inv H := inversion H; subst; clear H.

(* ---------- one function ---------- *)
Lemma fn_sim_compile_fun : forall d now g ce rf mf ffe fd cf,
  sig_ok g ce -> fenv_ok ce mf -> fenv_sim ce rf mf ffe ->
  wf_expr g true (f_params fd) (f_body fd) = true ->
  compile_fun ce fd = Some cf ->
  fn_sim cf (ref_call rf now fd) (mach_call d mf now cf) (flat_fun ffe fd).
Proof.
  intros d now g ce rf mf ffe fd cf Hsig Hfe Hsim Hwf Hcf. unfold compile_fun in Hcf.
  destruct (compile_expr ce (f_body fd) (if uses_self (f_body fd) then (Some 1, 0) else (None, 0)))
    as [[[k ss] [nso ps]]|] eqn:Hc; [|discriminate]. inv Hcf.
  destruct (expr_ok d now g ce mf Hsig Hfe _ _ _ _ _ _ _ Hc Hwf) as [E _].
  pose proof (sim_ok d now g ce rf mf ffe Hsig Hfe Hsim _ _ _ _ _ _ _ Hc Hwf) as S.
  pose proof (fun s => flat_len g ce rf mf ffe Hsim _ _ _ _ _ _ _ s Hc Hwf) as FLb.
  unfold fn_sim. cbn [c_params c_feed c_body c_pop c_skel] in *. split.
  - intros inst. unfold flat_fun. rewrite app_length, Nat2N.inj_add, FLb.
    destruct (uses_self (f_body fd)); cbn [length]; sz.
  - intros vs m inst Hlen Hbd Hseg. unfold ref_call, mach_call, flat_fun in *. cbn [c_params c_feed c_body c_pop c_skel] in *.
    destruct (bind_params_ok (f_params fd) vs Hlen) as (r & -> & Hr).
    destruct (uses_self (f_body fd)) eqn:Hus.
    + (* feed *)
      rewrite eff_some in E. unfold sim_spec in S. rewrite eff_some in S. cbn [snd] in S.
      apply seg_is_app in Hseg. destruct Hseg as [Hsegs Hsegb]. cbn [length] in Hsegb.
      destruct (get1_refines d m _ ltac:(sz) Hsegs) as (m1 & -> & Hf1).
      pose proof Hf1 as (Hp1 & Hl1 & _).
      assert (Hsegb1 : seg_is m1 (m_pos m + (0 + 1)) (flat_expr ffe (f_body fd) (kid inst 0)))
        by (replace (m_pos m + (0 + 1)) with (m_pos m + N.of_nat 1) by lia; eapply seg_is_frame; [exact Hsegb|exact Hf1|lia]).
      destruct (S r m1 (m_pos m) (cell_self (cell_of inst)) (cell_self (cell_of inst)) (kid inst 0) Hr (fun _ => eq_refl)
                  ltac:(lia) ltac:(rewrite Hl1; sz) Hsegb1) as (v & kb & m2 & Hre & Hru & Hf2 & Hsegb2).
      change (match cell_of inst with CSelf z => z | _ => 0%Z end) with (cell_self (cell_of inst)).
      rewrite Hre, Hru. pose proof Hf2 as (Hp2 & Hl2 & _).
      destruct (opt_pop_frame d ps m2 0 0 ltac:(lia)) as (m3 & -> & Hf3).
      rewrite Hp2 in Hf3. replace (m_pos m + ps - ps) with (m_pos m) in Hf3 by lia.
      pose proof Hf3 as (Hp3 & Hl3 & _).
      destruct (set1_refines d v m3 ltac:(rewrite Hp3, Hl3, Hl2, Hl1; sz)) as (m4 & -> & Hf4 & Hsegs4).
      rewrite Hp3 in Hf4, Hsegs4.
      exists v, (ST (CSelf v) [kb]), m4. split; [reflexivity|]. split; [reflexivity|]. split.
      * assert (F12 : frame_ok (m_pos m) (m_pos m + skels_size (Feed 1 :: ss)) (m_pos m + ps) m m2)
          by (eapply frame_ok_trans; [exact Hf1|exact Hf2|try sz..]).
        assert (F13 : frame_ok (m_pos m) (m_pos m + skels_size (Feed 1 :: ss)) (m_pos m) m m3)
          by (eapply frame_ok_trans; [exact F12|exact Hf3|try sz..]).
        eapply frame_ok_trans; [exact F13|exact Hf4|try sz..].
      * cbn [cell_of cell_self kid nth]. apply seg_is_app. split; [exact Hsegs4|]. cbn [length].
        replace (m_pos m + N.of_nat 1) with (m_pos m + (0 + 1)) by lia.
        eapply seg_is_frame; [eapply seg_is_frame; [exact Hsegb2|exact Hf3|lia]|exact Hf4|lia].
    + rewrite eff_none in E. unfold sim_spec in S. rewrite eff_none in S. cbn [snd] in S.
      cbn [app] in Hseg.
      assert (Hsv : uses_self (f_body fd) = true -> match cell_of inst with CSelf z => z | _ => 0%Z end = 0%Z)
        by (rewrite Hus; discriminate).
      assert (Hseg0 : seg_is m (m_pos m + 0) (flat_expr ffe (f_body fd) (kid inst 0))) by (rewrite N.add_0_r; exact Hseg).
      destruct (S r m (m_pos m) (match cell_of inst with CSelf z => z | _ => 0%Z end) 0%Z (kid inst 0) Hr
                  Hsv ltac:(lia) ltac:(sz) Hseg0) as (v & kb & m2 & Hre & Hru & Hf2 & Hsegb2).
      rewrite N.add_0_r in Hf2, Hsegb2.
      rewrite Hre, Hru. pose proof Hf2 as (Hp2 & Hl2 & _).
      destruct (opt_pop_frame d ps m2 0 0 ltac:(lia)) as (m3 & -> & Hf3).
      rewrite Hp2 in Hf3. replace (m_pos m + ps - ps) with (m_pos m) in Hf3 by lia.
      exists v, (ST (CSelf v) [kb]), m3. split; [reflexivity|]. split; [reflexivity|]. split.
      * eapply frame_ok_trans; [exact Hf2|exact Hf3|try sz..].
      * cbn [app cell_of kid nth]. eapply seg_is_frame; [exact Hsegb2|exact Hf3|lia].
Qed.

(* ---------- the function list ---------- *)
Lemma funs_sim : forall d now fs g ce,
  wf_funs [] fs = Some g -> compile_funs (fun _ => None) fs = Some ce ->
  forall ceF, (forall f cf, ce f = Some cf -> ceF f = Some cf) ->
  fenv_sim ce (ref_fenv now (rev fs)) (mach_fenv d now ceF (rev fs)) (flat_fenv (rev fs)).
Proof.
  intros d now. induction fs as [|fd fs IH] using rev_ind; intros g ce Hwf Hcomp ceF Hext.
  - cbn in Hcomp. inv Hcomp. intros f cf Hf. discriminate.
  - pose proof Hwf as Hwf0. pose proof Hcomp as Hcomp0.
    rewrite wf_funs_app in Hwf. rewrite compile_funs_app in Hcomp.
    destruct (wf_funs [] fs) as [g'|] eqn:Hwf'; [|discriminate].
    destruct (compile_funs (fun _ => None) fs) as [ce'|] eqn:Hcomp'; [|discriminate].
    destruct (funs_total fs [] (fun _ => None) g' sig_ok_nil Hwf') as (ce'' & Hcomp'' & Hsig').
    rewrite Hcomp' in Hcomp''. inv Hcomp''.
    cbn [wf_funs] in Hwf.
    destruct (negb _ && wf_expr g' true (f_params fd) (f_body fd)) eqn:Hchk; [|discriminate].
    apply andb_prop in Hchk. destruct Hchk as [Hfresh Hwfe]. inv Hwf.
    cbn [compile_funs] in Hcomp. destruct (compile_fun ce'' fd) as [cf|] eqn:Hcf; [|discriminate]. inv Hcomp.
    assert (Hnone : ce'' (f_name fd) = None).
    { pose proof (Hsig' (f_name fd)) as Hs. destruct (sig_lookup (f_name fd) g'); [discriminate|].
      destruct (ce'' (f_name fd)); [contradiction|reflexivity]. }
    assert (Hext' : forall f cf0, ce'' f = Some cf0 -> ceF f = Some cf0).
    { intros f cf0 Hf. apply Hext. destruct (N.eqb_spec f (f_name fd)) as [->|Hne]; [congruence|exact Hf]. }
    pose proof (IH g' ce'' eq_refl eq_refl ceF Hext') as Hsim'.
    pose proof (funs_ok d now fs g' ce'' Hwf' Hcomp' ceF Hext') as Hfe'.
    rewrite rev_unit. cbn [ref_fenv mach_fenv flat_fenv]. intros f cf0 Hf.
    destruct (N.eqb_spec f (f_name fd)) as [->|Hne].
    + inv Hf. rewrite (Hext (f_name fd) cf0) by (rewrite N.eqb_refl; reflexivity).
      do 3 eexists. split; [reflexivity|]. split; [reflexivity|]. split; [reflexivity|].
      eapply fn_sim_compile_fun; eauto.
    + apply Hsim'. exact Hf.
Qed.

(* ---------- dsp: lets and outputs ---------- *)
Section Dsp.
  Variable d : disc.
  Variable now : Z.
  Variable g : sigenv.
  Variable ce : cenv.
  Variable rf : ident -> option ref_fn.
  Variable mf : ident -> option mach_fn.
  Variable ffe : ident -> option flat_fn.
  Hypothesis Hsig : sig_ok g ce.
  Hypothesis Hfe : fenv_ok ce mf.
  Hypothesis Hsim : fenv_sim ce rf mf ffe.

  Lemma lets_sim : forall lets vars vars' c kl sl c1,
    compile_lets ce lets c = Some (kl, sl, c1) -> wf_lets g vars lets = Some vars' ->
    eff c1 = eff c + skels_size sl /\
    (forall s i, N.of_nat (length (flat_args ffe s (map snd lets) i)) = skels_size sl) /\
    forall i r m base s,
      env_ok vars r -> m_pos m = base + snd c ->
      base + eff c + skels_size sl <= N.of_nat (length (m_words m)) ->
      seg_is m (base + eff c) (flat_args ffe s (map snd lets) i) ->
      exists r' ks m',
        ref_lets rf now r lets s i = Some (r', ks) /\
        run_lets d mf now r kl m = Some (r', m') /\
        env_ok vars' r' /\ length ks = length lets /\
        frame_ok (base + eff c) (base + eff c + skels_size sl) (base + snd c1) m m' /\
        seg_is m' (base + eff c) (flat_list ffe (map snd lets) ks).
  Proof.
    induction lets as [|[x e] lets IH]; intros vars vars' c kl sl c1 Hc Hwf.
    - cbn in Hc, Hwf. inv Hc. inv Hwf. split; [sz|]. split; [reflexivity|].
      intros i r m base s Hr Hpos Hbd Hseg. exists r, [], m.
      split; [reflexivity|]. split; [reflexivity|]. split; [exact Hr|]. split; [reflexivity|].
      split; [rewrite <- Hpos; apply frame_ok_refl|apply seg_is_nil].
    - cbn [compile_lets] in Hc. cbn [wf_lets] in Hwf.
      destruct (wf_expr g false vars e) eqn:Hwe; [|discriminate].
      destruct (compile_expr ce e c) as [[[k s0] c2]|] eqn:Hce; [|discriminate].
      destruct (compile_lets ce lets c2) as [[[ks ss] c3]|] eqn:Hcl; [|discriminate]. inv Hc.
      destruct (expr_ok d now g ce mf Hsig Hfe _ _ _ _ _ _ _ Hce Hwe) as [Ee _].
      pose proof (sim_ok d now g ce rf mf ffe Hsig Hfe Hsim _ _ _ _ _ _ _ Hce Hwe) as Se.
      pose proof (fun s => flat_len g ce rf mf ffe Hsim _ _ _ _ _ _ _ s Hce Hwe) as FLe.
      destruct (IH _ _ _ _ _ _ Hcl Hwf) as (El & Ll & Sl).
      split; [sz|]. split.
      { intros s i. cbn [map snd]. rewrite flat_args_cons, app_length, Nat2N.inj_add, FLe, Ll. sz. }
      intros i r m base s Hr Hpos Hbd Hseg. cbn [map snd] in Hseg. rewrite flat_args_cons in Hseg.
      apply seg_is_app in Hseg. destruct Hseg as [Hsege Hsegr]. rewrite FLe in Hsegr.
      destruct (Se r m base 0%Z 0%Z (kid s i) Hr (fun _ => eq_refl) Hpos ltac:(sz) Hsege)
        as (v & ke' & m1 & Hrefe & Hrune & Hfe1 & Hsege').
      pose proof Hfe1 as (Hp1 & Hl1 & _).
      replace (base + eff c + skels_size s0) with (base + eff c2) in Hsegr by lia.
      assert (Hsegr1 : seg_is m1 (base + eff c2) (flat_args ffe s (map snd lets) (S i)))
        by (eapply seg_is_frame; [exact Hsegr|exact Hfe1|lia]).
      destruct (Sl (S i) ((x, v) :: r) m1 base s (env_ok_cons _ _ _ _ Hr) Hp1 ltac:(rewrite Hl1; sz) Hsegr1)
        as (r' & kids & m2 & Hrefr & Hrunr & Hr' & Hlks & Hfr & Hsegr').
      exists r', (ke' :: kids), m2.
      split; [cbn [ref_lets]; rewrite Hrefe, Hrefr; reflexivity|].
      split; [cbn [run_lets]; rewrite Hrune; exact Hrunr|].
      split; [exact Hr'|]. split; [cbn [length]; congruence|].
      split; [eapply frame_ok_trans; [exact Hfe1|exact Hfr|try sz..]|].
      cbn [map snd flat_list]. apply seg_is_app. rewrite FLe. split.
      + eapply seg_is_frame; [exact Hsege'|exact Hfr|]. rewrite FLe. lia.
      + replace (base + eff c + skels_size s0) with (base + eff c2) by lia. exact Hsegr'.
  Qed.

  Lemma outs_sim : forall outs vars c ko so c1,
    compile_outs ce outs c = Some (ko, so, c1) -> forallb (wf_expr g false vars) outs = true ->
    eff c1 = eff c + skels_size so /\
    (forall s i, N.of_nat (length (flat_args ffe s outs i)) = skels_size so) /\
    forall i r m base s,
      env_ok vars r -> m_pos m = base + snd c ->
      base + eff c + skels_size so <= N.of_nat (length (m_words m)) ->
      seg_is m (base + eff c) (flat_args ffe s outs i) ->
      exists vs ks m',
        ref_outs rf now r outs s i = Some (vs, ks) /\
        run_outs d mf now r ko m = Some (vs, m') /\
        length ks = length outs /\
        frame_ok (base + eff c) (base + eff c + skels_size so) (base + snd c1) m m' /\
        seg_is m' (base + eff c) (flat_list ffe outs ks).
  Proof.
    induction outs as [|e outs IH]; intros vars c ko so c1 Hc Hwf.
    - cbn in Hc. inv Hc. split; [sz|]. split; [reflexivity|].
      intros i r m base s Hr Hpos Hbd Hseg. exists [], [], m.
      split; [reflexivity|]. split; [reflexivity|]. split; [reflexivity|].
      split; [rewrite <- Hpos; apply frame_ok_refl|apply seg_is_nil].
    - cbn [compile_outs] in Hc. cbn [forallb] in Hwf. apply andb_prop in Hwf. destruct Hwf as [Hwe Hwf].
      destruct (compile_expr ce e c) as [[[k s0] c2]|] eqn:Hce; [|discriminate].
      destruct (compile_outs ce outs c2) as [[[ks ss] c3]|] eqn:Hcl; [|discriminate]. inv Hc.
      destruct (expr_ok d now g ce mf Hsig Hfe _ _ _ _ _ _ _ Hce Hwe) as [Ee _].
      pose proof (sim_ok d now g ce rf mf ffe Hsig Hfe Hsim _ _ _ _ _ _ _ Hce Hwe) as Se.
      pose proof (fun s => flat_len g ce rf mf ffe Hsim _ _ _ _ _ _ _ s Hce Hwe) as FLe.
      destruct (IH _ _ _ _ _ Hcl Hwf) as (El & Ll & Sl).
      split; [sz|]. split.
      { intros s i. rewrite flat_args_cons, app_length, Nat2N.inj_add, FLe, Ll. sz. }
      intros i r m base s Hr Hpos Hbd Hseg. rewrite flat_args_cons in Hseg.
      apply seg_is_app in Hseg. destruct Hseg as [Hsege Hsegr]. rewrite FLe in Hsegr.
      destruct (Se r m base 0%Z 0%Z (kid s i) Hr (fun _ => eq_refl) Hpos ltac:(sz) Hsege)
        as (v & ke' & m1 & Hrefe & Hrune & Hfe1 & Hsege').
      pose proof Hfe1 as (Hp1 & Hl1 & _).
      replace (base + eff c + skels_size s0) with (base + eff c2) in Hsegr by lia.
      assert (Hsegr1 : seg_is m1 (base + eff c2) (flat_args ffe s outs (S i)))
        by (eapply seg_is_frame; [exact Hsegr|exact Hfe1|lia]).
      destruct (Sl (S i) r m1 base s Hr Hp1 ltac:(rewrite Hl1; sz) Hsegr1)
        as (vs & kids & m2 & Hrefr & Hrunr & Hlks & Hfr & Hsegr').
      exists (v :: vs), (ke' :: kids), m2.
      split; [cbn [ref_outs]; rewrite Hrefe, Hrefr; reflexivity|].
      split; [cbn [run_outs]; rewrite Hrune, Hrunr; reflexivity|].
      split; [cbn [length]; congruence|].
      split; [eapply frame_ok_trans; [exact Hfe1|exact Hfr|try sz..]|].
      cbn [flat_list]. apply seg_is_app. rewrite FLe. split.
      + eapply seg_is_frame; [exact Hsege'|exact Hfr|]. rewrite FLe. lia.
      + replace (base + eff c + skels_size s0) with (base + eff c2) by lia. exact Hsegr'.
  Qed.
End Dsp.

(* ---------- one sample of dsp ---------- *)
Theorem step_sim : forall d p cp now inputs m s,
  compile p = Some cp -> wf_prog p = true -> m_pos m = 0 -> length inputs = length (p_inputs p) ->
  size (published_skeleton cp) <= N.of_nat (length (m_words (step_start d cp m))) ->
  seg_is (step_start d cp m) 0 (flat_prog p s) ->
  exists outs s' m',
    ref_step p now inputs s = Some (outs, s') /\
    mach_step d p cp now inputs m = Some (outs, m') /\
    frame_ok 0 (size (published_skeleton cp)) 0 (step_start d cp m) m' /\
    seg_is m' 0 (flat_prog p s').
Proof.
  intros d p cp now inputs m s Hcomp Hwf Hpos Hlen Hbd Hseg. unfold wf_prog in Hwf. unfold compile in Hcomp.
  destruct (wf_funs [] (p_funs p)) as [g|] eqn:Hf; [|discriminate].
  destruct (wf_lets g (p_inputs p) (p_lets p)) as [vars|] eqn:Hl; [|discriminate].
  destruct (compile_funs (fun _ => None) (p_funs p)) as [ce|] eqn:Hcf; [|discriminate].
  destruct (funs_total _ _ _ _ sig_ok_nil Hf) as (ce' & Hcf' & Hsig). rewrite Hcf in Hcf'. inv Hcf'.
  destruct (compile_lets ce' (p_lets p) (None, 0)) as [[[kl sl] c1]|] eqn:Hcl; [|discriminate].
  destruct (compile_outs ce' (p_outs p) c1) as [[[ko so] [nso ps]]|] eqn:Hco; [|discriminate]. inv Hcomp.
  pose proof (funs_ok d now _ _ _ Hf Hcf ce' (fun f cf H => H)) as Hfe.
  pose proof (funs_sim d now _ _ _ Hf Hcf ce' (fun f cf H => H)) as Hsim.
  destruct (lets_sim d now g ce' _ _ _ Hsig Hfe Hsim _ _ _ _ _ _ _ Hcl Hl) as (El & Ll & Sl).
  destruct (outs_sim d now g ce' _ _ _ Hsig Hfe Hsim _ _ _ _ _ _ Hco Hwf) as (Eo & Lo & So).
  rewrite eff_none in *. cbn [snd] in *.
  unfold ref_step, mach_step, flat_prog in *. cbn [cp_fenv cp_inputs cp_lets cp_outs cp_pop].
  change (match d with
          | VmD => _
          | WasmD => _
          end) with (step_start d {| cp_fenv := ce'; cp_inputs := p_inputs p; cp_lets := kl; cp_outs := ko; cp_pop := ps; cp_skel := sl ++ so |} m).
  set (cp := {| cp_fenv := ce'; cp_inputs := p_inputs p; cp_lets := kl; cp_outs := ko; cp_pop := ps; cp_skel := sl ++ so |}) in *.
  set (ms := step_start d cp m) in *.
  set (ffe := flat_fenv (rev (p_funs p))) in *.
  assert (Hps : m_pos ms = 0) by (unfold ms, step_start; destruct d; exact Hpos).
  change (size (published_skeleton cp)) with (skels_size (sl ++ so)) in *.
  destruct (bind_params_ok (p_inputs p) inputs Hlen) as (r0 & -> & Hr0).
  apply seg_is_app in Hseg. destruct Hseg as [Hsegl Hsego]. rewrite Ll in Hsego.
  destruct (Sl O r0 ms 0 s Hr0 ltac:(lia) ltac:(sz) Hsegl) as (r1 & ks1 & m1 & -> & -> & Hr1 & Hlk1 & Hfl & Hsegl').
  pose proof Hfl as (Hp1 & Hl1 & _).
  assert (Hsego1 : seg_is m1 (0 + eff c1) (flat_args ffe s (p_outs p) (length (p_lets p))))
    by (replace (0 + eff c1) with (0 + 0 + skels_size sl) by lia; eapply seg_is_frame; [exact Hsego|exact Hfl|lia]).
  destruct (So (length (p_lets p)) r1 m1 0 s Hr1 Hp1 ltac:(rewrite Hl1; sz) Hsego1)
    as (vs & ks2 & m2 & -> & -> & Hlk2 & Hfo & Hsego').
  pose proof Hfo as (Hp2 & Hl2 & _).
  destruct (opt_pop_frame d ps m2 0 0 ltac:(lia)) as (m3 & -> & Hfp).
  rewrite Hp2 in Hfp. replace (0 + ps - ps) with 0 in Hfp by lia.
  exists vs, (ST CNone (ks1 ++ ks2)), m3. split; [reflexivity|]. split; [reflexivity|].
  assert (F12 : frame_ok 0 (skels_size (sl ++ so)) (0 + ps) ms m2)
    by (eapply frame_ok_trans; [exact Hfl|exact Hfo|try sz..]).
  split; [eapply frame_ok_trans; [exact F12|exact Hfp|try sz..]|].
  pose proof (flat_args_kids ffe (map snd (p_lets p)) CNone [] ks1 ks2 ltac:(rewrite map_length; exact Hlk1)) as HA.
  pose proof (flat_args_kids ffe (p_outs p) CNone ks1 ks2 [] Hlk2) as HB.
  cbn [app length] in HA. rewrite app_nil_r, Hlk1 in HB. rewrite HA, HB.
  apply seg_is_app. split.
  - eapply seg_is_frame; [eapply seg_is_frame; [exact Hsegl'|exact Hfo|]|exact Hfp|lia].
    rewrite <- HA, Ll. lia.
  - rewrite <- HA, Ll. replace (0 + skels_size sl) with (0 + eff c1) by lia.
    eapply seg_is_frame; [exact Hsego'|exact Hfp|lia].
Qed.

(* ---------- every run length ---------- *)
Lemma seg_is_words : forall m1 m2 lo l, m_words m1 = m_words m2 -> seg_is m1 lo l -> seg_is m2 lo l.
Proof. intros m1 m2 lo l Hw H j Hj. unfold rd. rewrite <- Hw. apply H. exact Hj. Qed.

Lemma seg_is_zero : forall m lo l, all_zero l -> (forall i, rd m i = 0%Z) -> seg_is m lo l.
Proof.
  intros m lo l Hz Hm j Hj. rewrite Hm. symmetry.
  unfold all_zero in Hz. rewrite Forall_forall in Hz. apply Hz. apply nth_In. exact Hj.
Qed.

(* the abstraction relation between a reference state tree and a machine state (between samples) *)
Definition abs_state (d : disc) (p : program) (cp : cprog) (s : stree) (m : mstate) : Prop :=
  m_pos m = 0 /\
  size (published_skeleton cp) <= N.of_nat (length (m_words (step_start d cp m))) /\
  seg_is (step_start d cp m) 0 (flat_prog p s).

Lemma abs_state_init : forall d p cp, abs_state d p cp st0 (init_state d cp).
Proof.
  intros d p cp. split; [destruct d; reflexivity|]. split.
  - destruct d; cbn [init_state]; [rewrite step_start_vm_length; lia|].
    cbn [step_start m_words]. rewrite repeat_length. lia.
  - apply seg_is_zero; [apply flat_prog_zero|]. intros i. unfold rd.
    destruct d; cbn [init_state step_start m_words m0].
    + unfold resize_words. cbn [length]. rewrite firstn_nil, Nat.sub_0_r. apply nth_repeat0.
    + apply nth_repeat0.
Qed.

Lemma abs_state_step : forall d p cp s' m m',
  size (published_skeleton cp) <= N.of_nat (length (m_words (step_start d cp m))) ->
  frame_ok 0 (size (published_skeleton cp)) 0 (step_start d cp m) m' ->
  seg_is m' 0 (flat_prog p s') -> abs_state d p cp s' m'.
Proof.
  intros d p cp s' m m' Hbd (Hp & Hl & _) Hseg.
  assert (Hw : m_words (step_start d cp m') = m_words m').
  { destruct d; cbn [step_start m_words]; [|reflexivity].
    cbn [step_start m_words] in Hl. rewrite resize_words_length in Hl. rewrite <- Hl. apply resize_words_id. }
  split; [exact Hp|]. split.
  - rewrite Hw, Hl. exact Hbd.
  - apply (seg_is_words m'); [symmetry; exact Hw|exact Hseg].
Qed.

Theorem run_sim : forall d p cp, compile p = Some cp -> wf_prog p = true ->
  forall rows t0 m s, rows_ok p rows -> abs_state d p cp s m ->
  exists outs s' m',
    ref_run p t0 rows s = Some (outs, s') /\
    outs_of (mach_run d p cp t0 rows m) = map Some outs /\
    final_state d p cp t0 rows m = Some m' /\ abs_state d p cp s' m'.
Proof.
  intros d p cp Hc Hwf. induction rows as [|i rows IH]; intros t0 m s Hrows Habs.
  - exists [], s, m. repeat split; auto; apply Habs.
  - inversion Hrows as [|? ? Hi Hrows']; subst. destruct Habs as (Hp & Hbd & Hseg).
    destruct (step_sim d p cp t0 i m s Hc Hwf Hp Hi Hbd Hseg) as (o & s1 & m1 & Hrs & Hms & Hf & Hseg1).
    pose proof (abs_state_step d p cp s1 m m1 Hbd Hf Hseg1) as Habs1.
    destruct (IH (t0 + 1)%Z m1 s1 Hrows' Habs1) as (os & s' & m' & Hrr & Hmr & Hfs & Habs').
    exists (o :: os), s', m'. cbn [ref_run mach_run final_state]. rewrite Hrs, Hms, Hrr, Hfs.
    split; [reflexivity|]. split; [|split; [reflexivity|exact Habs']].
    cbn [outs_of map option_map fst]. f_equal. exact Hmr.
Qed.

(* C02_preservation *)
Theorem preservation : forall p cp rows,
  compile p = Some cp -> wf_prog p = true -> rows_ok p rows ->
  exists outs s',
    ref_run p 0%Z rows st0 = Some (outs, s') /\
    outs_of (mach_run VmD p cp 0%Z rows m0) = map Some outs.
Proof.
  intros p cp rows Hc Hwf Hrows.
  destruct (run_sim VmD p cp Hc Hwf rows 0%Z m0 st0 Hrows (abs_state_init VmD p cp)) as (outs & s' & m' & Hr & Hm & _).
  exists outs, s'. auto.
Qed.

(* the same for any start time and either discipline *)
Theorem preservation_gen : forall d p cp t0 rows,
  compile p = Some cp -> wf_prog p = true -> rows_ok p rows ->
  exists outs s',
    ref_run p t0 rows st0 = Some (outs, s') /\
    outs_of (mach_run d p cp t0 rows (init_state d cp)) = map Some outs.
Proof.
  intros d p cp t0 rows Hc Hwf Hrows.
  destruct (run_sim d p cp Hc Hwf rows t0 _ st0 Hrows (abs_state_init d p cp)) as (outs & s' & m' & Hr & Hm & _).
  exists outs, s'. auto.
Qed.
