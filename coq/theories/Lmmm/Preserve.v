(* Lmmm/Preserve.v — C02: one-step simulation between the reference semantics (state tree) and the
   cursor machine (flat words), by induction on the expression. *)
From Coq Require Import List ZArith NArith Bool Lia Arith.
From Mimium Require Import StateTree.Model Lmmm.Syntax Lmmm.Ref Lmmm.Compile Lmmm.Machine Lmmm.Wf Lmmm.Spec
  Lmmm.Base Lmmm.Layout Lmmm.Prims Lmmm.Flat.
Import ListNotations.
Local Open Scope N_scope.

Ltac inv H := inversion H; subst; clear H.

Definition fn_sim (cf : cfun) (fr : ref_fn) (fm : mach_fn) (ff : flat_fn) : Prop :=
  (forall inst, N.of_nat (length (ff inst)) = skels_size (c_skel cf)) /\
  forall vs m inst, length vs = length (c_params cf) ->
    m_pos m + skels_size (c_skel cf) <= N.of_nat (length (m_words m)) ->
    seg_is m (m_pos m) (ff inst) ->
    exists v inst' m', fr vs inst = Some (v, inst') /\ fm vs m = Some (v, m') /\
      frame_ok (m_pos m) (m_pos m + skels_size (c_skel cf)) (m_pos m) m m' /\
      seg_is m' (m_pos m) (ff inst').

Definition fenv_sim (ce : cenv) (rf : ident -> option ref_fn) (mf : ident -> option mach_fn)
           (ffe : ident -> option flat_fn) : Prop :=
  forall f cf, ce f = Some cf ->
    exists fr fm ff, rf f = Some fr /\ mf f = Some fm /\ ffe f = Some ff /\ fn_sim cf fr fm ff.

Section Sim.
  Variable d : disc.
  Variable now : Z.
  Variable g : sigenv.
  Variable ce : cenv.
  Variable rf : ident -> option ref_fn.
  Variable mf : ident -> option mach_fn.
  Variable ffe : ident -> option flat_fn.
  Hypothesis Hsig : sig_ok g ce.
  Hypothesis Hfe : fenv_ok ce mf.
  Hypothesis Hsim : fenv_sim ce rf mf ffe.

  (* the words of an expression's tree fill exactly its skeleton *)
  Lemma flat_len : forall e in_fun vars c k ss c' s,
    compile_expr ce e c = Some (k, ss, c') -> wf_expr g in_fun vars e = true ->
    N.of_nat (length (flat_expr ffe e s)) = skels_size ss.
  Proof.
    induction e as [z|x| | | |op a b IHa IHb|a IHa|x a b IHa IHb|cn t e' IHc IHt IHe|f args IHargs|a IHa|n a t IHa IHt]
      using expr_ind'; intros in_fun vars c k ss c' s Hc Hwf; cbn [wf_expr] in Hwf;
      try (cbn [compile_expr] in Hc; inv Hc; reflexivity).
    - apply andb_prop in Hwf. destruct Hwf as [Hwa Hwb]. cbn [compile_expr] in Hc.
      destruct (compile_expr ce a c) as [[[ka sa] c1]|] eqn:Ha; [|discriminate].
      destruct (compile_expr ce b c1) as [[[kb sb] c2]|] eqn:Hb; [|discriminate]. inv Hc.
      cbn [flat_expr]. rewrite app_length, Nat2N.inj_add, (IHa _ _ _ _ _ _ _ Ha Hwa), (IHb _ _ _ _ _ _ _ Hb Hwb). sz.
    - cbn [compile_expr] in Hc.
      destruct (compile_expr ce a c) as [[[ka sa] c1]|] eqn:Ha; [|discriminate]. inv Hc.
      cbn [flat_expr]. apply (IHa _ _ _ _ _ _ _ Ha Hwf).
    - apply andb_prop in Hwf. destruct Hwf as [Hwa Hwb]. cbn [compile_expr] in Hc.
      destruct (compile_expr ce a c) as [[[ka sa] c1]|] eqn:Ha; [|discriminate].
      destruct (compile_expr ce b c1) as [[[kb sb] c2]|] eqn:Hb; [|discriminate]. inv Hc.
      cbn [flat_expr]. rewrite app_length, Nat2N.inj_add, (IHa _ _ _ _ _ _ _ Ha Hwa), (IHb _ _ _ _ _ _ _ Hb Hwb). sz.
    - apply andb_prop in Hwf. destruct Hwf as [Hwf Hwe]. apply andb_prop in Hwf. destruct Hwf as [Hwc Hwt].
      cbn [compile_expr] in Hc.
      destruct (compile_expr ce cn c) as [[[kc sc] c1]|] eqn:Hcc; [|discriminate].
      destruct (consume c1) as [push0 [o0 ps0]].
      destruct (compile_expr ce t (None, ps0)) as [[[kt st] c2]|] eqn:Hct; [|discriminate].
      destruct (consume c2) as [pusht ct].
      destruct (compile_expr ce e' _) as [[[ke se] c3]|] eqn:Hce; [|discriminate].
      destruct (consume c3) as [pushe cte]. inv Hc.
      cbn [flat_expr]. rewrite !app_length, !Nat2N.inj_add, (IHc _ _ _ _ _ _ _ Hcc Hwc), (IHt _ _ _ _ _ _ _ Hct Hwt), (IHe _ _ _ _ _ _ _ Hce Hwe). sz.
    - apply andb_prop in Hwf. destruct Hwf as [Hwargs Hwsig]. rewrite compile_call_eq in Hc.
      destruct (compile_args ce args c) as [[[ks ss1] c1]|] eqn:Hargs; [|discriminate].
      assert (Hargs' : forall i, N.of_nat (length (flat_args ffe s args i)) = skels_size ss1).
      { clear Hc Hwsig. revert c ks ss1 c1 Hwargs Hargs.
        induction IHargs as [|a args Ha _ IH]; intros c ks ss1 c1 Hwargs Hargs i.
        - cbn in Hargs. inv Hargs. reflexivity.
        - cbn [forallb] in Hwargs. apply andb_prop in Hwargs. destruct Hwargs as [Hwa Hwr].
          rewrite compile_args_cons in Hargs.
          destruct (compile_expr ce a c) as [[[ka sa] c2]|] eqn:Hca; [|discriminate].
          destruct (compile_args ce args c2) as [[[ks' ss'] c3]|] eqn:Hcr; [|discriminate]. inv Hargs.
          rewrite flat_args_cons, app_length, Nat2N.inj_add, (Ha _ _ _ _ _ _ _ Hca Hwa), (IH _ _ _ _ Hwr Hcr). sz. }
      rewrite flat_call_eq, app_length, Nat2N.inj_add, Hargs'.
      destruct (ce f) as [cf|] eqn:Hcf; [|discriminate].
      destruct (Hsim f cf Hcf) as (fr & fm & ff & _ & _ & -> & Hlen & _). rewrite Hlen.
      destruct (Nat.eqb (length (c_params cf)) (length args)); [|discriminate].
      destruct (c_skel cf) as [|s0 sk0] eqn:Hsk.
      + inv Hc. sz.
      + destruct (consume c1) as [push [o ps]]. inv Hc. sz.
    - cbn [compile_expr] in Hc.
      destruct (compile_expr ce a c) as [[[ka sa] c1]|] eqn:Ha; [|discriminate].
      destruct (consume c1) as [push [o ps]]. inv Hc.
      cbn [flat_expr]. rewrite app_length, Nat2N.inj_add, (IHa _ _ _ _ _ _ _ Ha Hwf). cbn [length]. sz.
    - apply andb_prop in Hwf. destruct Hwf as [Hwa Hwt]. cbn [compile_expr] in Hc.
      destruct (compile_expr ce a c) as [[[ka sa] c1]|] eqn:Ha; [|discriminate].
      destruct (compile_expr ce t c1) as [[[kt st] c2]|] eqn:Ht; [|discriminate].
      destruct (consume c2) as [push [o ps]].
      remember (size (Delay n)) as dsz eqn:Hdsz in Hc. inv Hc.
      cbn [flat_expr]. rewrite !app_length, !Nat2N.inj_add, (IHa _ _ _ _ _ _ _ Ha Hwa), (IHt _ _ _ _ _ _ _ Ht Hwt).
      rewrite ring_words_length. sz.
  Qed.

End Sim.
