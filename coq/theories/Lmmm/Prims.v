(* Lmmm/Prims.v — the reference-semantics clauses of C02 and the ring-buffer refinement:
   the ring [read_idx; write_idx; data[n]] kept by Instruction::Delay in the flat state words is the
   abstraction `ring_words n hist ridx` of the history of inputs of the reference semantics. *)
From Coq Require Import List ZArith NArith Bool Lia Arith.
From Mimium Require Import StateTree.Model Lmmm.Syntax Lmmm.Ref Lmmm.Compile Lmmm.Machine Lmmm.Wf Lmmm.Spec Lmmm.Base.
Import ListNotations.

(* ---------- clauses of the reference semantics ---------- *)
Lemma delay_clause : forall (n : N) (hist : list Z) (t : Z),
  (1 <= t <= Z.of_N n - 1)%Z -> delay_read n hist t = nth (Z.to_nat t - 1) hist 0%Z.
Proof.
  intros n hist t Ht. unfold delay_read. destruct (N.eqb_spec n 0) as [->|Hn]; [cbn in Ht; lia|].
  unfold Ref.clampZ. rewrite Z.min_l by lia. rewrite Z.max_r by lia.
  destruct (Z.to_nat t) as [|d'] eqn:Hd; [lia|]. rewrite Nat.sub_succ, Nat.sub_0_r. reflexivity.
Qed.

Lemma mem_clause : forall fenv now selfv r a s va ka prev kids,
  ref_eval fenv now selfv r a (kid s 0) = Some (va, ka) -> s = ST (CMem prev) kids ->
  ref_eval fenv now selfv r (EMem a) s = Some (prev, ST (CMem va) [ka]).
Proof. intros fenv now selfv r a s va ka prev kids Ha ->. cbn [ref_eval]. rewrite Ha. reflexivity. Qed.

Lemma self_clause : forall fenv now fd vs prev kids v kb r,
  bind_params (f_params fd) vs = Some r ->
  ref_eval fenv now prev r (f_body fd) (kid (ST (CSelf prev) kids) 0) = Some (v, kb) ->
  ref_call fenv now fd vs (ST (CSelf prev) kids) = Some (v, ST (CSelf v) [kb]).
Proof. intros fenv now fd vs prev kids v kb r Hb He. unfold ref_call. rewrite Hb. cbn [cell_of]. rewrite He. reflexivity. Qed.

(* ---------- the ring as a function of the history ---------- *)
(* data slots: input number k (0 = oldest) is written to slot k mod n *)
Fixpoint ring_data (n : nat) (h : list Z) : list Z :=
  match h with
  | [] => repeat 0%Z n
  | x :: h' => set_nth (ring_data n h') (length h' mod n) x
  end.

Definition ring_words (n : N) (h : list Z) (ridx : Z) : list Z :=
  if N.eqb n 0 then [0%Z; 0%Z]
  else ridx :: (Z.of_nat (length h) mod Z.of_N n)%Z :: ring_data (N.to_nat n) h.

Lemma ring_data_length : forall n h, length (ring_data n h) = n.
Proof. induction h as [|x h IH]; cbn [ring_data]; [apply repeat_length|rewrite set_nth_length; exact IH]. Qed.

Lemma ring_words_length : forall n h r, N.of_nat (length (ring_words n h r)) = (2 + n)%N.
Proof.
  intros n h r. unfold ring_words. destruct (N.eqb_spec n 0) as [->|Hn]; [reflexivity|].
  cbn [length]. rewrite ring_data_length. lia.
Qed.

Lemma nth_repeat0 : forall n j, nth j (repeat 0%Z n) 0%Z = 0%Z.
Proof. induction n as [|n IH]; intros [|j]; cbn [repeat nth]; auto. Qed.

Lemma nth_nil0 : forall j, nth j (@nil Z) 0%Z = 0%Z.
Proof. intros [|j]; reflexivity. Qed.

(* reading d samples back (1 <= d <= n) *)
Lemma ring_read : forall n h d, (1 <= d <= n)%nat ->
  nth ((length h + n - d) mod n) (ring_data n h) 0%Z = nth (d - 1) h 0%Z.
Proof.
  intros n h. induction h as [|x h IH]; intros d Hd.
  - cbn [ring_data]. rewrite nth_repeat0, nth_nil0. reflexivity.
  - cbn [ring_data length]. rewrite nth_set_nth, ring_data_length.
    assert (Hlt : (length h mod n < n)%nat) by (apply Nat.mod_upper_bound; lia).
    destruct (Nat.ltb_spec (length h mod n) n) as [_|Hc]; [|lia]. rewrite Bool.andb_true_r.
    destruct (Nat.eq_dec d 1) as [->|Hd1].
    + replace (S (length h) + n - 1)%nat with (length h + 1 * n)%nat by lia.
      rewrite Nat.mod_add by lia. rewrite Nat.eqb_refl. reflexivity.
    + replace (S (length h) + n - d)%nat with (length h + n - (d - 1))%nat by lia.
      destruct (Nat.eqb_spec ((length h + n - (d - 1)) mod n) (length h mod n)) as [He|He].
      * exfalso.
        (* length h + n - (d-1) = length h + (n - (d-1)) with 1 <= n-(d-1) <= n-1 *)
        set (e := (n - (d - 1))%nat) in *. assert (Hee : (1 <= e <= n - 1)%nat) by (unfold e; lia).
        replace (length h + n - (d - 1))%nat with (length h + e)%nat in He by (unfold e; lia).
        rewrite (Nat.add_mod (length h) e n) in He by lia.
        rewrite (Nat.mod_small e n) in He by lia.
        set (a := (length h mod n)%nat) in *.
        destruct (Nat.lt_ge_cases (a + e) n) as [Hs|Hs].
        -- rewrite Nat.mod_small in He by lia. lia.
        -- replace (a + e)%nat with ((a + e - n) + 1 * n)%nat in He by lia.
           rewrite Nat.mod_add in He by lia. rewrite Nat.mod_small in He by lia. lia.
      * rewrite IH by lia. destruct d as [|[|d']]; try lia.
        replace (S (S d') - 1)%nat with (S d') by lia. replace (S d' - 1)%nat with d' by lia. reflexivity.
Qed.

(* ---------- segments of the flat words ---------- *)
Local Open Scope N_scope.

Definition seg_is (m : mstate) (lo : N) (l : list Z) : Prop :=
  forall j, (j < length l)%nat -> rd m (lo + N.of_nat j) = nth j l 0%Z.

Definition frame_ok (lo hi pos' : N) (m m' : mstate) : Prop :=
  m_pos m' = pos' /\ length (m_words m') = length (m_words m) /\
  forall i, i < lo \/ hi <= i -> rd m' i = rd m i.

Lemma seg_is_nil : forall m lo, seg_is m lo [].
Proof. intros m lo j Hj. cbn in Hj. lia. Qed.

Lemma seg_is_app : forall m lo l1 l2,
  seg_is m lo (l1 ++ l2) <-> seg_is m lo l1 /\ seg_is m (lo + N.of_nat (length l1)) l2.
Proof.
  intros m lo l1 l2. split.
  - intros H. split.
    + intros j Hj. rewrite H by (rewrite app_length; lia). rewrite app_nth1 by lia. reflexivity.
    + intros j Hj. replace (lo + N.of_nat (length l1) + N.of_nat j) with (lo + N.of_nat (length l1 + j)) by lia.
      rewrite H by (rewrite app_length; lia). rewrite app_nth2 by lia. f_equal. lia.
  - intros [H1 H2] j Hj. rewrite app_length in Hj. destruct (Nat.lt_ge_cases j (length l1)) as [Hlt|Hge].
    + rewrite app_nth1 by lia. apply H1. exact Hlt.
    + rewrite app_nth2 by lia. rewrite <- H2 by lia. f_equal. lia.
Qed.

Lemma seg_is_frame : forall m m' lo l lo' hi' pos',
  seg_is m lo l -> frame_ok lo' hi' pos' m m' ->
  lo + N.of_nat (length l) <= lo' \/ hi' <= lo \/ hi' <= lo' -> seg_is m' lo l.
Proof.
  intros m m' lo l lo' hi' pos' Hs (_ & _ & Hf) Hd j Hj. rewrite Hf by lia. apply Hs. exact Hj.
Qed.

Lemma seg_is_one : forall m lo v, seg_is m lo [v] <-> rd m lo = v.
Proof.
  intros m lo v. split.
  - intros H. specialize (H O ltac:(cbn; lia)). rewrite N.add_0_r in H. exact H.
  - intros H j Hj. cbn [length] in Hj. assert (Hj0 : j = O) by lia. subst j. rewrite N.add_0_r. exact H.
Qed.

Lemma frame_ok_refl : forall lo hi m, frame_ok lo hi (m_pos m) m m.
Proof. intros. repeat split; auto. Qed.

Lemma frame_ok_trans : forall lo hi lo1 hi1 p1 lo2 hi2 p2 m m1 m2,
  frame_ok lo1 hi1 p1 m m1 -> frame_ok lo2 hi2 p2 m1 m2 ->
  (lo <= lo1 \/ hi1 <= lo1) -> hi1 <= hi \/ hi1 <= lo1 -> lo <= lo2 \/ hi2 <= lo2 -> hi2 <= hi \/ hi2 <= lo2 ->
  frame_ok lo hi p2 m m2.
Proof.
  intros lo hi lo1 hi1 p1 lo2 hi2 p2 m m1 m2 (Hp1 & Hl1 & Hf1) (Hp2 & Hl2 & Hf2) Ha Hb Hc Hd.
  split; [exact Hp2|]. split; [congruence|]. intros i Hi. rewrite Hf2 by lia. rewrite Hf1 by lia. reflexivity.
Qed.

Lemma run_ok_frame : forall lo hi pos' P m m', run_ok lo hi pos' P m m' -> frame_ok lo hi pos' m m'.
Proof. intros lo hi pos' P m m' (Hp & Hl & Hf & _). repeat split; auto. Qed.

(* ---------- ring-buffer refinement ---------- *)
Lemma rd_tr : forall m p t i, rd (mkM (m_words m) p t) i = rd m i.
Proof. reflexivity. Qed.

Lemma delay1_refines : forall d n x t m h ridx,
  m_pos m + 2 + n <= N.of_nat (length (m_words m)) ->
  seg_is m (m_pos m) (ring_words n h ridx) ->
  exists m', delay1 d n x t m = Some (delay_read n h t, m') /\
    frame_ok (m_pos m) (m_pos m + 2 + n) (m_pos m) m m' /\
    seg_is m' (m_pos m) (ring_words n (x :: h) (delay_ridx n h t)).
Proof.
  intros d n x t m h ridx Hb Hseg. unfold delay1, delay_read, delay_ridx, ring_words in *. unfold tr. cbn [m_pos m_words m_trace].
  destruct (N.eqb_spec n 0) as [Hn|Hn].
  - assert (Hres : exists m', match d with
                   | VmD => match ensure d (m_pos m + 2) {| m_words := m_words m; m_pos := m_pos m; m_trace := (2, m_pos m, n + 2) :: m_trace m |} with
                            | Some m0 => Some (0%Z, m0) | None => None end
                   | WasmD => Some (0%Z, {| m_words := m_words m; m_pos := m_pos m; m_trace := (2, m_pos m, n + 2) :: m_trace m |})
                   end = Some (0%Z, m') /\ m_words m' = m_words m /\ m_pos m' = m_pos m).
    { destruct d; [rewrite ensure_ok by (cbn [m_words]; lia)|]; eexists; split; try reflexivity; auto. }
    destruct Hres as (m' & -> & Hw & Hp). exists m'. split; [reflexivity|]. split.
    + split; [exact Hp|]. split; [rewrite Hw; reflexivity|]. intros i _. unfold rd. rewrite Hw. reflexivity.
    + intros j Hj. unfold rd. rewrite Hw. apply Hseg. exact Hj.
  - rewrite ensure_ok by (cbn [m_words]; lia). cbn [m_pos].
    match goal with |- exists m', Some (?res, ?mf) = _ /\ _ => exists mf; split; [f_equal; f_equal|split] end.
    2:{ split; [reflexivity|]. split; [rewrite !wr_length; reflexivity|].
        intros i Hi. rewrite !rd_wr.
        match goal with |- context [Z.to_N ?w] => assert (Hw : (0 <= w < Z.of_N n)%Z) by (apply Z.mod_pos_bound; lia) end.
        destruct (N.eqb_spec i (m_pos m + 1)); [lia|].
        destruct (N.eqb_spec i (m_pos m)); [lia|].
        match goal with |- context [N.eqb i ?q] => destruct (N.eqb_spec i q); [lia|] end. reflexivity. }
    + (* the value read *)
      rewrite !rd_tr.
      set (nn := N.to_nat n). set (len := Z.of_N n). set (L := length h).
      assert (Hlen : len = Z.of_nat nn) by (unfold len, nn; lia).
      assert (Hnn : (0 < nn)%nat) by (unfold nn; lia).
      pose proof (Hseg 1%nat ltac:(cbn [length]; lia)) as Hw. cbn [nth] in Hw.
      replace (m_pos m + N.of_nat 1) with (m_pos m + 1) in Hw by lia. rewrite Hw.
      fold len. fold L. rewrite Z.mod_mod by lia.
      set (dl := Ref.clampZ t 0 (len - 1)). change (clampZ t 0 (len - 1)) with dl.
      assert (Hdl : (0 <= dl <= len - 1)%Z) by (unfold dl, Ref.clampZ; lia).
      set (r := ((Z.of_nat L mod len + len - dl) mod len)%Z).
      assert (Hr : (0 <= r < len)%Z) by (apply Z.mod_pos_bound; lia).
      pose proof (Hseg (2 + Z.to_nat r)%nat ltac:(cbn [length]; rewrite ring_data_length; lia)) as Hd.
      replace (m_pos m + N.of_nat (2 + Z.to_nat r)) with (m_pos m + 2 + Z.to_N r) in Hd by lia.
      rewrite Hd. cbn [nth plus]. fold nn.
      (* r as a natural number *)
      destruct (Z.to_nat dl) as [|d'] eqn:Hdn.
      * assert (dl = 0%Z) by lia.
        assert (Hre : Z.to_nat r = ((L + nn - nn) mod nn)%nat).
        { unfold r. rewrite H, Z.sub_0_r. rewrite Hlen. rewrite <- Nat2Z.inj_mod, <- Nat2Z.inj_add, <- Nat2Z.inj_mod, Nat2Z.id.
          rewrite Nat.add_mod_idemp_l by lia. replace (L + nn - nn)%nat with L by lia.
          replace (L + nn)%nat with (L + 1 * nn)%nat by lia. apply Nat.mod_add. lia. }
        rewrite Hre. unfold L. rewrite ring_read by lia. reflexivity.
      * assert (Hre : Z.to_nat r = ((L + nn - S d') mod nn)%nat).
        { unfold r. replace dl with (Z.of_nat (S d')) by lia. rewrite Hlen.
          replace (Z.of_nat L mod Z.of_nat nn + Z.of_nat nn - Z.of_nat (S d'))%Z
            with (Z.of_nat L mod Z.of_nat nn + Z.of_nat (nn - S d'))%Z by lia.
          rewrite Z.add_mod_idemp_l by lia. rewrite <- Nat2Z.inj_add, <- Nat2Z.inj_mod, Nat2Z.id. f_equal. lia. }
        rewrite Hre. unfold L. rewrite ring_read by lia. rewrite Nat.sub_succ, Nat.sub_0_r. reflexivity.
    + (* the new ring *)
      rewrite !rd_tr.
      set (nn := N.to_nat n). set (len := Z.of_N n). set (L := length h).
      assert (Hlen : len = Z.of_nat nn) by (unfold len, nn; lia).
      assert (Hnn : (0 < nn)%nat) by (unfold nn; lia).
      pose proof (Hseg 1%nat ltac:(cbn [length]; lia)) as Hw. cbn [nth] in Hw.
      replace (m_pos m + N.of_nat 1) with (m_pos m + 1) in Hw by lia. rewrite Hw.
      fold len. fold L. rewrite Z.mod_mod by lia.
      assert (Hwn : (Z.of_nat L mod len)%Z = Z.of_nat (L mod nn)) by (rewrite Hlen, Nat2Z.inj_mod; reflexivity).
      assert (Hwlt : (L mod nn < nn)%nat) by (apply Nat.mod_upper_bound; lia).
      change (ring_data nn (x :: h)) with (set_nth (ring_data nn h) (L mod nn) x).
      intros j Hj. cbn [length] in Hj. rewrite set_nth_length, ring_data_length in Hj.
      rewrite !rd_wr, !wr_length. cbn [m_words]. 
      destruct j as [|[|j]].
      * rewrite N.add_0_r. destruct (N.eqb_spec (m_pos m) (m_pos m + 1)); [lia|]. cbn [andb].
        rewrite N.eqb_refl. destruct (N.ltb_spec (m_pos m) (N.of_nat (length (m_words m)))); [|lia].
        cbn [andb nth]. reflexivity.
      * replace (m_pos m + N.of_nat 1) with (m_pos m + 1) by lia. rewrite N.eqb_refl.
        destruct (N.ltb_spec (m_pos m + 1) (N.of_nat (length (m_words m)))); [|lia]. cbn [andb nth length].
        rewrite Z.add_mod_idemp_l by lia. f_equal. unfold L. lia.
      * destruct (N.eqb_spec (m_pos m + N.of_nat (S (S j))) (m_pos m + 1)); [lia|].
        destruct (N.eqb_spec (m_pos m + N.of_nat (S (S j))) (m_pos m)); [lia|]. cbn [andb nth length].
        fold nn. rewrite nth_set_nth, ring_data_length. rewrite Hwn.
        destruct (Nat.ltb_spec (L mod nn) nn) as [_|]; [|lia]. rewrite Bool.andb_true_r.
        destruct (N.ltb_spec (m_pos m + 2 + Z.to_N (Z.of_nat (L mod nn))) (N.of_nat (length (m_words m)))); [|lia].
        rewrite Bool.andb_true_r.
        destruct (Nat.eqb_spec j (L mod nn)) as [->|Hne].
        -- destruct (N.eqb_spec (m_pos m + N.of_nat (S (S (L mod nn)))) (m_pos m + 2 + Z.to_N (Z.of_nat (L mod nn)))); [reflexivity|lia].
        -- destruct (N.eqb_spec (m_pos m + N.of_nat (S (S j))) (m_pos m + 2 + Z.to_N (Z.of_nat (L mod nn)))); [lia|].
           apply (Hseg (S (S j))). cbn [length]. rewrite ring_data_length. fold nn. lia.
Qed.

Lemma mem1_refines : forall d v m prev,
  m_pos m + 1 <= N.of_nat (length (m_words m)) -> seg_is m (m_pos m) [prev] ->
  exists m', mem1 d v m = Some (prev, m') /\
    frame_ok (m_pos m) (m_pos m + 1) (m_pos m) m m' /\ seg_is m' (m_pos m) [v].
Proof.
  intros d v m prev Hb Hseg. apply seg_is_one in Hseg. unfold mem1, tr. cbn [m_pos m_words m_trace].
  rewrite ensure_ok by (cbn [m_words]; exact Hb). cbn [m_pos]. rewrite rd_tr, Hseg.
  eexists. split; [reflexivity|]. split.
  - split; [reflexivity|]. split; [rewrite wr_length; reflexivity|].
    intros i Hi. rewrite rd_wr. destruct (N.eqb_spec i (m_pos m)); [lia|]. reflexivity.
  - apply seg_is_one. rewrite rd_wr. cbn [m_words]. rewrite N.eqb_refl.
    destruct (N.ltb_spec (m_pos m) (N.of_nat (length (m_words m)))); [reflexivity|lia].
Qed.

Lemma get1_refines : forall d m prev,
  m_pos m + 1 <= N.of_nat (length (m_words m)) -> seg_is m (m_pos m) [prev] ->
  exists m', get1 d m = Some (prev, m') /\ frame_ok (m_pos m) (m_pos m) (m_pos m) m m'.
Proof.
  intros d m prev Hb Hseg. apply seg_is_one in Hseg. unfold get1, tr. cbn [m_pos m_words m_trace].
  rewrite ensure_ok by (cbn [m_words]; exact Hb). cbn [m_pos]. rewrite rd_tr, Hseg.
  eexists. split; [reflexivity|]. repeat split; auto.
Qed.

Lemma set1_refines : forall d v m,
  m_pos m + 1 <= N.of_nat (length (m_words m)) ->
  exists m', set1 d v m = Some m' /\
    frame_ok (m_pos m) (m_pos m + 1) (m_pos m) m m' /\ seg_is m' (m_pos m) [v].
Proof.
  intros d v m Hb. unfold set1, tr. cbn [m_pos m_words m_trace].
  rewrite ensure_ok by (cbn [m_words]; exact Hb). cbn [m_pos].
  eexists. split; [reflexivity|]. split.
  - split; [reflexivity|]. split; [rewrite wr_length; reflexivity|].
    intros i Hi. rewrite rd_wr. destruct (N.eqb_spec i (m_pos m)); [lia|]. reflexivity.
  - apply seg_is_one. rewrite rd_wr. cbn [m_words]. rewrite N.eqb_refl.
    destruct (N.ltb_spec (m_pos m) (N.of_nat (length (m_words m)))); [reflexivity|lia].
Qed.

Lemma opt_push_frame : forall push m lo hi,
  frame_ok lo hi (m_pos m + match push with Some o => o | None => 0 end) m (opt_push push m).
Proof.
  intros [o|] m lo hi; cbn [opt_push].
  - repeat split; auto.
  - rewrite N.add_0_r. apply frame_ok_refl.
Qed.

Lemma opt_pop_frame : forall d k m lo hi, k <= m_pos m ->
  exists m', (if 0 <? k then do_pop d k m else Some m) = Some m' /\ frame_ok lo hi (m_pos m - k) m m'.
Proof.
  intros d k m lo hi Hk. destruct (N.ltb_spec 0 k) as [Hp|Hz].
  - unfold do_pop, tr. cbn [m_words m_pos m_trace]. destruct (N.leb_spec k (m_pos m)); [|lia].
    eexists. split; [reflexivity|]. repeat split; auto.
  - exists m. split; [reflexivity|]. replace (m_pos m - k) with (m_pos m) by lia. apply frame_ok_refl.
Qed.
