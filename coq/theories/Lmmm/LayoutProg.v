(* Lmmm/LayoutProg.v — C05 at program level: one dsp call, then every run length. *)
From Coq Require Import List ZArith NArith Bool Lia.
From Mimium Require Import StateTree.Model Lmmm.Syntax Lmmm.Ref Lmmm.Compile Lmmm.Machine Lmmm.Wf Lmmm.Spec Lmmm.Base Lmmm.Layout.
Import ListNotations.
Local Open Scope N_scope.

Section Dsp.
  Variable d : disc.
  Variable now : Z.
  Variable g : sigenv.
  Variable ce : cenv.
  Variable mf : ident -> option mach_fn.
  Hypothesis Hsig : sig_ok g ce.
  Hypothesis Hfe : fenv_ok ce mf.

  Lemma lets_ok : forall lets vars vars' c kl sl c1,
    compile_lets ce lets c = Some (kl, sl, c1) -> wf_lets g vars lets = Some vars' ->
    eff c1 = eff c + skels_size sl /\
    forall r m base,
      env_ok vars r -> m_pos m = base + snd c ->
      base + eff c + skels_size sl <= N.of_nat (length (m_words m)) ->
      exists r' m', run_lets d mf now r kl m = Some (r', m') /\ env_ok vars' r' /\
        run_ok (base + eff c) (base + eff c + skels_size sl) (base + snd c1)
               (event_at (FnCall sl) (base + eff c)) m m'.
  Proof.
    induction lets as [|[x e] lets IH]; intros vars vars' c kl sl c1 Hc Hwf.
    - cbn in Hc, Hwf. inv Hc. inv Hwf. split; [sz|]. intros r m base Hr Hpos Hbd.
      exists r, m. split; [reflexivity|]. split; [exact Hr|]. rewrite <- Hpos. apply run_ok_refl.
    - cbn [compile_lets] in Hc. cbn [wf_lets] in Hwf.
      destruct (wf_expr g false vars e) eqn:Hwe; [|discriminate].
      destruct (compile_expr ce e c) as [[[k s] c2]|] eqn:Hce; [|discriminate].
      destruct (compile_lets ce lets c2) as [[[ks ss] c3]|] eqn:Hcl; [|discriminate]. inv Hc.
      destruct (expr_ok d now g ce mf Hsig Hfe _ _ _ _ _ _ _ Hce Hwe) as [Ee Re].
      destruct (IH _ _ _ _ _ _ Hcl Hwf) as [El Rl].
      split; [sz|]. intros r m base Hr Hpos Hbd.
      destruct (Re r m base 0%Z Hr Hpos ltac:(sz)) as (v & m1 & Hre & Hoe).
      pose proof Hoe as (Hp1 & Hl1 & _).
      destruct (Rl ((x, v) :: r) m1 base (env_ok_cons _ _ _ _ Hr) Hp1 ltac:(rewrite Hl1; sz))
        as (r' & m2 & Hrl & Hr' & Hol).
      exists r', m2. split; [cbn [run_lets]; rewrite Hre; exact Hrl|]. split; [exact Hr'|].
      eapply run_ok_trans; [exact Hoe|exact Hol|try sz..| |].
      + intros ev. apply event_at_app_l.
      + intros ev. apply event_at_app_r. lia.
  Qed.

  Lemma outs_ok : forall outs vars c ko so c1,
    compile_outs ce outs c = Some (ko, so, c1) -> forallb (wf_expr g false vars) outs = true ->
    eff c1 = eff c + skels_size so /\
    forall r m base,
      env_ok vars r -> m_pos m = base + snd c ->
      base + eff c + skels_size so <= N.of_nat (length (m_words m)) ->
      exists vs m', run_outs d mf now r ko m = Some (vs, m') /\ length vs = length outs /\
        run_ok (base + eff c) (base + eff c + skels_size so) (base + snd c1)
               (event_at (FnCall so) (base + eff c)) m m'.
  Proof.
    induction outs as [|e outs IH]; intros vars c ko so c1 Hc Hwf.
    - cbn in Hc. inv Hc. split; [sz|]. intros r m base Hr Hpos Hbd.
      exists [], m. split; [reflexivity|]. split; [reflexivity|]. rewrite <- Hpos. apply run_ok_refl.
    - cbn [compile_outs] in Hc. cbn [forallb] in Hwf. apply andb_prop in Hwf. destruct Hwf as [Hwe Hwf].
      destruct (compile_expr ce e c) as [[[k s] c2]|] eqn:Hce; [|discriminate].
      destruct (compile_outs ce outs c2) as [[[ks ss] c3]|] eqn:Hcl; [|discriminate]. inv Hc.
      destruct (expr_ok d now g ce mf Hsig Hfe _ _ _ _ _ _ _ Hce Hwe) as [Ee Re].
      destruct (IH _ _ _ _ _ Hcl Hwf) as [El Rl].
      split; [sz|]. intros r m base Hr Hpos Hbd.
      destruct (Re r m base 0%Z Hr Hpos ltac:(sz)) as (v & m1 & Hre & Hoe).
      pose proof Hoe as (Hp1 & Hl1 & _).
      destruct (Rl r m1 base Hr Hp1 ltac:(rewrite Hl1; sz)) as (vs & m2 & Hrl & Hlen & Hol).
      exists (v :: vs), m2. split; [cbn [run_outs]; rewrite Hre, Hrl; reflexivity|].
      split; [cbn [length]; congruence|].
      eapply run_ok_trans; [exact Hoe|exact Hol|try sz..| |].
      + intros ev. apply event_at_app_l.
      + intros ev. apply event_at_app_r. lia.
  Qed.
End Dsp.

Lemma lets_total : forall g ce, sig_ok g ce -> forall lets vars vars' c,
  wf_lets g vars lets = Some vars' -> exists kl sl c1, compile_lets ce lets c = Some (kl, sl, c1).
Proof.
  intros g ce Hsig. induction lets as [|[x e] lets IH]; intros vars vars' c Hwf.
  - do 3 eexists; reflexivity.
  - cbn [wf_lets] in Hwf. destruct (wf_expr g false vars e) eqn:Hwe; [|discriminate].
    cbn [compile_lets]. destruct (compile_expr_total g ce Hsig _ _ _ c Hwe) as (k & s & c1 & ->).
    destruct (IH _ _ c1 Hwf) as (kl & sl & c2 & ->). do 3 eexists; reflexivity.
Qed.

Lemma outs_total : forall g ce, sig_ok g ce -> forall outs vars c,
  forallb (wf_expr g false vars) outs = true -> exists ko so c1, compile_outs ce outs c = Some (ko, so, c1).
Proof.
  intros g ce Hsig. induction outs as [|e outs IH]; intros vars c Hwf.
  - do 3 eexists; reflexivity.
  - cbn [forallb] in Hwf. apply andb_prop in Hwf. destruct Hwf as [Hwe Hwf].
    cbn [compile_outs]. destruct (compile_expr_total g ce Hsig _ _ _ c Hwe) as (k & s & c1 & ->).
    destruct (IH _ c1 Hwf) as (ko & so & c2 & ->). do 3 eexists; reflexivity.
Qed.

(* C05_wf_compiles *)
Theorem wf_compiles : forall p, wf_prog p = true -> exists cp, compile p = Some cp.
Proof.
  intros p Hwf. unfold wf_prog in Hwf. unfold compile.
  destruct (wf_funs [] (p_funs p)) as [g|] eqn:Hf; [|discriminate].
  destruct (wf_lets g (p_inputs p) (p_lets p)) as [vars|] eqn:Hl; [|discriminate].
  destruct (funs_total _ _ _ _ sig_ok_nil Hf) as (ce & -> & Hsig).
  destruct (lets_total g ce Hsig _ _ _ (None, 0) Hl) as (kl & sl & c1 & ->).
  destruct (outs_total g ce Hsig _ _ c1 Hwf) as (ko & so & [nso ps] & ->).
  eexists; reflexivity.
Qed.

Lemma resize_words_length : forall l n, length (resize_words l n) = n.
Proof.
  intros l n. unfold resize_words. rewrite app_length, firstn_length, repeat_length. lia.
Qed.

Lemma resize_words_id : forall l, resize_words l (length l) = l.
Proof.
  intros l. unfold resize_words. rewrite firstn_all, Nat.sub_diag. cbn [repeat]. apply app_nil_r.
Qed.

(* the machine a dsp call starts from (storage resized on the VM, trace cleared) *)
Definition step_start (d : disc) (cp : cprog) (m : mstate) : mstate :=
  match d with
  | VmD => mkM (resize_words (m_words m) (N.to_nat (size (published_skeleton cp)))) (m_pos m) []
  | WasmD => mkM (m_words m) (m_pos m) []
  end.

Theorem step_ok : forall d p cp now inputs m,
  compile p = Some cp -> wf_prog p = true -> m_pos m = 0 -> length inputs = length (p_inputs p) ->
  size (published_skeleton cp) <= N.of_nat (length (m_words (step_start d cp m))) ->
  exists outs m',
    mach_step d p cp now inputs m = Some (outs, m') /\
    length outs = length (p_outs p) /\
    run_ok 0 (size (published_skeleton cp)) 0 (event_ok (published_skeleton cp)) (step_start d cp m) m'.
Proof.
  intros d p cp now inputs m Hcomp Hwf Hpos Hlen Hbd. unfold wf_prog in Hwf. unfold compile in Hcomp.
  destruct (wf_funs [] (p_funs p)) as [g|] eqn:Hf; [|discriminate].
  destruct (wf_lets g (p_inputs p) (p_lets p)) as [vars|] eqn:Hl; [|discriminate].
  destruct (compile_funs (fun _ => None) (p_funs p)) as [ce|] eqn:Hcf; [|discriminate].
  destruct (funs_total _ _ _ _ sig_ok_nil Hf) as (ce' & Hcf' & Hsig). rewrite Hcf in Hcf'. inv Hcf'.
  destruct (compile_lets ce' (p_lets p) (None, 0)) as [[[kl sl] c1]|] eqn:Hcl; [|discriminate].
  destruct (compile_outs ce' (p_outs p) c1) as [[[ko so] [nso ps]]|] eqn:Hco; [|discriminate]. inv Hcomp.
  pose proof (funs_ok d now _ _ _ Hf Hcf ce' (fun f cf H => H)) as Hfe.
  destruct (lets_ok d now g ce' _ Hsig Hfe _ _ _ _ _ _ _ Hcl Hl) as [El Rl].
  destruct (outs_ok d now g ce' _ Hsig Hfe _ _ _ _ _ _ Hco Hwf) as [Eo Ro].
  rewrite eff_none in *. cbn [snd] in *.
  unfold mach_step. cbn [cp_fenv cp_inputs cp_lets cp_outs cp_pop].
  change (match d with
          | VmD => _
          | WasmD => _
          end) with (step_start d {| cp_fenv := ce'; cp_inputs := p_inputs p; cp_lets := kl; cp_outs := ko; cp_pop := ps; cp_skel := sl ++ so |} m).
  set (cp := {| cp_fenv := ce'; cp_inputs := p_inputs p; cp_lets := kl; cp_outs := ko; cp_pop := ps; cp_skel := sl ++ so |}) in *.
  set (ms := step_start d cp m) in *.
  assert (Hps : m_pos ms = 0) by (unfold ms, step_start; destruct d; exact Hpos).
  change (size (published_skeleton cp)) with (skels_size (sl ++ so)) in *.
  destruct (bind_params_ok (p_inputs p) inputs Hlen) as (r0 & -> & Hr0).
  destruct (Rl r0 ms 0 Hr0 ltac:(lia) ltac:(sz)) as (r1 & m1 & -> & Hr1 & Hol).
  pose proof Hol as (Hp1 & Hl1 & _).
  destruct (Ro r1 m1 0 Hr1 Hp1 ltac:(rewrite Hl1; sz)) as (vs & m2 & -> & Hlvs & Hoo).
  pose proof Hoo as (Hp2 & Hl2 & _).
  destruct (opt_pop_ok d ps m2 0 (skels_size (sl ++ so)) (FnCall (sl ++ so)) 0 ltac:(lia)) as (m3 & -> & Hop).
  rewrite Hp2 in Hop. replace (0 + ps - ps) with 0 in Hop by lia.
  exists vs, m3. split; [reflexivity|]. split; [exact Hlvs|].
  assert (H12 : run_ok 0 (skels_size (sl ++ so)) (0 + ps) (event_at (FnCall (sl ++ so)) 0) ms m2).
  { eapply run_ok_trans; [exact Hol|exact Hoo|try sz..| |].
    - intros ev. apply event_at_app_l.
    - intros ev. apply event_at_app_r. lia. }
  eapply run_ok_trans; [exact H12|exact Hop|try sz..|auto|auto].
Qed.

Lemma step_start_vm_length : forall cp m,
  N.of_nat (length (m_words (step_start VmD cp m))) = size (published_skeleton cp).
Proof. intros. cbn [step_start m_words]. rewrite resize_words_length. lia. Qed.

(* C05_layout_exact *)
Theorem layout_exact : forall p cp now inputs m,
  compile p = Some cp -> wf_prog p = true -> m_pos m = 0%N -> length inputs = length (p_inputs p) ->
  exists outs m',
    mach_step VmD p cp now inputs m = Some (outs, m') /\
    length outs = length (p_outs p) /\
    m_pos m' = 0%N /\
    length (m_words m') = N.to_nat (size (published_skeleton cp)) /\
    Forall (event_ok (published_skeleton cp)) (m_trace m').
Proof.
  intros p cp now inputs m Hc Hwf Hpos Hlen.
  destruct (step_ok VmD p cp now inputs m Hc Hwf Hpos Hlen) as (outs & m' & Hstep & Hlo & Hp & Hl & _ & evs & Ht & Hev).
  { rewrite step_start_vm_length. lia. }
  exists outs, m'. split; [exact Hstep|]. split; [exact Hlo|]. split; [exact Hp|]. split.
  - rewrite Hl. cbn [step_start m_words]. apply resize_words_length.
  - rewrite Ht. cbn [step_start m_trace]. rewrite app_nil_r. exact Hev.
Qed.

(* every run length, both disciplines *)
Theorem run_all_ok : forall d p cp, compile p = Some cp -> wf_prog p = true ->
  forall rows t0 m, rows_ok p rows -> m_pos m = 0 ->
  match d with VmD => True | WasmD => size (published_skeleton cp) <= N.of_nat (length (m_words m)) end ->
  Forall (fun r => exists o w tr, r = Some (o, w, 0, tr) /\ length o = length (p_outs p) /\
                   length w = match d with VmD => N.to_nat (size (published_skeleton cp)) | WasmD => length (m_words m) end /\
                   Forall (event_ok (published_skeleton cp)) tr)
         (mach_run d p cp t0 rows m).
Proof.
  intros d p cp Hc Hwf. induction rows as [|i rows IH]; intros t0 m Hrows Hpos Hbd; cbn [mach_run].
  - constructor.
  - inversion Hrows as [|? ? Hi Hrows']; subst.
    destruct (step_ok d p cp t0 i m Hc Hwf Hpos Hi) as (outs & m' & Hstep & Hlo & Hp & Hl & _ & evs & Ht & Hev).
    { destruct d; [rewrite step_start_vm_length; lia|exact Hbd]. }
    rewrite Hstep.
    assert (Hlen' : length (m_words m') = match d with VmD => N.to_nat (size (published_skeleton cp)) | WasmD => length (m_words m) end).
    { rewrite Hl. destruct d; cbn [step_start m_words]; [apply resize_words_length|reflexivity]. }
    constructor.
    + exists outs, (m_words m'), (rev (m_trace m')). rewrite Hp. split; [reflexivity|]. split; [exact Hlo|].
      split; [exact Hlen'|]. apply Forall_rev. rewrite Ht.
      replace (m_trace (step_start d cp m)) with (@nil (N * N * N)) by (destruct d; reflexivity).
      rewrite app_nil_r. exact Hev.
    + specialize (IH (t0 + 1)%Z m' Hrows' Hp).
      destruct d.
      * apply IH. exact I.
      * rewrite Hlen' in IH. apply IH. exact Hbd.
Qed.

(* C05_run_layout_exact *)
Theorem run_layout_exact : forall p cp t0 rows,
  compile p = Some cp -> wf_prog p = true -> rows_ok p rows ->
  Forall (fun r => exists o w tr, r = Some (o, w, 0%N, tr) /\
                   length w = N.to_nat (size (published_skeleton cp)) /\
                   Forall (event_ok (published_skeleton cp)) tr)
         (mach_run VmD p cp t0 rows m0).
Proof.
  intros p cp t0 rows Hc Hwf Hrows.
  eapply Forall_impl; [|apply (run_all_ok VmD p cp Hc Hwf rows t0 m0 Hrows eq_refl I)].
  intros r (o & w & tr & -> & _ & Hl & Hev). exists o, w, tr. auto.
Qed.

Lemma event_ok_bound : forall sk k ps sz, event_ok sk (k, ps, sz) -> k < 3 -> ps + sz <= size sk.
Proof.
  intros sk k ps sz Hev Hk. unfold event_ok, event_at in Hev.
  destruct k as [|q]; [|destruct q as [q|q|]; [lia|destruct q; [lia|lia|]|]].
  - destruct Hev as [Hin ->]. apply leaves_bound in Hin. cbn [size] in Hin. lia.
  - destruct Hev as (n & Hin & ->). apply leaves_bound in Hin. rewrite size_Delay in Hin. lia.
  - destruct Hev as [[Hin|Hin] ->]; apply leaves_bound in Hin; cbn [size] in Hin; lia.
Qed.

(* C03_safety *)
Theorem safety : forall p cp t0 rows d,
  compile p = Some cp -> wf_prog p = true -> rows_ok p rows ->
  Forall (fun r => exists o w pos tr, r = Some (o, w, pos, tr) /\ length o = length (p_outs p) /\
                   Forall (fun ev => let '(k,ps,sz) := ev in (k < 3)%N -> (ps + sz <= N.of_nat (length w))%N) tr)
         (mach_run d p cp t0 rows (init_state d cp)).
Proof.
  intros p cp t0 rows d Hc Hwf Hrows.
  assert (Hbd : match d with VmD => True | WasmD => size (published_skeleton cp) <= N.of_nat (length (m_words (init_state d cp))) end).
  { destruct d; [exact I|]. cbn [init_state m_words]. rewrite repeat_length. lia. }
  assert (Hp0 : m_pos (init_state d cp) = 0) by (destruct d; reflexivity).
  eapply Forall_impl; [|apply (run_all_ok d p cp Hc Hwf rows t0 (init_state d cp) Hrows Hp0 Hbd)].
  intros r (o & w & tr & -> & Hlo & Hl & Hev). exists o, w, 0, tr. split; [reflexivity|]. split; [exact Hlo|].
  eapply Forall_impl; [|exact Hev]. intros [[k ps] sz] He Hk.
  pose proof (event_ok_bound _ _ _ _ He Hk) as Hb.
  destruct d; [lia|]. cbn [init_state m_words] in Hl. rewrite repeat_length in Hl. lia.
Qed.
