(* Lmmm/Machine.v — the cursor machine: flat state words + a state cursor, executing compiled `code`.
   Mirrors runtime/vm.rs (StateStorage::{get_state,get_state_mut,get_as_ringbuffer,push_pos,pop_pos},
   Instruction::{GetState,SetState,PushStatePos,PopStatePos,Mem,Delay}, Ringbuffer::process,
   execute_idx) and runtime/wasm.rs (state_{push,pop,get,set,mem,delay}_host).
   Two disciplines:
     VmD   — fixed-size storage, plain u64 cursor arithmetic; an out-of-range access or a cursor
             underflow is undefined behaviour / a panic on the real VM: the model stops with None.
     WasmD — saturating cursor arithmetic, storage grown on demand (zero filled).
   The trace records (kind, cursor, size): 0 get_state, 1 get_state_mut, 2 ring buffer, 3 push, 4 pop —
   the same events hook H1 records on the real VM. *)
From Coq Require Import List ZArith NArith Bool.
From Mimium Require Import StateTree.Model Lmmm.Syntax Lmmm.Compile.
Import ListNotations.

Inductive disc := VmD | WasmD.

Record mstate := mkM { m_words : list Z; m_pos : N; m_trace : list (N * N * N) }.

Definition tr (k p s : N) (m : mstate) : mstate :=
  mkM (m_words m) (m_pos m) ((k, p, s) :: m_trace m).

(* make sure words [0, need) exist *)
Definition ensure (d : disc) (need : N) (m : mstate) : option mstate :=
  if (need <=? N.of_nat (length (m_words m)))%N then Some m
  else match d with
       | VmD => None
       | WasmD => Some (mkM (m_words m ++ repeat 0%Z (N.to_nat need - length (m_words m)))
                            (m_pos m) (m_trace m))
       end.

Definition do_push (o : N) (m : mstate) : mstate :=
  let m := tr 3 (m_pos m) o m in
  mkM (m_words m) (m_pos m + o)%N (m_trace m).

Definition do_pop (d : disc) (k : N) (m : mstate) : option mstate :=
  let m := tr 4 (m_pos m) k m in
  if (k <=? m_pos m)%N then Some (mkM (m_words m) (m_pos m - k)%N (m_trace m))
  else match d with
       | VmD => None
       | WasmD => Some (mkM (m_words m) 0%N (m_trace m))
       end.

Definition opt_push (o : option N) (m : mstate) : mstate :=
  match o with Some k => do_push k m | None => m end.

Fixpoint set_nth (l : list Z) (i : nat) (v : Z) : list Z :=
  match l, i with
  | [], _ => []
  | _ :: l', O => v :: l'
  | x :: l', S i' => x :: set_nth l' i' v
  end.

Definition rd (m : mstate) (i : N) : Z := nth (N.to_nat i) (m_words m) 0%Z.
Definition wr (m : mstate) (i : N) (v : Z) : mstate :=
  mkM (set_nth (m_words m) (N.to_nat i) v) (m_pos m) (m_trace m).

(* Instruction::GetState (size 1) *)
Definition get1 (d : disc) (m : mstate) : option (Z * mstate) :=
  let m := tr 0 (m_pos m) 1 m in
  match ensure d (m_pos m + 1) m with
  | Some m => Some (rd m (m_pos m), m)
  | None => None
  end.

(* Instruction::SetState (size 1) *)
Definition set1 (d : disc) (v : Z) (m : mstate) : option mstate :=
  let m := tr 1 (m_pos m) 1 m in
  match ensure d (m_pos m + 1) m with
  | Some m => Some (wr m (m_pos m) v)
  | None => None
  end.

(* Instruction::Mem *)
Definition mem1 (d : disc) (v : Z) (m : mstate) : option (Z * mstate) :=
  let m := tr 1 (m_pos m) 1 (tr 1 (m_pos m) 1 m) in
  match ensure d (m_pos m + 1) m with
  | Some m => Some (rd m (m_pos m), wr m (m_pos m) v)
  | None => None
  end.

Definition clampZ (t lo hi : Z) : Z := Z.max lo (Z.min t hi).

(* Instruction::Delay / Ringbuffer::process on [read_idx; write_idx; data[len]] at the cursor *)
Definition delay1 (d : disc) (n : N) (x t : Z) (m : mstate) : option (Z * mstate) :=
  let m := tr 2 (m_pos m) (n + 2) m in
  if N.eqb n 0 then
    match d with
    | VmD => match ensure d (m_pos m + 2) m with Some m => Some (0%Z, m) | None => None end
    | WasmD => Some (0%Z, m)
    end
  else
    match ensure d (m_pos m + 2 + n) m with
    | Some m =>
        let p := m_pos m in
        let len := Z.of_N n in
        let dl := clampZ t 0 (len - 1) in
        let w := ((rd m (p + 1)) mod len)%Z in
        let r := ((w + len - dl) mod len)%Z in
        let res := rd m (p + 2 + Z.to_N r) in
        let m := wr m (p + 2 + Z.to_N w) x in
        let m := wr m p r in
        let m := wr m (p + 1) ((w + 1) mod len)%Z in
        Some (res, m)
    | None => None
    end.

Definition mach_fn := list Z -> mstate -> option (Z * mstate).

Section Run.
  Variable d : disc.
  Variable fenv : ident -> option mach_fn.
  Variable now : Z.
  Variable selfv : Z.

  Fixpoint run_code (r : env) (k : code) (m : mstate) {struct k} : option (Z * mstate) :=
    match k with
    | KLit z => Some (z, m)
    | KVar x => match lookup x r with Some v => Some (v, m) | None => None end
    | KNow => Some (now, m)
    | KSr => Some (SAMPLE_RATE, m)
    | KSelf => Some (selfv, m)
    | KBin op a b =>
        match run_code r a m with
        | Some (va, m1) =>
            match run_code r b m1 with
            | Some (vb, m2) => Some (eval_binop op va vb, m2)
            | None => None
            end
        | None => None
        end
    | KNeg a =>
        match run_code r a m with
        | Some (va, m1) => Some ((- va)%Z, m1)
        | None => None
        end
    | KLet x a b =>
        match run_code r a m with
        | Some (va, m1) => run_code ((x, va) :: r) b m1
        | None => None
        end
    | KIf c push0 t pusht padt e pushe =>
        match run_code r c m with
        | Some (vc, m1) =>
            let m1 := opt_push push0 m1 in
            if (0 <? vc)%Z
            then match run_code r t m1 with
                 | Some (v, m2) =>
                     let m2 := opt_push pusht m2 in
                     Some (v, if (0 <? padt)%N then do_push padt m2 else m2)
                 | None => None
                 end
            else match run_code r e m1 with
                 | Some (v, m2) => Some (v, opt_push pushe m2)
                 | None => None
                 end
        | None => None
        end
    | KCall f args push =>
        match (fix go (l : list code) (m : mstate) : option (list Z * mstate) :=
                 match l with
                 | [] => Some ([], m)
                 | a :: l' =>
                     match run_code r a m with
                     | Some (v, m1) =>
                         match go l' m1 with
                         | Some (vs, m2) => Some (v :: vs, m2)
                         | None => None
                         end
                     | None => None
                     end
                 end) args m with
        | Some (vs, m1) =>
            match fenv f with
            | Some fn => fn vs (opt_push push m1)
            | None => None
            end
        | None => None
        end
    | KMem a push =>
        match run_code r a m with
        | Some (va, m1) => mem1 d va (opt_push push m1)
        | None => None
        end
    | KDelay n a t push =>
        match run_code r a m with
        | Some (va, m1) =>
            match run_code r t m1 with
            | Some (vt, m2) => delay1 d n va vt (opt_push push m2)
            | None => None
            end
        | None => None
        end
    end.
End Run.

(* a compiled function: [GetState] body [PopStateOffset] [SetState] Return *)
Definition mach_call (d : disc) (fenv : ident -> option mach_fn) (now : Z) (cf : cfun) : mach_fn :=
  fun vs m =>
    match bind_params (c_params cf) vs with
    | Some r =>
        match (if c_feed cf then get1 d m else Some (0%Z, m)) with
        | Some (selfv, m1) =>
            match run_code d fenv now selfv r (c_body cf) m1 with
            | Some (v, m2) =>
                match (if (0 <? c_pop cf)%N then do_pop d (c_pop cf) m2 else Some m2) with
                | Some m3 =>
                    if c_feed cf
                    then match set1 d v m3 with Some m4 => Some (v, m4) | None => None end
                    else Some (v, m3)
                | None => None
                end
            | None => None
            end
        | None => None
        end
    | None => None
    end.

(* machine-level function environment, built in the same order as Compile.compile_funs *)
Fixpoint mach_fenv (d : disc) (now : Z) (ce : cenv) (fs_rev : list fundef) : ident -> option mach_fn :=
  match fs_rev with
  | [] => fun _ => None
  | fd :: earlier =>
      let fe := mach_fenv d now ce earlier in
      fun name =>
        if N.eqb name (f_name fd)
        then match ce name with Some cf => Some (mach_call d fe now cf) | None => None end
        else fe name
  end.

Fixpoint run_lets (d : disc) (fenv : ident -> option mach_fn) (now : Z) (r : env)
         (lets : list (ident * code)) (m : mstate) : option (env * mstate) :=
  match lets with
  | [] => Some (r, m)
  | (x, k) :: rest =>
      match run_code d fenv now 0%Z r k m with
      | Some (v, m1) => run_lets d fenv now ((x, v) :: r) rest m1
      | None => None
      end
  end.

Fixpoint run_outs (d : disc) (fenv : ident -> option mach_fn) (now : Z) (r : env)
         (outs : list code) (m : mstate) : option (list Z * mstate) :=
  match outs with
  | [] => Some ([], m)
  | k :: rest =>
      match run_code d fenv now 0%Z r k m with
      | Some (v, m1) =>
          match run_outs d fenv now r rest m1 with
          | Some (vs, m2) => Some (v :: vs, m2)
          | None => None
          end
      | None => None
      end
  end.

(* execute_idx(dsp): resize the storage to the skeleton size (contents kept, cursor NOT reset), run *)
Definition resize_words (l : list Z) (n : nat) : list Z :=
  firstn n l ++ repeat 0%Z (n - length l).

Definition mach_step (d : disc) (p : program) (cp : cprog) (now : Z) (inputs : list Z) (m : mstate)
  : option (list Z * mstate) :=
  let fe := mach_fenv d now (cp_fenv cp) (rev (p_funs p)) in
  let m := match d with
           | VmD => mkM (resize_words (m_words m) (N.to_nat (size (published_skeleton cp)))) (m_pos m) []
           | WasmD => mkM (m_words m) (m_pos m) []
           end in
  match bind_params (cp_inputs cp) inputs with
  | Some r0 =>
      match run_lets d fe now r0 (cp_lets cp) m with
      | Some (r, m1) =>
          match run_outs d fe now r (cp_outs cp) m1 with
          | Some (vs, m2) =>
              match (if (0 <? cp_pop cp)%N then do_pop d (cp_pop cp) m2 else Some m2) with
              | Some m3 => Some (vs, m3)
              | None => None
              end
          | None => None
          end
      | None => None
      end
  | None => None
  end.

Definition m0 : mstate := mkM [] 0%N [].

(* run samples t0, t0+1, ...; returns per sample (outputs, words after, cursor after, trace (oldest first)) *)
Fixpoint mach_run (d : disc) (p : program) (cp : cprog) (t0 : Z) (inputs : list (list Z)) (m : mstate)
  : list (option (list Z * list Z * N * list (N * N * N))) :=
  match inputs with
  | [] => []
  | i :: rest =>
      match mach_step d p cp t0 i m with
      | Some (o, m') =>
          Some (o, m_words m', m_pos m', rev (m_trace m')) :: mach_run d p cp (t0 + 1)%Z rest m'
      | None => [None]
      end
  end.
