(* Lmmm/Wf.v — executable well-formedness of λmmm programs (the fragment the theorems quantify over).
   wf_prog p = true iff
     * function names are pairwise distinct and differ from nothing else (only functions are named by these ids),
     * every call refers to an EARLIER function with the right number of arguments,
     * every variable is bound (parameter, dsp input or enclosing let),
     * `self` occurs only inside functions (not in dsp).
   (Stateful constructs inside `if` arms are allowed since the repair of finding F2.) *)
From Coq Require Import List ZArith NArith Bool.
From Mimium Require Import Lmmm.Syntax.
Import ListNotations.

(* function signature environment: name -> (arity, stateful) *)
Definition sigenv := list (ident * (nat * bool)).

Fixpoint sig_lookup (f : ident) (g : sigenv) : option (nat * bool) :=
  match g with
  | [] => None
  | (n, s) :: g' => if N.eqb f n then Some s else sig_lookup f g'
  end.

(* does evaluating e touch state (given which functions are stateful)? *)
Fixpoint stateful_expr (g : sigenv) (e : expr) : bool :=
  match e with
  | ELit _ | EVar _ | ENow | ESr | ESelf => false
  | EBin _ a b => stateful_expr g a || stateful_expr g b
  | ENeg a => stateful_expr g a
  | ELet _ a b => stateful_expr g a || stateful_expr g b
  | EIf c t e' => stateful_expr g c || stateful_expr g t || stateful_expr g e'
  | ECall f args =>
      existsb (stateful_expr g) args ||
      match sig_lookup f g with Some (_, st) => st | None => false end
  | EMem _ => true
  | EDelay _ _ _ => true
  end.

Fixpoint mem_id (x : ident) (l : list ident) : bool :=
  match l with [] => false | y :: l' => N.eqb x y || mem_id x l' end.

Fixpoint wf_expr (g : sigenv) (in_fun : bool) (vars : list ident) (e : expr) : bool :=
  match e with
  | ELit _ | ENow | ESr => true
  | EVar x => mem_id x vars
  | ESelf => in_fun
  | EBin _ a b => wf_expr g in_fun vars a && wf_expr g in_fun vars b
  | ENeg a => wf_expr g in_fun vars a
  | ELet x a b => wf_expr g in_fun vars a && wf_expr g in_fun (x :: vars) b
  | EIf c t e' =>
      wf_expr g in_fun vars c && wf_expr g in_fun vars t && wf_expr g in_fun vars e'
  | ECall f args =>
      forallb (wf_expr g in_fun vars) args &&
      match sig_lookup f g with Some (ar, _) => Nat.eqb ar (length args) | None => false end
  | EMem a => wf_expr g in_fun vars a
  | EDelay n a t => wf_expr g in_fun vars a && wf_expr g in_fun vars t
  end.

Definition fun_sig (g : sigenv) (fd : fundef) : nat * bool :=
  (length (f_params fd), uses_self (f_body fd) || stateful_expr g (f_body fd)).

Fixpoint wf_funs (g : sigenv) (fs : list fundef) : option sigenv :=
  match fs with
  | [] => Some g
  | fd :: rest =>
      if negb (match sig_lookup (f_name fd) g with Some _ => true | None => false end) &&
         wf_expr g true (f_params fd) (f_body fd)
      then wf_funs ((f_name fd, fun_sig g fd) :: g) rest
      else None
  end.

Fixpoint wf_lets (g : sigenv) (vars : list ident) (lets : list (ident * expr)) : option (list ident) :=
  match lets with
  | [] => Some vars
  | (x, e) :: rest => if wf_expr g false vars e then wf_lets g (x :: vars) rest else None
  end.

Definition wf_prog (p : program) : bool :=
  match wf_funs [] (p_funs p) with
  | Some g =>
      match wf_lets g (p_inputs p) (p_lets p) with
      | Some vars => forallb (wf_expr g false vars) (p_outs p)
      | None => false
      end
  | None => false
  end.
