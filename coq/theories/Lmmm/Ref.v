(* Lmmm/Ref.v — reference semantics: call-by-value, every textual call site of a stateful
   construct owns its own zero-initialised state, organised as a TREE that mirrors the syntax
   (no offsets, no cursor).  `self` = the function instance's previous return value,
   `mem(x)` = x one sample earlier, `delay(n,x,t)` = x from floor(t) samples earlier (1<=t<=n-1),
   `now` counts samples from 0. *)
From Coq Require Import List ZArith NArith Bool.
From Mimium Require Import Lmmm.Syntax.
Import ListNotations.

Inductive cellv :=
| CNone                              (* never touched: reads as zero / empty history *)
| CMem (prev : Z)
| CDelay (hist : list Z) (ridx : Z)  (* inputs so far, most recent first; last read index *)
| CSelf (prev : Z).

Inductive stree := ST (cell : cellv) (kids : list stree).

Definition st0 : stree := ST CNone [].
Definition cell_of (s : stree) := let '(ST c _) := s in c.
Definition kid (s : stree) (i : nat) : stree := let '(ST _ ks) := s in nth i ks st0.

Definition clampZ (t lo hi : Z) : Z := Z.max lo (Z.min t hi).

(* what delay(n, x, t) returns given the history of earlier inputs (most recent first):
   d = clamp(t, 0, n-1); d >= 1: the input d samples earlier; d = 0: the slot about to be
   overwritten, i.e. the input n samples earlier; n = 0: 0. Missing history reads as 0. *)
Definition delay_read (n : N) (hist : list Z) (t : Z) : Z :=
  if N.eqb n 0 then 0%Z
  else let d := Z.to_nat (clampZ t 0 (Z.of_N n - 1)) in
       match d with
       | O => nth (N.to_nat n - 1) hist 0%Z
       | S d' => nth d' hist 0%Z
       end.

(* ring-buffer read index of that access (stored in the state, never read back) *)
Definition delay_ridx (n : N) (hist : list Z) (t : Z) : Z :=
  if N.eqb n 0 then 0%Z
  else let len := Z.of_N n in
       let w := (Z.of_nat (length hist) mod len)%Z in
       ((w + len - clampZ t 0 (len - 1)) mod len)%Z.

Definition ref_fn := list Z -> stree -> option (Z * stree).

Section Eval.
  Variable fenv : ident -> option ref_fn.
  Variable now : Z.
  Variable selfv : Z.

  Fixpoint ref_eval (r : env) (e : expr) (s : stree) {struct e} : option (Z * stree) :=
    match e with
    | ELit z => Some (z, st0)
    | EVar x => match lookup x r with Some v => Some (v, st0) | None => None end
    | ENow => Some (now, st0)
    | ESr => Some (SAMPLE_RATE, st0)
    | ESelf => Some (selfv, st0)
    | EBin op a b =>
        match ref_eval r a (kid s 0) with
        | Some (va, ka) =>
            match ref_eval r b (kid s 1) with
            | Some (vb, kb) => Some (eval_binop op va vb, ST CNone [ka; kb])
            | None => None
            end
        | None => None
        end
    | ENeg a =>
        match ref_eval r a (kid s 0) with
        | Some (va, ka) => Some ((- va)%Z, ST CNone [ka])
        | None => None
        end
    | ELet x a b =>
        match ref_eval r a (kid s 0) with
        | Some (va, ka) =>
            match ref_eval ((x, va) :: r) b (kid s 1) with
            | Some (vb, kb) => Some (vb, ST CNone [ka; kb])
            | None => None
            end
        | None => None
        end
    | EIf c t e' =>
        match ref_eval r c (kid s 0) with
        | Some (vc, kc) =>
            if (0 <? vc)%Z
            then match ref_eval r t (kid s 1) with
                 | Some (v, kt) => Some (v, ST CNone [kc; kt; kid s 2])
                 | None => None
                 end
            else match ref_eval r e' (kid s 2) with
                 | Some (v, ke) => Some (v, ST CNone [kc; kid s 1; ke])
                 | None => None
                 end
        | None => None
        end
    | ECall f args =>
        let nargs := length args in
        match (fix go (l : list expr) (i : nat) : option (list Z * list stree) :=
                 match l with
                 | [] => Some ([], [])
                 | a :: l' =>
                     match ref_eval r a (kid s i) with
                     | Some (v, k) =>
                         match go l' (S i) with
                         | Some (vs, ks) => Some (v :: vs, k :: ks)
                         | None => None
                         end
                     | None => None
                     end
                 end) args O with
        | Some (vs, ks) =>
            match fenv f with
            | Some fn =>
                match fn vs (kid s nargs) with
                | Some (v, ki) => Some (v, ST CNone (ks ++ [ki]))
                | None => None
                end
            | None => None
            end
        | None => None
        end
    | EMem a =>
        match ref_eval r a (kid s 0) with
        | Some (va, ka) =>
            let prev := match cell_of s with CMem z => z | _ => 0%Z end in
            Some (prev, ST (CMem va) [ka])
        | None => None
        end
    | EDelay n a t =>
        match ref_eval r a (kid s 0) with
        | Some (va, ka) =>
            match ref_eval r t (kid s 1) with
            | Some (vt, kt) =>
                let h := match cell_of s with CDelay h _ => h | _ => [] end in
                Some (delay_read n h vt, ST (CDelay (va :: h) (delay_ridx n h vt)) [ka; kt])
            | None => None
            end
        | None => None
        end
    end.
End Eval.

(* a function instance: its cell holds the previous return value *)
Definition ref_call (fenv : ident -> option ref_fn) (now : Z) (fd : fundef) : ref_fn :=
  fun vs inst =>
    match bind_params (f_params fd) vs with
    | Some r =>
        let selfv := match cell_of inst with CSelf z => z | _ => 0%Z end in
        match ref_eval fenv now selfv r (f_body fd) (kid inst 0) with
        | Some (v, kb) => Some (v, ST (CSelf v) [kb])
        | None => None
        end
    | None => None
    end.

(* functions in source order: each sees only the earlier ones *)
Fixpoint ref_fenv (now : Z) (fs_rev : list fundef) : ident -> option ref_fn :=
  match fs_rev with
  | [] => fun _ => None
  | fd :: earlier =>
      let fe := ref_fenv now earlier in
      fun name => if N.eqb name (f_name fd) then Some (ref_call fe now fd) else fe name
  end.

Fixpoint ref_lets (fenv : ident -> option ref_fn) (now : Z) (r : env) (lets : list (ident * expr))
         (s : stree) (i : nat) : option (env * list stree) :=
  match lets with
  | [] => Some (r, [])
  | (x, e) :: rest =>
      match ref_eval fenv now 0%Z r e (kid s i) with
      | Some (v, k) =>
          match ref_lets fenv now ((x, v) :: r) rest s (S i) with
          | Some (r', ks) => Some (r', k :: ks)
          | None => None
          end
      | None => None
      end
  end.

Fixpoint ref_outs (fenv : ident -> option ref_fn) (now : Z) (r : env) (outs : list expr)
         (s : stree) (i : nat) : option (list Z * list stree) :=
  match outs with
  | [] => Some ([], [])
  | e :: rest =>
      match ref_eval fenv now 0%Z r e (kid s i) with
      | Some (v, k) =>
          match ref_outs fenv now r rest s (S i) with
          | Some (vs, ks) => Some (v :: vs, k :: ks)
          | None => None
          end
      | None => None
      end
  end.

(* one sample of dsp *)
Definition ref_step (p : program) (now : Z) (inputs : list Z) (s : stree) : option (list Z * stree) :=
  let fe := ref_fenv now (rev (p_funs p)) in
  match bind_params (p_inputs p) inputs with
  | Some r0 =>
      match ref_lets fe now r0 (p_lets p) s O with
      | Some (r, ks1) =>
          match ref_outs fe now r (p_outs p) s (length (p_lets p)) with
          | Some (vs, ks2) => Some (vs, ST CNone (ks1 ++ ks2))
          | None => None
          end
      | None => None
      end
  | None => None
  end.

(* the output stream: samples now = t0, t0+1, ... for the given input rows *)
Fixpoint ref_run (p : program) (t0 : Z) (inputs : list (list Z)) (s : stree) : option (list (list Z) * stree) :=
  match inputs with
  | [] => Some ([], s)
  | i :: rest =>
      match ref_step p t0 i s with
      | Some (o, s') =>
          match ref_run p (t0 + 1)%Z rest s' with
          | Some (os, s'') => Some (o :: os, s'')
          | None => None
          end
      | None => None
      end
  end.
